#!/bin/sh
# Idempotent: link the in-tree macro front end (a2lmacros) into this crate's src/ directory.
# build.rs performs the same linking, so running this script is optional.
# The source location can be overridden with A2LMACROS_SRC (default /repo/a2lmacros/src).
set -eu
here="$(cd "$(dirname "$0")" && pwd)"
src="${A2LMACROS_SRC:-/repo/a2lmacros/src}"
for f in codegenerator.rs codegenerator util.rs; do
    if [ ! -e "$src/$f" ]; then
        echo "setup.sh: $src/$f does not exist" >&2
        exit 1
    fi
    ln -sfn "$src/$f" "$here/src/$f"
done
echo "specdump: linked codegenerator.rs, codegenerator/, util.rs -> $src"
