// The repository's own front end for the a2ml_specification! macro is textually included here, so
// that its private functions (parse_specification, generate_a2ml_constant, fixup_output_datatypes)
// can be called from the dump code below.
// A2LMACROS_SRC is exported by build.rs (default: /repo/a2lmacros/src).
include!(concat!(env!("A2LMACROS_SRC"), "/a2mlspec.rs"));

// ---------------------------------------------------------------------------------------------
// everything below this line is specdump code
// The JSON encoding is documented in README.md

use crate::json::Json;

pub(crate) struct A2mlDump {
    pub(crate) json: Json,
    pub(crate) summary: String,
}

pub(crate) fn dump(tokens: TokenStream) -> A2mlDump {
    let mut iter: TokenStreamIter = tokens.into_iter().peekable();
    let spec = parse_specification(&mut iter);

    // --- the a2ml text constant, exactly as a2ml_specification() generates it ---
    // generate_a2ml_constant returns `pub(crate) const <NAME>_TEXT: &str = "<literal>";`
    let const_tokens = generate_a2ml_constant(&spec);
    let (const_name, const_text) = extract_constant(const_tokens);
    // self-check of the literal un-escaping: rebuild the text with the macro's own helper functions,
    // following the body of generate_a2ml_constant()
    {
        let mut definition = String::new();
        for (name, item) in &spec.types.list {
            generate_a2ml_constant_of_item(
                &mut definition,
                &Some(name.clone()),
                item,
                A2ML_INITIAL_INDENT_LEVEL,
                true,
            );
            definition.push_str(";\n\n");
        }
        generate_a2ml_constant_of_ifdata_block(
            &mut definition,
            &spec.ifdata_item,
            A2ML_INITIAL_INDENT_LEVEL,
        );
        assert_eq!(
            definition, const_text,
            "un-escaped literal differs from the directly rebuilt a2ml text"
        );
    }

    // --- the type list before fix-up (as parsed) ---
    let parsed_types: Vec<Json> = spec
        .types
        .list
        .iter()
        .map(|(name, basetype)| {
            Json::obj(vec![
                ("typename", Json::str(name)),
                ("ty", enc_basetype(&Some(name.clone()), basetype)),
            ])
        })
        .collect();
    let parsed_ifdata = match &spec.ifdata_item {
        Some(item) => enc_dataitem(item),
        None => Json::Null,
    };

    // --- the type list after fix-up: this is what the code generators get to see ---
    let outtypes = fixup_output_datatypes(&spec);
    let mut typesvec: Vec<(&String, &DataItem)> = outtypes.iter().collect();
    typesvec.sort_by(|a, b| a.0.cmp(b.0));

    let mut failures = Vec::new();
    let mut out_types = std::collections::BTreeMap::new();
    let (mut n_block, mut n_keyword, mut n_struct, mut n_enum) = (0, 0, 0, 0);
    for (typename, dataitem) in typesvec {
        let entry = match &dataitem.basetype {
            BaseType::Enum { enumitems } => {
                n_enum += 1;
                Json::obj(vec![
                    ("kind", Json::str("enum")),
                    ("enumitems", enc_enumitems(enumitems)),
                ])
            }
            BaseType::Struct { structitems } => {
                n_struct += 1;
                Json::obj(vec![
                    ("kind", Json::str("struct")),
                    ("items", enc_dataitems(structitems)),
                ])
            }
            BaseType::Block {
                blockitems,
                is_block,
                used_in_list,
            } => {
                if *is_block {
                    n_block += 1;
                } else {
                    n_keyword += 1;
                }
                Json::obj(vec![
                    (
                        "kind",
                        Json::str(if *is_block { "block" } else { "keyword" }),
                    ),
                    ("used_in_list", Json::Bool(*used_in_list)),
                    ("items", enc_dataitems(blockitems)),
                ])
            }
            other => {
                failures.push(Json::Str(format!(
                    "{typename}: only block, struct and enum are allowed as top-level types, got {other:?}"
                )));
                continue;
            }
        };
        out_types.insert(typename.clone(), entry);

        // finally run the real code generators on the type, as a2ml_specification() does: if any of them
        // panics, then the macro would fail to expand
        let generated = std::panic::catch_unwind(std::panic::AssertUnwindSafe(|| {
            let mut result = TokenStream::new();
            result.extend(codegenerator::data_structure::generate(typename, dataitem, false));
            result.extend(codegenerator::ifdata_parser::generate(typename, dataitem));
            result.extend(codegenerator::ifdata_writer::generate(typename, dataitem));
            result
        }));
        if generated.is_err() {
            failures.push(Json::Str(format!("{typename}: the code generator panicked")));
        }
    }

    let summary = format!(
        "specdump a2ml: spec {}: {} parsed named types, IF_DATA {}; after fix-up {} types: {} block, {} keyword, {} struct, {} enum; a2ml_const {} bytes; failures: {}",
        spec.name,
        spec.types.list.len(),
        if spec.ifdata_item.is_some() { "present" } else { "absent" },
        out_types.len(),
        n_block,
        n_keyword,
        n_struct,
        n_enum,
        const_text.len(),
        failures.len()
    );

    let json = Json::obj(vec![
        ("name", Json::str(&spec.name)),
        ("types", Json::Obj(out_types)),
        (
            "parsed",
            Json::obj(vec![
                ("types", Json::Arr(parsed_types)),
                ("ifdata", parsed_ifdata),
            ]),
        ),
        ("a2ml_const_name", Json::Str(const_name)),
        ("a2ml_const", Json::Str(const_text)),
        ("failures", Json::Arr(failures)),
    ]);

    A2mlDump { json, summary }
}

// pick the name and the string value out of `pub(crate) const NAME: &str = "literal";`
fn extract_constant(tokens: TokenStream) -> (String, String) {
    let mut name = None;
    let mut value = None;
    let mut prev_was_const = false;
    for tok in tokens {
        match tok {
            TokenTree::Ident(id) => {
                if prev_was_const {
                    name = Some(id.to_string());
                }
                prev_was_const = id == "const";
            }
            TokenTree::Literal(lit) => {
                prev_was_const = false;
                value = Some(unescape_string_literal(&lit.to_string()));
            }
            _ => {
                prev_was_const = false;
            }
        }
    }
    (
        name.expect("no constant name in the output of generate_a2ml_constant"),
        value.expect("no string literal in the output of generate_a2ml_constant"),
    )
}

// inverse of proc_macro2::Literal::string(), which escapes like char::escape_debug (plus \0)
fn unescape_string_literal(lit: &str) -> String {
    let inner = lit
        .strip_prefix('"')
        .and_then(|s| s.strip_suffix('"'))
        .unwrap_or_else(|| panic!("not a plain string literal: {lit}"));
    let mut out = String::new();
    let mut chars = inner.chars();
    while let Some(c) = chars.next() {
        if c != '\\' {
            out.push(c);
            continue;
        }
        match chars.next() {
            Some('n') => out.push('\n'),
            Some('r') => out.push('\r'),
            Some('t') => out.push('\t'),
            Some('0') => out.push('\0'),
            Some('\\') => out.push('\\'),
            Some('"') => out.push('"'),
            Some('\'') => out.push('\''),
            Some('x') => {
                let hex: String = chars.by_ref().take(2).collect();
                out.push(u8::from_str_radix(&hex, 16).expect("bad \\x escape") as char);
            }
            Some('u') => {
                assert_eq!(chars.next(), Some('{'), "bad \\u escape");
                let mut hex = String::new();
                for h in chars.by_ref() {
                    if h == '}' {
                        break;
                    }
                    hex.push(h);
                }
                let cp = u32::from_str_radix(&hex, 16).expect("bad \\u escape");
                out.push(char::from_u32(cp).expect("bad \\u escape"));
            }
            other => panic!("unknown escape sequence \\{other:?} in string literal"),
        }
    }
    out
}

fn enc_enumitems(enumitems: &[EnumItem]) -> Json {
    Json::Arr(
        enumitems
            .iter()
            .map(|enitem| {
                Json::obj(vec![
                    ("tag", Json::str(&enitem.name)),
                    ("variant", Json::Str(ucname_to_typename(&enitem.name))),
                    (
                        "value",
                        match enitem.value {
                            Some(v) => Json::Int(i64::from(v)),
                            None => Json::Null,
                        },
                    ),
                    ("comment", Json::opt_str(&enitem.comment)),
                ])
            })
            .collect(),
    )
}

fn enc_dataitems(items: &[DataItem]) -> Json {
    Json::Arr(items.iter().map(enc_dataitem).collect())
}

// a DataItem: {"name": varname|null, "typename": typename|null, "comment": ..|null, "ty": T}
fn enc_dataitem(item: &DataItem) -> Json {
    Json::obj(vec![
        ("name", Json::opt_str(&item.varname)),
        ("typename", Json::opt_str(&item.typename)),
        ("comment", Json::opt_str(&item.comment)),
        ("ty", enc_basetype(&item.typename, &item.basetype)),
    ])
}

fn enc_taggeditems(tgitems: &[TaggedItem]) -> Json {
    Json::Arr(
        tgitems
            .iter()
            .map(|tgitem| {
                Json::obj(vec![
                    ("tag", Json::str(&tgitem.tag)),
                    // the generators derive the field name from the tag and the type from item.typename
                    ("var", Json::Str(make_varname(&tgitem.tag))),
                    ("type", Json::opt_str(&tgitem.item.typename)),
                    ("block", Json::Bool(tgitem.is_block)),
                    ("repeat", Json::Bool(tgitem.repeat)),
                    ("required", Json::Bool(tgitem.required)),
                    ("is_named", Json::Bool(tgitem.is_named)),
                    ("item", enc_dataitem(&tgitem.item)),
                ])
            })
            .collect(),
    )
}

// T: total over BaseType, so that it can be used before and after the fix-up
fn enc_basetype(typename: &Option<String>, basetype: &BaseType) -> Json {
    let int = |t: &str| Json::obj(vec![("k", Json::str("int")), ("t", Json::str(t))]);
    let simple = |k: &str| Json::obj(vec![("k", Json::str(k))]);
    let named = |k: &str| Json::obj(vec![("k", Json::str(k)), ("name", Json::opt_str(typename))]);
    match basetype {
        BaseType::None => simple("none"),
        BaseType::Char => int("i8"),
        BaseType::Int => int("i16"),
        BaseType::Long => int("i32"),
        BaseType::Int64 => int("i64"),
        BaseType::Uchar => int("u8"),
        BaseType::Uint => int("u16"),
        BaseType::Ulong => int("u32"),
        BaseType::Uint64 => int("u64"),
        BaseType::Double => simple("double"),
        BaseType::Float => simple("float"),
        BaseType::Ident => simple("ident"),
        BaseType::String => simple("string"),
        BaseType::Array { arraytype, dim } => {
            if arraytype.basetype == BaseType::Char {
                Json::obj(vec![
                    ("k", Json::str("string_maxlen")),
                    ("dim", Json::Int(*dim as i64)),
                ])
            } else {
                // note: the array element carries its own typename, see README.md
                Json::obj(vec![
                    ("k", Json::str("array")),
                    ("item", enc_basetype(&arraytype.typename, &arraytype.basetype)),
                    ("dim", Json::Int(*dim as i64)),
                ])
            }
        }
        BaseType::Sequence { seqtype } => Json::obj(vec![
            ("k", Json::str("seq")),
            ("item", enc_basetype(typename, seqtype)),
        ]),
        BaseType::EnumRef => named("enum"),
        BaseType::StructRef => named("struct"),
        BaseType::TaggedUnionRef => named("taggedunionref"),
        BaseType::TaggedStructRef => named("taggedstructref"),
        BaseType::Enum { enumitems } => Json::obj(vec![
            ("k", Json::str("enumdef")),
            ("name", Json::opt_str(typename)),
            ("enumitems", enc_enumitems(enumitems)),
        ]),
        BaseType::Struct { structitems } => Json::obj(vec![
            ("k", Json::str("structdef")),
            ("name", Json::opt_str(typename)),
            ("items", enc_dataitems(structitems)),
        ]),
        BaseType::TaggedUnion { tuitems } => Json::obj(vec![
            ("k", Json::str("taggedunion")),
            ("items", enc_taggeditems(tuitems)),
        ]),
        BaseType::TaggedStruct { tsitems } => Json::obj(vec![
            ("k", Json::str("taggedstruct")),
            ("items", enc_taggeditems(tsitems)),
        ]),
        BaseType::Block {
            blockitems,
            is_block,
            used_in_list,
        } => Json::obj(vec![
            ("k", Json::str("blockdef")),
            ("is_block", Json::Bool(*is_block)),
            ("used_in_list", Json::Bool(*used_in_list)),
            ("items", enc_dataitems(blockitems)),
        ]),
    }
}
