// Minimal JSON value + serialiser.
// The output is byte-for-byte what Python's `json.dump(obj, f, indent=1, sort_keys=True)` produces
// (ensure_ascii=True, no trailing newline).

use std::collections::BTreeMap;

#[derive(Debug, Clone, PartialEq)]
pub(crate) enum Json {
    Null,
    Bool(bool),
    Int(i64),
    Str(String),
    Arr(Vec<Json>),
    Obj(BTreeMap<String, Json>),
}

impl Json {
    pub(crate) fn str(s: &str) -> Json {
        Json::Str(s.to_string())
    }

    pub(crate) fn opt_str(s: &Option<String>) -> Json {
        match s {
            Some(s) => Json::Str(s.clone()),
            None => Json::Null,
        }
    }

    pub(crate) fn obj(pairs: Vec<(&str, Json)>) -> Json {
        let mut map = BTreeMap::new();
        for (k, v) in pairs {
            let old = map.insert(k.to_string(), v);
            assert!(old.is_none(), "duplicate JSON key {k}");
        }
        Json::Obj(map)
    }

    pub(crate) fn to_string_indent1(&self) -> String {
        let mut out = String::new();
        self.write(&mut out, 0);
        out
    }

    fn write(&self, out: &mut String, level: usize) {
        match self {
            Json::Null => out.push_str("null"),
            Json::Bool(true) => out.push_str("true"),
            Json::Bool(false) => out.push_str("false"),
            Json::Int(i) => out.push_str(&i.to_string()),
            Json::Str(s) => write_string(out, s),
            Json::Arr(items) => {
                if items.is_empty() {
                    out.push_str("[]");
                    return;
                }
                out.push('[');
                for (idx, item) in items.iter().enumerate() {
                    if idx > 0 {
                        out.push(',');
                    }
                    newline_indent(out, level + 1);
                    item.write(out, level + 1);
                }
                newline_indent(out, level);
                out.push(']');
            }
            Json::Obj(map) => {
                if map.is_empty() {
                    out.push_str("{}");
                    return;
                }
                out.push('{');
                // BTreeMap<String, _> iterates in byte order of the UTF-8 encoding, which is the same
                // as the code point order used by Python's sort_keys
                for (idx, (key, value)) in map.iter().enumerate() {
                    if idx > 0 {
                        out.push(',');
                    }
                    newline_indent(out, level + 1);
                    write_string(out, key);
                    out.push_str(": ");
                    value.write(out, level + 1);
                }
                newline_indent(out, level);
                out.push('}');
            }
        }
    }
}

fn newline_indent(out: &mut String, level: usize) {
    out.push('\n');
    for _ in 0..level {
        out.push(' ');
    }
}

fn write_string(out: &mut String, s: &str) {
    out.push('"');
    for c in s.chars() {
        match c {
            '"' => out.push_str("\\\""),
            '\\' => out.push_str("\\\\"),
            '\n' => out.push_str("\\n"),
            '\r' => out.push_str("\\r"),
            '\t' => out.push_str("\\t"),
            '\u{08}' => out.push_str("\\b"),
            '\u{0c}' => out.push_str("\\f"),
            c if (c as u32) < 0x20 => out.push_str(&format!("\\u{:04x}", c as u32)),
            c if (c as u32) < 0x7f || c == '\u{7f}' => out.push(c),
            c => {
                // ensure_ascii: escape as UTF-16 code units
                let mut buf = [0u16; 2];
                for unit in c.encode_utf16(&mut buf) {
                    out.push_str(&format!("\\u{:04x}", unit));
                }
            }
        }
    }
    out.push('"');
}
