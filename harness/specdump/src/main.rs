//! specdump: dump the grammar described by the a2l_specification! / a2ml_specification! DSL as JSON
//!
//! The DSL is parsed by the repository's own macro front end (a2lmacros), which is compiled into
//! this binary as ordinary code:
//!   - src/codegenerator.rs, src/codegenerator/, src/util.rs are symlinks into the a2lmacros sources
//!     (created by setup.sh / build.rs)
//!   - src/a2lspec.rs and src/a2mlspec.rs include! the macro files of the same name and add the dump code
#![allow(dead_code, unused)]

use proc_macro2::{Delimiter, TokenStream, TokenTree};
use std::process::ExitCode;
use std::str::FromStr;

mod a2lspec;
mod a2mlspec;
mod codegenerator;
mod json;
mod util;

const USAGE: &str = "usage:
    specdump a2l  <dsl-file> <out.json>
    specdump a2ml <dsl-file> <out.json> [index]

<dsl-file> is either a Rust source file containing an a2l_specification! { ... } / a2ml_specification! { ... }
invocation, or a file that contains only the body of such an invocation.
[index] selects the n-th (0-based) a2ml_specification! invocation of the file, default 0.
<out.json> may be '-' for stdout.";

/// find all invocations `<macro_name> ! { ... }` in the token stream (at any nesting depth) and return their bodies
fn find_macro_bodies(tokens: TokenStream, macro_name: &str, found: &mut Vec<TokenStream>) {
    let toks: Vec<TokenTree> = tokens.into_iter().collect();
    let mut idx = 0;
    while idx < toks.len() {
        if let TokenTree::Ident(id) = &toks[idx] {
            if id == macro_name && idx + 2 < toks.len() {
                if let (TokenTree::Punct(p), TokenTree::Group(g)) = (&toks[idx + 1], &toks[idx + 2]) {
                    if p.as_char() == '!' && g.delimiter() != Delimiter::None {
                        found.push(g.stream());
                        idx += 3;
                        continue;
                    }
                }
            }
        }
        if let TokenTree::Group(g) = &toks[idx] {
            find_macro_bodies(g.stream(), macro_name, found);
        }
        idx += 1;
    }
}

/// get the DSL tokens from the input text: the body of the index-th invocation of the macro if there is one, else the whole text
fn get_dsl_tokens(text: &str, macro_name: &str, index: usize) -> Result<TokenStream, String> {
    let all_tokens =
        TokenStream::from_str(text).map_err(|e| format!("the input cannot be tokenized: {e}"))?;
    let mut bodies = Vec::new();
    find_macro_bodies(all_tokens.clone(), macro_name, &mut bodies);
    if bodies.is_empty() {
        if index != 0 {
            return Err(format!("no {macro_name}! invocation found, but index {index} was requested"));
        }
        eprintln!("specdump: no {macro_name}! invocation found, treating the whole input as the DSL body");
        Ok(all_tokens)
    } else if index < bodies.len() {
        if bodies.len() > 1 {
            eprintln!(
                "specdump: {} invocations of {macro_name}! found, using #{index}",
                bodies.len()
            );
        }
        Ok(bodies.swap_remove(index))
    } else {
        Err(format!(
            "index {index} requested, but only {} invocations of {macro_name}! were found",
            bodies.len()
        ))
    }
}

fn run(args: &[String]) -> Result<(), String> {
    if args.len() < 4 || args.len() > 5 {
        return Err(USAGE.to_string());
    }
    let mode = &*args[1];
    let infile = &args[2];
    let outfile = &args[3];
    let index: usize = match args.get(4) {
        Some(txt) => txt.parse().map_err(|e| format!("bad index {txt}: {e}"))?,
        None => 0,
    };

    let text = std::fs::read_to_string(infile).map_err(|e| format!("cannot read {infile}: {e}"))?;

    let (json, summary) = match mode {
        "a2l" => {
            if args.len() == 5 {
                return Err(USAGE.to_string());
            }
            let tokens = get_dsl_tokens(&text, "a2l_specification", 0)?;
            let result = a2lspec::dump(tokens);
            (result.json, result.summary)
        }
        "a2ml" => {
            let tokens = get_dsl_tokens(&text, "a2ml_specification", index)?;
            let result = a2mlspec::dump(tokens);
            (result.json, result.summary)
        }
        _ => return Err(USAGE.to_string()),
    };

    let out_text = json.to_string_indent1();
    if outfile == "-" {
        println!("{out_text}");
    } else {
        if let Some(parent) = std::path::Path::new(outfile).parent() {
            if !parent.as_os_str().is_empty() {
                std::fs::create_dir_all(parent)
                    .map_err(|e| format!("cannot create {}: {e}", parent.display()))?;
            }
        }
        std::fs::write(outfile, out_text).map_err(|e| format!("cannot write {outfile}: {e}"))?;
    }
    eprintln!("{summary}");
    Ok(())
}

fn main() -> ExitCode {
    let args: Vec<String> = std::env::args().collect();
    // the macro front end reports all errors in the DSL by panicking; turn that into exit code 2
    let result = std::panic::catch_unwind(|| run(&args));
    match result {
        Ok(Ok(())) => ExitCode::SUCCESS,
        Ok(Err(msg)) => {
            eprintln!("specdump: {msg}");
            ExitCode::from(1)
        }
        Err(_) => {
            eprintln!("specdump: the macro front end rejected the input (panic message above)");
            ExitCode::from(2)
        }
    }
}
