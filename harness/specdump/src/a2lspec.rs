// The repository's own front end for the a2l_specification! macro is textually included here, so
// that its private functions (parse_input, build_typelist) can be called from the dump code below.
// A2LMACROS_SRC is exported by build.rs (default: /repo/a2lmacros/src).
include!(concat!(env!("A2LMACROS_SRC"), "/a2lspec.rs"));

// ---------------------------------------------------------------------------------------------
// everything below this line is specdump code

use crate::json::Json;

pub(crate) struct A2lDump {
    pub(crate) json: Json,
    pub(crate) summary: String,
}

pub(crate) fn version_string(ver: &Option<A2lVersion>) -> Json {
    match ver {
        None => Json::Null,
        Some(A2lVersion::V1_5_0) => Json::str("1.5.0"),
        Some(A2lVersion::V1_5_1) => Json::str("1.5.1"),
        Some(A2lVersion::V1_6_0) => Json::str("1.6.0"),
        Some(A2lVersion::V1_6_1) => Json::str("1.6.1"),
        Some(A2lVersion::V1_7_0) => Json::str("1.7.0"),
        Some(A2lVersion::V1_7_1) => Json::str("1.7.1"),
    }
}

/// run the macro front end (parse_input + build_typelist) on the DSL tokens and dump the result
pub(crate) fn dump(tokens: TokenStream) -> A2lDump {
    let mut iter: TokenStreamIter = tokens.into_iter().peekable();
    let (structs, enums) = parse_input(&mut iter);
    let types = build_typelist(structs, enums);

    // same ordering as a2l_specification(): sorted by type name
    let mut typesvec: Vec<(&String, &DataItem)> = types.iter().collect();
    typesvec.sort_by(|a, b| a.0.cmp(b.0));

    let mut failures: Vec<Json> = Vec::new();
    let mut out_types = std::collections::BTreeMap::new();
    let (mut n_block, mut n_keyword, mut n_struct, mut n_enum) = (0, 0, 0, 0);
    let mut specials = Vec::new();

    for (typename, dataitem) in typesvec {
        // mirrors codegenerator::parser::generate()
        let entry = match &dataitem.basetype {
            BaseType::Enum { enumitems } => {
                n_enum += 1;
                Json::obj(vec![
                    ("kind", Json::str("enum")),
                    ("special", Json::Null),
                    ("items", Json::Arr(vec![])),
                    ("comments", Json::Bool(false)),
                    ("enumitems", dump_enumitems(enumitems)),
                ])
            }
            BaseType::Struct { structitems } => {
                n_struct += 1;
                // generate_block_parser_generic(typename, structitems, false)
                dump_block_generic("struct", typename, structitems, false, &mut failures)
            }
            BaseType::Block {
                blockitems,
                is_block,
                ..
            } => {
                let kind = if *is_block {
                    n_block += 1;
                    "block"
                } else {
                    n_keyword += 1;
                    "keyword"
                };
                // mirrors generate_block_parser(): no parser is generated for A2ml and IfData
                match &**typename {
                    "A2ml" | "IfData" => {
                        specials.push(typename.clone());
                        Json::obj(vec![
                            ("kind", Json::str(kind)),
                            ("special", Json::str(typename)),
                            ("items", Json::Arr(vec![])),
                            ("comments", Json::Bool(has_comments(blockitems, *is_block))),
                        ])
                    }
                    _ => dump_block_generic(kind, typename, blockitems, *is_block, &mut failures),
                }
            }
            other => {
                failures.push(Json::Str(format!(
                    "{typename}: only block, struct and enum are allowed as top-level types, got {other:?}"
                )));
                continue;
            }
        };
        out_types.insert(typename.clone(), entry);

        // finally run the real code generators on the type, as a2l_specification() does: if any of them
        // panics, then the macro would fail to expand and the dump does not describe generated code
        let generated = std::panic::catch_unwind(std::panic::AssertUnwindSafe(|| {
            let mut result = TokenStream::new();
            result.extend(codegenerator::data_structure::generate(typename, dataitem, true));
            result.extend(codegenerator::parser::generate(typename, dataitem));
            result.extend(codegenerator::writer::generate(typename, dataitem));
            result
        }));
        if generated.is_err() {
            failures.push(Json::Str(format!("{typename}: the code generator panicked")));
        }
    }

    let summary = format!(
        "specdump a2l: {} types: {} block + {} keyword = {} block/keyword (special: {}), {} struct, {} enum; failures: {}",
        out_types.len(),
        n_block,
        n_keyword,
        n_block + n_keyword,
        if specials.is_empty() { "none".to_string() } else { specials.join(", ") },
        n_struct,
        n_enum,
        failures.len()
    );

    let json = Json::obj(vec![
        ("types", Json::Obj(out_types)),
        ("failures", Json::Arr(failures)),
    ]);
    A2lDump { json, summary }
}

fn dump_enumitems(enumitems: &[EnumItem]) -> Json {
    // mirrors generate_enum_parser()
    Json::Arr(
        enumitems
            .iter()
            .map(|enitem| {
                Json::obj(vec![
                    ("tag", Json::str(&enitem.name)),
                    ("variant", Json::Str(ucname_to_typename(&enitem.name))),
                    ("vmin", version_string(&enitem.version_lower)),
                    ("vmax", version_string(&enitem.version_upper)),
                ])
            })
            .collect(),
    )
}

// the a2lcomment condition of generate_block_parser_generic()
fn has_comments(structitems: &[DataItem], is_block: bool) -> bool {
    let has_taggedstruct = structitems.iter().any(|item| {
        matches!(
            item.basetype,
            BaseType::TaggedStructRef | BaseType::TaggedStruct { .. }
        )
    });
    is_block && has_taggedstruct
}

// mirrors generate_block_parser_generic() + generate_struct_item_fragments()
fn dump_block_generic(
    kind: &str,
    typename: &str,
    structitems: &[DataItem],
    is_block: bool,
    failures: &mut Vec<Json>,
) -> Json {
    let mut items = Vec::new();
    for (idx, sitem) in structitems.iter().enumerate() {
        let is_last = idx == (structitems.len() - 1);
        match &sitem.basetype {
            BaseType::TaggedStruct { tsitems } => {
                items.push(dump_taggeditems(tsitems, false, is_block, is_last));
            }
            BaseType::TaggedUnion { tuitems } => {
                items.push(dump_taggeditems(tuitems, true, is_block, is_last));
            }
            BaseType::Sequence { seqtype } => {
                let seqtype: &BaseType = seqtype;
                // identical to the stopword computation in generate_struct_item_fragments
                let stopwords: Option<Vec<String>> = if *seqtype == BaseType::Ident && !is_last {
                    match &structitems[idx + 1].basetype {
                        BaseType::TaggedStruct { tsitems: items, .. }
                        | BaseType::TaggedUnion { tuitems: items, .. } => {
                            let kwitems: Vec<String> = items
                                .iter()
                                .filter(|item| !item.is_block)
                                .map(|item| item.tag.clone())
                                .collect();
                            if !kwitems.is_empty() {
                                Some(kwitems)
                            } else {
                                None
                            }
                        }
                        _ => None,
                    }
                } else {
                    None
                };
                let Some(varname) = &sitem.varname else {
                    failures.push(Json::Str(format!("{typename}: sequence item {idx} has no name")));
                    continue;
                };
                match dump_itemtype(&sitem.typename, seqtype) {
                    Ok(itemty) => {
                        let stop = match stopwords {
                            Some(words) => Json::Arr(words.iter().map(|w| Json::str(w)).collect()),
                            None => Json::Null,
                        };
                        let ty = Json::obj(vec![
                            ("k", Json::str("seq")),
                            ("item", itemty),
                            ("stop", stop),
                        ]);
                        items.push(Json::obj(vec![("name", Json::str(varname)), ("ty", ty)]));
                    }
                    Err(msg) => failures.push(Json::Str(format!("{typename}.{varname}: {msg}"))),
                }
            }
            _ => {
                let Some(varname) = &sitem.varname else {
                    failures.push(Json::Str(format!("{typename}: item {idx} has no name")));
                    continue;
                };
                match dump_itemtype(&sitem.typename, &sitem.basetype) {
                    Ok(ty) => items.push(Json::obj(vec![("name", Json::str(varname)), ("ty", ty)])),
                    Err(msg) => failures.push(Json::Str(format!("{typename}.{varname}: {msg}"))),
                }
            }
        }
    }

    Json::obj(vec![
        ("kind", Json::str(kind)),
        ("special", Json::Null),
        ("items", Json::Arr(items)),
        ("comments", Json::Bool(has_comments(structitems, is_block))),
    ])
}

// mirrors generate_item_parser_call(): only those types for which a parser call can be generated are accepted
fn dump_itemtype(typename: &Option<String>, item: &BaseType) -> Result<Json, String> {
    let int = |t: &str| Json::obj(vec![("k", Json::str("int")), ("t", Json::str(t))]);
    let simple = |k: &str| Json::obj(vec![("k", Json::str(k))]);
    Ok(match item {
        BaseType::Char => int("i8"),
        BaseType::Int => int("i16"),
        BaseType::Long => int("i32"),
        BaseType::Int64 => int("i64"),
        BaseType::Uchar => int("u8"),
        BaseType::Uint => int("u16"),
        BaseType::Ulong => int("u32"),
        BaseType::Uint64 => int("u64"),
        BaseType::Double => simple("double"),
        BaseType::Float => simple("float"),
        BaseType::Ident => simple("ident"),
        BaseType::String => simple("string"),
        BaseType::Array { arraytype, dim } => {
            if let BaseType::Char = arraytype.basetype {
                Json::obj(vec![
                    ("k", Json::str("string_maxlen")),
                    ("dim", Json::Int(*dim as i64)),
                ])
            } else {
                Json::obj(vec![
                    ("k", Json::str("array")),
                    ("item", dump_itemtype(&arraytype.typename, &arraytype.basetype)?),
                    ("dim", Json::Int(*dim as i64)),
                ])
            }
        }
        BaseType::EnumRef => {
            let Some(name) = typename else {
                return Err("EnumRef without a type name".to_string());
            };
            Json::obj(vec![("k", Json::str("enum")), ("name", Json::str(name))])
        }
        BaseType::StructRef => {
            let Some(name) = typename else {
                return Err("StructRef without a type name".to_string());
            };
            Json::obj(vec![("k", Json::str("struct")), ("name", Json::str(name))])
        }
        other => return Err(format!("forbidden type: {other:?}")),
    })
}

// mirrors generate_taggeditem_parser() / generate_taggeditem_match_arms() / generate_taggeditem_parser_core()
fn dump_taggeditems(
    tg_items: &[TaggedItem],
    is_taggedunion: bool,
    parent_is_block: bool,
    is_last: bool,
) -> Json {
    let items = tg_items
        .iter()
        .map(|item| {
            // generate_bare_typename() of a StructRef/EnumRef is the type name of the item
            let typename = Json::opt_str(&item.item.typename);
            Json::obj(vec![
                ("tag", Json::str(&item.tag)),
                ("type", typename),
                ("var", Json::Str(make_varname(&item.tag))),
                ("block", Json::Bool(item.is_block)),
                ("repeat", Json::Bool(item.repeat)),
                (
                    "named",
                    if item.repeat {
                        Json::Bool(item.is_named)
                    } else {
                        Json::Null
                    },
                ),
                ("required", Json::Bool(item.required)),
                ("vmin", version_string(&item.version_lower)),
                ("vmax", version_string(&item.version_upper)),
            ])
        })
        .collect();

    Json::obj(vec![
        (
            "tagged",
            Json::str(if is_taggedunion { "union" } else { "struct" }),
        ),
        ("is_last_in_block", Json::Bool(parent_is_block && is_last)),
        ("items", Json::Arr(items)),
    ])
}
