// Links the repository's macro front end into src/ (same as setup.sh) and exports
// the location of the macro sources so that src/a2lspec.rs and src/a2mlspec.rs can include! them.
use std::path::{Path, PathBuf};

fn link(target: &Path, linkpath: &Path) {
    if let Ok(existing) = std::fs::read_link(linkpath) {
        if existing == target {
            return;
        }
        std::fs::remove_file(linkpath).expect("cannot remove stale symlink");
    } else if linkpath.exists() {
        panic!(
            "{} exists and is not a symlink; refusing to replace it",
            linkpath.display()
        );
    }
    std::os::unix::fs::symlink(target, linkpath)
        .unwrap_or_else(|e| panic!("cannot create symlink {}: {e}", linkpath.display()));
}

fn main() {
    let macro_src = std::env::var("A2LMACROS_SRC").unwrap_or_else(|_| "/repo/a2lmacros/src".to_string());
    let macro_src = PathBuf::from(macro_src);
    let crate_src = PathBuf::from(std::env::var("CARGO_MANIFEST_DIR").unwrap()).join("src");

    for name in ["codegenerator.rs", "codegenerator", "util.rs"] {
        let target = macro_src.join(name);
        assert!(target.exists(), "{} does not exist", target.display());
        link(&target, &crate_src.join(name));
    }

    println!("cargo:rustc-env=A2LMACROS_SRC={}", macro_src.display());
    println!("cargo:rerun-if-env-changed=A2LMACROS_SRC");
    println!("cargo:rerun-if-changed=build.rs");
    for name in [
        "a2lspec.rs",
        "a2mlspec.rs",
        "util.rs",
        "codegenerator.rs",
        "codegenerator/data_structure.rs",
        "codegenerator/parser.rs",
        "codegenerator/writer.rs",
        "codegenerator/ifdata_parser.rs",
        "codegenerator/ifdata_writer.rs",
    ] {
        println!("cargo:rerun-if-changed={}", macro_src.join(name).display());
    }
}
