(** a2ml.rs A2mlTypeSpec: what an A2ML definition says about the content of IF_DATA (C18).
    Hash maps are association lists in key order (the harness dumps them sorted). *)
From Coq Require Import String List ZArith NArith Bool Ascii.
From A2L Require Import Text.Escape.
Import ListNotations.

Inductive a2mlty :=
| TNone
| TChar | TInt | TLong | TInt64 | TUChar | TUInt | TULong | TUInt64
| TFloat | TDouble
| TArray (item : a2mlty) (dim : nat)
| TEnum (items : list (bytes * option Z))
| TStruct (items : list a2mlty)
| TSequence (item : a2mlty)
| TTaggedStruct (items : list tagged)
| TTaggedUnion (items : list tagged)
with tagged :=
| Tagged (tag : bytes) (is_block : bool) (repeat : bool) (item : a2mlty).

Definition tg_tag (t : tagged) : bytes := match t with Tagged tag _ _ _ => tag end.
Definition tg_block (t : tagged) : bool := match t with Tagged _ b _ _ => b end.
Definition tg_item (t : tagged) : a2mlty := match t with Tagged _ _ _ i => i end.
