(** The typed IF_DATA access that a2ml_specification! generates (C19): a2lmacros codegenerator/ifdata_parser.rs
    (X::parse from GenericIfData, through the accessors of a2ml.rs the get_... functions of GenericIfData) and ifdata_writer.rs (X::store).

    A typed shape [tty] is what the generated Rust types look like after the macro's fix-ups: scalars, strings (char[n]),
    enums, arrays, nested structs, sequences, and - as a member of a struct or block - a taggedstruct / taggedunion whose
    members are blocks with fields of their own (Option<Member> or Vec<Member>).  A typed value [tval] is a value of such a
    type.  Layout information (offsets, uid, include file) is not part of the value; store writes zeros.

      load    X::parse / load_from_ifdata: Err "structural mismatch" whenever the generic data has another shape - every
              accessor checks the variant, struct members are fetched with .get(idx) (a missing one reads as None),
              arrays are checked for their length before they are indexed (fix 40947aa)
      store   X::store / store_to_ifdata                                                                            *)
From Coq Require Import Ascii String List Bool NArith ZArith.
From A2L Require Import Base.Res Text.Escape Lex.Tokenizer Gram.Spec A2ml.Types Gram.PState Gram.Parser.
Import ListNotations.

Inductive tty :=
| YInt (variant : string)
| YFloat | YDouble | YStr
| YEnum (items : list bytes)
| YArr (t : tty) (n : nat)
| YStruct (fields : list tty)
| YSeq (t : tty)
| YTagged (union : bool) (members : list ymember)
with ymember := YMem (tag : bytes) (is_block : bool) (repeat : bool) (fields : list tty).

Inductive tval :=
| WInt (v : Z) (hex : bool) | WFloat (bits : N) | WDouble (bits : N) | WStr (s : bytes) | WEnum (e : bytes)
| WArr (l : list tval) | WStruct (l : list tval) | WSeq (l : list tval)
| WTagged (occ : list (list (list tval))).   (* per member its occurrences; per occurrence the fields of the block *)

Definition ym_tag (m : ymember) := match m with YMem t _ _ _ => t end.
Definition ym_block (m : ymember) := match m with YMem _ b _ _ => b end.
Definition ym_repeat (m : ymember) := match m with YMem _ _ r _ => r end.
Definition ym_fields (m : ymember) := match m with YMem _ _ _ f => f end.

Inductive lres (A : Type) := LOk (a : A) | LErr (why : string).
Arguments LOk {A}. Arguments LErr {A}.

Fixpoint map2 {A B C} (f : A -> B -> C) (l : list A) (m : list B) : list C :=
  match l, m with
  | a :: l', b :: m' => f a b :: map2 f l' m'
  | _, _ => []
  end.
Fixpoint lmap {A B} (f : A -> lres B) (l : list A) : lres (list B) :=
  match l with
  | [] => LOk []
  | a :: r => match f a with
              | LOk b => match lmap f r with LOk bs => LOk (b :: bs) | LErr e => LErr e end
              | LErr e => LErr e
              end
  end.
(* struct members by position: input_items.get(idx).unwrap_or(&GenericIfData::None) *)
Fixpoint lfields {B} (f : tty -> gifd -> lres B) (tys : list tty) (items : list gifd) : lres (list B) :=
  match tys with
  | [] => LOk []
  | t :: r =>
      let (it, rest) := match items with x :: xs => (x, xs) | [] => (GNone, []) end in
      match f t it with
      | LOk b => match lfields f r rest with LOk bs => LOk (b :: bs) | LErr e => LErr e end
      | LErr e => LErr e
      end
  end.

Fixpoint mem_bytes (x : bytes) (l : list bytes) : bool :=
  match l with [] => false | y :: r => bytes_eqb y x || mem_bytes x r end.
Fixpoint assoc_tag (tag : bytes) (l : list (bytes * list gtitem)) : option (list gtitem) :=
  match l with
  | [] => None
  | (k, v) :: r => if bytes_eqb k tag then Some v else assoc_tag tag r
  end.
Definition gti_data (t : gtitem) : gifd := match t with GTI _ _ _ _ _ _ d _ => d end.

(* ---------- store ---------- *)
Fixpoint store (fuel : nat) (t : tty) (v : tval) : gifd :=
  match fuel with
  | O => GNone
  | S f =>
      match t, v with
      | YInt var, WInt z hex => GInt var 0 z hex
      | YFloat, WFloat b => GFloat 0 b
      | YDouble, WDouble b => GDouble 0 b
      | YStr, WStr s => GString 0 s
      | YEnum _, WEnum e => GEnumItem 0 e
      | YArr t' _, WArr l => GArray (map (store f t') l)
      | YStruct fs, WStruct l => GStruct None 0 (map2 (store f) fs l)
      | YSeq t', WSeq l => GSequence (map (store f t') l)
      | YTagged u ms, WTagged occ =>
          let entries :=
            flat_map (fun p : ymember * list (list tval) =>
                        let (m, os) := p in
                        match os with
                        | [] => []
                        | _ => [(ym_tag m,
                                 map (fun vals => GTI None 0 0 0 0 (ym_tag m) (GBlock None 0 (map2 (store f) (ym_fields m) vals)) (ym_block m)) os)]
                        end)
                     (combine ms occ) in
          if u then GTaggedUnion entries else GTaggedStruct entries
      | _, _ => GNone
      end
  end.

(* ---------- load ---------- *)
Fixpoint load (fuel : nat) (t : tty) (g : gifd) : lres tval :=
  match fuel with
  | O => LErr "fuel"
  | S f =>
      match t with
      | YInt var =>
          match g with
          | GInt var' _ z hex => if String.eqb var var' then LOk (WInt z hex) else LErr "structural mismatch: integer of another type"
          | _ => LErr "structural mismatch: not an integer"
          end
      | YFloat => match g with GFloat _ b => LOk (WFloat b) | _ => LErr "structural mismatch: get_float" end
      | YDouble => match g with GDouble _ b => LOk (WDouble b) | _ => LErr "structural mismatch: get_double" end
      | YStr => match g with GString _ s => LOk (WStr s) | _ => LErr "structural mismatch: get_stringval" end
      | YEnum items =>
          match g with
          | GEnumItem _ e => if mem_bytes e items then LOk (WEnum e) else LErr "failed to match enumeration value"
          | _ => LErr "element is not an EnumItem"
          end
      | YArr t' n =>
          match g with
          | GArray l =>
              if Nat.ltb (length l) n then LErr "structural mismatch: the array has fewer elements than the specification says"
              else match lmap (load f t') (firstn n l) with LOk vs => LOk (WArr vs) | LErr e => LErr e end
          | _ => LErr "structural mismatch: get_array"
          end
      | YStruct fs =>
          match g with
          | GStruct _ _ items => match lfields (load f) fs items with LOk vs => LOk (WStruct vs) | LErr e => LErr e end
          | _ => LErr "structural mismatch: get_struct_items"
          end
      | YSeq t' =>
          match g with
          | GSequence l => match lmap (load f t') l with LOk vs => LOk (WSeq vs) | LErr e => LErr e end
          | _ => LErr "structural mismatch: get_sequence"
          end
      | YTagged _ ms =>
          match g with
          | GTaggedStruct entries | GTaggedUnion entries =>
              let member (m : ymember) : lres (list (list tval)) :=
                match assoc_tag (ym_tag m) entries with
                | None => LOk []
                | Some items =>
                    let block (it : gtitem) : lres (list tval) :=
                      match gti_data it with
                      | GBlock _ _ bitems => lfields (load f) (ym_fields m) bitems
                      | _ => LErr "structural mismatch: get_block_items"
                      end in
                    if ym_repeat m then lmap block items
                    else match items with
                         | it :: _ => match block it with LOk vs => LOk [vs] | LErr e => LErr e end
                         | [] => LErr "index out of bounds: itemlist[0]"
                         end
                end in
              match lmap member ms with LOk occ => LOk (WTagged occ) | LErr e => LErr e end
          | _ => LErr "structural mismatch: get_single_optitem called on unsuitable element"
          end
      end
  end.

(* the top level: load_from_ifdata parses the items of the IF_DATA block as a Block with the fields of the specification *)
Definition load_from_ifdata (fuel : nat) (fields : list tty) (items : option gifd) : lres (list tval) :=
  match items with
  | Some (GBlock _ _ its) => lfields (load fuel) fields its
  | Some _ => LErr "structural mismatch: get_block_items called on something that is not a Block"
  | None => LErr "no ifdata_items"
  end.
Definition store_to_ifdata (fuel : nat) (fields : list tty) (vals : list tval) : gifd :=
  GBlock None 0 (map2 (store fuel) fields vals).
