(** tokenizer.rs tokenize(): /include directives are resolved by tokenising the named file and splicing its tokens in
    (C16).  The file system is an oracle [fs base incname] = the file that loader::make_include_filename + loader::load
    find for the directive text [incname] written in the file whose full name is [base]: Some (full name, decoded text)
    or None (no such file, a directory, unreadable).  File ids are handed out in the order in which files are entered;
    every included file remembers the directive OF THE MAIN FILE through which it is reached (Filename.top_include). *)
From Coq Require Import Ascii String List Bool NArith.
From A2L Require Import Text.Escape Lex.Tokenizer.
Import ListNotations.

Record fname := mkFn { fn_full : bytes; fn_display : bytes; fn_top : option bytes }.

Inductive ires :=
| IOk (toks : list token) (files : list fname)
| IErr (e : tokerr) (display : bytes) (incname : bytes)     (* display name of the file in which the directive stands *)
| IPanic (site : string)
| IFuel.                                                     (* unbounded recursion: a file that includes itself *)

Section Include.
  Variable fs : bytes -> bytes -> option (bytes * bytes).

  (* the text of the name token without the surrounding quotes (only when both are there) *)
  Definition include_name (t : token) : bytes :=
    match tk_text t with
    | q :: r => if aeq q dq && (match rev r with e :: _ => aeq e dq | [] => false end) then removelast r else tk_text t
    | [] => []
    end.

  Definition child_name (parent : fname) (full incname : bytes) : fname :=
    mkFn full incname (match fn_top parent with Some d => Some d | None => Some incname end).

  (* [rec] tokenises an included file: name, first file id, text *)
  Fixpoint expand (rec : fname -> nat -> bytes -> ires) (f : fname) (next : nat) (toks : list token)
           (out : list token) (files : list fname) : ires :=
    match toks with
    | [] => IOk (rev_append out []) files
    | t :: r =>
        if ttype_eqb (tk_type t) TInclude then
          match r with
          | nt :: r' =>
              if ttype_eqb (tk_type nt) TString || ttype_eqb (tk_type nt) TIdentifier then
                let incname := include_name nt in
                match fs (fn_full f) incname with
                | Some (full, text) =>
                    match rec (child_name f full incname) next text with
                    | IOk toks' files' =>
                        expand rec f (next + length files') r' (rev_append toks' out) (files ++ files')
                    | other => other
                    end
                | None => IErr (EIncludeFile (tk_line nt)) (fn_display f) incname
                end
              else IErr (EIncompleteInclude (tk_line t)) (fn_display f) []
          | [] => IErr (EIncompleteInclude (tk_line t)) (fn_display f) []
          end
        else expand rec f next r (t :: out) files
    end.

  Fixpoint tokenize_inc (fuel : nat) (f : fname) (fileid : nat) (text : bytes) : ires :=
    match fuel with
    | O => IFuel
    | S k =>
        match tokenize_core fileid text with
        | TOk toks => expand (tokenize_inc k) f (S fileid) toks [] [f]
        | TErr e => IErr e (fn_display f) []
        | TPanic s => IPanic s
        | TFuel => IFuel
        end
    end.
End Include.
