(** Model of a2lfile/src/tokenizer.rs: tokenize_core, find_block_comment_end, handle_a2ml,
    separator_check, count_newlines and the character classes.  (find_string_end is in
    Text/Escape.v.)  The scanner state is a zipper: the reversed consumed prefix (for the
    look-behind of comment indentation and A2ML trimming), the remaining suffix, and the
    absolute byte position.  Every slice / index of the Rust code is either shown in-bounds by
    construction of the zipper (the suffix is non-empty where a byte is read) or modelled as an
    explicit [Panic].  /include resolution (tokenize) needs the file system and is modelled in
    Lex/Include.v; here an Include token is passed through. *)
From Coq Require Import Ascii String List Bool NArith Arith.
From A2L Require Import Base.Res Text.Escape.
Import ListNotations.
Local Open Scope char_scope.
Local Open Scope N_scope.

Inductive ttype := TIdentifier | TBegin | TEnd | TInclude | TString | TNumber | TComment.

Record token := mkTok {
  tk_type : ttype; tk_start : N; tk_end : N; tk_text : bytes; tk_line : N; tk_fileid : nat }.

Definition ttype_eqb (a b : ttype) : bool :=
  match a, b with
  | TIdentifier, TIdentifier | TBegin, TBegin | TEnd, TEnd | TInclude, TInclude
  | TString, TString | TNumber, TNumber | TComment, TComment => true
  | _, _ => false
  end.

(* ---------- character classes (u8 methods of Rust's std) ---------- *)
Definition code (c : ascii) : N := N_of_ascii c.
Definition is_ws (c : ascii) : bool :=            (* u8::is_ascii_whitespace: SP, HT, LF, FF, CR *)
  let n := code c in (n =? 32) || (n =? 9) || (n =? 10) || (n =? 12) || (n =? 13).
Definition is_digit (c : ascii) : bool := let n := code c in (48 <=? n) && (n <=? 57).
Definition is_alpha (c : ascii) : bool :=
  let n := code c in ((65 <=? n) && (n <=? 90)) || ((97 <=? n) && (n <=? 122)).
Definition is_alnum (c : ascii) : bool := is_alpha c || is_digit c.
Definition is_hexdigit (c : ascii) : bool :=
  let n := code c in is_digit c || ((65 <=? n) && (n <=? 70)) || ((97 <=? n) && (n <=? 102)).
Definition is_identchar (c : ascii) : bool :=
  is_alnum c || aeq c "." || aeq c "[" || aeq c "]" || aeq c "_".
Definition is_pathchar (c : ascii) : bool := is_identchar c || aeq c bs || aeq c "/".
Definition is_numchar (c : ascii) : bool :=
  is_hexdigit c || aeq c "x" || aeq c "X" || aeq c "." || aeq c "+" || aeq c "-".

(* ---------- small list helpers ---------- *)
Fixpoint span (p : ascii -> bool) (l : bytes) : bytes * bytes :=
  match l with
  | [] => ([], [])
  | c :: r => if p c then let '(a, b) := span p r in (c :: a, b) else ([], l)
  end.
Fixpoint count_newlines (l : bytes) : N :=
  match l with [] => 0 | c :: r => (if aeq c lf then 1 else 0) + count_newlines r end.
Fixpoint starts_with (p l : bytes) : bool :=
  match p, l with
  | [], _ => true
  | a :: p', b :: l' => aeq a b && starts_with p' l'
  | _ :: _, [] => false
  end.
Definition len (l : bytes) : N := N.of_nat (length l).
Definition b_begin : bytes := list_ascii_of_string "begin".
Definition b_end : bytes := list_ascii_of_string "end".
Definition b_include : bytes := list_ascii_of_string "include".
Definition b_slash_end : bytes := list_ascii_of_string "/end".
Definition b_a2ml : bytes := list_ascii_of_string "A2ML".
Fixpoint bytes_eqb (a b : bytes) : bool :=
  match a, b with
  | [], [] => true
  | x :: a', y :: b' => aeq x y && bytes_eqb a' b'
  | _, _ => false
  end.

(* ---------- errors ---------- *)
Inductive tokerr :=
| EIncludeFile (line : N) | EIncompleteInclude (line : N) | EInvalidA2lToken (line : N)
| EInvalidNumericalConstant (line : N) | EUnclosedComment (line : N) | EUnclosedString (line : N)
| EMissingWhitespace (line : N).

Inductive TRes (A : Type) := TOk (a : A) | TErr (e : tokerr) | TPanic (site : string) | TFuel.
Arguments TOk {A}. Arguments TErr {A}. Arguments TPanic {A}. Arguments TFuel {A}.

(* ---------- find_block_comment_end: [body] = bytes after the opening "/*"; result = number of body
   bytes up to and including the closing '/', the first candidate pair being (body[0], body[1]) ---------- *)
Fixpoint fbce (body : bytes) : option N :=
  match body with
  | a :: tl =>
      match tl with
      | b :: _ => if aeq a "*" && aeq b "/" then Some 2 else option_map N.succ (fbce tl)
      | [] => None
      end
  | [] => None
  end.

(* ---------- handle_a2ml ---------- *)
(* block comment inside the A2ML text: consumes everything if it is not closed *)
Fixpoint a2ml_bc (body : bytes) : N :=
  match body with
  | a :: tl =>
      match tl with
      | b :: _ => if aeq a "*" && aeq b "/" then 2 else 1 + a2ml_bc tl
      | [] => 1
      end
  | [] => 0
  end.

Definition skipN (n : N) (l : bytes) : bytes := skipn (N.to_nat n) l.
Definition firstN (n : N) (l : bytes) : bytes := firstn (N.to_nat n) l.

(* the scan for the end of the A2ML text; [s] = remaining input, result = number of bytes scanned.
   Every iteration consumes at least one byte or terminates, so fuel = length s + 1 suffices. *)
Fixpoint a2ml_scan (fuel : nat) (s : bytes) (consumed : N) : option N :=
  match fuel with
  | O => None
  | S f =>
      let '(ns, rest) := span (fun c => negb (aeq c "/")) s in
      let consumed := consumed + len ns in
      match rest with
      | [] => Some consumed                            (* bytepos = datalen *)
      | _ :: r1 =>                                    (* rest starts with '/' *)
          if starts_with ["/"] r1 then
            (* line comment: skip up to (not including) the newline *)
            let '(cm, r2) := span (fun c => negb (aeq c lf)) (skipN 1 r1) in
            a2ml_scan f r2 (consumed + 2 + len cm)
          else if starts_with ["*"] r1 then
            let body := skipN 1 r1 in
            let k := a2ml_bc body in
            a2ml_scan f (skipN k body) (consumed + 2 + k)
          else if starts_with b_slash_end rest then Some consumed
          else a2ml_scan f r1 (consumed + 1)
      end
  end.

(* trimming of trailing blanks and of the last line break, on the reversed scanned text *)
Definition a2ml_trim (rev_text : bytes) : bytes :=
  let '(_, t) := span (fun c => is_ws c && negb (aeq c cr) && negb (aeq c lf)) rev_text in
  match t with
  | a :: b :: r => if aeq a lf && aeq b cr then r else if aeq a lf then b :: r else t
  | [a] => if aeq a lf then [] else t
  | [] => []
  end.

(* ---------- the main loop ---------- *)
Record tstate := mkTS {
  ts_pre : bytes;          (* consumed input, reversed *)
  ts_suf : bytes;          (* remaining input *)
  ts_pos : N;              (* = length ts_pre *)
  ts_sep : bool;           (* separated *)
  ts_line : N;
  ts_toks : list token     (* reversed *)
}.

Definition advance (st : tstate) (taken : bytes) (rest : bytes) : tstate :=
  mkTS (rev_append taken (ts_pre st)) rest (ts_pos st + len taken) (ts_sep st) (ts_line st) (ts_toks st).

Definition leading_spaces (pre : bytes) : bytes := fst (span (fun c => aeq c " ") pre).

Definition push (st : tstate) (ty : ttype) (start : N) (text : bytes) (line : N) (fileid : nat) : tstate :=
  mkTS (ts_pre st) (ts_suf st) (ts_pos st) (ts_sep st) (ts_line st)
       (mkTok ty start (start + len text) text line fileid :: ts_toks st).
Definition set_sep (st : tstate) (b : bool) : tstate :=
  mkTS (ts_pre st) (ts_suf st) (ts_pos st) b (ts_line st) (ts_toks st).
Definition set_line (st : tstate) (l : N) : tstate :=
  mkTS (ts_pre st) (ts_suf st) (ts_pos st) (ts_sep st) l (ts_toks st).

Definition sep_check (st : tstate) : option tokerr :=
  if ts_sep st then None else Some (EMissingWhitespace (ts_line st)).

Definition last_is_include (toks : list token) : bool :=
  match toks with t :: _ => ttype_eqb (tk_type t) TInclude | [] => false end.

Definition handle_a2ml (fileid : nat) (st : tstate) : TRes tstate :=
  match ts_toks st with
  | t1 :: t2 :: _ =>
      if ttype_eqb (tk_type t2) TBegin && bytes_eqb (tk_text t1) b_a2ml then
        match a2ml_scan (S (length (ts_suf st))) (ts_suf st) 0 with
        | None => TFuel
        | Some n =>
            let scanned := firstN n (ts_suf st) in
            let text := frev (a2ml_trim (frev scanned)) in
            if 0 <? len text then
              let startpos := ts_pos st in
              let st1 := advance st text (skipN (len text) (ts_suf st)) in
              let st2 := push st1 TString startpos text (ts_line st) fileid in
              TOk (set_sep (set_line st2 (ts_line st + count_newlines text)) true)
            else TOk st
        end
      else TOk st
  | _ => TOk st
  end.

Definition one_token (fileid : nat) (st : tstate) : TRes tstate :=
  match ts_suf st with
  | [] => TOk st
  | c :: r =>
      let startpos := ts_pos st in
      let line := ts_line st in
      if is_ws c then
        let '(w, rest) := span is_ws (ts_suf st) in
        TOk (set_line (set_sep (advance st w rest) true) (line + count_newlines w))
      else if aeq c "/" && negb (match r with [] => true | _ => false end) then
        match r with
        | [] => TPanic "unreachable"
        | c2 :: r2 =>
            if aeq c2 "*" then
              match fbce r2 with
              | None => TErr (EUnclosedComment line)
              | Some n =>
                  let body := firstN n r2 in
                  let sp := leading_spaces (ts_pre st) in
                  let text := "/" :: "*" :: body in
                  let st1 := advance st text (skipN n r2) in
                  let st2 := push st1 TComment (startpos - len sp) (sp ++ text) line fileid in
                  TOk (set_line (set_sep st2 true) (line + count_newlines text))
              end
            else if aeq c2 "/" then
              let '(cm, rest) := span (fun x => negb (aeq x lf)) r2 in
              let sp := leading_spaces (ts_pre st) in
              let text := "/" :: "/" :: cm in
              let st1 := advance st text rest in
              TOk (set_sep (push st1 TComment (startpos - len sp) (sp ++ text) line fileid) true)
            else if starts_with b_begin r then
              match sep_check st with Some e => TErr e | None =>
                let text := "/" :: b_begin in
                TOk (set_sep (push (advance st text (skipN 5 r)) TBegin startpos text line fileid) false) end
            else if starts_with b_end r then
              match sep_check st with Some e => TErr e | None =>
                let text := "/" :: b_end in
                TOk (set_sep (push (advance st text (skipN 3 r)) TEnd startpos text line fileid) false) end
            else if starts_with b_include r then
              match sep_check st with Some e => TErr e | None =>
                let text := "/" :: b_include in
                TOk (set_sep (push (advance st text (skipN 7 r)) TInclude startpos text line fileid) false) end
            else TErr (EInvalidA2lToken line)
        end
      else if aeq c dq then
        match sep_check st with Some e => TErr e | None =>
          match find_string_end r with
          | None => TErr (EUnclosedString line)
          | Some n =>
              let text := c :: firstn n r in
              let line' := line + count_newlines text in
              let st1 := advance st text (skipn n r) in
              TOk (set_sep (set_line (push st1 TString startpos text line' fileid) line') false)
          end end
      else if last_is_include (ts_toks st) && negb (is_digit c) && is_identchar c then
        match sep_check st with Some e => TErr e | None =>
          let '(text, rest) := span is_pathchar (ts_suf st) in
          TOk (set_sep (push (advance st text rest) TIdentifier startpos text line fileid) false) end
      else if is_alpha c || aeq c "_" then
        match sep_check st with Some e => TErr e | None =>
          let '(text, rest) := span is_identchar (ts_suf st) in
          let st1 := set_sep (push (advance st text rest) TIdentifier startpos text line fileid) false in
          handle_a2ml fileid st1 end
      else if aeq c "-" || is_numchar c then
        match sep_check st with Some e => TErr e | None =>
          let '(num_tl, rest) := span is_numchar r in
          let number := c :: num_tl in
          match rest with
          | [] =>
              if bytes_eqb number ["-"] || bytes_eqb number ["."] || bytes_eqb number ["0"; "x"]
              then TErr (EInvalidNumericalConstant line)
              else TOk (set_sep (push (advance st number rest) TNumber startpos number line fileid) false)
          | d :: _ =>
              if negb (is_identchar d) then
                if bytes_eqb number ["-"] || bytes_eqb number ["."] || bytes_eqb number ["0"; "x"]
                then TErr (EInvalidNumericalConstant line)
                else TOk (set_sep (push (advance st number rest) TNumber startpos number line fileid) false)
              else
                let '(idtl, rest2) := span is_identchar rest in
                let text := number ++ idtl in
                TOk (set_sep (push (advance st text rest2) TIdentifier startpos text line fileid) false)
          end end
      else TErr (EInvalidA2lToken line)
  end.

Fixpoint tok_loop (fuel : nat) (fileid : nat) (st : tstate) : TRes (list token) :=
  match ts_suf st with
  | [] => TOk (frev (ts_toks st))
  | _ :: _ =>
      match fuel with
      | O => TFuel
      | S f =>
          match one_token fileid st with
          | TOk st' => tok_loop f fileid st'
          | TErr e => TErr e
          | TPanic s => TPanic s
          | TFuel => TFuel
          end
      end
  end.

Definition tokenize_core (fileid : nat) (text : bytes) : TRes (list token) :=
  tok_loop (S (length text)) fileid (mkTS [] text 0 true 1 []).
