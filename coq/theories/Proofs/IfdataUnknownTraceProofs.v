(** C02, the direction load -> write, for IF_DATA that no definition describes (ifdata.rs parse_unknown_ifdata /
    parse_unknown_taggedstruct / parse_unknown_ifdata_start): a successful run of the uninterpreted reader that reports nothing
    consumed exactly the tokens the writer prints for the value it returns, in the same order - identifiers and tags verbatim,
    /begin and /end, strings with the same content, every number as the canonical text of the value it was read as.  The last
    clause is exactly as strong as the storage: a number is read as an i32 if it is one, else as an f32 if that is finite, else as
    an f64 (known finding unknown-ifdata-number-precision: what the f32 cannot hold is changed; the relation [reads_as] says
    "the text of the value it was read as", the theorem says nothing is lost, invented or moved). *)
From Coq Require Import Ascii String List Bool Arith NArith ZArith Lia Sorting.Sorted Permutation.
From A2L Require Import Base.StableSort Text.Escape Text.IntText Lex.Tokenizer Gram.Spec A2ml.Types Gram.PState Gram.Parser Gram.Writer Gram.TokWriter
  Proofs.CursorProofs Proofs.StrictWholeProofs Proofs.SeqMonoProofs Proofs.RoundTripProofs Proofs.RoundTripOrderProofs Proofs.ParseOrderProofs
  Proofs.ParseTraceProofs Proofs.TerminationProofs Proofs.GroupOrderProofs Proofs.IfdataRoundTripProofs Proofs.IfdataFollowProofs Proofs.IfdataTraceProofs.
Import ListNotations.

(* ---------- the loops are functions of their own in Proofs/TerminationProofs.v ([ifd_loop_], [uts_loop_]) ---------- *)
Lemma csim_ifd_loop f c isb : forall n items, csim (ifd_loop_ f c isb n items).
Proof. induction n as [|n IH]; intros items; cbn [ifd_loop_]; cs. Qed.
Lemma csim_uts_loop f c : forall n ts, csim (uts_loop_ f c n ts).
Proof. induction n as [|n IH]; intros ts; cbn [uts_loop_]; cs. Qed.
Global Hint Resolve csim_ifd_loop csim_uts_loop : csim.

(* a number token that the reader of one type rejects: the token was taken, nothing else happened *)
Lemma number_rejected {A} c (k : token -> M A) s t r d s1 : Inv s -> ps_after s = t :: r -> tk_type t = TNumber ->
  bindM (expect_token c TNumber) k s = (RErr d, s1) -> (forall tok s0, snd (k tok s0) = s0 \/ exists a, k tok s0 = (ROk a, s0)) -> adv [t] s s1.
Proof.
  intros I Ha Ht E Hk. destruct (expect_fine c TNumber s t r I Ha Ht) as (s0 & E0 & A0). rewrite (bind_ok _ _ _ _ _ E0) in E.
  destruct (Hk t s0) as [H|(a & H)]; [rewrite E in H; cbn [snd] in H; subst s1; exact A0 | congruence].
Qed.

Lemma get_integer_rejected c ity s t r d s1 : Inv s -> ps_after s = t :: r -> tk_type t = TNumber ->
  get_integer ity c s = (RErr d, s1) -> adv [t] s s1.
Proof.
  intros I Ha Ht E. unfold get_integer in E. eapply number_rejected; try eassumption. intros tok s0. cbv beta.
  destruct (get_integer_text ity (tk_text tok)); [right; eexists; reflexivity | left].
  unfold bindM, mk_diag. destruct (Nat.ltb _ _); reflexivity.
Qed.

Lemma get_float_rejected c s t r d s1 : Inv s -> ps_after s = t :: r -> tk_type t = TNumber ->
  get_float c s = (RErr d, s1) -> adv [t] s s1.
Proof.
  intros I Ha Ht E. unfold get_float in E. eapply number_rejected; try eassumption. intros tok s0. cbv beta zeta.
  destruct (find_fentry (ps_ftab s0) (tk_text tok)) as [e|]; [|left; reflexivity].
  destruct (fe_ok32 e && _); [right; eexists; reflexivity | left]. unfold bindM, mk_diag. destruct (Nat.ltb _ _); reflexivity.
Qed.

Section UTrace.
  Variable ftab : list fentry.
  Notation ftoks := (ftoks ftab).
  Notation itoks := (itoks ftab).
  Notation reads_all := (reads_all ftab).

  Definition utr (m : M gifd) : Prop :=
    forall s g s', Inv s -> ps_ftab s = ftab -> m s = (ROk g, s') -> ps_log s' = ps_log s ->
    exists ts, adv ts s s' /\ reads_all ts (ftoks g).

  Section Level.
    Variable f : nat.
    Hypothesis IHi : forall c isb, c_fileid c = O -> utr (unknown_ifdata f c isb).
    Hypothesis IHt : forall c, c_fileid c = O -> utr (unknown_taggedstruct f c).

    (* one more item read by the loop of parse_unknown_ifdata *)
    Lemma ifd_loop_trace c isb : c_fileid c = O -> forall n items s l s', Inv s -> ps_ftab s = ftab ->
      ifd_loop_ f c isb n items s = (ROk l, s') -> ps_log s' = ps_log s ->
      exists ts l', l = items ++ l' /\ adv ts s s' /\ reads_all ts (flat_map ftoks l').
    Proof.
      intros Hc. induction n as [|n IH]; intros items s l s' I Hf E L; cbn [ifd_loop_] in E; [discriminate|].
      unfold peek_token at 1 in E. unfold bindM at 1 in E.
      destruct (ps_after s) as [|t rest] eqn:Ea; [destruct (bind_ok_inv _ _ _ _ _ E) as (d & s0 & _ & X); discriminate|].
      assert (Step : forall g ts1 s1, adv ts1 s s1 -> ps_log s1 = ps_log s -> reads_all ts1 (ftoks g) ->
                ifd_loop_ f c isb n (items ++ [g]) s1 = (ROk l, s') ->
                exists ts l', l = items ++ l' /\ adv ts s s' /\ reads_all ts (flat_map ftoks l')).
      { intros g ts1 s1 A1 L1 R1 X.
        destruct (IH (items ++ [g]) s1 l s' (adv_inv _ _ _ I A1) (ftab_of _ _ _ _ Hf A1) X ltac:(congruence)) as (ts2 & l2 & -> & A2 & R2).
        exists (ts1 ++ ts2), (g :: l2). rewrite <- app_assoc. split; [reflexivity|]. split; [exact (adv_trans _ _ _ _ _ A1 A2)|].
        cbn [flat_map]. apply Forall2_app_both; assumption. }
      assert (Done : ret items s = (ROk l, s') -> exists ts l', l = items ++ l' /\ adv ts s s' /\ reads_all ts (flat_map ftoks l')).
      { intros X. injection X as <- <-. exists [], []. rewrite app_nil_r. split; [reflexivity|]. split; [apply adv_refl, (inv_pos s I) | constructor]. }
      destruct (tk_type t) eqn:Ht.
      - (* identifier *)
        apply bind_clean_inv in E; [|cs|intro; cs|exact L]. destruct E as (v & s1 & E1 & L1 & E2 & L2).
        destruct (get_identifier_inv c Hc s v s1 I E1) as (tk & r & Ea' & Htk & Hv & A1). rewrite Ea in Ea'. injection Ea' as <- <-.
        destruct (bind_ok_inv _ _ _ _ _ E2) as (off & s2 & G & E3). rewrite (glo_inv s1 off s2 (adv_inv _ _ _ I A1) G) in *.
        apply (Step (GEnumItem off v) [t] s1 A1 L1); [|exact E3]. cbn [IfdataFollowProofs.ftoks].
        constructor; [split; [exact Htk | symmetry; exact Hv] | constructor].
      - (* /begin *)
        destruct isb; [|exact (Done E)].
        apply bind_clean_inv in E; [|cs|intro; cs|exact L]. destruct E as (g & s1 & E1 & L1 & E2 & L2).
        destruct (IHt c Hc s g s1 I Hf E1 L1) as (ts1 & A1 & R1). exact (Step g ts1 s1 A1 L1 R1 E2).
      - (* /end *) exact (Done E).
      - (* /include: the loop does not take the token *)
        destruct (IH items s l s' I Hf E L) as (ts & l' & X). exists ts, l'. exact X.
      - (* string *)
        apply bind_clean_inv in E; [|cs|intro; cs|exact L]. destruct E as (v & s1 & E1 & L1 & E2 & L2).
        destruct (get_string_inv c Hc s v s1 I E1 L1) as (tk & r & Ea' & Htk & Hv & A1). rewrite Ea in Ea'. injection Ea' as <- <-.
        destruct (bind_ok_inv _ _ _ _ _ E2) as (off & s2 & G & E3). rewrite (glo_inv s1 off s2 (adv_inv _ _ _ I A1) G) in *.
        apply (Step (GString off v) [t] s1 A1 L1); [|exact E3]. cbn [IfdataFollowProofs.ftoks].
        constructor; [split; [exact Htk | cbn [fst snd]; rewrite Hv; reflexivity] | constructor].
      - (* number: i32, else f32, else f64 *)
        apply bind_clean_inv in E; [|cs|intros [[[v hex]|] dd]; cs|exact L]. destruct E as (x & s1 & E1 & L1 & E2 & L2).
        destruct (try_clean_inv (get_integer I32 c) _ _ _ ltac:(cs) E1 L1) as [(vh & Er & ->)|(d & Er & ->)].
        + destruct vh as [v hex]. destruct (get_integer_inv c Hc I32 s (v, hex) s1 I Er) as (tk & r & Ea' & Htk & Hg & A1).
          rewrite Ea in Ea'. injection Ea' as <- <-.
          destruct (bind_ok_inv _ _ _ _ _ E2) as (off & s2 & G & E3). rewrite (glo_inv s1 off s2 (adv_inv _ _ _ I A1) G) in *.
          apply (Step (GInt "Long" off v hex) [t] s1 A1 L1); [|exact E3]. cbn [IfdataFollowProofs.ftoks].
          constructor; [|constructor]. split; [exact Htk|]. cbn [fst snd]. left. exists I32, v, hex. auto.
        + pose proof (get_integer_rejected c I32 s t rest d s1 I Ea Ht Er) as A1.
          destruct (undo_back [] t s s1 A1) as (s2 & U & A2). cbv iota beta in E2. rewrite (bind_ok _ _ _ _ _ U) in E2.
          assert (I2 : Inv s2) by (eapply adv_inv; eassumption).
          assert (L2' : ps_log s2 = ps_log s1) by (unfold undo_get_token in U; destruct (ps_before s1); [discriminate | injection U as <-; reflexivity]).
          assert (Ea2 : ps_after s2 = t :: rest) by (rewrite (proj1 (adv_nil_after _ _ A2)); exact Ea).
          apply bind_clean_inv in E2; [|cs|intros [[fl|] dd]; cs|congruence]. destruct E2 as (x2 & s3 & E3 & L3 & E4 & L4).
          destruct (try_clean_inv (get_float c) _ _ _ ltac:(cs) E3 L3) as [(fl & Erf & ->)|(d2 & Erf & ->)].
          * destruct (get_float_inv c Hc ftab s2 fl s3 I2 (ftab_of _ _ _ _ Hf A2) Erf) as (tk & r & Ea' & Htk & Hg & A3).
            rewrite Ea2 in Ea'. injection Ea' as <- <-.
            destruct (bind_ok_inv _ _ _ _ _ E4) as (off & s4 & G & E5). rewrite (glo_inv s3 off s4 (adv_inv _ _ _ I2 A3) G) in *.
            apply (Step (GFloat off fl) [t] s3 (adv_trans [] [t] _ _ _ A2 A3) ltac:(congruence)); [|exact E5]. cbn [IfdataFollowProofs.ftoks].
            constructor; [|constructor]. split; [exact Htk|]. cbn [fst snd]. right. exists fl. auto.
          * pose proof (get_float_rejected c s2 t rest d2 s3 I2 Ea2 Ht Erf) as A3.
            destruct (undo_back [] t s2 s3 A3) as (s4 & U2 & A4). cbv iota beta in E4. rewrite (bind_ok _ _ _ _ _ U2) in E4.
            assert (I4 : Inv s4) by (eapply adv_inv; eassumption).
            assert (L4' : ps_log s4 = ps_log s3) by (unfold undo_get_token in U2; destruct (ps_before s3); [discriminate | injection U2 as <-; reflexivity]).
            assert (Ea4 : ps_after s4 = t :: rest) by (rewrite (proj1 (adv_nil_after _ _ A4)); exact Ea2).
            destruct (bind_ok_inv _ _ _ _ _ E4) as (db & s5 & Ed & E5).
            destruct (get_double_inv c Hc ftab s4 db s5 I4 (ftab_of _ _ _ _ (ftab_of _ _ _ _ Hf A2) A4) Ed) as (tk & r & Ea' & Htk & Hg & A5).
            rewrite Ea4 in Ea'. injection Ea' as <- <-.
            assert (L5 : ps_log s5 = ps_log s4).
            { destruct (log_grows (get_double c) ltac:(cs) _ _ _ Ed) as (l1 & Q1).
              match type of E5 with ?m s5 = _ => destruct (log_grows m ltac:(cs) _ _ _ E5) as (l2 & Q2) end. rewrite Q1 in Q2.
              assert (Q : ps_log s' = ps_log s4) by congruence. rewrite Q in Q2.
              destruct (app_app_self l2 l1 (ps_log s4)) as [-> _]; [symmetry; exact Q2 | exact Q1]. }
            destruct (bind_ok_inv _ _ _ _ _ E5) as (off & s6 & G & E6). rewrite (glo_inv s5 off s6 (adv_inv _ _ _ I4 A5) G) in *.
            apply (Step (GDouble off db) [t] s5 (adv_trans [] [t] _ _ _ (adv_trans [] [] _ _ _ A2 A4) A5) ltac:(congruence)); [|exact E6].
            cbn [IfdataFollowProofs.ftoks]. constructor; [|constructor]. split; [exact Htk|]. cbn [fst snd]. right. exists db. auto.
      - (* comment tokens do not occur *)
        exfalso. destruct (tok_ok_after s t rest I Ea) as (_ & Hnc & _). exact (Hnc Ht).
    Qed.

    Lemma gntc_err_adv c s d s1 : c_fileid c = O -> Inv s -> get_next_tag_or_comment c s = (RErr d, s1) -> adv [] s s1.
    Proof.
      intros Hc I E. destruct (ps_after s) as [|t rest] eqn:Ea.
      - destruct (next_tag_eof c s Hc I Ea) as (s' & X & A). congruence.
      - destruct (ttype_eqb (tk_type t) TIdentifier) eqn:EI.
        + apply ttype_eqb_eq in EI. destruct (next_tag_keyword c s t rest I Ea EI) as (off & s' & X & A). congruence.
        + assert (NI : tk_type t <> TIdentifier) by (intros Q; rewrite Q in EI; discriminate).
          destruct (ttype_eqb (tk_type t) TBegin) eqn:EB.
          * apply ttype_eqb_eq in EB. destruct rest as [|t2 r2].
            { destruct (next_tag_begin_bad c s t [] Hc I Ea EB Logic.I) as (d' & s' & X & A). rewrite X in E. injection E as _ <-. exact A. }
            destruct (ttype_eqb (tk_type t2) TIdentifier) eqn:EI2.
            { apply ttype_eqb_eq in EI2. destruct (next_tag_block c s t t2 r2 I Ea EB EI2) as (off & s' & X & A). congruence. }
            assert (NI2 : tk_type t2 <> TIdentifier) by (intros Q; rewrite Q in EI2; discriminate).
            destruct (next_tag_begin_bad c s t (t2 :: r2) Hc I Ea EB NI2) as (d' & s' & X & A). rewrite X in E. injection E as _ <-. exact A.
          * assert (NB : tk_type t <> TBegin) by (intros Q; rewrite Q in EB; discriminate).
            destruct (next_tag_none c Hc s t rest I Ea NB NI) as (s' & X & A). congruence.
    Qed.

    (* the loop of parse_unknown_taggedstruct *)
    Lemma uts_loop_trace c : c_fileid c = O -> forall n acc s acc' s', Inv s -> ps_ftab s = ftab ->
      uts_loop_ f c n acc s = (ROk acc', s') -> ps_log s' = ps_log s ->
      exists ts R, adv ts s s' /\ acc' = fold_left (fun a t => assoc_push (ti_tag t) t a) R acc /\
                   reads_all ts (flat_map itoks (map ti_info R)) /\ uchain (ps_seq s) R.
    Proof.
      intros Hc. induction n as [|n IH]; intros acc s acc' s' I Hf E L; cbn [uts_loop_] in E; [discriminate|].
      apply bind_clean_inv in E; [|cs|intros [[[token isb so|cm off|]|] dd]; cbv zeta; cs|exact L].
      destruct E as (x & s1 & E1 & L1 & E2 & L2).
      assert (Done : forall ts1, ts1 = [] -> adv ts1 s s1 -> ret acc s1 = (ROk acc', s') ->
                exists ts R, adv ts s s' /\ acc' = fold_left (fun a t => assoc_push (ti_tag t) t a) R acc /\
                             reads_all ts (flat_map itoks (map ti_info R)) /\ uchain (ps_seq s) R).
      { intros ts1 -> A1 X. injection X as <- <-. exists [], []. split; [exact A1|]. split; [reflexivity|]. split; [constructor | exact Logic.I]. }
      destruct (try_clean_inv (get_next_tag_or_comment c) _ _ _ ltac:(cs) E1 L1) as [(bc & Eg & ->)|(d & Eg & ->)].
      2:{ exact (Done [] eq_refl (gntc_err_adv c s d s1 Hc I Eg) E2). }
      pose proof (smono_get_next_tag_or_comment c s _ s1 Eg) as Hgs.
      assert (Item : forall (tI : token) (isb : bool) (off : N) (tsg : list token), adv tsg s s1 -> In tI (ps_after s) ->
                reads_all tsg (if isb then [(TBegin, begin_text); (TIdentifier, tk_text tI)] else [(TIdentifier, tk_text tI)]) ->
                (let tag := tk_text tI in let newc := ctx_from_token tag tI in
                 uid <-- get_next_id ;; data <-- unknown_ifdata f newc isb ;;
                 end_offset <-- (if isb then expect_token newc TEnd ;;; eo <-- get_line_offset ;; endident <-- expect_token newc TIdentifier ;;
                                              if bytes_eqb (tk_text endident) tag then ret eo
                                              else (d <-- mk_diag "IncorrectEndTag" newc (tk_text endident) ;; fail d)
                                 else ret 0%N) ;;
                 inc <-- get_incfilename (c_fileid newc) ;; nrem <-- remaining ;; skip_comments (S nrem) c ;;;
                 uts_loop_ f c n (assoc_push tag (GTI inc (c_line newc) uid off end_offset tag data isb) acc)) s1 = (ROk acc', s') ->
                exists ts R, adv ts s s' /\ acc' = fold_left (fun a t => assoc_push (ti_tag t) t a) R acc /\
                             reads_all ts (flat_map itoks (map ti_info R)) /\ uchain (ps_seq s) R).
      { intros tI isb off tsg A1 Hin Rg X. cbv zeta in X.
        assert (Hnc : c_fileid (ctx_from_token (tk_text tI) tI) = O) by (cbn; destruct (tok_ok_in s tI I Hin) as (Q & _); exact Q).
        set (newc := ctx_from_token (tk_text tI) tI) in *.
        assert (I1 : Inv s1) by (eapply adv_inv; eassumption).
        apply bind_clean_inv in X; [|cs|intro; destruct isb; cs|exact L2]. destruct X as (uid & s2 & E3 & L3 & E4 & L4).
        assert (Hu : uid = (ps_seq s1 + 1)%N /\ ps_seq s2 = uid /\ adv [] s1 s2).
        { unfold get_next_id in E3. injection E3 as <- <-. split; [reflexivity|]. split; [reflexivity|].
          constructor; [reflexivity | reflexivity | constructor; reflexivity | exact (inv_pos s1 I1)]. }
        destruct Hu as (Hu1 & Hu2 & A2). assert (I2 : Inv s2) by (eapply adv_inv; eassumption).
        apply bind_clean_inv in E4; [|cs|intro; destruct isb; cs|exact L4]. destruct E4 as (data & s3 & E5 & L5 & E6 & L6).
        destruct (IHi newc isb Hnc s2 data s3 I2 (ftab_of _ _ _ _ (ftab_of _ _ _ _ Hf A1) A2) E5 L5) as (tsd & A3 & Rd).
        assert (I3 : Inv s3) by (eapply adv_inv; eassumption).
        pose proof (smono_unknown_ifdata f newc isb s2 _ s3 E5) as Hs23.
        apply bind_clean_inv in E6; [|destruct isb; cs|intro; cs|exact L6]. destruct E6 as (eo & s4 & E7 & L7 & E8 & L8).
        assert (Hend : exists tse, adv tse s3 s4 /\ (ps_seq s3 <= ps_seq s4)%N /\
                  reads_all tse (if isb then [(TEnd, end_text); (TIdentifier, tk_text tI)] else [])).
        { destruct isb.
          - assert (Hs34 : (ps_seq s3 <= ps_seq s4)%N).
            { match type of E7 with ?m s3 = _ => assert (Sm : smono m) by sm end. exact (Sm s3 _ s4 E7). }
            destruct (bind_ok_inv _ _ _ _ _ E7) as (tE & s3a & X1 & E7a).
            destruct (expect_inv newc Hnc TEnd s3 tE s3a I3 X1) as (r3 & Ea3 & HtE & A4).
            assert (I3a : Inv s3a) by (eapply adv_inv; eassumption).
            destruct (bind_ok_inv _ _ _ _ _ E7a) as (eo' & s3b & G & E7b). rewrite (glo_inv s3a eo' s3b I3a G) in *. clear G.
            destruct (bind_ok_inv _ _ _ _ _ E7b) as (tI2 & s3c & X2 & E7c).
            destruct (expect_inv newc Hnc TIdentifier s3a tI2 s3c I3a X2) as (r4 & Ea4 & HtI2 & A5).
            destruct (bytes_eqb (tk_text tI2) (tk_text tI)) eqn:Eq; [|destruct (diag_fail_not_ok _ _ _ _ _ _ E7c)].
            injection E7c as _ <-. apply MergeProofs.bytes_eqb_eq in Eq.
            exists [tE; tI2]. split; [exact (adv_trans [tE] [tI2] _ _ _ A4 A5)|]. split; [exact Hs34|].
            constructor; [split; [exact HtE | exact Logic.I]|]. constructor; [split; [exact HtI2 | exact Eq] | constructor].
          - injection E7 as _ <-. exists []. split; [apply adv_refl, (inv_pos s3 I3)|]. split; [lia | constructor]. }
        destruct Hend as (tse & A4 & Hs34 & Re). assert (I4 : Inv s4) by (eapply adv_inv; eassumption).
        rewrite Hnc, bind_incfile, bind_remaining in E8. rewrite (bind_ok _ _ _ _ _ (skip_comments_none c _ s4 I4)) in E8.
        assert (A14 : adv (tsg ++ tsd ++ tse) s s4).
        { pose proof (adv_trans _ _ _ _ _ (adv_trans _ _ _ _ _ (adv_trans _ _ _ _ _ A1 A2) A3) A4) as Q. rewrite app_nil_r, <- app_assoc in Q. exact Q. }
        destruct (IH _ s4 acc' s' I4 (ftab_of _ _ _ _ Hf A14) E8 L8) as (ts2 & R2 & A5 & -> & RR & UU).
        exists ((tsg ++ tsd ++ tse) ++ ts2), (GTI None (c_line newc) uid off eo (tk_text tI) data isb :: R2).
        split; [exact (adv_trans _ _ _ _ _ A14 A5)|]. split; [reflexivity|]. split.
        - cbn [map flat_map]. apply Forall2_app_both; [|exact RR].
          unfold IfdataFollowProofs.itoks. cbn [ti_info gmap item_toks]. destruct isb.
          + inversion Rg as [|tB ? r1 ? HB0 Rg1]; subst. inversion Rg1 as [|tI' ? r2 ? HI0 Rg2]; subst. inversion Rg2; subst.
            cbn [app]. constructor; [exact HB0|]. constructor; [exact HI0|]. apply Forall2_app_both; assumption.
          + inversion Rg as [|tI' ? r1 ? HI0 Rg1]; subst. inversion Rg1; subst. inversion Re; subst. rewrite app_nil_r. cbn [app]. constructor; [exact HI0 | exact Rd].
        - cbn [uchain ti_uid]. split; [lia|]. apply (uchain_weaken R2 _ (ps_seq s4)); [lia | exact UU]. }
      destruct (next_tag_inv c Hc s bc s1 I Eg) as [(tB & tI & r0 & off & Ha & HB & HI & -> & A1)|[(tI & r0 & off & Ha & HI & -> & A1)|(-> & A1)]].
      - apply (Item tI true off [tB; tI] A1); [rewrite Ha; right; left; reflexivity | | exact E2].
        constructor; [split; [exact HB | exact Logic.I]|]. constructor; [split; [exact HI | reflexivity] | constructor].
      - apply (Item tI false off [tI] A1); [rewrite Ha; left; reflexivity | | exact E2].
        constructor; [split; [exact HI | reflexivity] | constructor].
      - exact (Done [] eq_refl A1 E2).
    Qed.

    Lemma unknown_ifdata_step c isb : c_fileid c = O -> utr (unknown_ifdata (S f) c isb).
    Proof.
      intros Hc s g s' I Hf E L. rewrite unknown_ifdata_S in E. rewrite bind_remaining in E.
      destruct (bind_ok_inv _ _ _ _ _ E) as (items & s1 & E1 & E2). rewrite Hc, bind_incfile in E2. injection E2 as <- <-.
      destruct (ifd_loop_trace c isb Hc _ [] s items s1 I Hf E1 L) as (ts & l' & -> & A & R). exists ts. split; [exact A | exact R].
    Qed.

    Lemma unknown_taggedstruct_step c : c_fileid c = O -> utr (unknown_taggedstruct (S f) c).
    Proof.
      intros Hc s g s' I Hf E L. rewrite unknown_taggedstruct_S in E. rewrite bind_remaining in E.
      rewrite (bind_ok _ _ _ _ _ (skip_comments_none c _ s I)) in E. rewrite bind_remaining in E.
      destruct (bind_ok_inv _ _ _ _ _ E) as (acc' & s1 & E1 & E2).
      assert (Hg : g = GTaggedStruct acc' /\ s' = s1).
      { unfold peek_token at 1 in E2. unfold bindM at 1 in E2. destruct (ps_after s1) as [|t r]; [injection E2 as <- <-; auto|].
        destruct (ttype_eqb (tk_type t) TBegin); [destruct (diag_fail_not_ok _ _ _ _ _ _ E2) | injection E2 as <- <-; auto]. }
      destruct Hg as [-> ->].
      destruct (uts_loop_trace c Hc _ [] s acc' s1 I Hf E1 L) as (ts & R & A & -> & RR & U).
      exists ts. split; [exact A|].
      change (IfdataFollowProofs.ftoks ftab (GTaggedStruct (fold_left (fun a t => assoc_push (ti_tag t) t a) R [])))
        with (flat_map item_toks (group_order (flat_map (fun kv => map (ti_toks ftab) (snd kv)) (regroup R)))).
      rewrite ftoks_tagged, (witems_regroup R _ U). exact RR.
    Qed.
  End Level.

  (** uninterpreted IF_DATA is written as it was read *)
  Theorem unknown_ifdata_is_written_as_it_was_read : forall f,
    (forall c isb, c_fileid c = O -> utr (unknown_ifdata f c isb)) /\ (forall c, c_fileid c = O -> utr (unknown_taggedstruct f c)).
  Proof.
    induction f as [|f [IHi IHt]].
    - split; intros; intros s g s' I Hf E L; discriminate.
    - split; [intros c isb Hc; first [exact (unknown_ifdata_step f IHt c isb Hc) | exact (unknown_ifdata_step f IHi IHt c isb Hc)] | intros c Hc; first [exact (unknown_taggedstruct_step f IHi c Hc) | exact (unknown_taggedstruct_step f IHi IHt c Hc)]].
  Qed.

  (** the entry point (parse_unknown_ifdata_start): a leading tag, then the content *)
  Theorem unknown_ifdata_start_is_written_as_it_was_read fuel c : c_fileid c = O -> utr (unknown_ifdata_start fuel c).
  Proof.
    intros Hc s g s' I Hf E L. unfold unknown_ifdata_start in E. unfold peek_token at 1 in E. unfold bindM at 1 in E.
    destruct (ps_after s) as [|t rest] eqn:Ea; [exact (proj1 (unknown_ifdata_is_written_as_it_was_read fuel) c true Hc s g s' I Hf E L)|].
    destruct (ttype_eqb (tk_type t) TIdentifier) eqn:EI; [|exact (proj1 (unknown_ifdata_is_written_as_it_was_read fuel) c true Hc s g s' I Hf E L)].
    apply ttype_eqb_eq in EI.
    apply bind_clean_inv in E; [|cs|intro; cs|exact L]. destruct E as (tok & s1 & E1 & L1 & E2 & L2).
    destruct (get_token_fine c s t rest I Ea) as (s1' & X & A1). rewrite X in E1. injection E1 as Htok Hs1. subst tok s1'.
    assert (I1 : Inv s1) by (eapply adv_inv; eassumption).
    destruct (bind_ok_inv _ _ _ _ _ E2) as (so & s1a & G & E3). rewrite (glo_inv s1 so s1a I1 G) in *. clear G. cbv zeta in E3.
    apply bind_clean_inv in E3; [|cs|intro; cs|exact L2]. destruct E3 as (uid & s2 & E4 & L4 & E5 & L5).
    assert (A2 : adv [] s1 s2).
    { unfold get_next_id in E4. injection E4 as _ <-. constructor; [reflexivity | reflexivity | constructor; reflexivity | exact (inv_pos s1 I1)]. }
    assert (I2 : Inv s2) by (eapply adv_inv; eassumption).
    assert (Hnc : c_fileid (ctx_from_token (tk_text t) t) = O).
    { cbn. destruct (tok_ok_in s t I) as (Q & _); [rewrite Ea; left; reflexivity | exact Q]. }
    set (newc := ctx_from_token (tk_text t) t) in *.
    apply bind_clean_inv in E5; [|cs|intro; cs|exact L5]. destruct E5 as (result & s3 & E6 & L6 & E7 & L7).
    destruct (proj1 (unknown_ifdata_is_written_as_it_was_read fuel) newc true Hnc s2 result s3 I2 (ftab_of _ _ _ _ (ftab_of _ _ _ _ Hf A1) A2) E6 L6)
      as (tsr & A3 & Rr).
    assert (A13 : adv ([t] ++ tsr) s s3).
    { pose proof (adv_trans _ _ _ _ _ (adv_trans _ _ _ _ _ A1 A2) A3) as Q. rewrite app_nil_r in Q. exact Q. }
    destruct (exists_last (l := [t] ++ tsr) ltac:(discriminate)) as (front & x & Efx). rewrite Efx in A13.
    destruct (undo_back front x s s3 A13) as (s4 & U & A4). rewrite (bind_ok _ _ _ _ _ U) in E7.
    assert (I4 : Inv s4) by (exact (adv_inv _ _ _ I A4)).
    destruct (bind_ok_inv _ _ _ _ _ E7) as (eo & s4a & G & E8). rewrite (glo_inv s4 eo s4a I4 G) in *. clear G.
    assert (Ea4 : ps_after s4 = x :: ps_after s3).
    { pose proof (adv_after _ _ _ A13) as Q1. pose proof (adv_after _ _ _ A4) as Q2. rewrite Q1, <- app_assoc in Q2.
      apply app_inv_head in Q2. symmetry. exact Q2. }
    destruct (get_token_fine c s4 x _ I4 Ea4) as (s5 & X5 & A5). rewrite (bind_ok _ _ _ _ _ (try_ok _ _ _ _ X5)) in E8.
    rewrite Hnc, bind_incfile, Hc, bind_incfile in E8. injection E8 as <- <-.
    exists ([t] ++ tsr). split; [rewrite Efx; exact (adv_trans _ _ _ _ _ A4 A5)|].
    assert (Et : forall ln, ftoks (GBlock None so [GTaggedUnion [(tk_text t, [GTI None ln uid so eo (tk_text t) result false])]])
                 = (TIdentifier, tk_text t) :: ftoks result) by (intros ln; cbn; rewrite ?app_nil_r; reflexivity).
    rewrite Et. constructor; [split; [exact EI | reflexivity] | exact Rr].
  Qed.
End UTrace.
Print Assumptions unknown_ifdata_is_written_as_it_was_read.
Print Assumptions unknown_ifdata_start_is_written_as_it_was_read.

(* ---------- IF_DATA as a whole: interpreted under a definition, or kept uninterpreted ---------- *)
Lemma csim_first_spec c : forall specs, csim (first_spec specs c).
Proof. induction specs as [|sp r IH]; cbn [first_spec]; [cs|]. apply csim_bind; [apply csim_from_spec|]. intros [x|]; [cs | exact IH]. Qed.

Theorem ifdata_content_is_written_as_it_was_read ftab specs fuel c : c_fileid c = O -> forall s g v s', Inv s -> ps_ftab s = ftab ->
  parse_ifdata specs fuel c s = (ROk (Some g, v), s') -> ps_log s' = ps_log s ->
  exists ts, adv ts s s' /\ reads_all ftab ts (ftoks ftab g).
Proof.
  intros Hc s g v s' I Hf E L. destruct v; [exact (valid_ifdata_is_written_as_it_was_read ftab specs fuel c Hc s g s' I Hf E L)|].
  unfold parse_ifdata in E. rewrite bind_remaining in E. rewrite (bind_ok _ _ _ _ _ (skip_comments_none c _ s I)) in E.
  unfold peek_token at 1 in E. unfold bindM at 1 in E. destruct (ps_after s) as [|t rest]; [discriminate|].
  apply bind_clean_inv in E; [|apply csim_first_spec|intros [x|]; [cs|]; destruct (ttype_eqb (tk_type t) TEnd); cs|exact L].
  destruct E as (r & s1 & E1 & L1 & E2 & L2). destruct r as [x|]; [discriminate|].
  pose proof (tr_first_spec ftab c Hc specs s None s1 I Hf E1 L1) as A1. cbv beta iota in A1.
  destruct (ttype_eqb (tk_type t) TEnd); [discriminate|].
  destruct (bind_ok_inv _ _ _ _ _ E2) as (g0 & s2 & E3 & E4). injection E4 as <- <-.
  destruct (unknown_ifdata_start_is_written_as_it_was_read ftab fuel c Hc s1 g0 s2 (adv_inv _ _ _ I A1) (ftab_of _ _ _ _ Hf A1) E3 L2) as (ts & A2 & R).
  exists ts. split; [exact (adv_trans _ _ _ _ _ A1 A2) | exact R].
Qed.
Print Assumptions ifdata_content_is_written_as_it_was_read.

(* ---------- the IF_DATA block as the block parser meets it (behind "/begin IF_DATA") ---------- *)
Theorem ifdata_block_is_written_as_it_was_read ftab rec ifuel td newc lo : t_special td = Some "IfData"%string -> c_fileid newc = O ->
  forall s lay g v s', Inv s -> ps_ftab s = ftab ->
  parse_special_or_generic rec ifuel td newc lo s = (ROk (VIfData lay (Some g) v), s') -> ps_log s' = ps_log s ->
  exists ts tE tI, adv (ts ++ [tE; tI]) s s' /\ reads_all ftab ts (ftoks ftab g) /\ tk_type tE = TEnd /\
                   shape_of tI = (TIdentifier, bytes_of "IF_DATA").
Proof.
  intros Hsp Hc s lay g v s' I Hf E L. unfold parse_special_or_generic in E. rewrite Hsp in E. cbn [String.eqb Ascii.eqb Bool.eqb] in E.
  rewrite Hc, bind_incfile in E.
  apply bind_clean_inv in E; [|cs|intro; cs|exact L]. destruct E as (uid & s1 & E1 & L1 & E2 & L2).
  assert (A1 : adv [] s s1).
  { unfold get_next_id in E1. injection E1 as _ <-. constructor; [reflexivity | reflexivity | constructor; reflexivity | exact (inv_pos s I)]. }
  assert (I1 : Inv s1) by (exact (adv_inv _ _ _ I A1)).
  unfold get_specs at 1 in E2. unfold bindM at 1 in E2.
  apply bind_clean_inv in E2; [|cs|intro; cs|exact L2]. destruct E2 as (r & s2 & E3 & L3 & E4 & L4).
  apply bind_clean_inv in E4; [|cs|intro; cs|exact L4]. destruct E4 as (tE & s3 & E5 & L5 & E6 & L6).
  destruct (bind_ok_inv _ _ _ _ _ E6) as (eo & s3a & G & E7).
  apply bind_clean_inv in E7; [|unfold end_tag_check; cs|intro; cs|].
  2:{ destruct (log_grows get_line_offset ltac:(cs) _ _ _ G) as (l1 & Q1).
      match type of E7 with ?m s3a = _ => destruct (log_grows m ltac:(unfold end_tag_check; cs) _ _ _ E7) as (l2 & Q2) end.
      rewrite Q1 in Q2. rewrite L6 in Q2. destruct (app_app_self l2 l1 (ps_log s3)) as [-> ->]; [symmetry; exact Q2 | cbn [app] in *; congruence]. }
  destruct E7 as (u & s4 & E8 & L8 & E9 & _). injection E9 as _ Hg Hv <-.
  destruct r as [og valid]. cbn [fst snd] in *. subst og valid.
  destruct (ifdata_content_is_written_as_it_was_read ftab (ps_specs s1) ifuel newc Hc s1 g v s2 I1 (ftab_of _ _ _ _ Hf A1) E3 L3) as (ts & A2 & R).
  assert (I2 : Inv s2) by (exact (adv_inv _ _ _ I1 A2)).
  destruct (expect_inv newc Hc TEnd s2 tE s3 I2 E5) as (r3 & Ea3 & HtE & A3).
  assert (I3 : Inv s3) by (exact (adv_inv _ _ _ I2 A3)).
  rewrite (glo_inv s3 eo s3a I3 G) in *.
  unfold end_tag_check in E8. destruct (bind_ok_inv _ _ _ _ _ E8) as (ident & s3b & Ei & E10).
  destruct (get_identifier_inv newc Hc s3 ident s3b I3 Ei) as (tI & r4 & Ea4 & HtI & Hid & A4).
  destruct (bytes_eqb ident (bytes_of "IF_DATA")) eqn:Eq.
  - injection E10 as _ <-. apply MergeProofs.bytes_eqb_eq in Eq. exists ts, tE, tI.
    split; [|split; [exact R | split; [exact HtE | unfold shape_of; rewrite HtI, <- Hid, Eq; reflexivity]]].
    pose proof (adv_trans _ _ _ _ _ (adv_trans _ _ _ _ _ (adv_trans _ _ _ _ _ A1 A2) A3) A4) as Q. cbn [app] in Q. rewrite <- app_assoc in Q. exact Q.
  - exfalso. assert (I3b : Inv s3b) by (exact (adv_inv _ _ _ I3 A4)).
    assert (L3b : ps_log s3b = ps_log s3).
    { destruct (log_grows (get_identifier newc) ltac:(cs) _ _ _ Ei) as (l1 & Q1).
      match type of E10 with ?m s3b = _ => destruct (log_grows m ltac:(cs) _ _ _ E10) as (l2 & Q2) end.
      rewrite Q1 in Q2. rewrite L8 in Q2. destruct (app_app_self l2 l1 (ps_log s3)) as [-> _]; [symmetry; exact Q2 | exact Q1]. }
    cbn [app] in L3b. exact (diag_eol_not_clean _ _ _ _ _ _ E10 ltac:(congruence)).
Qed.
Print Assumptions ifdata_block_is_written_as_it_was_read.
