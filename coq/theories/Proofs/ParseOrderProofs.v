(** The order in which the writer lists the children of a block that the parser built: the parser numbers the children
    in the order in which it reads them (ids strictly increasing), the writer sorts them by that number - so it lists them
    in the order in which they stood in the file.  (Position restrictions are assumed to reorder nothing: the documented
    exception.) *)
From Coq Require Import Ascii String List Bool NArith ZArith Lia Sorting.Sorted Permutation.
From A2L Require Import Base.StableSort Text.Escape Text.IntText Lex.Tokenizer Gram.Spec A2ml.Types Gram.PState Gram.Parser
  Gram.Writer Gram.TokWriter Proofs.RoundTripOrderProofs.
Import ListNotations.
Local Open Scope N_scope.

Definition euid (e : entry) : N := l_uid (layout_of (snd e)).
Fixpoint uid_chain (lo : N) (P : list entry) : Prop :=
  match P with [] => True | e :: r => lo < euid e /\ uid_chain (euid e) r end.
Definition kids_at (i : nat) (P : list entry) : list value :=
  map snd (filter (fun e : entry => Nat.eqb (fst (fst e)) i) P).

Lemma uid_chain_weaken P : forall lo lo', lo <= lo' -> uid_chain lo' P -> uid_chain lo P.
Proof. destruct P as [|e r]; intros lo lo' H X; [exact Logic.I|]. cbn [uid_chain] in *. destruct X as [X1 X2]. split; [lia | exact X2]. Qed.

Lemma uid_chain_above P : forall lo e, uid_chain lo P -> In e P -> lo < euid e.
Proof.
  induction P as [|x r IH]; intros lo e H Hin; [destruct Hin|]. cbn [uid_chain] in H. destruct H as [H1 H2].
  destruct Hin as [<-|Hin]; [exact H1|]. specialize (IH _ _ H2 Hin). lia.
Qed.

(* two sorted lists with the same elements: one sorted by the writer's comparison, one with strictly increasing positive ids *)
Section Unique.
  Context {P : Type}.
  Definition id_lt (a b : ginfo P) : Prop := 0 < g_uid a /\ g_uid a < g_uid b.

  Lemma sort_leb_strict (a b : ginfo P) : id_lt a b -> sort_leb b a = false.
  Proof.
    intros [H0 H1]. unfold sort_leb, Writer.sort_function.
    assert (Ea : (g_uid a =? 0) = false) by (apply N.eqb_neq; lia).
    assert (Eb : (g_uid b =? 0) = false) by (apply N.eqb_neq; lia).
    assert (Eab : (g_uid b =? g_uid a) = false) by (apply N.eqb_neq; lia).
    rewrite Ea, Eb, Eab. cbn [andb negb].
    assert (C : (g_uid b ?= g_uid a) = Gt) by (apply N.compare_gt_iff; exact H1). rewrite C. reflexivity.
  Qed.

  Lemma sorted_unique : forall (l' m : list (ginfo P)), Permutation m l' ->
    StronglySorted (leP sort_leb) m -> StronglySorted id_lt l' -> m = l'.
  Proof.
    induction l' as [|x r' IH]; intros m Hp Hm Hl.
    - apply Permutation_nil. symmetry. exact Hp.
    - destruct m as [|y q]; [apply Permutation_nil in Hp; discriminate|].
      inversion Hm as [|? ? Hq Hy]; subst. inversion Hl as [|? ? Hr Hx]; subst.
      assert (Exy : x = y).
      { assert (Hxin : In x (y :: q)) by (eapply Permutation_in; [symmetry; exact Hp | left; reflexivity]).
        assert (Hyin : In y (x :: r')) by (eapply Permutation_in; [exact Hp | left; reflexivity]).
        destruct Hxin as [E|Hxq]; [symmetry; exact E|]. destruct Hyin as [E|Hyr]; [exact E|]. exfalso.
        rewrite Forall_forall in Hy, Hx. pose proof (Hy x Hxq) as L1. pose proof (Hx y Hyr) as L2.
        unfold leP in L1. rewrite (sort_leb_strict x y L2) in L1. discriminate. }
      subst y. f_equal. apply IH; [eapply Permutation_cons_inv; exact Hp | exact Hq | exact Hr].
  Qed.
End Unique.

Lemma filter_partition_perm {A} (f : A -> bool) (l : list A) : Permutation (filter f l ++ filter (fun x => negb (f x)) l) l.
Proof.
  induction l as [|a l IH]; [constructor|]. cbn [filter]. destruct (f a); cbn [negb app].
  - constructor. exact IH.
  - eapply Permutation_trans; [apply Permutation_sym, Permutation_middle|]. constructor. exact IH.
Qed.

Lemma filter_filter_neq {A} (f g : A -> bool) (l : list A) : (forall x, g x = true -> f x = false) ->
  filter g (filter (fun x => negb (f x)) l) = filter g l.
Proof.
  intros H. induction l as [|a l IH]; [reflexivity|]. cbn [filter]. destruct (f a) eqn:Fa; cbn [negb filter].
  - destruct (g a) eqn:Ga; [rewrite (H a Ga) in Fa; discriminate | exact IH].
  - destruct (g a); [f_equal|]; exact IH.
Qed.

Section Order.
  Variable S : spec.
  Variable posrs : list (string * posr).

  Definition gentry (e : entry) : ginfo entry := entry_of S posrs (fst (fst e)) (snd (fst e)) (snd e).

  Lemma payload_gentry (P : list entry) : flat_map payload (map gentry P) = P.
  Proof. induction P as [|[[i ti] k] P IH]; [reflexivity|]. cbn [map flat_map]. rewrite IH. reflexivity. Qed.

  Lemma gentry_uid e : g_uid (gentry e) = euid e.
  Proof. reflexivity. Qed.

  Lemma gentry_sorted : forall P lo, uid_chain lo P -> StronglySorted id_lt (map gentry P).
  Proof.
    induction P as [|e r IH]; intros lo H; [constructor|]. cbn [uid_chain] in H. destruct H as [H1 H2]. cbn [map].
    constructor; [exact (IH _ H2)|]. apply Forall_forall. intros g Hg. apply in_map_iff in Hg. destruct Hg as (e2 & <- & Hin).
    unfold id_lt. rewrite !gentry_uid. split; [lia | exact (uid_chain_above r _ e2 H2 Hin)].
  Qed.

  Lemma entries_perm : forall titems K s P, length K = length titems ->
    (forall j, nth j K [] = kids_at (s + j) P) ->
    (forall e, In e P -> (s <= fst (fst e))%nat /\ nth_error titems (fst (fst e) - s) = Some (snd (fst e))) ->
    Permutation (entries_from S posrs s titems K) (map gentry P).
  Proof.
    induction titems as [|ti r IH]; intros K s P Hlen Hnth Hin.
    - destruct P as [|e P]; [destruct K; constructor|]. destruct (Hin e (or_introl eq_refl)) as [_ X]. destruct (fst (fst e) - s)%nat; discriminate.
    - destruct K as [|ks m]; [discriminate|]. unfold entries_from. cbn [length seq combine flat_map fst snd].
      fold (entries_from S posrs (Datatypes.S s) r m).
      set (P0 := filter (fun e : entry => Nat.eqb (fst (fst e)) s) P).
      set (P1 := filter (fun e : entry => negb (Nat.eqb (fst (fst e)) s)) P).
      assert (Hks : map (entry_of S posrs s ti) ks = map gentry P0).
      { pose proof (Hnth O) as H0. cbn [nth] in H0. rewrite Nat.add_0_r in H0. rewrite H0. unfold kids_at. fold P0.
        rewrite map_map. apply map_ext_in. intros e He. subst P0. apply filter_In in He. destruct He as [He Hs].
        apply Nat.eqb_eq in Hs. destruct (Hin e He) as [_ X]. rewrite Hs, Nat.sub_diag in X. cbn [nth_error] in X. injection X as X.
        unfold gentry. rewrite Hs, <- X. reflexivity. }
      rewrite Hks.
      assert (Hrest : Permutation (entries_from S posrs (Datatypes.S s) r m) (map gentry P1)).
      { apply IH.
        - cbn [length] in Hlen. lia.
        - intros j. pose proof (Hnth (Datatypes.S j)) as Hj. cbn [nth] in Hj. rewrite Hj. unfold kids_at. f_equal.
          replace (s + Datatypes.S j)%nat with (Datatypes.S s + j)%nat by lia. subst P1. symmetry. apply filter_filter_neq.
          intros x Hx. apply Nat.eqb_eq in Hx. apply Nat.eqb_neq. lia.
        - intros e He. subst P1. apply filter_In in He. destruct He as [He Hs]. apply negb_true_iff, Nat.eqb_neq in Hs.
          destruct (Hin e He) as [Hle X]. split; [lia|].
          replace (fst (fst e) - s)%nat with (Datatypes.S (fst (fst e) - Datatypes.S s)) in X by lia. exact X. }
      eapply Permutation_trans; [apply Permutation_app_head; exact Hrest|]. rewrite <- map_app. apply Permutation_map.
      apply filter_partition_perm.
  Qed.

  Theorem ordered_kids_parse_order titems K' P lo : length K' = length titems ->
    (forall i, nth i K' [] = kids_at i P) ->
    Forall (fun e : entry => nth_error titems (fst (fst e)) = Some (snd (fst e))) P ->
    uid_chain lo P ->
    group_order (kid_entries S posrs titems K') = ssort sort_leb (kid_entries S posrs titems K') ->
    ordered_kids S posrs titems K' = P.
  Proof.
    intros Hlen Hnth Hall Hch Hgo. unfold ordered_kids. rewrite Hgo, kid_entries_from.
    assert (Hp : Permutation (entries_from S posrs 0 titems K') (map gentry P)).
    { apply entries_perm; [exact Hlen | exact Hnth |]. intros e He. rewrite Forall_forall in Hall. split; [lia|].
      rewrite Nat.sub_0_r. exact (Hall e He). }
    rewrite (sorted_unique (map gentry P) (ssort sort_leb (entries_from S posrs 0 titems K'))).
    - apply payload_gentry.
    - eapply Permutation_trans; [apply ssort_perm | exact Hp].
    - apply ssort_strongly_sorted; [apply sort_leb_total | apply sort_leb_trans].
    - exact (gentry_sorted P lo Hch).
  Qed.
End Order.
