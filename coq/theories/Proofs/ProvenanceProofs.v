(** C16, the parser's side of "/include is transparent": what the parser builds depends on the TYPES and TEXTS of the
    tokens only.  The file a token comes from and the line it stands on reach the model in the layout data alone (line,
    line offsets, the include file an element is attributed to, the "is included" flag of a comment) and in the position
    of diagnostics - never the data, never the control flow.

    [sim RA m1 m2]: started in two states that agree up to the provenance of their tokens, the runs of [m1] and [m2]
    end in such states and their results are related by [RA] (values: equal after erasing the layout data) - unless
    one of them panics (the panic sites of the model depend on lines and file ids: the u32 subtraction of
    get_line_offset, filenames[fileid]; panics are tied to the implementation by the correspondence runs of C03).

    Proved for every function of Gram/Parser.v up to parse_file, for every grammar. *)
From Coq Require Import Ascii String List Bool NArith ZArith Lia.
From A2L Require Import Text.Escape Text.IntText Lex.Tokenizer Gram.Spec A2ml.Types Gram.PState Gram.Parser.
Import ListNotations.

(* ---------- what is left of tokens, diagnostics and values when the provenance is erased ---------- *)
Definition tshape (t : token) : ttype * bytes := (tk_type t, tk_text t).
Definition er_diag (d : diag) : diag := mkDiag (d_variant d) None 0 (d_key d).
Definition er_lay (l : layout) : layout := mkLay (l_uid l) 0 0 0 None.
Definition er_cm (c : comment) : comment := mkCm (cm_text c) (cm_uid c) 0 0 false.

Fixpoint er_gifd (g : gifd) : gifd :=
  match g with
  | GNone => GNone
  | GInt v _ z h => GInt v 0 z h
  | GFloat _ b => GFloat 0 b
  | GDouble _ b => GDouble 0 b
  | GString _ s => GString 0 s
  | GEnumItem _ s => GEnumItem 0 s
  | GArray l => GArray (map er_gifd l)
  | GSequence l => GSequence (map er_gifd l)
  | GTaggedStruct items => GTaggedStruct (map (fun kv => (fst kv, map er_gti (snd kv))) items)
  | GTaggedUnion items => GTaggedUnion (map (fun kv => (fst kv, map er_gti (snd kv))) items)
  | GStruct _ _ items => GStruct None 0 (map er_gifd items)
  | GBlock _ _ items => GBlock None 0 (map er_gifd items)
  end
with er_gti (t : gtitem) : gtitem :=
  match t with GTI _ _ uid _ _ tag data isb => GTI None 0 uid 0 0 tag (er_gifd data) isb end.

Definition er_kv (kv : bytes * list gtitem) : bytes * list gtitem := (fst kv, map er_gti (snd kv)).

Fixpoint er_value (v : value) : value :=
  match v with
  | VScalar s _ => VScalar s 0
  | VList l => VList (map er_value l)
  | VNode ty lay f k c => VNode ty (er_lay lay) (map er_value f) (map (map er_value) k) (map er_cm c)
  | VIfData lay items valid => VIfData (er_lay lay) (option_map er_gifd items) valid
  end.

(* two parser states that differ in the provenance of their tokens only *)
Record seq (s1 s2 : pstate) : Prop := mkSeq {
  q_before : map tshape (ps_before s1) = map tshape (ps_before s2);
  q_after : map tshape (ps_after s1) = map tshape (ps_after s2);
  q_pos : ps_pos s1 = ps_pos s2;
  q_seq : ps_seq s1 = ps_seq s2;
  q_strict : ps_strict s1 = ps_strict s2;
  q_ver : ps_ver s1 = ps_ver s2;
  q_ftab : ps_ftab s1 = ps_ftab s2;
  q_kept : ps_kept s1 = ps_kept s2;
  q_specs : ps_specs s1 = ps_specs s2;
  q_a2ml : ps_a2ml s1 = ps_a2ml s2;
  q_log : map er_diag (ps_log s1) = map er_diag (ps_log s2) }.

Definition panics {A} (r : R A) : Prop := match r with RPanic _ => True | _ => False end.
Definition rrel {A} (RA : A -> A -> Prop) (r1 r2 : R A) : Prop :=
  match r1, r2 with
  | ROk a, ROk b => RA a b
  | RErr d, RErr e => er_diag d = er_diag e
  | RFuel, RFuel => True
  | _, _ => False
  end.

Definition sim {A} (RA : A -> A -> Prop) (m1 m2 : M A) : Prop :=
  forall s1 s2 r1 s1' r2 s2', seq s1 s2 -> m1 s1 = (r1, s1') -> m2 s2 = (r2, s2') ->
    panics r1 \/ panics r2 \/ (seq s1' s2' /\ rrel RA r1 r2).

(* ---------- the monad ---------- *)
Lemma sim_ret {A} (RA : A -> A -> Prop) a b : RA a b -> sim RA (ret a) (ret b).
Proof. intros H s1 s2 r1 s1' r2 s2' Q E1 E2. injection E1 as <- <-. injection E2 as <- <-. right. right. split; assumption. Qed.
Lemma sim_fail {A} (RA : A -> A -> Prop) d e : er_diag d = er_diag e -> sim RA (@fail A d) (fail e).
Proof. intros H s1 s2 r1 s1' r2 s2' Q E1 E2. injection E1 as <- <-. injection E2 as <- <-. right. right. split; assumption. Qed.
Lemma sim_panic_l {A} (RA : A -> A -> Prop) x m : sim RA (@panic A x) m.
Proof. intros s1 s2 r1 s1' r2 s2' Q E1 E2. injection E1 as <- <-. left. exact I. Qed.
Lemma sim_panic_r {A} (RA : A -> A -> Prop) x m : sim RA m (@panic A x).
Proof. intros s1 s2 r1 s1' r2 s2' Q E1 E2. injection E2 as <- <-. right. left. exact I. Qed.
Lemma sim_fuel {A} (RA : A -> A -> Prop) : sim RA (@out_of_fuel A) out_of_fuel.
Proof. intros s1 s2 r1 s1' r2 s2' Q E1 E2. injection E1 as <- <-. injection E2 as <- <-. right. right. split; [exact Q | exact I]. Qed.

Lemma sim_weaken {A} (RA RA' : A -> A -> Prop) m1 m2 : sim RA m1 m2 -> (forall a b, RA a b -> RA' a b) -> sim RA' m1 m2.
Proof.
  intros H HR s1 s2 r1 s1' r2 s2' Q E1 E2. destruct (H _ _ _ _ _ _ Q E1 E2) as [P|[P|[Q' Rr]]]; [left; exact P | right; left; exact P|].
  right. right. split; [exact Q'|]. destruct r1, r2; cbn in *; auto.
Qed.

Lemma sim_bind {A B} (RA : A -> A -> Prop) (RB : B -> B -> Prop) (m1 m2 : M A) (f1 f2 : A -> M B) :
  sim RA m1 m2 -> (forall a b, RA a b -> sim RB (f1 a) (f2 b)) -> sim RB (bindM m1 f1) (bindM m2 f2).
Proof.
  intros Hm Hf s1 s2 r1 s1' r2 s2' Q E1 E2. unfold bindM in E1, E2.
  destruct (m1 s1) as [x1 t1] eqn:M1. destruct (m2 s2) as [x2 t2] eqn:M2.
  destruct (Hm _ _ _ _ _ _ Q M1 M2) as [P|[P|[Q' Rr]]].
  - destruct x1; try contradiction. injection E1 as <- <-. left. exact I.
  - destruct x2; try contradiction. injection E2 as <- <-. right. left. exact I.
  - destruct x1 as [a|d|x|], x2 as [b|e|y|]; cbn in Rr; try contradiction.
    + exact (Hf a b Rr _ _ _ _ _ _ Q' E1 E2).
    + injection E1 as <- <-. injection E2 as <- <-. right. right. split; assumption.
    + injection E1 as <- <-. injection E2 as <- <-. right. right. split; [exact Q' | exact I].
Qed.

Definition tryrel {A} (RA : A -> A -> Prop) (x y : option A * option diag) : Prop :=
  match x, y with
  | (Some a, None), (Some b, None) => RA a b
  | (None, Some d), (None, Some e) => er_diag d = er_diag e
  | _, _ => False
  end.

Lemma sim_try {A} (RA : A -> A -> Prop) (m1 m2 : M A) : sim RA m1 m2 -> sim (tryrel RA) (try m1) (try m2).
Proof.
  intros Hm s1 s2 r1 s1' r2 s2' Q E1 E2. unfold try in E1, E2.
  destruct (m1 s1) as [x1 t1] eqn:M1. destruct (m2 s2) as [x2 t2] eqn:M2.
  destruct (Hm _ _ _ _ _ _ Q M1 M2) as [P|[P|[Q' Rr]]].
  - destruct x1; try contradiction. injection E1 as <- <-. left. exact I.
  - destruct x2; try contradiction. injection E2 as <- <-. right. left. exact I.
  - destruct x1 as [a|d|x|], x2 as [b|e|y|]; cbn in Rr; try contradiction;
      injection E1 as <- <-; injection E2 as <- <-; right; right; (split; [exact Q'|]); cbn; auto.
Qed.

(* ---------- computations that depend on the shared part of the state only ---------- *)
(* [same g]: g reads the same value in related states *)
Definition same {B} (g : pstate -> B) : Prop := forall s1 s2, seq s1 s2 -> g s1 = g s2.

Lemma sim_reads {B} (g : pstate -> B) : same g -> sim eq (fun s => (ROk (g s), s)) (fun s => (ROk (g s), s)).
Proof.
  intros H s1 s2 r1 s1' r2 s2' Q E1 E2. injection E1 as <- <-. injection E2 as <- <-. right. right. split; [exact Q | exact (H _ _ Q)].
Qed.

Lemma sim_get_tokenpos : sim eq get_tokenpos get_tokenpos.
Proof. apply (sim_reads ps_pos). intros s1 s2 Q. exact (q_pos _ _ Q). Qed.
Lemma sim_remaining : sim eq remaining remaining.
Proof.
  apply (sim_reads (fun s => length (ps_after s))). intros s1 s2 Q.
  rewrite <- (map_length tshape (ps_after s1)), (q_after _ _ Q), map_length. reflexivity.
Qed.
Lemma sim_get_specs : sim eq get_specs get_specs.
Proof. apply (sim_reads ps_specs). intros s1 s2 Q. exact (q_specs _ _ Q). Qed.

Lemma sim_get_next_id : sim eq get_next_id get_next_id.
Proof.
  intros s1 s2 r1 s1' r2 s2' Q E1 E2. injection E1 as <- <-. injection E2 as <- <-. right. right.
  destruct Q. split; [constructor; cbn; congruence | cbn; congruence].
Qed.
Lemma sim_push_spec t : sim eq (push_spec t) (push_spec t).
Proof.
  intros s1 s2 r1 s1' r2 s2' Q E1 E2. injection E1 as <- <-. injection E2 as <- <-. right. right.
  destruct Q. split; [constructor; cbn; congruence | reflexivity].
Qed.
Lemma sim_set_file_version v : sim eq (set_file_version v) (set_file_version v).
Proof.
  intros s1 s2 r1 s1' r2 s2' Q E1 E2. injection E1 as <- <-. injection E2 as <- <-. right. right.
  destruct Q. split; [constructor; cbn; congruence | reflexivity].
Qed.
Lemma sim_set_kept k : sim eq (fun s => (ROk tt, upd_kept s k)) (fun s => (ROk tt, upd_kept s k)).
Proof.
  intros s1 s2 r1 s1' r2 s2' Q E1 E2. injection E1 as <- <-. injection E2 as <- <-. right. right.
  destruct Q. split; [constructor; cbn; congruence | reflexivity].
Qed.
Lemma sim_get_incfilename f1 f2 : sim (fun _ _ => True) (get_incfilename f1) (get_incfilename f2).
Proof. intros s1 s2 r1 s1' r2 s2' Q E1 E2. injection E1 as <- <-. injection E2 as <- <-. right. right. split; [exact Q | exact I]. Qed.

(* contexts: the element name is data, file and line are provenance *)
Definition crel (c1 c2 : ctx) : Prop := c_element c1 = c_element c2.

Lemma sim_mk_diag v c1 c2 k : sim (fun d e => er_diag d = er_diag e) (mk_diag v c1 k) (mk_diag v c2 k).
Proof.
  intros s1 s2 r1 s1' r2 s2' Q E1 E2. unfold mk_diag in E1, E2.
  destruct (Nat.ltb (c_fileid c1) (ps_nfiles s1)); [|injection E1 as <- <-; left; exact I].
  destruct (Nat.ltb (c_fileid c2) (ps_nfiles s2)); [|injection E2 as <- <-; right; left; exact I].
  injection E1 as <- <-. injection E2 as <- <-. right. right. split; [exact Q | reflexivity].
Qed.

Lemma sim_eof_diag c1 c2 : crel c1 c2 -> sim (fun d e => er_diag d = er_diag e) (eof_diag c1) (eof_diag c2).
Proof. intros Hc. unfold eof_diag. rewrite Hc. apply sim_mk_diag. Qed.

Lemma sim_error_or_log d e : er_diag d = er_diag e -> sim eq (error_or_log d) (error_or_log e).
Proof.
  intros H s1 s2 r1 s1' r2 s2' Q E1 E2. unfold error_or_log in E1, E2. rewrite <- (q_strict _ _ Q) in E2.
  destruct (ps_strict s1); injection E1 as <- <-; injection E2 as <- <-; right; right.
  - split; [exact Q | exact H].
  - destruct Q. split; [constructor; cbn; congruence | reflexivity].
Qed.
Lemma sim_log_warning d e : er_diag d = er_diag e -> sim eq (log_warning d) (log_warning e).
Proof.
  intros H s1 s2 r1 s1' r2 s2' Q E1 E2. injection E1 as <- <-. injection E2 as <- <-. right. right.
  destruct Q. split; [constructor; cbn; congruence | reflexivity].
Qed.

(* the line offset: any two numbers, or a panic; the state is left alone *)
Lemma glo_state s r s' : get_line_offset s = (r, s') -> s' = s /\ (panics r \/ exists n, r = ROk n).
Proof.
  unfold get_line_offset.
  repeat match goal with |- context [match ?x with _ => _ end] => destruct x end;
    intros E; injection E as <- <-; (split; [reflexivity|]); first [left; exact I | right; eexists; reflexivity].
Qed.
Lemma sim_get_line_offset : sim (fun _ _ => True) get_line_offset get_line_offset.
Proof.
  intros s1 s2 r1 s1' r2 s2' Q E1 E2. destruct (glo_state _ _ _ E1) as [-> [P|[n ->]]]; [left; exact P|].
  destruct (glo_state _ _ _ E2) as [-> [P|[n2 ->]]]; [right; left; exact P|]. right. right. split; [exact Q | exact I].
Qed.

(* ---------- the cursor ---------- *)
Definition teq (t1 t2 : token) : Prop := tshape t1 = tshape t2.
Definition optrel {A} (RA : A -> A -> Prop) (x y : option A) : Prop :=
  match x, y with Some a, Some b => RA a b | None, None => True | _, _ => False end.

Lemma teq_type t1 t2 : teq t1 t2 -> tk_type t1 = tk_type t2.
Proof. intros H. exact (f_equal fst H). Qed.
Lemma teq_text t1 t2 : teq t1 t2 -> tk_text t1 = tk_text t2.
Proof. intros H. exact (f_equal snd H). Qed.

Lemma sim_peek : sim (optrel teq) peek_token peek_token.
Proof.
  intros s1 s2 r1 s1' r2 s2' Q E1 E2. injection E1 as <- <-. injection E2 as <- <-. right. right. split; [exact Q|].
  pose proof (q_after _ _ Q) as H. destruct (ps_after s1), (ps_after s2); try discriminate; cbn [optrel]; [exact I|]. unfold teq. cbn [map] in H. congruence.
Qed.

Lemma sim_get_token c1 c2 : crel c1 c2 -> sim teq (get_token c1) (get_token c2).
Proof.
  intros Hc s1 s2 r1 s1' r2 s2' Q E1 E2. unfold get_token in E1, E2. pose proof (q_after _ _ Q) as H.
  destruct (ps_after s1) as [|t1 a1], (ps_after s2) as [|t2 a2]; try discriminate.
  - assert (S0 : sim (fun _ _ : token => False) (bindM (eof_diag c1) fail) (bindM (eof_diag c2) fail)).
    { unfold eof_diag. rewrite Hc. eapply sim_bind; [apply sim_mk_diag|]. intros d e He. apply sim_fail. exact He. }
    destruct (S0 _ _ _ _ _ _ Q E1 E2) as [P|[P|[Q' Rr]]]; [left; exact P | right; left; exact P|]. right. right. split; [exact Q'|].
    destruct r1, r2; cbn in *; try contradiction; auto.
  - injection E1 as <- <-. injection E2 as <- <-. cbn [map] in H. assert (H1 : teq t1 t2) by (unfold teq; congruence).
    assert (H2 : map tshape a1 = map tshape a2) by congruence. right. right. destruct Q.
    split; [constructor; cbn; try congruence | exact H1].
Qed.

Lemma sim_cursor_next : sim eq cursor_next cursor_next.
Proof.
  intros s1 s2 r1 s1' r2 s2' Q E1 E2. unfold cursor_next in E1, E2. pose proof (q_after _ _ Q) as H.
  destruct (ps_after s1) as [|t1 a1], (ps_after s2) as [|t2 a2]; try discriminate; injection E1 as <- <-; injection E2 as <- <-; right; right.
  - split; [exact Q | reflexivity].
  - cbn [map] in H. assert (H1 : tshape t1 = tshape t2) by congruence. assert (H2 : map tshape a1 = map tshape a2) by congruence.
    destruct Q. split; [constructor; cbn; congruence | reflexivity].
Qed.

Lemma sim_undo : sim eq undo_get_token undo_get_token.
Proof.
  intros s1 s2 r1 s1' r2 s2' Q E1 E2. unfold undo_get_token in E1, E2. pose proof (q_before _ _ Q) as H.
  destruct (ps_before s1) as [|t1 b1], (ps_before s2) as [|t2 b2]; try discriminate; injection E1 as <- <-; injection E2 as <- <-.
  - left. exact I.
  - right. right. cbn [map] in H. assert (H1 : tshape t1 = tshape t2) by congruence. assert (H2 : map tshape b1 = map tshape b2) by congruence.
    destruct Q. split; [constructor; cbn; congruence | reflexivity].
Qed.

Lemma move_back_shape : forall n b1 a1 b2 a2, map tshape b1 = map tshape b2 -> map tshape a1 = map tshape a2 ->
  map tshape (fst (move_back n b1 a1)) = map tshape (fst (move_back n b2 a2)) /\
  map tshape (snd (move_back n b1 a1)) = map tshape (snd (move_back n b2 a2)).
Proof.
  induction n as [|n IH]; intros b1 a1 b2 a2 Hb Ha; cbn [move_back]; [split; assumption|].
  destruct b1 as [|t1 b1], b2 as [|t2 b2]; try discriminate; [split; assumption|]. cbn [map] in Hb.
  apply IH; [congruence | cbn [map]; congruence].
Qed.
Lemma move_fwd_shape : forall n b1 a1 b2 a2, map tshape b1 = map tshape b2 -> map tshape a1 = map tshape a2 ->
  map tshape (fst (move_fwd n b1 a1)) = map tshape (fst (move_fwd n b2 a2)) /\
  map tshape (snd (move_fwd n b1 a1)) = map tshape (snd (move_fwd n b2 a2)).
Proof.
  induction n as [|n IH]; intros b1 a1 b2 a2 Hb Ha; cbn [move_fwd]; [split; assumption|].
  destruct a1 as [|t1 a1], a2 as [|t2 a2]; try discriminate; [split; assumption|]. cbn [map] in Ha.
  apply IH; [cbn [map]; congruence | congruence].
Qed.

Lemma sim_set_tokenpos n : sim eq (set_tokenpos n) (set_tokenpos n).
Proof.
  intros s1 s2 r1 s1' r2 s2' Q E1 E2. unfold set_tokenpos in E1, E2. rewrite <- (q_pos _ _ Q) in E2.
  destruct (Nat.leb n (ps_pos s1)).
  - pose proof (move_back_shape (ps_pos s1 - n) _ _ _ _ (q_before _ _ Q) (q_after _ _ Q)) as [H1 H2].
    destruct (move_back (ps_pos s1 - n) (ps_before s1) (ps_after s1)) as [x1 y1].
    destruct (move_back (ps_pos s1 - n) (ps_before s2) (ps_after s2)) as [x2 y2]. cbn [fst snd] in *.
    injection E1 as <- <-. injection E2 as <- <-. right. right. destruct Q.
    split; [constructor; cbn; try congruence | reflexivity].
    rewrite <- (map_length tshape x1), H1, map_length. reflexivity.
  - pose proof (move_fwd_shape (n - ps_pos s1) _ _ _ _ (q_before _ _ Q) (q_after _ _ Q)) as [H1 H2].
    destruct (move_fwd (n - ps_pos s1) (ps_before s1) (ps_after s1)) as [x1 y1].
    destruct (move_fwd (n - ps_pos s1) (ps_before s2) (ps_after s2)) as [x2 y2]. cbn [fst snd] in *.
    injection E1 as <- <-. injection E2 as <- <-. right. right. destruct Q.
    split; [constructor; cbn; try congruence | reflexivity].
    rewrite <- (map_length tshape x1), H1, map_length. reflexivity.
Qed.

Definition bcrel (x y : block_content) : Prop :=
  match x, y with
  | BCBlock t1 b1 _, BCBlock t2 b2 _ => teq t1 t2 /\ b1 = b2
  | BCComment t1 _, BCComment t2 _ => teq t1 t2
  | BCNone, BCNone => True
  | _, _ => False
  end.

(* ---------- automation ---------- *)
Global Hint Resolve sim_get_tokenpos sim_remaining sim_get_specs sim_get_next_id sim_push_spec sim_set_file_version sim_set_kept
  sim_get_incfilename sim_mk_diag sim_get_line_offset sim_peek sim_cursor_next sim_undo sim_set_tokenpos sim_fuel : sim.
Global Hint Extern 1 (sim _ (get_token _) (get_token _)) => eapply sim_get_token : sim.
Global Hint Extern 1 (sim _ (eof_diag _) (eof_diag _)) => eapply sim_eof_diag : sim.
Global Hint Extern 1 (sim _ (error_or_log _) (error_or_log _)) => eapply sim_error_or_log : sim.
Global Hint Extern 1 (sim _ (log_warning _) (log_warning _)) => eapply sim_log_warning : sim.
Global Hint Extern 1 (sim _ (ret _) (ret _)) => eapply sim_ret : sim.
Global Hint Extern 1 (sim _ (fail _) (fail _)) => eapply sim_fail : sim.
Global Hint Extern 2 (crel _ _) => solve [assumption | reflexivity | unfold crel; cbn; congruence] : sim.
Global Hint Extern 2 (er_diag _ = er_diag _) => solve [assumption | reflexivity | congruence] : sim.
Global Hint Extern 2 (_ = _) => solve [reflexivity | assumption] : sim.

(* after a bind: use what is known about the two results *)
Ltac sim_post H :=
  cbv beta in H;
  lazymatch type of H with
  | True => clear H
  | ?a = ?b => first [subst a | subst b | idtac]
  | teq ?a ?b => let H1 := fresh "Hty" in let H2 := fresh "Htx" in
                 pose proof (teq_type _ _ H) as H1; pose proof (teq_text _ _ H) as H2; rewrite ?H1, ?H2
  | optrel _ ?a ?b => destruct a, b; cbn [optrel] in H; try contradiction; try sim_post H
  | bcrel ?a ?b => destruct a, b; cbn [bcrel] in H; try contradiction; try sim_post H
  | _ /\ _ => let H1 := fresh H in let H2 := fresh H in destruct H as [H1 H2]; try sim_post H1; try sim_post H2
  | _ => idtac
  end.

Ltac simt :=
  cbv beta;
  lazymatch goal with
  | |- sim _ (bindM (try _) _) (bindM (try _) _) =>
      eapply sim_bind; [ eapply sim_try; solve [eauto 3 with sim]
                       | intros [[?|] [?|]] [[?|] [?|]] ?; (lazymatch goal with H : _ |- _ => cbn [tryrel] in H; try contradiction; try sim_post H end); simt ]
  | |- sim _ (bindM _ _) (bindM _ _) =>
      eapply sim_bind; [ first [ solve [eauto 3 with sim]
                               | lazymatch goal with |- @sim ?A ?R _ _ => is_evar R; unify R (@eq A) end; simt ]
                       | intros ? ? ?; (lazymatch goal with H : _ |- _ => try sim_post H end); simt ]
  | |- sim _ (match ?x with _ => _ end) (match ?x with _ => _ end) => destruct x; simt
  | |- sim _ (ret _) (ret _) => apply sim_ret; try solve [reflexivity | assumption | congruence | exact I | cbn; auto]
  | |- sim _ (fail _) (fail _) => apply sim_fail; try solve [reflexivity | assumption | congruence]
  | |- sim _ (panic _) _ => apply sim_panic_l
  | |- sim _ _ (panic _) => apply sim_panic_r
  | |- sim _ out_of_fuel out_of_fuel => apply sim_fuel
  | |- _ => first [ eapply sim_weaken; [ solve [eauto 3 with sim] | try solve [intros; subst; auto; congruence] ] | idtac ]
  end.

(* ---------- readers of Gram/PState.v ---------- *)
Lemma sim_expect_loop ty : forall fuel c1 c2, crel c1 c2 -> sim teq (expect_loop fuel c1 ty) (expect_loop fuel c2 ty).
Proof.
  induction fuel as [|f IH]; intros c1 c2 Hc; cbn [expect_loop]; [apply sim_fuel|]. simt.
Qed.

Lemma sim_read_k {A B} (RA : A -> A -> Prop) (g : pstate -> B) (k1 k2 : B -> M A) :
  same g -> (forall x, sim RA (k1 x) (k2 x)) -> sim RA (fun s => k1 (g s) s) (fun s => k2 (g s) s).
Proof. intros Hg Hk s1 s2 r1 s1' r2 s2' Q E1 E2. rewrite <- (Hg _ _ Q) in E2. exact (Hk _ _ _ _ _ _ _ Q E1 E2). Qed.

Lemma sim_ext {A} (RA : A -> A -> Prop) (m1 m2 m1' m2' : M A) :
  (forall s, m1 s = m1' s) -> (forall s, m2 s = m2' s) -> sim RA m1' m2' -> sim RA m1 m2.
Proof. intros H1 H2 H s1 s2 r1 s1' r2 s2' Q E1 E2. rewrite H1 in E1. rewrite H2 in E2. exact (H _ _ _ _ _ _ Q E1 E2). Qed.

Lemma same_remaining : same (fun s => length (ps_after s)).
Proof. intros s1 s2 Q. rewrite <- (map_length tshape (ps_after s1)), (q_after _ _ Q), map_length. reflexivity. Qed.

Lemma sim_expect_token c1 c2 ty : crel c1 c2 -> sim teq (expect_token c1 ty) (expect_token c2 ty).
Proof.
  intros Hc. unfold expect_token.
  apply (sim_read_k teq (fun s => length (ps_after s)) (fun n => expect_loop (S n) c1 ty) (fun n => expect_loop (S n) c2 ty) same_remaining).
  intros n. apply sim_expect_loop. exact Hc.
Qed.
Global Hint Extern 1 (sim _ (expect_token _ _) (expect_token _ _)) => eapply sim_expect_token : sim.

Lemma sim_get_identifier c1 c2 : crel c1 c2 -> sim eq (get_identifier c1) (get_identifier c2).
Proof. intros Hc. unfold get_identifier. simt. Qed.
Global Hint Extern 1 (sim _ (get_identifier _) (get_identifier _)) => eapply sim_get_identifier : sim.

Lemma sim_get_string c1 c2 : crel c1 c2 -> sim eq (get_string c1) (get_string c2).
Proof.
  intros Hc. unfold get_string. eapply sim_bind; [apply sim_peek|]. intros [t1|] [t2|] H; cbn [optrel] in H; try contradiction; [|simt].
  sim_post H. simt.
Qed.
Global Hint Extern 1 (sim _ (get_string _) (get_string _)) => eapply sim_get_string : sim.

Lemma sim_get_string_maxlen c1 c2 n : crel c1 c2 -> sim eq (get_string_maxlen c1 n) (get_string_maxlen c2 n).
Proof. intros Hc. unfold get_string_maxlen. simt. Qed.
Global Hint Extern 1 (sim _ (get_string_maxlen _ _) (get_string_maxlen _ _)) => eapply sim_get_string_maxlen : sim.

Lemma sim_get_integer t c1 c2 : crel c1 c2 -> sim eq (get_integer t c1) (get_integer t c2).
Proof. intros Hc. unfold get_integer. simt. Qed.
Global Hint Extern 1 (sim _ (get_integer _ _) (get_integer _ _)) => eapply sim_get_integer : sim.

Lemma same_ftab : same ps_ftab.
Proof. intros s1 s2 Q. exact (q_ftab _ _ Q). Qed.
Lemma same_ver : same ps_ver.
Proof. intros s1 s2 Q. exact (q_ver _ _ Q). Qed.

Lemma sim_get_double c1 c2 : crel c1 c2 -> sim eq (get_double c1) (get_double c2).
Proof.
  intros Hc. unfold get_double. eapply sim_bind; [eauto with sim|]. intros t1 t2 H. sim_post H. cbv zeta.
  destruct (starts_0x (tk_text t2)); [simt|].
  refine (sim_ext _ _ _ _ _ _ _ (sim_read_k eq ps_ftab
           (fun tab => match find_fentry tab (tk_text t2) with
                       | Some e => if fe_ok e && (fe_bits e mod 2 ^ 63 <? 0x7FF0000000000000)%N then ret (fe_bits e)
                                   else bindM (mk_diag "MalformedNumber" c1 (tk_text t2)) fail
                       | None => panic "float oracle: lexeme missing from the table" end)
           (fun tab => match find_fentry tab (tk_text t2) with
                       | Some e => if fe_ok e && (fe_bits e mod 2 ^ 63 <? 0x7FF0000000000000)%N then ret (fe_bits e)
                                   else bindM (mk_diag "MalformedNumber" c2 (tk_text t2)) fail
                       | None => panic "float oracle: lexeme missing from the table" end) same_ftab _)).
  - intros s; cbv beta; destruct (find_fentry (ps_ftab s) (tk_text t2)) as [e|]; [destruct (fe_ok e && _)|]; reflexivity.
  - intros s; cbv beta; destruct (find_fentry (ps_ftab s) (tk_text t2)) as [e|]; [destruct (fe_ok e && _)|]; reflexivity.
  - intros tab; simt.
Qed.
Global Hint Extern 1 (sim _ (get_double _) (get_double _)) => eapply sim_get_double : sim.

Lemma sim_get_float c1 c2 : crel c1 c2 -> sim eq (get_float c1) (get_float c2).
Proof.
  intros Hc. unfold get_float. eapply sim_bind; [eauto with sim|]. intros t1 t2 H. sim_post H. cbv zeta.
  refine (sim_ext _ _ _ _ _ _ _ (sim_read_k eq ps_ftab
           (fun tab => match find_fentry tab (tk_text t2) with
                       | Some e => if fe_ok32 e && ((fe_bits32 e mod 2 ^ 63 <? 0x7FF0000000000000)%N || starts_0x (tk_text t2)) then ret (fe_bits32 e)
                                   else bindM (mk_diag "MalformedNumber" c1 (tk_text t2)) fail
                       | None => panic "float oracle: lexeme missing from the table" end)
           (fun tab => match find_fentry tab (tk_text t2) with
                       | Some e => if fe_ok32 e && ((fe_bits32 e mod 2 ^ 63 <? 0x7FF0000000000000)%N || starts_0x (tk_text t2)) then ret (fe_bits32 e)
                                   else bindM (mk_diag "MalformedNumber" c2 (tk_text t2)) fail
                       | None => panic "float oracle: lexeme missing from the table" end) same_ftab _)).
  - intros s; cbv beta; destruct (find_fentry (ps_ftab s) (tk_text t2)) as [e|]; [destruct (fe_ok32 e && _)|]; reflexivity.
  - intros s; cbv beta; destruct (find_fentry (ps_ftab s) (tk_text t2)) as [e|]; [destruct (fe_ok32 e && _)|]; reflexivity.
  - intros tab; simt.
Qed.
Global Hint Extern 1 (sim _ (get_float _) (get_float _)) => eapply sim_get_float : sim.

Lemma sim_version_check (bad : version -> bool) v c1 c2 tag (k : diag -> M unit) :
  (forall d e, er_diag d = er_diag e -> sim eq (k d) (k e)) ->
  sim eq (fun s => if bad (ps_ver s) then bindM (mk_diag v c1 tag) k s else (ROk tt, s))
         (fun s => if bad (ps_ver s) then bindM (mk_diag v c2 tag) k s else (ROk tt, s)).
Proof.
  intros Hk. refine (sim_ext _ _ _ _ _ _ _ (sim_read_k eq ps_ver (fun x => if bad x then bindM (mk_diag v c1 tag) k else ret tt)
                                 (fun x => if bad x then bindM (mk_diag v c2 tag) k else ret tt) same_ver _)).
  - intros s. cbv beta. destruct (bad (ps_ver s)); reflexivity.
  - intros s. cbv beta. destruct (bad (ps_ver s)); reflexivity.
  - intros x. destruct (bad x); [|apply sim_ret; reflexivity]. eapply sim_bind; [apply sim_mk_diag|]. exact Hk.
Qed.
Lemma sim_cbv_lower c1 c2 tag v : sim eq (check_block_version_lower c1 tag v) (check_block_version_lower c2 tag v).
Proof. apply (sim_version_check (fun x => version_ltb x v)). intros d e H. apply sim_error_or_log. exact H. Qed.
Lemma sim_cbv_upper c1 c2 tag v : sim eq (check_block_version_upper c1 tag v) (check_block_version_upper c2 tag v).
Proof. apply (sim_version_check (fun x => version_ltb v x)). intros d e H. apply sim_log_warning. exact H. Qed.
Lemma sim_cev_lower c1 c2 tag v : sim eq (check_enumitem_version_lower c1 tag v) (check_enumitem_version_lower c2 tag v).
Proof. apply (sim_version_check (fun x => version_ltb x v)). intros d e H. apply sim_error_or_log. exact H. Qed.
Lemma sim_cev_upper c1 c2 tag v : sim eq (check_enumitem_version_upper c1 tag v) (check_enumitem_version_upper c2 tag v).
Proof. apply (sim_version_check (fun x => version_ltb v x)). intros d e H. apply sim_log_warning. exact H. Qed.
Global Hint Resolve sim_cbv_lower sim_cbv_upper sim_cev_lower sim_cev_upper : sim.

Lemma sim_require_block tag b c1 c2 : sim eq (require_block tag b c1) (require_block tag b c2).
Proof. unfold require_block. simt. Qed.
Lemma sim_require_keyword tag b c1 c2 : sim eq (require_keyword tag b c1) (require_keyword tag b c2).
Proof. unfold require_keyword. simt. Qed.
Lemma sim_handle_multiplicity c1 c2 tag b : sim eq (handle_multiplicity_error c1 tag b) (handle_multiplicity_error c2 tag b).
Proof. unfold handle_multiplicity_error. simt. Qed.
Global Hint Resolve sim_require_block sim_require_keyword sim_handle_multiplicity : sim.

Lemma sim_parse_enum td c1 c2 : crel c1 c2 -> sim eq (parse_enum td c1) (parse_enum td c2).
Proof. intros Hc. unfold parse_enum. simt. Qed.
Global Hint Extern 1 (sim _ (parse_enum _ _) (parse_enum _ _)) => eapply sim_parse_enum : sim.

Lemma sim_skip_comments : forall fuel c1 c2, crel c1 c2 -> sim eq (skip_comments fuel c1) (skip_comments fuel c2).
Proof.
  induction fuel as [|f IH]; intros c1 c2 Hc; cbn [skip_comments]; [apply sim_fuel|].
  eapply sim_bind; [apply sim_peek|]. intros [t1|] [t2|] H; cbn [optrel] in H; try contradiction; [|simt]. sim_post H. simt.
Qed.
Global Hint Extern 1 (sim _ (skip_comments _ _) (skip_comments _ _)) => eapply sim_skip_comments : sim.

(* ---------- get_next_tag_or_comment, the skip of unknown elements ---------- *)
Lemma sim_next_tag c1 c2 : crel c1 c2 -> sim bcrel (get_next_tag_or_comment c1) (get_next_tag_or_comment c2).
Proof.
  intros Hc. unfold get_next_tag_or_comment. pose proof Hc as Hc'. unfold crel in Hc'. rewrite Hc'. simt.
Qed.
Global Hint Extern 1 (sim _ (get_next_tag_or_comment _) (get_next_tag_or_comment _)) => eapply sim_next_tag : sim.

Lemma sim_unknown_loop tag isb stop : forall fuel c1 c2 e1 e2 bal, crel c1 c2 -> crel e1 e2 ->
  sim eq (unknown_loop fuel c1 e1 tag isb stop bal) (unknown_loop fuel c2 e2 tag isb stop bal).
Proof.
  induction fuel as [|f IH]; intros c1 c2 e1 e2 bal Hc He; cbn [unknown_loop]; [apply sim_fuel|].
  eapply sim_bind; [eauto with sim|]. intros t1 t2 H. sim_post H. cbv zeta. simt.
Qed.

Lemma sim_handle_unknown c1 c2 tag isb stop : crel c1 c2 ->
  sim eq (handle_unknown_taggedstruct_tag c1 tag isb stop) (handle_unknown_taggedstruct_tag c2 tag isb stop).
Proof.
  intros Hc. unfold handle_unknown_taggedstruct_tag.
  eapply sim_bind; [eauto with sim|]. intros d e Hd. eapply sim_bind; [eauto with sim|]. intros u1 u2 _.
  eapply sim_bind; [eauto with sim|]. intros t1 t2 H. sim_post H. eapply sim_bind; [eauto with sim|]. intros u3 u4 _. cbv zeta.
  apply (sim_read_k eq (fun s => length (ps_after s))
           (fun n => unknown_loop (S n) c1 (ctx_from_token (tk_text t2) t1) tag isb stop (if isb then 1%Z else 0%Z))
           (fun n => unknown_loop (S n) c2 (ctx_from_token (tk_text t2) t2) tag isb stop (if isb then 1%Z else 0%Z)) same_remaining).
  intros n. apply sim_unknown_loop; [exact Hc | reflexivity].
Qed.
Global Hint Extern 1 (sim _ (handle_unknown_taggedstruct_tag _ _ _ _) (handle_unknown_taggedstruct_tag _ _ _ _)) => eapply sim_handle_unknown : sim.

(* ---------- uninterpreted IF_DATA ---------- *)
From A2L Require Import Proofs.TerminationProofs.

Global Hint Extern 3 (map _ _ = map _ _) =>
  solve [ assumption | rewrite ?map_app; cbn [map er_gifd er_gti er_kv er_value er_cm er_lay fst snd]; congruence ] : sim.

Lemma assoc_push_er k v1 v2 : er_gti v1 = er_gti v2 -> forall l1 l2, map er_kv l1 = map er_kv l2 ->
  map er_kv (assoc_push k v1 l1) = map er_kv (assoc_push k v2 l2).
Proof.
  intros Hv. induction l1 as [|[k1 vs1] r1 IH]; intros [|[k2 vs2] r2] H; try discriminate; cbn [assoc_push map].
  - unfold er_kv. cbn [fst snd map]. rewrite Hv. reflexivity.
  - cbn [map] in H. unfold er_kv in H at 1 3. cbn [fst snd] in H. injection H as Hk Hvs Hr. subst k2.
    destruct (bytes_eqb k k1); cbn [map]; unfold er_kv at 1 3; cbn [fst snd].
    + rewrite !map_app, Hvs. cbn [map]. rewrite Hv, Hr. reflexivity.
    + rewrite Hvs, (IH r2 Hr). reflexivity.
Qed.

Lemma sim_unknown : forall fuel,
  (forall c1 c2 isb, crel c1 c2 -> sim (fun a b => er_gifd a = er_gifd b) (unknown_ifdata fuel c1 isb) (unknown_ifdata fuel c2 isb)) /\
  (forall c1 c2, crel c1 c2 -> sim (fun a b => er_gifd a = er_gifd b) (unknown_taggedstruct fuel c1) (unknown_taggedstruct fuel c2)).
Proof.
  induction fuel as [|f [IH1 IH2]]; [split; intros; apply sim_fuel|]. split.
  - intros c1 c2 isb Hc. rewrite !unknown_ifdata_S.
    assert (L : forall k x1 x2, map er_gifd x1 = map er_gifd x2 ->
              sim (fun a b => map er_gifd a = map er_gifd b) (ifd_loop_ f c1 isb k x1) (ifd_loop_ f c2 isb k x2)).
    { induction k as [|k IHk]; intros x1 x2 Hx; cbn [ifd_loop_]; [apply sim_fuel|].
      eapply sim_bind; [apply sim_peek|]. intros [t1|] [t2|] H; cbn [optrel] in H; try contradiction; [|simt]. sim_post H.
      destruct (tk_type t2); simt. }
    simt. cbn [er_gifd]. congruence.
  - intros c1 c2 Hc. rewrite !unknown_taggedstruct_S.
    assert (L : forall k x1 x2, map er_kv x1 = map er_kv x2 ->
              sim (fun a b => map er_kv a = map er_kv b) (uts_loop_ f c1 k x1) (uts_loop_ f c2 k x2)).
    { induction k as [|k IHk]; intros x1 x2 Hx; cbn [uts_loop_]; [apply sim_fuel|].
      eapply sim_bind; [eapply sim_try; eauto with sim|].
      intros [[bc1|] [d1|]] [[bc2|] [d2|]] H; cbn [tryrel] in H; try contradiction; try solve [simt].
      destruct bc1 as [t1 b1 o1|t1 o1|], bc2 as [t2 b2 o2|t2 o2|]; cbn [bcrel] in H; try contradiction; try solve [simt].
      destruct H as [Ht ->]. sim_post Ht.
      eapply sim_bind; [eauto with sim|]. intros uid ? <-. cbv zeta.
      eapply sim_bind; [apply IH1; reflexivity|]. intros data1 data2 Hd. cbv beta in Hd.
      eapply (sim_bind (fun _ _ => True)).
      { destruct b2; [|apply sim_ret; exact I].
        eapply sim_bind; [eapply sim_expect_token; reflexivity|]. intros e1 e2 _. eapply sim_bind; [apply sim_get_line_offset|]. intros eo1 eo2 _.
        eapply sim_bind; [eapply sim_expect_token; reflexivity|]. intros i1 i2 Hi. sim_post Hi.
        destruct (bytes_eqb (tk_text i2) (tk_text t2)); [apply sim_ret; exact I|].
        eapply sim_bind; [apply sim_mk_diag|]. intros d e He. apply sim_fail. exact He. }
      intros eo1 eo2 _. eapply sim_bind; [apply sim_get_incfilename|]. intros inc1 inc2 _.
      eapply sim_bind; [apply sim_remaining|]. intros nrem ? <-. eapply sim_bind; [apply sim_skip_comments; exact Hc|]. intros u1 u2 _.
      apply IHk. apply assoc_push_er; [cbn [er_gti]; congruence | exact Hx]. }
    eapply sim_bind; [apply sim_remaining|]. intros n0 ? <-. eapply sim_bind; [apply sim_skip_comments; exact Hc|]. intros u1 u2 _.
    eapply sim_bind; [apply sim_remaining|]. intros n ? <-. eapply sim_bind; [apply L; reflexivity|]. intros ts1 ts2 Hts. cbv beta in Hts.
    eapply sim_bind; [apply sim_peek|]. intros [t1|] [t2|] H; cbn [optrel] in H; try contradiction.
    + sim_post H. pose proof Hc as Hc'. unfold crel in Hc'. rewrite Hc'. destruct (ttype_eqb (tk_type t2) TBegin).
      * eapply sim_bind; [apply sim_mk_diag|]. intros d e He. apply sim_fail. exact He.
      * apply sim_ret. cbn [er_gifd]. fold er_kv. congruence.
    + apply sim_ret. cbn [er_gifd]. fold er_kv. congruence.
Qed.

Lemma sim_unknown_ifdata fuel c1 c2 isb : crel c1 c2 ->
  sim (fun a b => er_gifd a = er_gifd b) (unknown_ifdata fuel c1 isb) (unknown_ifdata fuel c2 isb).
Proof. apply sim_unknown. Qed.
Global Hint Extern 1 (sim _ (unknown_ifdata _ _ _) (unknown_ifdata _ _ _)) => eapply sim_unknown_ifdata : sim.

Lemma sim_unknown_ifdata_start fuel c1 c2 : crel c1 c2 ->
  sim (fun a b => er_gifd a = er_gifd b) (unknown_ifdata_start fuel c1) (unknown_ifdata_start fuel c2).
Proof.
  intros Hc. unfold unknown_ifdata_start.
  eapply sim_bind; [apply sim_peek|]. intros [t1|] [t2|] H; cbn [optrel] in H; try contradiction; [|simt]. sim_post H.
  destruct (ttype_eqb (tk_type t2) TIdentifier); [|simt].
  eapply sim_bind; [eauto with sim|]. intros k1 k2 Hk. sim_post Hk. eapply sim_bind; [eauto with sim|]. intros so1 so2 _. cbv zeta.
  eapply sim_bind; [eauto with sim|]. intros uid ? <-.
  eapply sim_bind; [apply sim_unknown_ifdata; reflexivity|]. intros r1 r2 Hr. cbv beta in Hr.
  eapply sim_bind; [eauto with sim|]. intros u1 u2 _. eapply sim_bind; [eauto with sim|]. intros eo1 eo2 _.
  eapply sim_bind; [eapply sim_try; eauto with sim|]. intros x1 x2 _.
  eapply sim_bind; [eauto with sim|]. intros i1 i2 _. eapply sim_bind; [eauto with sim|]. intros j1 j2 _.
  apply sim_ret. cbn [er_gifd map er_gti fst snd]. congruence.
Qed.
Global Hint Extern 1 (sim _ (unknown_ifdata_start _ _) (unknown_ifdata_start _ _)) => eapply sim_unknown_ifdata_start : sim.

(* ---------- the type-directed IF_DATA parser ---------- *)
Lemma sim_int_item v t c1 c2 : crel c1 c2 -> sim (fun a b => er_gifd a = er_gifd b) (int_item v t c1) (int_item v t c2).
Proof. intros Hc. unfold int_item. simt. Qed.
Global Hint Extern 1 (sim _ (int_item _ _ _) (int_item _ _ _)) => eapply sim_int_item : sim.

Lemma make_block_er d1 d2 i1 i2 l1 l2 : er_gifd d1 = er_gifd d2 -> er_gifd (make_block d1 i1 l1) = er_gifd (make_block d2 i2 l2).
Proof.
  intros H. destruct d1, d2; cbn [er_gifd] in H; try discriminate; cbn [make_block er_gifd map]; congruence.
Qed.

Section ItemSim.
  Variable rec : a2mlty -> ctx -> M gifd.
  Hypothesis Hrec : forall ty c1 c2, crel c1 c2 -> sim (fun a b => er_gifd a = er_gifd b) (rec ty c1) (rec ty c2).

  Lemma sim_array_items ty c1 c2 : crel c1 c2 -> forall n,
    sim (fun a b => map er_gifd a = map er_gifd b) (array_items rec n ty c1) (array_items rec n ty c2).
  Proof.
    intros Hc. induction n as [|n IH]; cbn [array_items]; [apply sim_ret; reflexivity|].
    eapply sim_bind; [apply Hrec; exact Hc|]. intros x1 x2 Hx. cbv beta in Hx.
    eapply sim_bind; [apply IH|]. intros r1 r2 Hr. cbv beta in Hr. apply sim_ret. cbn [map]. congruence.
  Qed.
  Lemma sim_struct_items c1 c2 : crel c1 c2 -> forall tys,
    sim (fun a b => map er_gifd a = map er_gifd b) (struct_items rec tys c1) (struct_items rec tys c2).
  Proof.
    intros Hc. induction tys as [|ty r IH]; cbn [struct_items]; [apply sim_ret; reflexivity|].
    eapply sim_bind; [apply Hrec; exact Hc|]. intros x1 x2 Hx. cbv beta in Hx.
    eapply sim_bind; [apply IH|]. intros r1 r2 Hr. cbv beta in Hr. apply sim_ret. cbn [map]. congruence.
  Qed.
  Lemma sim_seq_items ty c1 c2 : crel c1 c2 -> forall n a1 a2, map er_gifd a1 = map er_gifd a2 ->
    sim (fun a b => map er_gifd a = map er_gifd b) (seq_items rec n ty c1 a1) (seq_items rec n ty c2 a2).
  Proof.
    intros Hc. induction n as [|n IH]; intros a1 a2 Ha; cbn [seq_items]; [apply sim_fuel|].
    eapply sim_bind; [eauto with sim|]. intros cp ? <-.
    eapply sim_bind; [eapply sim_try; apply Hrec; exact Hc|].
    intros [[x1|] [d1|]] [[x2|] [d2|]] H; cbn [tryrel] in H; try contradiction; simt.
  Qed.

  Lemma sim_tagged_item spec c1 c2 : crel c1 c2 ->
    sim (optrel (fun a b => er_gti a = er_gti b)) (tagged_item rec spec c1) (tagged_item rec spec c2).
  Proof.
    intros Hc. unfold tagged_item.
    eapply sim_bind; [eauto with sim|]. intros cp ? <-. eapply sim_bind; [eauto with sim|]. intros n0 ? <-.
    eapply sim_bind; [eauto with sim|]. intros u1 u2 _.
    eapply sim_bind; [eapply sim_try; eauto with sim|].
    intros [[bc1|] [d1|]] [[bc2|] [d2|]] H; cbn [tryrel] in H; try contradiction; try solve [simt].
    destruct bc1 as [t1 b1 o1|t1 o1|], bc2 as [t2 b2 o2|t2 o2|]; cbn [bcrel] in H; try contradiction; try solve [simt].
    destruct H as [Ht ->]. sim_post Ht. cbv zeta.
    destruct (find_tagged spec (tk_text t2)) as [ts|]; [|simt].
    destruct (negb (Bool.eqb (tg_block ts) b2)); [simt|].
    eapply sim_bind; [eauto with sim|]. intros uid ? <-. cbv zeta.
    eapply sim_bind; [apply Hrec; reflexivity|]. intros data1 data2 Hd. cbv beta in Hd.
    eapply sim_bind; [eauto with sim|]. intros i1 i2 _. cbv zeta.
    eapply (sim_bind (fun _ _ => True)).
    { destruct b2; [|apply sim_ret; exact I].
      eapply sim_bind; [eapply sim_expect_token; reflexivity|]. intros e1 e2 _. eapply sim_bind; [apply sim_get_line_offset|]. intros eo1 eo2 _.
      eapply sim_bind; [eapply sim_expect_token; reflexivity|]. intros j1 j2 Hj. sim_post Hj.
      destruct (bytes_eqb (tk_text j2) (tk_text t2)); [apply sim_ret; exact I|].
      eapply sim_bind; [apply sim_mk_diag|]. intros d e He. apply sim_fail. exact He. }
    intros eo1 eo2 _. eapply sim_bind; [eauto with sim|]. intros k1 k2 _.
    apply sim_ret. cbn [optrel er_gti]. rewrite (make_block_er _ _ i1 i2 (c_line (ctx_from_token (tk_text t2) t1)) (c_line (ctx_from_token (tk_text t2) t2)) Hd). reflexivity.
  Qed.

  Lemma sim_taggedstruct_items spec c1 c2 : crel c1 c2 -> forall n a1 a2, map er_kv a1 = map er_kv a2 ->
    sim (fun a b => map er_kv a = map er_kv b) (taggedstruct_items rec n spec c1 a1) (taggedstruct_items rec n spec c2 a2).
  Proof.
    intros Hc. induction n as [|n IH]; intros a1 a2 Ha; cbn [taggedstruct_items]; [apply sim_fuel|].
    eapply sim_bind; [apply sim_tagged_item; exact Hc|].
    intros [[inc1 l1 u1 so1 eo1 tag1 d1 b1]|] [[inc2 l2 u2 so2 eo2 tag2 d2 b2]|] H; cbn [optrel] in H; try contradiction; [|apply sim_ret; exact Ha].
    cbn [er_gti] in H. injection H as -> -> Hd ->. apply IH. apply assoc_push_er; [cbn [er_gti]; congruence | exact Ha].
  Qed.

  Lemma sim_item_step ty c1 c2 : crel c1 c2 -> sim (fun a b => er_gifd a = er_gifd b) (item_step rec ty c1) (item_step rec ty c2).
  Proof.
    intros Hc. destruct ty; cbn [item_step]; try solve [simt].
    - (* array *)
      assert (Ha : forall n, sim (fun a b => er_gifd a = er_gifd b) (l <-- array_items rec n ty c1 ;; ret (GArray l)) (l <-- array_items rec n ty c2 ;; ret (GArray l))).
      { intros n0. eapply sim_bind; [apply sim_array_items; exact Hc|]. intros l1 l2 Hl. cbv beta in Hl. apply sim_ret. cbn [er_gifd]. congruence. }
      destruct ty; try apply Ha. simt.
    - (* struct *) eapply sim_bind; [apply sim_struct_items; exact Hc|]. intros l1 l2 Hl. cbv beta in Hl.
      eapply sim_bind; [eauto with sim|]. intros i1 i2 _. apply sim_ret. cbn [er_gifd]. congruence.
    - (* sequence *) eapply sim_bind; [eauto with sim|]. intros n ? <-.
      eapply sim_bind; [apply sim_seq_items; [exact Hc | reflexivity]|]. intros l1 l2 Hl. cbv beta in Hl. apply sim_ret. cbn [er_gifd]. congruence.
    - (* tagged struct *) eapply sim_bind; [eauto with sim|]. intros n ? <-.
      eapply sim_bind; [apply sim_taggedstruct_items; [exact Hc | reflexivity]|]. intros l1 l2 Hl. cbv beta in Hl. apply sim_ret. cbn [er_gifd]. fold er_kv. congruence.
    - (* tagged union *) eapply sim_bind; [apply sim_tagged_item; exact Hc|].
      intros [[inc1 l1 u1 so1 eo1 tag1 d1 b1]|] [[inc2 l2 u2 so2 eo2 tag2 d2 b2]|] H; cbn [optrel] in H; try contradiction; [|apply sim_ret; reflexivity].
      cbn [er_gti] in H. injection H as -> -> Hd ->. apply sim_ret. cbn [er_gifd map er_gti fst snd]. congruence.
  Qed.
End ItemSim.

Lemma sim_parse_ifdata_item : forall f ty c1 c2, crel c1 c2 ->
  sim (fun a b => er_gifd a = er_gifd b) (parse_ifdata_item f ty c1) (parse_ifdata_item f ty c2).
Proof.
  induction f as [|f IH]; intros ty c1 c2 Hc; cbn [parse_ifdata_item]; [apply sim_fuel|].
  apply sim_item_step; [|exact Hc]. intros ty0 d1 d2 Hd. apply IH. exact Hd.
Qed.
Global Hint Extern 1 (sim _ (parse_ifdata_item _ _ _) (parse_ifdata_item _ _ _)) => eapply sim_parse_ifdata_item : sim.

Lemma sim_parse_ifdata_from_spec spec c1 c2 : crel c1 c2 ->
  sim (optrel (fun a b => er_gifd a = er_gifd b)) (parse_ifdata_from_spec spec c1) (parse_ifdata_from_spec spec c2).
Proof.
  intros Hc. unfold parse_ifdata_from_spec. eapply sim_bind; [eauto with sim|]. intros pos ? <-.
  eapply sim_bind; [eapply sim_try; eauto with sim|].
  intros [[g1|] [d1|]] [[g2|] [d2|]] H; cbn [tryrel] in H; try contradiction; try solve [simt].
  eapply sim_bind; [eauto with sim|]. intros n0 ? <-. eapply sim_bind; [eapply sim_try; eauto with sim|]. intros x1 x2 _.
  eapply sim_bind; [apply sim_peek|]. intros [t1|] [t2|] Ht; cbn [optrel] in Ht; try contradiction; [|simt]. sim_post Ht.
  destruct (ttype_eqb (tk_type t2) TEnd); [|simt].
  eapply sim_bind; [eauto with sim|]. intros i1 i2 _. apply sim_ret. cbn [optrel]. apply make_block_er. exact H.
Qed.
Global Hint Extern 1 (sim _ (parse_ifdata_from_spec _ _) (parse_ifdata_from_spec _ _)) => eapply sim_parse_ifdata_from_spec : sim.

Lemma sim_first_spec c1 c2 : crel c1 c2 -> forall specs,
  sim (optrel (fun a b => er_gifd a = er_gifd b)) (first_spec specs c1) (first_spec specs c2).
Proof.
  intros Hc. induction specs as [|sp r IH]; cbn [first_spec]; [apply sim_ret; exact I|].
  eapply sim_bind; [eauto with sim|]. intros [g1|] [g2|] H; cbn [optrel] in H; try contradiction; [apply sim_ret; exact H | exact IH].
Qed.

Definition ifrel (x y : option gifd * bool) : Prop := option_map er_gifd (fst x) = option_map er_gifd (fst y) /\ snd x = snd y.

Lemma sim_parse_ifdata specs fuel c1 c2 : crel c1 c2 -> sim ifrel (parse_ifdata specs fuel c1) (parse_ifdata specs fuel c2).
Proof.
  intros Hc. unfold parse_ifdata. eapply sim_bind; [eauto with sim|]. intros n0 ? <-. eapply sim_bind; [eauto with sim|]. intros u1 u2 _.
  eapply sim_bind; [apply sim_peek|]. intros [t1|] [t2|] Ht; cbn [optrel] in Ht; try contradiction; [|apply sim_ret; split; reflexivity]. sim_post Ht.
  eapply sim_bind; [apply sim_first_spec; exact Hc|]. intros [g1|] [g2|] H; cbn [optrel] in H; try contradiction.
  - apply sim_ret. split; cbn [fst snd option_map]; congruence.
  - destruct (ttype_eqb (tk_type t2) TEnd); [apply sim_ret; split; reflexivity|].
    eapply sim_bind; [eauto with sim|]. intros g1 g2 Hg. cbv beta in Hg. apply sim_ret. split; cbn [fst snd option_map]; congruence.
Qed.

(* ---------- the generic element parser ---------- *)
Lemma is_stopword_er stop v1 v2 : er_value v1 = er_value v2 -> is_stopword stop v1 = is_stopword stop v2.
Proof. intros H. destruct v1 as [[]| | |], v2 as [[]| | |]; cbn [er_value] in H; try discriminate; try reflexivity. injection H as ->. reflexivity. Qed.

Lemma upd_nth_er (k1 k2 : list (list value)) idx f1 f2 : map (map er_value) k1 = map (map er_value) k2 ->
  (forall l1 l2, map er_value l1 = map er_value l2 -> map er_value (f1 l1) = map er_value (f2 l2)) ->
  map (map er_value) (upd_nth k1 idx f1) = map (map er_value) (upd_nth k2 idx f2).
Proof.
  revert k2 idx. induction k1 as [|x r IH]; intros [|y r2] idx H Hf; try discriminate; [reflexivity|].
  cbn [map] in H. injection H as H1 H2. destruct idx; cbn [upd_nth map].
  - rewrite (Hf _ _ H1), H2. reflexivity.
  - rewrite H1, (IH r2 idx H2 Hf). reflexivity.
Qed.

Lemma nth_empty_er (k1 k2 : list (list value)) idx : map (map er_value) k1 = map (map er_value) k2 ->
  match nth idx k1 [] with [] => false | _ => true end = match nth idx k2 [] with [] => false | _ => true end.
Proof.
  revert k2 idx. induction k1 as [|x r IH]; intros [|y r2] idx H; try discriminate; [destruct idx; reflexivity|].
  cbn [map] in H. injection H as H1 H2. destruct idx; cbn [nth]; [|apply IH; exact H2].
  destruct x, y; try discriminate; reflexivity.
Qed.

Lemma sim_multiplicity_check c1 c2 : forall items k1 k2, map (map er_value) k1 = map (map er_value) k2 ->
  sim eq (multiplicity_check items k1 c1) (multiplicity_check items k2 c2).
Proof.
  induction items as [|ti ir IH]; intros k1 k2 H; cbn [multiplicity_check]; [apply sim_ret; reflexivity|].
  destruct k1 as [|x r], k2 as [|y r2]; try discriminate; [apply sim_ret; reflexivity|]. cbn [map] in H. injection H as H1 H2.
  eapply sim_bind; [|intros u1 u2 _; apply IH; exact H2].
  destruct (ti_required ti); [|apply sim_ret; reflexivity]. destruct x, y; try discriminate; [|apply sim_ret; reflexivity].
  eapply sim_bind; [apply sim_mk_diag|]. intros d e He. destruct (ti_repeat ti); [apply sim_error_or_log | apply sim_fail]; exact He.
Qed.

Section ElemSim.
  Variable G : spec.
  Variable rec : tydef -> ctx -> N -> M value.
  Variable ifuel : nat.
  Hypothesis Hrec : forall td c1 c2 o1 o2, crel c1 c2 -> sim (fun a b => er_value a = er_value b) (rec td c1 o1) (rec td c2 o2).

  Lemma sim_scalar_field ty c1 c2 : crel c1 c2 ->
    sim (fun a b => er_value a = er_value b) (parse_scalar_field G rec ty c1) (parse_scalar_field G rec ty c2).
  Proof. intros Hc. destruct ty; cbn [parse_scalar_field]; try solve [simt]. Qed.

  Lemma sim_parse_n ty c1 c2 : crel c1 c2 -> forall n,
    sim (fun a b => map er_value a = map er_value b) (parse_n G rec n ty c1) (parse_n G rec n ty c2).
  Proof.
    intros Hc. induction n as [|n IH]; cbn [parse_n]; [apply sim_ret; reflexivity|].
    eapply sim_bind; [apply sim_scalar_field; exact Hc|]. intros v1 v2 Hv. cbv beta in Hv.
    eapply sim_bind; [apply IH|]. intros r1 r2 Hr. cbv beta in Hr. apply sim_ret. cbn [map]. congruence.
  Qed.

  Lemma sim_parse_seq ty stop c1 c2 : crel c1 c2 -> forall n a1 a2, map er_value a1 = map er_value a2 ->
    sim (fun a b => map er_value a = map er_value b) (parse_seq G rec n ty stop c1 a1) (parse_seq G rec n ty stop c2 a2).
  Proof.
    intros Hc. induction n as [|n IH]; intros a1 a2 Ha; cbn [parse_seq]; [apply sim_fuel|].
    eapply sim_bind; [eauto with sim|]. intros cp ? <-.
    eapply sim_bind; [eapply sim_try; apply sim_scalar_field; exact Hc|].
    intros [[v1|] [d1|]] [[v2|] [d2|]] H; cbn [tryrel] in H; try contradiction; try solve [simt].
    rewrite (is_stopword_er stop v1 v2 H). destruct (is_stopword stop v2); [simt|]. apply IH. rewrite !map_app. cbn [map]. congruence.
  Qed.

  Lemma sim_parse_field ty c1 c2 : crel c1 c2 ->
    sim (fun a b => er_value a = er_value b) (parse_field G rec ty c1) (parse_field G rec ty c2).
  Proof.
    intros Hc. destruct ty; cbn [parse_field]; try apply sim_scalar_field; try exact Hc.
    - eapply sim_bind; [apply sim_parse_n; exact Hc|]. intros l1 l2 Hl. cbv beta in Hl. apply sim_ret. cbn [er_value]. congruence.
    - eapply sim_bind; [eauto with sim|]. intros n ? <-.
      eapply sim_bind; [apply sim_parse_seq; [exact Hc | reflexivity]|]. intros l1 l2 Hl. cbv beta in Hl. apply sim_ret. cbn [er_value]. congruence.
  Qed.
End ElemSim.

Lemma same_a2ml : same ps_a2ml.
Proof. intros s1 s2 Q. exact (q_a2ml _ _ Q). Qed.

Section ElemSim2.
  Variable G : spec.
  Variable rec : tydef -> ctx -> N -> M value.
  Variable ifuel : nat.
  Hypothesis Hrec : forall td c1 c2 o1 o2, crel c1 c2 -> sim (fun a b => er_value a = er_value b) (rec td c1 o1) (rec td c2 o2).

  Lemma sim_special td c1 c2 o1 o2 : crel c1 c2 ->
    sim (fun a b => er_value a = er_value b) (parse_special_or_generic rec ifuel td c1 o1) (parse_special_or_generic rec ifuel td c2 o2).
  Proof.
    intros Hc. unfold parse_special_or_generic. destruct (t_special td) as [sp|]; [|apply Hrec; exact Hc].
    pose proof Hc as Hc'. unfold crel in Hc'. destruct (String.eqb sp "A2ml").
    - eapply sim_bind; [eauto with sim|]. intros i1 i2 _. eapply sim_bind; [eauto with sim|]. intros uid ? <-.
      eapply sim_bind; [eauto with sim|]. intros t1 t2 Ht. sim_post Ht. eapply sim_bind; [eauto with sim|]. intros l1 l2 _. cbv zeta.
      eapply sim_bind.
      { refine (sim_ext eq _ _ _ _ _ _ (sim_read_k eq ps_a2ml
                  (fun tab => match a2ml_lookup (crlf_to_lf (tk_text t2)) tab with
                              | Some (Some ty, _) => push_spec ty
                              | Some (None, msg) => bindM (mk_diag "A2mlError" c1 msg) error_or_log
                              | None => panic "a2ml oracle: text not in the table" end)
                  (fun tab => match a2ml_lookup (crlf_to_lf (tk_text t2)) tab with
                              | Some (Some ty, _) => push_spec ty
                              | Some (None, msg) => bindM (mk_diag "A2mlError" c2 msg) error_or_log
                              | None => panic "a2ml oracle: text not in the table" end) same_a2ml _)).
        - intros s. cbv beta. destruct (a2ml_lookup (crlf_to_lf (tk_text t2)) (ps_a2ml s)) as [[[ty|] msg]|]; reflexivity.
        - intros s. cbv beta. destruct (a2ml_lookup (crlf_to_lf (tk_text t2)) (ps_a2ml s)) as [[[ty|] msg]|]; reflexivity.
        - intros tab. simt. }
      intros u1 u2 _. eapply sim_bind; [eauto with sim|]. intros e1 e2 _. eapply sim_bind; [eauto with sim|]. intros eo1 eo2 _.
      eapply sim_bind; [unfold end_tag_check; simt|]. intros u3 u4 _. apply sim_ret. reflexivity.
    - eapply sim_bind; [eauto with sim|]. intros i1 i2 _. eapply sim_bind; [eauto with sim|]. intros uid ? <-.
      eapply sim_bind; [eauto with sim|]. intros specs ? <-.
      eapply sim_bind; [apply sim_parse_ifdata; exact Hc|]. intros r1 r2 [Hr1 Hr2].
      eapply sim_bind; [eauto with sim|]. intros e1 e2 _. eapply sim_bind; [eauto with sim|]. intros eo1 eo2 _.
      eapply sim_bind; [unfold end_tag_check; simt|]. intros u3 u4 _. apply sim_ret. cbn [er_value]; unfold er_lay; cbn [l_uid]; congruence.
  Qed.

  Lemma sim_tagged_loop pb last items c1 c2 : crel c1 c2 -> forall n k1 k2 m1 m2,
    map (map er_value) k1 = map (map er_value) k2 -> map er_cm m1 = map er_cm m2 ->
    sim (fun a b => map (map er_value) (fst a) = map (map er_value) (fst b) /\ map er_cm (snd a) = map er_cm (snd b))
        (tagged_loop G rec ifuel n pb last items c1 k1 m1) (tagged_loop G rec ifuel n pb last items c2 k2 m2).
  Proof.
    intros Hc. induction n as [|n IH]; intros k1 k2 m1 m2 Hk Hm; cbn [tagged_loop]; [apply sim_fuel|].
    eapply sim_bind; [eauto with sim|].
    intros [t1 b1 o1|t1 o1|] [t2 b2 o2|t2 o2|] H; cbn [bcrel] in H; try contradiction.
    - destruct H as [Ht ->]. sim_post Ht. cbv zeta.
      destruct (find_titem items (tk_text t2) 0) as [[idx ti]|].
      + eapply sim_bind; [destruct (ti_block ti); eauto with sim|]. intros u1 u2 _.
        eapply sim_bind; [destruct (ti_vmin ti); eauto with sim|]. intros u3 u4 _.
        eapply sim_bind; [destruct (ti_vmax ti); eauto with sim|]. intros u5 u6 _.
        destruct (lookup_ty G (ti_type ti)) as [td|]; [|apply sim_panic_l].
        eapply sim_bind; [apply sim_special; reflexivity|]. intros v1 v2 Hv. cbv beta in Hv.
        destruct (ti_repeat ti).
        * apply IH; [|exact Hm]. apply upd_nth_er; [exact Hk|]. intros l1 l2 Hl. rewrite !map_app. cbn [map]. congruence.
        * rewrite (nth_empty_er k1 k2 idx Hk). eapply sim_bind; [eauto with sim|]. intros u7 u8 _.
          apply IH; [|exact Hm]. apply upd_nth_er; [exact Hk|]. intros l1 l2 Hl. cbn [map]. congruence.
      + destruct (pb && last).
        * eapply sim_bind; [eauto with sim|]. intros u1 u2 _. apply IH; assumption.
        * eapply sim_bind; [destruct b2; eauto with sim|]. intros u1 u2 _. eapply sim_bind; [eauto with sim|]. intros u3 u4 _.
          apply sim_ret. split; assumption.
    - sim_post H. destruct pb; [|apply IH; assumption].
      eapply sim_bind; [eauto with sim|]. intros uid ? <-. apply IH; [exact Hk|]. rewrite !map_app, Hm. reflexivity.
    - apply sim_ret. split; assumption.
  Qed.

  Lemma sim_parse_items isb c1 c2 : crel c1 c2 -> forall its f1 f2 k1 k2 m1 m2,
    map er_value f1 = map er_value f2 -> map (map er_value) k1 = map (map er_value) k2 -> map er_cm m1 = map er_cm m2 ->
    sim (fun a b => map er_value (fst (fst a)) = map er_value (fst (fst b)) /\
                    map (map er_value) (snd (fst a)) = map (map er_value) (snd (fst b)) /\ map er_cm (snd a) = map er_cm (snd b))
        (parse_items G rec ifuel its isb c1 f1 k1 m1) (parse_items G rec ifuel its isb c2 f2 k2 m2).
  Proof.
    intros Hc. induction its as [|it r IH]; intros f1 f2 k1 k2 m1 m2 Hf Hk Hm; cbn [parse_items]; [apply sim_ret; repeat split; assumption|].
    destruct it as [nm ty|union last titems].
    - eapply sim_bind; [apply sim_parse_field; [exact Hrec | exact Hc]|]. intros v1 v2 Hv. cbv beta in Hv.
      apply IH; [rewrite !map_app; cbn [map]; congruence | exact Hk | exact Hm].
    - destruct union; [apply sim_panic_l|]. eapply sim_bind; [eauto with sim|]. intros n ? <-.
      eapply sim_bind; [apply sim_tagged_loop; [exact Hc | | exact Hm]|].
      { clear. induction titems; [reflexivity | cbn [map]; congruence]. }
      intros [r1a r1b] [r2a r2b] [Hr1 Hr2]. cbn [fst snd] in *.
      eapply sim_bind; [apply sim_multiplicity_check; exact Hr1|]. intros u1 u2 _.
      apply IH; [exact Hf | rewrite !map_app; congruence | exact Hr2].
  Qed.

  Lemma sim_parse_body td c1 c2 o1 o2 : crel c1 c2 ->
    sim (fun a b => er_value a = er_value b) (parse_body G rec ifuel td c1 o1) (parse_body G rec ifuel td c2 o2).
  Proof.
    intros Hc. unfold parse_body. pose proof Hc as Hc'. unfold crel in Hc'.
    eapply sim_bind; [eauto with sim|]. intros i1 i2 _. eapply sim_bind; [eauto with sim|]. intros uid ? <-. cbv zeta.
    eapply sim_bind; [apply sim_parse_items; [exact Hc | reflexivity | reflexivity | reflexivity]|].
    intros [[fa ka] ma] [[fb kb] mb] (H1 & H2 & H3). cbn [fst snd] in *.
    eapply (sim_bind (fun _ _ => True)).
    { destruct (match t_kind td with KBlock => true | _ => false end); [|apply sim_ret; exact I].
      eapply sim_bind; [eauto with sim|]. intros e1 e2 _. eapply sim_bind; [eauto with sim|]. intros eo1 eo2 _.
      eapply sim_bind; [unfold end_tag_check; rewrite Hc'; simt|]. intros u1 u2 _. apply sim_ret. exact I. }
    intros eo1 eo2 _. apply sim_ret. cbn [er_value]; unfold er_lay; cbn [l_uid]; congruence.
  Qed.
End ElemSim2.

Lemma sim_parse_ty G ifuel : forall fuel td c1 c2 o1 o2, crel c1 c2 ->
  sim (fun a b => er_value a = er_value b) (parse_ty fuel G ifuel td c1 o1) (parse_ty fuel G ifuel td c2 o2).
Proof.
  induction fuel as [|f IH]; intros td c1 c2 o1 o2 Hc; cbn [parse_ty]; [apply sim_fuel|].
  apply sim_parse_body; [|exact Hc]. intros td0 d1 d2 p1 p2 Hd. apply IH. exact Hd.
Qed.

(* ---------- parse_version, parse_file ---------- *)
Definition ver_of_value (v : value) : option (Z * Z) :=
  match v with
  | VNode _ _ [VScalar (SInt major _) _; VScalar (SInt minor _) _] _ _ => Some (major, minor)
  | _ => None
  end.
Definition ver_of (r : option value * option diag) : option (Z * Z) :=
  match r with (Some v, _) => ver_of_value v | _ => None end.

Lemma ver_of_value_er v : ver_of_value (er_value v) = ver_of_value v.
Proof.
  destruct v as [s o|l|ty lay f k c|lay it va]; try reflexivity. cbn [er_value ver_of_value].
  destruct f as [|a [|b [|x r]]]; cbn [map]; try reflexivity.
  - destruct a as [[]| | |]; reflexivity.
  - destruct a as [[]| | |]; cbn [er_value]; try reflexivity; destruct b as [[]| | |]; reflexivity.
  - destruct a as [[]| | |]; cbn [er_value]; try reflexivity; destruct b as [[]| | |]; reflexivity.
Qed.

Lemma ver_of_er r1 r2 : tryrel (fun a b => er_value a = er_value b) r1 r2 -> ver_of r1 = ver_of r2.
Proof.
  destruct r1 as [[v1|] [d1|]], r2 as [[v2|] [d2|]]; cbn [tryrel]; intros H; try contradiction; try reflexivity.
  cbn [ver_of]. rewrite <- (ver_of_value_er v1), <- (ver_of_value_er v2), H. reflexivity.
Qed.

Lemma ver_match {A} (r : option value * option diag) (K : Z -> Z -> A) (K' : A) :
  match r with
  | (Some (VNode _ _ [VScalar (SInt major _) _; VScalar (SInt minor _) _] _ _), _) => K major minor
  | _ => K'
  end = match ver_of r with Some (a, b) => K a b | None => K' end.
Proof.
  destruct r as [[v|] d]; [|reflexivity]. destruct v as [s o|l|ty lay f k c|lay it va]; try reflexivity.
  destruct f as [|a [|b [|x r]]]; try reflexivity.
  - destruct a as [[]| | |]; reflexivity.
  - destruct a as [[]| | |]; try reflexivity; destruct b as [[]| | |]; reflexivity.
  - destruct a as [[]| | |]; try reflexivity; destruct b as [[]| | |]; reflexivity.
Qed.

Lemma sim_parse_version fuel G c1 c2 : crel c1 c2 -> sim eq (parse_version fuel G c1) (parse_version fuel G c2).
Proof.
  intros Hc. unfold parse_version.
  eapply sim_bind; [apply sim_peek|]. intros [t1|] [t2|] Ht; cbn [optrel] in Ht; try contradiction; [|simt]. sim_post Ht.
  eapply sim_bind; [eapply sim_try; eauto with sim|].
  intros [[id1|] [d1|]] [[id2|] [d2|]] H; cbn [tryrel] in H; try contradiction; try solve [simt]. subst id2. cbv zeta.
  destruct (bytes_eqb id1 (bytes_of "ASAP2_VERSION")); [|simt].
  destruct (lookup_ty G "Asap2Version") as [td|]; [|apply sim_panic_l].
  eapply sim_bind; [eapply sim_try; apply sim_parse_ty; reflexivity|]. intros r1 r2 Hr.
  eapply sim_bind; [eauto with sim|]. intros u1 u2 _.
  rewrite !ver_match, (ver_of_er r1 r2 Hr). destruct (ver_of r2) as [[a b]|]; simt.
Qed.

Lemma sim_trailing t1 t2 : teq t1 t2 ->
  sim eq (fun s => if Nat.ltb (tk_fileid t1) (ps_nfiles s)
                   then error_or_log (mkDiag "AdditionalTokensError" (Some (ps_last s)) (tk_fileid t1) (tk_text t1)) s
                   else (RPanic "parser.rs: filenames[token.fileid]", s))
         (fun s => if Nat.ltb (tk_fileid t2) (ps_nfiles s)
                   then error_or_log (mkDiag "AdditionalTokensError" (Some (ps_last s)) (tk_fileid t2) (tk_text t2)) s
                   else (RPanic "parser.rs: filenames[token.fileid]", s)).
Proof.
  intros Ht s1 s2 r1 s1' r2 s2' Q E1 E2.
  destruct (Nat.ltb (tk_fileid t1) (ps_nfiles s1)); [|injection E1 as <- <-; left; exact I].
  destruct (Nat.ltb (tk_fileid t2) (ps_nfiles s2)); [|injection E2 as <- <-; right; left; exact I].
  refine (sim_error_or_log _ _ _ _ _ _ _ _ _ Q E1 E2). unfold er_diag. cbn [d_variant d_key]. rewrite (teq_text _ _ Ht). reflexivity.
Qed.

Theorem sim_parse_file G : sim (fun a b => er_value a = er_value b) (parse_file G) (parse_file G).
Proof.
  intros s1 s2 r1 s1' r2 s2' Q E1 E2. unfold parse_file in E1, E2. cbv zeta in E1, E2. rewrite <- (same_remaining _ _ Q) in E2.
  set (fuel := S (S (length (ps_after s1)))) in *.
  set (c1 := mkCtx (bytes_of "A2L_FILE") 0 match ps_after s1 with t :: _ => tk_line t | [] => 1%N end) in *.
  set (c2 := mkCtx (bytes_of "A2L_FILE") 0 match ps_after s2 with t :: _ => tk_line t | [] => 1%N end) in *.
  assert (Hc0 : crel c1 c2) by reflexivity.
  revert E1 E2 Hc0. generalize c1 c2. generalize fuel. clear fuel c1 c2. intros fuel c1 c2 E1 E2 Hc.
  refine (_ s1 s2 r1 s1' r2 s2' Q E1 E2). clear - Hc.
  change (sim (fun a b => er_value a = er_value b)
            (ver <-- parse_version fuel G c1 ;; set_file_version ver ;;;
             match lookup_ty G "A2lFile" with
             | None => panic "spec: A2lFile"
             | Some td => file <-- parse_ty fuel G fuel td c1 0 ;; pk <-- peek_token ;;
                 match pk with
                 | Some token => (fun s => if Nat.ltb (tk_fileid token) (ps_nfiles s)
                                           then error_or_log (mkDiag "AdditionalTokensError" (Some (ps_last s)) (tk_fileid token) (tk_text token)) s
                                           else (RPanic "parser.rs: filenames[token.fileid]", s)) ;;; ret file
                 | None => ret file
                 end
             end)
            (ver <-- parse_version fuel G c2 ;; set_file_version ver ;;;
             match lookup_ty G "A2lFile" with
             | None => panic "spec: A2lFile"
             | Some td => file <-- parse_ty fuel G fuel td c2 0 ;; pk <-- peek_token ;;
                 match pk with
                 | Some token => (fun s => if Nat.ltb (tk_fileid token) (ps_nfiles s)
                                           then error_or_log (mkDiag "AdditionalTokensError" (Some (ps_last s)) (tk_fileid token) (tk_text token)) s
                                           else (RPanic "parser.rs: filenames[token.fileid]", s)) ;;; ret file
                 | None => ret file
                 end
             end)).
  eapply sim_bind; [apply sim_parse_version; exact Hc|]. intros ver ? <-. eapply sim_bind; [eauto with sim|]. intros u1 u2 _.
  destruct (lookup_ty G "A2lFile") as [td|]; [|apply sim_panic_l].
  eapply sim_bind; [apply sim_parse_ty; exact Hc|]. intros f1 f2 Hf. cbv beta in Hf.
  eapply sim_bind; [apply sim_peek|]. intros [t1|] [t2|] Ht; cbn [optrel] in Ht; try contradiction; [|apply sim_ret; exact Hf].
  eapply sim_bind; [apply sim_trailing; exact Ht|]. intros u3 u4 _. apply sim_ret. exact Hf.
Qed.
Print Assumptions sim_parse_file.
