(** C18, last clause: ifdata_cleanup() removes exactly the IF_DATA blocks that are flagged invalid and nothing else. *)
From Coq Require Import String List Bool NArith Lia.
From A2L Require Import Base.ListX Text.Escape Gram.Spec A2ml.Types Gram.PState Gram.Parser Lib.IfdataCleanup Gen.SpecShipped.
Import ListNotations.

(* an IF_DATA block with ifdata_valid = false somewhere below (or at) v *)
Inductive invalid_in : value -> Prop :=
| ii_here lay items : invalid_in (VIfData lay items false)
| ii_below ty lay fields kids cms g k :
    In g kids -> In k g -> invalid_in k -> invalid_in (VNode ty lay fields kids cms).

Inductive depth_le : nat -> value -> Prop :=
| dl_scalar n s off : depth_le (S n) (VScalar s off)
| dl_list n l : depth_le (S n) (VList l)
| dl_ifdata n lay items valid : depth_le (S n) (VIfData lay items valid)
| dl_node n ty lay fields kids cms :
    (forall g k, In g kids -> In k g -> depth_le n k) -> depth_le (S n) (VNode ty lay fields kids cms).

Lemma dropped_is_invalid_ifdata g k : In k g -> ~ In k (filter keep_ifdata g) ->
  exists lay items, k = VIfData lay items false.
Proof.
  intros Hin Hno. destruct (keep_ifdata k) eqn:E.
  - exfalso. apply Hno. apply filter_In. auto.
  - destruct k as [| | |lay items valid]; simpl in E; try discriminate. destruct valid; [discriminate|]. eauto.
Qed.

(** after the cleanup no invalid IF_DATA block is left anywhere in the file *)
Theorem cleanup_removes_every_invalid_block : forall fuel ty lay fields kids cms,
  depth_le fuel (VNode ty lay fields kids cms) -> ~ invalid_in (cleanup_value fuel (VNode ty lay fields kids cms)).
Proof.
  induction fuel as [|f IH]; intros ty lay fields kids cms Hd; [inversion Hd|].
  inversion Hd as [| | |n ty' lay' f' kids' cms' Hk]; subst. simpl. intros Hi.
  inversion Hi as [|ty' lay' f' kids' cms' g' k' Hg Hkin Hinv]; subst.
  apply in_map_iff in Hg. destruct Hg as (g & <- & Hgin).
  apply in_map_iff in Hkin. destruct Hkin as (k & <- & Hkf).
  apply filter_In in Hkf. destruct Hkf as [Hkg Hkeep].
  specialize (Hk g k Hgin Hkg).
  destruct k as [s off|l|ty2 lay2 f2 kids2 cms2|lay2 items valid].
  - destruct f; simpl in Hinv; inversion Hinv.
  - destruct f; simpl in Hinv; inversion Hinv.
  - eapply IH; [exact Hk | exact Hinv].
  - destruct valid; [|simpl in Hkeep; discriminate]. destruct f; simpl in Hinv; inversion Hinv.
Qed.

(** and on a file without invalid blocks the cleanup changes nothing *)
Theorem cleanup_without_invalid_blocks_is_identity : forall fuel v, ~ invalid_in v -> cleanup_value fuel v = v.
Proof.
  induction fuel as [|f IH]; intros v Hn; [reflexivity|]. destruct v as [s off|l|ty lay fields kids cms|lay items valid]; simpl; try reflexivity.
  f_equal. apply map_id_in. intros g Hg.
  rewrite filter_all.
  - apply map_id_in. intros k Hk. apply IH. intros Hi. apply Hn. eapply ii_below; eauto.
  - intros k Hk. destruct k as [| | |lay2 items valid]; try reflexivity. destruct valid; [reflexivity|].
    exfalso. apply Hn. eapply ii_below; eauto. constructor.
Qed.

(** what one pass drops from a list of sub-elements are invalid IF_DATA blocks, nothing else *)
Theorem cleanup_drops_only_invalid_blocks : forall g k, In k g -> ~ In k (filter keep_ifdata g) ->
  exists lay items, k = VIfData lay items false.
Proof. exact dropped_is_invalid_ifdata. Qed.

(** the places of the grammar where IF_DATA can stand are the ones remove_unknown_ifdata visits *)
Example ifdata_parents_of_the_shipped_grammar :
  ifdata_parents spec_shipped =
  ["AxisPts"; "Blob"; "Characteristic"; "Frame"; "Function"; "Group"; "Instance"; "Measurement"; "MemoryLayout";
   "MemorySegment"; "Module"]%string.
Proof. vm_compute. reflexivity. Qed.
