(** Proofs about the merge model (C08): conservation of both inputs, freshness and
    uniqueness of names, termination of make_unique_name, the neutral cases. *)
From Coq Require Import List NArith Bool Ascii Lia Arith FinFun.
From A2L Require Import Base.ListX Text.Escape Lex.Tokenizer Text.IntText Lib.Merge Proofs.IntTextProofs.
Import ListNotations.

Arguments N.add : simpl never.
Arguments N.eqb : simpl never.

(* ---------- equality tests ---------- *)
Lemma aeq_eq a b : aeq a b = true <-> a = b.
Proof.
  rewrite aeq_N, N.eqb_eq. split; [|intros ->; reflexivity].
  intros H. rewrite <- (ascii_N_embedding a), <- (ascii_N_embedding b), H. reflexivity.
Qed.

Lemma bytes_eqb_eq a b : bytes_eqb a b = true <-> a = b.
Proof.
  revert b; induction a as [|x a IH]; intros [|y b]; simpl; try (split; [discriminate|discriminate]);
    [tauto|].
  rewrite andb_true_iff, aeq_eq, IH. split; [intros [-> ->]; reflexivity | intros H; inversion H; auto].
Qed.
Lemma bytes_eqb_refl a : bytes_eqb a a = true.
Proof. apply bytes_eqb_eq; reflexivity. Qed.
Lemma bytes_eqb_neq a b : bytes_eqb a b = false <-> a <> b.
Proof.
  destruct (bytes_eqb a b) eqn:E.
  - apply bytes_eqb_eq in E. split; [discriminate | tauto].
  - split; [|reflexivity]. intros _ H. apply bytes_eqb_eq in H. congruence.
Qed.

Lemma item_eqb_eq a b : item_eqb a b = true <-> a = b.
Proof.
  unfold item_eqb. rewrite !andb_true_iff, !N.eqb_eq, bytes_eqb_eq.
  destruct a, b; simpl. split; [intros [[-> ->] ->]; reflexivity | intros H; inversion H; auto].
Qed.

(* ---------- lookups ---------- *)
Definition names (l : list item) : list name := map it_name l.

Lemma lookup_first_some n l i : lookup_first n l = Some i -> In i l /\ it_name i = n.
Proof.
  intros H. apply find_some in H. destruct H as [Hi Hn]. split; [exact Hi|].
  apply bytes_eqb_eq. exact Hn.
Qed.
Lemma lookup_first_none n l : lookup_first n l = None <-> ~ In n (names l).
Proof.
  unfold lookup_first, names. induction l as [|x l IH]; simpl; [tauto|].
  unfold named at 1. destruct (bytes_eqb (it_name x) n) eqn:E.
  - apply bytes_eqb_eq in E. split; [discriminate | intros H; exfalso; apply H; auto].
  - apply bytes_eqb_neq in E. rewrite IH. tauto.
Qed.
Lemma has_true n l : has n l = true <-> In n (names l).
Proof.
  unfold has. destruct (lookup_first n l) eqn:E.
  - apply lookup_first_some in E. destruct E as [Hi <-]. split; [intros _; apply in_map; exact Hi | reflexivity].
  - apply lookup_first_none in E. split; [discriminate | tauto].
Qed.
Lemma has_false n l : has n l = false <-> ~ In n (names l).
Proof. rewrite <- has_true. destruct (has n l); split; congruence. Qed.

Lemma nodup_names_inj l a b : NoDup (names l) -> In a l -> In b l -> it_name a = it_name b -> a = b.
Proof.
  unfold names. induction l as [|x l IH]; simpl; intros Hn Ha Hb E; [tauto|].
  inversion Hn as [|? ? Hx Hl]; subst.
  destruct Ha as [<-|Ha], Hb as [<-|Hb]; auto.
  - exfalso. apply Hx. rewrite E. apply in_map; exact Hb.
  - exfalso. apply Hx. rewrite <- E. apply in_map; exact Ha.
Qed.
Lemma lookup_first_self l a : NoDup (names l) -> In a l -> lookup_first (it_name a) l = Some a.
Proof.
  intros Hn Ha. destruct (lookup_first (it_name a) l) eqn:E.
  - apply lookup_first_some in E. destruct E as [Hi He]. f_equal. eapply nodup_names_inj; eauto.
  - apply lookup_first_none in E. exfalso. apply E. apply in_map; exact Ha.
Qed.

(* ---------- the shape of the generated names ---------- *)
Lemma digits_fuel_chars f n c : In c (digits_fuel f false 10 n) -> exists d, (d < 10)%N /\ c = digit_char false d.
Proof.
  revert n; induction f as [|f IH]; intros n; simpl; [tauto|].
  destruct (N.ltb_spec n 10) as [Hlt|Hge].
  - intros [<-|[]]. exists n; auto.
  - intros H. apply in_app_or in H. destruct H as [H|[<-|[]]]; [eapply IH; exact H|].
    exists (n mod 10)%N. split; [apply N.mod_lt; discriminate | reflexivity].
Qed.
Lemma digit_not_dot d : (d < 10)%N -> digit_char false d <> "."%char.
Proof.
  intros Hd E.
  assert (H : digit_val 10 (digit_char false d) = Some d) by (apply digit_val_char; [exact Hd | discriminate]).
  rewrite E in H. vm_compute in H. discriminate.
Qed.
Lemma suffix_no_dot idx : ~ In "."%char (suffix idx).
Proof.
  unfold suffix. destruct (N.eqb idx 1); [simpl; tauto|].
  intros H. apply digits_fuel_chars in H. destruct H as (d & Hd & E). symmetry in E.
  exact (digit_not_dot d Hd E).
Qed.
Lemma suffix_inj i j : suffix i = suffix j -> i = j.
Proof.
  unfold suffix. destruct (N.eqb_spec i 1) as [->|Hi], (N.eqb_spec j 1) as [->|Hj]; auto.
  - intros H. symmetry in H. exfalso. revert H. apply digits_fuel_nonempty.
  - intros H. exfalso. revert H. apply digits_fuel_nonempty.
  - intros H. assert (P : parse_digits 10 (digits false 10 i) = parse_digits 10 (digits false 10 j)) by (rewrite H; reflexivity).
    rewrite !parse_digits_digits in P by (try discriminate; lia). inversion P; reflexivity.
Qed.

Lemma candidate_idx_inj n i j : candidate n i = candidate n j -> i = j.
Proof.
  unfold candidate. intros H. apply app_inv_head in H. apply app_inv_head in H. apply suffix_inj; exact H.
Qed.

Lemma tail_no_dot t s1 s2 : dot_merge ++ s2 = t ++ dot_merge ++ s1 -> ~ In "."%char s2 -> t = [].
Proof.
  intros H Hs. destruct t as [|c t]; [reflexivity|]. exfalso.
  unfold dot_merge in H. simpl in H. inversion H as [[Hc Ht]].
  assert (Hin : In "."%char (t ++ "."%char :: ["M"; "E"; "R"; "G"; "E"]%char ++ s1))
    by (apply in_or_app; right; left; reflexivity).
  simpl in Ht. simpl in Hin. rewrite <- Ht in Hin. simpl in Hin.
  destruct Hin as [E|[E|[E|[E|[E|Hin]]]]]; try discriminate. exact (Hs Hin).
Qed.

Lemma candidate_name_inj n1 n2 i j : candidate n1 i = candidate n2 j -> n1 = n2.
Proof.
  unfold candidate. intros H. apply app_eq_app in H. destruct H as [t [[-> H]|[-> H]]].
  - apply tail_no_dot in H; [subst; rewrite app_nil_r; reflexivity | apply suffix_no_dot].
  - apply tail_no_dot in H; [subst; rewrite app_nil_r; reflexivity | apply suffix_no_dot].
Qed.

(* ---------- make_unique_name: freshness and termination ---------- *)
Lemma unique_from_fresh f n i orig merge c :
  unique_from f n i orig merge = Some c ->
  ~ In c (names orig) /\ ~ In c (names merge) /\ exists j, c = candidate n j.
Proof.
  revert i; induction f as [|f IH]; intros i; simpl; [discriminate|].
  destruct (has (candidate n i) merge) eqn:Hm; simpl; [apply IH|].
  destruct (has (candidate n i) orig) eqn:Ho; [apply IH|].
  intros H; inversion H; subst. apply has_false in Hm, Ho. split; [exact Ho|]. split; [exact Hm|].
  exists i; reflexivity.
Qed.

Lemma unique_from_none f n i orig merge :
  unique_from f n i orig merge = None ->
  forall k, (k < f)%nat -> In (candidate n (i + N.of_nat k)) (names merge ++ names orig).
Proof.
  revert i; induction f as [|f IH]; intros i H k Hk; [lia|]. simpl in H.
  destruct (has (candidate n i) merge || has (candidate n i) orig) eqn:Hh; [|discriminate].
  destruct k as [|k].
  - replace (i + N.of_nat 0)%N with i by lia. apply orb_true_iff in Hh. apply in_or_app.
    destruct Hh as [Hh|Hh]; apply has_true in Hh; auto.
  - replace (i + N.of_nat (S k))%N with ((i + 1) + N.of_nat k)%N by lia. apply IH; [exact H | lia].
Qed.

Theorem make_unique_name_total n orig merge : exists c, make_unique_name n orig merge = Some c.
Proof.
  unfold make_unique_name. destruct (unique_from _ n 1 orig merge) eqn:E; [eexists; reflexivity|]. exfalso.
  pose proof (unique_from_none _ _ _ _ _ E) as H.
  set (f := S (length orig + length merge)) in *.
  set (cands := map (fun k => candidate n (1 + N.of_nat k)) (seq 0 f)).
  assert (Hnd : NoDup cands).
  { unfold cands. apply FinFun.Injective_map_NoDup; [|apply seq_NoDup].
    intros a b Hab. apply candidate_idx_inj in Hab. lia. }
  assert (Hinc : incl cands (names merge ++ names orig)).
  { intros c Hc. unfold cands in Hc. apply in_map_iff in Hc. destruct Hc as (k & <- & Hk).
    apply in_seq in Hk. apply H. lia. }
  pose proof (NoDup_incl_length Hnd Hinc) as L.
  unfold cands, names in L. rewrite map_length, seq_length, app_length, !map_length in L. unfold f in L. lia.
Qed.

Theorem make_unique_name_fresh n orig merge c : make_unique_name n orig merge = Some c ->
  ~ In c (names orig) /\ ~ In c (names merge) /\ exists j, c = candidate n j.
Proof. apply unique_from_fresh. Qed.

(* ---------- calculate_item_actions and the push loops ---------- *)
Inductive cls := CSkip | CNew | CRen (nn : name).
Definition classify (orig merge : list item) (m : item) : cls :=
  match lookup_first (it_name m) orig with
  | Some o => if item_eqb o m then CSkip
              else match make_unique_name (it_name m) orig merge with Some nn => CRen nn | None => CSkip end
  | None => CNew
  end.
Definition repr (orig merge : list item) (m : item) : list item :=
  match classify orig merge m with CSkip => [] | CNew => [m] | CRen nn => [set_name m nn] end.
Definition cls_act (c : cls) : bool := match c with CSkip => false | _ => true end.
Definition cls_ren (c : cls) : option name := match c with CRen nn => Some nn | _ => None end.

Lemma alist_get_remove {V} n k (m : list (name * V)) :
  alist_get n (alist_remove k m) = if bytes_eqb k n then None else alist_get n m.
Proof.
  induction m as [|[k' v] m IH]; simpl; [destruct (bytes_eqb k n); reflexivity|].
  destruct (bytes_eqb k' k) eqn:E1; simpl.
  - apply bytes_eqb_eq in E1; subst k'. rewrite IH. destruct (bytes_eqb k n); reflexivity.
  - rewrite IH. destruct (bytes_eqb k' n) eqn:E2; [|reflexivity].
    apply bytes_eqb_eq in E2; subst k'. destruct (bytes_eqb k n) eqn:E3; [|reflexivity].
    apply bytes_eqb_eq in E3; subst k. rewrite bytes_eqb_refl in E1. discriminate.
Qed.

Lemma action_step_spec orig merge act ren m :
  action_step orig merge (Some (act, ren)) m =
  Some ((it_name m, cls_act (classify orig merge m)) :: act,
        match cls_ren (classify orig merge m) with Some nn => (it_name m, nn) :: ren | None => ren end).
Proof.
  unfold action_step, classify. destruct (lookup_first (it_name m) orig) as [o|]; [|reflexivity].
  destruct (item_eqb o m); [reflexivity|].
  destruct (make_unique_name_total (it_name m) orig merge) as [c ->]. reflexivity.
Qed.

Lemma fold_actions orig merge ms : forall act ren,
  NoDup (names ms) ->
  (forall n, In n (names ms) -> alist_get n ren = None) ->
  exists act' ren',
    fold_left (action_step orig merge) ms (Some (act, ren)) = Some (act', ren') /\
    (forall m, In m ms -> alist_get (it_name m) act' = Some (cls_act (classify orig merge m)) /\
                          alist_get (it_name m) ren' = cls_ren (classify orig merge m)) /\
    (forall n, ~ In n (names ms) -> alist_get n act' = alist_get n act /\ alist_get n ren' = alist_get n ren).
Proof.
  induction ms as [|m r IH]; intros act ren Hn Hfree; cbn [fold_left].
  - exists act, ren. split; [reflexivity|]. split; [intros m []| auto].
  - inversion Hn as [|? ? Hm Hr]; subst. rewrite action_step_spec.
    set (ren1 := match cls_ren (classify orig merge m) with Some nn => (it_name m, nn) :: ren | None => ren end).
    assert (Hren1 : forall n, it_name m <> n -> alist_get n ren1 = alist_get n ren).
    { intros n Hne. unfold ren1. destruct (cls_ren (classify orig merge m)); [|reflexivity].
      simpl. apply bytes_eqb_neq in Hne. rewrite Hne. reflexivity. }
    destruct (IH ((it_name m, cls_act (classify orig merge m)) :: act) ren1 Hr) as (act' & ren' & Hf & Hin & Hout).
    { intros n Hin. rewrite Hren1; [apply Hfree; right; exact Hin|]. intros <-. exact (Hm Hin). }
    exists act', ren'. split; [exact Hf|]. split.
    + intros x [<-|Hx]; [|apply Hin; exact Hx].
      destruct (Hout _ Hm) as [Ha Hb]. rewrite Ha, Hb. simpl. rewrite bytes_eqb_refl. split; [reflexivity|].
      unfold ren1. destruct (cls_ren (classify orig merge m)) eqn:E; simpl; [rewrite bytes_eqb_refl; reflexivity|].
      apply Hfree. left; reflexivity.
    + intros n Hn'. simpl in Hn'. destruct (Hout n) as [Ha Hb]; [tauto|]. rewrite Ha, Hb.
      assert (Hne : it_name m <> n) by tauto. split; [|apply Hren1; exact Hne].
      simpl. apply bytes_eqb_neq in Hne. rewrite Hne. reflexivity.
Qed.

Lemma calc_actions_spec orig merge : NoDup (names merge) ->
  exists act ren, calc_actions orig merge = Some (act, ren) /\
    forall m, In m merge -> alist_get (it_name m) act = Some (cls_act (classify orig merge m)) /\
                            alist_get (it_name m) ren = cls_ren (classify orig merge m).
Proof.
  intros Hn. destruct (fold_actions orig merge merge [] [] Hn) as (act & ren & Hf & Hin & _); [reflexivity|].
  exists act, ren. split; [exact Hf | exact Hin].
Qed.

Lemma flat_map_ext_in' {A B} (f g : A -> list B) l :
  (forall x, In x l -> f x = g x) -> flat_map f l = flat_map g l.
Proof.
  induction l as [|x l IH]; simpl; intros H; [reflexivity|].
  rewrite (H x (or_introl eq_refl)), IH; [reflexivity | intros; apply H; right; assumption].
Qed.

Definition pushed (act : amap) (ren : rmap) (m : item) : list item :=
  match alist_get (it_name m) act with
  | Some true => [match alist_get (it_name m) ren with Some nn => set_name m nn | None => m end]
  | _ => []
  end.

Lemma push_items_ext act ms : forall ren1 ren2,
  (forall m, In m ms -> alist_get (it_name m) ren1 = alist_get (it_name m) ren2) ->
  push_items act ren1 ms = push_items act ren2 ms.
Proof.
  induction ms as [|m r IH]; intros ren1 ren2 H; simpl; [reflexivity|].
  rewrite (H m (or_introl eq_refl)).
  destruct (alist_get (it_name m) act) as [[|]|]; try (apply IH; intros; apply H; right; assumption).
  destruct (alist_get (it_name m) ren2).
  - f_equal. apply IH. intros x Hx. rewrite !alist_get_remove. rewrite (H x); [reflexivity | right; exact Hx].
  - f_equal. apply IH. intros; apply H; right; assumption.
Qed.

Lemma push_items_spec act ms : forall ren, NoDup (names ms) ->
  push_items act ren ms = flat_map (pushed act ren) ms.
Proof.
  induction ms as [|m r IH]; intros ren Hn; simpl; [reflexivity|].
  inversion Hn as [|? ? Hm Hr]; subst. unfold pushed at 1.
  destruct (alist_get (it_name m) act) as [[|]|]; simpl; try (apply IH; exact Hr).
  destruct (alist_get (it_name m) ren) eqn:E; f_equal; [|apply IH; exact Hr].
  rewrite <- (IH ren Hr). apply push_items_ext. intros x Hx. rewrite alist_get_remove.
  destruct (bytes_eqb (it_name m) (it_name x)) eqn:E2; [|reflexivity].
  apply bytes_eqb_eq in E2. exfalso. apply Hm. rewrite E2. apply in_map. exact Hx.
Qed.

(** The result of merging one namespace, in closed form. *)
Theorem merge_ns_spec orig merge : NoDup (names merge) ->
  merge_ns orig merge = Some (orig ++ flat_map (repr orig merge) merge).
Proof.
  intros Hn. unfold merge_ns. destruct (calc_actions_spec orig merge Hn) as (act & ren & -> & H).
  f_equal. f_equal. rewrite push_items_spec by exact Hn.
  apply flat_map_ext_in'. intros m Hm. destruct (H m Hm) as [Ha Hr]. unfold pushed, repr. rewrite Ha, Hr.
  destruct (classify orig merge m); reflexivity.
Qed.

(* ---------- the statements of C08 for one namespace ---------- *)
Lemma classify_cases orig merge m :
  match classify orig merge m with
  | CSkip => In m orig
  | CNew => ~ In (it_name m) (names orig)
  | CRen nn => (exists o, In o orig /\ it_name o = it_name m /\ o <> m) /\
               make_unique_name (it_name m) orig merge = Some nn
  end.
Proof.
  unfold classify. destruct (lookup_first (it_name m) orig) as [o|] eqn:E.
  - apply lookup_first_some in E. destruct E as [Ho Hn].
    destruct (item_eqb o m) eqn:Eq.
    + apply item_eqb_eq in Eq. subst; exact Ho.
    + destruct (make_unique_name_total (it_name m) orig merge) as [c Hc]. rewrite Hc. split; [|reflexivity].
      exists o. split; [exact Ho|]. split; [exact Hn|]. intros ->. 
      assert (item_eqb m m = true) by (apply item_eqb_eq; reflexivity). congruence.
  - apply lookup_first_none in E. exact E.
Qed.

(** every element of A stays, unchanged and in place; the merge always yields a result *)
Theorem merge_keeps_orig orig merge : NoDup (names merge) ->
  exists added, merge_ns orig merge = Some (orig ++ added).
Proof. intros Hn. eexists. apply merge_ns_spec; exact Hn. Qed.

(** every element of B is represented: shared, added, or added under a fresh name *)
Theorem merge_represents orig merge res m : NoDup (names merge) ->
  merge_ns orig merge = Some res -> In m merge ->
  In m orig
  \/ (~ In (it_name m) (names orig) /\ In m res)
  \/ (exists o nn, In o orig /\ it_name o = it_name m /\ o <> m /\
                   In (set_name m nn) res /\
                   ~ In nn (names orig) /\ ~ In nn (names merge) /\ exists j, nn = candidate (it_name m) j).
Proof.
  intros Hn Hres Hm. rewrite merge_ns_spec in Hres by exact Hn. inversion Hres; subst res; clear Hres.
  pose proof (classify_cases orig merge m) as Hc.
  assert (Hin : forall x, In x (repr orig merge m) -> In x (orig ++ flat_map (repr orig merge) merge)).
  { intros x Hx. apply in_or_app; right. apply in_flat_map. exists m; auto. }
  unfold repr in Hin. destruct (classify orig merge m) as [| |nn].
  - left; exact Hc.
  - right; left. split; [exact Hc | apply Hin; left; reflexivity].
  - right; right. destruct Hc as [(o & Ho & Hon & Hne) Hu].
    apply make_unique_name_fresh in Hu. destruct Hu as (Hf1 & Hf2 & Hj).
    exists o, nn. repeat split; auto. apply Hin; left; reflexivity.
Qed.

(** nothing else appears in the result *)
Theorem merge_nothing_invented orig merge res x : NoDup (names merge) ->
  merge_ns orig merge = Some res -> In x res ->
  In x orig \/ exists m, In m merge /\ it_kind x = it_kind m /\ it_body x = it_body m /\
                         (x = m \/ exists j, it_name x = candidate (it_name m) j).
Proof.
  intros Hn Hres Hx. rewrite merge_ns_spec in Hres by exact Hn. inversion Hres; subst res; clear Hres.
  apply in_app_or in Hx. destruct Hx as [Hx|Hx]; [left; exact Hx|]. right.
  apply in_flat_map in Hx. destruct Hx as (m & Hm & Hx). exists m. split; [exact Hm|].
  unfold repr in Hx. pose proof (classify_cases orig merge m) as Hc.
  destruct (classify orig merge m) as [| |nn]; simpl in Hx; [tauto | |].
  - destruct Hx as [<-|[]]. auto.
  - destruct Hx as [<-|[]]. destruct Hc as [_ Hu]. apply make_unique_name_fresh in Hu.
    destruct Hu as (_ & _ & j & ->). simpl. split; [reflexivity|]. split; [reflexivity|]. right. exists j; reflexivity.
Qed.

Definition out_name (orig merge : list item) (m : item) : name :=
  match classify orig merge m with CRen nn => nn | _ => it_name m end.

Lemma names_repr orig merge ms :
  names (flat_map (repr orig merge) ms) =
  map (out_name orig merge) (filter (fun m => cls_act (classify orig merge m)) ms).
Proof.
  induction ms as [|m r IH]; simpl; [reflexivity|]. unfold names in *. rewrite map_app, IH.
  unfold repr. destruct (classify orig merge m) eqn:E; simpl; try reflexivity;
    (f_equal; unfold out_name; rewrite E; reflexivity).
Qed.

Lemma NoDup_map_inj_in {A B} (f : A -> B) l :
  NoDup l -> (forall a b, In a l -> In b l -> f a = f b -> a = b) -> NoDup (map f l).
Proof.
  induction l as [|x l IH]; simpl; intros Hn Hinj; [constructor|].
  inversion Hn as [|? ? Hx Hl]; subst. constructor.
  - intros H. apply in_map_iff in H. destruct H as (y & Hy & Hin).
    assert (y = x) by (apply Hinj; auto). subst. exact (Hx Hin).
  - apply IH; [exact Hl|]. intros a b Ha Hb. apply Hinj; auto.
Qed.

Lemma out_name_cases orig merge m : In m merge ->
  (out_name orig merge m = it_name m) \/
  (~ In (out_name orig merge m) (names merge) /\ ~ In (out_name orig merge m) (names orig) /\
   exists j, out_name orig merge m = candidate (it_name m) j).
Proof.
  intros Hm. unfold out_name. pose proof (classify_cases orig merge m) as Hc.
  destruct (classify orig merge m) as [| |nn]; auto. right.
  destruct Hc as [_ Hu]. apply make_unique_name_fresh in Hu. tauto.
Qed.

Lemma out_name_inj orig merge a b : NoDup (names merge) -> In a merge -> In b merge ->
  out_name orig merge a = out_name orig merge b -> a = b.
Proof.
  intros Hn Ha Hb E.
  destruct (out_name_cases orig merge a Ha) as [Ea|(Ea1 & _ & ja & Ea2)],
           (out_name_cases orig merge b Hb) as [Eb|(Eb1 & _ & jb & Eb2)].
  - eapply nodup_names_inj; eauto. congruence.
  - exfalso. apply Eb1. rewrite <- E, Ea. apply in_map; exact Ha.
  - exfalso. apply Ea1. rewrite E, Eb. apply in_map; exact Hb.
  - eapply nodup_names_inj; eauto. rewrite Ea2, Eb2 in E. eapply candidate_name_inj; exact E.
Qed.

(** the names of the added elements are pairwise different (A's names play no role here) *)
Lemma added_names_nodup orig merge : NoDup (names merge) -> NoDup (names (flat_map (repr orig merge) merge)).
Proof.
  intros Hn. rewrite names_repr.
  assert (Hnd : NoDup merge) by (eapply NoDup_map_inv; exact Hn).
  apply NoDup_map_inj_in; [apply NoDup_filter; exact Hnd|].
  intros a b Ha Hb. apply filter_In in Ha, Hb. apply out_name_inj; tauto.
Qed.

(** names stay unique within the namespace *)
Theorem merge_names_unique orig merge res :
  NoDup (names orig) -> NoDup (names merge) -> merge_ns orig merge = Some res -> NoDup (names res).
Proof.
  intros Ho Hn Hres. rewrite merge_ns_spec in Hres by exact Hn. inversion Hres; subst res; clear Hres.
  unfold names at 1. rewrite map_app. fold (names orig). fold (names (flat_map (repr orig merge) merge)).
  apply NoDup_app_iff. split; [exact Ho|]. split; [apply added_names_nodup; exact Hn|].
  (* the added names are different from every name of A *)
  rewrite names_repr.
  intros n Hno Hadd. apply in_map_iff in Hadd. destruct Hadd as (m & <- & Hm).
  apply filter_In in Hm. destruct Hm as [Hm Hact].
  unfold out_name in Hno. pose proof (classify_cases orig merge m) as Hc.
  destruct (classify orig merge m) as [| |nn]; simpl in Hact; [discriminate | exact (Hc Hno) |].
  destruct Hc as [_ Hu]. apply make_unique_name_fresh in Hu. tauto.
Qed.

(** the neutral cases *)
Theorem merge_empty_right orig : merge_ns orig [] = Some orig.
Proof. rewrite merge_ns_spec by constructor. simpl. rewrite app_nil_r. reflexivity. Qed.

Lemma flat_map_nil {A B} (f : A -> list B) l : (forall x, In x l -> f x = []) -> flat_map f l = [].
Proof.
  induction l as [|x l IH]; simpl; intros H; [reflexivity|].
  rewrite (H x (or_introl eq_refl)), IH; [reflexivity | intros; apply H; right; assumption].
Qed.

Theorem merge_identical a : NoDup (names a) -> merge_ns a a = Some a.
Proof.
  intros Hn. rewrite merge_ns_spec by exact Hn. rewrite flat_map_nil; [rewrite app_nil_r; reflexivity|].
  intros m Hm. unfold repr, classify. rewrite (lookup_first_self a m Hn Hm).
  assert (E : item_eqb m m = true) by (apply item_eqb_eq; reflexivity). rewrite E. reflexivity.
Qed.

Theorem merge_into_empty b : NoDup (names b) -> merge_ns [] b = Some b.
Proof.
  intros Hn. rewrite merge_ns_spec by exact Hn. simpl. f_equal.
  induction b as [|x r IH]; simpl; [reflexivity|]. f_equal. apply IH. inversion Hn; assumption.
Qed.

(** a sequence of merges: uniqueness is an invariant, the first module stays a prefix *)
Fixpoint merge_all (a : list item) (bs : list (list item)) : option (list item) :=
  match bs with
  | [] => Some a
  | b :: r => match merge_ns a b with Some a' => merge_all a' r | None => None end
  end.

Theorem merge_all_invariant bs : forall a,
  NoDup (names a) -> Forall (fun b => NoDup (names b)) bs ->
  exists added, merge_all a bs = Some (a ++ added) /\ NoDup (names (a ++ added)).
Proof.
  induction bs as [|b r IH]; intros a Ha Hb; simpl.
  - exists []. rewrite app_nil_r. split; [reflexivity | exact Ha].
  - inversion Hb as [|? ? Hb1 Hr]; subst. destruct (merge_keeps_orig a b Hb1) as [add1 E]. rewrite E.
    assert (N1 : NoDup (names (a ++ add1))) by exact (merge_names_unique a b _ Ha Hb1 E).
    destruct (IH (a ++ add1) N1 Hr) as (add2 & E2 & N2).
    exists (add1 ++ add2). rewrite app_assoc. split; [exact E2 | exact N2].
Qed.

(* ---------- GROUP / FUNCTION: merged by name, members only grow ---------- *)
Definition grows1 (a b : option (list name)) : Prop :=
  match a with Some al => exists ext, b = Some (al ++ ext) | None => True end.
Definition grows (o o' : grp) : Prop :=
  g_name o' = g_name o /\ g_rest o' = g_rest o /\ Forall2 grows1 (g_lists o) (g_lists o').
Definition cover1 (y r : option (list name)) : Prop :=
  forall ml, y = Some ml -> exists rl, r = Some rl /\ incl ml rl.
Definition covers (g o' : grp) : Prop :=
  g_name o' = g_name g /\ Forall2 cover1 (g_lists g) (g_lists o').
Definition gnames (l : list grp) : list name := map g_name l.

Lemma grows1_refl a : grows1 a a.
Proof. destruct a as [al|]; simpl; [exists []; rewrite app_nil_r; reflexivity | exact I]. Qed.
Lemma grows1_trans a b c : grows1 a b -> grows1 b c -> grows1 a c.
Proof.
  destruct a as [al|]; simpl; [|auto]. intros [e1 ->]. simpl. intros [e2 ->].
  exists (e1 ++ e2). rewrite app_assoc. reflexivity.
Qed.
Lemma Forall2_refl' {A} (R : A -> A -> Prop) l : (forall x, R x x) -> Forall2 R l l.
Proof. intros H. induction l; constructor; auto. Qed.
Lemma Forall2_trans' {A} (R : A -> A -> Prop) : (forall x y z, R x y -> R y z -> R x z) ->
  forall a b c, Forall2 R a b -> Forall2 R b c -> Forall2 R a c.
Proof.
  intros HR a b c H. revert c. induction H; intros c Hc; inversion Hc; subst; constructor; eauto.
Qed.
Lemma grows_refl o : grows o o.
Proof. repeat split. apply Forall2_refl'. apply grows1_refl. Qed.
Lemma grows_trans a b c : grows a b -> grows b c -> grows a c.
Proof.
  intros (N1 & R1 & L1) (N2 & R2 & L2). repeat split; try congruence.
  eapply Forall2_trans'; [apply grows1_trans | exact L1 | exact L2].
Qed.
Lemma cover1_grows y r r' : cover1 y r -> grows1 r r' -> cover1 y r'.
Proof.
  intros Hc Hg ml Hy. destruct (Hc ml Hy) as (rl & -> & Hi). simpl in Hg. destruct Hg as [ext ->].
  eexists; split; [reflexivity|]. intros x Hx. apply in_or_app; left; auto.
Qed.
Lemma covers_grows g o o' : covers g o -> grows o o' -> covers g o'.
Proof.
  intros (N & L) (N' & _ & L'). split; [congruence|].
  revert L'. generalize (g_lists o'). revert L. generalize (g_lists g) (g_lists o).
  intros a b H. induction H; intros c Hc; inversion Hc; subst; constructor; eauto using cover1_grows.
Qed.

Lemma mem_In x l : mem x l = true <-> In x l.
Proof.
  induction l as [|y l IH]; simpl; [split; [discriminate | tauto]|].
  rewrite orb_true_iff, bytes_eqb_eq, IH. tauto.
Qed.

Lemma add_members_spec ml : forall ol,
  exists ext, fold_left add_member ml ol = ol ++ ext /\ incl ml (ol ++ ext) /\ incl ext ml.
Proof.
  induction ml as [|x ml IH]; intros ol; simpl.
  - exists []. rewrite app_nil_r. split; [reflexivity|]. split; intros y [].
  - unfold add_member at 2. destruct (mem x ol) eqn:E.
    + destruct (IH ol) as (ext & -> & H1 & H2). exists ext. split; [reflexivity|]. split.
      * intros y [<-|Hy]; [apply in_or_app; left; apply mem_In; exact E | auto].
      * intros y Hy. right. auto.
    + destruct (IH (ol ++ [x])) as (ext & -> & H1 & H2). exists (x :: ext).
      rewrite <- app_assoc. simpl. split; [reflexivity|]. split.
      * intros y [<-|Hy]; [apply in_or_app; right; left; reflexivity|].
        specialize (H1 y Hy). rewrite <- app_assoc in H1. exact H1.
      * intros y [<-|Hy]; [left; reflexivity | right; auto].
Qed.

Lemma merge_members_grows o m : grows1 o (merge_members o m).
Proof.
  destruct o as [ol|], m as [ml|]; simpl; auto.
  - destruct (add_members_spec ml ol) as (ext & -> & _). exists ext; reflexivity.
  - exists []. rewrite app_nil_r. reflexivity.
Qed.
Lemma merge_members_covers o m : cover1 m (merge_members o m).
Proof.
  intros ml ->. destruct o as [ol|]; simpl.
  - destruct (add_members_spec ml ol) as (ext & -> & H & _). eexists; split; [reflexivity | exact H].
  - eexists; split; [reflexivity | apply incl_refl].
Qed.

Lemma merge_lists_grows o : forall m, Forall2 grows1 o (merge_lists o m).
Proof.
  induction o as [|x o IH]; intros [|y m]; simpl; try constructor;
    auto using grows1_refl, merge_members_grows, Forall2_refl'.
Qed.
Lemma merge_lists_covers o : forall m, length o = length m -> Forall2 cover1 m (merge_lists o m).
Proof.
  induction o as [|x o IH]; intros [|y m] L; simpl in *; try discriminate; constructor.
  - apply merge_members_covers.
  - apply IH. lia.
Qed.

Lemma cover1_refl a : cover1 a a.
Proof. intros ml ->. eexists; split; [reflexivity | apply incl_refl]. Qed.
Lemma covers_refl g : covers g g.
Proof. split; [reflexivity|]. apply Forall2_refl'. apply cover1_refl. Qed.

Lemma Forall2_length' {A B} (R : A -> B -> Prop) a b : Forall2 R a b -> length a = length b.
Proof. induction 1; simpl; congruence. Qed.

Lemma names_eqb_eq a b : names_eqb a b = true <-> a = b.
Proof.
  revert b; induction a as [|x a IH]; intros [|y b]; simpl; try (split; discriminate); [tauto|].
  rewrite andb_true_iff, bytes_eqb_eq, IH. split; [intros [-> ->]; reflexivity | intros H; inversion H; auto].
Qed.
Lemma olist_eqb_eq a b : olist_eqb a b = true <-> a = b.
Proof.
  destruct a as [x|], b as [y|]; simpl; try (split; discriminate); [|tauto].
  rewrite names_eqb_eq. split; [intros ->; reflexivity | intros H; inversion H; auto].
Qed.
Lemma lists_eqb_eq a b : lists_eqb a b = true <-> a = b.
Proof.
  revert b; induction a as [|x a IH]; intros [|y b]; simpl; try (split; discriminate); [tauto|].
  rewrite andb_true_iff, olist_eqb_eq, IH. split; [intros [-> ->]; reflexivity | intros H; inversion H; auto].
Qed.
Lemma grp_eqb_eq a b : grp_eqb a b = true <-> a = b.
Proof.
  unfold grp_eqb. rewrite !andb_true_iff, bytes_eqb_eq, N.eqb_eq, lists_eqb_eq.
  destruct a, b; simpl. split; [intros [[-> ->] ->]; reflexivity | intros H; inversion H; auto].
Qed.

(** one step: every group already present only grows (same position, same name, same
    remaining content), and the merged-in group is covered by some group of the result *)
Lemma merge_grp_into_spec k g : length (g_lists g) = k -> forall orig,
  Forall (fun o => length (g_lists o) = k) orig ->
  exists orig' tl, merge_grp_into orig g = orig' ++ tl /\ Forall2 grows orig orig' /\
    (exists o', In o' (orig' ++ tl) /\ covers g o') /\
    Forall (fun o => length (g_lists o) = k) (orig' ++ tl) /\
    gnames (orig' ++ tl) = gnames orig ++ (if mem (g_name g) (gnames orig) then [] else [g_name g]).
Proof.
  intros Lg. induction orig as [|o r IH]; intros Hk; simpl.
  - exists [], [g]. simpl. split; [reflexivity|]. split; [constructor|]. split.
    + exists g. split; [left; reflexivity | apply covers_refl].
    + split; [constructor; [exact Lg | constructor] | reflexivity].
  - inversion Hk as [|? ? Lo Hr]; subst.
    destruct (bytes_eqb (g_name o) (g_name g)) eqn:En; simpl.
    + apply bytes_eqb_eq in En. destruct (grp_eqb o g) eqn:Eg.
      * apply grp_eqb_eq in Eg. subst o. exists (g :: r), []. rewrite app_nil_r.
        split; [reflexivity|]. split; [apply Forall2_refl'; apply grows_refl|]. split.
        { exists g. split; [left; reflexivity | apply covers_refl]. }
        split; [exact Hk|]. simpl. rewrite app_nil_r. reflexivity.
      * set (o2 := mkGrp (g_name o) (g_rest o) (merge_lists (g_lists o) (g_lists g))).
        exists (o2 :: r), []. rewrite app_nil_r. split; [reflexivity|]. split.
        { constructor; [|apply Forall2_refl'; apply grows_refl].
          split; [reflexivity|]. split; [reflexivity|]. simpl. apply merge_lists_grows. }
        split.
        { exists o2. split; [left; reflexivity|]. split; [exact En|]. simpl.
          apply merge_lists_covers. congruence. }
        split.
        { constructor; [|exact Hr]. simpl.
          pose proof (merge_lists_grows (g_lists o) (g_lists g)) as HF.
          apply Forall2_length' in HF. congruence. }
        simpl. rewrite app_nil_r. reflexivity.
    + destruct (IH Hr) as (r' & tl & E & HG & (o' & Ho' & Hc) & HK & HN).
      exists (o :: r'), tl. simpl. rewrite E. split; [reflexivity|]. split.
      { constructor; [apply grows_refl | exact HG]. }
      split; [exists o'; split; [right; exact Ho' | exact Hc]|].
      split; [constructor; [exact Lo | exact HK]|].
      fold (gnames (r' ++ tl)). rewrite HN. reflexivity.
Qed.

Lemma Forall2_In_l {A B} (R : A -> B -> Prop) a b x : Forall2 R a b -> In x a -> exists y, In y b /\ R x y.
Proof.
  induction 1 as [|p q a b Hpq H IH]; simpl; [tauto|]. intros [<-|Hx]; [exists q; auto|].
  destruct (IH Hx) as (y & Hy & Hr). exists y; auto.
Qed.

Theorem merge_grps_spec k merge : forall orig,
  Forall (fun o => length (g_lists o) = k) orig -> Forall (fun o => length (g_lists o) = k) merge ->
  exists orig' tl, merge_grps orig merge = orig' ++ tl /\ Forall2 grows orig orig' /\
    forall g, In g merge -> exists o', In o' (orig' ++ tl) /\ covers g o'.
Proof.
  unfold merge_grps. induction merge as [|g r IH]; intros orig Ho Hm; simpl.
  - exists orig, []. rewrite app_nil_r. split; [reflexivity|]. split; [apply Forall2_refl'; apply grows_refl|].
    intros g [].
  - inversion Hm as [|? ? Lg Hr]; subst.
    destruct (merge_grp_into_spec _ g eq_refl orig Ho) as (o1 & t1 & E & HG & (o' & Ho' & Hc) & HK & _).
    rewrite E. destruct (IH (o1 ++ t1) HK Hr) as (X & tl2 & E2 & HG2 & Hcov).
    apply Forall2_app_inv_l in HG2. destruct HG2 as (o1' & t1' & G1 & G2 & ->).
    exists o1', (t1' ++ tl2). rewrite app_assoc. split; [exact E2|]. split.
    + eapply Forall2_trans'; [apply grows_trans | exact HG | exact G1].
    + intros x [<-|Hx]; [|apply Hcov; exact Hx].
      destruct (Forall2_In_l grows (o1 ++ t1) (o1' ++ t1') o') as (y & Hy & Hgy); [apply Forall2_app; assumption | exact Ho' |].
      exists y. split; [apply in_or_app; left; exact Hy | eapply covers_grows; eauto].
Qed.

Lemma merge_grp_into_names g orig :
  gnames (merge_grp_into orig g) = gnames orig ++ (if mem (g_name g) (gnames orig) then [] else [g_name g]).
Proof.
  induction orig as [|o r IH]; simpl; [reflexivity|].
  destruct (bytes_eqb (g_name o) (g_name g)) eqn:En; simpl.
  - rewrite app_nil_r. destruct (grp_eqb o g); reflexivity.
  - fold (gnames (merge_grp_into r g)). rewrite IH. reflexivity.
Qed.

Theorem merge_grps_names_unique merge : forall orig, NoDup (gnames orig) -> NoDup (gnames (merge_grps orig merge)).
Proof.
  unfold merge_grps. induction merge as [|g r IH]; intros orig Hn; simpl; [exact Hn|].
  apply IH. rewrite merge_grp_into_names. destruct (mem (g_name g) (gnames orig)) eqn:E.
  - rewrite app_nil_r; exact Hn.
  - apply NoDup_app_iff. split; [exact Hn|]. split; [constructor; [simpl; tauto | constructor]|].
    intros x Hx [<-|[]]. apply mem_In in Hx. congruence.
Qed.

Theorem merge_grps_empty_right orig : merge_grps orig [] = orig.
Proof. reflexivity. Qed.

Lemma merge_grp_into_self a : NoDup (gnames a) -> forall g, In g a -> merge_grp_into a g = a.
Proof.
  induction a as [|o r IH]; simpl; intros Hn g Hg; [tauto|].
  inversion Hn as [|? ? Ho Hr]; subst.
  destruct (bytes_eqb (g_name o) (g_name g)) eqn:En.
  - apply bytes_eqb_eq in En. destruct Hg as [<-|Hg].
    + assert (E : grp_eqb o o = true) by (apply grp_eqb_eq; reflexivity). rewrite E. reflexivity.
    + exfalso. apply Ho. rewrite En. apply in_map. exact Hg.
  - destruct Hg as [<-|Hg]; [rewrite bytes_eqb_refl in En; discriminate|].
    f_equal. apply IH; assumption.
Qed.
Theorem merge_grps_identical a : NoDup (gnames a) -> merge_grps a a = a.
Proof.
  intros Hn. unfold merge_grps.
  assert (H : forall l, incl l a -> fold_left merge_grp_into l a = a).
  { induction l as [|g l IH]; simpl; intros Hi; [reflexivity|].
    rewrite merge_grp_into_self; [apply IH; intros x Hx; apply Hi; right; exact Hx | exact Hn | apply Hi; left; reflexivity]. }
  apply H. apply incl_refl.
Qed.

Lemma merge_grp_into_new a g : ~ In (g_name g) (gnames a) -> merge_grp_into a g = a ++ [g].
Proof.
  induction a as [|o r IH]; simpl; intros Hn; [reflexivity|].
  destruct (bytes_eqb (g_name o) (g_name g)) eqn:En; [apply bytes_eqb_eq in En; tauto|].
  f_equal. apply IH. tauto.
Qed.
Theorem merge_grps_into_empty b : NoDup (gnames b) -> merge_grps [] b = b.
Proof.
  intros Hn. unfold merge_grps.
  assert (H : forall l acc, NoDup (gnames (acc ++ l)) -> fold_left merge_grp_into l acc = acc ++ l).
  { induction l as [|g l IH]; intros acc Hnd; simpl; [rewrite app_nil_r; reflexivity|].
    rewrite merge_grp_into_new.
    - rewrite IH; rewrite <- app_assoc; [reflexivity | exact Hnd].
    - unfold gnames in Hnd. rewrite map_app in Hnd. apply NoDup_app_iff in Hnd. destruct Hnd as (_ & _ & Hd).
      intros Hin. apply (Hd (g_name g)); [exact Hin | left; reflexivity]. }
  apply (H b []). exact Hn.
Qed.
