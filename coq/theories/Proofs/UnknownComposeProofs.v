(** C07, composition with the generic parser: an unknown block between the children of a block is skipped by the
    tagged-item loop with one warning and nothing else changes - the block is parsed to the same value as without it.
    (Block form, non-strict mode.) *)
From Coq Require Import Ascii String List Bool NArith ZArith Lia.
From A2L Require Import Text.Escape Text.IntText Lex.Tokenizer Gram.Spec A2ml.Types Gram.PState Gram.Parser Gram.Writer Gram.TokWriter
  Proofs.UnknownProofs Proofs.CursorProofs Proofs.RoundTripProofs.
Import ListNotations.
Local Open Scope N_scope.

Lemma consume_adv : forall u s rest, ps_after s = u ++ rest -> ps_pos s = length (ps_before s) -> adv u s (consume s u).
Proof.
  induction u as [|t r IH]; intros s rest H Hp; [apply adv_refl; exact Hp|].
  cbn [consume]. rewrite H. cbn [app].
  set (s1 := upd_last (upd_cursor s (t :: ps_before s) (r ++ rest) (Datatypes.S (ps_pos s))) (tk_line t)).
  assert (A1 : adv [t] s s1).
  { constructor; cbn; [reflexivity | exact H | constructor; reflexivity | rewrite Hp; reflexivity]. }
  change (t :: r) with ([t] ++ r). apply (adv_trans [t] r s s1 _ A1). apply (IH s1 rest); [reflexivity | cbn; rewrite Hp; reflexivity].
Qed.

(* skip_unknown_block with the cursor movement spelled out *)
Theorem skip_unknown_block_adv c tag stop s u tend ttag post :
  Inv s -> c_fileid c = O -> balanced u -> tk_type tend = TEnd -> tk_type ttag = TIdentifier -> tk_text ttag = tag ->
  ps_after s = u ++ tend :: ttag :: post ->
  exists s', handle_unknown_taggedstruct_tag c tag true stop s = (ROk tt, s') /\ adv (u ++ [tend; ttag]) s s'.
Proof.
  intros I Hc Hu Hte Htt Htag Hs.
  assert (Hstrict : ps_strict s = false) by (apply (inv_strict s I)).
  assert (Hfile : Nat.ltb (c_fileid c) (ps_nfiles s) = true) by (rewrite Hc; apply Nat.ltb_lt; apply (inv_nfiles s I)).
  assert (Hp : ps_pos s = length (ps_before s)) by (apply (inv_pos s I)).
  set (d := mkDiag "UnknownSubBlock" (Some (ps_last s)) (c_fileid c) tag).
  set (s0 := upd_log s (d :: ps_log s)).
  assert (Hd : mk_diag "UnknownSubBlock" c tag s = (ROk d, s)) by (unfold mk_diag; rewrite Hfile; reflexivity).
  assert (He : error_or_log d s = (ROk tt, s0)) by (unfold error_or_log; rewrite Hstrict; reflexivity).
  assert (H0 : ps_after s0 = u ++ tend :: ttag :: post) by exact Hs.
  destruct (u ++ tend :: ttag :: post) as [|t0 a0] eqn:Ea; [destruct u; discriminate|].
  set (s0' := upd_last (upd_cursor s0 (t0 :: ps_before s0) a0 (Datatypes.S (ps_pos s0))) (tk_line t0)).
  assert (Hg : get_token c s0 = (ROk t0, s0')) by (apply get_token_cons; exact H0).
  set (s1 := upd_cursor s0' (ps_before s0) (t0 :: a0) (pred (Datatypes.S (ps_pos s0)))).
  assert (Hundo : undo_get_token s0' = (ROk tt, s1)) by reflexivity.
  assert (H1 : ps_after s1 = u ++ tend :: ttag :: post) by (rewrite Ea; reflexivity).
  assert (A01 : adv [] s s1).
  { constructor; cbn; [reflexivity | rewrite Hs; reflexivity | constructor; reflexivity | exact Hp]. }
  unfold handle_unknown_taggedstruct_tag.
  rewrite (bindM_ok _ _ _ _ _ Hd). rewrite (bindM_ok _ _ _ _ _ He).
  rewrite (bindM_ok _ _ _ _ _ Hg). rewrite (bindM_ok _ _ _ _ _ Hundo).
  replace (length (ps_after s1)) with (length u + Datatypes.S (Datatypes.S (length post)))%nat by (rewrite H1, app_length; reflexivity).
  rewrite (unknown_loop_balanced u Hu _ c _ tag stop 1%Z s1 (tend :: ttag :: post)); [| lia | exact H1 | lia].
  set (s2 := consume s1 u).
  assert (A12 : adv u s1 s2) by (apply (consume_adv u s1 _ H1); cbn; exact Hp).
  assert (H2 : ps_after s2 = tend :: ttag :: post) by (apply consume_after; exact H1).
  replace (Datatypes.S (length u + Datatypes.S (Datatypes.S (length post))) - length u)%nat with (Datatypes.S (Datatypes.S (Datatypes.S (length post)))) by lia.
  set (s3 := upd_last (upd_cursor s2 (tend :: ps_before s2) (ttag :: post) (Datatypes.S (ps_pos s2))) (tk_line tend)).
  assert (Hg2 : get_token c s2 = (ROk tend, s3)) by (apply get_token_cons; exact H2).
  assert (P2 : ps_pos s2 = length (ps_before s2)) by (apply (adv_pos _ _ _ A12)).
  assert (A23 : adv [tend] s2 s3).
  { constructor; cbn; [reflexivity | exact H2 | constructor; reflexivity | rewrite P2; reflexivity]. }
  cbn [unknown_loop]. rewrite (bindM_ok _ _ _ _ _ Hg2). rewrite Hte.
  replace (1 - 1 =? -1)%Z with false by reflexivity.
  set (s4 := upd_last (upd_cursor s3 (ttag :: ps_before s3) post (Datatypes.S (ps_pos s3))) (tk_line ttag)).
  assert (Hg3 : get_token c s3 = (ROk ttag, s4)) by (apply get_token_cons; reflexivity).
  assert (A34 : adv [ttag] s3 s4).
  { constructor; cbn; [reflexivity | reflexivity | constructor; reflexivity | rewrite P2; reflexivity]. }
  cbn [unknown_loop]. rewrite (bindM_ok _ _ _ _ _ Hg3). rewrite Htt.
  replace (1 - 1 =? 0)%Z with true by reflexivity. rewrite Htag, bytes_eqb_refl.
  exists s4. split; [reflexivity|].
  replace (u ++ [tend; ttag]) with ([] ++ u ++ [tend] ++ [ttag]) by reflexivity.
  apply (adv_trans _ _ _ _ _ A01). apply (adv_trans _ _ _ _ _ A12). apply (adv_trans _ _ _ _ _ A23 A34).
Qed.

(* ---------- the tagged-item loop with unknown blocks between the children ---------- *)
Section Compose.
  Variable c : ctx.
  Hypothesis Hc : c_fileid c = O.
  Variable S : spec.
  Variable ftab : list fentry.
  Variable rec : tydef -> ctx -> N -> M value.
  Variable ifuel : nat.
  Variable titems : list titem.
  Variable w : value -> list shape.
  Variable rx : value -> value.

  Lemma loop_unknown_step n kids cms s tB tI u tend ttag rest : Inv s ->
    ps_after s = tB :: tI :: u ++ tend :: ttag :: rest ->
    tk_type tB = TBegin -> tk_type tI = TIdentifier -> find_titem titems (tk_text tI) 0 = None ->
    balanced u -> tk_type tend = TEnd -> tk_type ttag = TIdentifier -> tk_text ttag = tk_text tI ->
    exists s', tagged_loop S rec ifuel (Datatypes.S n) true true titems c kids cms s =
               tagged_loop S rec ifuel n true true titems c kids cms s' /\ adv ([tB; tI] ++ u ++ [tend; ttag]) s s'.
  Proof.
    intros I Ha HB HI Hfind Hu Hte Htt Htag.
    destruct (next_tag_block c s tB tI (u ++ tend :: ttag :: rest) I Ha HB HI) as (off & s1 & E1 & A1).
    cbn [tagged_loop]. rewrite (bind_ok _ _ _ _ _ E1). rewrite Hfind. cbn [andb].
    assert (I1 : Inv s1) by (eapply adv_inv; eassumption).
    assert (Ha1 : ps_after s1 = u ++ tend :: ttag :: rest).
    { pose proof (adv_after _ _ _ A1) as Q. rewrite Ha in Q. cbn [app] in Q. injection Q as Q. symmetry. exact Q. }
    destruct (skip_unknown_block_adv c (tk_text tI) (map (fun ti => bytes_of (ti_tag ti)) titems) s1 u tend ttag rest I1 Hc Hu Hte Htt Htag Ha1)
      as (s2 & E2 & A2).
    rewrite (bind_ok _ _ _ _ _ E2). exists s2. split; [reflexivity|].
    change ([tB; tI] ++ u ++ [tend; ttag]) with ([tB; tI] ++ (u ++ [tend; ttag])). apply (adv_trans _ _ _ _ _ A1 A2).
  Qed.

  (* what stands between /begin PARENT .. and /end PARENT: runs of children and unknown blocks *)
  Inductive seg :=
  | SKids (es : list entry) (ts : list token)
  | SUnknown (tB tI : token) (u : list token) (tend ttag : token).
  Definition seg_tokens (g : seg) : list token :=
    match g with SKids _ ts => ts | SUnknown tB tI u tend ttag => [tB; tI] ++ u ++ [tend; ttag] end.
  Definition seg_entries (g : seg) : list entry := match g with SKids es _ => es | SUnknown _ _ _ _ _ => [] end.
  Definition segs_tokens (l : list seg) : list token := flat_map seg_tokens l.
  Definition segs_entries (l : list seg) : list entry := flat_map seg_entries l.

  Fixpoint segs_fine (l : list seg) (tail : list token) : Prop :=
    match l with
    | [] => True
    | SKids es ts :: r =>
        map shape_of ts = flat_map (fun e : entry => kid_toks (snd (fst e)) (w (snd e))) es /\
        entries_fine S ftab rec titems w rx es (hd_shape (segs_tokens r ++ tail)) /\ segs_fine r tail
    | SUnknown tB tI u tend ttag :: r =>
        tk_type tB = TBegin /\ tk_type tI = TIdentifier /\ find_titem titems (tk_text tI) 0 = None /\
        balanced u /\ tk_type tend = TEnd /\ tk_type ttag = TIdentifier /\ tk_text ttag = tk_text tI /\ segs_fine r tail
    end.

  Lemma kid_toks_length_ge es : (length es <= length (flat_map (fun e : entry => kid_toks (snd (fst e)) (w (snd e))) es))%nat.
  Proof.
    apply (flat_map_length_ge c Hc rec). intros e _. unfold kid_toks. destruct (ti_block (snd (fst e))); discriminate.
  Qed.

  Theorem loop_with_unknown_blocks tail : hd_shape tail = Some (TEnd, end_text) ->
    forall segs kids cms s n, Inv s -> ps_ftab s = ftab -> (length (segs_tokens segs) < n)%nat -> segs_fine segs tail ->
    ps_after s = segs_tokens segs ++ tail ->
    exists kids' s', tagged_loop S rec ifuel n true true titems c kids cms s = (ROk (kids', cms), s') /\ adv (segs_tokens segs) s s' /\
      forall K, map (map erase) kids = map (map erase) K ->
                map (map erase) kids' = map (map erase) (fold_left (place rx) (segs_entries segs) K).
  Proof.
    intros Htail. induction segs as [|g segs IH]; intros kids cms s n I Hf Hn Hfine Ha.
    - cbn in Ha. destruct (loop_frame c Hc S ftab rec ifuel titems true w rx tail Htail [] kids cms [] s n I Hf ltac:(cbn in *; lia) Logic.I eq_refl Ha)
        as (kids' & s' & E & A & HK).
      exists kids', s'. auto.
    - unfold segs_tokens in *. cbn [flat_map] in *. fold (segs_tokens segs) in *. rewrite app_length in Hn. rewrite <- app_assoc in Ha.
      unfold segs_entries. cbn [flat_map]. fold (segs_entries segs).
      destruct g as [es ts | tB tI u tend ttag]; cbn [seg_tokens seg_entries segs_fine] in *.
      + destruct Hfine as (Hm & Hes & Hrest).
        assert (Hlen : (length es <= length ts)%nat).
        { rewrite <- (map_length shape_of ts), Hm. apply kid_toks_length_ge. }
        destruct (loop_cont c Hc S ftab rec ifuel titems true w rx _ es kids cms ts s n (segs_tokens segs ++ tail) I Hf ltac:(lia) Hes Hm Ha eq_refl)
          as (kids1 & s1 & E1 & A1 & HK1).
        assert (I1 : Inv s1) by (eapply adv_inv; eassumption).
        assert (Hf1 : ps_ftab s1 = ftab) by (rewrite (se_ftab _ _ (adv_static _ _ _ A1)); exact Hf).
        assert (Ha1 : ps_after s1 = segs_tokens segs ++ tail).
        { pose proof (adv_after _ _ _ A1) as Q. rewrite Ha in Q. apply app_inv_head in Q. symmetry. exact Q. }
        destruct (IH kids1 cms s1 (n - length es)%nat I1 Hf1 ltac:(lia) Hrest Ha1) as (kids' & s' & E & A & HK).
        exists kids', s'. split; [rewrite E1; exact E|]. split; [apply (adv_trans _ _ _ _ _ A1 A)|].
        intros K HKK. rewrite fold_left_app. apply HK. apply HK1. exact HKK.
      + destruct Hfine as (HB & HI & Hfind & Hu & Hte & Htt & Htag & Hrest).
        destruct n as [|n]; [lia|].
        assert (Ha' : ps_after s = tB :: tI :: u ++ tend :: ttag :: segs_tokens segs ++ tail).
        { rewrite Ha. cbn [app]. rewrite <- app_assoc. reflexivity. }
        destruct (loop_unknown_step n kids cms s tB tI u tend ttag (segs_tokens segs ++ tail) I Ha' HB HI Hfind Hu Hte Htt Htag) as (s1 & E1 & A1).
        assert (I1 : Inv s1) by (eapply adv_inv; eassumption).
        assert (Hf1 : ps_ftab s1 = ftab) by (rewrite (se_ftab _ _ (adv_static _ _ _ A1)); exact Hf).
        assert (Ha1 : ps_after s1 = segs_tokens segs ++ tail).
        { pose proof (adv_after _ _ _ A1) as Q. rewrite Ha in Q. apply app_inv_head in Q. symmetry. exact Q. }
        destruct (IH kids cms s1 n I1 Hf1 ltac:(cbn [length app] in Hn; rewrite !app_length in Hn; cbn [length] in Hn; lia) Hrest Ha1) as (kids' & s' & E & A & HK).
        exists kids', s'. split; [rewrite E1; exact E|]. split; [apply (adv_trans _ _ _ _ _ A1 A)|]. cbn [app]. exact HK.
  Qed.
End Compose.
Print Assumptions loop_with_unknown_blocks.
