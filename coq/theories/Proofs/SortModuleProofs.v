(** C14, the whole module: after sort() the writer lists the children of a MODULE exactly in the canonical order -
    A2ML, MOD_COMMON, MOD_PAR, IF_DATA, then the 20 named kinds in the canonical kind order each sorted by name, then
    USER_RIGHTS sorted by name, then VARIANT_CODING - because sort() hands out strictly increasing uids in that order and
    the writer orders by uid. *)
From Coq Require Import String List ZArith Bool Sorting.Sorted Permutation Lia Arith.
From A2L Require Import Base.Res Base.ListX Base.StableSort Lib.Sort Proofs.SortProofs.
Import ListNotations.
Local Open Scope Z_scope.

Definition uid_lt (a b : el) : Prop := 0 < e_uid a /\ e_uid a < e_uid b.
Definition ranged (lo hi : Z) (l : list el) : Prop :=
  StronglySorted uid_lt l /\ Forall (fun e => lo <= e_uid e < hi) l.

Lemma ranged_nil lo hi : ranged lo hi [].
Proof. split; constructor. Qed.

Lemma ranged_weaken lo hi lo' hi' l : lo' <= lo -> hi <= hi' -> ranged lo hi l -> ranged lo' hi' l.
Proof.
  intros H1 H2 [Hs Hf]. split; [exact Hs|]. eapply Forall_impl; [|exact Hf]. simpl. intros e He. lia.
Qed.

Lemma ranged_app a b c l1 l2 : 1 <= a -> ranged a b l1 -> ranged b c l2 -> a <= b -> b <= c -> ranged a c (l1 ++ l2).
Proof.
  intros Ha [S1 F1] [S2 F2] Hab Hbc. split.
  - induction l1 as [|x r IH]; simpl; [exact S2|].
    inversion S1 as [|? ? Sr Hx]; subst. inversion F1 as [|? ? Fx Fr]; subst.
    constructor; [apply IH; assumption|].
    apply Forall_app. split; [exact Hx|].
    eapply Forall_impl; [|exact F2]. simpl. intros e He. unfold uid_lt. lia.
  - apply Forall_app. split; eapply Forall_impl; try eassumption; simpl; intros e He; lia.
Qed.

Lemma consec_ranged l : forall s, 1 <= s ->
  (forall i e, nth_error l i = Some e -> e_uid e = s + Z.of_nat i) -> ranged s (s + Z.of_nat (length l)) l.
Proof.
  induction l as [|x r IH]; intros s Hs H; [apply ranged_nil|].
  assert (Hx : e_uid x = s) by (rewrite (H 0%nat x eq_refl); simpl; lia).
  assert (IHr : ranged (s + 1) (s + 1 + Z.of_nat (length r)) r).
  { apply IH; [lia|]. intros i e Hi. rewrite (H (S i) e Hi). lia. }
  destruct IHr as [Sr Fr]. split.
  - constructor; [exact Sr|]. eapply Forall_impl; [|exact Fr]. simpl. intros e He. unfold uid_lt. lia.
  - constructor; [simpl length; lia|]. eapply Forall_impl; [|exact Fr]. simpl. intros e He. simpl length. lia.
Qed.

Lemma uid_lt_le_writer a b : uid_lt a b -> le_writer a b = true /\ le_writer b a = false.
Proof.
  unfold uid_lt, le_writer, leb_of, sort_function, cmp_uid_line. intros [Ha Hab].
  assert (E1 : (e_uid a =? 0) = false) by (apply Z.eqb_neq; lia).
  assert (E2 : (e_uid b =? 0) = false) by (apply Z.eqb_neq; lia).
  assert (E3 : (e_uid a =? e_uid b) = false) by (apply Z.eqb_neq; lia).
  assert (E4 : (e_uid b =? e_uid a) = false) by (apply Z.eqb_neq; lia).
  rewrite E1, E2, E3, E4. simpl.
  assert (C1 : (e_uid a ?= e_uid b) = Lt) by (apply Z.compare_lt_iff; lia).
  assert (C2 : (e_uid b ?= e_uid a) = Gt) by (apply Z.compare_gt_iff; lia).
  rewrite C1, C2. auto.
Qed.

(** a list that is a permutation of a strictly uid-increasing list E and sorted for the writer's comparison IS E *)
Lemma perm_sorted_eq : forall E l, StronglySorted uid_lt E -> Permutation l E ->
  StronglySorted (leP le_writer) l -> l = E.
Proof.
  induction E as [|x E' IH]; intros l HE Hp Hl.
  - apply Permutation_nil. symmetry. exact Hp.
  - inversion HE as [|? ? HE' Hx]; subst.
    assert (Hin : In x l) by (eapply Permutation_in; [symmetry; exact Hp | left; reflexivity]).
    apply in_split in Hin. destruct Hin as (l1 & l2 & ->).
    assert (Hp' : Permutation (l1 ++ l2) E').
    { symmetry. eapply Permutation_cons_app_inv. symmetry. exact Hp. }
    destruct l1 as [|y l1'].
    + simpl in *. f_equal. apply IH; [exact HE' | exact Hp' |]. inversion Hl; assumption.
    + exfalso. simpl in Hl. inversion Hl as [|? ? Hl' Hy]; subst.
      assert (Hyx : le_writer y x = true).
      { rewrite Forall_forall in Hy. apply Hy. apply in_or_app. right. left. reflexivity. }
      assert (HyE : In y E') by (eapply Permutation_in; [exact Hp' | left; reflexivity]).
      rewrite Forall_forall in Hx. specialize (Hx y HyE). apply uid_lt_le_writer in Hx. destruct Hx as [_ Hx]. congruence.
Qed.

Theorem writer_sort_is_the_uid_order l E : StronglySorted uid_lt E -> Permutation l E -> ssort le_writer l = E.
Proof.
  intros HE Hp. apply perm_sorted_eq; [exact HE | |].
  - etransitivity; [apply ssort_perm | exact Hp].
  - apply ssort_strongly_sorted; [apply le_writer_total | apply le_writer_trans].
Qed.

(* ---------- numbering hands out consecutive uids ---------- *)
Lemma number_so_spec l : forall s,
  snd (number_so l s) = s + Z.of_nat (length l) /\
  map content (fst (number_so l s)) = map content l /\
  (forall i e, nth_error (fst (number_so l s)) i = Some e -> e_uid e = s + Z.of_nat i).
Proof.
  induction l as [|x r IH]; intros s; cbn [number_so].
  - cbn. split; [lia|]. split; [reflexivity|]. intros [|i] e H; discriminate.
  - specialize (IH (s + 1)). destruct (number_so r (s + 1)) as [r' u'] eqn:E. cbn [fst snd] in *.
    destruct IH as (H1 & H2 & H4).
    split; [rewrite H1; cbn [length]; lia|].
    split; [cbn [map]; f_equal; exact H2|].
    intros i e H. destruct i as [|i]; cbn [nth_error] in H.
    + inversion H; subst. cbn. lia.
    + rewrite (H4 i e H). lia.
Qed.

Lemma map_content_length l1 l2 : map content l1 = map content l2 -> length l1 = length l2.
Proof. intros H. rewrite <- (map_length content l1), H. apply map_length. Qed.

Lemma number_so_ranged l s : 1 <= s ->
  ranged s (snd (number_so l s)) (fst (number_so l s)) /\ s <= snd (number_so l s).
Proof.
  intros Hs. destruct (number_so_spec l s) as (H1 & H2 & H3).
  rewrite H1. rewrite <- (map_content_length _ _ H2). split; [|lia].
  apply consec_ranged; assumption.
Qed.

Lemma sort_full_ranged l s : 1 <= s ->
  ranged s (snd (sort_objectlist_full l s)) (fst (sort_objectlist_full l s)) /\ s <= snd (sort_objectlist_full l s) /\
  map content (fst (sort_objectlist_full l s)) = map content (ssort name_leb l).
Proof.
  intros Hs. unfold sort_objectlist_full.
  destruct (number_from_spec (ssort name_leb l) s) as (H1 & H2 & _ & H3).
  rewrite H1. rewrite <- (map_content_length _ _ H2). split; [|split; [lia | exact H2]].
  apply consec_ranged; [assumption|]. intros i e H. apply (H3 i e H).
Qed.

(* ---------- replacing one list ---------- *)
Lemma nth_replace {A} (L : list (list A)) k x j : (k < length L)%nat ->
  nth j (firstn k L ++ x :: skipn (S k) L) [] = if Nat.eqb j k then x else nth j L [].
Proof.
  revert k j. induction L as [|a L IH]; intros k j Hk; [simpl in Hk; lia|].
  destruct k as [|k]; destruct j as [|j]; try reflexivity.
  simpl in Hk. cbn [firstn skipn app nth Nat.eqb]. apply (IH k j). lia.
Qed.

Lemma length_replace {A} (L : list (list A)) k x : (k < length L)%nat ->
  length (firstn k L ++ x :: skipn (S k) L) = length L.
Proof.
  intros Hk. rewrite app_length, firstn_length. cbn [length]. rewrite skipn_length. lia.
Qed.

Lemma flat_map_ext_in' {A B} (f g : A -> list B) l : (forall a, In a l -> f a = g a) -> flat_map f l = flat_map g l.
Proof.
  induction l as [|a r IH]; intros H; [reflexivity|]. simpl. rewrite (H a (or_introl eq_refl)). f_equal.
  apply IH. intros b Hb. apply H. right. exact Hb.
Qed.

(* ---------- the 20 lists, visited in [order] ---------- *)
Lemma sort_lists_spec : forall order lists uid lists' u', 1 <= uid -> NoDup order ->
  (forall k, In k order -> (k < length lists)%nat) ->
  sort_lists order lists uid = (lists', u') ->
  length lists' = length lists /\ uid <= u' /\
  (forall k, ~ In k order -> nth k lists' [] = nth k lists []) /\
  ranged uid u' (flat_map (fun k => nth k lists' []) order) /\
  map content (flat_map (fun k => nth k lists' []) order) =
  map content (flat_map (fun k => ssort name_leb (nth k lists [])) order).
Proof.
  induction order as [|k r IH]; intros lists uid lists' u' Hu Hnd Hlt H; cbn [sort_lists] in H.
  - inversion H; subst. split; [reflexivity|]. split; [lia|]. split; [reflexivity|]. split; [apply ranged_nil | reflexivity].
  - inversion Hnd as [|? ? Hk Hndr]; subst.
    assert (Hkl : (k < length lists)%nat) by (apply Hlt; left; reflexivity).
    destruct (nth_error lists k) as [l|] eqn:El; [|apply nth_error_None in El; lia].
    destruct (sort_objectlist_full l uid) as [l' u1] eqn:Es.
    destruct (sort_full_ranged l uid Hu) as (R1 & Le1 & C1). rewrite Es in R1, Le1, C1. cbn [fst snd] in *.
    set (lists1 := firstn k lists ++ l' :: skipn (S k) lists) in *.
    assert (Hlen1 : length lists1 = length lists) by (apply length_replace; exact Hkl).
    destruct (IH lists1 u1 lists' u' ltac:(lia) Hndr) as (L2 & Le2 & Keep & R2 & C2).
    { intros j Hj. rewrite Hlen1. apply Hlt. right. exact Hj. }
    { exact H. }
    assert (Hnl : nth k lists [] = l) by (apply nth_error_nth; exact El).
    assert (Hk' : nth k lists' [] = l').
    { rewrite (Keep k Hk). unfold lists1. rewrite nth_replace by exact Hkl. rewrite Nat.eqb_refl. reflexivity. }
    split; [rewrite L2; exact Hlen1|]. split; [lia|]. split; [|split].
    + intros j Hj. rewrite Keep by (intros Hc; apply Hj; right; exact Hc).
      unfold lists1. rewrite nth_replace by exact Hkl.
      destruct (Nat.eqb j k) eqn:Ejk; [apply Nat.eqb_eq in Ejk; subst; exfalso; apply Hj; left; reflexivity | reflexivity].
    + cbn [flat_map]. rewrite Hk'. apply (ranged_app uid u1 u'); try assumption.
    + cbn [flat_map]. rewrite Hk', Hnl, !map_app, C1. f_equal. rewrite C2. f_equal.
      apply flat_map_ext_in'. intros j Hj. unfold lists1. rewrite nth_replace by exact Hkl.
      destruct (Nat.eqb j k) eqn:Ejk; [apply Nat.eqb_eq in Ejk; subst; contradiction | reflexivity].
Qed.

(* ---------- concat is flat_map over the indices ---------- *)
Lemma flat_map_seq_shift {A} (a : list A) L n : forall s,
  flat_map (fun k => nth k (a :: L) []) (seq (S s) n) = flat_map (fun k => nth k L []) (seq s n).
Proof. induction n as [|n IHn]; intros s; [reflexivity|]. cbn [seq flat_map nth]. f_equal. apply IHn. Qed.

Lemma concat_seq {A} (L : list (list A)) : concat L = flat_map (fun k => nth k L []) (seq 0 (length L)).
Proof.
  induction L as [|a L IH]; [reflexivity|]. cbn [length seq flat_map concat nth]. f_equal.
  rewrite IH. symmetry. apply flat_map_seq_shift.
Qed.

Lemma concat_perm_order {A} (L : list (list A)) order : Permutation order (seq 0 (length L)) ->
  Permutation (concat L) (flat_map (fun k => nth k L []) order).
Proof. intros H. rewrite concat_seq. symmetry. apply Permutation_flat_map. exact H. Qed.

Lemma canonical_order_perm : Permutation canonical_order (seq 0 20).
Proof.
  apply NoDup_Permutation_bis.
  - unfold canonical_order. repeat (constructor; [cbn; intuition discriminate|]). constructor.
  - cbn. lia.
  - intros k Hk. cbn in Hk. cbn. intuition.
Qed.

Lemma perm_shuffle {A} (a c i mc mp t f : list A) : Permutation c f ->
  Permutation (a ++ c ++ i ++ mc ++ mp ++ t) (a ++ mc ++ mp ++ i ++ f ++ t).
Proof.
  intros H. apply Permutation_app_head. rewrite H.
  transitivity ((f ++ i) ++ (mc ++ mp) ++ t); [rewrite <- !app_assoc; reflexivity|].
  rewrite Permutation_app_swap_app. rewrite <- !app_assoc. do 2 apply Permutation_app_head.
  apply Permutation_app_swap_app.
Qed.

Lemma opt_ranged (o : option el) u so : 1 <= u -> ranged u (u + 1) (opt_list (option_map (fun e => set_uid_so e u so) o)).
Proof.
  intros Hu. destruct o as [e|]; cbn; [|apply ranged_nil].
  split; [repeat constructor|]. constructor; [cbn; lia | constructor].
Qed.

Lemma opt_content (o : option el) u so :
  map content (opt_list (option_map (fun e => set_uid_so e u so) o)) = map content (opt_list o).
Proof. destruct o; reflexivity. Qed.

(** what the writer prints for a sorted module, element by element *)
Definition canonical_listing (order : list nat) (m : module) : list el :=
  opt_list (m_a2ml m) ++ opt_list (m_mod_common m) ++ opt_list (m_mod_par m) ++ m_if_data m ++
  flat_map (fun k => ssort name_leb (nth k (m_lists m) [])) order ++
  ssort name_leb (m_user_rights m) ++ opt_list (m_variant_coding m).

Theorem sort_module_writer_order_gen order m :
  Permutation order (seq 0 (length (m_lists m))) ->
  StronglySorted uid_lt (writer_order (sort_module order m)) /\
  map content (writer_order (sort_module order m)) = map content (canonical_listing order m).
Proof.
  intros Hperm.
  assert (Hnd : NoDup order) by (eapply Permutation_NoDup; [symmetry; exact Hperm | apply seq_NoDup]).
  assert (Hlt : forall k, In k order -> (k < length (m_lists m))%nat).
  { intros k Hk. eapply Permutation_in in Hk; [|exact Hperm]. apply in_seq in Hk. lia. }
  unfold sort_module.
  destruct (number_so (m_if_data m) 4) as [ifd u1] eqn:Ei.
  destruct (sort_lists order (m_lists m) u1) as [lists u2] eqn:El.
  destruct (number_so (ssort name_leb (m_user_rights m)) u2) as [ur u3] eqn:Eu.
  destruct (number_so_ranged (m_if_data m) 4 ltac:(lia)) as [Ri Li].
  destruct (number_so_spec (m_if_data m) 4) as (_ & Ci & _). rewrite Ei in Ri, Li, Ci. cbn [fst snd] in *.
  destruct (sort_lists_spec order (m_lists m) u1 lists u2 ltac:(lia) Hnd Hlt El) as (Ll & Le2 & _ & Rl & Cl).
  destruct (number_so_ranged (ssort name_leb (m_user_rights m)) u2 ltac:(lia)) as [Ru Lu].
  destruct (number_so_spec (ssort name_leb (m_user_rights m)) u2) as (_ & Cu & _). rewrite Eu in Ru, Lu, Cu. cbn [fst snd] in *.
  set (A := opt_list (option_map (fun e => set_uid_so e 1 1) (m_a2ml m))).
  set (MC := opt_list (option_map (fun e => set_uid_so e 2 2) (m_mod_common m))).
  set (MP := opt_list (option_map (fun e => set_uid_so e 3 2) (m_mod_par m))).
  set (VC := opt_list (option_map (fun e => set_uid_so e u3 2) (m_variant_coding m))).
  set (F := flat_map (fun k => nth k lists []) order).
  set (E := A ++ MC ++ MP ++ ifd ++ F ++ ur ++ VC).
  assert (RE : ranged 1 (u3 + 1) E).
  { unfold E.
    apply (ranged_app 1 2); [lia | apply (opt_ranged _ 1 1); lia | | lia | lia].
    apply (ranged_app 2 3); [lia | apply (opt_ranged _ 2 2); lia | | lia | lia].
    apply (ranged_app 3 4); [lia | apply (opt_ranged _ 3 2); lia | | lia | lia].
    apply (ranged_app 4 u1); [lia | exact Ri | | lia | lia].
    apply (ranged_app u1 u2); [lia | exact Rl | | lia | lia].
    apply (ranged_app u2 u3); [lia | exact Ru | | lia | lia].
    apply opt_ranged. lia. }
  assert (HW : writer_order (mkMod (option_map (fun e => set_uid_so e 1 1) (m_a2ml m))
                 (option_map (fun e => set_uid_so e 2 2) (m_mod_common m))
                 (option_map (fun e => set_uid_so e 3 2) (m_mod_par m))
                 (option_map (fun e => set_uid_so e u3 2) (m_variant_coding m)) ifd ur [] lists) = E).
  { unfold writer_order. apply writer_sort_is_the_uid_order; [apply RE|].
    unfold tgroup. cbn [m_a2ml m_lists m_if_data m_mod_common m_mod_par m_user_rights m_variant_coding].
    fold A MC MP VC. unfold E. apply perm_shuffle. apply concat_perm_order. rewrite Ll. exact Hperm. }
  rewrite HW. split; [apply RE|].
  unfold E, canonical_listing, A, MC, MP, VC, F. rewrite !map_app, !opt_content, Ci, Cl, Cu. reflexivity.
Qed.

Theorem sort_module_writer_order m : length (m_lists m) = 20%nat ->
  StronglySorted uid_lt (writer_order (sort_module canonical_order m)) /\
  map content (writer_order (sort_module canonical_order m)) = map content (canonical_listing canonical_order m).
Proof. intros H. apply sort_module_writer_order_gen. rewrite H. exact canonical_order_perm. Qed.

(* ====================================================================== sorting twice *)
Lemma number_so_ext l : forall s l2, map content l = map content l2 -> map e_line l = map e_line l2 ->
  map e_eo l = map e_eo l2 -> number_so l s = number_so l2 s.
Proof.
  induction l as [|x r IH]; intros s [|y t] Hc Hl He; cbn [map] in *; try discriminate; [reflexivity|].
  unfold content at 1 3 in Hc. injection Hc as Ht Hn Hp Hr. injection Hl as Hlx Hlr. injection He as Hex Her.
  cbn [number_so]. rewrite (IH (s + 1) t Hr Hlr Her). destruct (number_so t (s + 1)). f_equal. f_equal.
  unfold set_uid_so. f_equal; assumption.
Qed.

Lemma number_so_keeps l : forall s,
  map e_line (fst (number_so l s)) = map e_line l /\ map e_eo (fst (number_so l s)) = map e_eo l.
Proof.
  induction l as [|x r IH]; intros s; cbn [number_so]; [split; reflexivity|].
  specialize (IH (s + 1)). destruct (number_so r (s + 1)) as [r' u']. cbn [fst] in *. destruct IH as [H1 H2].
  cbn [map]. rewrite H1, H2. split; reflexivity.
Qed.

Lemma number_so_idem l s : number_so (fst (number_so l s)) s = number_so l s.
Proof.
  destruct (number_so_spec l s) as (_ & Hc & _). destruct (number_so_keeps l s) as [Hl He].
  apply number_so_ext; assumption.
Qed.

Lemma number_so_names_sorted l : forall s,
  Sorted (leP name_leb) l -> Sorted (leP name_leb) (fst (number_so l s)).
Proof.
  induction l as [|x r IH]; intros s Hs; simpl; [constructor|].
  specialize (IH (s + 1)). destruct (number_so r (s + 1)) as [r' u'] eqn:E. simpl in *.
  inversion Hs as [|? ? Hs' Hd]; subst. constructor; [apply IH; exact Hs'|].
  destruct r as [|y t]; simpl in E.
  - inversion E; subst. constructor.
  - destruct (number_so t (s + 1 + 1)) as [t' u''] eqn:E2. inversion E; subst. constructor.
    inversion Hd as [|? ? Hxy]; subst. unfold leP, name_leb in *. simpl. exact Hxy.
Qed.

Lemma sorted_number_so_idem l s :
  number_so (ssort name_leb (fst (number_so (ssort name_leb l) s))) s = number_so (ssort name_leb l) s.
Proof.
  rewrite (ssort_sorted_id name_leb (fst (number_so (ssort name_leb l) s))).
  - apply number_so_idem.
  - apply number_so_names_sorted. apply ssort_sorted. apply name_leb_total.
Qed.

Lemma sort_full_idem_pair l s l' u : sort_objectlist_full l s = (l', u) -> sort_objectlist_full l' s = (l', u).
Proof.
  intros H. pose proof (sort_full_idempotent l s) as Hi. rewrite H in Hi. cbn [fst] in Hi. exact Hi.
Qed.

Lemma replace_same {A} (L : list (list A)) k x : nth_error L k = Some x -> firstn k L ++ x :: skipn (S k) L = L.
Proof.
  revert k. induction L as [|a L IH]; intros [|k] H; cbn in H; try discriminate.
  - inversion H; subst. reflexivity.
  - cbn [firstn skipn app]. f_equal. apply IH. exact H.
Qed.

Lemma sort_lists_keep : forall order lists uid lists' u',
  (forall k, In k order -> (k < length lists)%nat) ->
  sort_lists order lists uid = (lists', u') ->
  length lists' = length lists /\
  (forall k, ~ In k order -> nth_error lists' k = nth_error lists k).
Proof.
  induction order as [|k r IH]; intros lists uid lists' u' Hlt H; cbn [sort_lists] in H.
  - inversion H; subst. split; reflexivity.
  - assert (Hkl : (k < length lists)%nat) by (apply Hlt; left; reflexivity).
    destruct (nth_error lists k) as [l|] eqn:El; [|apply nth_error_None in El; lia].
    destruct (sort_objectlist_full l uid) as [l' u1] eqn:Es.
    pose proof (length_replace lists k l' Hkl) as Hlen1.
    destruct (IH _ _ _ _ ltac:(intros j Hj; rewrite Hlen1; apply Hlt; right; exact Hj) H) as [L2 Keep].
    split; [rewrite L2; exact Hlen1|].
    intros j Hj. rewrite Keep by (intros Hc; apply Hj; right; exact Hc).
    assert (Hjk : j <> k) by (intros ->; apply Hj; left; reflexivity).
    clear - Hjk Hkl. revert k j Hjk Hkl. induction lists as [|a L IHL]; intros k j Hjk Hkl; [simpl in Hkl; lia|].
    destruct k as [|k]; destruct j as [|j]; try reflexivity; try congruence.
    cbn [firstn skipn app nth_error]. apply IHL; [congruence | simpl in Hkl; lia].
Qed.

Lemma nth_error_replace_same {A} (L : list (list A)) k x : (k < length L)%nat ->
  nth_error (firstn k L ++ x :: skipn (S k) L) k = Some x.
Proof.
  revert k. induction L as [|a L IH]; intros k Hk; [simpl in Hk; lia|].
  destruct k as [|k]; [reflexivity|]. cbn [firstn skipn app nth_error]. apply IH. simpl in Hk. lia.
Qed.

Lemma sort_lists_idem : forall order lists uid lists' u', NoDup order ->
  (forall k, In k order -> (k < length lists)%nat) ->
  sort_lists order lists uid = (lists', u') -> sort_lists order lists' uid = (lists', u').
Proof.
  induction order as [|k r IH]; intros lists uid lists' u' Hnd Hlt H; cbn [sort_lists] in *.
  - inversion H; subst. reflexivity.
  - inversion Hnd as [|? ? Hk Hndr]; subst.
    assert (Hkl : (k < length lists)%nat) by (apply Hlt; left; reflexivity).
    destruct (nth_error lists k) as [l|] eqn:El; [|apply nth_error_None in El; lia].
    destruct (sort_objectlist_full l uid) as [l' u1] eqn:Es.
    pose proof (length_replace lists k l' Hkl) as Hlen1.
    assert (Hlt1 : forall j, In j r -> (j < length (firstn k lists ++ l' :: skipn (S k) lists))%nat).
    { intros j Hj. rewrite Hlen1. apply Hlt. right. exact Hj. }
    destruct (sort_lists_keep _ _ _ _ _ Hlt1 H) as [L2 Keep].
    rewrite (Keep k Hk), nth_error_replace_same by exact Hkl.
    rewrite (sort_full_idem_pair _ _ _ _ Es).
    rewrite replace_same by (rewrite (Keep k Hk); apply nth_error_replace_same; exact Hkl).
    apply (IH _ _ _ _ Hndr Hlt1 H).
Qed.

Theorem sort_module_idempotent_gen order m : NoDup order ->
  (forall k, In k order -> (k < length (m_lists m))%nat) ->
  sort_module order (sort_module order m) = sort_module order m.
Proof.
  intros Hnd Hlt. unfold sort_module.
  destruct (number_so (m_if_data m) 4) as [ifd u1] eqn:Ei.
  destruct (sort_lists order (m_lists m) u1) as [lists u2] eqn:El.
  destruct (number_so (ssort name_leb (m_user_rights m)) u2) as [ur u3] eqn:Eu.
  cbn [m_a2ml m_lists m_if_data m_mod_common m_mod_par m_user_rights m_variant_coding].
  pose proof (number_so_idem (m_if_data m) 4) as Hi. rewrite Ei in Hi. cbn [fst] in Hi. rewrite Hi.
  rewrite (sort_lists_idem _ _ _ _ _ Hnd Hlt El).
  pose proof (sorted_number_so_idem (m_user_rights m) u2) as Hu. rewrite Eu in Hu. cbn [fst] in Hu. rewrite Hu.
  f_equal; match goal with |- option_map _ (option_map _ ?o) = _ => destruct o; reflexivity end.
Qed.

Theorem sort_module_idempotent m : length (m_lists m) = 20%nat ->
  sort_module canonical_order (sort_module canonical_order m) = sort_module canonical_order m.
Proof.
  intros H. apply sort_module_idempotent_gen.
  - eapply Permutation_NoDup; [symmetry; exact canonical_order_perm | apply seq_NoDup].
  - intros k Hk. eapply Permutation_in in Hk; [|exact canonical_order_perm]. apply in_seq in Hk. lia.
Qed.

(** sort() only reorders: every list keeps its elements (content untouched), list by list *)
Theorem sort_module_lists_permuted order m : NoDup order ->
  (forall k, In k order -> (k < length (m_lists m))%nat) ->
  forall k, Permutation (map content (nth k (m_lists (sort_module order m)) [])) (map content (nth k (m_lists m) [])).
Proof.
  intros Hnd Hlt k. unfold sort_module.
  destruct (number_so (m_if_data m) 4) as [ifd u1] eqn:Ei.
  destruct (sort_lists order (m_lists m) u1) as [lists u2] eqn:El.
  destruct (number_so (ssort name_leb (m_user_rights m)) u2) as [ur u3] eqn:Eu.
  cbn [m_lists]. clear Ei Eu. revert u1 lists u2 El Hlt. generalize (m_lists m) as L.
  induction order as [|j r IH]; intros L u1 lists u2 El Hlt; cbn [sort_lists] in El.
  - inversion El; subst. reflexivity.
  - inversion Hnd as [|? ? Hj Hndr]; subst.
    assert (Hjl : (j < length L)%nat) by (apply Hlt; left; reflexivity).
    destruct (nth_error L j) as [l|] eqn:E; [|apply nth_error_None in E; lia].
    destruct (sort_objectlist_full l u1) as [l' u1'] eqn:Es.
    pose proof (length_replace L j l' Hjl) as Hlen1.
    rewrite (IH Hndr _ _ _ _ El) by (intros i Hi; rewrite Hlen1; apply Hlt; right; exact Hi).
    rewrite nth_replace by exact Hjl. destruct (Nat.eqb k j) eqn:Ekj; [|reflexivity].
    apply Nat.eqb_eq in Ekj. subst k. rewrite (nth_error_nth _ _ _ E).
    destruct (sort_full_spec l u1) as (Hp & _). rewrite Es in Hp. exact Hp.
Qed.

Theorem sort_module_lists_keep : forall m k, length (m_lists m) = 20%nat ->
  Permutation (map content (nth k (m_lists (sort_module canonical_order m)) [])) (map content (nth k (m_lists m) [])).
Proof.
  intros m k H. apply sort_module_lists_permuted.
  - eapply Permutation_NoDup; [symmetry; exact canonical_order_perm | apply seq_NoDup].
  - intros j Hj. eapply Permutation_in in Hj; [|exact canonical_order_perm]. apply in_seq in Hj. rewrite H.
    destruct Hj as [_ Hj]. exact Hj.
Qed.
