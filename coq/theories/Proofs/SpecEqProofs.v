(** The boolean equality on grammar terms (Gram/Spec.v) is sound: a closed obligation [spec_eqb a b = true] is an
    equality of the terms. *)
From Coq Require Import String List Bool Arith.
From A2L Require Import Gram.Spec.

(* ---------- spec_eqb is sound, so the boolean obligations are equalities of the terms ---------- *)
Lemma ity_eqb_eq a b : ity_eqb a b = true -> a = b.
Proof. destruct a, b; simpl; congruence. Qed.
Lemma version_eqb_eq a b : version_eqb a b = true -> a = b.
Proof. destruct a, b; simpl; congruence. Qed.
Lemma opt_eqb_eq {A} (f : A -> A -> bool) : (forall x y, f x y = true -> x = y) -> forall a b, opt_eqb f a b = true -> a = b.
Proof. intros H [x|] [y|]; simpl; try congruence. intros E. f_equal. apply H, E. Qed.
Lemma list_eqb_eq {A} (f : A -> A -> bool) : (forall x y, f x y = true -> x = y) -> forall a b, list_eqb f a b = true -> a = b.
Proof.
  intros H. induction a as [|x r IH]; intros [|y s]; simpl; try congruence.
  intros E. apply Bool.andb_true_iff in E. destruct E as [E1 E2]. f_equal; [apply H, E1 | apply IH, E2].
Qed.
Lemma bool_eqb_eq a b : Bool.eqb a b = true -> a = b.
Proof. apply Bool.eqb_prop. Qed.
Lemma string_eqb_eq a b : String.eqb a b = true -> a = b.
Proof. apply String.eqb_eq. Qed.

Lemma fty_eqb_eq : forall a b, fty_eqb a b = true -> a = b.
Proof.
  induction a; intros b; destruct b; simpl; try congruence; intros E.
  - f_equal. apply ity_eqb_eq, E.
  - f_equal. apply Nat.eqb_eq, E.
  - f_equal. apply string_eqb_eq, E.
  - f_equal. apply string_eqb_eq, E.
  - apply Bool.andb_true_iff in E. destruct E as [E1 E2]. f_equal; [apply IHa, E1 | apply Nat.eqb_eq, E2].
  - apply Bool.andb_true_iff in E. destruct E as [E1 E2]. f_equal; [apply IHa, E1 | apply (list_eqb_eq _ string_eqb_eq), E2].
Qed.

Ltac split_andb H :=
  repeat match type of H with
         | (_ && _)%bool = true => let H1 := fresh "E" in apply Bool.andb_true_iff in H; destruct H as [H H1]
         end.

Lemma titem_eqb_eq a b : titem_eqb a b = true -> a = b.
Proof.
  destruct a, b. unfold titem_eqb. simpl. intros E.
  repeat (apply Bool.andb_true_iff in E; let X := fresh "X" in destruct E as [E X]).
  f_equal; try (apply string_eqb_eq; assumption); try (apply bool_eqb_eq; assumption);
    try (apply (opt_eqb_eq _ bool_eqb_eq); assumption); try (apply (opt_eqb_eq _ version_eqb_eq); assumption).
Qed.

Lemma item_eqb_eq a b : item_eqb a b = true -> a = b.
Proof.
  destruct a, b; simpl; try congruence; intros E.
  - apply Bool.andb_true_iff in E. destruct E as [E1 E2]. f_equal; [apply string_eqb_eq, E1 | apply fty_eqb_eq, E2].
  - repeat (apply Bool.andb_true_iff in E; let X := fresh "X" in destruct E as [E X]).
    f_equal; [apply bool_eqb_eq; assumption | apply bool_eqb_eq; assumption | apply (list_eqb_eq _ titem_eqb_eq); assumption].
Qed.

Lemma tkind_eqb_eq a b : tkind_eqb a b = true -> a = b.
Proof. destruct a, b; simpl; congruence. Qed.

Lemma enumitem_eqb_eq a b : enumitem_eqb a b = true -> a = b.
Proof.
  destruct a, b. unfold enumitem_eqb. simpl. intros E.
  repeat (apply Bool.andb_true_iff in E; let X := fresh "X" in destruct E as [E X]).
  f_equal; try (apply string_eqb_eq; assumption); try (apply (opt_eqb_eq _ version_eqb_eq); assumption).
Qed.

Lemma tydef_eqb_eq a b : tydef_eqb a b = true -> a = b.
Proof.
  destruct a, b. unfold tydef_eqb. simpl. intros E.
  repeat (apply Bool.andb_true_iff in E; let X := fresh "X" in destruct E as [E X]).
  f_equal; try (apply string_eqb_eq; assumption); try (apply tkind_eqb_eq; assumption);
    try (apply (opt_eqb_eq _ string_eqb_eq); assumption); try (apply bool_eqb_eq; assumption);
    try (apply (list_eqb_eq _ item_eqb_eq); assumption); try (apply (list_eqb_eq _ enumitem_eqb_eq); assumption).
Qed.

Lemma spec_eqb_eq a b : spec_eqb a b = true -> a = b.
Proof. apply (list_eqb_eq _ tydef_eqb_eq). Qed.

