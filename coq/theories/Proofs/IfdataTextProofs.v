(** C18, values survive - through the TEXT.  The byte-level writer of generic IF_DATA (GenericIfData::write, Gram/Writer.v
    [gifd_write]) produces, for every value that conforms to a definition, a text that consists of white space and exactly the
    tokens [ftoks] (Proofs/IfdataFollowProofs.v); so the scanner cuts it into these tokens (Proofs/LexUnitsProofs.v) and the typed
    parser reads the value back (Proofs/IfdataFollowProofs.v): write, scan, parse returns what was written. *)
From Coq Require Import Ascii String List Bool Arith NArith ZArith Lia Sorting.Sorted.
From A2L Require Import Base.StableSort Text.Escape Text.IntText Lex.Tokenizer Gram.Spec A2ml.Types Gram.PState Gram.Parser Gram.Writer Gram.TokWriter
  Proofs.LayoutProofs Proofs.LexUnitsProofs Proofs.WriterUnitsProofs Proofs.CursorProofs Proofs.RoundTripProofs Proofs.TerminationProofs
  Proofs.GroupOrderProofs Proofs.IfdataRoundTripProofs Proofs.IfdataFollowProofs.
Import ListNotations.

(* nesting depth of a value: enough fuel for the writer *)
Fixpoint gdepth (g : gifd) : nat :=
  match g with
  | GArray l | GSequence l | GStruct _ _ l | GBlock _ _ l => S (fold_right (fun x m => Nat.max (gdepth x) m) 0 l)
  | GTaggedStruct tg | GTaggedUnion tg =>
      S (fold_right (fun kv m => Nat.max (fold_right (fun t m' => Nat.max (tdepth t) m') 0 (snd kv)) m) 0 tg)
  | _ => 1
  end
with tdepth (t : gtitem) : nat := match t with GTI _ _ _ _ _ _ data _ => gdepth data end.

Definition info_depth (i : ginfo gifd) : nat := match i with GTag _ _ _ _ _ _ _ data _ => gdepth data | GComment _ _ _ _ _ => 0 end.

Lemma gdepth_pos g : 1 <= gdepth g.
Proof. destruct g; cbn [gdepth]; lia. Qed.

Lemma make_block_depth g i l : gdepth g <= gdepth (make_block g i l).
Proof. destruct g; cbn [make_block gdepth fold_right]; lia. Qed.

Lemma witems_depth tg i : In i (witems tg) -> S (info_depth i) <= gdepth (GTaggedStruct tg).
Proof.
  intros H. unfold witems in H. apply group_order_in in H. apply in_flat_map in H. destruct H as (kv & Hkv & H).
  apply in_map_iff in H. destruct H as (t & <- & Ht). cbn [gdepth].
  pose proof (fold_max_le (fun kv => fold_right (fun t m' => Nat.max (tdepth t) m') 0 (snd kv)) tg kv Hkv) as Q1.
  pose proof (fold_max_le tdepth (snd kv) t Ht) as Q2. cbv beta in Q1.
  destruct t. cbn [ti_info info_depth tdepth] in *. lia.
Qed.

(* the executable form of "every token text is a well-formed token" *)
Lemma token_texts_ok l : forallb token_textb l = true -> Forall token_text l.
Proof. intros H. apply Forall_forall. intros x Hx. apply token_textb_sound. rewrite forallb_forall in H. apply H, Hx. Qed.

Lemma list_depths l n : S (fold_right (fun x m => Nat.max (gdepth x) m) 0 l) <= S n -> Forall (fun g => gdepth g <= n) l.
Proof. intros H. apply Forall_forall. intros x Hx. pose proof (fold_max_le gdepth l x Hx). lia. Qed.

Section Text.
  Variable ftab : list fentry.
  Variable names : list bytes.
  Notation ftoks := (ftoks ftab).
  Notation itoks := (itoks ftab).
  Notation conf := (conf ftab).

  Lemma conf_not_block ty g k : conf ty g k -> match g with GBlock _ _ _ | GNone => False | _ => True end.
  Proof. destruct 1; exact Logic.I. Qed.

  (* the units of one value: its text is white space and exactly its tokens *)
  Definition units_of (text : bytes) (g : gifd) : Prop :=
    exists us, text = render us /\ usnd us = ftoks g /\ Forall ws_ok us.
  Definition extends_by (g : list shape) (o o' : out) : Prop :=
    exists us, extends us o o' /\ usnd us = g /\ Forall ws_ok us.

  Lemma extends_by_nil o : extends_by [] o o.
  Proof. exists []. split; [reflexivity | split; [reflexivity | constructor]]. Qed.
  Lemma extends_by_app a b o o1 o2 : extends_by a o o1 -> extends_by b o1 o2 -> extends_by (a ++ b) o o2.
  Proof.
    intros (u1 & E1 & M1 & W1) (u2 & E2 & M2 & W2). exists (u1 ++ u2).
    split; [eapply extends_trans; eassumption|]. split; [rewrite usnd_app, M1, M2; reflexivity | apply Forall_app; split; assumption].
  Qed.
  Lemma extends_by_token indent off text o ty : extends_by [(ty, text)] o (push text (add_whitespace indent off o)).
  Proof. destruct (token_unit indent off text o (ty, text) eq_refl) as (us & E & M & W & _). exists us. auto. Qed.

  Section WI.
    Variable f : nat.        (* fuel for the content of tagged items *)
    Variable indent : nat.

    (* the local function write_item of gifd_write *)
    Fixpoint wi (n : nat) (g : gifd) (o : out) : out :=
      match n with
      | O => o
      | S n' =>
          match g with
          | GInt variant off v hex => push (add_integer_text (gint_ity variant) v hex) (add_whitespace indent off o)
          | GFloat off bits | GDouble off bits => push (float_text ftab bits) (add_whitespace indent off o)
          | GString off s => push (quoted s) (add_whitespace indent off o)
          | GEnumItem off s => push s (add_whitespace indent off o)
          | GArray items | GSequence items | GStruct _ _ items => fold_left (fun acc it => wi n' it acc) items o
          | GTaggedStruct tg | GTaggedUnion tg =>
              add_group names indent
                (flat_map (fun kv =>
                   map (fun t => match t with
                                 | GTI inc line uid so eo tag data is_block =>
                                     GTag tag inc uid line so eo is_block (gifd_write ftab names f data (S indent)) None
                                 end) (snd kv)) tg) o
          | GNone | GBlock _ _ _ => o
          end
      end.

    Lemma gifd_write_eq g : gifd_write ftab names (S f) g indent =
      finish (match g with
              | GStruct _ _ items | GBlock _ _ items => fold_left (fun acc it => wi (S f) it acc) items empty_out
              | _ => wi (S f) g empty_out
              end).
    Proof. reflexivity. Qed.

    Definition wtext (d : gifd) : bytes := gifd_write ftab names f d (S indent).

    Lemma group_payload (tg : list (bytes * list gtitem)) :
      flat_map (fun kv => map (fun t => match t with
                                        | GTI inc line uid so eo tag data is_block =>
                                            GTag tag inc uid line so eo is_block (gifd_write ftab names f data (S indent)) None
                                        end) (snd kv)) tg
      = map (gmap wtext) (flat_map (fun kv => map ti_info (snd kv)) tg).
    Proof.
      induction tg as [|kv r IH]; [reflexivity|]. cbn [flat_map]. rewrite map_app, IH. f_equal.
      rewrite map_map. apply map_ext. intros []. reflexivity.
    Qed.

    (* what is known about the content of the tagged items one level down *)
    Hypothesis IHf : forall ty g k ind, conf ty g k -> gdepth g <= f -> units_of (gifd_write ftab names f g ind) g.

    Lemma block_text g i l ind : match g with GBlock _ _ _ | GNone => False | _ => True end ->
      gifd_write ftab names f (make_block g i l) ind = gifd_write ftab names f g ind.
    Proof. destruct f; [reflexivity|]. destruct g; intros H; try destruct H; reflexivity. Qed.

    (* the items of a tagged struct, in the order of the group writer *)
    Lemma emit_gifd spec : forall its k, conf_items ftab conf spec its k -> Forall (fun i => info_depth i <= f) its ->
      forall o, extends_by (flat_map itoks its) o (emit_group names indent (map (gmap wtext) its) [] o).
    Proof.
      intros its k H. induction H as [k|i its k H1 H2 IH]; intros Hd o; [apply extends_by_nil|].
      inversion Hd as [|? ? D1 D2]; subst. destruct H1 as [tag uid line so eo isb t g binc bline k0 Hfind Hblk Hconf].
      cbn [info_depth] in D1.
      assert (Hg : gdepth g <= f) by (pose proof (make_block_depth g binc bline); lia).
      destruct (IHf _ g _ (S indent) Hconf Hg) as (usd & Et & Md & Wd).
      assert (Etext : wtext (make_block g binc bline) = render usd).
      { unfold wtext. rewrite (block_text g binc bline (S indent) (conf_not_block _ _ _ Hconf)). exact Et. }
      cbn [map gmap emit_group flat_map]. rewrite !Etext.
      unfold itoks at 1. cbn [gmap item_toks]. rewrite ftoks_make_block, <- Md.
      set (sp := [" "%char]).
      assert (Hsp : ws_text sp) by (split; [discriminate | repeat constructor]).
      destruct isb; cbv iota.
      - destruct (add_ws_units indent so o) as (ws1 & Hw1 & E1 & _).
        set (o1 := track_line_comment (render usd) (push (bytes_of "/begin " ++ tag ++ render usd) (add_whitespace indent so o))).
        destruct (add_ws_units indent eo o1) as (ws2 & Hw2 & E2 & _).
        set (o2 := push (bytes_of "/end " ++ tag) (add_whitespace indent eo o1)).
        destruct (IH D2 o2) as (usr & Er & Mr & Wr).
        exists ([(ws1, (TBegin, begin_text)); (sp, (TIdentifier, tag))] ++ usd ++ [(ws2, (TEnd, end_text)); (sp, (TIdentifier, tag))] ++ usr).
        split; [|split].
        + unfold extends in *. rewrite Er. unfold o2. rewrite push_fst, E2. unfold o1. rewrite track_fst, push_fst, E1.
          rewrite !render_app. cbn [render flat_map fst snd]. rewrite !app_nil_r.
          rewrite !rev_app_distr. rewrite <- !app_assoc. reflexivity.
        + rewrite !usnd_app, !usnd_cons, ?usnd_nil, Mr. cbn [fst snd app]. rewrite <- app_assoc. reflexivity.
        + apply Forall_app. split; [constructor; [exact Hw1 | constructor; [exact Hsp | constructor]]|]. apply Forall_app. split; [exact Wd|].
          apply Forall_app. split; [constructor; [exact Hw2 | constructor; [exact Hsp | constructor]] | exact Wr].
      - destruct (add_ws_units indent so o) as (ws1 & Hw1 & E1 & _).
        set (o1 := track_line_comment (render usd) (push ([] ++ tag ++ render usd) (add_whitespace indent so o))).
        destruct (IH D2 o1) as (usr & Er & Mr & Wr).
        exists ([(ws1, (TIdentifier, tag))] ++ usd ++ usr).
        split; [|split].
        + unfold extends in *. rewrite Er. unfold o1. rewrite track_fst, push_fst, E1.
          rewrite !render_app. cbn [render flat_map fst snd app]. rewrite !app_nil_r.
          rewrite !rev_app_distr. rewrite <- !app_assoc. reflexivity.
        + rewrite !usnd_app, !usnd_cons, ?usnd_nil, Mr. reflexivity.
        + apply Forall_app. split; [constructor; [exact Hw1 | constructor]|]. apply Forall_app. split; assumption.
    Qed.

    Section Lists.
      Variable n : nat.
      Hypothesis IHn : forall ty g k o, conf ty g k -> gdepth g <= n -> extends_by (ftoks g) o (wi n g o).

      Lemma all_units item : forall l k, conf_all ftab conf item l k -> Forall (fun g => gdepth g <= n) l ->
        forall o, extends_by (flat_map ftoks l) o (fold_left (fun acc it => wi n it acc) l o).
      Proof.
        intros l k H. induction H as [k|g gs k H1 H2 IH]; intros Hd o; [apply extends_by_nil|].
        inversion Hd; subst. cbn [flat_map fold_left]. eapply extends_by_app; [eapply IHn; eassumption | apply IH; assumption].
      Qed.
      Lemma seq_units : forall tys l k, conf_seq ftab conf tys l k -> Forall (fun g => gdepth g <= n) l ->
        forall o, extends_by (flat_map ftoks l) o (fold_left (fun acc it => wi n it acc) l o).
      Proof.
        intros tys l k H. induction H as [k|ty g tys gs k H1 H2 IH]; intros Hd o; [apply extends_by_nil|].
        inversion Hd; subst. cbn [flat_map fold_left]. eapply extends_by_app; [eapply IHn; eassumption | apply IH; assumption].
      Qed.
    End Lists.

    Lemma wi_units : forall n ty g k o, n <= S f -> conf ty g k -> gdepth g <= n -> extends_by (ftoks g) o (wi n g o).
    Proof.
      induction n as [|n IH]; intros ty g k o Hn Hconf Hd; [pose proof (gdepth_pos g); lia|].
      assert (IHn : forall ty g k o, conf ty g k -> gdepth g <= n -> extends_by (ftoks g) o (wi n g o))
        by (intros; eapply IH; [lia | eassumption | assumption]).
      destruct Hconf as [ty variant t off z hex k Hi Hr|off bits k Hok|off bits k Hok|dim off str k|items off e k He
                        |item dim l k Hne Hlen Hall|items inc l k Hall|item l k Hall Hnn Hst|spec tg k Hits Hst Hre|spec k Hst|spec t k Hit];
        cbn [wi]; try (cbn [IfdataFollowProofs.ftoks]; apply extends_by_token).
      - cbn [gdepth IfdataFollowProofs.ftoks] in *. exact (all_units n IHn item l k Hall (list_depths l n Hd) o).
      - cbn [gdepth IfdataFollowProofs.ftoks] in *. exact (seq_units n IHn items l k Hall (list_depths l n Hd) o).
      - cbn [gdepth IfdataFollowProofs.ftoks] in *. exact (all_units n IHn item l k Hall (list_depths l n Hd) o).
      - (* tagged struct *)
        change (IfdataFollowProofs.ftoks ftab (GTaggedStruct tg)) with (flat_map item_toks (group_order (flat_map (fun kv => map (ti_toks ftab) (snd kv)) tg))).
        rewrite ftoks_tagged. unfold add_group. rewrite group_payload, group_order_map.
        apply (emit_gifd spec (witems tg) k Hits).
        apply Forall_forall. intros i Hi. pose proof (witems_depth tg i Hi). lia.
      - (* tagged union without an item *)
        change (IfdataFollowProofs.ftoks ftab (GTaggedUnion [])) with (@nil shape). apply extends_by_nil.
      - (* tagged union with its item *)
        assert (Et : IfdataFollowProofs.ftoks ftab (GTaggedUnion [(ti_tag t, [t])]) = flat_map itoks [ti_info t])
          by (destruct t; cbn; rewrite ?app_nil_r; reflexivity).
        assert (Ew : witems [(ti_tag t, [t])] = [ti_info t]) by (destruct t; reflexivity).
        rewrite Et. unfold add_group. rewrite group_payload, group_order_map. fold (witems [(ti_tag t, [t])]). rewrite Ew.
        apply (emit_gifd spec [ti_info t] k).
        + constructor; [cbn [flat_map app]; exact Hit | constructor].
        + constructor; [|constructor]. pose proof (witems_depth [(ti_tag t, [t])] (ti_info t) ltac:(rewrite Ew; left; reflexivity)) as Q.
          cbn [gdepth] in Hd, Q. lia.
    Qed.
  End WI.

  (** the text of a conforming value is white space and exactly its tokens *)
  Theorem gifd_write_units : forall f ty g k indent, conf ty g k -> gdepth g <= f -> units_of (gifd_write ftab names f g indent) g.
  Proof.
    induction f as [|f IH]; intros ty g k indent Hconf Hd; [pose proof (gdepth_pos g); lia|].
    rewrite gifd_write_eq.
    assert (W : forall n ty g k o, n <= S f -> conf ty g k -> gdepth g <= n -> extends_by (ftoks g) o (wi f indent n g o)).
    { intros n ty0 g0 k0 o Hn C0 D0. apply (wi_units f indent (fun ty g k ind C D => IH ty g k ind C D) n ty0 g0 k0 o Hn C0 D0). }
    assert (Fin : forall o, extends_by (ftoks g) empty_out o -> units_of (finish o) g).
    { intros o (us & E & M & Wk). exists us. split; [apply finish_extends; exact E | split; assumption]. }
    pose proof (conf_not_block _ _ _ Hconf) as Hnb.
    destruct g; try destruct Hnb; try (apply Fin; apply (W (S f) ty _ k); [apply le_n | exact Hconf | exact Hd]).
    (* a struct at the top: its members are written one by one *)
    inversion Hconf as [| | | | | |tys inc' l' k' Hall| | | |]; subst.
    apply Fin. cbn [gdepth IfdataFollowProofs.ftoks] in *.
    apply (seq_units f indent (S f) (fun ty g k o C D => W (S f) ty g k o (le_n _) C D) tys items k Hall).
    apply Forall_forall. intros x Hx. pose proof (fold_max_le gdepth items x Hx). lia.
  Qed.

  (* ---------- the token texts of a conforming value are well-formed when the names of the definition are ---------- *)
  (* every tag and every enumeration item of the definition is an identifier *)
  Fixpoint def_ok (ty : a2mlty) : Prop :=
    match ty with
    | TArray i _ | TSequence i => def_ok i
    | TEnum items => Forall (fun p => ident_text (fst p)) items
    | TStruct l => fold_right (fun t P => def_ok t /\ P) True l
    | TTaggedStruct l | TTaggedUnion l =>
        fold_right (fun t P => match t with Tagged tag _ _ i => ident_text tag /\ def_ok i end /\ P) True l
    | _ => True
    end.
  (* the float texts of the oracle table are number tokens *)
  Definition floats_wf : Prop :=
    forall bits, float_ok ftab bits = true \/ double_ok ftab bits = true -> number_text (float_text ftab bits).

  Lemma Forall_flat_map {A B} (P : B -> Prop) (f : A -> list B) l : (forall x, In x l -> Forall P (f x)) -> Forall P (flat_map f l).
  Proof.
    induction l as [|x r IH]; intros H; [constructor|]. cbn [flat_map]. apply Forall_app. split; [apply H; left; reflexivity|].
    apply IH. intros y Hy. apply H. right. exact Hy.
  Qed.

  Lemma enum_has_in items e : enum_has items e = true -> exists p, In p items /\ fst p = e.
  Proof.
    induction items as [|[k v] r IH]; cbn [enum_has]; [discriminate|]. intros H. apply orb_true_iff in H. destruct H as [H|H].
    - apply MergeProofs.bytes_eqb_eq in H. exists (k, v). split; [left; reflexivity | exact H].
    - destruct (IH H) as (p & Hp & E). exists p. split; [right; exact Hp | exact E].
  Qed.

  Lemma def_ok_tagged spec t : fold_right (fun t P => match t with Tagged tag _ _ i => ident_text tag /\ def_ok i end /\ P) True spec ->
    In t spec -> ident_text (tg_tag t) /\ def_ok (tg_item t).
  Proof.
    induction spec as [|x r IH]; [intros _ []|]. cbn [fold_right]. intros [H1 H2] [<-|Hin]; [destruct x; exact H1 | apply IH; assumption].
  Qed.
  Lemma def_ok_struct l t : fold_right (fun t P => def_ok t /\ P) True l -> In t l -> def_ok t.
  Proof. induction l as [|x r IH]; [intros _ []|]. cbn [fold_right]. intros [H1 H2] [<-|Hin]; [exact H1 | apply IH; assumption]. Qed.

  Section TT.
    Hypothesis Hfl : floats_wf.
    Variable n : nat.
    Hypothesis IHn : forall ty g k, gdepth g <= n -> def_ok ty -> conf ty g k -> Forall token_text (ftoks g).

    Lemma all_tt item : def_ok item -> forall l k, conf_all ftab conf item l k -> Forall (fun g => gdepth g <= n) l -> Forall token_text (flat_map ftoks l).
    Proof.
      intros Hd l k H. induction H as [k|g gs k H1 H2 IH]; intros Hl; [constructor|]. inversion Hl; subst. cbn [flat_map].
      apply Forall_app. split; [eapply IHn; eassumption | apply IH; assumption].
    Qed.
    Lemma seq_tt : forall tys l k, conf_seq ftab conf tys l k -> fold_right (fun t P => def_ok t /\ P) True tys ->
      Forall (fun g => gdepth g <= n) l -> Forall token_text (flat_map ftoks l).
    Proof.
      intros tys l k H. induction H as [k|ty g tys gs k H1 H2 IH]; intros Hd Hl; [constructor|]. inversion Hl; subst. cbn [flat_map fold_right] in *.
      destruct Hd as [D1 D2]. apply Forall_app. split; [eapply IHn; eassumption | apply IH; assumption].
    Qed.
    Lemma item_tt spec i k : fold_right (fun t P => match t with Tagged tag _ _ i => ident_text tag /\ def_ok i end /\ P) True spec ->
      conf_item conf spec i k -> info_depth i <= n -> Forall token_text (itoks i).
    Proof.
      intros Hd H Hi. destruct H as [tag uid line so eo isb t g binc bline k0 Hfind Hblk Hconf].
      destruct (find_tagged_in _ _ _ Hfind) as (Hin & Htag). destruct (def_ok_tagged spec t Hd Hin) as (Hid & Hdi). rewrite Htag in Hid.
      cbn [info_depth] in Hi. pose proof (make_block_depth g binc bline) as Q.
      assert (Hg : Forall token_text (ftoks g)) by (eapply IHn; [lia | exact Hdi | exact Hconf]).
      unfold IfdataFollowProofs.itoks. cbn [gmap item_toks]. rewrite ftoks_make_block.
      destruct isb.
      - constructor; [reflexivity|]. constructor; [exact Hid|]. apply Forall_app. split; [exact Hg|].
        constructor; [reflexivity|]. constructor; [exact Hid | constructor].
      - constructor; [exact Hid | exact Hg].
    Qed.
    Lemma items_tt spec : fold_right (fun t P => match t with Tagged tag _ _ i => ident_text tag /\ def_ok i end /\ P) True spec ->
      forall its k, conf_items ftab conf spec its k -> Forall (fun i => info_depth i <= n) its -> Forall token_text (flat_map itoks its).
    Proof.
      intros Hd its k H. induction H as [k|i its k H1 H2 IH]; intros Hl; [constructor|]. inversion Hl; subst. cbn [flat_map].
      apply Forall_app. split; [eapply item_tt; eassumption | apply IH; assumption].
    Qed.
  End TT.

  Theorem conforming_tokens_are_well_formed : floats_wf -> forall n ty g k, gdepth g <= n -> def_ok ty -> conf ty g k -> Forall token_text (ftoks g).
  Proof.
    intros Hfl. induction n as [|n IH]; intros ty g k Hd Hok Hconf; [pose proof (gdepth_pos g); lia|].
    destruct Hconf as [ty variant t off z hex k Hi Hr|off bits k Hok'|off bits k Hok'|dim off str k|items off e k He
                      |item dim l k Hne Hlen Hall|items inc l k Hall|item l k Hall Hnn Hst|spec tg k Hits Hst Hre|spec k Hst|spec t k Hit].
    - cbn [IfdataFollowProofs.ftoks]. constructor; [apply integer_text_is_number_token | constructor].
    - cbn [IfdataFollowProofs.ftoks]. constructor; [apply Hfl; left; exact Hok' | constructor].
    - cbn [IfdataFollowProofs.ftoks]. constructor; [apply Hfl; right; exact Hok' | constructor].
    - cbn [IfdataFollowProofs.ftoks]. constructor; [exists str; reflexivity | constructor].
    - cbn [IfdataFollowProofs.ftoks]. constructor; [|constructor]. cbn [def_ok] in Hok. destruct (enum_has_in items e He) as (p & Hp & <-).
      rewrite Forall_forall in Hok. exact (Hok p Hp).
    - cbn [IfdataFollowProofs.ftoks gdepth def_ok] in *. exact (all_tt n IH item Hok l k Hall (list_depths l n Hd)).
    - cbn [IfdataFollowProofs.ftoks gdepth def_ok] in *. exact (seq_tt n IH items l k Hall Hok (list_depths l n Hd)).
    - cbn [IfdataFollowProofs.ftoks gdepth def_ok] in *. exact (all_tt n IH item Hok l k Hall (list_depths l n Hd)).
    - change (IfdataFollowProofs.ftoks ftab (GTaggedStruct tg)) with (flat_map item_toks (group_order (flat_map (fun kv => map (ti_toks ftab) (snd kv)) tg))).
      rewrite ftoks_tagged. cbn [def_ok] in Hok. apply (items_tt n IH spec Hok (witems tg) k Hits).
      apply Forall_forall. intros i Hi. pose proof (witems_depth tg i Hi). lia.
    - change (IfdataFollowProofs.ftoks ftab (GTaggedUnion [])) with (@nil shape). constructor.
    - assert (Et : IfdataFollowProofs.ftoks ftab (GTaggedUnion [(ti_tag t, [t])]) = itoks (ti_info t))
        by (destruct t; cbn; rewrite ?app_nil_r; reflexivity).
      rewrite Et. cbn [def_ok] in Hok. apply (item_tt n IH spec (ti_info t) k Hok Hit).
      assert (Ew : witems [(ti_tag t, [t])] = [ti_info t]) by (destruct t; reflexivity).
      pose proof (witems_depth [(ti_tag t, [t])] (ti_info t) ltac:(rewrite Ew; left; reflexivity)) as Q. cbn [gdepth] in Hd, Q. lia.
  Qed.

  Lemma units_ok' (us : list unit) : Forall ws_ok us -> Forall token_text (usnd us) -> Forall unit_ok us.
  Proof.
    induction us as [|u us IH]; intros Hw Ht; [constructor|]. inversion Hw; subst. rewrite usnd_cons in Ht. inversion Ht; subst.
    constructor; [split; assumption | apply IH; assumption].
  Qed.

  (** write, scan, parse: the content of an IF_DATA block comes back as the value that was written *)
  Theorem ifdata_content_roundtrip f F ty g tag indent c :
    conf ty g [(TEnd, end_text); (TIdentifier, tag)] -> gdepth g <= f -> ty_depth ty <= F -> c_fileid c = O ->
    Forall token_text (ftoks g) -> ident_text tag ->
    exists toks g' s',
      tokenize_core 0 (gifd_write ftab names f g indent ++ bytes_of " /end " ++ tag) = TOk toks /\
      parse_ifdata_item F ty c (init_state toks false 1 ftab) = (ROk g', s') /\
      map shape_of (ps_after s') = [(TEnd, end_text); (TIdentifier, tag)] /\ ev g' = ev g.
  Proof.
    intros Hconf Hd HF Hc Ht Htag.
    destruct (gifd_write_units f ty g _ indent Hconf Hd) as (us & E & M & W).
    set (sp := [" "%char]).
    assert (Hsp : ws_text sp) by (split; [discriminate | repeat constructor]).
    set (cl := [(sp, (TEnd, "/"%char :: b_end)); (sp, (TIdentifier, tag))] : list unit).
    set (us' := us ++ cl).
    assert (Hr : render us' = gifd_write ftab names f g indent ++ bytes_of " /end " ++ tag).
    { unfold us'. rewrite render_app, E. cbn [render flat_map fst snd cl]. rewrite app_nil_r. reflexivity. }
    assert (Hok : Forall unit_ok us').
    { unfold us'. apply Forall_app. split.
      - apply units_ok'; [exact W | rewrite M; exact Ht].
      - constructor; [split; [exact Hsp | reflexivity]|]. constructor; [split; [exact Hsp | exact Htag]|]. constructor. }
    destruct (tokenize_units 0 us' Hok) as (toks & E1 & M1 & Fid). rewrite Hr in E1.
    destruct (tokenize_lines_monotone 0 _ toks E1) as [Hmono Hge].
    assert (Hshapes : map shape_of toks = ftoks g ++ [(TEnd, end_text); (TIdentifier, tag)]).
    { rewrite M1. unfold us'. change (map snd (us ++ cl)) with (usnd (us ++ cl)).
      rewrite usnd_app, M. reflexivity. }
    destruct (map_app_split _ _ _ _ Hshapes) as (ts & rest & Etoks & Mts & Mrest).
    assert (Hne : toks <> []).
    { intros ->. symmetry in Etoks. apply app_eq_nil in Etoks. destruct Etoks as [_ ->]. discriminate. }
    set (s := init_state toks false 1 ftab).
    assert (Htoks : Forall tok_ok toks).
    { apply Forall_forall. intros t Hin. rewrite Forall_forall in Fid, Hge. unfold tok_ok.
      assert (Hsh : In (shape_of t) (map snd us')) by (rewrite <- M1; apply in_map; exact Hin).
      apply in_map_iff in Hsh. destruct Hsh as (u & Hu & Hinu). rewrite Forall_forall in Hok. destruct (Hok u Hinu) as [_ Htt].
      rewrite Hu in Htt. split; [apply Fid; exact Hin|]. split.
      - intros Hcm. unfold token_text, shape_of in Htt. cbn [fst] in Htt. rewrite Hcm in Htt. exact Htt.
      - split; [apply (token_text_nonempty (shape_of t) Htt) | apply Hge; exact Hin]. }
    assert (I : Inv s).
    { constructor; cbn.
      - reflexivity.
      - exact Htoks.
      - exact Hmono.
      - destruct toks as [|t0 r]; [congruence|]. exists (tk_line t0). split; [reflexivity|]. inversion Hge; assumption.
      - reflexivity.
      - reflexivity.
      - lia. }
    destruct (conforming_content_is_read_back_with_follow ftab F ty g _ c Hc HF Hconf s ts rest I eq_refl Etoks Mts Mrest) as (g' & s' & Ep & A & Ev).
    exists toks, g', s'. split; [exact E1|]. split; [exact Ep|]. split; [|exact Ev].
    pose proof (adv_after _ _ _ A) as Q. cbn [ps_after s init_state] in Q. rewrite Etoks in Q. apply app_inv_head in Q. rewrite <- Q. exact Mrest.
  Qed.

  (** the same with the premise on the DEFINITION: its tags and enumeration items are identifiers *)
  Corollary ifdata_content_roundtrip_of_definition f F ty g tag indent c :
    floats_wf -> def_ok ty -> ident_text tag ->
    conf ty g [(TEnd, end_text); (TIdentifier, tag)] -> gdepth g <= f -> ty_depth ty <= F -> c_fileid c = O ->
    exists toks g' s',
      tokenize_core 0 (gifd_write ftab names f g indent ++ bytes_of " /end " ++ tag) = TOk toks /\
      parse_ifdata_item F ty c (init_state toks false 1 ftab) = (ROk g', s') /\
      map shape_of (ps_after s') = [(TEnd, end_text); (TIdentifier, tag)] /\ ev g' = ev g.
  Proof.
    intros Hfl Hdef Htag Hconf Hd HF Hc.
    exact (ifdata_content_roundtrip f F ty g tag indent c Hconf Hd HF Hc (conforming_tokens_are_well_formed Hfl f ty g _ Hd Hdef Hconf) Htag).
  Qed.
End Text.
Print Assumptions gifd_write_units.
Print Assumptions ifdata_content_roundtrip.
Print Assumptions conforming_tokens_are_well_formed.
Print Assumptions ifdata_content_roundtrip_of_definition.
