(** The id counter never decreases: [smono m] for every function of Gram/PState.v and Gram/Parser.v.  (The ids that
    the parser hands out are what the writer orders the children of a block by; Proofs/ParseOrderProofs.v.)  The proofs
    follow Proofs/StrictWholeProofs.v function by function. *)
From Coq Require Import Ascii String List Bool NArith ZArith Lia.
From A2L Require Import Text.Escape Text.IntText Lex.Tokenizer Gram.Spec A2ml.Types Gram.PState Gram.Parser Proofs.StrictWholeProofs.
Import ListNotations.
Local Open Scope N_scope.

Definition smono {A} (m : M A) : Prop := forall s r s', m s = (r, s') -> ps_seq s <= ps_seq s'.

Lemma smono_still {A} (m : M A) : (forall s, ps_seq (snd (m s)) = ps_seq s) -> smono m.
Proof. intros H s r s' E. specialize (H s). rewrite E in H. cbn [snd] in H. rewrite H. apply N.le_refl. Qed.
Lemma smono_ext {A} (m m' : M A) : (forall s, m s = m' s) -> smono m' -> smono m.
Proof. intros Hx H s r s' E. rewrite Hx in E. exact (H s r s' E). Qed.

Lemma smono_ret {A} (a : A) : smono (ret a).
Proof. apply smono_still. reflexivity. Qed.
Lemma smono_fail {A} d : smono (@fail A d).
Proof. apply smono_still. reflexivity. Qed.
Lemma smono_panic {A} x : smono (@panic A x).
Proof. apply smono_still. reflexivity. Qed.
Lemma smono_fuel {A} : smono (@out_of_fuel A).
Proof. apply smono_still. reflexivity. Qed.

Lemma smono_bind {A B} (m : M A) (f : A -> M B) : smono m -> (forall a, smono (f a)) -> smono (bindM m f).
Proof.
  intros Hm Hf s r s' E. unfold bindM in E. destruct (m s) as [r1 s1] eqn:E1. pose proof (Hm s r1 s1 E1) as H1.
  destruct r1 as [a| | |]; try (injection E as _ <-; exact H1).
  pose proof (Hf a s1 r s' E) as H2. lia.
Qed.
Lemma smono_try {A} (m : M A) : smono m -> smono (try m).
Proof.
  intros Hm s r s' E. unfold try in E. destruct (m s) as [r1 s1] eqn:E1. pose proof (Hm s r1 s1 E1) as H1.
  destruct r1; injection E as _ <-; exact H1.
Qed.

Lemma smono_error_or_log d : smono (error_or_log d).
Proof. apply smono_still. intros s. unfold error_or_log. destruct (ps_strict s); reflexivity. Qed.
Lemma smono_log_warning d : smono (log_warning d).
Proof. apply smono_still. reflexivity. Qed.
Lemma smono_mk_diag v c k : smono (mk_diag v c k).
Proof. apply smono_still. intros s. unfold mk_diag. destruct (Nat.ltb (c_fileid c) (ps_nfiles s)); reflexivity. Qed.
Lemma smono_reads {B} (g : pstate -> B) : (forall s b, g (set_strict b s) = g s) -> smono (reads g).
Proof. intros _. apply smono_still. reflexivity. Qed.
Lemma smono_read {A B} (g : pstate -> B) (k : B -> M A) :
  (forall s b, g (set_strict b s) = g s) -> (forall x, smono (k x)) -> smono (fun s => k (g s) s).
Proof. intros _ Hk s r s' E. exact (Hk (g s) s r s' E). Qed.
Lemma smono_get_tokenpos : smono get_tokenpos.
Proof. apply smono_still. reflexivity. Qed.
Lemma smono_set_tokenpos n : smono (set_tokenpos n).
Proof.
  apply smono_still. intros s. unfold set_tokenpos.
  destruct (if Nat.leb n (ps_pos s) then move_back (ps_pos s - n) (ps_before s) (ps_after s)
            else move_fwd (n - ps_pos s) (ps_before s) (ps_after s)) as [x y]. reflexivity.
Qed.
Lemma smono_peek : smono peek_token.
Proof. apply smono_still. reflexivity. Qed.
Lemma smono_cursor_next : smono cursor_next.
Proof. apply smono_still. intros s. unfold cursor_next. destruct (ps_after s); reflexivity. Qed.
Lemma smono_undo : smono undo_get_token.
Proof. apply smono_still. intros s. unfold undo_get_token. destruct (ps_before s); reflexivity. Qed.
Lemma smono_get_next_id : smono get_next_id.
Proof. intros s r s' E. unfold get_next_id in E. injection E as _ <-. cbn [ps_seq upd_seq]. lia. Qed.
Lemma smono_get_incfilename f : smono (get_incfilename f).
Proof. apply smono_still. reflexivity. Qed.
Lemma smono_remaining : smono remaining.
Proof. apply smono_still. reflexivity. Qed.
Lemma smono_get_specs : smono get_specs.
Proof. apply smono_still. reflexivity. Qed.
Lemma smono_push_spec t : smono (push_spec t).
Proof. apply smono_still. reflexivity. Qed.
Lemma smono_set_file_version v : smono (set_file_version v).
Proof. apply smono_still. reflexivity. Qed.
Lemma smono_set_kept k : smono (fun s => (ROk tt, upd_kept s k)).
Proof. apply smono_still. reflexivity. Qed.
Lemma smono_get_line_offset : smono get_line_offset.
Proof.
  apply smono_still. intros s. unfold get_line_offset.
  destruct (ps_before s) as [|cur [|p r]]; destruct (ps_after s) as [|x a].
  1-5: destruct (ps_first_line s) as [l|]; [destruct (N.leb 1 l)|]; reflexivity.
  destruct (find_prev (p :: r) (ps_pos s - 2) (ps_kept s)) as [[prev prev_pos]|]; [|reflexivity].
  repeat match goal with |- context [if ?c then _ else _] => destruct c end; reflexivity.
Qed.
Lemma smono_get_token c : smono (get_token c).
Proof.
  intros s r s' E. unfold get_token in E. destruct (ps_after s).
  - assert (M1 : smono (bindM (eof_diag c) (@fail token))) by (apply smono_bind; [apply smono_mk_diag | intros; apply smono_fail]).
    exact (M1 s r s' E).
  - injection E as _ <-. apply N.le_refl.
Qed.

Lemma smono_eof_diag c : smono (eof_diag c).
Proof. apply smono_mk_diag. Qed.
Global Hint Resolve smono_eof_diag : smono.
Global Hint Resolve smono_ret smono_fail smono_panic smono_fuel smono_error_or_log smono_log_warning smono_mk_diag
  smono_get_tokenpos smono_set_tokenpos smono_peek smono_cursor_next smono_undo smono_get_next_id smono_get_incfilename
  smono_remaining smono_get_specs smono_push_spec smono_set_file_version smono_get_line_offset smono_get_token : smono.
Global Hint Extern 1 (smono (reads _)) => apply smono_reads; reflexivity : smono.

Ltac sm :=
  repeat first
    [ solve [auto with smono]
    | match goal with |- smono (?F _ _) => is_fix F; fail 2 end
    | apply smono_try
    | apply smono_bind; [|intro; cbv beta]
    | match goal with
      | |- smono (match ?x with _ => _ end) => destruct x
      | |- smono (let '(_, _) := ?x in _) => destruct x
      end ].

(* ---------- PState.v ---------- *)
Lemma smono_expect_loop c ty : forall fuel, smono (expect_loop fuel c ty).
Proof. induction fuel as [|f IH]; cbn [expect_loop]; sm. Qed.
Global Hint Resolve smono_expect_loop : smono.

Lemma smono_expect_token c ty : smono (expect_token c ty).
Proof.
  apply (smono_read (fun s => length (ps_after s)) (fun n => expect_loop (S n) c ty)); [reflexivity|].
  intros n. apply smono_expect_loop.
Qed.
Global Hint Resolve smono_expect_token : smono.

Lemma smono_get_identifier c : smono (get_identifier c).
Proof. unfold get_identifier. sm. Qed.
Global Hint Resolve smono_get_identifier : smono.

Lemma smono_get_string c : smono (get_string c).
Proof.
  unfold get_string. sm.
Qed.
Global Hint Resolve smono_get_string : smono.

Lemma smono_get_string_maxlen c n : smono (get_string_maxlen c n).
Proof. unfold get_string_maxlen. sm. Qed.
Lemma smono_get_integer t c : smono (get_integer t c).
Proof. unfold get_integer. sm. Qed.
Global Hint Resolve smono_get_string_maxlen smono_get_integer : smono.

Global Hint Extern 1 (smono (reads _)) => apply smono_reads; reflexivity : smono.

Lemma smono_get_double c : smono (get_double c).
Proof.
  unfold get_double. sm.
  apply (smono_ext _ (bindM (reads (fun s => find_fentry (ps_ftab s) (tk_text a))) (fun x => match x with
           | Some e => if fe_ok e && (fe_bits e mod 2 ^ 63 <? 0x7FF0000000000000)%N then ret (fe_bits e)
                       else bindM (mk_diag "MalformedNumber" c (tk_text a)) fail
           | None => panic "float oracle: lexeme missing from the table" end))).
  - intros s. unfold bindM, reads. destruct (find_fentry (ps_ftab s) (tk_text a)) as [e|]; [|reflexivity].
    destruct (fe_ok e && _); reflexivity.
  - sm.
Qed.

Lemma smono_get_float c : smono (get_float c).
Proof.
  unfold get_float. sm.
  apply (smono_ext _ (bindM (reads (fun s => find_fentry (ps_ftab s) (tk_text a))) (fun x => match x with
           | Some e => if fe_ok32 e && ((fe_bits32 e mod 2 ^ 63 <? 0x7FF0000000000000)%N || starts_0x (tk_text a))
                       then ret (fe_bits32 e)
                       else bindM (mk_diag "MalformedNumber" c (tk_text a)) fail
           | None => panic "float oracle: lexeme missing from the table" end))).
  - intros s. unfold bindM, reads. destruct (find_fentry (ps_ftab s) (tk_text a)) as [e|]; [|reflexivity].
    destruct (fe_ok32 e && _); reflexivity.
  - sm.
Qed.
Global Hint Resolve smono_get_double smono_get_float : smono.

Lemma smono_version_cond {A} (p : version -> bool) (m1 m2 : M A) :
  smono m1 -> smono m2 -> smono (fun s => if p (ps_ver s) then m1 s else m2 s).
Proof.
  intros H1 H2. apply (smono_ext _ (fun s => (fun b : bool => if b then m1 else m2) (p (ps_ver s)) s)).
  - intros s. cbv beta. destruct (p (ps_ver s)); reflexivity.
  - apply (smono_read (fun s => p (ps_ver s)) (fun b : bool => if b then m1 else m2)); [reflexivity|].
    intros [|]; assumption.
Qed.

Lemma smono_check_block_version_lower c tag v : smono (check_block_version_lower c tag v).
Proof.
  unfold check_block_version_lower.
  apply (smono_version_cond (fun x => version_ltb x v) (bindM (mk_diag "BlockRefTooNew" c tag) error_or_log) (ret tt)); sm.
Qed.
Lemma smono_check_block_version_upper c tag v : smono (check_block_version_upper c tag v).
Proof.
  unfold check_block_version_upper.
  apply (smono_version_cond (fun x => version_ltb v x) (bindM (mk_diag "BlockRefDeprecated" c tag) log_warning) (ret tt)); sm.
Qed.
Lemma smono_check_enumitem_version_lower c tag v : smono (check_enumitem_version_lower c tag v).
Proof.
  unfold check_enumitem_version_lower.
  apply (smono_version_cond (fun x => version_ltb x v) (bindM (mk_diag "EnumRefTooNew" c tag) error_or_log) (ret tt)); sm.
Qed.
Lemma smono_check_enumitem_version_upper c tag v : smono (check_enumitem_version_upper c tag v).
Proof.
  unfold check_enumitem_version_upper.
  apply (smono_version_cond (fun x => version_ltb v x) (bindM (mk_diag "EnumRefDeprecated" c tag) log_warning) (ret tt)); sm.
Qed.
Global Hint Resolve smono_check_block_version_lower smono_check_block_version_upper
  smono_check_enumitem_version_lower smono_check_enumitem_version_upper : smono.

Lemma smono_require_block tag b c : smono (require_block tag b c).
Proof. unfold require_block. sm. Qed.
Lemma smono_require_keyword tag b c : smono (require_keyword tag b c).
Proof. unfold require_keyword. sm. Qed.
Lemma smono_handle_multiplicity c tag b : smono (handle_multiplicity_error c tag b).
Proof. unfold handle_multiplicity_error. sm. Qed.
Global Hint Resolve smono_require_block smono_require_keyword smono_handle_multiplicity : smono.

Lemma smono_get_next_tag_or_comment c : smono (get_next_tag_or_comment c).
Proof.
  unfold get_next_tag_or_comment. sm.
  apply smono_set_kept.
Qed.
Global Hint Resolve smono_get_next_tag_or_comment : smono.

Lemma smono_unknown_loop c errc tag isb stop : forall fuel bal, smono (unknown_loop fuel c errc tag isb stop bal).
Proof. induction fuel as [|f IH]; intros bal; cbn [unknown_loop]; sm. Qed.
Global Hint Resolve smono_unknown_loop : smono.

Lemma smono_handle_unknown c tag isb stop : smono (handle_unknown_taggedstruct_tag c tag isb stop).
Proof.
  unfold handle_unknown_taggedstruct_tag. sm.
  match goal with
  | |- smono (fun s => unknown_loop (S (length (ps_after s))) ?c ?e ?t ?b ?st ?bal s) =>
      apply (smono_read (fun s => length (ps_after s)) (fun n => unknown_loop (S n) c e t b st bal));
      [reflexivity | intros n; apply smono_unknown_loop]
  end.
Qed.
Global Hint Resolve smono_handle_unknown : smono.

(* ---------- Parser.v: enumerations, uninterpreted IF_DATA ---------- *)
Lemma smono_parse_enum td c : smono (parse_enum td c).
Proof. unfold parse_enum. sm. Qed.
Global Hint Resolve smono_parse_enum : smono.

Lemma smono_skip_comments c : forall fuel, smono (skip_comments fuel c).
Proof. induction fuel as [|f IH]; cbn [skip_comments]; sm. Qed.
Global Hint Resolve smono_skip_comments : smono.

(* an anonymous loop (fix loop n acc := ..) applied to its fuel and accumulator: induction on the fuel *)
Ltac loop_induction_s :=
  match goal with
  | |- smono (?F ?n ?acc) =>
      is_fix F;
      let L := fresh "L" in
      assert (L : forall k x, smono (F k x));
      [ let k := fresh "k" in let IHk := fresh "IHk" in
        induction k as [|k IHk]; intros ?x; cbn beta iota
      | apply L ]
  end.

Lemma smono_unknown : forall fuel,
  (forall c b, smono (unknown_ifdata fuel c b)) /\ (forall c, smono (unknown_taggedstruct fuel c)).
Proof.
  induction fuel as [|f [IH1 IH2]]; [split; intros; cbn; sm|].
  split.
  - intros c b. cbn [unknown_ifdata]. sm; loop_induction_s; sm.
  - intros c. cbn [unknown_taggedstruct]. sm; loop_induction_s; sm.
Qed.

Lemma smono_unknown_ifdata fuel c b : smono (unknown_ifdata fuel c b).
Proof. apply smono_unknown. Qed.
Lemma smono_unknown_taggedstruct fuel c : smono (unknown_taggedstruct fuel c).
Proof. apply smono_unknown. Qed.
Global Hint Resolve smono_unknown_ifdata smono_unknown_taggedstruct : smono.

Lemma smono_unknown_ifdata_start fuel c : smono (unknown_ifdata_start fuel c).
Proof. unfold unknown_ifdata_start. sm. Qed.
Global Hint Resolve smono_unknown_ifdata_start : smono.

(* ---------- the type-directed IF_DATA parser ---------- *)
Lemma smono_int_item v t c : smono (int_item v t c).
Proof. unfold int_item. sm. Qed.
Global Hint Resolve smono_int_item : smono.

Section Item.
  Variable rec : a2mlty -> ctx -> M gifd.
  Hypothesis Hrec : forall ty c, smono (rec ty c).

  Lemma smono_array_items ty c : forall n, smono (array_items rec n ty c).
  Proof. induction n as [|n IH]; cbn [array_items]; sm. Qed.
  Lemma smono_struct_items c : forall tys, smono (struct_items rec tys c).
  Proof. induction tys as [|ty r IH]; cbn [struct_items]; sm. Qed.
  Lemma smono_seq_items ty c : forall n acc, smono (seq_items rec n ty c acc).
  Proof. induction n as [|n IH]; intros acc; cbn [seq_items]; sm. Qed.
  Lemma smono_tagged_item spec c : smono (tagged_item rec spec c).
  Proof. unfold tagged_item. sm. Qed.
  Hint Resolve smono_tagged_item : smono.
  Lemma smono_taggedstruct_items spec c : forall n acc, smono (taggedstruct_items rec n spec c acc).
  Proof. induction n as [|n IH]; intros acc; cbn [taggedstruct_items]; sm. Qed.
  Hint Resolve smono_array_items smono_struct_items smono_seq_items smono_taggedstruct_items : smono.
  Lemma smono_item_step ty c : smono (item_step rec ty c).
  Proof. unfold item_step. sm. Qed.
End Item.

Lemma smono_parse_ifdata_item : forall fuel ty c, smono (parse_ifdata_item fuel ty c).
Proof.
  induction fuel as [|f IH]; intros ty c; cbn [parse_ifdata_item]; [sm|].
  apply smono_item_step. exact IH.
Qed.
Global Hint Resolve smono_parse_ifdata_item : smono.

Lemma smono_parse_ifdata_from_spec sp c : smono (parse_ifdata_from_spec sp c).
Proof. unfold parse_ifdata_from_spec. sm. Qed.
Global Hint Resolve smono_parse_ifdata_from_spec : smono.

Lemma smono_first_spec c : forall specs, smono (first_spec specs c).
Proof. induction specs as [|sp r IH]; cbn [first_spec]; sm. Qed.
Global Hint Resolve smono_first_spec : smono.

Lemma smono_parse_ifdata specs fuel c : smono (parse_ifdata specs fuel c).
Proof. unfold parse_ifdata. sm. Qed.
Lemma smono_end_tag_check c e : smono (end_tag_check c e).
Proof. unfold end_tag_check. sm. Qed.
Global Hint Resolve smono_parse_ifdata smono_end_tag_check : smono.

(* ---------- the generic element parser ---------- *)
Section Elem.
  Variable S : spec.
  Variable rec : tydef -> ctx -> N -> M value.
  Variable ifdata_fuel : nat.
  Hypothesis Hrec : forall td c off, smono (rec td c off).

  Lemma smono_parse_scalar_field ty c : smono (parse_scalar_field S rec ty c).
  Proof. unfold parse_scalar_field. sm. Qed.
  Hint Resolve smono_parse_scalar_field : smono.
  Lemma smono_parse_n ty c : forall n, smono (parse_n S rec n ty c).
  Proof. induction n as [|n IH]; cbn [parse_n]; sm. Qed.
  Lemma smono_parse_seq ty stop c : forall n acc, smono (parse_seq S rec n ty stop c acc).
  Proof. induction n as [|n IH]; intros acc; cbn [parse_seq]; sm. Qed.
  Hint Resolve smono_parse_n smono_parse_seq : smono.
  Lemma smono_parse_field ty c : smono (parse_field S rec ty c).
  Proof. unfold parse_field. sm. Qed.
  Hint Resolve smono_parse_field : smono.

  Lemma smono_a2ml_oracle txt newc :
    smono (fun s => match a2ml_lookup txt (ps_a2ml s) with
                   | Some (Some ty, _) => push_spec ty s
                   | Some (None, msg) => bindM (mk_diag "A2mlError" newc msg) error_or_log s
                   | None => (RPanic "a2ml oracle: text not in the table", s)
                   end).
  Proof.
    apply (smono_ext _ (bindM (reads (fun s => a2ml_lookup txt (ps_a2ml s))) (fun x => match x with
             | Some (Some ty, _) => push_spec ty
             | Some (None, msg) => bindM (mk_diag "A2mlError" newc msg) error_or_log
             | None => panic "a2ml oracle: text not in the table" end))).
    - intros s. unfold bindM, reads. destruct (a2ml_lookup txt (ps_a2ml s)) as [[[ty|] msg]|]; reflexivity.
    - sm.
  Qed.
  Hint Resolve smono_a2ml_oracle : smono.

  Lemma smono_parse_special_or_generic td newc off : smono (parse_special_or_generic rec ifdata_fuel td newc off).
  Proof. unfold parse_special_or_generic. sm. Qed.
  Hint Resolve smono_parse_special_or_generic : smono.

  Lemma smono_tagged_loop pb last items c : forall n kids cms, smono (tagged_loop S rec ifdata_fuel n pb last items c kids cms).
  Proof. induction n as [|n IH]; intros kids cms; cbn [tagged_loop]; sm. Qed.
  Lemma smono_multiplicity_check c : forall items kids, smono (multiplicity_check items kids c).
  Proof. induction items as [|ti ir IH]; intros [|k kr]; cbn [multiplicity_check]; sm. Qed.
  Hint Resolve smono_tagged_loop smono_multiplicity_check : smono.
  Lemma smono_parse_items isb c : forall its fields kids cms, smono (parse_items S rec ifdata_fuel its isb c fields kids cms).
  Proof. induction its as [|it r IH]; intros fields kids cms; cbn [parse_items]; sm. Qed.
  Hint Resolve smono_parse_items : smono.
  Lemma smono_parse_body td c off : smono (parse_body S rec ifdata_fuel td c off).
  Proof. unfold parse_body. sm. Qed.
End Elem.

Lemma smono_parse_ty S ifuel : forall fuel td c off, smono (parse_ty fuel S ifuel td c off).
Proof.
  induction fuel as [|f IH]; intros td c off; cbn [parse_ty]; [sm|].
  apply smono_parse_body. exact IH.
Qed.
Global Hint Resolve smono_parse_ty : smono.

Lemma smono_parse_version fuel S c : smono (parse_version fuel S c).
Proof.
  unfold parse_version. sm.
Qed.
Global Hint Resolve smono_parse_version : smono.

Lemma smono_additional_tokens token :
  smono (fun s => if Nat.ltb (tk_fileid token) (ps_nfiles s)
                 then error_or_log (mkDiag "AdditionalTokensError" (Some (ps_last s)) (tk_fileid token) (tk_text token)) s
                 else (RPanic "parser.rs: filenames[token.fileid]", s)).
Proof.
  apply (smono_ext _ (bindM (reads (fun s => (Nat.ltb (tk_fileid token) (ps_nfiles s), ps_last s))) (fun x =>
           if fst x then error_or_log (mkDiag "AdditionalTokensError" (Some (snd x)) (tk_fileid token) (tk_text token))
           else panic "parser.rs: filenames[token.fileid]"))).
  - intros s. unfold bindM, reads. cbn [fst snd]. destruct (Nat.ltb (tk_fileid token) (ps_nfiles s)); reflexivity.
  - sm.
Qed.
Global Hint Resolve smono_additional_tokens : smono.

Theorem smono_parse_file S : smono (parse_file S).
Proof.
  apply (smono_ext _ (bindM (reads (fun s => (length (ps_after s), match ps_after s with t :: _ => tk_line t | [] => 1%N end)))
           (fun x =>
              let fuel := Datatypes.S (Datatypes.S (fst x)) in
              let c := mkCtx (bytes_of "A2L_FILE") 0 (snd x) in
              ver <-- parse_version fuel S c ;;
              set_file_version ver ;;;
              match lookup_ty S "A2lFile" with
              | None => panic "spec: A2lFile"
              | Some td =>
                  file <-- parse_ty fuel S fuel td c 0 ;;
                  pk <-- peek_token ;;
                  match pk with
                  | Some token =>
                      (fun s => if Nat.ltb (tk_fileid token) (ps_nfiles s)
                                then error_or_log (mkDiag "AdditionalTokensError" (Some (ps_last s)) (tk_fileid token) (tk_text token)) s
                                else (RPanic "parser.rs: filenames[token.fileid]", s)) ;;;
                      ret file
                  | None => ret file
                  end
              end))).
  - intros s. reflexivity.
  - cbv zeta. sm.
Qed.

