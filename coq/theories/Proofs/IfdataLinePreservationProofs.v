(** C05 for IF_DATA content that a definition describes: read it with the typed parser, write the value, scan the written text -
    every token stands on the line it had in the input, relative to the token in front of the content.  Composition of
    Proofs/IfdataLinesProofs.v (stored offsets = line differences), Proofs/IfdataWriteLinesProofs.v (that many line breaks are
    written) and the tokenizer's line count on texts of white space and tokens (Proofs/LexUnitsProofs.v), exactly as
    Proofs/LinePreservationProofs.v does it for the generic elements.  The value conditions are those of the two halves: the run
    reports nothing; the value conforms to the definition (for the writer's half) with well-formed token texts; the tags behind
    /begin and /end stand on the line of their /begin and /end ([inline], the layout class of the property). *)
From Coq Require Import Ascii String List Bool Arith NArith ZArith Lia Sorting.Sorted.
From A2L Require Import Base.StableSort Text.Escape Text.IntText Lex.Tokenizer Gram.Spec A2ml.Types Gram.PState Gram.Parser Gram.Writer Gram.TokWriter
  Proofs.LayoutProofs Proofs.LexUnitsProofs Proofs.WriterUnitsProofs Proofs.CursorProofs Proofs.RoundTripProofs Proofs.LineOffsetProofs
  Proofs.ParseTraceProofs Proofs.LinePreservationProofs Proofs.IfdataFollowProofs Proofs.IfdataTextProofs Proofs.IfdataLinesProofs Proofs.IfdataWriteLinesProofs
  Proofs.IfdataTraceProofs Proofs.IfdataWriteAnyProofs Proofs.IfdataShapeProofs.
Import ListNotations.
Local Open Scope N_scope.

Section IfdLines.
  Variable ftab : list fentry.
  Variable names : list bytes.

  Lemma cums_length l offs : length (cums l offs) = length offs.
  Proof. revert l. induction offs as [|o r IH]; intros l; [reflexivity|]. cbn [cums length]. rewrite IH. reflexivity. Qed.

  Theorem ifdata_lines_preserved f F ty c s g s' k indent :
    c_fileid c = O -> Inv s -> first_ok s -> (ty_depth ty <= F)%nat ->
    parse_ifdata_item F ty c s = (ROk g, s') -> ps_log s' = ps_log s -> ps_after s' <> [] ->
    conf ftab ty g k -> (gdepth g <= f)%nat -> Forall token_text (ftoks ftab g) ->
    exists ts toks',
      adv ts s s' /\
      tokenize_core 0 (gifd_write ftab names f g indent) = TOk toks' /\
      map shape_of toks' = ftoks ftab g /\
      (inline (prevl s) ts (goffs g) -> Forall2 (fun t' t => tk_line t' + prevl s = tk_line t + 1) toks' ts).
  Proof.
    intros Hc I Hfo HF E L Hne Hconf Hd Htt.
    destruct (typed_ifdata_offsets_are_line_differences F ty c Hc HF s g s' I Hfo E L Hne) as (ts & A & Ln).
    destruct (gifd_write_lines ftab names f ty g k indent Hconf Hd) as (us & o' & Et & Ex & M & W & Nn).
    assert (Htu : Forall token_text (usnd us)) by (rewrite M; exact Htt).
    destruct (Nn eq_refl Htu) as [_ Mn].
    destruct (tokenize_units_lines 0 us (units_all_ok' us W Htu)) as (toks' & E1 & M1 & L1).
    exists ts, toks'. split; [exact A|]. split; [rewrite Et, (finish_extends us _ Ex); exact E1|]. split; [rewrite M1; exact M|].
    intros Hin.
    pose proof (lines_cums _ _ _ Ln Hin (adv_mono _ _ _ I A)) as Hlines.
    assert (Hrel : map (fun x => x + prevl s) (map tk_line toks') = map (fun x => x + 1) (map tk_line ts)).
    { rewrite L1, ulines_cums, Mn, Hlines, !cums_shift. f_equal. lia. }
    clear - Hrel. revert Hrel. generalize ts. induction toks' as [|t' r IH]; intros l H; destruct l as [|t q]; try discriminate; [constructor|].
    cbn [map] in H. injection H as H1 H2. constructor; [exact H1 | apply IH; exact H2].
  Qed.

  (** the same without a conformance premise: whatever the typed parser returned from a run that reports nothing is written, token by
      token, as it was read ([reads_as]) and on the lines it was read from *)
  Theorem ifdata_read_write_scan f F ty c s g s' indent :
    c_fileid c = O -> Inv s -> first_ok s -> ps_ftab s = ftab -> (ty_depth ty <= F)%nat ->
    parse_ifdata_item F ty c s = (ROk g, s') -> ps_log s' = ps_log s -> ps_after s' <> [] ->
    (gdepth g <= f)%nat -> Forall token_text (ftoks ftab g) ->
    exists ts toks',
      adv ts s s' /\
      tokenize_core 0 (gifd_write ftab names f g indent) = TOk toks' /\
      Forall2 (reads_as ftab) ts (map shape_of toks') /\
      (inline (prevl s) ts (goffs g) -> Forall2 (fun t' t => tk_line t' + prevl s = tk_line t + 1) toks' ts).
  Proof.
    intros Hc I Hfo Hf HF E L Hne Hd Htt.
    destruct (typed_ifdata_offsets_are_line_differences F ty c Hc HF s g s' I Hfo E L Hne) as (ts & A & Ln).
    destruct (typed_ifdata_is_written_as_it_was_read ftab F ty c Hc HF s g s' I Hf E L) as (ts0 & A0 & R0).
    assert (Ets : ts0 = ts).
    { pose proof (adv_after _ _ _ A) as Q1. pose proof (adv_after _ _ _ A0) as Q2. rewrite Q1 in Q2. apply app_inv_tail in Q2. symmetry. exact Q2. }
    subst ts0.
    pose proof (typed_ifdata_result_shape F ty c Hc HF s g s' I E) as Hw.
    destruct (gifd_write_any ftab names f g indent (or_intror Hw) Hd) as (us & o' & Et & Ex & M & W & Nn).
    assert (Htu : Forall token_text (usnd us)) by (rewrite M; exact Htt).
    destruct (Nn eq_refl Htu) as [_ Mn].
    destruct (tokenize_units_lines 0 us (units_all_ok' us W Htu)) as (toks' & E1 & M1 & L1).
    exists ts, toks'. split; [exact A|]. split; [rewrite Et, (finish_extends us _ Ex); exact E1|].
    split; [change (map shape_of toks') with (map tshape toks'); rewrite M1; change (map snd us) with (usnd us); rewrite M; exact R0|].
    intros Hin.
    pose proof (lines_cums _ _ _ Ln Hin (adv_mono _ _ _ I A)) as Hlines.
    assert (Hrel : map (fun x => x + prevl s) (map tk_line toks') = map (fun x => x + 1) (map tk_line ts)).
    { rewrite L1, ulines_cums, Mn, Hlines, !cums_shift. f_equal. lia. }
    clear - Hrel. revert Hrel. generalize ts. induction toks' as [|t' r IH]; intros l H; destruct l as [|t q]; try discriminate; [constructor|].
    cbn [map] in H. injection H as H1 H2. constructor; [exact H1 | apply IH; exact H2].
  Qed.
End IfdLines.
Print Assumptions ifdata_lines_preserved.
Print Assumptions ifdata_read_write_scan.
