(** C01, the syntactic half of the round trip, for every grammar: the generic parser (Gram/Parser.v), run on any token
    list whose token types and texts are the ones the writer produces for a value ([wtoks], Gram/TokWriter.v), rebuilds
    that value - up to layout, with the children of every tagged group regrouped in the order they were written
    ([reorder]) - and stops exactly behind it.  Conditions: [confb] (no comments, includes, A2ML, IF_DATA; values in
    range; sequences end where the grammar can see it), non-strict mode, one file, lines that do not decrease. *)
From Coq Require Import Ascii String List Bool NArith ZArith Lia Sorting.Sorted.
From A2L Require Import Base.StableSort Text.Escape Text.IntText Lex.Tokenizer Gram.Spec A2ml.Types Gram.PState Gram.Parser
  Gram.Writer Gram.TokWriter Proofs.EscapeProofs Proofs.IntTextProofs Proofs.MergeProofs Proofs.CursorProofs Proofs.SpecEqProofs.
Import ListNotations.
Local Open Scope N_scope.

Lemma singleton_inj {A} (a b : A) : [a] = [b] -> a = b.
Proof. intros H. injection H as H. exact H. Qed.

Definition hd_shape (l : list token) : option shape := match l with t :: _ => Some (shape_of t) | [] => None end.

Definition soft (m : M unit) : Prop := forall s, Inv s -> exists s', m s = (ROk tt, s') /\ adv [] s s'.

Lemma soft_ret : soft (ret tt).
Proof. intros s I. exists s. split; [reflexivity | apply adv_refl, (inv_pos s I)]. Qed.

Lemma soft_bind (m : M unit) (k : M unit) : soft m -> soft k -> soft (m ;;; k).
Proof.
  intros Hm Hk s I. destruct (Hm s I) as (s1 & E1 & A1).
  destruct (Hk s1 (adv_inv _ _ _ I A1)) as (s2 & E2 & A2).
  exists s2. split; [rewrite (bind_ok _ _ _ _ _ E1); exact E2 | exact (adv_trans _ _ _ _ _ A1 A2)].
Qed.

Section RT.
  Variable c : ctx.
  Hypothesis Hc : c_fileid c = O.

  Lemma soft_diag_log variant key : soft (d <-- mk_diag variant c key ;; error_or_log d).
  Proof. intros s I. apply diag_log_fine; assumption. Qed.

  Lemma soft_diag_warn variant key : soft (d <-- mk_diag variant c key ;; log_warning d).
  Proof.
    intros s I. destruct (mk_diag_fine c Hc variant key s I) as [d Hd]. rewrite (bind_ok _ _ _ _ _ Hd).
    apply log_warning_fine. exact I.
  Qed.

  Lemma soft_enum_lower tag v : soft (check_enumitem_version_lower c tag v).
  Proof.
    intros s I. unfold check_enumitem_version_lower. destruct (version_ltb (ps_ver s) v).
    - apply (soft_diag_log "EnumRefTooNew" tag s I).
    - exists s. split; [reflexivity | apply adv_refl, (inv_pos s I)].
  Qed.
  Lemma soft_enum_upper tag v : soft (check_enumitem_version_upper c tag v).
  Proof.
    intros s I. unfold check_enumitem_version_upper. destruct (version_ltb v (ps_ver s)).
    - apply (soft_diag_warn "EnumRefDeprecated" tag s I).
    - exists s. split; [reflexivity | apply adv_refl, (inv_pos s I)].
  Qed.
  Lemma soft_block_lower tag v : soft (check_block_version_lower c tag v).
  Proof.
    intros s I. unfold check_block_version_lower. destruct (version_ltb (ps_ver s) v).
    - apply (soft_diag_log "BlockRefTooNew" tag s I).
    - exists s. split; [reflexivity | apply adv_refl, (inv_pos s I)].
  Qed.
  Lemma soft_block_upper tag v : soft (check_block_version_upper c tag v).
  Proof.
    intros s I. unfold check_block_version_upper. destruct (version_ltb v (ps_ver s)).
    - apply (soft_diag_warn "BlockRefDeprecated" tag s I).
    - exists s. split; [reflexivity | apply adv_refl, (inv_pos s I)].
  Qed.
  Lemma soft_multiplicity tag b : soft (handle_multiplicity_error c tag b).
  Proof. unfold handle_multiplicity_error. destruct b; [apply soft_diag_log | apply soft_ret]. Qed.

  (* ---------- one token, one scalar ---------- *)
  Lemma get_identifier_fine s t r : Inv s -> ps_after s = t :: r -> tk_type t = TIdentifier ->
    exists s', get_identifier c s = (ROk (tk_text t), s') /\ adv [t] s s'.
  Proof.
    intros I H Ht. destruct (expect_fine c TIdentifier s t r I H Ht) as (s1 & E1 & A1).
    unfold get_identifier. rewrite (bind_ok _ _ _ _ _ E1).
    destruct (tok_ok_after s t r I H) as (_ & _ & Hne & _).
    destruct (tk_text t) as [|ch tl] eqn:Etx; [congruence|]. cbn [first_is_digit].
    assert (I1 : Inv s1) by (eapply adv_inv; eassumption).
    destruct (is_digit ch || Nat.ltb MAX_IDENT (length (ch :: tl))).
    - destruct (soft_diag_log "InvalidIdentifier" (ch :: tl) s1 I1) as (s2 & E2 & A2).
      exists s2. rewrite (bind_ok _ _ _ _ _ E2). split; [reflexivity|].
      apply (adv_trans [t] [] _ _ _ A1 A2).
    - exists s1. split; [reflexivity | exact A1].
  Qed.

  Lemma get_identifier_wrong s t r : Inv s -> ps_after s = t :: r -> tk_type t <> TIdentifier ->
    exists d s', get_identifier c s = (RErr d, s') /\ adv [t] s s'.
  Proof.
    intros I H Ht. destruct (expect_wrong c Hc TIdentifier s t r I H Ht) as (d & s1 & E1 & A1).
    exists d, s1. split; [|exact A1]. unfold get_identifier. apply bind_err. exact E1.
  Qed.
  Lemma get_identifier_eof s : Inv s -> ps_after s = [] -> exists d, get_identifier c s = (RErr d, s).
  Proof.
    intros I H. destruct (expect_eof c Hc TIdentifier s I H) as (d & E). exists d.
    unfold get_identifier. apply bind_err. exact E.
  Qed.

  Lemma strip_quoted str : strip_quotes (quoted str) = escape str.
  Proof.
    unfold quoted, strip_quotes. rewrite aeq_refl. cbn [andb].
    assert (L : Nat.leb 2 (length (dq :: escape str ++ [dq])) = true).
    { apply Nat.leb_le. cbn [length]. rewrite app_length. cbn. lia. }
    rewrite L, last_last, aeq_refl. apply removelast_last.
  Qed.

  Lemma get_string_fine s t r str : Inv s -> ps_after s = t :: r -> shape_of t = (TString, quoted str) ->
    exists s', get_string c s = (ROk str, s') /\ adv [t] s s'.
  Proof.
    intros I H Hs. unfold shape_of in Hs. injection Hs as Hty Htx.
    destruct (expect_fine c TString s t r I H Hty) as (s1 & E1 & A1).
    exists s1. split; [|exact A1]. unfold get_string, peek_token. unfold bindM at 1. rewrite H.
    rewrite Hty. cbn [ttype_eqb]. rewrite (bind_ok _ _ _ _ _ E1).
    rewrite Htx, strip_quoted, unescape_escape. reflexivity.
  Qed.

  (* a string field fails on everything that is neither a string nor an identifier *)
  Lemma get_string_wrong s t r : Inv s -> ps_after s = t :: r -> tk_type t <> TString -> tk_type t <> TIdentifier ->
    exists d s', get_string c s = (RErr d, s') /\ adv [t] s s'.
  Proof.
    intros I H H1 H2. destruct (expect_wrong c Hc TString s t r I H H1) as (d & s1 & E1 & A1).
    exists d, s1. split; [|exact A1]. unfold get_string, peek_token. unfold bindM at 1. rewrite H.
    rewrite (ttype_eqb_neq _ _ H2). apply bind_err. exact E1.
  Qed.
  Lemma get_string_eof s : Inv s -> ps_after s = [] -> exists d, get_string c s = (RErr d, s).
  Proof.
    intros I H. destruct (expect_eof c Hc TString s I H) as (d & E). exists d.
    unfold get_string, peek_token. unfold bindM at 1. rewrite H. apply bind_err. exact E.
  Qed.

  Lemma get_string_maxlen_fine n s t r str : Inv s -> ps_after s = t :: r -> shape_of t = (TString, quoted str) ->
    exists s', get_string_maxlen c n s = (ROk str, s') /\ adv [t] s s'.
  Proof.
    intros I H Hs. destruct (get_string_fine s t r str I H Hs) as (s1 & E1 & A1).
    unfold get_string_maxlen. rewrite (bind_ok _ _ _ _ _ E1).
    assert (I1 : Inv s1) by (eapply adv_inv; eassumption).
    destruct (Nat.ltb n (length str)).
    - destruct (soft_diag_log "StringTooLong" str s1 I1) as (s2 & E2 & A2).
      exists s2. rewrite (bind_ok _ _ _ _ _ E2). split; [reflexivity | apply (adv_trans [t] [] _ _ _ A1 A2)].
    - exists s1. split; [reflexivity | exact A1].
  Qed.

  Lemma get_integer_fine ity z hex s t r : Inv s -> ps_after s = t :: r ->
    shape_of t = (TNumber, add_integer_text ity z hex) -> in_range ity z = true ->
    exists s', get_integer ity c s = (ROk (z, hex), s') /\ adv [t] s s'.
  Proof.
    intros I H Hs Hr. unfold shape_of in Hs. injection Hs as Hty Htx.
    destruct (expect_fine c TNumber s t r I H Hty) as (s1 & E1 & A1).
    exists s1. split; [|exact A1]. unfold get_integer. rewrite (bind_ok _ _ _ _ _ E1).
    rewrite Htx, (int_text_roundtrip ity z hex Hr). reflexivity.
  Qed.

  Lemma number_wrong {A} (k : token -> M A) s t r : Inv s -> ps_after s = t :: r -> tk_type t <> TNumber ->
    exists d s', bindM (expect_token c TNumber) k s = (RErr d, s') /\ adv [t] s s'.
  Proof.
    intros I H Ht. destruct (expect_wrong c Hc TNumber s t r I H Ht) as (d & s1 & E1 & A1).
    exists d, s1. split; [apply bind_err; exact E1 | exact A1].
  Qed.
  Lemma number_eof {A} (k : token -> M A) s : Inv s -> ps_after s = [] ->
    exists d, bindM (expect_token c TNumber) k s = (RErr d, s).
  Proof. intros I H. destruct (expect_eof c Hc TNumber s I H) as (d & E). exists d. apply bind_err. exact E. Qed.

  (* ---------- parse_scalar_field on the token(s) of one plain scalar ---------- *)
  Variable S : spec.
  Variable ftab : list fentry.
  Variable rec : tydef -> ctx -> N -> M value.

  Lemma find_enumitem_tag items txt e : find_enumitem items txt = Some e -> bytes_of (ei_tag e) = txt.
  Proof.
    induction items as [|x r IH]; cbn [find_enumitem]; [discriminate|].
    destruct (bytes_eqb (bytes_of (ei_tag x)) txt) eqn:E; [|exact IH].
    intros H. inversion H; subst. apply bytes_eqb_eq. exact E.
  Qed.

  Lemma parse_enum_fine td s t r : Inv s -> ps_after s = t :: r -> tk_type t = TIdentifier ->
    (exists e, find_enumitem (t_enum td) (tk_text t) = Some e) ->
    exists s', parse_enum td c s = (ROk (tk_text t), s') /\ adv [t] s s'.
  Proof.
    intros I H Ht [e He]. destruct (get_identifier_fine s t r I H Ht) as (s1 & E1 & A1).
    unfold parse_enum. rewrite (bind_ok _ _ _ _ _ E1). rewrite He.
    assert (I1 : Inv s1) by (eapply adv_inv; eassumption).
    assert (So1 : soft (match ei_vmin e with Some v => check_enumitem_version_lower c (bytes_of (ei_tag e)) v | None => ret tt end)).
    { destruct (ei_vmin e); [apply soft_enum_lower | apply soft_ret]. }
    assert (So2 : soft (match ei_vmax e with Some v => check_enumitem_version_upper c (bytes_of (ei_tag e)) v | None => ret tt end)).
    { destruct (ei_vmax e); [apply soft_enum_upper | apply soft_ret]. }
    destruct (So1 s1 I1) as (s2 & E2 & A2). assert (I2 : Inv s2) by (eapply adv_inv; eassumption).
    destruct (So2 s2 I2) as (s3 & E3 & A3).
    exists s3. rewrite (bind_ok _ _ _ _ _ E2), (bind_ok _ _ _ _ _ E3). rewrite (find_enumitem_tag _ _ _ He).
    split; [reflexivity|]. apply (adv_trans [t] [] _ _ _ A1). apply (adv_trans [] [] _ _ _ A2 A3).
  Qed.

  Lemma with_offset {A} (m : M A) (k : A -> N -> value) s a s1 ts : Inv s -> m s = (ROk a, s1) -> adv ts s s1 ->
    exists off, (x <-- m ;; off <-- get_line_offset ;; ret (k x off)) s = (ROk (k a off), s1).
  Proof.
    intros I E Ad. destruct (glo_fine s1 (adv_inv _ _ _ I Ad)) as (off & G). exists off.
    rewrite (bind_ok _ _ _ _ _ E), (bind_ok _ _ _ _ _ G). reflexivity.
  Qed.

  Lemma get_double_fine bits s t r : Inv s -> ps_ftab s = ftab -> ps_after s = t :: r ->
    shape_of t = (TNumber, float_text ftab bits) -> double_ok ftab bits = true ->
    exists s', get_double c s = (ROk bits, s') /\ adv [t] s s'.
  Proof.
    intros I Hf H Hs Hok. unfold shape_of in Hs. injection Hs as Hty Htx.
    destruct (expect_fine c TNumber s t r I H Hty) as (s1 & E1 & A1).
    exists s1. split; [|exact A1]. unfold get_double. rewrite (bind_ok _ _ _ _ _ E1). rewrite Htx.
    unfold double_ok in Hok. apply andb_true_iff in Hok. destruct Hok as [H0 Hok].
    apply negb_true_iff in H0. rewrite H0.
    rewrite (se_ftab _ _ (adv_static _ _ _ A1)), Hf.
    destruct (find_fentry ftab (float_text ftab bits)) as [e|]; [|discriminate].
    apply andb_true_iff in Hok. destruct Hok as [Hok Hb]. unfold finite_bits in Hok. rewrite Hok.
    apply N.eqb_eq in Hb. rewrite Hb. reflexivity.
  Qed.

  Lemma get_float_fine bits s t r : Inv s -> ps_ftab s = ftab -> ps_after s = t :: r ->
    shape_of t = (TNumber, float_text ftab bits) -> float_ok ftab bits = true ->
    exists s', get_float c s = (ROk bits, s') /\ adv [t] s s'.
  Proof.
    intros I Hf H Hs Hok. unfold shape_of in Hs. injection Hs as Hty Htx.
    destruct (expect_fine c TNumber s t r I H Hty) as (s1 & E1 & A1).
    exists s1. split; [|exact A1]. unfold get_float. rewrite (bind_ok _ _ _ _ _ E1). rewrite Htx.
    unfold float_ok in Hok. rewrite (se_ftab _ _ (adv_static _ _ _ A1)), Hf.
    destruct (find_fentry ftab (float_text ftab bits)) as [e|]; [|discriminate].
    apply andb_true_iff in Hok. destruct Hok as [Hok Hb]. unfold finite_bits in Hok. rewrite Hok.
    apply N.eqb_eq in Hb. rewrite Hb. reflexivity.
  Qed.

  (* the value parsed for a plain scalar field from the one token the writer produces for it *)
  Lemma scalar_frame ty v s t r : Inv s -> ps_ftab s = ftab -> simple_ty ty = true -> scalar_ok S ftab ty v = true ->
    ps_after s = t :: r -> scalar_toks ftab ty v = [shape_of t] ->
    exists v' s', parse_scalar_field S rec ty c s = (ROk v', s') /\ adv [t] s s' /\ erase v' = erase v.
  Proof.
    intros I Hf Hsim Hok H Hs.
    destruct ty; try discriminate; destruct v as [sc off| | |]; try discriminate; destruct sc as [z hex|bits|str]; try discriminate;
      cbn [scalar_toks] in Hs; apply singleton_inj in Hs; symmetry in Hs; cbn [scalar_ok] in Hok; cbn [parse_scalar_field].
    - destruct (get_integer_fine t0 z hex s t r I H Hs Hok) as (s1 & E1 & A1).
      destruct (with_offset _ (fun r off => VScalar (SInt (fst r) (snd r)) off) s _ s1 _ I E1 A1) as (o & E).
      eexists; exists s1. split; [exact E|]. split; [exact A1 | reflexivity].
    - destruct (get_double_fine bits s t r I Hf H Hs Hok) as (s1 & E1 & A1).
      destruct (with_offset _ (fun v off => VScalar (SFloat v) off) s _ s1 _ I E1 A1) as (o & E).
      eexists; exists s1. split; [exact E|]. split; [exact A1 | reflexivity].
    - destruct (get_float_fine bits s t r I Hf H Hs Hok) as (s1 & E1 & A1).
      destruct (with_offset _ (fun v off => VScalar (SFloat v) off) s _ s1 _ I E1 A1) as (o & E).
      eexists; exists s1. split; [exact E|]. split; [exact A1 | reflexivity].
    - unfold shape_of in Hs. injection Hs as Hty Htx.
      destruct (get_identifier_fine s t r I H Hty) as (s1 & E1 & A1).
      destruct (with_offset _ (fun v off => VScalar (SText v) off) s _ s1 _ I E1 A1) as (o & E).
      eexists; exists s1. split; [exact E|]. split; [exact A1 | cbn; rewrite Htx; reflexivity].
    - destruct (get_string_fine s t r str I H Hs) as (s1 & E1 & A1).
      destruct (with_offset _ (fun v off => VScalar (SText v) off) s _ s1 _ I E1 A1) as (o & E).
      eexists; exists s1. split; [exact E|]. split; [exact A1 | reflexivity].
    - destruct (get_string_maxlen_fine n s t r str I H Hs) as (s1 & E1 & A1).
      eexists; exists s1. split; [rewrite (bind_ok _ _ _ _ _ E1); reflexivity|]. split; [exact A1 | reflexivity].
    - apply andb_true_iff in Hok. destruct Hok as [_ Hok].
      destruct (lookup_ty S e) as [td|]; [|discriminate].
      unfold shape_of in Hs. injection Hs as Hty Htx.
      assert (He : exists x, find_enumitem (t_enum td) (tk_text t) = Some x).
      { rewrite Htx. destruct (find_enumitem (t_enum td) str) as [x|]; [eexists; reflexivity | discriminate]. }
      destruct (parse_enum_fine td s t r I H Hty He) as (s1 & E1 & A1).
      destruct (with_offset _ (fun v off => VScalar (SText v) off) s _ s1 _ I E1 A1) as (o & E).
      eexists; exists s1. split; [exact E|]. split; [exact A1 | cbn; rewrite Htx; reflexivity].
  Qed.

  (* a plain scalar field fails, moving over one token, on a token of a type it cannot start with; it fails at once at
     the end of the input *)
  Lemma scalar_wrong ty s t r : Inv s -> simple_ty ty = true -> known_ty S ty = true -> ps_after s = t :: r ->
    expects_simple ty (tk_type t) = false ->
    exists d s', parse_scalar_field S rec ty c s = (RErr d, s') /\ adv [t] s s'.
  Proof.
    intros I Hsim Hk H Hex.
    destruct ty; try discriminate; cbn [expects_simple] in Hex; cbn [parse_scalar_field].
    - assert (Ht : tk_type t <> TNumber) by (intros E; rewrite E in Hex; discriminate).
      destruct (expect_wrong c Hc TNumber s t r I H Ht) as (d & s1 & E1 & A1). exists d, s1.
      split; [apply bind_err; unfold get_integer; apply bind_err; exact E1 | exact A1].
    - assert (Ht : tk_type t <> TNumber) by (intros E; rewrite E in Hex; discriminate).
      destruct (expect_wrong c Hc TNumber s t r I H Ht) as (d & s1 & E1 & A1). exists d, s1.
      split; [apply bind_err; unfold get_double; apply bind_err; exact E1 | exact A1].
    - assert (Ht : tk_type t <> TNumber) by (intros E; rewrite E in Hex; discriminate).
      destruct (expect_wrong c Hc TNumber s t r I H Ht) as (d & s1 & E1 & A1). exists d, s1.
      split; [apply bind_err; unfold get_float; apply bind_err; exact E1 | exact A1].
    - assert (Ht : tk_type t <> TIdentifier) by (intros E; rewrite E in Hex; discriminate).
      destruct (get_identifier_wrong s t r I H Ht) as (d & s1 & E1 & A1). exists d, s1. split; [apply bind_err; exact E1 | exact A1].
    - apply orb_false_iff in Hex. destruct Hex as [X1 X2].
      assert (Ht1 : tk_type t <> TString) by (intros E; rewrite E in X1; discriminate).
      assert (Ht2 : tk_type t <> TIdentifier) by (intros E; rewrite E in X2; discriminate).
      destruct (get_string_wrong s t r I H Ht1 Ht2) as (d & s1 & E1 & A1). exists d, s1. split; [apply bind_err; exact E1 | exact A1].
    - apply orb_false_iff in Hex. destruct Hex as [X1 X2].
      assert (Ht1 : tk_type t <> TString) by (intros E; rewrite E in X1; discriminate).
      assert (Ht2 : tk_type t <> TIdentifier) by (intros E; rewrite E in X2; discriminate).
      destruct (get_string_wrong s t r I H Ht1 Ht2) as (d & s1 & E1 & A1). exists d, s1.
      split; [apply bind_err; unfold get_string_maxlen; apply bind_err; exact E1 | exact A1].
    - assert (Ht : tk_type t <> TIdentifier) by (intros E; rewrite E in Hex; discriminate).
      cbn [known_ty] in Hk. destruct (lookup_ty S e) as [td|]; [|discriminate].
      destruct (get_identifier_wrong s t r I H Ht) as (d & s1 & E1 & A1). exists d, s1.
      split; [apply bind_err; unfold parse_enum; apply bind_err; exact E1 | exact A1].
  Qed.

  Lemma scalar_eof ty s : Inv s -> simple_ty ty = true -> known_ty S ty = true -> ps_after s = [] ->
    exists d, parse_scalar_field S rec ty c s = (RErr d, s).
  Proof.
    intros I Hsim Hk H.
    destruct ty; try discriminate; cbn [parse_scalar_field].
    - destruct (expect_eof c Hc TNumber s I H) as (d & E1). exists d. apply bind_err; unfold get_integer; apply bind_err; exact E1.
    - destruct (expect_eof c Hc TNumber s I H) as (d & E1). exists d. apply bind_err; unfold get_double; apply bind_err; exact E1.
    - destruct (expect_eof c Hc TNumber s I H) as (d & E1). exists d. apply bind_err; unfold get_float; apply bind_err; exact E1.
    - destruct (get_identifier_eof s I H) as (d & E1). exists d. apply bind_err; exact E1.
    - destruct (get_string_eof s I H) as (d & E1). exists d. apply bind_err; exact E1.
    - destruct (get_string_eof s I H) as (d & E1). exists d. apply bind_err; unfold get_string_maxlen; apply bind_err; exact E1.
    - cbn [known_ty] in Hk. destruct (lookup_ty S e) as [td|]; [|discriminate].
      destruct (get_identifier_eof s I H) as (d & E1). exists d. apply bind_err; unfold parse_enum; apply bind_err; exact E1.
  Qed.

  Lemma scalar_toks_single ty v : simple_ty ty = true -> scalar_ok S ftab ty v = true -> exists sh, scalar_toks ftab ty v = [sh].
  Proof.
    intros Hs Hok. destruct ty; try discriminate; destruct v as [sc off| | |]; try discriminate; destruct sc; try discriminate;
      cbn [scalar_toks]; eexists; reflexivity.
  Qed.

  Lemma map_cons_inv {A B} (f : A -> B) l b bs : map f l = b :: bs -> exists a r, l = a :: r /\ f a = b /\ map f r = bs.
  Proof. destruct l as [|a r]; [discriminate|]. cbn [map]. intros H. injection H as H1 H2. exists a, r. auto. Qed.

  (* ---------- arrays ---------- *)
  Lemma array_frame ty : simple_ty ty = true -> forall l ts s rest, Inv s -> ps_ftab s = ftab ->
    forallb (scalar_ok S ftab ty) l = true -> map shape_of ts = flat_map (scalar_toks ftab ty) l -> ps_after s = ts ++ rest ->
    exists l' s', parse_n S rec (length l) ty c s = (ROk l', s') /\ adv ts s s' /\ map erase l' = map erase l.
  Proof.
    intros Hsim. induction l as [|x l IH]; intros ts s rest I Hf Hok Hm Ha.
    - cbn [flat_map] in Hm. apply map_eq_nil in Hm. subst ts. exists [], s. split; [reflexivity|].
      split; [apply adv_refl, (inv_pos s I) | reflexivity].
    - cbn [forallb] in Hok. apply andb_true_iff in Hok. destruct Hok as [Hx Hl].
      destruct (scalar_toks_single ty x Hsim Hx) as [sh Hsh].
      cbn [flat_map] in Hm. rewrite Hsh in Hm. cbn [app] in Hm.
      destruct (map_cons_inv _ _ _ _ Hm) as (t & ts0 & -> & Ht & Hm0).
      cbn [app] in Ha. rewrite <- Ht in Hsh.
      destruct (scalar_frame ty x s t (ts0 ++ rest) I Hf Hsim Hx Ha Hsh) as (x' & s1 & E1 & A1 & Ex).
      assert (I1 : Inv s1) by (eapply adv_inv; eassumption).
      assert (Hf1 : ps_ftab s1 = ftab) by (rewrite (se_ftab _ _ (adv_static _ _ _ A1)); exact Hf).
      assert (Ha1 : ps_after s1 = ts0 ++ rest).
      { pose proof (adv_after _ _ _ A1) as Q. rewrite Ha in Q. cbn [app] in Q. injection Q as Q. symmetry. exact Q. }
      destruct (IH ts0 s1 rest I1 Hf1 Hl Hm0 Ha1) as (l' & s2 & E2 & A2 & El).
      exists (x' :: l'), s2. cbn [length parse_n]. rewrite (bind_ok _ _ _ _ _ E1), (bind_ok _ _ _ _ _ E2).
      split; [reflexivity|]. split; [apply (adv_trans [t] ts0 _ _ _ A1 A2) | cbn [map]; rewrite Ex, El; reflexivity].
  Qed.

  (* ---------- sequences, for any element type ---------- *)
  Lemma is_stopword_erase stop a b : erase a = erase b -> is_stopword stop a = is_stopword stop b.
  Proof.
    destruct a as [sa oa| | |], b as [sb ob| | |]; cbn [erase]; intros H; try discriminate; try reflexivity.
    injection H as H. subst. reflexivity.
  Qed.

  Section Seq.
    Variable ty : fty.
    Variable stop : list string.
    Variable etoks : value -> list shape.
    Variable rx : value -> value.
    Variable rest : list token.
    Definition elem_fine (x : value) : Prop :=
      forall s ts rest', Inv s -> ps_ftab s = ftab -> ps_after s = ts ++ rest' -> map shape_of ts = etoks x ->
        exists x' s', parse_scalar_field S rec ty c s = (ROk x', s') /\ adv ts s s' /\ erase x' = erase (rx x).
    Definition stop_fine : Prop :=
      forall s, Inv s -> ps_ftab s = ftab -> ps_after s = rest ->
        (exists d s' tsx, parse_scalar_field S rec ty c s = (RErr d, s') /\ adv tsx s s') \/
        (exists x' s' tsx, parse_scalar_field S rec ty c s = (ROk x', s') /\ adv tsx s s' /\ is_stopword stop x' = true).

    Lemma seq_frame : stop_fine -> forall l acc ts s n, Inv s -> ps_ftab s = ftab -> (length l < n)%nat ->
      Forall elem_fine l -> forallb (fun x => negb (is_stopword stop (rx x))) l = true ->
      map shape_of ts = flat_map etoks l -> ps_after s = ts ++ rest ->
      exists l' s', parse_seq S rec n ty stop c acc s = (ROk (acc ++ l'), s') /\ adv ts s s' /\ map erase l' = map erase (map rx l).
    Proof.
      intros Hstop. induction l as [|x l IH]; intros acc ts s n I Hf Hn Hel Hns Hm Ha.
      - cbn [flat_map] in Hm. apply map_eq_nil in Hm. subst ts. cbn [app] in Ha.
        destruct n as [|n]; [inversion Hn|]. cbn [parse_seq]. unfold get_tokenpos. unfold bindM at 1.
        destruct (Hstop s I Hf Ha) as [(d & s1 & tsx & E1 & A1) | (x' & s1 & tsx & E1 & A1 & St)].
        + rewrite (bind_ok _ _ _ _ _ (try_err _ _ _ _ E1)).
          destruct (set_tokenpos_back tsx s s1 A1 (inv_pos s I)) as (s2 & E2 & A2).
          rewrite (bind_ok _ _ _ _ _ E2). exists [], s2. rewrite app_nil_r. split; [reflexivity|]. split; [exact A2 | reflexivity].
        + rewrite (bind_ok _ _ _ _ _ (try_ok _ _ _ _ E1)). rewrite St.
          destruct (set_tokenpos_back tsx s s1 A1 (inv_pos s I)) as (s2 & E2 & A2).
          rewrite (bind_ok _ _ _ _ _ E2). exists [], s2. rewrite app_nil_r. split; [reflexivity|]. split; [exact A2 | reflexivity].
      - cbn [flat_map] in Hm. apply map_eq_app in Hm. destruct Hm as (t1 & t2 & -> & Hm1 & Hm2).
        inversion Hel as [|? ? Hx Hl]; subst. cbn [forallb] in Hns. apply andb_true_iff in Hns. destruct Hns as [Nx Nl].
        rewrite <- app_assoc in Ha.
        destruct (Hx s t1 (t2 ++ rest) I Hf Ha Hm1) as (x' & s1 & E1 & A1 & Ex).
        destruct n as [|n]; [inversion Hn|]. cbn [parse_seq]. unfold get_tokenpos. unfold bindM at 1.
        rewrite (bind_ok _ _ _ _ _ (try_ok _ _ _ _ E1)).
        rewrite (is_stopword_erase stop x' (rx x) Ex). apply negb_true_iff in Nx. rewrite Nx.
        assert (I1 : Inv s1) by (eapply adv_inv; eassumption).
        assert (Hf1 : ps_ftab s1 = ftab) by (rewrite (se_ftab _ _ (adv_static _ _ _ A1)); exact Hf).
        assert (Ha1 : ps_after s1 = t2 ++ rest).
        { pose proof (adv_after _ _ _ A1) as Q. rewrite Ha in Q. apply app_inv_head in Q. symmetry. exact Q. }
        cbn [length] in Hn.
        destruct (IH (acc ++ [x']) t2 s1 n I1 Hf1 ltac:(lia) Hl Nl Hm2 Ha1) as (l' & s2 & E2 & A2 & El).
        exists (x' :: l'), s2. rewrite E2, <- app_assoc. split; [reflexivity|].
        split; [apply (adv_trans t1 t2 _ _ _ A1 A2) | cbn [map]; rewrite Ex, El; reflexivity].
    Qed.
  End Seq.

  Lemma simple_stop_fine ty stop rest : simple_ty ty = true -> known_ty S ty = true ->
    stops S ty stop (hd_shape rest) = true -> stop_fine ty stop rest.
  Proof.
    intros Hsim Hk Hst s I Hf Ha. destruct rest as [|t r].
    - left. destruct (scalar_eof ty s I Hsim Hk Ha) as (d & E). exists d, s, []. split; [exact E | apply adv_refl, (inv_pos s I)].
    - cbn [hd_shape stops] in Hst. unfold shape_of in Hst.
      assert (Hex : expects S ty (tk_type t) = expects_simple ty (tk_type t)) by (destruct ty; try reflexivity; discriminate).
      rewrite Hex in Hst. apply orb_true_iff in Hst. destruct Hst as [Hst | Hst].
      + left. apply negb_true_iff in Hst. destruct (scalar_wrong ty s t r I Hsim Hk Ha Hst) as (d & s1 & E & A1).
        exists d, s1, [t]. split; assumption.
      + right. apply andb_true_iff in Hst. destruct Hst as [Hst Hsw]. apply andb_true_iff in Hst. destruct Hst as [Hty Htk].
        destruct ty; try discriminate. apply ttype_eqb_eq in Htk.
        destruct (get_identifier_fine s t r I Ha Htk) as (s1 & E1 & A1).
        destruct (with_offset _ (fun v off => VScalar (SText v) off) s _ s1 _ I E1 A1) as (o & E).
        exists (VScalar (SText (tk_text t)) o), s1, [t]. split; [exact E|]. split; [exact A1 | exact Hsw].
  Qed.

  (* ---------- get_next_tag_or_comment ---------- *)
  Lemma next_tag_block s tB tI r : Inv s -> ps_after s = tB :: tI :: r -> tk_type tB = TBegin -> tk_type tI = TIdentifier ->
    exists off s', get_next_tag_or_comment c s = (ROk (BCBlock tI true off), s') /\ adv [tB; tI] s s'.
  Proof.
    intros I Ha HB HI. unfold get_next_tag_or_comment, get_tokenpos, peek_token. unfold bindM at 1. unfold bindM at 1.
    rewrite Ha, HB. cbn [ttype_eqb].
    destruct (get_token_fine c s tB (tI :: r) I Ha) as (s1 & E1 & A1). rewrite (bind_ok _ _ _ _ _ E1).
    assert (I1 : Inv s1) by (eapply adv_inv; eassumption).
    destruct (glo_fine s1 I1) as (off & G). rewrite (bind_ok _ _ _ _ _ G).
    assert (Ha1 : ps_after s1 = tI :: r).
    { pose proof (adv_after _ _ _ A1) as Q. rewrite Ha in Q. cbn [app] in Q. injection Q as Q. symmetry. exact Q. }
    destruct (expect_fine c TIdentifier s1 tI r I1 Ha1 HI) as (s2 & E2 & A2).
    rewrite (bind_ok _ _ _ _ _ (try_ok _ _ _ _ E2)). exists off, s2. split; [reflexivity|].
    apply (adv_trans [tB] [tI] _ _ _ A1 A2).
  Qed.

  Lemma next_tag_keyword s tI r : Inv s -> ps_after s = tI :: r -> tk_type tI = TIdentifier ->
    exists off s', get_next_tag_or_comment c s = (ROk (BCBlock tI false off), s') /\ adv [tI] s s'.
  Proof.
    intros I Ha HI. unfold get_next_tag_or_comment, get_tokenpos, peek_token. unfold bindM at 1. unfold bindM at 1.
    rewrite Ha, HI. cbn [ttype_eqb].
    destruct (expect_fine c TIdentifier s tI r I Ha HI) as (s1 & E1 & A1).
    rewrite (bind_ok _ _ _ _ _ (try_ok _ _ _ _ E1)).
    destruct (glo_fine s1 (adv_inv _ _ _ I A1)) as (off & G). rewrite (bind_ok _ _ _ _ _ G).
    exists off, s1. split; [reflexivity | exact A1].
  Qed.

  Lemma next_tag_none s t r : Inv s -> ps_after s = t :: r -> tk_type t <> TBegin -> tk_type t <> TIdentifier ->
    exists s', get_next_tag_or_comment c s = (ROk BCNone, s') /\ adv [] s s'.
  Proof.
    intros I Ha HB HI. unfold get_next_tag_or_comment, get_tokenpos, peek_token. unfold bindM at 1. unfold bindM at 1.
    rewrite Ha. destruct (tok_ok_after s t r I Ha) as (_ & Hnc & _).
    rewrite (ttype_eqb_neq _ _ Hnc), (ttype_eqb_neq _ _ HB).
    destruct (expect_wrong c Hc TIdentifier s t r I Ha HI) as (d & s1 & E1 & A1).
    rewrite (bind_ok _ _ _ _ _ (try_err _ _ _ _ E1)).
    destruct (glo_fine s1 (adv_inv _ _ _ I A1)) as (off & G). rewrite (bind_ok _ _ _ _ _ G).
    destruct (set_tokenpos_back [t] s s1 A1 (inv_pos s I)) as (s2 & E2 & A2).
    rewrite (bind_ok _ _ _ _ _ E2). exists s2. split; [reflexivity | exact A2].
  Qed.

  (* ---------- the loop over the children of a block ---------- *)
  Lemma upd_nth_erase (K1 K2 : list (list value)) i (f1 f2 : list value -> list value) :
    map (map erase) K1 = map (map erase) K2 ->
    (forall l1 l2, map erase l1 = map erase l2 -> map erase (f1 l1) = map erase (f2 l2)) ->
    map (map erase) (upd_nth K1 i f1) = map (map erase) (upd_nth K2 i f2).
  Proof.
    revert K2 i. induction K1 as [|a K1 IH]; intros [|b K2] i H Hf; cbn [map] in H; try discriminate; [reflexivity|].
    injection H as Hab HK. destruct i as [|i]; cbn [upd_nth map].
    - rewrite (Hf a b Hab), HK. reflexivity.
    - rewrite Hab, (IH K2 i HK Hf). reflexivity.
  Qed.

  Section Loop.
    Variable ifuel : nat.
    Variable titems : list titem.
    Variable last : bool.
    Variable w : value -> list shape.
    Variable rx : value -> value.

    Definition closing (is_block : bool) (tag : bytes) : list shape :=
      if is_block then [(TEnd, end_text); (TIdentifier, tag)] else [].

    Definition entry_fine (e : entry) (nxt : option shape) : Prop :=
      let ti := snd (fst e) in
      exists td, find_titem titems (bytes_of (ti_tag ti)) 0 = Some (fst (fst e), ti) /\
                 lookup_ty S (ti_type ti) = Some td /\ t_special td = None /\
                 forall newc so s ts rest', c_fileid newc = O -> c_element newc = bytes_of (ti_tag ti) -> Inv s -> ps_ftab s = ftab ->
                   ps_after s = ts ++ rest' -> map shape_of ts = w (snd e) ++ closing (ti_block ti) (bytes_of (ti_tag ti)) ->
                   (ti_block ti = false -> hd_shape rest' = nxt) ->
                   exists v' s', rec td newc so s = (ROk v', s') /\ adv ts s s' /\ erase v' = erase (rx (snd e)).
    Fixpoint entries_fine (es : list entry) (after : option shape) : Prop :=
      match es with
      | [] => True
      | e :: r => entry_fine e (match r with e2 :: _ => Some (kid_head (snd (fst e2))) | [] => after end) /\ entries_fine r after
      end.

    Lemma hd_shape_kid_toks (ti : titem) inner (tsn : list token) rest :
      map shape_of tsn = kid_toks ti inner -> hd_shape (tsn ++ rest) = Some (kid_head ti).
    Proof.
      unfold kid_toks, kid_head. destruct (ti_block ti); intros H; destruct tsn as [|t r]; try discriminate;
        cbn [map] in H; cbn [app hd_shape]; f_equal; congruence.
    Qed.

    Lemma loop_frame tail : hd_shape tail = Some (TEnd, end_text) ->
      forall es kids cms ts s n, Inv s -> ps_ftab s = ftab -> (length es < n)%nat ->
      entries_fine es (Some (TEnd, end_text)) ->
      map shape_of ts = flat_map (fun e : entry => kid_toks (snd (fst e)) (w (snd e))) es -> ps_after s = ts ++ tail ->
      exists kids' s', tagged_loop S rec ifuel n true last titems c kids cms s = (ROk (kids', cms), s') /\ adv ts s s' /\
        forall K, map (map erase) kids = map (map erase) K -> map (map erase) kids' = map (map erase) (fold_left (place rx) es K).
    Proof.
      intros Htail. induction es as [|e es IH]; intros kids cms ts s n I Hf Hn Hes Hm Ha.
      - cbn [flat_map] in Hm. apply map_eq_nil in Hm. subst ts. cbn [app] in Ha.
        destruct n as [|n]; [inversion Hn|]. cbn [tagged_loop].
        destruct tail as [|tE r]; [discriminate|].
        assert (HtE : tk_type tE = TEnd) by (cbn [hd_shape] in Htail; unfold shape_of in Htail; congruence).
        assert (N1 : tk_type tE <> TBegin) by (rewrite HtE; discriminate).
        assert (N2 : tk_type tE <> TIdentifier) by (rewrite HtE; discriminate).
        destruct (next_tag_none s tE r I Ha N1 N2) as (s1 & E1 & A1).
        rewrite (bind_ok _ _ _ _ _ E1). exists kids, s1. split; [reflexivity|]. split; [exact A1|]. intros K HK. exact HK.
      - cbn [entries_fine] in Hes. destruct Hes as [He Hes].
        destruct e as [[idx ti] k]. unfold entry_fine in He. cbn [fst snd] in He.
        destruct He as (td & Hfind & Hlk & Hsp & Hkid).
        cbn [flat_map fst snd] in Hm. apply map_eq_app in Hm. destruct Hm as (t1 & t2 & -> & Hm1 & Hm2).
        rewrite <- app_assoc in Ha.
        set (nxt := match es with e2 :: _ => Some (kid_head (snd (fst e2))) | [] => Some (TEnd, end_text) end) in *.
        assert (Hnxt : hd_shape (t2 ++ tail) = nxt).
        { subst nxt. destruct es as [|e2 es']; [cbn [flat_map] in Hm2; apply map_eq_nil in Hm2; subst t2; exact Htail|].
          cbn [flat_map] in Hm2. apply map_eq_app in Hm2. destruct Hm2 as (u1 & u2 & -> & Hu1 & _).
          rewrite <- app_assoc. apply (hd_shape_kid_toks _ _ _ _ Hu1). }
        destruct n as [|n]; [inversion Hn|]. cbn [length] in Hn. cbn [tagged_loop].
        unfold kid_toks in Hm1. destruct (ti_block ti) eqn:Hb.
        + (* /begin TAG ... /end TAG *)
          destruct t1 as [|tB [|tI tk]]; try discriminate. cbn [map] in Hm1.
          assert (HB0 : shape_of tB = (TBegin, begin_text)) by congruence.
          assert (HI0 : shape_of tI = (TIdentifier, bytes_of (ti_tag ti))) by congruence.
          assert (Hk : map shape_of tk = w k ++ [(TEnd, end_text); (TIdentifier, bytes_of (ti_tag ti))]) by congruence.
          unfold shape_of in HB0, HI0. apply pair_equal_spec in HB0. destruct HB0 as [HB _].
          apply pair_equal_spec in HI0. destruct HI0 as [HI HItx].
          cbn [app] in Ha.
          destruct (next_tag_block s tB tI (tk ++ t2 ++ tail) I Ha HB HI) as (off & s1 & E1 & A1).
          rewrite (bind_ok _ _ _ _ _ E1). rewrite HItx, Hfind. rewrite Hb. cbn [require_block].
          assert (I1 : Inv s1) by (eapply adv_inv; eassumption).
          assert (So1 : soft (match ti_vmin ti with Some v => check_block_version_lower c (bytes_of (ti_tag ti)) v | None => ret tt end)).
          { destruct (ti_vmin ti); [apply soft_block_lower | apply soft_ret]. }
          assert (So2 : soft (match ti_vmax ti with Some v => check_block_version_upper c (bytes_of (ti_tag ti)) v | None => ret tt end)).
          { destruct (ti_vmax ti); [apply soft_block_upper | apply soft_ret]. }
          unfold bindM at 1. cbn [ret].
          destruct (So1 s1 I1) as (s2 & E2 & A2). assert (I2 : Inv s2) by (eapply adv_inv; eassumption).
          destruct (So2 s2 I2) as (s3 & E3 & A3). assert (I3 : Inv s3) by (eapply adv_inv; eassumption).
          rewrite (bind_ok _ _ _ _ _ E2), (bind_ok _ _ _ _ _ E3). rewrite Hlk.
          unfold parse_special_or_generic. rewrite Hsp.
          pose proof (adv_trans _ _ _ _ _ A1 (adv_trans _ _ _ _ _ A2 A3)) as A13. cbn [app] in A13.
          assert (Ha3 : ps_after s3 = (tk ++ t2) ++ tail).
          { pose proof (adv_after _ _ _ A13) as Q. rewrite Ha in Q. cbn [app] in Q. injection Q as Q. rewrite <- app_assoc. symmetry. exact Q. }
          assert (Hf3 : ps_ftab s3 = ftab) by (rewrite (se_ftab _ _ (adv_static _ _ _ A13)); exact Hf).
          assert (HtI : tok_ok tI).
          { pose proof (inv_toks s I) as F. unfold tokens_of in F. rewrite Ha in F. apply Forall_app in F. destruct F as [_ F].
            inversion F as [|? ? _ F2]; subst. inversion F2; assumption. }
          destruct HtI as (FtI & _).
          rewrite <- app_assoc in Ha3.
          destruct (Hkid (ctx_from_token (bytes_of (ti_tag ti)) tI) off s3 tk (t2 ++ tail) FtI eq_refl I3 Hf3 Ha3
                         ltac:(unfold closing; exact Hk) ltac:(discriminate)) as (v' & s4 & E4 & A4 & Ev).
          rewrite (bind_ok _ _ _ _ _ E4).
          assert (I4 : Inv s4) by (eapply adv_inv; eassumption).
          assert (Ha4 : ps_after s4 = t2 ++ tail).
          { pose proof (adv_after _ _ _ A4) as Q. rewrite Ha3 in Q. apply app_inv_head in Q. symmetry. exact Q. }
          assert (Hf4 : ps_ftab s4 = ftab) by (rewrite (se_ftab _ _ (adv_static _ _ _ A4)); exact Hf3).
          destruct (ti_repeat ti) eqn:Hrep.
          * destruct (IH (upd_nth kids idx (fun l => l ++ [v'])) cms t2 s4 n I4 Hf4 ltac:(lia) Hes Hm2 Ha4) as (kids' & s5 & E5 & A5 & HK5).
            exists kids', s5. split; [exact E5|]. split.
            { replace (tB :: tI :: tk ++ t2) with ([tB; tI] ++ tk ++ t2) by reflexivity.
              apply (adv_trans _ _ _ _ _ A13). apply (adv_trans _ _ _ _ _ A4 A5). }
            intros K HK. cbn [fold_left]. apply HK5. unfold place. cbn [fst snd]. rewrite Hrep.
            apply upd_nth_erase; [exact HK|]. intros l1 l2 Hl. rewrite !map_app, Hl. cbn [map]. rewrite Ev. reflexivity.
          * destruct (soft_multiplicity (bytes_of (ti_tag ti)) (match nth idx kids [] with [] => false | _ => true end) s4 I4) as (s4' & E4' & A4').
            rewrite (bind_ok _ _ _ _ _ E4').
            assert (I4' : Inv s4') by (eapply adv_inv; eassumption).
            assert (Ha4' : ps_after s4' = t2 ++ tail) by (destruct (adv_nil_after _ _ A4') as [Q _]; rewrite Q; exact Ha4).
            assert (Hf4' : ps_ftab s4' = ftab) by (rewrite (se_ftab _ _ (adv_static _ _ _ A4')); exact Hf4).
            destruct (IH (upd_nth kids idx (fun _ => [v'])) cms t2 s4' n I4' Hf4' ltac:(lia) Hes Hm2 Ha4') as (kids' & s5 & E5 & A5 & HK5).
            exists kids', s5. split; [exact E5|]. split.
            { replace (tB :: tI :: tk ++ t2) with ([tB; tI] ++ tk ++ ([] ++ t2)) by reflexivity.
              apply (adv_trans _ _ _ _ _ A13). apply (adv_trans _ _ _ _ _ A4). apply (adv_trans _ _ _ _ _ A4' A5). }
            intros K HK. cbn [fold_left]. apply HK5. unfold place. cbn [fst snd]. rewrite Hrep.
            apply upd_nth_erase; [exact HK|]. intros l1 l2 Hl. cbn [map]. rewrite Ev. reflexivity.
        + (* TAG ... *)
          destruct t1 as [|tI tk]; try discriminate. cbn [map] in Hm1.
          assert (HI0 : shape_of tI = (TIdentifier, bytes_of (ti_tag ti))) by congruence.
          assert (Hk : map shape_of tk = w k) by congruence.
          unfold shape_of in HI0. apply pair_equal_spec in HI0. destruct HI0 as [HI HItx].
          cbn [app] in Ha.
          destruct (next_tag_keyword s tI (tk ++ t2 ++ tail) I Ha HI) as (off & s1 & E1 & A1).
          rewrite (bind_ok _ _ _ _ _ E1). rewrite HItx, Hfind. rewrite Hb. cbn [require_keyword].
          assert (I1 : Inv s1) by (eapply adv_inv; eassumption).
          assert (So1 : soft (match ti_vmin ti with Some v => check_block_version_lower c (bytes_of (ti_tag ti)) v | None => ret tt end)).
          { destruct (ti_vmin ti); [apply soft_block_lower | apply soft_ret]. }
          assert (So2 : soft (match ti_vmax ti with Some v => check_block_version_upper c (bytes_of (ti_tag ti)) v | None => ret tt end)).
          { destruct (ti_vmax ti); [apply soft_block_upper | apply soft_ret]. }
          unfold bindM at 1. cbn [ret].
          destruct (So1 s1 I1) as (s2 & E2 & A2). assert (I2 : Inv s2) by (eapply adv_inv; eassumption).
          destruct (So2 s2 I2) as (s3 & E3 & A3). assert (I3 : Inv s3) by (eapply adv_inv; eassumption).
          rewrite (bind_ok _ _ _ _ _ E2), (bind_ok _ _ _ _ _ E3). rewrite Hlk.
          unfold parse_special_or_generic. rewrite Hsp.
          pose proof (adv_trans _ _ _ _ _ A1 (adv_trans _ _ _ _ _ A2 A3)) as A13. cbn [app] in A13.
          assert (Ha3 : ps_after s3 = tk ++ t2 ++ tail).
          { pose proof (adv_after _ _ _ A13) as Q. rewrite Ha in Q. cbn [app] in Q. injection Q as Q. symmetry. exact Q. }
          assert (Hf3 : ps_ftab s3 = ftab) by (rewrite (se_ftab _ _ (adv_static _ _ _ A13)); exact Hf).
          assert (HtI : tok_ok tI) by (apply (tok_ok_after s tI _ I Ha)).
          destruct HtI as (FtI & _).
          destruct (Hkid (ctx_from_token (bytes_of (ti_tag ti)) tI) off s3 tk (t2 ++ tail) FtI eq_refl I3 Hf3 Ha3
                         ltac:(unfold closing; rewrite app_nil_r; exact Hk) ltac:(intros _; exact Hnxt)) as (v' & s4 & E4 & A4 & Ev).
          rewrite (bind_ok _ _ _ _ _ E4).
          assert (I4 : Inv s4) by (eapply adv_inv; eassumption).
          assert (Ha4 : ps_after s4 = t2 ++ tail).
          { pose proof (adv_after _ _ _ A4) as Q. rewrite Ha3 in Q. apply app_inv_head in Q. symmetry. exact Q. }
          assert (Hf4 : ps_ftab s4 = ftab) by (rewrite (se_ftab _ _ (adv_static _ _ _ A4)); exact Hf3).
          destruct (ti_repeat ti) eqn:Hrep.
          * destruct (IH (upd_nth kids idx (fun l => l ++ [v'])) cms t2 s4 n I4 Hf4 ltac:(lia) Hes Hm2 Ha4) as (kids' & s5 & E5 & A5 & HK5).
            exists kids', s5. split; [exact E5|]. split.
            { replace (tI :: tk ++ t2) with ([tI] ++ tk ++ t2) by reflexivity.
              apply (adv_trans _ _ _ _ _ A13). apply (adv_trans _ _ _ _ _ A4 A5). }
            intros K HK. cbn [fold_left]. apply HK5. unfold place. cbn [fst snd]. rewrite Hrep.
            apply upd_nth_erase; [exact HK|]. intros l1 l2 Hl. rewrite !map_app, Hl. cbn [map]. rewrite Ev. reflexivity.
          * destruct (soft_multiplicity (bytes_of (ti_tag ti)) (match nth idx kids [] with [] => false | _ => true end) s4 I4) as (s4' & E4' & A4').
            rewrite (bind_ok _ _ _ _ _ E4').
            assert (I4' : Inv s4') by (eapply adv_inv; eassumption).
            assert (Ha4' : ps_after s4' = t2 ++ tail) by (destruct (adv_nil_after _ _ A4') as [Q _]; rewrite Q; exact Ha4).
            assert (Hf4' : ps_ftab s4' = ftab) by (rewrite (se_ftab _ _ (adv_static _ _ _ A4')); exact Hf4).
            destruct (IH (upd_nth kids idx (fun _ => [v'])) cms t2 s4' n I4' Hf4' ltac:(lia) Hes Hm2 Ha4') as (kids' & s5 & E5 & A5 & HK5).
            exists kids', s5. split; [exact E5|]. split.
            { replace (tI :: tk ++ t2) with ([tI] ++ tk ++ ([] ++ t2)) by reflexivity.
              apply (adv_trans _ _ _ _ _ A13). apply (adv_trans _ _ _ _ _ A4). apply (adv_trans _ _ _ _ _ A4' A5). }
            intros K HK. cbn [fold_left]. apply HK5. unfold place. cbn [fst snd]. rewrite Hrep.
            apply upd_nth_erase; [exact HK|]. intros l1 l2 Hl. cbn [map]. rewrite Ev. reflexivity.
    Qed.
    (* the same loop in continuation form: after the tokens of the entries [es] the loop goes on with what follows *)
    Lemma loop_cont after : forall es kids cms ts s n rest, Inv s -> ps_ftab s = ftab -> (length es <= n)%nat ->
      entries_fine es after ->
      map shape_of ts = flat_map (fun e : entry => kid_toks (snd (fst e)) (w (snd e))) es -> ps_after s = ts ++ rest ->
      hd_shape rest = after ->
      exists kids' s', tagged_loop S rec ifuel n true last titems c kids cms s =
                       tagged_loop S rec ifuel (n - length es) true last titems c kids' cms s' /\ adv ts s s' /\
        forall K, map (map erase) kids = map (map erase) K -> map (map erase) kids' = map (map erase) (fold_left (place rx) es K).
    Proof.
      induction es as [|e es IH]; intros kids cms ts s n rest I Hf Hn Hes Hm Ha Htail.
      - cbn [flat_map] in Hm. apply map_eq_nil in Hm. subst ts. exists kids, s. cbn [length]. rewrite Nat.sub_0_r.
        split; [reflexivity|]. split; [apply adv_refl, (inv_pos s I)|]. intros K HK. exact HK.
      - cbn [entries_fine] in Hes. destruct Hes as [He Hes].
        destruct e as [[idx ti] k]. unfold entry_fine in He. cbn [fst snd] in He.
        destruct He as (td & Hfind & Hlk & Hsp & Hkid).
        cbn [flat_map fst snd] in Hm. apply map_eq_app in Hm. destruct Hm as (t1 & t2 & -> & Hm1 & Hm2).
        rewrite <- app_assoc in Ha.
        set (nxt := match es with e2 :: _ => Some (kid_head (snd (fst e2))) | [] => after end) in *.
        assert (Hnxt : hd_shape (t2 ++ rest) = nxt).
        { subst nxt. destruct es as [|e2 es']; [cbn [flat_map] in Hm2; apply map_eq_nil in Hm2; subst t2; exact Htail|].
          cbn [flat_map] in Hm2. apply map_eq_app in Hm2. destruct Hm2 as (u1 & u2 & -> & Hu1 & _).
          rewrite <- app_assoc. apply (hd_shape_kid_toks _ _ _ _ Hu1). }
        destruct n as [|n]; [cbn [length] in Hn; lia|]. cbn [length] in Hn. cbn [tagged_loop].
        unfold kid_toks in Hm1. destruct (ti_block ti) eqn:Hb.
        + (* /begin TAG ... /end TAG *)
          destruct t1 as [|tB [|tI tk]]; try discriminate. cbn [map] in Hm1.
          assert (HB0 : shape_of tB = (TBegin, begin_text)) by congruence.
          assert (HI0 : shape_of tI = (TIdentifier, bytes_of (ti_tag ti))) by congruence.
          assert (Hk : map shape_of tk = w k ++ [(TEnd, end_text); (TIdentifier, bytes_of (ti_tag ti))]) by congruence.
          unfold shape_of in HB0, HI0. apply pair_equal_spec in HB0. destruct HB0 as [HB _].
          apply pair_equal_spec in HI0. destruct HI0 as [HI HItx].
          cbn [app] in Ha.
          destruct (next_tag_block s tB tI (tk ++ t2 ++ rest) I Ha HB HI) as (off & s1 & E1 & A1).
          rewrite (bind_ok _ _ _ _ _ E1). rewrite HItx, Hfind. rewrite Hb. cbn [require_block].
          assert (I1 : Inv s1) by (eapply adv_inv; eassumption).
          assert (So1 : soft (match ti_vmin ti with Some v => check_block_version_lower c (bytes_of (ti_tag ti)) v | None => ret tt end)).
          { destruct (ti_vmin ti); [apply soft_block_lower | apply soft_ret]. }
          assert (So2 : soft (match ti_vmax ti with Some v => check_block_version_upper c (bytes_of (ti_tag ti)) v | None => ret tt end)).
          { destruct (ti_vmax ti); [apply soft_block_upper | apply soft_ret]. }
          unfold bindM at 1. cbn [ret].
          destruct (So1 s1 I1) as (s2 & E2 & A2). assert (I2 : Inv s2) by (eapply adv_inv; eassumption).
          destruct (So2 s2 I2) as (s3 & E3 & A3). assert (I3 : Inv s3) by (eapply adv_inv; eassumption).
          rewrite (bind_ok _ _ _ _ _ E2), (bind_ok _ _ _ _ _ E3). rewrite Hlk.
          unfold parse_special_or_generic. rewrite Hsp.
          pose proof (adv_trans _ _ _ _ _ A1 (adv_trans _ _ _ _ _ A2 A3)) as A13. cbn [app] in A13.
          assert (Ha3 : ps_after s3 = (tk ++ t2) ++ rest).
          { pose proof (adv_after _ _ _ A13) as Q. rewrite Ha in Q. cbn [app] in Q. injection Q as Q. rewrite <- app_assoc. symmetry. exact Q. }
          assert (Hf3 : ps_ftab s3 = ftab) by (rewrite (se_ftab _ _ (adv_static _ _ _ A13)); exact Hf).
          assert (HtI : tok_ok tI).
          { pose proof (inv_toks s I) as F. unfold tokens_of in F. rewrite Ha in F. apply Forall_app in F. destruct F as [_ F].
            inversion F as [|? ? _ F2]; subst. inversion F2; assumption. }
          destruct HtI as (FtI & _).
          rewrite <- app_assoc in Ha3.
          destruct (Hkid (ctx_from_token (bytes_of (ti_tag ti)) tI) off s3 tk (t2 ++ rest) FtI eq_refl I3 Hf3 Ha3
                         ltac:(unfold closing; exact Hk) ltac:(discriminate)) as (v' & s4 & E4 & A4 & Ev).
          rewrite (bind_ok _ _ _ _ _ E4).
          assert (I4 : Inv s4) by (eapply adv_inv; eassumption).
          assert (Ha4 : ps_after s4 = t2 ++ rest).
          { pose proof (adv_after _ _ _ A4) as Q. rewrite Ha3 in Q. apply app_inv_head in Q. symmetry. exact Q. }
          assert (Hf4 : ps_ftab s4 = ftab) by (rewrite (se_ftab _ _ (adv_static _ _ _ A4)); exact Hf3).
          destruct (ti_repeat ti) eqn:Hrep.
          * destruct (IH (upd_nth kids idx (fun l => l ++ [v'])) cms t2 s4 n rest I4 Hf4 ltac:(lia) Hes Hm2 Ha4 Htail) as (kids' & s5 & E5 & A5 & HK5).
            exists kids', s5. split; [exact E5|]. split.
            { replace (tB :: tI :: tk ++ t2) with ([tB; tI] ++ tk ++ t2) by reflexivity.
              apply (adv_trans _ _ _ _ _ A13). apply (adv_trans _ _ _ _ _ A4 A5). }
            intros K HK. cbn [fold_left]. apply HK5. unfold place. cbn [fst snd]. rewrite Hrep.
            apply upd_nth_erase; [exact HK|]. intros l1 l2 Hl. rewrite !map_app, Hl. cbn [map]. rewrite Ev. reflexivity.
          * destruct (soft_multiplicity (bytes_of (ti_tag ti)) (match nth idx kids [] with [] => false | _ => true end) s4 I4) as (s4' & E4' & A4').
            rewrite (bind_ok _ _ _ _ _ E4').
            assert (I4' : Inv s4') by (eapply adv_inv; eassumption).
            assert (Ha4' : ps_after s4' = t2 ++ rest) by (destruct (adv_nil_after _ _ A4') as [Q _]; rewrite Q; exact Ha4).
            assert (Hf4' : ps_ftab s4' = ftab) by (rewrite (se_ftab _ _ (adv_static _ _ _ A4')); exact Hf4).
            destruct (IH (upd_nth kids idx (fun _ => [v'])) cms t2 s4' n rest I4' Hf4' ltac:(lia) Hes Hm2 Ha4' Htail) as (kids' & s5 & E5 & A5 & HK5).
            exists kids', s5. split; [exact E5|]. split.
            { replace (tB :: tI :: tk ++ t2) with ([tB; tI] ++ tk ++ ([] ++ t2)) by reflexivity.
              apply (adv_trans _ _ _ _ _ A13). apply (adv_trans _ _ _ _ _ A4). apply (adv_trans _ _ _ _ _ A4' A5). }
            intros K HK. cbn [fold_left]. apply HK5. unfold place. cbn [fst snd]. rewrite Hrep.
            apply upd_nth_erase; [exact HK|]. intros l1 l2 Hl. cbn [map]. rewrite Ev. reflexivity.
        + (* TAG ... *)
          destruct t1 as [|tI tk]; try discriminate. cbn [map] in Hm1.
          assert (HI0 : shape_of tI = (TIdentifier, bytes_of (ti_tag ti))) by congruence.
          assert (Hk : map shape_of tk = w k) by congruence.
          unfold shape_of in HI0. apply pair_equal_spec in HI0. destruct HI0 as [HI HItx].
          cbn [app] in Ha.
          destruct (next_tag_keyword s tI (tk ++ t2 ++ rest) I Ha HI) as (off & s1 & E1 & A1).
          rewrite (bind_ok _ _ _ _ _ E1). rewrite HItx, Hfind. rewrite Hb. cbn [require_keyword].
          assert (I1 : Inv s1) by (eapply adv_inv; eassumption).
          assert (So1 : soft (match ti_vmin ti with Some v => check_block_version_lower c (bytes_of (ti_tag ti)) v | None => ret tt end)).
          { destruct (ti_vmin ti); [apply soft_block_lower | apply soft_ret]. }
          assert (So2 : soft (match ti_vmax ti with Some v => check_block_version_upper c (bytes_of (ti_tag ti)) v | None => ret tt end)).
          { destruct (ti_vmax ti); [apply soft_block_upper | apply soft_ret]. }
          unfold bindM at 1. cbn [ret].
          destruct (So1 s1 I1) as (s2 & E2 & A2). assert (I2 : Inv s2) by (eapply adv_inv; eassumption).
          destruct (So2 s2 I2) as (s3 & E3 & A3). assert (I3 : Inv s3) by (eapply adv_inv; eassumption).
          rewrite (bind_ok _ _ _ _ _ E2), (bind_ok _ _ _ _ _ E3). rewrite Hlk.
          unfold parse_special_or_generic. rewrite Hsp.
          pose proof (adv_trans _ _ _ _ _ A1 (adv_trans _ _ _ _ _ A2 A3)) as A13. cbn [app] in A13.
          assert (Ha3 : ps_after s3 = tk ++ t2 ++ rest).
          { pose proof (adv_after _ _ _ A13) as Q. rewrite Ha in Q. cbn [app] in Q. injection Q as Q. symmetry. exact Q. }
          assert (Hf3 : ps_ftab s3 = ftab) by (rewrite (se_ftab _ _ (adv_static _ _ _ A13)); exact Hf).
          assert (HtI : tok_ok tI) by (apply (tok_ok_after s tI _ I Ha)).
          destruct HtI as (FtI & _).
          destruct (Hkid (ctx_from_token (bytes_of (ti_tag ti)) tI) off s3 tk (t2 ++ rest) FtI eq_refl I3 Hf3 Ha3
                         ltac:(unfold closing; rewrite app_nil_r; exact Hk) ltac:(intros _; exact Hnxt)) as (v' & s4 & E4 & A4 & Ev).
          rewrite (bind_ok _ _ _ _ _ E4).
          assert (I4 : Inv s4) by (eapply adv_inv; eassumption).
          assert (Ha4 : ps_after s4 = t2 ++ rest).
          { pose proof (adv_after _ _ _ A4) as Q. rewrite Ha3 in Q. apply app_inv_head in Q. symmetry. exact Q. }
          assert (Hf4 : ps_ftab s4 = ftab) by (rewrite (se_ftab _ _ (adv_static _ _ _ A4)); exact Hf3).
          destruct (ti_repeat ti) eqn:Hrep.
          * destruct (IH (upd_nth kids idx (fun l => l ++ [v'])) cms t2 s4 n rest I4 Hf4 ltac:(lia) Hes Hm2 Ha4 Htail) as (kids' & s5 & E5 & A5 & HK5).
            exists kids', s5. split; [exact E5|]. split.
            { replace (tI :: tk ++ t2) with ([tI] ++ tk ++ t2) by reflexivity.
              apply (adv_trans _ _ _ _ _ A13). apply (adv_trans _ _ _ _ _ A4 A5). }
            intros K HK. cbn [fold_left]. apply HK5. unfold place. cbn [fst snd]. rewrite Hrep.
            apply upd_nth_erase; [exact HK|]. intros l1 l2 Hl. rewrite !map_app, Hl. cbn [map]. rewrite Ev. reflexivity.
          * destruct (soft_multiplicity (bytes_of (ti_tag ti)) (match nth idx kids [] with [] => false | _ => true end) s4 I4) as (s4' & E4' & A4').
            rewrite (bind_ok _ _ _ _ _ E4').
            assert (I4' : Inv s4') by (eapply adv_inv; eassumption).
            assert (Ha4' : ps_after s4' = t2 ++ rest) by (destruct (adv_nil_after _ _ A4') as [Q _]; rewrite Q; exact Ha4).
            assert (Hf4' : ps_ftab s4' = ftab) by (rewrite (se_ftab _ _ (adv_static _ _ _ A4')); exact Hf4).
            destruct (IH (upd_nth kids idx (fun _ => [v'])) cms t2 s4' n rest I4' Hf4' ltac:(lia) Hes Hm2 Ha4' Htail) as (kids' & s5 & E5 & A5 & HK5).
            exists kids', s5. split; [exact E5|]. split.
            { replace (tI :: tk ++ t2) with ([tI] ++ tk ++ ([] ++ t2)) by reflexivity.
              apply (adv_trans _ _ _ _ _ A13). apply (adv_trans _ _ _ _ _ A4). apply (adv_trans _ _ _ _ _ A4' A5). }
            intros K HK. cbn [fold_left]. apply HK5. unfold place. cbn [fst snd]. rewrite Hrep.
            apply upd_nth_erase; [exact HK|]. intros l1 l2 Hl. cbn [map]. rewrite Ev. reflexivity.
    Qed.
  End Loop.

  (* ---------- one field ---------- *)
  Lemma flat_map_length_ge {A B} (f : A -> list B) l : (forall x, In x l -> f x <> []) -> (length l <= length (flat_map f l))%nat.
  Proof.
    induction l as [|x l IH]; intros H; [apply Nat.le_refl|]. cbn [flat_map length]. rewrite app_length.
    assert (Hx : f x <> []) by (apply H; left; reflexivity). destruct (f x); [congruence|]. cbn [length].
    assert (IH' := IH (fun y Hy => H y (or_intror Hy))). lia.
  Qed.

  Lemma hd_shape_app ts rest : hd_shape (ts ++ rest) = first_or (map shape_of ts) (hd_shape rest).
  Proof. destruct ts; reflexivity. Qed.

  Section Field.
    Variable w : value -> list shape.
    Variable rx : value -> value.
    (* what the recursive call does with the values of simple structs *)
    Hypothesis struct_fine : forall td x, struct_ok S ftab td x = true -> has_toks w x = true ->
      forall s ts rest', Inv s -> ps_ftab s = ftab -> ps_after s = ts ++ rest' -> map shape_of ts = w x ->
        exists x' s', rec td c 0 s = (ROk x', s') /\ adv ts s s' /\ erase x' = erase (rx x).
    Hypothesis struct_stop : forall sn td stop rest, lookup_ty S sn = Some td -> simple_struct S td = true ->
      stops S (FStruct sn) stop (hd_shape rest) = true ->
      forall s, Inv s -> ps_ftab s = ftab -> ps_after s = rest -> exists d s' tsx, rec td c 0 s = (RErr d, s') /\ adv tsx s s'.
    Hypothesis rx_struct : forall td x stop, struct_ok S ftab td x = true -> is_stopword stop (rx x) = false.

    Lemma field_frame ty fv nxt ts s rest : Inv s -> ps_ftab s = ftab -> field_ok S ftab w ty fv nxt = true ->
      map shape_of ts = field_toks ftab w ty fv -> ps_after s = ts ++ rest -> hd_shape rest = nxt ->
      exists v' s', parse_field S rec ty c s = (ROk v', s') /\ adv ts s s' /\ erase v' = erase (re_field rx ty fv).
    Proof.
      intros I Hf Hok Hm Ha Hn.
      assert (Scalar : simple_ty ty = true -> scalar_ok S ftab ty fv = true -> field_toks ftab w ty fv = scalar_toks ftab ty fv ->
                       re_field rx ty fv = fv -> parse_field S rec ty c = parse_scalar_field S rec ty c ->
                       exists v' s', parse_field S rec ty c s = (ROk v', s') /\ adv ts s s' /\ erase v' = erase (re_field rx ty fv)).
      { intros Hsim Hsc Hft Hre Hpf. rewrite Hft in Hm. destruct (scalar_toks_single ty fv Hsim Hsc) as [sh Hsh].
        rewrite Hsh in Hm. destruct (map_cons_inv _ _ _ _ Hm) as (t & ts0 & -> & Ht & Hm0). apply map_eq_nil in Hm0. subst ts0.
        cbn [app] in Ha. rewrite <- Ht in Hsh.
        destruct (scalar_frame ty fv s t rest I Hf Hsim Hsc Ha Hsh) as (v' & s1 & E1 & A1 & Ev).
        exists v', s1. rewrite Hpf, Hre. auto. }
      destruct ty.
      1-7: apply Scalar; try reflexivity; try (destruct fv; first [reflexivity | exact Hok]).
      - (* a struct *)
        cbn [field_ok] in Hok. cbn [field_toks] in Hm. cbn [parse_field parse_scalar_field re_field].
        destruct (lookup_ty S s0) as [td|] eqn:El; [|discriminate]. apply andb_true_iff in Hok. destruct Hok as [Hso Hht].
        apply (struct_fine td fv Hso Hht s ts rest I Hf Ha Hm).
      - (* an array *)
        destruct fv as [| l | |]; try discriminate. cbn [field_ok] in Hok. cbn [field_toks] in Hm.
        apply andb_true_iff in Hok. destruct Hok as [Hok Hall]. apply andb_true_iff in Hok. destruct Hok as [Hsim Hlen].
        apply Nat.eqb_eq in Hlen. subst n.
        destruct (array_frame ty Hsim l ts s rest I Hf Hall Hm Ha) as (l' & s1 & E1 & A1 & El).
        exists (VList l'), s1. cbn [parse_field]. rewrite (bind_ok _ _ _ _ _ E1). split; [reflexivity|]. split; [exact A1|].
        assert (R : re_field rx (FArray ty (length l)) (VList l) = VList l) by (destruct ty; reflexivity).
        rewrite R. cbn [erase]. rewrite El. reflexivity.
      - (* a sequence *)
        destruct fv as [| l | |]; try (destruct ty; discriminate).
        assert (Hrem : remaining s = (ROk (length (ps_after s)), s)) by reflexivity.
        cbn [parse_field]. rewrite (bind_ok _ _ _ _ _ Hrem).
        assert (Hlen_ts : (length ts <= length (ps_after s))%nat) by (rewrite Ha, app_length; lia).
        destruct (match ty with FStruct _ => true | _ => false end) eqn:Eisstruct.
        + destruct ty; try discriminate. cbn [field_ok] in Hok. cbn [field_toks] in Hm.
          destruct (lookup_ty S s0) as [td|] eqn:El; [|discriminate]. apply andb_true_iff in Hok. destruct Hok as [Hok Hst].
          apply andb_true_iff in Hok. destruct Hok as [Hstr Hall]. subst nxt.
          assert (Hstop : stop_fine (FStruct s0) stop rest).
          { intros s1 I1 Hf1 Ha1. left. cbn [parse_scalar_field]. rewrite El.
            apply (struct_stop s0 td stop rest El Hstr Hst s1 I1 Hf1 Ha1). }
          assert (Hall' : forall x, In x l -> struct_ok S ftab td x = true /\ has_toks w x = true).
          { intros x Hx. rewrite forallb_forall in Hall. specialize (Hall x Hx). apply andb_true_iff in Hall. exact Hall. }
          assert (Hel : Forall (elem_fine (FStruct s0) w rx) l).
          { apply Forall_forall. intros x Hx. destruct (Hall' x Hx) as [H1 H2]. intros s1 ts1 rest1 I1 Hf1 Ha1 Hm1.
            cbn [parse_scalar_field]. rewrite El. apply (struct_fine td x H1 H2 s1 ts1 rest1 I1 Hf1 Ha1 Hm1). }
          assert (Hns : forallb (fun x => negb (is_stopword stop (rx x))) l = true).
          { apply forallb_forall. intros x Hx. destruct (Hall' x Hx) as [H1 _]. rewrite (rx_struct td x stop H1). reflexivity. }
          assert (Hlen : (length l < Datatypes.S (length (ps_after s)))%nat).
          { assert (length l <= length (flat_map w l))%nat.
            { apply flat_map_length_ge. intros x Hx. destruct (Hall' x Hx) as [_ H2]. unfold has_toks in H2. destruct (w x); [discriminate | discriminate]. }
            rewrite <- Hm, map_length in H. lia. }
          destruct (seq_frame (FStruct s0) stop w rx rest Hstop l [] ts s _ I Hf Hlen Hel Hns Hm Ha) as (l' & s1 & E1 & A1 & El').
          cbn [app] in E1. rewrite (bind_ok _ _ _ _ _ E1). exists (VList l'), s1. split; [reflexivity|]. split; [exact A1|].
          cbn [re_field erase]. rewrite El'. reflexivity.
        + assert (Hok' : simple_ty ty && known_ty S ty && forallb (scalar_ok S ftab ty) l && forallb (not_stopword stop) l && stops S ty stop nxt = true)
            by (destruct ty; try discriminate; exact Hok).
          assert (Hm' : map shape_of ts = flat_map (scalar_toks ftab ty) l) by (destruct ty; try discriminate; exact Hm).
          assert (Hre : re_field rx (FSeq ty stop) (VList l) = VList l) by (destruct ty; try discriminate; reflexivity).
          clear Hok Hm. apply andb_true_iff in Hok'. destruct Hok' as [Hok' Hst]. apply andb_true_iff in Hok'. destruct Hok' as [Hok' Hnsw].
          apply andb_true_iff in Hok'. destruct Hok' as [Hok' Hall]. apply andb_true_iff in Hok'. destruct Hok' as [Hsim Hkn]. subst nxt.
          assert (Hstop : stop_fine ty stop rest) by (apply simple_stop_fine; assumption).
          assert (Hel : Forall (elem_fine ty (scalar_toks ftab ty) (fun x => x)) l).
          { apply Forall_forall. intros x Hx. rewrite forallb_forall in Hall. specialize (Hall x Hx).
            intros s1 ts1 rest1 I1 Hf1 Ha1 Hm1. destruct (scalar_toks_single ty x Hsim Hall) as [sh Hsh]. rewrite Hsh in Hm1.
            destruct (map_cons_inv _ _ _ _ Hm1) as (t & ts0 & -> & Ht & Hm0). apply map_eq_nil in Hm0. subst ts0.
            cbn [app] in Ha1. rewrite <- Ht in Hsh. apply (scalar_frame ty x s1 t rest1 I1 Hf1 Hsim Hall Ha1 Hsh). }
          assert (Hns : forallb (fun x => negb (is_stopword stop x)) l = true).
          { apply forallb_forall. intros x Hx. rewrite forallb_forall in Hnsw. specialize (Hnsw x Hx).
            unfold not_stopword in Hnsw. unfold is_stopword. destruct x as [sc o| | |]; try reflexivity. destruct sc; try reflexivity. exact Hnsw. }
          assert (Hlen : (length l < Datatypes.S (length (ps_after s)))%nat).
          { assert (length l <= length (flat_map (scalar_toks ftab ty) l))%nat.
            { apply flat_map_length_ge. intros x Hx. rewrite forallb_forall in Hall. destruct (scalar_toks_single ty x Hsim (Hall x Hx)) as [sh Hsh].
              rewrite Hsh. discriminate. }
            rewrite <- Hm', map_length in H. lia. }
          destruct (seq_frame ty stop (scalar_toks ftab ty) (fun x => x) rest Hstop l [] ts s _ I Hf Hlen Hel Hns Hm' Ha) as (l' & s1 & E1 & A1 & El').
          cbn [app] in E1. rewrite (bind_ok _ _ _ _ _ E1). exists (VList l'), s1. split; [reflexivity|]. split; [exact A1|].
          rewrite Hre. cbn [erase]. rewrite El', map_id. reflexivity.
    Qed.
  End Field.

  (* ---------- which tagged item an entry of the written group belongs to ---------- *)
  Lemma bytes_of_inj a b : bytes_of a = bytes_of b -> a = b.
  Proof.
    unfold bytes_of. intros H. rewrite <- (string_of_list_ascii_of_string a), <- (string_of_list_ascii_of_string b), H. reflexivity.
  Qed.

  Lemma find_titem_nth : forall titems i ti k, tags_distinct titems = true -> nth_error titems i = Some ti ->
    find_titem titems (bytes_of (ti_tag ti)) k = Some ((k + i)%nat, ti).
  Proof.
    induction titems as [|tj r IH]; intros i ti k Hd Hn; [destruct i; discriminate|].
    cbn [tags_distinct] in Hd. apply andb_true_iff in Hd. destruct Hd as [Hh Hd].
    destruct i as [|i]; cbn [nth_error] in Hn; cbn [find_titem].
    - inversion Hn; subst. rewrite bytes_eqb_refl. rewrite Nat.add_0_r. reflexivity.
    - destruct (bytes_eqb (bytes_of (ti_tag tj)) (bytes_of (ti_tag ti))) eqn:E.
      + exfalso. apply bytes_eqb_eq in E. apply bytes_of_inj in E. apply negb_true_iff in Hh.
        assert (existsb (fun tj' => String.eqb (ti_tag tj') (ti_tag tj)) r = true).
        { apply existsb_exists. exists ti. split; [eapply nth_error_In; exact Hn | rewrite E; apply String.eqb_refl]. }
        congruence.
      + rewrite (IH i ti (Datatypes.S k) Hd Hn). f_equal. f_equal. lia.
  Qed.

  Lemma in_combine_seq {A} (l : list A) : forall s i x, In (i, x) (combine (seq s (length l)) l) -> nth_error l (i - s) = Some x /\ (s <= i)%nat.
  Proof.
    induction l as [|a l IH]; intros s i x H; [destruct H|]. cbn [length seq combine] in H. destruct H as [H|H].
    - inversion H; subst. rewrite Nat.sub_diag. split; [reflexivity | lia].
    - destruct (IH (Datatypes.S s) i x H) as [H1 H2]. split; [|lia].
      replace (i - s)%nat with (Datatypes.S (i - Datatypes.S s)) by lia. exact H1.
  Qed.

  Lemma replace_restricted_in {P} (x : ginfo P) : forall g srt, In x (replace_restricted g srt) -> In x g \/ In x srt.
  Proof.
    induction g as [|a g IH]; intros srt H; [destruct H|]. cbn [replace_restricted] in H.
    destruct (g_pos a).
    - destruct srt as [|b srt]; destruct H as [H|H].
      + left; left; exact H.
      + destruct (IH [] H) as [H'|H']; [left; right; exact H' | destruct H'].
      + right; left; exact H.
      + destruct (IH srt H) as [H'|H']; [left; right; exact H' | right; right; exact H'].
    - destruct H as [H|H]; [left; left; exact H|]. destruct (IH srt H) as [H'|H']; [left; right; exact H' | right; exact H'].
  Qed.

  Lemma group_order_in {P} (x : ginfo P) G : In x (group_order G) -> In x G.
  Proof.
    unfold group_order, apply_position_restrictions. intros H.
    assert (Hs : forall y, In y (ssort sort_leb G) -> In y G).
    { intros y Hy. eapply Permutation.Permutation_in; [apply ssort_perm | exact Hy]. }
    destruct (Nat.ltb 1 _); [|apply Hs; exact H].
    apply replace_restricted_in in H. destruct H as [H|H]; [apply Hs; exact H|].
    eapply Permutation.Permutation_in in H; [|apply ssort_perm]. apply filter_In in H. apply Hs. apply H.
  Qed.

  Lemma ordered_kids_nth posrs titems mine e : In e (ordered_kids S posrs titems mine) ->
    nth_error titems (fst (fst e)) = Some (snd (fst e)).
  Proof.
    unfold ordered_kids. intros H. apply in_flat_map in H. destruct H as (g & Hg & He).
    apply group_order_in in Hg. unfold kid_entries in Hg. apply in_flat_map in Hg. destruct Hg as (p & Hp & Hg).
    apply in_map_iff in Hg. destruct Hg as (k & <- & Hk). cbn [payload] in He. destruct He as [<-|[]]. cbn [fst snd].
    destruct p as [[i ti] l]. cbn [fst snd]. apply in_combine_l in Hp.
    destruct (in_combine_seq titems 0 i ti Hp) as [H1 _]. rewrite Nat.sub_0_r in H1. exact H1.
  Qed.

  (* ---------- required items ---------- *)
  Lemma mult_ok_lengths titems : forall K1 K2, map (@length value) K1 = map (@length value) K2 -> mult_ok titems K1 = mult_ok titems K2.
  Proof.
    induction titems as [|ti r IH]; intros [|a K1] [|b K2] H; try discriminate; try reflexivity.
    cbn [map] in H. injection H as Hab HK. cbn [mult_ok]. rewrite (IH K1 K2 HK).
    destruct a, b; try discriminate; reflexivity.
  Qed.

  Lemma mult_check_fine titems : forall K, mult_ok titems K = true -> soft (multiplicity_check titems K c).
  Proof.
    induction titems as [|ti r IH]; intros K H; [intros s I; exists s; split; [reflexivity | apply adv_refl, (inv_pos s I)]|].
    destruct K as [|k K]; [intros s I; exists s; split; [reflexivity | apply adv_refl, (inv_pos s I)]|].
    cbn [mult_ok] in H. apply andb_true_iff in H. destruct H as [Hk HK]. cbn [multiplicity_check].
    apply soft_bind; [|apply IH; exact HK].
    destruct (ti_required ti); [|apply soft_ret]. destruct k; [|apply soft_ret].
    cbn [negb orb] in Hk. rewrite orb_false_r in Hk. rewrite Hk. apply soft_diag_log.
  Qed.

  Lemma upd_nth_lengths {A B} (K1 : list (list A)) (K2 : list (list B)) i f1 f2 :
    map (@length A) K1 = map (@length B) K2 -> (forall l1 l2, length l1 = length l2 -> length (f1 l1) = length (f2 l2)) ->
    map (@length A) (upd_nth K1 i f1) = map (@length B) (upd_nth K2 i f2).
  Proof.
    revert K2 i. induction K1 as [|a K1 IH]; intros [|b K2] i H Hf; cbn [map] in H; try discriminate; [reflexivity|].
    injection H as Hab HK. destruct i as [|i]; cbn [upd_nth map].
    - rewrite (Hf a b Hab), HK. reflexivity.
    - rewrite Hab, (IH K2 i HK Hf). reflexivity.
  Qed.

  Lemma fold_place_lengths r1 r2 es : forall K1 K2, map (@length value) K1 = map (@length value) K2 ->
    map (@length value) (fold_left (place r1) es K1) = map (@length value) (fold_left (place r2) es K2).
  Proof.
    induction es as [|e es IH]; intros K1 K2 H; [exact H|]. cbn [fold_left]. apply IH. unfold place.
    apply upd_nth_lengths; [exact H|]. intros l1 l2 Hl. destruct (ti_repeat (snd (fst e))); [rewrite !app_length, Hl; reflexivity | reflexivity].
  Qed.

  Lemma erase_lengths : forall A B : list (list value), map (map erase) A = map (map erase) B -> map (@length value) A = map (@length value) B.
  Proof.
    induction A as [|a A IH]; intros [|b B] H; try discriminate; [reflexivity|]. cbn [map] in *. injection H as Hab HAB.
    rewrite (IH B HAB). f_equal. rewrite <- (map_length erase a), Hab. apply map_length.
  Qed.

  (* ---------- all items of one element ---------- *)
  Section Items.
    Variable posrs : list (string * posr).
    Variable ifuel : nat.
    Variable w : value -> list shape.
    Variable rx : value -> value.
    Variable conf_rec : tydef -> value -> option shape -> bool.
    Hypothesis struct_fine : forall td x, struct_ok S ftab td x = true -> has_toks w x = true ->
      forall s ts rest', Inv s -> ps_ftab s = ftab -> ps_after s = ts ++ rest' -> map shape_of ts = w x ->
        exists x' s', rec td c 0 s = (ROk x', s') /\ adv ts s s' /\ erase x' = erase (rx x).
    Hypothesis struct_stop : forall sn td stop rest, lookup_ty S sn = Some td -> simple_struct S td = true ->
      stops S (FStruct sn) stop (hd_shape rest) = true ->
      forall s, Inv s -> ps_ftab s = ftab -> ps_after s = rest -> exists d s' tsx, rec td c 0 s = (RErr d, s') /\ adv tsx s s'.
    Hypothesis rx_struct : forall td x stop, struct_ok S ftab td x = true -> is_stopword stop (rx x) = false.
    Hypothesis kid_fine : forall td k nxt, conf_rec td k nxt = true ->
      forall newc so s ts rest', c_fileid newc = O -> Inv s -> ps_ftab s = ftab -> ps_after s = ts ++ rest' ->
        map shape_of ts = w k ++ closing (is_blockb td) (c_element newc) -> (is_blockb td = false -> hd_shape rest' = nxt) ->
        exists v' s', rec td newc so s = (ROk v', s') /\ adv ts s s' /\ erase v' = erase (rx k).

    Lemma entries_conv titems : tags_distinct titems = true -> forall es after,
      (forall e, In e es -> nth_error titems (fst (fst e)) = Some (snd (fst e))) ->
      entries_ok S conf_rec es after = true -> entries_fine titems w rx es after.
    Proof.
      intros Hd. induction es as [|e es IH]; intros after Hin Hok; [exact I|].
      cbn [entries_ok] in Hok. apply andb_true_iff in Hok. destruct Hok as [He Hes]. cbn [entries_fine].
      split; [|apply IH; [intros e' He'; apply Hin; right; exact He' | exact Hes]].
      unfold entry_ok in He. unfold entry_fine. destruct e as [[i ti] k]. cbn [fst snd] in *.
      destruct (lookup_ty S (ti_type ti)) as [td|] eqn:El; [|discriminate].
      apply andb_true_iff in He. destruct He as [He Hconf]. apply andb_true_iff in He. destruct He as [He _].
      apply andb_true_iff in He. destruct He as [Hsp Hblk]. apply eqb_prop in Hblk.
      exists td. split.
      { pose proof (find_titem_nth titems i ti O Hd (Hin (i, ti, k) (or_introl eq_refl))) as F. cbn [Nat.add] in F. exact F. }
      split; [reflexivity|]. split; [destruct (t_special td); [discriminate | reflexivity]|].
      intros newc so s ts rest' Hfid Hel I Hf Ha Hm Hn.
      apply (kid_fine td k _ Hconf newc so s ts rest' Hfid I Hf Ha); [rewrite <- Hblk, Hel; exact Hm | rewrite <- Hblk; exact Hn].
    Qed.

    Lemma kid_toks_nonempty ti inner : kid_toks ti inner <> [].
    Proof. unfold kid_toks. destruct (ti_block ti); discriminate. Qed.

    Lemma items_frame is_block : forall its fields kids after facc kacc ts s rest,
      Inv s -> ps_ftab s = ftab ->
      items_ok S posrs ftab conf_rec w is_block its fields kids after = true ->
      map shape_of ts = items_toks S posrs ftab w its fields kids -> ps_after s = ts ++ rest -> hd_shape rest = after ->
      (is_block = true -> after = Some (TEnd, end_text)) ->
      exists fs' ks' s', parse_items S rec ifuel its is_block c facc kacc [] s = (ROk (facc ++ fs', kacc ++ ks', []), s') /\ adv ts s s' /\
        map erase fs' = map erase (fst (re_items S posrs rx its fields kids)) /\
        map (map erase) ks' = map (map erase) (snd (re_items S posrs rx its fields kids)).
    Proof.
      induction its as [|it its IH]; intros fields kids after facc kacc ts s rest I Hf Hok Hm Ha Hn Hblk.
      - cbn [items_toks] in Hm. apply map_eq_nil in Hm. subst ts. exists [], [], s. rewrite !app_nil_r.
        split; [reflexivity|]. split; [apply adv_refl, (inv_pos s I)|]. split; reflexivity.
      - destruct it as [fname ty | union last titems].
        + (* a field *)
          cbn [items_ok] in Hok. destruct fields as [|fv fr]; [discriminate|].
          apply andb_true_iff in Hok. destruct Hok as [Hfo Hro].
          cbn [items_toks] in Hm. apply map_eq_app in Hm. destruct Hm as (t1 & t2 & -> & Hm1 & Hm2).
          rewrite <- app_assoc in Ha.
          assert (Hnx : hd_shape (t2 ++ rest) = first_or (items_toks S posrs ftab w its fr kids) after).
          { rewrite hd_shape_app, Hm2, Hn. reflexivity. }
          destruct (field_frame w rx struct_fine struct_stop rx_struct ty fv _ t1 s (t2 ++ rest) I Hf Hfo Hm1 Ha Hnx) as (v' & s1 & E1 & A1 & Ev).
          assert (I1 : Inv s1) by (eapply adv_inv; eassumption).
          assert (Hf1 : ps_ftab s1 = ftab) by (rewrite (se_ftab _ _ (adv_static _ _ _ A1)); exact Hf).
          assert (Ha1 : ps_after s1 = t2 ++ rest).
          { pose proof (adv_after _ _ _ A1) as Q. rewrite Ha in Q. apply app_inv_head in Q. symmetry. exact Q. }
          destruct (IH fr kids after (facc ++ [v']) kacc t2 s1 rest I1 Hf1 Hro Hm2 Ha1 Hn Hblk) as (fs' & ks' & s2 & E2 & A2 & Ef & Ek).
          exists (v' :: fs'), ks', s2. cbn [parse_items]. rewrite (bind_ok _ _ _ _ _ E1). rewrite E2, <- app_assoc.
          split; [reflexivity|]. split; [apply (adv_trans _ _ _ _ _ A1 A2)|].
          cbn [re_items]. destruct (re_items S posrs rx its fr kids) as [fs0 ks0] eqn:Er. cbn [fst snd] in *.
          split; [cbn [map]; rewrite Ev, Ef; reflexivity | exact Ek].
        + (* the group of tagged items: last item of a block *)
          cbn [items_ok] in Hok.
          apply andb_true_iff in Hok. destruct Hok as [Hok Hmu].
          apply andb_true_iff in Hok. destruct Hok as [Hok Hen].
          apply andb_true_iff in Hok. destruct Hok as [Hok Htd].
          apply andb_true_iff in Hok. destruct Hok as [Hok Hlk].
          apply andb_true_iff in Hok. destruct Hok as [Hok Hfe].
          apply andb_true_iff in Hok. destruct Hok as [Hok Hre].
          apply andb_true_iff in Hok. destruct Hok as [Hun Hib].
          apply negb_true_iff in Hun. subst union.
          destruct its as [|]; [|discriminate]. destruct fields as [|]; [|discriminate].
          apply Nat.eqb_eq in Hlk. subst is_block. specialize (Hblk eq_refl). subst after.
          cbn [items_toks] in Hm. rewrite app_nil_r in Hm. rewrite <- Hlk, firstn_all in Hm. unfold group_toks in Hm.
          cbn [parse_items].
          assert (Hrem : remaining s = (ROk (length (ps_after s)), s)) by reflexivity.
          rewrite (bind_ok _ _ _ _ _ Hrem).
          set (es := ordered_kids S posrs titems kids) in *.
          assert (Hfine : entries_fine titems w rx es (Some (TEnd, end_text))).
          { apply entries_conv; [exact Htd | intros e He; apply (ordered_kids_nth posrs titems kids e He) | rewrite <- Hblk; exact Hen]. }
          assert (Hlen : (length es < Datatypes.S (Datatypes.S (length (ps_after s))))%nat).
          { assert (length es <= length (flat_map (fun e : entry => kid_toks (snd (fst e)) (w (snd e))) es))%nat
              by (apply flat_map_length_ge; intros e _; apply kid_toks_nonempty).
            rewrite <- Hm, map_length in H. rewrite Ha, app_length. lia. }
          destruct (loop_frame ifuel titems last w rx rest Hblk es (map (fun _ => []) titems) [] ts s _ I Hf Hlen Hfine Hm Ha)
            as (kids' & s1 & E1 & A1 & HK).
          rewrite (bind_ok _ _ _ _ _ E1). cbn [fst snd].
          assert (I1 : Inv s1) by (eapply adv_inv; eassumption).
          specialize (HK (map (fun _ => []) titems) eq_refl). fold (regroup S posrs rx titems kids) in HK.
          assert (Hmult : mult_ok titems kids' = true).
          { rewrite <- Hmu. apply mult_ok_lengths.
            transitivity (map (@length value) (regroup S posrs rx titems kids)).
            - apply erase_lengths. exact HK.
            - unfold regroup. apply fold_place_lengths. reflexivity. }
          destruct (mult_check_fine titems kids' Hmult s1 I1) as (s2 & E2 & A2).
          rewrite (bind_ok _ _ _ _ _ E2). cbn [parse_items ret].
          exists [], kids', s2. rewrite app_nil_r. split; [reflexivity|]. split.
          { rewrite <- (app_nil_r ts). apply (adv_trans _ _ _ _ _ A1 A2). }
          cbn [re_items]. rewrite <- Hlk, firstn_all, ?skipn_all. cbn [re_items fst snd]. rewrite ?app_nil_r.
          split; [reflexivity | exact HK].
    Qed.
  End Items.
End RT.

(* ====================================================================== the element parser *)
Section Frame.
  Variable S : spec.
  Variable posrs : list (string * posr).
  Variable ftab : list fentry.
  Variable ifuel : nat.

  Lemma reorder_node f ty lay fs ks cms : exists fs' ks', reorder S posrs f (VNode ty lay fs ks cms) = VNode ty lay fs' ks' cms.
  Proof.
    destruct f as [|f]; [exists fs, ks; reflexivity|]. cbn [reorder].
    destruct (lookup_ty S ty) as [td|]; [|exists fs, ks; reflexivity].
    destruct (re_items S posrs (reorder S posrs f) (t_items td) fs ks) as [fs' ks']. exists fs', ks'. reflexivity.
  Qed.

  (* a value of a simple struct conforms as an element, whatever follows *)
  Lemma struct_items_ok cr w its : forall fields after,
    forallb (fun it => match it with IField _ ty => simple_ty ty && known_ty S ty | ITagged _ _ _ => false end) its = true ->
    struct_fields_ok S ftab its fields = true -> items_ok S posrs ftab cr w false its fields [] after = true.
  Proof.
    induction its as [|it its IH]; intros fields after Hs Hok.
    - destruct fields; [reflexivity | discriminate].
    - cbn [forallb] in Hs. apply andb_true_iff in Hs. destruct Hs as [Hi Hs]. destruct it as [n ty|]; [|discriminate].
      cbn [struct_fields_ok] in Hok. destruct fields as [|fv fr]; [discriminate|].
      apply andb_true_iff in Hok. destruct Hok as [Hx Hr]. cbn [items_ok]. rewrite (IH fr after Hs Hr), andb_true_r.
      apply andb_true_iff in Hi. destruct Hi as [Hi _]. destruct ty; try discriminate; exact Hx.
  Qed.

  Lemma struct_conf g td x nxt : struct_ok S ftab td x = true -> confb S posrs ftab (Datatypes.S g) td x nxt = true.
  Proof.
    unfold struct_ok. intros H. apply andb_true_iff in H. destruct H as [Hs H].
    destruct x as [| |ty lay fields kids cms|]; try discriminate.
    repeat (apply andb_true_iff in H; let X := fresh "X" in destruct H as [H X]).
    unfold simple_struct in Hs. repeat (apply andb_true_iff in Hs; let Y := fresh "Y" in destruct Hs as [Hs Y]).
    destruct kids; [|discriminate]. destruct cms; [|discriminate].
    cbn [confb]. rewrite H, X2. cbn [andb].
    destruct (t_special td); [discriminate|]. destruct (t_kind td) eqn:Ek; try discriminate.
    unfold is_blockb. rewrite Ek. cbn [andb]. apply struct_items_ok; assumption.
  Qed.

  Lemma struct_not_block td : simple_struct S td = true -> is_blockb td = false.
  Proof.
    unfold simple_struct, is_blockb. intros H. repeat (apply andb_true_iff in H; let Y := fresh "Y" in destruct H as [H Y]).
    destruct (t_kind td); try discriminate; reflexivity.
  Qed.

  Definition frame_at (f : nat) : Prop :=
    forall F td v c so s ts rest nxt, (f < F)%nat -> c_fileid c = O -> Inv s -> ps_ftab s = ftab ->
      confb S posrs ftab f td v nxt = true -> ps_after s = ts ++ rest ->
      map shape_of ts = wtoks S posrs ftab f v ++ closing (is_blockb td) (c_element c) ->
      (is_blockb td = false -> hd_shape rest = nxt) ->
      exists v' s', parse_ty F S ifuel td c so s = (ROk v', s') /\ adv ts s s' /\ erase v' = erase (reorder S posrs f v).

  Theorem frame : forall f, frame_at f.
  Proof.
    induction f as [|f IH]; intros F td v c so s ts rest nxt HF Hc I Hf Hconf Ha Hm Hn; [discriminate|].
    destruct F as [|F]; [inversion HF|]. assert (HF' : (f < F)%nat) by lia.
    cbn [confb] in Hconf. destruct v as [| |ty lay fields kids cms|]; try discriminate.
    apply andb_true_iff in Hconf. destruct Hconf as [Hconf Hitems].
    apply andb_true_iff in Hconf. destruct Hconf as [Hconf Hcms].
    apply andb_true_iff in Hconf. destruct Hconf as [Hconf Hkind].
    apply andb_true_iff in Hconf. destruct Hconf as [Hconf Hsp].
    apply andb_true_iff in Hconf. destruct Hconf as [Hname Hlk].
    apply String.eqb_eq in Hname. subst ty.
    destruct (lookup_ty S (t_name td)) as [td'|] eqn:El; [|discriminate]. apply tydef_eqb_eq in Hlk. subst td'.
    destruct cms; [|discriminate]. destruct (t_special td) eqn:Esp; [discriminate|].
    cbn [wtoks] in Hm. rewrite El, Esp in Hm.
    apply map_eq_app in Hm. destruct Hm as (t1 & t2 & -> & Hm1 & Hm2). rewrite <- app_assoc in Ha.
    set (after := if is_blockb td then Some (TEnd, end_text) else nxt) in *.
    assert (Hafter : hd_shape (t2 ++ rest) = after).
    { subst after. unfold closing in Hm2. destruct (is_blockb td).
      - destruct t2 as [|tE t2']; [discriminate|]. cbn [map] in Hm2. cbn [app hd_shape]. f_equal. congruence.
      - apply map_eq_nil in Hm2. subst t2. apply Hn. reflexivity. }
    cbn [parse_ty]. unfold parse_body.
    assert (G1 : get_incfilename (c_fileid c) s = (ROk (if Nat.eqb (c_fileid c) 0 || Nat.leb (ps_nfiles s) (c_fileid c) then None else Some (c_fileid c)), s)) by reflexivity.
    rewrite (bind_ok _ _ _ _ _ G1).
    assert (G2 : get_next_id s = (ROk (ps_seq s + 1), upd_seq s (ps_seq s + 1))) by reflexivity.
    rewrite (bind_ok _ _ _ _ _ G2).
    set (s0 := upd_seq s (ps_seq s + 1)).
    assert (A0 : adv [] s s0) by (constructor; [reflexivity | reflexivity | constructor; reflexivity | exact (inv_pos s I)]).
    assert (I0 : Inv s0) by (eapply adv_inv; eassumption).
    assert (Hf0 : ps_ftab s0 = ftab) by exact Hf.
    assert (Ha0 : ps_after s0 = t1 ++ t2 ++ rest) by exact Ha.
    (* the hypotheses of items_frame *)
    assert (SF : forall tdx x, struct_ok S ftab tdx x = true -> has_toks (wtoks S posrs ftab f) x = true ->
              forall s1 ts1 rest1, Inv s1 -> ps_ftab s1 = ftab -> ps_after s1 = ts1 ++ rest1 -> map shape_of ts1 = wtoks S posrs ftab f x ->
              exists x' s', parse_ty F S ifuel tdx c 0 s1 = (ROk x', s') /\ adv ts1 s1 s' /\ erase x' = erase (reorder S posrs f x)).
    { intros tdx x Hso Hht s1 ts1 rest1 I1 Hf1 Ha1 Hm1'.
      destruct f as [|g]; [unfold has_toks in Hht; cbn [wtoks] in Hht; discriminate|].
      assert (Hnb : is_blockb tdx = false).
      { apply struct_not_block. unfold struct_ok in Hso. apply andb_true_iff in Hso. apply Hso. }
      apply (IH F tdx x c 0 s1 ts1 rest1 (hd_shape rest1) HF' Hc I1 Hf1 (struct_conf g tdx x _ Hso) Ha1);
        [rewrite Hnb; unfold closing; rewrite app_nil_r; exact Hm1' | reflexivity]. }
    assert (SS : forall sn tdx stop rest1, lookup_ty S sn = Some tdx -> simple_struct S tdx = true ->
              stops S (FStruct sn) stop (hd_shape rest1) = true ->
              forall s1, Inv s1 -> ps_ftab s1 = ftab -> ps_after s1 = rest1 ->
              exists d s' tsx, parse_ty F S ifuel tdx c 0 s1 = (RErr d, s') /\ adv tsx s1 s').
    { intros sn tdx stop rest1 Hl Hss Hst s1 I1 Hf1 Ha1.
      destruct F as [|F0]; [inversion HF'|]. cbn [parse_ty]. unfold parse_body.
      assert (G1' : get_incfilename (c_fileid c) s1 = (ROk (if Nat.eqb (c_fileid c) 0 || Nat.leb (ps_nfiles s1) (c_fileid c) then None else Some (c_fileid c)), s1)) by reflexivity.
      rewrite (bind_ok _ _ _ _ _ G1').
      assert (G2' : get_next_id s1 = (ROk (ps_seq s1 + 1), upd_seq s1 (ps_seq s1 + 1))) by reflexivity.
      rewrite (bind_ok _ _ _ _ _ G2').
      set (s2 := upd_seq s1 (ps_seq s1 + 1)).
      assert (A2 : adv [] s1 s2) by (constructor; [reflexivity | reflexivity | constructor; reflexivity | exact (inv_pos s1 I1)]).
      assert (I2 : Inv s2) by (eapply adv_inv; eassumption).
      unfold simple_struct in Hss. repeat (apply andb_true_iff in Hss; let Y := fresh "Y" in destruct Hss as [Hss Y]).
      destruct (t_items tdx) as [|it its] eqn:Eit; [discriminate|]. cbn [forallb] in Y. apply andb_true_iff in Y. destruct Y as [Yi _].
      destruct it as [n1 t1'|]; [|discriminate]. apply andb_true_iff in Yi. destruct Yi as [Ysim Ykn].
      cbn [parse_items].
      assert (Hpf : parse_field S (parse_ty F0 S ifuel) t1' c = parse_scalar_field S (parse_ty F0 S ifuel) t1' c) by (destruct t1'; try discriminate; reflexivity).
      rewrite Hpf.
      unfold stops in Hst. cbn [expects] in Hst. rewrite Hl, Eit in Hst.
      destruct rest1 as [|t r].
      - destruct (scalar_eof c Hc S (parse_ty F0 S ifuel) t1' s2 I2 Ysim Ykn Ha1) as (d & E). exists d, s2, [].
        split; [apply bind_err; apply bind_err; exact E | exact A2].
      - cbn [hd_shape] in Hst. unfold shape_of in Hst. rewrite andb_false_l, orb_false_r in Hst. apply negb_true_iff in Hst.
        destruct (scalar_wrong c Hc S (parse_ty F0 S ifuel) t1' s2 t r I2 Ysim Ykn Ha1 Hst) as (d & s3 & E & A3). exists d, s3, [t].
        split; [apply bind_err; apply bind_err; exact E | apply (adv_trans [] [t] _ _ _ A2 A3)]. }
    assert (RS : forall tdx x stop, struct_ok S ftab tdx x = true -> is_stopword stop (reorder S posrs f x) = false).
    { intros tdx x stop Hso. unfold struct_ok in Hso. apply andb_true_iff in Hso. destruct Hso as [_ Hso].
      destruct x as [| |ty1 lay1 fs1 ks1 cms1|]; try discriminate.
      destruct (reorder_node f ty1 lay1 fs1 ks1 cms1) as (fs' & ks' & ->). reflexivity. }
    assert (KF : forall tdk k nx, confb S posrs ftab f tdk k nx = true ->
              forall newc so1 s1 ts1 rest1, c_fileid newc = O -> Inv s1 -> ps_ftab s1 = ftab -> ps_after s1 = ts1 ++ rest1 ->
                map shape_of ts1 = wtoks S posrs ftab f k ++ closing (is_blockb tdk) (c_element newc) ->
                (is_blockb tdk = false -> hd_shape rest1 = nx) ->
                exists v' s', parse_ty F S ifuel tdk newc so1 s1 = (ROk v', s') /\ adv ts1 s1 s' /\ erase v' = erase (reorder S posrs f k)).
    { intros tdk k nx Hk newc so1 s1 ts1 rest1 Hnc I1 Hf1 Ha1 Hm1' Hn1.
      apply (IH F tdk k newc so1 s1 ts1 rest1 nx HF' Hnc I1 Hf1 Hk Ha1 Hm1' Hn1). }
    assert (Hblk : is_blockb td = true -> after = Some (TEnd, end_text)) by (subst after; intros ->; reflexivity).
    destruct (items_frame c Hc S ftab (parse_ty F S ifuel) posrs ifuel (wtoks S posrs ftab f) (reorder S posrs f) (confb S posrs ftab f)
                SF SS RS KF (is_blockb td) (t_items td) fields kids after [] [] t1 s0 (t2 ++ rest) I0 Hf0 Hitems Hm1 Ha0 Hafter Hblk)
      as (fs' & ks' & s1 & E1 & A1 & Efs & Eks).
    rewrite (bind_ok _ _ _ _ _ E1). cbn [app].
    assert (I1 : Inv s1) by (eapply adv_inv; eassumption).
    assert (Ha1 : ps_after s1 = t2 ++ rest).
    { pose proof (adv_after _ _ _ A1) as Q. rewrite Ha0 in Q. apply app_inv_head in Q. symmetry. exact Q. }
    assert (Hre : erase (reorder S posrs (Datatypes.S f) (VNode (t_name td) lay fields kids [])) =
                  VNode (t_name td) lay0 (map erase fs') (map (map erase) ks') []).
    { cbn [reorder]. rewrite El. destruct (re_items S posrs (reorder S posrs f) (t_items td) fields kids) as [fs0 ks0].
      cbn [fst snd] in *. cbn [erase]. rewrite Efs, Eks. reflexivity. }
    rewrite Hre. unfold closing in Hm2. unfold is_blockb in *. destruct (t_kind td) eqn:Ek.
    - (* block: /end TAG *)
      destruct t2 as [|tE [|tI [|? ?]]]; try discriminate. cbn [map] in Hm2.
      assert (HE0 : shape_of tE = (TEnd, end_text)) by congruence.
      assert (HI0 : shape_of tI = (TIdentifier, c_element c)) by congruence.
      unfold shape_of in HE0, HI0. apply pair_equal_spec in HE0. destruct HE0 as [HE _].
      apply pair_equal_spec in HI0. destruct HI0 as [HI HItx].
      cbn [app] in Ha1.
      destruct (expect_fine c TEnd s1 tE (tI :: rest) I1 Ha1 HE) as (s2 & E2 & A2).
      assert (I2 : Inv s2) by (eapply adv_inv; eassumption).
      destruct (glo_fine s2 I2) as (eo & G).
      assert (Ha2 : ps_after s2 = tI :: rest).
      { pose proof (adv_after _ _ _ A2) as Q. rewrite Ha1 in Q. cbn [app] in Q. injection Q as Q. symmetry. exact Q. }
      destruct (get_identifier_fine c Hc s2 tI rest I2 Ha2 HI) as (s3 & E3 & A3).
      assert (Hend : (expect_token c TEnd ;;; eo <-- get_line_offset ;; end_tag_check c (c_element c) ;;; ret eo) s1 = (ROk eo, s3)).
      { rewrite (bind_ok _ _ _ _ _ E2), (bind_ok _ _ _ _ _ G). unfold end_tag_check.
        unfold bindM at 1. unfold bindM at 1. rewrite E3. rewrite HItx, bytes_eqb_refl. reflexivity. }
      rewrite (bind_ok _ _ _ _ _ Hend). cbn [ret].
      eexists; exists s3. split; [reflexivity|]. split.
      + replace (t1 ++ [tE; tI]) with (([] ++ t1) ++ [tE] ++ [tI]) by reflexivity.
        apply (adv_trans _ _ _ _ _ (adv_trans _ _ _ _ _ A0 A1)). apply (adv_trans _ _ _ _ _ A2 A3).
      + reflexivity.
    - apply map_eq_nil in Hm2. subst t2. cbn [ret bindM]. eexists; exists s1. split; [reflexivity|]. split.
      + rewrite app_nil_r. apply (adv_trans [] t1 _ _ _ A0 A1).
      + reflexivity.
    - apply map_eq_nil in Hm2. subst t2. cbn [ret bindM]. eexists; exists s1. split; [reflexivity|]. split.
      + rewrite app_nil_r. apply (adv_trans [] t1 _ _ _ A0 A1).
      + reflexivity.
    - discriminate.
  Qed.
End Frame.

Print Assumptions frame.
