(** The strict / non-strict decision is made in exactly one place (error_or_log); diagnostics carry the
    position of the last token taken.  Simulation: a computation built from the primitives without
    catching errors that succeeds in strict mode succeeds in non-strict mode with the same value, the same
    cursor and the same log. *)
From Coq Require Import Ascii String List Bool NArith ZArith.
From A2L Require Import Text.Escape Text.IntText Lex.Tokenizer Gram.Spec Gram.PState.
Import ListNotations.

Lemma error_or_log_strict d s : ps_strict s = true -> error_or_log d s = (RErr d, s).
Proof. intros H. unfold error_or_log. rewrite H. reflexivity. Qed.

Lemma error_or_log_lenient d s : ps_strict s = false -> error_or_log d s = (ROk tt, upd_log s (d :: ps_log s)).
Proof. intros H. unfold error_or_log. rewrite H. reflexivity. Qed.

(* every diagnostic built by the parser carries the file of its context and the line of the last token taken *)
Lemma mk_diag_location variant c key s d s' : mk_diag variant c key s = (ROk d, s') ->
  s' = s /\ d_line d = Some (ps_last s) /\ d_fileid d = c_fileid c /\ d_variant d = variant /\ d_key d = key.
Proof.
  unfold mk_diag. destruct (Nat.ltb (c_fileid c) (ps_nfiles s)); intros H; inversion H; subst. repeat split.
Qed.

Lemma get_token_sets_last c s t s' : get_token c s = (ROk t, s') -> ps_last s' = tk_line t.
Proof.
  unfold get_token. destruct (ps_after s) as [|x a]; [|intros H; inversion H; subst; reflexivity].
  unfold bindM, eof_diag, mk_diag, fail. destruct (Nat.ltb (c_fileid c) (ps_nfiles s)); discriminate.
Qed.

(* ---------- simulation between the two modes ---------- *)
(* same state except for the strictness flag *)
Definition lenient_of (s : pstate) : pstate :=
  mkPS (ps_before s) (ps_after s) (ps_first_line s) (ps_last s) (ps_seq s) (ps_log s) false (ps_ver s)
       (ps_nfiles s) (ps_ftab s) (ps_pos s) (ps_kept s) (ps_specs s) (ps_a2ml s).

(* [m] succeeds in non-strict mode whenever it succeeds in strict mode, with the same value and the same state *)
Definition sim {A} (m : M A) : Prop :=
  forall s a s', ps_strict s = true -> m s = (ROk a, s') ->
                 ps_strict s' = true /\ m (lenient_of s) = (ROk a, lenient_of s').

(* [m] does not look at the flag at all *)
Definition indep {A} (m : M A) : Prop :=
  forall s, (let '(r, s') := m s in ps_strict s' = ps_strict s /\ m (lenient_of s) = (r, lenient_of s')).

Lemma indep_sim {A} (m : M A) : indep m -> sim m.
Proof.
  intros H s a s' Hs Hm. specialize (H s). rewrite Hm in H. destruct H as [H1 H2]. split; [congruence | exact H2].
Qed.

Lemma sim_ret {A} (a : A) : sim (ret a).
Proof. intros s x s' Hs H. inversion H; subst. split; [exact Hs | reflexivity]. Qed.

Lemma sim_bind {A B} (m : M A) (f : A -> M B) : sim m -> (forall a, sim (f a)) -> sim (bindM m f).
Proof.
  intros Hm Hf s b s' Hs H. unfold bindM in *.
  destruct (m s) as [[a| | |] s1] eqn:E; try discriminate.
  destruct (Hm s a s1 Hs E) as [Hs1 E']. rewrite E'.
  apply (Hf a s1 b s' Hs1 H).
Qed.

Lemma sim_error_or_log d : sim (error_or_log d).
Proof.
  intros s a s' Hs H. rewrite error_or_log_strict in H by exact Hs. discriminate.
Qed.

Lemma indep_fail {A} d : indep (@fail A d).
Proof. intros s. simpl. split; reflexivity. Qed.

Lemma indep_mk_diag v c k : indep (mk_diag v c k).
Proof.
  intros s. unfold mk_diag. cbn [ps_nfiles lenient_of ps_last].
  destruct (Nat.ltb (c_fileid c) (ps_nfiles s)); split; reflexivity.
Qed.

Lemma indep_peek : indep peek_token.
Proof. intros s. unfold peek_token. cbn. split; reflexivity. Qed.

Lemma indep_get_token c : indep (get_token c).
Proof.
  intros s. unfold get_token. cbn [ps_after lenient_of].
  destruct (ps_after s) as [|t a]; [|cbn; split; reflexivity].
  unfold bindM, eof_diag, mk_diag, fail. cbn [ps_nfiles ps_last lenient_of].
  destruct (Nat.ltb (c_fileid c) (ps_nfiles s)); split; reflexivity.
Qed.

Lemma indep_undo : indep undo_get_token.
Proof. intros s. unfold undo_get_token. cbn [ps_before lenient_of]. destruct (ps_before s); cbn; split; reflexivity. Qed.

Lemma indep_get_next_id : indep get_next_id.
Proof. intros s. unfold get_next_id. cbn. split; reflexivity. Qed.

Lemma indep_get_line_offset : indep get_line_offset.
Proof.
  intros s. unfold get_line_offset. cbn [ps_before ps_after ps_pos ps_kept ps_first_line lenient_of].
  destruct (ps_before s) as [|cur [|p r]]; destruct (ps_after s) as [|x a].
  1-5: destruct (ps_first_line s) as [l|]; [destruct (N.leb 1 l)|]; split; reflexivity.
  destruct (find_prev (p :: r) (ps_pos s - 2) (ps_kept s)) as [[prev prev_pos]|]; [|split; reflexivity].
  repeat match goal with |- context [if ?c then _ else _] => destruct c end; split; reflexivity.
Qed.

(* the recoverable-problem sites of the primitives: strict success means the problem did not occur *)
Lemma sim_handle_multiplicity c tag b : sim (handle_multiplicity_error c tag b).
Proof.
  unfold handle_multiplicity_error. destruct b; [|apply sim_ret].
  apply sim_bind; [apply indep_sim, indep_mk_diag | intros d; apply sim_error_or_log].
Qed.

Lemma sim_check_block_version_lower c tag v : sim (check_block_version_lower c tag v).
Proof.
  intros s a s' Hs H. unfold check_block_version_lower in *. cbn [ps_ver lenient_of].
  destruct (version_ltb (ps_ver s) v).
  - exfalso. unfold bindM in H. destruct (mk_diag "BlockRefTooNew" c tag s) as [[d| | |] s1] eqn:E; try discriminate.
    apply mk_diag_location in E. destruct E as [-> _]. rewrite error_or_log_strict in H by exact Hs. discriminate.
  - inversion H; subst. split; [exact Hs | reflexivity].
Qed.
