(** C09: a reference of B designates, after the merge, the representative of its original target -
    exactly at the sites the rename functions visit. *)
From Coq Require Import List NArith Bool Ascii Lia.
From A2L Require Import Base.ListX Text.Escape Lex.Tokenizer Lib.Merge Lib.MergeRefs Proofs.MergeProofs.
Import ListNotations.

(* the element that stands for B's element m in the result *)
Definition representative (orig merge : list item) (m : item) : item :=
  match classify orig merge m with CRen nn => set_name m nn | _ => m end.

Lemma representative_same_content orig merge m :
  it_kind (representative orig merge m) = it_kind m /\ it_body (representative orig merge m) = it_body m.
Proof. unfold representative. destruct (classify orig merge m); simpl; auto. Qed.

Lemma lookup_first_app_l t a b x : lookup_first t a = Some x -> lookup_first t (a ++ b) = Some x.
Proof.
  unfold lookup_first. induction a as [|y a IH]; simpl; [discriminate|].
  destruct (named t y); auto.
Qed.
Lemma lookup_first_app_r t a b : lookup_first t a = None -> lookup_first t (a ++ b) = lookup_first t b.
Proof.
  unfold lookup_first. induction a as [|y a IH]; simpl; [reflexivity|].
  destruct (named t y); [discriminate | auto].
Qed.

Lemma representative_added orig merge m : In m merge -> classify orig merge m <> CSkip ->
  In (representative orig merge m) (flat_map (repr orig merge) merge).
Proof.
  intros Hm Hc. apply in_flat_map. exists m. split; [exact Hm|].
  unfold repr, representative. destruct (classify orig merge m); [congruence | left; reflexivity | left; reflexivity].
Qed.

Lemma rename_target_spec orig merge act ren m : NoDup (names merge) ->
  calc_actions orig merge = Some (act, ren) -> In m merge ->
  rename_target ren (it_name m) = it_name (representative orig merge m).
Proof.
  intros Hn Hc Hm. destruct (calc_actions_spec orig merge Hn) as (act' & ren' & E & H).
  rewrite E in Hc. inversion Hc; subst. destruct (H m Hm) as [_ Hr].
  unfold rename_target, representative. rewrite Hr. destruct (classify orig merge m); reflexivity.
Qed.

(** the name under which the representative is stored resolves to the representative *)
Lemma representative_resolves orig merge m : NoDup (names merge) -> In m merge ->
  resolve (it_name (representative orig merge m)) (orig ++ flat_map (repr orig merge) merge)
  = Some (representative orig merge m).
Proof.
  intros Hn Hm. unfold resolve. pose proof (classify_cases orig merge m) as Hc.
  unfold representative. destruct (classify orig merge m) as [| |nn] eqn:E.
  - (* shared: A holds the very same element *)
    apply lookup_first_app_l. unfold classify in E.
    destruct (lookup_first (it_name m) orig) as [o|] eqn:El; [|discriminate].
    destruct (item_eqb o m) eqn:Eq; [apply item_eqb_eq in Eq; subst; reflexivity|].
    destruct (make_unique_name_total (it_name m) orig merge) as [c Hu]. rewrite Hu in E. discriminate.
  - (* new: not in A, added as it is *)
    rewrite lookup_first_app_r by (apply lookup_first_none; exact Hc).
    apply lookup_first_self; [apply added_names_nodup; exact Hn|].
    replace m with (representative orig merge m) by (unfold representative; rewrite E; reflexivity).
    apply representative_added; [exact Hm | congruence].
  - (* renamed: the fresh name is not in A *)
    destruct Hc as [_ Hu]. apply make_unique_name_fresh in Hu. destruct Hu as (Hf & _ & _).
    assert (R : representative orig merge m = set_name m nn) by (unfold representative; rewrite E; reflexivity).
    rewrite lookup_first_app_r by (apply lookup_first_none; simpl; exact Hf).
    apply lookup_first_self; [apply added_names_nodup; exact Hn|].
    rewrite <- R. apply representative_added; [exact Hm | congruence].
Qed.

(** C09 at a covered site: the reference designates the representative of its original target *)
Theorem covered_reference_preserved covered orig merge slots res slots' s x :
  NoDup (names merge) -> merge_with_refs covered orig merge slots = Some (res, slots') ->
  In s slots -> covered (sl_site s) = true ->
  resolve (sl_target s) merge = Some x ->                       (* B is consistent: the reference designated x *)
  In (rename_slot covered (match calc_actions orig merge with Some (_, r) => r | None => [] end) s) slots' /\
  resolve (sl_target (rename_slot covered (match calc_actions orig merge with Some (_, r) => r | None => [] end) s)) res
  = Some (representative orig merge x) /\
  it_kind (representative orig merge x) = it_kind x /\ it_body (representative orig merge x) = it_body x.
Proof.
  intros Hn Hm Hs Hc Hx. unfold merge_with_refs in Hm.
  destruct (calc_actions orig merge) as [[act ren]|] eqn:Ec; [|discriminate]. inversion Hm; subst; clear Hm.
  split; [apply in_map; exact Hs|].
  apply lookup_first_some in Hx. destruct Hx as [Hxin Hxn].
  split; [|apply representative_same_content].
  unfold rename_slot. rewrite Hc. simpl. rewrite <- Hxn.
  rewrite (rename_target_spec orig merge act ren x Hn Ec Hxin).
  pose proof (merge_ns_spec orig merge Hn) as Hspec. unfold merge_ns in Hspec. rewrite Ec in Hspec.
  inversion Hspec as [Hres]. rewrite Hres. apply representative_resolves; assumption.
Qed.

(** ... and at a site that is not visited, a reference to a renamed element silently designates A's
    element of the same name, which is a different element *)
Theorem uncovered_reference_retargeted covered orig merge slots res slots' s x nn :
  NoDup (names merge) -> merge_with_refs covered orig merge slots = Some (res, slots') ->
  In s slots -> covered (sl_site s) = false ->
  resolve (sl_target s) merge = Some x -> classify orig merge x = CRen nn ->
  In s slots' /\ exists o, resolve (sl_target s) res = Some o /\ In o orig /\ o <> x /\
                           o <> representative orig merge x.
Proof.
  intros Hn Hm Hs Hc Hx Hcl. unfold merge_with_refs in Hm.
  destruct (calc_actions orig merge) as [[act ren]|] eqn:Ec; [|discriminate]. inversion Hm; subst; clear Hm.
  split.
  { apply in_map_iff. exists s. split; [|exact Hs]. unfold rename_slot. rewrite Hc. reflexivity. }
  apply lookup_first_some in Hx. destruct Hx as [Hxin Hxn]. pose proof Hcl as Hcl0.
  unfold classify in Hcl. destruct (lookup_first (it_name x) orig) as [o|] eqn:El; [|discriminate].
  destruct (item_eqb o x) eqn:Eq; [discriminate|].
  exists o. rewrite <- Hxn. split; [apply lookup_first_app_l; exact El|].
  apply lookup_first_some in El. destruct El as [Hoin Hon].
  split; [exact Hoin|]. split.
  - intros ->. assert (item_eqb x x = true) by (apply item_eqb_eq; reflexivity). congruence.
  - destruct (make_unique_name (it_name x) orig merge) as [c|] eqn:Eu; [|discriminate].
    inversion Hcl; subst c. intros Heq.
    unfold representative in Heq. rewrite Hcl0 in Heq.
    apply make_unique_name_fresh in Eu. destruct Eu as (Hf & _ & _).
    apply Hf. replace nn with (it_name o) by (rewrite Heq; reflexivity). apply in_map. exact Hoin.
Qed.
