(** C05: every token of an element is written on the line it had in the input (relative to the token in front of the
    element).  Composition of
      - Proofs/ParseTraceProofs.v: the offsets the parser stores are the line differences of the input tokens,
      - Proofs/WriterUnitsProofs.v: the writer puts exactly that many line breaks in front of every token,
      - Proofs/LexUnitsProofs.v: the line the tokenizer gives a token of the written text is 1 + the line breaks before it. *)
From Coq Require Import Ascii String List Bool Arith NArith ZArith Lia Sorting.Sorted.
From A2L Require Import Base.StableSort Text.Escape Text.IntText Lex.Tokenizer Gram.Spec A2ml.Types Gram.PState Gram.Parser Gram.Writer
  Gram.TokWriter Proofs.LayoutProofs Proofs.LexUnitsProofs Proofs.WriterUnitsProofs Proofs.CursorProofs Proofs.RoundTripProofs
  Proofs.RoundTripTextProofs Proofs.LineOffsetProofs Proofs.ParseTraceProofs.
Import ListNotations.
Local Open Scope N_scope.

(* running sums: the line of every token when the first one stands [offs_1] lines below line l, and so on *)
Fixpoint cums (l : N) (offs : list N) : list N :=
  match offs with [] => [] | o :: r => (l + o) :: cums (l + o) r end.

Lemma ulines_cums l us : ulines l us = cums l (map nlu us).
Proof. revert l. induction us as [|u us IH]; intros l; [reflexivity|]. cbn [ulines map cums]. unfold nlu at 1 2. rewrite IH. reflexivity. Qed.

Lemma cums_shift l k offs : map (fun x => x + k) (cums l offs) = cums (l + k) offs.
Proof.
  revert l. induction offs as [|o r IH]; intros l; [reflexivity|]. cbn [cums map]. rewrite IH. f_equal; [lia|]. f_equal. lia.
Qed.

(* the tokens whose offset is not stored (the tag behind /begin and /end) stand on the line of the token in front of them *)
Fixpoint inline (prev : N) (ts : list token) (offs : list (option N)) : Prop :=
  match ts, offs with
  | t :: r, o :: q => match o with None => tk_line t = prev | Some _ => True end /\ inline (tk_line t) r q
  | _, _ => True
  end.
(* lines do not decrease *)
Fixpoint mono (prev : N) (ts : list token) : Prop :=
  match ts with t :: r => prev <= tk_line t /\ mono (tk_line t) r | [] => True end.

Lemma sorted_mono : forall ts p, (forall t, In t ts -> p <= tk_line t) -> StronglySorted (fun a b => tk_line a <= tk_line b) ts -> mono p ts.
Proof.
  induction ts as [|t r IH]; intros p Hp Hs; [exact Logic.I|]. cbn [mono]. split; [apply Hp; left; reflexivity|].
  inversion Hs as [|? ? Hr Hall]; subst. apply IH; [|exact Hr]. intros x Hx. rewrite Forall_forall in Hall. exact (Hall x Hx).
Qed.

Lemma adv_mono ts s s' : Inv s -> adv ts s s' -> mono (prevl s) ts.
Proof.
  intros I A. pose proof (inv_mono s I) as Mo. pose proof (inv_toks s I) as Ft. unfold tokens_of in Mo, Ft.
  rewrite (adv_after _ _ _ A) in Mo, Ft.
  apply sorted_mono.
  - intros t Ht. unfold prevl, line_of. destruct (ps_before s) as [|b br] eqn:Eb.
    + rewrite Forall_forall in Ft. destruct (Ft t) as (_ & _ & _ & H); [apply in_or_app; right; apply in_or_app; left; exact Ht | exact H].
    + cbn [rev] in Mo. rewrite <- app_assoc in Mo. cbn [app] in Mo.
      assert (Hb : forall l x, StronglySorted (fun a0 b0 : token => tk_line a0 <= tk_line b0) (l ++ b :: x) -> forall y, In y x -> tk_line b <= tk_line y).
      { induction l as [|z l IHl]; intros x Hx y Hy; cbn [app] in Hx; inversion Hx as [|? ? H1 H2]; subst.
        - rewrite Forall_forall in H2. exact (H2 y Hy).
        - exact (IHl x H1 y Hy). }
      apply (Hb (rev br) _ Mo). apply in_or_app. left. exact Ht.
  - clear - Mo. induction (rev (ps_before s)) as [|z l IH]; cbn [app] in Mo.
    + clear - Mo. revert Mo. generalize (ps_after s'). induction ts as [|t r IHr]; intros x H; [constructor|]. cbn [app] in H.
      inversion H as [|? ? H1 H2]; subst. constructor; [exact (IHr x H1)|]. apply Forall_app in H2. exact (proj1 H2).
    + inversion Mo; subst. apply IH. assumption.
Qed.

Lemma lines_cums : forall ts offs p, lines_as p ts offs -> inline p ts offs -> mono p ts -> map tk_line ts = cums p (map offv offs).
Proof.
  induction ts as [|t r IH]; intros offs p H Hi Hm; destruct offs as [|o q]; try destruct H; [reflexivity|].
  cbn [inline mono] in Hi, Hm. destruct Hi as (Hn & Hi). destruct Hm as (Hle & Hm). cbn [map cums].
  assert (E : p + offv o = tk_line t).
  { destruct o as [off|]; cbn [offv]; [subst off; lia | rewrite Hn; lia]. }
  rewrite E. f_equal. apply IH; assumption.
Qed.

Lemma lines_as_firstn : forall ts offs p n, lines_as p ts offs -> lines_as p (firstn n ts) (firstn n offs).
Proof.
  induction ts as [|t r IH]; intros offs p n H; destruct offs as [|o q]; try destruct H; destruct n; try exact Logic.I.
  cbn [firstn lines_as]. split; [assumption | apply IH; assumption].
Qed.
Lemma inline_firstn : forall ts offs p n, inline p ts offs -> inline p (firstn n ts) (firstn n offs).
Proof.
  induction ts as [|t r IH]; intros offs p n H; destruct offs as [|o q]; destruct n; try exact Logic.I.
  cbn [firstn inline] in *. destruct H as (H1 & H2). split; [assumption | apply IH; assumption].
Qed.
Lemma mono_firstn : forall ts p n, mono p ts -> mono p (firstn n ts).
Proof.
  induction ts as [|t r IH]; intros p n H; destruct n; try exact Logic.I.
  cbn [firstn mono] in *. destruct H as (H1 & H2). split; [assumption | apply IH; assumption].
Qed.

Section Lines.
  Variable S : spec.
  Variable posrs : list (string * posr).
  Variable ftab : list fentry.
  Variable names : list bytes.
  Variable ifuel : nat.
  Hypothesis Hspec : spec_ok S = true.

  (* the written text of a value: its tokens and their lines *)
  Theorem written_lines f td v nxt indent : confb S posrs ftab f td v nxt = true -> Forall token_text (wtoks S posrs ftab f v) ->
    exists toks, tokenize_core 0 (write_node S posrs ftab names f v indent) = TOk toks /\
                 map shape_of toks = wtoks S posrs ftab f v /\
                 map tk_line toks = cums 1 (map offv (woffs S posrs f v)).
  Proof.
    intros Hc Ht. destruct (write_units S posrs ftab names f td v nxt indent empty_out Hc) as (us & E & M & W & Nn).
    unfold write_node. rewrite (finish_extends us _ E). rewrite <- M in Ht.
    destruct (tokenize_units_lines 0 us (units_ok us W Ht)) as (toks & E1 & M1 & L1).
    exists toks. split; [exact E1|]. split; [rewrite M1; exact M|].
    rewrite L1, ulines_cums. destruct (Nn eq_refl Ht) as [_ Mn]. rewrite Mn. reflexivity.
  Qed.

  (** parse an element, write the value, tokenize the text: the token that the i-th input token became stands on the same
      line relative to the start - (its line in the written text) - 1 = (its line in the input) - (the line of the token in
      front of the element) *)
  Theorem element_lines_preserved f td c off s v s' nxt indent :
    c_fileid c = O -> Inv s -> first_ok s -> ps_ftab s = ftab ->
    lookup_ty S (t_name td) = Some td -> t_special td = None ->
    parse_ty f S ifuel td c off s = (ROk v, s') -> ps_log s' = ps_log s -> good S posrs f td v -> ps_after s' <> [] ->
    confb S posrs ftab f td v nxt = true -> Forall token_text (wtoks S posrs ftab f v) ->
    exists ts toks',
      adv ts s s' /\
      tokenize_core 0 (write_node S posrs ftab names f v indent) = TOk toks' /\
      map shape_of toks' = wtoks S posrs ftab f v /\
      (inline (prevl s) ts (woffs S posrs f v ++ closing_offs (is_blockb td) v) ->
       Forall2 (fun t' t => tk_line t' + prevl s = tk_line t + 1) toks' (firstn (length toks') ts)).
  Proof.
    intros Hc I Hfo Hf Hl Hsp E L Hg Hne Hconf Htt.
    destruct (parse_then_write S posrs ftab ifuel Hspec f td c off s v s' Hc I Hfo Hf Hl Hsp E L Hg) as (ts & A & T & _ & Ln).
    destruct (written_lines f td v nxt indent Hconf Htt) as (toks' & Et & Ms & Ml).
    exists ts, toks'. split; [exact A|]. split; [exact Et|]. split; [exact Ms|]. intros Hin.
    specialize (Ln Hne).
    set (n := length toks').
    assert (Hn : n = length (woffs S posrs f v)).
    { unfold n. rewrite <- (map_length tk_line toks'), Ml. clear. generalize 1. induction (woffs S posrs f v) as [|o r IH]; intros l; [reflexivity|].
      cbn [map cums length]. rewrite IH. reflexivity. }
    pose proof (lines_cums _ _ _ (lines_as_firstn _ _ _ n Ln) (inline_firstn _ _ _ n Hin) (mono_firstn _ _ n (adv_mono _ _ _ I A))) as Hlines.
    rewrite firstn_app, Hn, Nat.sub_diag, firstn_all in Hlines. cbn [firstn] in Hlines. rewrite app_nil_r in Hlines.
    rewrite <- Hn in Hlines.
    (* both line lists are running sums of the same offsets *)
    assert (Hrel : map (fun x => x + prevl s) (map tk_line toks') = map (fun x => x + 1) (map tk_line (firstn n ts))).
    { rewrite Ml, Hlines, !cums_shift. f_equal. lia. }
    clear - Hrel. revert Hrel. generalize (firstn n ts). induction toks' as [|t' r IH]; intros l H; destruct l as [|t q]; try discriminate; [constructor|].
    cbn [map] in H. injection H as H1 H2. constructor; [exact H1 | apply IH; exact H2].
  Qed.

  (** C02 through the text: parse an element, write the value, tokenize the written text - the tokens of the written text
      stand, one by one, for the tokens that were read *)
  Theorem element_tokens_preserved f td c off s v s' nxt indent :
    c_fileid c = O -> Inv s -> first_ok s -> ps_ftab s = ftab ->
    lookup_ty S (t_name td) = Some td -> t_special td = None ->
    parse_ty f S ifuel td c off s = (ROk v, s') -> ps_log s' = ps_log s -> good S posrs f td v ->
    confb S posrs ftab f td v nxt = true -> Forall token_text (wtoks S posrs ftab f v) ->
    exists ts toks',
      adv ts s s' /\
      tokenize_core 0 (write_node S posrs ftab names f v indent) = TOk toks' /\
      traced ftab ts (map shape_of toks' ++ closing (is_blockb td) (c_element c)).
  Proof.
    intros Hc I Hfo Hf Hl Hsp E L Hg Hconf Htt.
    destruct (parse_then_write S posrs ftab ifuel Hspec f td c off s v s' Hc I Hfo Hf Hl Hsp E L Hg) as (ts & A & T & _ & _).
    destruct (written_lines f td v nxt indent Hconf Htt) as (toks' & Et & Ms & _).
    exists ts, toks'. split; [exact A|]. split; [exact Et|]. rewrite Ms. exact T.
  Qed.
End Lines.
Print Assumptions element_lines_preserved.
Print Assumptions element_tokens_preserved.
