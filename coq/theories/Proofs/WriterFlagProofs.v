(** The writer's flag "the line ends in a // comment" stays off on text that consists of white space and well-formed
    tokens (no comments): ends_with_line_comment of such a text is false. *)
From Coq Require Import Ascii String List Bool NArith ZArith Lia.
From A2L Require Import Text.Escape Text.IntText Lex.Tokenizer Gram.Spec Gram.PState Gram.Parser Gram.Writer Gram.TokWriter
  Proofs.LexUnitsProofs.
Import ListNotations.
Local Open Scope N_scope.

Definition plain (c : ascii) : Prop := aeq c "/" = false /\ aeq c dq = false.

Lemma elc_plain c tl : plain c -> elc_scan (c :: tl) false false false = elc_scan tl false false false.
Proof.
  intros [H1 H2]. cbn [elc_scan]. rewrite H2. destruct tl as [|n tl']; [reflexivity|]. rewrite H1. cbn [andb]. reflexivity.
Qed.

Lemma elc_plain_list l rest : Forall plain l -> elc_scan (l ++ rest) false false false = elc_scan rest false false false.
Proof. induction 1 as [|c l Hc Hl IH]; [reflexivity|]. cbn [app]. rewrite (elc_plain c _ Hc). exact IH. Qed.

Lemma ws_plain c : is_ws c = true -> plain c.
Proof. intros H. destruct (ws_not_token_char c H) as (_ & _ & A & B). split; assumption. Qed.

Lemma identchar_plain c : is_identchar c = true -> plain c.
Proof. intros H. unfold plain. codes. to_arith H. split; is_false; lia. Qed.

Lemma numchar_plain c : is_numchar c = true -> plain c.
Proof. intros H. unfold plain. codes. to_arith H. split; is_false; lia. Qed.

Lemma minus_plain c : aeq c "-" = true -> plain c.
Proof. intros H. unfold plain. codes. to_arith H. split; is_false; lia. Qed.

(* inside a string: the escaped text and the closing quote *)
Lemma elc_in_string s rest : elc_scan (escape s ++ dq :: rest) true false false = elc_scan rest false false false.
Proof.
  unfold escape. induction s as [|c s IH]; cbn [flat_map app].
  - cbn [elc_scan]. assert (aeq dq bs = false) by reflexivity. rewrite H. assert (aeq dq dq = true) by reflexivity. rewrite H0. reflexivity.
  - unfold esc1.
    destruct (aeq c sq || aeq c dq || aeq c bs) eqn:E1.
    { cbn [app elc_scan]. assert (aeq bs bs = true) by reflexivity. rewrite H. exact IH. }
    destruct (aeq c cr) eqn:E2.
    { cbn [app elc_scan]. assert (aeq bs bs = true) by reflexivity. rewrite H. exact IH. }
    destruct (aeq c lf) eqn:E3.
    { cbn [app elc_scan]. assert (aeq bs bs = true) by reflexivity. rewrite H. exact IH. }
    destruct (aeq c tab) eqn:E4.
    { cbn [app elc_scan]. assert (aeq bs bs = true) by reflexivity. rewrite H. exact IH. }
    cbn [app elc_scan]. apply orb_false_iff in E1. destruct E1 as [E1 Eb]. apply orb_false_iff in E1. destruct E1 as [_ Ed].
    rewrite Eb, Ed. exact IH.
Qed.

Lemma elc_token sh rest : token_text sh -> elc_scan (snd sh ++ rest) false false false = elc_scan rest false false false.
Proof.
  destruct sh as [ty text]. unfold token_text. cbn [fst snd]. destruct ty; intros H; try contradiction.
  - (* identifier *) destruct H as (_ & Hall & _). apply elc_plain_list. eapply Forall_impl; [|exact Hall]. apply identchar_plain.
  - (* /begin *) subst text. vm_compute (("/"%char :: b_begin) ++ rest). cbn [elc_scan].
    repeat match goal with |- context [aeq ?a ?b] => let v := eval vm_compute in (aeq a b) in change (aeq a b) with v end.
    cbn [andb]. apply (elc_plain_list (list_ascii_of_string "begin") rest). repeat constructor.
  - (* /end *) subst text. vm_compute (("/"%char :: b_end) ++ rest). cbn [elc_scan].
    repeat match goal with |- context [aeq ?a ?b] => let v := eval vm_compute in (aeq a b) in change (aeq a b) with v end.
    cbn [andb]. apply (elc_plain_list (list_ascii_of_string "end") rest). repeat constructor.
  - (* string *) destruct H as (s & ->). cbn [app elc_scan]. assert (aeq dq dq = true) by reflexivity. rewrite H.
    rewrite <- app_assoc. cbn [app]. apply elc_in_string.
  - (* number *) destruct H as (Hshape & _). destruct text as [|c tl]; [destruct Hshape|]. destruct Hshape as (Hc & _ & Hall).
    apply elc_plain_list. constructor.
    + apply orb_true_iff in Hc. destruct Hc as [Hc|Hc]; [apply minus_plain | apply numchar_plain]; exact Hc.
    + eapply Forall_impl; [|exact Hall]. apply numchar_plain.
Qed.

Theorem elc_units us : Forall unit_ok us -> ends_with_line_comment (render us) = false.
Proof.
  unfold ends_with_line_comment. induction 1 as [|u us [Hw Ht] Hus IH]; [reflexivity|].
  rewrite render_cons, <- app_assoc. destruct Hw as [_ Hw].
  rewrite (elc_plain_list (fst u) _ (Forall_impl _ ws_plain Hw)). rewrite (elc_token (snd u) _ Ht). exact IH.
Qed.
