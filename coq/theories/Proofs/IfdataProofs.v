(** Proofs about the type-directed IF_DATA parser (C18). *)
From Coq Require Import Ascii String List Bool NArith ZArith Lia.
From A2L Require Import Text.Escape Lex.Tokenizer Gram.Spec A2ml.Types Gram.PState Gram.Parser.
Import ListNotations.

Lemma make_block_is_block data inc line : exists items, make_block data inc line = GBlock inc line items.
Proof. destruct data; simpl; eexists; reflexivity. Qed.
