(** Proofs about the type-directed IF_DATA parser (C18): how the validity flag is decided, that an interpretation is
    accepted only when it consumes the whole content, and that the scalar readers return exactly the value that the
    writer's text denotes (integers with their notation, enum items, strings). *)
From Coq Require Import Ascii String List Bool NArith ZArith Lia.
From A2L Require Import Text.Escape Text.IntText Lex.Tokenizer Gram.Spec A2ml.Types Gram.PState Gram.Parser
     Proofs.EscapeProofs Proofs.IntTextProofs.
Import ListNotations.

Lemma make_block_is_block data inc line : exists items, make_block data inc line = GBlock inc line items.
Proof. destruct data; simpl; eexists; reflexivity. Qed.

(* ---------- a little algebra of the state monad ---------- *)
Lemma bind_ok {A B} (m : M A) (k : A -> M B) s b s' :
  bindM m k s = (ROk b, s') -> exists a s1, m s = (ROk a, s1) /\ k a s1 = (ROk b, s').
Proof.
  unfold bindM. destruct (m s) as [[a| | |] s1]; intros H; try discriminate. exists a, s1. auto.
Qed.

(* ---------- the validity flag ---------- *)
(** first_spec answers Some g exactly when one of the specifications, tried in order, accepts *)
Lemma first_spec_some specs c : forall s g s',
  first_spec specs c s = (ROk (Some g), s') ->
  exists sp s0 , In sp specs /\ parse_ifdata_from_spec sp c s0 = (ROk (Some g), s').
Proof.
  induction specs as [|sp r IH]; intros s g s' H; simpl in H; [inversion H|].
  apply bind_ok in H. destruct H as (o & s1 & H1 & H2). destruct o as [x|].
  - inversion H2; subst. exists sp, s. split; [left; reflexivity | exact H1].
  - destruct (IH _ _ _ H2) as (sp' & s0 & Hin & Hp). exists sp', s0. split; [right; exact Hin | exact Hp].
Qed.

(** ifdata_valid is true only if a specification accepted the content, and then the items are the block built from
    that interpretation; it is false exactly when the content is kept by the uninterpreted fallback (or is empty and
    no specification accepts empty content) *)
Theorem parse_ifdata_valid_sound specs fuel c s og s' :
  parse_ifdata specs fuel c s = (ROk (og, true), s') ->
  exists g sp s0, og = Some g /\ In sp specs /\ parse_ifdata_from_spec sp c s0 = (ROk (Some g), s').
Proof.
  unfold parse_ifdata. intros H.
  apply bind_ok in H. destruct H as (n0 & s1 & _ & H).
  apply bind_ok in H. destruct H as (u & s2 & _ & H).
  apply bind_ok in H. destruct H as (pk & s3 & _ & H).
  destruct pk as [t|]; [|inversion H].
  apply bind_ok in H. destruct H as (r & s4 & Hf & H).
  destruct r as [g|].
  - inversion H; subst. destruct (first_spec_some _ _ _ _ _ Hf) as (sp & s0 & Hin & Hp).
    exists g, sp, s0. auto.
  - destruct (ttype_eqb (tk_type t) TEnd); [inversion H|].
    apply bind_ok in H. destruct H as (g & s5 & _ & H). inversion H.
Qed.

Theorem parse_ifdata_invalid_is_fallback specs fuel c s g s' :
  parse_ifdata specs fuel c s = (ROk (Some g, false), s') ->
  exists s0 s1, first_spec specs c s0 = (ROk None, s1) /\ unknown_ifdata_start fuel c s1 = (ROk g, s').
Proof.
  unfold parse_ifdata. intros H.
  apply bind_ok in H. destruct H as (n0 & s1 & _ & H).
  apply bind_ok in H. destruct H as (u & s2 & _ & H).
  apply bind_ok in H. destruct H as (pk & s3 & _ & H).
  destruct pk as [t|]; [|inversion H].
  apply bind_ok in H. destruct H as (r & s4 & Hf & H).
  destruct r as [g'|]; [inversion H|].
  destruct (ttype_eqb (tk_type t) TEnd); [inversion H|].
  apply bind_ok in H. destruct H as (g2 & s5 & Hu & H). inversion H; subst.
  exists s3, s4. auto.
Qed.

(** an interpretation is accepted only if - after comments - the next token is the /end of the IF_DATA: the
    specification has to account for the whole content *)
Lemma peek_token_state s o s' : peek_token s = (ROk o, s') -> s' = s.
Proof. unfold peek_token. intros H; inversion H; reflexivity. Qed.
Lemma get_incfilename_state f s o s' : get_incfilename f s = (ROk o, s') -> s' = s.
Proof. unfold get_incfilename. intros H; inversion H; reflexivity. Qed.

Theorem from_spec_consumes_everything sp c s g s' :
  parse_ifdata_from_spec sp c s = (ROk (Some g), s') ->
  exists t, peek_token s' = (ROk (Some t), s') /\ tk_type t = TEnd.
Proof.
  unfold parse_ifdata_from_spec. intros H.
  apply bind_ok in H. destruct H as (pos & s1 & _ & H).
  apply bind_ok in H. destruct H as (r & s2 & _ & H).
  destruct r as [[g0|] od].
  - apply bind_ok in H. destruct H as (n0 & s3 & _ & H).
    apply bind_ok in H. destruct H as (rc & s4 & _ & H).
    apply bind_ok in H. destruct H as (pk & s5 & Hpk & H).
    pose proof (peek_token_state _ _ _ Hpk) as E5. subst s5.
    destruct pk as [t|].
    + destruct (ttype_eqb (tk_type t) TEnd) eqn:Et.
      * apply bind_ok in H. destruct H as (inc & s6 & Hinc & H).
        pose proof (get_incfilename_state _ _ _ _ Hinc) as E6. subst s6.
        inversion H; subst. exists t. split; [exact Hpk|].
        destruct (tk_type t); simpl in Et; try discriminate; reflexivity.
      * apply bind_ok in H. destruct H as (u & s6 & _ & H). inversion H.
    + apply bind_ok in H. destruct H as (u & s6 & _ & H). inversion H.
  - apply bind_ok in H. destruct H as (u & s3 & _ & H). inversion H.
Qed.

(** ... and the items it yields are a block *)
Theorem from_spec_yields_block sp c s g s' :
  parse_ifdata_from_spec sp c s = (ROk (Some g), s') -> exists inc items, g = GBlock inc (c_line c) items.
Proof.
  unfold parse_ifdata_from_spec. intros H.
  apply bind_ok in H. destruct H as (pos & s1 & _ & H).
  apply bind_ok in H. destruct H as (r & s2 & _ & H).
  destruct r as [[g0|] od].
  - apply bind_ok in H. destruct H as (n0 & s3 & _ & H).
    apply bind_ok in H. destruct H as (rc & s4 & _ & H).
    apply bind_ok in H. destruct H as (pk & s5 & Hpk & H).
    destruct pk as [t|].
    + destruct (ttype_eqb (tk_type t) TEnd).
      * apply bind_ok in H. destruct H as (inc & s6 & Hinc & H). inversion H; subst.
        destruct (make_block_is_block g0 inc (c_line c)) as [items E]. exists inc, items. exact E.
      * apply bind_ok in H. destruct H as (u & s6 & _ & H). inversion H.
    + apply bind_ok in H. destruct H as (u & s6 & _ & H). inversion H.
  - apply bind_ok in H. destruct H as (u & s3 & _ & H). inversion H.
Qed.

(* ---------- the scalar readers return the value the text denotes ---------- *)
(* a state whose next token is [tok], not a comment *)
Lemma expect_token_next c ty tok s :
  match ps_after s with t :: _ => t = tok | [] => False end ->
  tk_type tok = ty -> ty <> TComment ->
  exists s', expect_token c ty s = (ROk tok, s').
Proof.
  intros Hn Hty Hnc. unfold expect_token. destruct (ps_after s) as [|t a] eqn:Ea; [destruct Hn|]. subst t.
  cbn [expect_loop length]. unfold bindM at 1. unfold get_token at 1. rewrite Ea.
  assert (Ec : ttype_eqb (tk_type tok) TComment = false).
  { rewrite Hty. destruct ty; try reflexivity. exfalso; apply Hnc; reflexivity. }
  rewrite Ec. assert (Et : ttype_eqb (tk_type tok) ty = true) by (rewrite Hty; destruct ty; reflexivity).
  rewrite Et. eexists. reflexivity.
Qed.

(** an integer member reads back exactly the value and the notation (decimal / hexadecimal) that the writer's text
    for that value carries, for each of the eight integer types *)
Theorem int_item_reads_written_value variant t c tok s v hex :
  match ps_after s with x :: _ => x = tok | [] => False end ->
  tk_type tok = TNumber -> tk_text tok = add_integer_text t v hex -> in_range t v = true ->
  forall g s', int_item variant t c s = (ROk g, s') -> exists off, g = GInt variant off v hex.
Proof.
  intros Hn Hty Htx Hr g s' H. unfold int_item in H.
  apply bind_ok in H. destruct H as (r & s1 & Hi & H).
  apply bind_ok in H. destruct H as (off & s2 & _ & H). inversion H; subst. exists off.
  unfold get_integer in Hi. apply bind_ok in Hi. destruct Hi as (tk & s3 & He & Hi).
  destruct (expect_token_next c TNumber tok s Hn Hty) as [s4 He']; [discriminate|].
  rewrite He' in He. inversion He; subst tk s3.
  rewrite Htx, (int_text_roundtrip t v hex Hr) in Hi. inversion Hi; subst. reflexivity.
Qed.

(** an enum member accepts exactly the items of the enumeration *)
Theorem enum_item_accepts_only_members items c s g s' :
  item_step (fun _ _ => ret GNone) (TEnum items) c s = (ROk g, s') -> exists off e, g = GEnumItem off e /\ enum_has items e = true.
Proof.
  cbn [item_step]. intros H.
  apply bind_ok in H. destruct H as (e & s1 & _ & H).
  apply bind_ok in H. destruct H as (off & s2 & _ & H).
  destruct (enum_has items e) eqn:E.
  - inversion H; subst. exists off, e. auto.
  - apply bind_ok in H. destruct H as (d & s3 & _ & H). inversion H.
Qed.

(** a char[n] member reads back the string that the writer escaped (every byte sequence) *)
Theorem string_value_survives str : unescape (strip_quotes (dq :: escape str ++ [dq])) = str.
Proof.
  unfold strip_quotes. rewrite aeq_refl. simpl length.
  assert (L : Nat.leb 2 (S (length (escape str ++ [dq]))) = true).
  { rewrite app_length. simpl. destruct (length (escape str) + 1)%nat eqn:E; [lia | reflexivity]. }
  rewrite L, last_last, aeq_refl. simpl. rewrite removelast_last. apply unescape_escape.
Qed.
