(** Integer literals round-trip: what Writer::add_integer prints for a value of a field type,
    ParserState::get_integer reads back as the same value with the same notation flag - for all
    eight field types, both notations, every value of the type. *)
From Coq Require Import Ascii String List Bool NArith ZArith Lia ZifyBool ZifyN.
From A2L Require Import Text.Escape Text.IntText Gram.Spec.
Import ListNotations.
Local Open Scope N_scope.

Lemma N_ascii_small n : n < 256 -> N_of_ascii (ascii_of_N n) = n.
Proof. intros H. apply N_ascii_embedding. exact H. Qed.

Lemma digit_val_char upper base d : d < base -> base <= 16 -> digit_val base (digit_char upper d) = Some d.
Proof.
  intros Hd Hb. unfold digit_val, digit_char.
  destruct (d <? 10) eqn:E.
  - rewrite N_ascii_small by lia.
    replace ((48 <=? 48 + d) && (48 + d <=? 57)) with true by lia.
    replace (48 + d - 48) with d by lia. replace (d <? base) with true by lia. reflexivity.
  - destruct upper.
    + rewrite N_ascii_small by lia.
      replace ((48 <=? 55 + d) && (55 + d <=? 57)) with false by lia.
      replace ((97 <=? 55 + d) && (55 + d <=? 102)) with false by lia.
      replace ((65 <=? 55 + d) && (55 + d <=? 70)) with true by lia.
      replace (55 + d - 55) with d by lia. replace (d <? base) with true by lia. reflexivity.
    + rewrite N_ascii_small by lia.
      replace ((48 <=? 87 + d) && (87 + d <=? 57)) with false by lia.
      replace ((97 <=? 87 + d) && (87 + d <=? 102)) with true by lia.
      replace (87 + d - 87) with d by lia. replace (d <? base) with true by lia. reflexivity.
Qed.

Lemma pda_app base l1 : forall l2 acc,
  parse_digits_acc base (l1 ++ l2) acc =
  match parse_digits_acc base l1 acc with Some a => parse_digits_acc base l2 a | None => None end.
Proof.
  induction l1 as [|c r IH]; intros l2 acc; cbn [app parse_digits_acc]; [reflexivity|].
  destruct (digit_val base c); [apply IH | reflexivity].
Qed.

Lemma digits_fuel_parse upper base : 2 <= base -> base <= 16 ->
  forall fuel n, n < base ^ N.of_nat fuel -> (0 < fuel)%nat ->
  parse_digits_acc base (digits_fuel fuel upper base n) 0 = Some n.
Proof.
  intros Hb1 Hb2. induction fuel as [|f IH]; intros n Hn Hf; [lia|].
  cbn [digits_fuel]. destruct (n <? base) eqn:E.
  - cbn [parse_digits_acc]. rewrite digit_val_char by lia. reflexivity.
  - rewrite pda_app.
    assert (Hf0 : (0 < f)%nat).
    { destruct f; [|lia]. change (N.of_nat 1) with 1 in Hn. rewrite N.pow_1_r in Hn. lia. }
    rewrite IH.
    + cbn [parse_digits_acc]. rewrite digit_val_char; [|apply N.mod_lt; lia | lia].
      f_equal. rewrite N.mul_comm. symmetry. apply N.div_mod. lia.
    + rewrite Nat2N.inj_succ, N.pow_succ_r' in Hn. apply N.div_lt_upper_bound; lia.
    + exact Hf0.
Qed.

Lemma digits_fuel_nonempty upper base f n : digits_fuel (S f) upper base n <> [].
Proof.
  cbn [digits_fuel]. destruct (n <? base); [discriminate|]. intro H. apply app_eq_nil in H. destruct H; discriminate.
Qed.

Lemma pow_log2_bound base n : 2 <= base -> n < base ^ N.of_nat (S (N.to_nat (N.log2 n))).
Proof.
  intros Hb. rewrite Nat2N.inj_succ, N2Nat.id.
  destruct (N.eq_dec n 0) as [->|Hn]; [change (N.log2 0) with 0; rewrite N.pow_succ_r', N.pow_0_r; lia|].
  assert (H := N.log2_spec n ltac:(lia)). destruct H as [_ H].
  eapply N.lt_le_trans; [exact H|]. apply N.pow_le_mono_l. lia.
Qed.

Lemma parse_digits_digits upper base n : 2 <= base -> base <= 16 -> parse_digits base (digits upper base n) = Some n.
Proof.
  intros Hb1 Hb2. unfold parse_digits, digits.
  pose proof (digits_fuel_nonempty upper base (N.to_nat (N.log2 n)) n) as Hne.
  destruct (digits_fuel (S (N.to_nat (N.log2 n))) upper base n) eqn:E; [contradiction|].
  rewrite <- E. apply digits_fuel_parse; try assumption; [apply pow_log2_bound; assumption | lia].
Qed.

(* the first character of a digit string is a digit character, never a sign or 'x' *)
Lemma digits_first upper base n : 2 <= base -> base <= 16 ->
  exists c r, digits upper base n = c :: r /\ (N_of_ascii c <> 43 /\ N_of_ascii c <> 45 /\ N_of_ascii c <> 120 /\ N_of_ascii c <> 88).
Proof.
  intros Hb0 Hb. unfold digits. generalize (N.to_nat (N.log2 n)). intros f. revert n.
  induction f as [|f IH]; intros n; cbn [digits_fuel].
  - destruct (n <? base) eqn:E.
    + eexists; eexists; split; [reflexivity|]. unfold digit_char. destruct (n <? 10) eqn:E2; [rewrite N_ascii_small by lia; lia|].
      destruct upper; rewrite N_ascii_small by lia; lia.
    + cbn [app]. eexists; eexists; split; [reflexivity|]. unfold digit_char.
      assert (n mod base < base) by (apply N.mod_lt; lia).
      destruct (n mod base <? 10) eqn:E2; [rewrite N_ascii_small by lia; lia|].
      destruct upper; rewrite N_ascii_small by lia; lia.
  - destruct (n <? base) eqn:E.
    + eexists; eexists; split; [reflexivity|]. unfold digit_char. destruct (n <? 10) eqn:E2; [rewrite N_ascii_small by lia; lia|].
      destruct upper; rewrite N_ascii_small by lia; lia.
    + destruct (IH (n / base)) as (c & r & Hd & Hc). cbn [digits_fuel] in Hd. rewrite Hd. cbn [app].
      eexists; eexists; split; [reflexivity | exact Hc].
Qed.

Lemma aeq_N a b : aeq a b = (N_of_ascii a =? N_of_ascii b).
Proof.
  unfold aeq. destruct (Ascii.eqb a b) eqn:E.
  - apply Ascii.eqb_eq in E. subst. symmetry. apply N.eqb_refl.
  - symmetry. apply N.eqb_neq. intro H. apply Ascii.eqb_neq in E. apply E.
    rewrite <- (ascii_N_embedding a), <- (ascii_N_embedding b), H. reflexivity.
Qed.

Ltac Zify.zify_post_hook ::= Z.div_mod_to_equations.

Lemma wrap_unsigned b v : (0 <= v < 2 ^ Z.of_N b)%Z ->
  Z.of_N (Z.to_N (v mod 2 ^ Z.of_N b) mod 2 ^ b) = v.
Proof.
  intros H. rewrite Z.mod_small by lia. rewrite N.mod_small.
  - rewrite Z2N.id; lia.
  - apply N2Z.inj_lt. rewrite Z2N.id by lia. rewrite N2Z.inj_pow. simpl Z.of_N at 1. lia.
Qed.

Lemma wrap_signed b v : (1 <= b)%N -> (- 2 ^ (Z.of_N b - 1) <= v < 2 ^ (Z.of_N b - 1))%Z ->
  let m := (Z.to_N (v mod 2 ^ Z.of_N b) mod 2 ^ b)%N in
  (if (2 ^ (b - 1) <=? m)%N then (Z.of_N m - 2 ^ Z.of_N b)%Z else Z.of_N m) = v.
Proof.
  intros Hb H. cbv zeta.
  assert (Hp : (2 ^ Z.of_N b = 2 * 2 ^ (Z.of_N b - 1))%Z).
  { replace (Z.of_N b) with (Z.succ (Z.of_N b - 1)) at 1 by lia. rewrite Z.pow_succ_r by lia. reflexivity. }
  assert (Hpos : (0 < 2 ^ (Z.of_N b - 1))%Z) by (apply Z.pow_pos_nonneg; lia).
  assert (HB : Z.of_N (2 ^ (b - 1)) = (2 ^ (Z.of_N b - 1))%Z).
  { rewrite N2Z.inj_pow. f_equal. lia. }
  assert (HB2 : Z.of_N (2 ^ b) = (2 ^ Z.of_N b)%Z) by (rewrite N2Z.inj_pow; reflexivity).
  remember (2 ^ (Z.of_N b - 1))%Z as B eqn:EB.
  remember (2 ^ Z.of_N b)%Z as P eqn:EP.
  assert (Hm : (0 <= v mod P < P)%Z) by (apply Z.mod_pos_bound; lia).
  rewrite N.mod_small.
  2:{ apply N2Z.inj_lt. rewrite Z2N.id by lia. rewrite HB2. lia. }
  destruct (N.leb_spec (2 ^ (b - 1)) (Z.to_N (v mod P))) as [L|L].
  - apply N2Z.inj_le in L. rewrite HB, Z2N.id in L by lia. rewrite Z2N.id by lia.
    assert (v < 0 \/ 0 <= v)%Z as [Hn|Hn] by lia.
    + assert (E : (v mod P = v + P)%Z) by (symmetry; apply Z.mod_unique with (q := (-1)%Z); lia). lia.
    + rewrite Z.mod_small in L by lia. lia.
  - apply N2Z.inj_lt in L. rewrite HB, Z2N.id in L by lia. rewrite Z2N.id by lia.
    assert (v < 0 \/ 0 <= v)%Z as [Hn|Hn] by lia.
    + exfalso. assert (E : (v mod P = v + P)%Z) by (symmetry; apply Z.mod_unique with (q := (-1)%Z); lia). lia.
    + apply Z.mod_small. lia.
Qed.

Lemma wrap_of_mod t v : in_range t v = true ->
  wrap t (Z.to_N (v mod 2 ^ Z.of_N (ity_bits t))) = v.
Proof.
  unfold in_range, wrap. destruct (ity_signed t) eqn:Es; intros H.
  - cbn [andb]. apply wrap_signed; [destruct t; cbn; lia | lia].
  - cbn [andb]. apply wrap_unsigned. lia.
Qed.

Lemma is_hex_prefixed_digits upper base n : 2 <= base -> base <= 16 ->
  is_hex_prefixed (digits upper base n) = false.
Proof.
  intros H1 H2. unfold digits. generalize (N.to_nat (N.log2 n)); intros f.
  assert (G : forall f n, Forall (fun c => N_of_ascii c <> 120 /\ N_of_ascii c <> 88) (digits_fuel f upper base n)).
  { clear f n. induction f as [|f IH]; intros n; cbn [digits_fuel]; [constructor|].
    assert (D : forall d, d < base -> N_of_ascii (digit_char upper d) <> 120 /\ N_of_ascii (digit_char upper d) <> 88).
    { intros d Hd. unfold digit_char. destruct (d <? 10) eqn:E; [rewrite N_ascii_small by lia; lia|].
      destruct upper; rewrite N_ascii_small by lia; lia. }
    destruct (n <? base) eqn:E; [constructor; [apply D; lia | constructor]|].
    apply Forall_app. split; [apply IH|]. constructor; [apply D, N.mod_lt; lia | constructor]. }
  specialize (G (S f) n). destruct (digits_fuel (S f) upper base n) as [|a [|b r]]; try reflexivity.
  inversion G as [|? ? _ G2]; subst. inversion G2 as [|? ? [Hb1 Hb2] _]; subst.
  unfold is_hex_prefixed. rewrite !aeq_N. change (N_of_ascii "x") with 120. change (N_of_ascii "X") with 88.
  destruct (N_of_ascii a =? N_of_ascii "0"); cbn [andb]; [|reflexivity].
  replace (N_of_ascii b =? 120) with false by lia. replace (N_of_ascii b =? 88) with false by lia. reflexivity.
Qed.

Lemma parse_u64_hex_digits n : n <= U64MAX -> parse_u64_hex (digits true 16 n) = Some n.
Proof.
  intros H. unfold parse_u64_hex.
  destruct (digits_first true 16 n ltac:(lia) ltac:(lia)) as (c & r & Hd & Hc). rewrite Hd.
  rewrite aeq_N. change (N_of_ascii "+") with 43. replace (N_of_ascii c =? 43) with false by lia.
  rewrite <- Hd. rewrite parse_digits_digits by lia. replace (n <=? U64MAX) with true by lia. reflexivity.
Qed.

Lemma in_range_bounds t v : in_range t v = true ->
  (0 <= v mod 2 ^ Z.of_N (ity_bits t) < 2 ^ Z.of_N (ity_bits t))%Z.
Proof. intros _. apply Z.mod_pos_bound. apply Z.pow_pos_nonneg; lia. Qed.

Theorem int_text_roundtrip t v hex : in_range t v = true ->
  get_integer_text t (add_integer_text t v hex) = Some (v, hex).
Proof.
  intros Hr. unfold get_integer_text, add_integer_text. destruct hex.
  - (* 0x... *)
    pose proof (in_range_bounds t v Hr) as Hb.
    set (u := Z.to_N (v mod 2 ^ Z.of_N (ity_bits t))).
    destruct (digits_first true 16 u ltac:(lia) ltac:(lia)) as (c & r & Hd & _).
    rewrite Hd. cbn [length is_hex_prefixed skipn].
    replace (aeq "0" "0") with true by reflexivity. replace (aeq "x" "x") with true by reflexivity.
    cbn [andb orb]. replace (2 <? S (S (S (length r))))%nat with true by (symmetry; apply Nat.ltb_lt; lia).
    cbn [andb]. rewrite <- Hd.
    assert (Hu : u < 2 ^ ity_bits t).
    { unfold u. apply N2Z.inj_lt. rewrite Z2N.id by lia. rewrite N2Z.inj_pow. simpl Z.of_N at 1. lia. }
    assert (Hu64 : u <= U64MAX).
    { assert (2 ^ ity_bits t <= 2 ^ 64) by (apply N.pow_le_mono_r; [lia | destruct t; cbn; lia]).
      change (2 ^ 64) with 18446744073709551616 in H. unfold U64MAX. lia. }
    rewrite parse_u64_hex_digits by exact Hu64.
    replace (u <? 2 ^ ity_bits t) with true by lia.
    unfold u. rewrite wrap_of_mod by exact Hr. reflexivity.
  - (* decimal *)
    unfold dec_of_Z. destruct v as [|p|p].
    + rewrite is_hex_prefixed_digits by lia. rewrite andb_false_r.
      unfold parse_dec. change (Z.to_N 0) with 0.
      destruct (digits_first false 10 0 ltac:(lia) ltac:(lia)) as (c & r & Hd & Hc). rewrite Hd.
      rewrite !aeq_N. change (N_of_ascii "+") with 43. change (N_of_ascii "-") with 45.
      replace (N_of_ascii c =? 43) with false by lia. replace (N_of_ascii c =? 45) with false by lia. cbn [andb].
      rewrite <- Hd. rewrite parse_digits_digits by lia. cbn [Z.of_N]. rewrite Hr. reflexivity.
    + rewrite is_hex_prefixed_digits by lia. rewrite andb_false_r.
      unfold parse_dec. change (Z.to_N (Z.pos p)) with (N.pos p).
      destruct (digits_first false 10 (N.pos p) ltac:(lia) ltac:(lia)) as (c & r & Hd & Hc). rewrite Hd.
      rewrite !aeq_N. change (N_of_ascii "+") with 43. change (N_of_ascii "-") with 45.
      replace (N_of_ascii c =? 43) with false by lia. replace (N_of_ascii c =? 45) with false by lia. cbn [andb].
      rewrite <- Hd. rewrite parse_digits_digits by lia. change (Z.of_N (N.pos p)) with (Z.pos p). rewrite Hr. reflexivity.
    + (* negative: only signed types are in range *)
      assert (Hs : ity_signed t = true).
      { unfold in_range in Hr. destruct (ity_signed t); [reflexivity | lia]. }
      assert (Hnh : is_hex_prefixed ("-"%char :: digits false 10 (N.pos p)) = false).
      { unfold is_hex_prefixed. destruct (digits false 10 (N.pos p)); reflexivity. }
      rewrite Hnh, andb_false_r.
      unfold parse_dec. replace (aeq "-" "+") with false by reflexivity. replace (aeq "-" "-") with true by reflexivity.
      rewrite Hs. cbn [andb]. rewrite parse_digits_digits by lia.
      change (- Z.of_N (N.pos p))%Z with (Z.neg p). rewrite Hr. reflexivity.
Qed.

(* ---------- what is accepted fits (C02) ---------- *)
Lemma wrap_in_range t u : (u < 2 ^ ity_bits t)%N -> in_range t (wrap t u) = true.
Proof.
  intros Hu. unfold in_range, wrap. rewrite N.mod_small by exact Hu.
  assert (Hb : (1 <= ity_bits t)%N) by (destruct t; cbn; lia).
  assert (Hp : (2 ^ Z.of_N (ity_bits t) = 2 * 2 ^ (Z.of_N (ity_bits t) - 1))%Z).
  { replace (Z.of_N (ity_bits t)) with (Z.succ (Z.of_N (ity_bits t) - 1)) at 1 by lia. rewrite Z.pow_succ_r by lia. reflexivity. }
  assert (HB : Z.of_N (2 ^ (ity_bits t - 1)) = (2 ^ (Z.of_N (ity_bits t) - 1))%Z).
  { rewrite N2Z.inj_pow. f_equal. lia. }
  assert (HU : (Z.of_N u < 2 ^ Z.of_N (ity_bits t))%Z).
  { apply N2Z.inj_lt in Hu. rewrite N2Z.inj_pow in Hu. exact Hu. }
  assert (Hpos : (0 < 2 ^ (Z.of_N (ity_bits t) - 1))%Z) by (apply Z.pow_pos_nonneg; lia).
  remember (2 ^ (Z.of_N (ity_bits t) - 1))%Z as B.
  remember (2 ^ Z.of_N (ity_bits t))%Z as P.
  destruct (ity_signed t); cbn [andb].
  - destruct (N.leb_spec (2 ^ (ity_bits t - 1)) u) as [L|L].
    + apply N2Z.inj_le in L. rewrite HB in L. lia.
    + apply N2Z.inj_lt in L. rewrite HB in L. lia.
  - lia.
Qed.

Theorem get_integer_in_range t text v hex : get_integer_text t text = Some (v, hex) -> in_range t v = true.
Proof.
  unfold get_integer_text.
  destruct ((2 <? length text)%nat && is_hex_prefixed text).
  - destruct (parse_u64_hex (skipn 2 text)) as [u|]; [|discriminate].
    destruct (u <? 2 ^ ity_bits t) eqn:E; [|discriminate]. intros H. inversion H; subst.
    apply wrap_in_range. lia.
  - unfold parse_dec.
    destruct (match text with
              | [] => (false, text)
              | c :: r => if aeq c "+" then (false, r) else if aeq c "-" && ity_signed t then (true, r) else (false, text)
              end) as [neg body].
    destruct (parse_digits 10 body) as [d|]; [|discriminate].
    destruct (in_range t (if neg then (- Z.of_N d)%Z else Z.of_N d)) eqn:E; [|discriminate].
    intros H. inversion H; subst. exact E.
Qed.

Theorem get_integer_hex_fits t text v : get_integer_text t text = Some (v, true) ->
  exists u, parse_u64_hex (skipn 2 text) = Some u /\ (u < 2 ^ ity_bits t)%N /\ v = wrap t u.
Proof.
  unfold get_integer_text.
  destruct ((2 <? length text)%nat && is_hex_prefixed text).
  - destruct (parse_u64_hex (skipn 2 text)) as [u|]; [|discriminate].
    destruct (u <? 2 ^ ity_bits t) eqn:E; [|discriminate]. intros H. inversion H; subst.
    exists u. repeat split; [lia].
  - destruct (parse_dec t text); [|discriminate]. intros H. inversion H.
Qed.
