(** C05, edit locality at the level of tokens and line offsets: the children of a block whose ids increase in the order in
    which they were read (what the parser builds, Proofs/ParseOrderProofs.v) are written one after the other, each as its own
    segment of tokens with its own line offsets.  Removing one child (or adding one, or replacing one by a child with the same
    id) removes (adds, replaces) exactly its segment: every other token of the block is written with the text and the line
    offset it had before - its line is the same line, moved up or down as a whole. *)
From Coq Require Import Ascii String List Bool Arith NArith ZArith Lia Sorting.Sorted Permutation.
From A2L Require Import Base.StableSort Text.Escape Text.IntText Lex.Tokenizer Gram.Spec A2ml.Types Gram.PState Gram.Parser
  Gram.Writer Gram.TokWriter Proofs.RoundTripOrderProofs Proofs.ParseOrderProofs.
Import ListNotations.
Local Open Scope N_scope.

Lemma uid_chain_app_inv P1 : forall lo P2, uid_chain lo (P1 ++ P2) -> uid_chain lo P1 /\ (forall e, In e P1 -> forall x, In x P2 -> euid e < euid x).
Proof.
  induction P1 as [|a r IH]; intros lo P2 H; [split; [exact I | intros e []]|]. cbn [app uid_chain] in *. destruct H as [H1 H2].
  destruct (IH _ _ H2) as [I1 I2]. split; [split; assumption|]. intros e [<-|He] x Hx; [|exact (I2 e He x Hx)].
  exact (uid_chain_above (r ++ P2) _ x H2 (in_or_app _ _ _ (or_intror Hx))).
Qed.

Lemma uid_chain_remove P1 : forall lo e P2, uid_chain lo (P1 ++ e :: P2) -> uid_chain lo (P1 ++ P2).
Proof.
  induction P1 as [|a r IH]; intros lo e P2 H; cbn [app uid_chain] in *.
  - destruct H as [H1 H2]. apply (uid_chain_weaken P2 lo (euid e)); [lia | exact H2].
  - destruct H as [H1 H2]. split; [exact H1 | exact (IH _ _ _ H2)].
Qed.

Section Locality.
  Variable S : spec.
  Variable posrs : list (string * posr).

  (* the lists of children of a tagged group, rebuilt from the children in the order in which they were read *)
  Definition kids_of (n : nat) (P : list entry) : list (list value) := map (fun i => kids_at i P) (seq 0 n).

  Lemma kids_of_length n P : length (kids_of n P) = n.
  Proof. unfold kids_of. rewrite map_length, seq_length. reflexivity. Qed.
  Lemma kids_of_nth n P i : nth i (kids_of n P) [] = kids_at i P \/ (n <= i)%nat.
  Proof.
    destruct (Nat.lt_ge_cases i n) as [H|H]; [left | right; exact H]. unfold kids_of.
    rewrite (nth_indep _ [] (kids_at 0 P)) by (rewrite map_length, seq_length; exact H).
    change (kids_at 0 P) with ((fun j => kids_at j P) O). rewrite map_nth, seq_nth by exact H. reflexivity.
  Qed.

  Definition unrestricted (P : list entry) : Prop := Forall (fun e : entry => pos_restrict S posrs (snd e) = None) P.
  Definition fits (titems : list titem) (P : list entry) : Prop :=
    Forall (fun e : entry => nth_error titems (fst (fst e)) = Some (snd (fst e))) P.

  Lemma kids_of_nth_all titems P i : fits titems P -> nth i (kids_of (length titems) P) [] = kids_at i P.
  Proof.
    intros Hf. destruct (kids_of_nth (length titems) P i) as [H|H]; [exact H|].
    rewrite nth_overflow by (rewrite kids_of_length; exact H). unfold kids_at.
    assert (E : filter (fun e : entry => Nat.eqb (fst (fst e)) i) P = []); [|rewrite E; reflexivity].
    clear - Hf H. induction P as [|e r IH]; [reflexivity|]. inversion Hf as [|? ? H1 H2]; subst. cbn [filter].
    destruct (Nat.eqb_spec (fst (fst e)) i) as [E|_]; [|exact (IH H2)].
    exfalso. assert (X : (fst (fst e) < length titems)%nat) by (apply nth_error_Some; rewrite H1; discriminate). lia.
  Qed.

  (* no child with a position restriction: the writer's order is the sorted order *)
  Lemma plain_order titems P : fits titems P -> unrestricted P ->
    group_order (kid_entries S posrs titems (kids_of (length titems) P)) = ssort sort_leb (kid_entries S posrs titems (kids_of (length titems) P)).
  Proof.
    intros Hf Hu. apply group_order_plain.
    assert (E : filter restricted (kid_entries S posrs titems (kids_of (length titems) P)) = []); [|rewrite E; cbn; lia].
    assert (Hp : Permutation (kid_entries S posrs titems (kids_of (length titems) P)) (map (gentry S posrs) P)).
    { rewrite kid_entries_from. apply entries_perm; [apply kids_of_length | intros j; apply kids_of_nth_all; exact Hf |].
      intros e He. unfold fits in Hf. rewrite Forall_forall in Hf. split; [lia|]. rewrite Nat.sub_0_r. exact (Hf e He). }
    destruct (filter restricted (kid_entries S posrs titems (kids_of (length titems) P))) as [|g gs] eqn:Ef; [reflexivity|]. exfalso.
    assert (Hin : In g (filter restricted (kid_entries S posrs titems (kids_of (length titems) P)))) by (rewrite Ef; left; reflexivity).
    apply filter_In in Hin. destruct Hin as [Hin Hr]. apply (Permutation_in _ Hp) in Hin. apply in_map_iff in Hin.
    destruct Hin as (e & <- & He). unfold unrestricted in Hu. rewrite Forall_forall in Hu. specialize (Hu e He).
    unfold gentry, entry_of, restricted in Hr. cbn [g_pos] in Hr. rewrite Hu in Hr. discriminate.
  Qed.

  (* the writer lists the children in the order in which they were read *)
  Theorem written_in_reading_order titems P lo : fits titems P -> unrestricted P -> uid_chain lo P ->
    ordered_kids S posrs titems (kids_of (length titems) P) = P.
  Proof.
    intros Hf Hu Hc. apply (ordered_kids_parse_order S posrs titems _ P lo); [apply kids_of_length | | exact Hf | exact Hc | apply plain_order; assumption].
    intros i. apply kids_of_nth_all. exact Hf.
  Qed.

  Section Segments.
    Variable w : value -> list shape.
    Variable wo : value -> list (option N).
    Definition seg (e : entry) : list shape := kid_toks (snd (fst e)) (w (snd e)).
    Definition seg_offs (e : entry) : list (option N) := kid_offs (snd (fst e)) (snd e) (wo (snd e)).

    (* the tokens and the line offsets of a tagged group: one segment per child, in reading order *)
    Theorem group_is_segments titems P lo : fits titems P -> unrestricted P -> uid_chain lo P ->
      group_toks S posrs w titems (kids_of (length titems) P) = flat_map seg P /\
      group_offs S posrs wo titems (kids_of (length titems) P) = flat_map seg_offs P.
    Proof.
      intros Hf Hu Hc. unfold group_toks, group_offs. rewrite (written_in_reading_order titems P lo Hf Hu Hc). split; reflexivity.
    Qed.

    (** removing one child removes exactly its segment (adding one adds exactly its segment: read the equations from right to
        left); every other token keeps its text and its line offset *)
    Theorem removing_a_child_removes_its_segment titems P1 e P2 lo :
      fits titems (P1 ++ e :: P2) -> unrestricted (P1 ++ e :: P2) -> uid_chain lo (P1 ++ e :: P2) ->
      group_toks S posrs w titems (kids_of (length titems) (P1 ++ e :: P2)) = flat_map seg P1 ++ seg e ++ flat_map seg P2 /\
      group_toks S posrs w titems (kids_of (length titems) (P1 ++ P2)) = flat_map seg P1 ++ flat_map seg P2 /\
      group_offs S posrs wo titems (kids_of (length titems) (P1 ++ e :: P2)) = flat_map seg_offs P1 ++ seg_offs e ++ flat_map seg_offs P2 /\
      group_offs S posrs wo titems (kids_of (length titems) (P1 ++ P2)) = flat_map seg_offs P1 ++ flat_map seg_offs P2.
    Proof.
      intros Hf Hu Hc.
      assert (Hf' : fits titems (P1 ++ P2)).
      { unfold fits in *. apply Forall_app in Hf. destruct Hf as [F1 F2]. inversion F2; subst. apply Forall_app. split; assumption. }
      assert (Hu' : unrestricted (P1 ++ P2)).
      { unfold unrestricted in *. apply Forall_app in Hu. destruct Hu as [F1 F2]. inversion F2; subst. apply Forall_app. split; assumption. }
      destruct (group_is_segments titems _ lo Hf Hu Hc) as [T1 O1].
      destruct (group_is_segments titems _ lo Hf' Hu' (uid_chain_remove P1 lo e P2 Hc)) as [T2 O2].
      rewrite T1, T2, O1, O2, !flat_map_app. cbn [flat_map]. repeat split; reflexivity.
    Qed.

    (** changing one child (same id, same tagged item: a field of the object was edited) changes exactly its segment *)
    Theorem changing_a_child_changes_its_segment titems P1 e e' P2 lo :
      euid e' = euid e -> fst e' = fst e -> pos_restrict S posrs (snd e') = None ->
      fits titems (P1 ++ e :: P2) -> unrestricted (P1 ++ e :: P2) -> uid_chain lo (P1 ++ e :: P2) ->
      group_toks S posrs w titems (kids_of (length titems) (P1 ++ e' :: P2)) = flat_map seg P1 ++ seg e' ++ flat_map seg P2 /\
      group_offs S posrs wo titems (kids_of (length titems) (P1 ++ e' :: P2)) = flat_map seg_offs P1 ++ seg_offs e' ++ flat_map seg_offs P2.
    Proof.
      intros Hid Hfst Hpr Hf Hu Hc.
      assert (Hf' : fits titems (P1 ++ e' :: P2)).
      { unfold fits in *. apply Forall_app in Hf. destruct Hf as [F1 F2]. inversion F2 as [|? ? G1 G2]; subst. apply Forall_app. split; [exact F1|].
        constructor; [rewrite Hfst; exact G1 | exact G2]. }
      assert (Hu' : unrestricted (P1 ++ e' :: P2)).
      { unfold unrestricted in *. apply Forall_app in Hu. destruct Hu as [F1 F2]. inversion F2 as [|? ? G1 G2]; subst. apply Forall_app. split; [exact F1|].
        constructor; [exact Hpr | exact G2]. }
      assert (Hc' : uid_chain lo (P1 ++ e' :: P2)).
      { clear - Hc Hid. revert lo Hc. induction P1 as [|a r IH]; intros lo Hc; cbn [app uid_chain] in *.
        - rewrite Hid. exact Hc.
        - destruct Hc as [H1 H2]. split; [exact H1 | exact (IH _ H2)]. }
      destruct (group_is_segments titems _ lo Hf' Hu' Hc') as [T O]. rewrite T, O, !flat_map_app. cbn [flat_map]. split; reflexivity.
    Qed.
  End Segments.
  (* ---------- a whole element: parameters first, then one group of children (the shape of every block of the grammar) ---------- *)
  Definition fields_only_items (fis : list item) : Prop := Forall (fun it => match it with IField _ _ => True | ITagged _ _ _ => False end) fis.

  Lemma items_toks_fields ftab w fis u l titems : fields_only_items fis -> forall fields kids, length fields = length fis ->
    items_toks S posrs ftab w (fis ++ [ITagged u l titems]) fields kids =
    items_toks S posrs ftab w fis fields [] ++ group_toks S posrs w titems (firstn (length titems) kids).
  Proof.
    intros Hf. induction fis as [|it r IH]; intros fields kids Hl.
    - destruct fields; [|discriminate]. cbn [app items_toks]. rewrite app_nil_r. reflexivity.
    - inversion Hf as [|? ? H1 H2]; subst. destruct it as [nm ty|]; [|contradiction]. destruct fields as [|fv fr]; [discriminate|].
      cbn [app items_toks]. rewrite (IH H2 fr kids) by (cbn [length] in Hl; lia). rewrite app_assoc. reflexivity.
  Qed.
  Lemma items_offs_fields wo fis u l titems : fields_only_items fis -> forall fields kids, length fields = length fis ->
    items_offs S posrs wo (fis ++ [ITagged u l titems]) fields kids =
    items_offs S posrs wo fis fields [] ++ group_offs S posrs wo titems (firstn (length titems) kids).
  Proof.
    intros Hf. induction fis as [|it r IH]; intros fields kids Hl.
    - destruct fields; [|discriminate]. cbn [app items_offs]. rewrite app_nil_r. reflexivity.
    - inversion Hf as [|? ? H1 H2]; subst. destruct it as [nm ty|]; [|contradiction]. destruct fields as [|fv fr]; [discriminate|].
      cbn [app items_offs]. rewrite (IH H2 fr kids) by (cbn [length] in Hl; lia). rewrite app_assoc. reflexivity.
  Qed.

  (** the tokens and line offsets of an element whose children were read in the order P: the parameters, then one segment per child *)
  Theorem element_is_parameters_then_segments ftab f ty td lay fields cms fis u l titems P lo :
    lookup_ty S ty = Some td -> t_special td = None -> t_items td = fis ++ [ITagged u l titems] -> fields_only_items fis ->
    length fields = length fis -> fits titems P -> unrestricted P -> uid_chain lo P ->
    wtoks S posrs ftab (Datatypes.S f) (VNode ty lay fields (kids_of (length titems) P) cms) =
      items_toks S posrs ftab (wtoks S posrs ftab f) fis fields [] ++ flat_map (seg (wtoks S posrs ftab f)) P /\
    woffs S posrs (Datatypes.S f) (VNode ty lay fields (kids_of (length titems) P) cms) =
      items_offs S posrs (woffs S posrs f) fis fields [] ++ flat_map (seg_offs (woffs S posrs f)) P.
  Proof.
    intros Hl Hs Hi Hfo Hlen Hf Hu Hc. cbn [wtoks woffs]. rewrite Hl, Hs, Hi.
    rewrite (items_toks_fields ftab _ fis u l titems Hfo fields _ Hlen), (items_offs_fields _ fis u l titems Hfo fields _ Hlen).
    rewrite firstn_all2 by (rewrite kids_of_length; apply le_n).
    destruct (group_is_segments (wtoks S posrs ftab f) (woffs S posrs f) titems P lo Hf Hu Hc) as [T O]. rewrite T, O. split; reflexivity.
  Qed.

  (** edit locality for an element: with one child removed, the element is written as before without the segment of that child *)
  Theorem element_without_a_child ftab f ty td lay fields cms fis u l titems P1 e P2 lo :
    lookup_ty S ty = Some td -> t_special td = None -> t_items td = fis ++ [ITagged u l titems] -> fields_only_items fis ->
    length fields = length fis -> fits titems (P1 ++ e :: P2) -> unrestricted (P1 ++ e :: P2) -> uid_chain lo (P1 ++ e :: P2) ->
    let w := wtoks S posrs ftab f in let wo := woffs S posrs f in
    let head := items_toks S posrs ftab w fis fields [] in let head_o := items_offs S posrs wo fis fields [] in
    wtoks S posrs ftab (Datatypes.S f) (VNode ty lay fields (kids_of (length titems) (P1 ++ e :: P2)) cms) = head ++ flat_map (seg w) P1 ++ seg w e ++ flat_map (seg w) P2 /\
    wtoks S posrs ftab (Datatypes.S f) (VNode ty lay fields (kids_of (length titems) (P1 ++ P2)) cms) = head ++ flat_map (seg w) P1 ++ flat_map (seg w) P2 /\
    woffs S posrs (Datatypes.S f) (VNode ty lay fields (kids_of (length titems) (P1 ++ e :: P2)) cms) = head_o ++ flat_map (seg_offs wo) P1 ++ seg_offs wo e ++ flat_map (seg_offs wo) P2 /\
    woffs S posrs (Datatypes.S f) (VNode ty lay fields (kids_of (length titems) (P1 ++ P2)) cms) = head_o ++ flat_map (seg_offs wo) P1 ++ flat_map (seg_offs wo) P2.
  Proof.
    intros Hl Hs Hi Hfo Hlen Hf Hu Hc w wo head head_o.
    assert (Hf' : fits titems (P1 ++ P2)).
    { unfold fits in *. apply Forall_app in Hf. destruct Hf as [F1 F2]. inversion F2; subst. apply Forall_app. split; assumption. }
    assert (Hu' : unrestricted (P1 ++ P2)).
    { unfold unrestricted in *. apply Forall_app in Hu. destruct Hu as [F1 F2]. inversion F2; subst. apply Forall_app. split; assumption. }
    destruct (element_is_parameters_then_segments ftab f ty td lay fields cms fis u l titems _ lo Hl Hs Hi Hfo Hlen Hf Hu Hc) as [T1 O1].
    destruct (element_is_parameters_then_segments ftab f ty td lay fields cms fis u l titems _ lo Hl Hs Hi Hfo Hlen Hf' Hu' (uid_chain_remove P1 lo e P2 Hc)) as [T2 O2].
    rewrite T1, T2, O1, O2, !flat_map_app. cbn [flat_map]. repeat split; reflexivity.
  Qed.
End Locality.
Print Assumptions element_without_a_child.
Print Assumptions removing_a_child_removes_its_segment.
Print Assumptions changing_a_child_changes_its_segment.
