(** C04: each deviation class of the grammar yields its diagnostic class - properties of the generic parser's
    decision points, valid for every grammar. *)
From Coq Require Import Ascii String List Bool NArith ZArith.
From A2L Require Import Text.Escape Lex.Tokenizer Gram.Spec Gram.PState Gram.Parser Proofs.StrictProofs Proofs.UnknownProofs.
Import ListNotations.

Definition diag_of (variant : string) (c : ctx) (key : bytes) (s : pstate) : diag :=
  mkDiag variant (Some (ps_last s)) (c_fileid c) key.

Lemma mk_diag_ok variant c key s : Nat.ltb (c_fileid c) (ps_nfiles s) = true ->
  mk_diag variant c key s = (ROk (diag_of variant c key s), s).
Proof. intros H. unfold mk_diag. rewrite H. reflexivity. Qed.

(* wrong block form: an error in both modes *)
Lemma block_as_keyword_rejected tag c s : Nat.ltb (c_fileid c) (ps_nfiles s) = true ->
  require_block tag false c s = (RErr (diag_of "IncorrectBlockError" c tag s), s).
Proof. intros H. unfold require_block. rewrite (bindM_ok _ _ _ _ _ (mk_diag_ok _ _ _ _ H)). reflexivity. Qed.

Lemma keyword_as_block_rejected tag c s : Nat.ltb (c_fileid c) (ps_nfiles s) = true ->
  require_keyword tag true c s = (RErr (diag_of "IncorrectKeywordError" c tag s), s).
Proof. intros H. unfold require_keyword. rewrite (bindM_ok _ _ _ _ _ (mk_diag_ok _ _ _ _ H)). reflexivity. Qed.

Lemma correct_form_accepted tag c s : require_block tag true c s = (ROk tt, s) /\ require_keyword tag false c s = (ROk tt, s).
Proof. split; reflexivity. Qed.

(* too many occurrences of a single-occurrence element *)
Lemma duplicate_single_strict c tag s : ps_strict s = true -> Nat.ltb (c_fileid c) (ps_nfiles s) = true ->
  handle_multiplicity_error c tag true s = (RErr (diag_of "InvalidMultiplicityTooMany" c tag s), s).
Proof.
  intros Hs H. unfold handle_multiplicity_error. rewrite (bindM_ok _ _ _ _ _ (mk_diag_ok _ _ _ _ H)).
  apply error_or_log_strict. exact Hs.
Qed.
Lemma duplicate_single_lenient c tag s : ps_strict s = false -> Nat.ltb (c_fileid c) (ps_nfiles s) = true ->
  handle_multiplicity_error c tag true s =
    (ROk tt, upd_log s (diag_of "InvalidMultiplicityTooMany" c tag s :: ps_log s)).
Proof.
  intros Hs H. unfold handle_multiplicity_error. rewrite (bindM_ok _ _ _ _ _ (mk_diag_ok _ _ _ _ H)).
  apply error_or_log_lenient. exact Hs.
Qed.

(* element newer than the declared file version *)
Lemma too_new_strict c tag v s : version_ltb (ps_ver s) v = true -> ps_strict s = true ->
  Nat.ltb (c_fileid c) (ps_nfiles s) = true ->
  check_block_version_lower c tag v s = (RErr (diag_of "BlockRefTooNew" c tag s), s).
Proof.
  intros Hv Hs H. unfold check_block_version_lower. rewrite Hv.
  rewrite (bindM_ok _ _ _ _ _ (mk_diag_ok _ _ _ _ H)). apply error_or_log_strict. exact Hs.
Qed.
Lemma too_new_lenient c tag v s : version_ltb (ps_ver s) v = true -> ps_strict s = false ->
  Nat.ltb (c_fileid c) (ps_nfiles s) = true ->
  check_block_version_lower c tag v s = (ROk tt, upd_log s (diag_of "BlockRefTooNew" c tag s :: ps_log s)).
Proof.
  intros Hv Hs H. unfold check_block_version_lower. rewrite Hv.
  rewrite (bindM_ok _ _ _ _ _ (mk_diag_ok _ _ _ _ H)). apply error_or_log_lenient. exact Hs.
Qed.
Lemma in_version_no_diag c tag v s : version_ltb (ps_ver s) v = false -> check_block_version_lower c tag v s = (ROk tt, s).
Proof. intros Hv. unfold check_block_version_lower. rewrite Hv. reflexivity. Qed.

(* deprecated element: a warning, never an error, in both modes *)
Lemma deprecated_warns c tag v s : version_ltb v (ps_ver s) = true -> Nat.ltb (c_fileid c) (ps_nfiles s) = true ->
  check_block_version_upper c tag v s = (ROk tt, upd_log s (diag_of "BlockRefDeprecated" c tag s :: ps_log s)).
Proof.
  intros Hv H. unfold check_block_version_upper. rewrite Hv.
  rewrite (bindM_ok _ _ _ _ _ (mk_diag_ok _ _ _ _ H)). reflexivity.
Qed.

Lemma enum_too_new_strict c tag v s : version_ltb (ps_ver s) v = true -> ps_strict s = true ->
  Nat.ltb (c_fileid c) (ps_nfiles s) = true ->
  check_enumitem_version_lower c tag v s = (RErr (diag_of "EnumRefTooNew" c tag s), s).
Proof.
  intros Hv Hs H. unfold check_enumitem_version_lower. rewrite Hv.
  rewrite (bindM_ok _ _ _ _ _ (mk_diag_ok _ _ _ _ H)). apply error_or_log_strict. exact Hs.
Qed.
Lemma enum_deprecated_warns c tag v s : version_ltb v (ps_ver s) = true -> Nat.ltb (c_fileid c) (ps_nfiles s) = true ->
  check_enumitem_version_upper c tag v s = (ROk tt, upd_log s (diag_of "EnumRefDeprecated" c tag s :: ps_log s)).
Proof.
  intros Hv H. unfold check_enumitem_version_upper. rewrite Hv.
  rewrite (bindM_ok _ _ _ _ _ (mk_diag_ok _ _ _ _ H)). reflexivity.
Qed.

(* unknown enum value: an error in both modes, naming the text *)
Lemma unknown_enum_rejected td c s txt s1 :
  get_identifier c s = (ROk txt, s1) -> find_enumitem (t_enum td) txt = None ->
  Nat.ltb (c_fileid c) (ps_nfiles s1) = true ->
  parse_enum td c s = (RErr (diag_of "InvalidEnumValue" c txt s1), s1).
Proof.
  intros Hid Hnone H. unfold parse_enum. rewrite (bindM_ok _ _ _ _ _ Hid). rewrite Hnone.
  rewrite (bindM_ok _ _ _ _ _ (mk_diag_ok _ _ _ _ H)). reflexivity.
Qed.

(* a required element that is missing: single -> error in both modes, repeated -> error_or_log *)
Lemma missing_required_single ti ir k kr c s :
  ti_required ti = true -> ti_repeat ti = false -> k = [] -> Nat.ltb (c_fileid c) (ps_nfiles s) = true ->
  multiplicity_check (ti :: ir) (k :: kr) c s =
    (RErr (diag_of "InvalidMultiplicityNotPresent" c (bytes_of (ti_tag ti)) s), s).
Proof.
  intros Hr Hrep -> H. cbn [multiplicity_check]. rewrite Hr, Hrep.
  unfold bindM at 1. rewrite (bindM_ok _ _ _ _ _ (mk_diag_ok _ _ _ _ H)). reflexivity.
Qed.

(* the six ASAP2 versions *)
Lemma version_table :
  a2l_version_new 1 50 = Some V150 /\ a2l_version_new 1 51 = Some V151 /\ a2l_version_new 1 60 = Some V160 /\
  a2l_version_new 1 61 = Some V161 /\ a2l_version_new 1 70 = Some V170 /\ a2l_version_new 1 71 = Some V171.
Proof. repeat split; reflexivity. Qed.

Lemma version_table_inj a b c d v : a2l_version_new a b = Some v -> a2l_version_new c d = Some v -> (a = c /\ b = d)%Z.
Proof.
  unfold a2l_version_new.
  repeat match goal with |- context [(?x =? ?y)%Z] => destruct (Z.eqb_spec x y) end; intros H1 H2; inversion H1; subst; inversion H2; subst; auto; try discriminate.
Qed.
