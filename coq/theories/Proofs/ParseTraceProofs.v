(** C02, the direction load -> write, for every grammar: a successful run of the generic parser that reports nothing
    consumed exactly the tokens the writer prints for the value it returns, in the same order - identifiers, /begin and
    /end verbatim, strings with the same content, numbers as the canonical text of the value they were read as.

    This file: how runs move the cursor ([moves]), what a successful run of each primitive has read, and the trace of
    fields, sequences, tagged groups and whole elements in the order in which they were parsed. *)
From Coq Require Import Ascii String List Bool NArith ZArith Lia Sorting.Sorted Permutation.
From A2L Require Import Base.StableSort Text.Escape Text.IntText Lex.Tokenizer Gram.Spec A2ml.Types Gram.PState Gram.Parser
  Gram.Writer Gram.TokWriter Proofs.CursorProofs Proofs.StrictWholeProofs Proofs.SeqMonoProofs Proofs.MergeProofs Proofs.LayoutProofs Proofs.RoundTripProofs Proofs.RoundTripOrderProofs Proofs.LineOffsetProofs Proofs.ParseOrderProofs.
Import ListNotations.
Local Open Scope N_scope.

(* ---------- the log only grows: a run that leaves it unchanged consists of runs that leave it unchanged ---------- *)
Lemma log_grows {A} (m : M A) : csim m -> forall s r s', m s = (r, s') -> exists l, ps_log s' = l ++ ps_log s.
Proof. intros H s r s' E. destruct (H s r s' E) as (_ & l & L & _). exists l; exact L. Qed.

Lemma app_app_self {A} (l2 l1 x : list A) : l2 ++ l1 ++ x = x -> l1 = [] /\ l2 = [].
Proof.
  intros H. apply (f_equal (@length A)) in H. rewrite !app_length in H.
  destruct l1, l2; simpl in H; try lia; auto.
Qed.

Lemma bind_ok_inv {A B} (m : M A) (f : A -> M B) s b s' :
  bindM m f s = (ROk b, s') -> exists a s1, m s = (ROk a, s1) /\ f a s1 = (ROk b, s').
Proof. unfold bindM. destruct (m s) as [[a| | |] s1]; try discriminate. intros H. exists a, s1. auto. Qed.

Lemma bind_clean_inv {A B} (m : M A) (f : A -> M B) s b s' :
  csim m -> (forall a, csim (f a)) -> bindM m f s = (ROk b, s') -> ps_log s' = ps_log s ->
  exists a s1, m s = (ROk a, s1) /\ ps_log s1 = ps_log s /\ f a s1 = (ROk b, s') /\ ps_log s' = ps_log s1.
Proof.
  intros Hm Hf E L. destruct (bind_ok_inv _ _ _ _ _ E) as (a & s1 & E1 & E2).
  destruct (log_grows m Hm _ _ _ E1) as (l1 & L1). destruct (log_grows _ (Hf a) _ _ _ E2) as (l2 & L2).
  assert (Hn : l1 = [] /\ l2 = []) by (apply (app_app_self l2 l1 (ps_log s)); rewrite <- L1, <- L2; exact L).
  destruct Hn as [-> ->]. cbn [app] in *. exists a, s1. repeat split; assumption.
Qed.

Lemma try_clean_inv {A} (m : M A) s x s' : csim m -> try m s = (ROk x, s') -> ps_log s' = ps_log s ->
  (exists a, m s = (ROk a, s') /\ x = (Some a, None)) \/ (exists d, m s = (RErr d, s') /\ x = (None, Some d)).
Proof.
  intros _ E _. unfold try in E. destruct (m s) as [[a|d| |] s1]; inversion E; subst; [left | right]; eexists; split; reflexivity.
Qed.

(* ---------- how a run moves the cursor, whatever its outcome ---------- *)
Definition moves {A} (m : M A) : Prop := forall s r s1, Inv s -> m s = (r, s1) -> exists ts, adv ts s s1.

Lemma adv_same s s' : Inv s -> ps_before s' = ps_before s -> ps_after s' = ps_after s -> ps_pos s' = ps_pos s ->
  static_eq s s' -> adv [] s s'.
Proof.
  intros I B A P St. constructor; [rewrite B; reflexivity | rewrite A; reflexivity | exact St |].
  rewrite P, B. exact (inv_pos s I).
Qed.

Lemma moves_ext {A} (m m' : M A) : (forall s, m s = m' s) -> moves m' -> moves m.
Proof. intros Hx H s r s1 I E. rewrite Hx in E. exact (H s r s1 I E). Qed.

Lemma moves_still {A} (m : M A) : (forall s, snd (m s) = s) -> moves m.
Proof.
  intros H s r s1 I E. specialize (H s). rewrite E in H. cbn [snd] in H. subst s1.
  exists []. apply adv_refl, (inv_pos s I).
Qed.

Lemma moves_ret {A} (a : A) : moves (ret a).
Proof. apply moves_still. reflexivity. Qed.
Lemma moves_fail {A} d : moves (@fail A d).
Proof. apply moves_still. reflexivity. Qed.
Lemma moves_panic {A} x : moves (@panic A x).
Proof. apply moves_still. reflexivity. Qed.
Lemma moves_fuel {A} : moves (@out_of_fuel A).
Proof. apply moves_still. reflexivity. Qed.
Lemma moves_reads {B} (g : pstate -> B) : moves (reads g).
Proof. apply moves_still. reflexivity. Qed.
Lemma moves_peek : moves peek_token.
Proof. apply moves_still. reflexivity. Qed.
Lemma moves_mk_diag v c k : moves (mk_diag v c k).
Proof. apply moves_still. intros s. unfold mk_diag. destruct (Nat.ltb (c_fileid c) (ps_nfiles s)); reflexivity. Qed.
Lemma moves_get_incfilename f : moves (get_incfilename f).
Proof. apply moves_still. reflexivity. Qed.
Lemma moves_get_tokenpos : moves get_tokenpos.
Proof. apply moves_still. reflexivity. Qed.

Lemma moves_bind {A B} (m : M A) (f : A -> M B) : moves m -> (forall a, moves (f a)) -> moves (bindM m f).
Proof.
  intros Hm Hf s r s' I E. unfold bindM in E. destruct (m s) as [r1 s1] eqn:E1.
  destruct (Hm s r1 s1 I E1) as (t1 & A1).
  destruct r1 as [a| | |]; try (inversion E; subst; exists t1; exact A1).
  destruct (Hf a s1 r s' (adv_inv _ _ _ I A1) E) as (t2 & A2). exists (t1 ++ t2). exact (adv_trans _ _ _ _ _ A1 A2).
Qed.

Lemma moves_try {A} (m : M A) : moves m -> moves (try m).
Proof.
  intros Hm s r s' I E. unfold try in E. destruct (m s) as [r1 s1] eqn:E1.
  destruct (Hm s r1 s1 I E1) as (t1 & A1). exists t1. destruct r1; inversion E; subst; exact A1.
Qed.

Lemma moves_error_or_log d : moves (error_or_log d).
Proof.
  intros s r s1 I E. unfold error_or_log in E. destruct (ps_strict s); injection E as <- <-.
  - exists []. apply adv_refl, (inv_pos s I).
  - exists []. apply adv_same; try reflexivity; [exact I | constructor; reflexivity].
Qed.
Lemma moves_log_warning d : moves (log_warning d).
Proof.
  intros s r s1 I E. unfold log_warning in E. injection E as <- <-.
  exists []. apply adv_same; try reflexivity; [exact I | constructor; reflexivity].
Qed.
Lemma moves_get_next_id : moves get_next_id.
Proof.
  intros s r s1 I E. unfold get_next_id in E. injection E as <- <-.
  exists []. apply adv_same; try reflexivity; [exact I | constructor; reflexivity].
Qed.
Lemma moves_get_line_offset : moves get_line_offset.
Proof.
  intros s r s1 I E. destruct (glo_fine s I) as (off & G). rewrite G in E. injection E as <- <-.
  exists []. apply adv_refl, (inv_pos s I).
Qed.
Lemma moves_get_token c : moves (get_token c).
Proof.
  intros s r s1 I E. unfold get_token in E. destruct (ps_after s) as [|t a] eqn:Ea.
  - assert (M1 : moves (bindM (eof_diag c) (@fail token))).
    { apply moves_bind; [apply moves_mk_diag | intros; apply moves_fail]. }
    exact (M1 s r s1 I E).
  - injection E as <- <-. exists [t]. constructor; cbn; [reflexivity | exact Ea | constructor; reflexivity |].
    rewrite (inv_pos s I). reflexivity.
Qed.

Global Hint Resolve moves_ret moves_fail moves_panic moves_fuel moves_reads moves_peek moves_mk_diag moves_get_incfilename
  moves_get_tokenpos moves_error_or_log moves_log_warning moves_get_next_id moves_get_line_offset moves_get_token : moves.

Ltac mv :=
  repeat first
    [ solve [auto with moves]
    | match goal with |- moves (?F _ _) => is_fix F; fail 2 end
    | apply moves_try
    | apply moves_bind; [|intro; cbv beta]
    | match goal with
      | |- moves (match ?x with _ => _ end) => destruct x
      | |- moves (let '(_, _) := ?x in _) => destruct x
      end ].

Lemma moves_expect_loop c ty : forall fuel, moves (expect_loop fuel c ty).
Proof. induction fuel as [|f IH]; cbn [expect_loop]; mv. Qed.
Global Hint Resolve moves_expect_loop : moves.
Lemma moves_expect_token c ty : moves (expect_token c ty).
Proof. intros s r s1 I E. unfold expect_token in E. exact (moves_expect_loop c ty _ s r s1 I E). Qed.
Global Hint Resolve moves_expect_token : moves.
Lemma moves_get_identifier c : moves (get_identifier c).
Proof. unfold get_identifier. mv. Qed.
Global Hint Resolve moves_get_identifier : moves.
Lemma moves_get_string c : moves (get_string c).
Proof. unfold get_string. mv. Qed.
Global Hint Resolve moves_get_string : moves.
Lemma moves_get_string_maxlen c n : moves (get_string_maxlen c n).
Proof. unfold get_string_maxlen. mv. Qed.
Lemma moves_get_integer t c : moves (get_integer t c).
Proof. unfold get_integer. mv. Qed.
Global Hint Resolve moves_get_string_maxlen moves_get_integer : moves.

Lemma moves_get_double c : moves (get_double c).
Proof.
  unfold get_double. mv.
  apply (moves_ext _ (bindM (reads (fun s => find_fentry (ps_ftab s) (tk_text a))) (fun x => match x with
           | Some e => if fe_ok e && (fe_bits e mod 2 ^ 63 <? 0x7FF0000000000000)%N then ret (fe_bits e)
                       else bindM (mk_diag "MalformedNumber" c (tk_text a)) fail
           | None => panic "float oracle: lexeme missing from the table" end))).
  - intros s. unfold bindM, reads. destruct (find_fentry (ps_ftab s) (tk_text a)) as [e|]; [|reflexivity].
    destruct (fe_ok e && _); reflexivity.
  - mv.
Qed.
Lemma moves_get_float c : moves (get_float c).
Proof.
  unfold get_float. mv.
  apply (moves_ext _ (bindM (reads (fun s => find_fentry (ps_ftab s) (tk_text a))) (fun x => match x with
           | Some e => if fe_ok32 e && ((fe_bits32 e mod 2 ^ 63 <? 0x7FF0000000000000)%N || starts_0x (tk_text a))
                       then ret (fe_bits32 e)
                       else bindM (mk_diag "MalformedNumber" c (tk_text a)) fail
           | None => panic "float oracle: lexeme missing from the table" end))).
  - intros s. unfold bindM, reads. destruct (find_fentry (ps_ftab s) (tk_text a)) as [e|]; [|reflexivity].
    destruct (fe_ok32 e && _); reflexivity.
  - mv.
Qed.
Global Hint Resolve moves_get_double moves_get_float : moves.

Lemma moves_version_cond {A} (p : version -> bool) (m1 m2 : M A) :
  moves m1 -> moves m2 -> moves (fun s => if p (ps_ver s) then m1 s else m2 s).
Proof. intros H1 H2 s r s1 I E. destruct (p (ps_ver s)); [exact (H1 s r s1 I E) | exact (H2 s r s1 I E)]. Qed.
Lemma moves_enum_lower c tag v : moves (check_enumitem_version_lower c tag v).
Proof.
  unfold check_enumitem_version_lower.
  apply (moves_version_cond (fun x => version_ltb x v) (bindM (mk_diag "EnumRefTooNew" c tag) error_or_log) (ret tt)); mv.
Qed.
Lemma moves_enum_upper c tag v : moves (check_enumitem_version_upper c tag v).
Proof.
  unfold check_enumitem_version_upper.
  apply (moves_version_cond (fun x => version_ltb v x) (bindM (mk_diag "EnumRefDeprecated" c tag) log_warning) (ret tt)); mv.
Qed.
Global Hint Resolve moves_enum_lower moves_enum_upper : moves.
Lemma moves_parse_enum td c : moves (parse_enum td c).
Proof. unfold parse_enum. mv. Qed.
Global Hint Resolve moves_parse_enum : moves.

(* ---------- recoverable problems leave a trace in the log ---------- *)
Lemma cons_neq_self {A} (x : A) l : x :: l <> l.
Proof. intros H. apply (f_equal (@length A)) in H. simpl in H. lia. Qed.

Lemma eol_not_clean d s u s' : error_or_log d s = (ROk u, s') -> ps_log s' = ps_log s -> False.
Proof.
  intros E L. unfold error_or_log in E. destruct (ps_strict s); [discriminate|]. injection E as _ <-. cbn [ps_log upd_log] in L.
  exact (cons_neq_self _ _ L).
Qed.
Lemma warn_not_clean d s u s' : log_warning d s = (ROk u, s') -> ps_log s' = ps_log s -> False.
Proof. intros E L. unfold log_warning in E. injection E as _ <-. cbn [ps_log upd_log] in L. exact (cons_neq_self _ _ L). Qed.

Lemma mk_diag_state v c k s r s1 : mk_diag v c k s = (r, s1) -> s1 = s.
Proof. unfold mk_diag. destruct (Nat.ltb (c_fileid c) (ps_nfiles s)); intros H; injection H as _ <-; reflexivity. Qed.

Lemma diag_eol_not_clean v c k s u s' :
  bindM (mk_diag v c k) error_or_log s = (ROk u, s') -> ps_log s' = ps_log s -> False.
Proof.
  intros E L. destruct (bind_ok_inv _ _ _ _ _ E) as (d & s1 & E1 & E2). apply mk_diag_state in E1. subst s1.
  exact (eol_not_clean d s u s' E2 L).
Qed.
Lemma diag_warn_not_clean v c k s u s' :
  bindM (mk_diag v c k) log_warning s = (ROk u, s') -> ps_log s' = ps_log s -> False.
Proof.
  intros E L. destruct (bind_ok_inv _ _ _ _ _ E) as (d & s1 & E1 & E2). apply mk_diag_state in E1. subst s1.
  exact (warn_not_clean d s u s' E2 L).
Qed.

(* a version check that reports nothing does nothing *)
Lemma enum_lower_clean c tag v s u s' : check_enumitem_version_lower c tag v s = (ROk u, s') -> ps_log s' = ps_log s -> s' = s.
Proof.
  unfold check_enumitem_version_lower. destruct (version_ltb (ps_ver s) v); intros E L.
  - destruct (diag_eol_not_clean _ _ _ _ _ _ E L). - injection E as _ <-. reflexivity.
Qed.
Lemma enum_upper_clean c tag v s u s' : check_enumitem_version_upper c tag v s = (ROk u, s') -> ps_log s' = ps_log s -> s' = s.
Proof.
  unfold check_enumitem_version_upper. destruct (version_ltb v (ps_ver s)); intros E L.
  - destruct (diag_warn_not_clean _ _ _ _ _ _ E L). - injection E as _ <-. reflexivity.
Qed.
Lemma block_lower_clean c tag v s u s' : check_block_version_lower c tag v s = (ROk u, s') -> ps_log s' = ps_log s -> s' = s.
Proof.
  unfold check_block_version_lower. destruct (version_ltb (ps_ver s) v); intros E L.
  - destruct (diag_eol_not_clean _ _ _ _ _ _ E L). - injection E as _ <-. reflexivity.
Qed.
Lemma block_upper_clean c tag v s u s' : check_block_version_upper c tag v s = (ROk u, s') -> ps_log s' = ps_log s -> s' = s.
Proof.
  unfold check_block_version_upper. destruct (version_ltb v (ps_ver s)); intros E L.
  - destruct (diag_warn_not_clean _ _ _ _ _ _ E L). - injection E as _ <-. reflexivity.
Qed.
Lemma diag_fail_not_ok {A} v c k s (a : A) s' : bindM (mk_diag v c k) (@fail A) s = (ROk a, s') -> False.
Proof. intros E. destruct (bind_ok_inv _ _ _ _ _ E) as (d & s1 & _ & E2). discriminate. Qed.

(* ---------- what a successful run of a primitive has read ---------- *)
Section Read.
  Variable c : ctx.
  Hypothesis Hc : c_fileid c = O.
  Variable ftab : list fentry.

  Lemma expect_inv ty s t s' : Inv s -> expect_token c ty s = (ROk t, s') ->
    exists r, ps_after s = t :: r /\ tk_type t = ty /\ adv [t] s s'.
  Proof.
    intros I E. destruct (ps_after s) as [|t0 r] eqn:Ea.
    - destruct (expect_eof c Hc ty s I Ea) as (d & X). congruence.
    - destruct (ttype_eqb (tk_type t0) ty) eqn:Q.
      + apply ttype_eqb_eq in Q. destruct (expect_fine c ty s t0 r I Ea Q) as (s1 & X & A).
        rewrite X in E. injection E as <- <-. exists r. auto.
      + assert (Hn : tk_type t0 <> ty) by (intro Z; apply ttype_eqb_eq in Z; congruence).
        destruct (expect_wrong c Hc ty s t0 r I Ea Hn) as (d & s1 & X & _). congruence.
  Qed.

  Lemma glo_inv s off s' : Inv s -> get_line_offset s = (ROk off, s') -> s' = s.
  Proof. intros I E. destruct (glo_fine s I) as (o & G). congruence. Qed.

  Lemma get_identifier_inv s x s' : Inv s -> get_identifier c s = (ROk x, s') ->
    exists t r, ps_after s = t :: r /\ tk_type t = TIdentifier /\ x = tk_text t /\ adv [t] s s'.
  Proof.
    intros I E. pose proof E as E0. unfold get_identifier in E0.
    destruct (bind_ok_inv _ _ _ _ _ E0) as (t & s1 & E1 & _).
    destruct (expect_inv _ _ _ _ I E1) as (r & Ea & Ht & _).
    destruct (get_identifier_fine c Hc s t r I Ea Ht) as (s2 & X & A). rewrite X in E. injection E as <- <-.
    exists t, r. auto.
  Qed.

  Lemma get_string_inv s x s' : Inv s -> get_string c s = (ROk x, s') -> ps_log s' = ps_log s ->
    exists t r, ps_after s = t :: r /\ tk_type t = TString /\ x = unescape (strip_quotes (tk_text t)) /\ adv [t] s s'.
  Proof.
    intros I E L.
    assert (Hstr : (t' <-- expect_token c TString ;; ret (unescape (strip_quotes (tk_text t')))) s = (ROk x, s') ->
                   exists t r, ps_after s = t :: r /\ tk_type t = TString /\ x = unescape (strip_quotes (tk_text t)) /\ adv [t] s s').
    { intros X. destruct (bind_ok_inv _ _ _ _ _ X) as (t & s1 & E1 & E2). injection E2 as <- <-.
      destruct (expect_inv _ _ _ _ I E1) as (r & Ea & Ht & A). exists t, r. auto. }
    unfold get_string in E. destruct (bind_ok_inv _ _ _ _ _ E) as (pk & s0 & E0 & E1).
    unfold peek_token in E0. injection E0 as <- <-.
    destruct (ps_after s) as [|t0 r0]; [exact (Hstr E1)|].
    destruct (ttype_eqb (tk_type t0) TIdentifier); [|exact (Hstr E1)].
    exfalso.
    apply bind_clean_inv in E1; [|cs|intro; cs|exact L]. destruct E1 as (text & s1 & _ & _ & E2 & L2).
    destruct (bind_ok_inv _ _ _ _ _ E2) as (d & s2 & D & E3). apply mk_diag_state in D. subst s2.
    destruct (bind_ok_inv _ _ _ _ _ E3) as (u & s3 & X & E4). injection E4 as _ <-.
    exact (eol_not_clean _ _ _ _ X L2).
  Qed.

  Lemma get_string_maxlen_inv n s x s' : Inv s -> get_string_maxlen c n s = (ROk x, s') -> ps_log s' = ps_log s ->
    exists t r, ps_after s = t :: r /\ tk_type t = TString /\ x = unescape (strip_quotes (tk_text t)) /\ adv [t] s s'.
  Proof.
    intros I E L. unfold get_string_maxlen in E.
    apply bind_clean_inv in E; [|cs|intro; cs|exact L]. destruct E as (text & s1 & E1 & L1 & E2 & L2).
    destruct (get_string_inv _ _ _ I E1 L1) as (t & r & Ea & Ht & Hx & A).
    apply bind_clean_inv in E2; [|cs|intro; cs|exact L2]. destruct E2 as (u & s2 & E3 & L3 & E4 & _).
    injection E4 as <- <-. exists t, r. refine (conj Ea (conj Ht (conj Hx _))).
    destruct (Nat.ltb n (length text)).
    - destruct (diag_eol_not_clean _ _ _ _ _ _ E3 L3).
    - injection E3 as _ <-. exact A.
  Qed.

  Lemma get_integer_inv ity s x s' : Inv s -> get_integer ity c s = (ROk x, s') ->
    exists t r, ps_after s = t :: r /\ tk_type t = TNumber /\ get_integer_text ity (tk_text t) = Some x /\ adv [t] s s'.
  Proof.
    intros I E. unfold get_integer in E. destruct (bind_ok_inv _ _ _ _ _ E) as (t & s1 & E1 & E2).
    destruct (expect_inv _ _ _ _ I E1) as (r & Ea & Ht & A). exists t, r.
    destruct (get_integer_text ity (tk_text t)) as [y|]; [|destruct (diag_fail_not_ok _ _ _ _ _ _ E2)].
    injection E2 as <- <-. auto.
  Qed.

  Definition double_reading (text : bytes) : option N :=
    if starts_0x text then option_map f64_bits_of_u64 (parse_u64_hex (skipn 2 text))
    else match find_fentry ftab text with
         | Some e => if fe_ok e && (fe_bits e mod 2 ^ 63 <? 0x7FF0000000000000) then Some (fe_bits e) else None
         | None => None
         end.
  Definition float_reading (text : bytes) : option N :=
    match find_fentry ftab text with
    | Some e => if fe_ok32 e && ((fe_bits32 e mod 2 ^ 63 <? 0x7FF0000000000000) || starts_0x text) then Some (fe_bits32 e) else None
    | None => None
    end.

  Lemma get_double_inv s x s' : Inv s -> ps_ftab s = ftab -> get_double c s = (ROk x, s') ->
    exists t r, ps_after s = t :: r /\ tk_type t = TNumber /\ double_reading (tk_text t) = Some x /\ adv [t] s s'.
  Proof.
    intros I Hf E. unfold get_double in E. destruct (bind_ok_inv _ _ _ _ _ E) as (t & s1 & E1 & E2).
    destruct (expect_inv _ _ _ _ I E1) as (r & Ea & Ht & A). exists t, r. unfold double_reading.
    destruct (starts_0x (tk_text t)).
    - destruct (parse_u64_hex (skipn 2 (tk_text t))) as [u|]; [|destruct (diag_fail_not_ok _ _ _ _ _ _ E2)].
      injection E2 as <- <-. auto.
    - rewrite (se_ftab _ _ (adv_static _ _ _ A)), Hf in E2.
      destruct (find_fentry ftab (tk_text t)) as [e|]; [|discriminate].
      destruct (fe_ok e && _); [|destruct (diag_fail_not_ok _ _ _ _ _ _ E2)].
      injection E2 as <- <-. auto.
  Qed.

  Lemma get_float_inv s x s' : Inv s -> ps_ftab s = ftab -> get_float c s = (ROk x, s') ->
    exists t r, ps_after s = t :: r /\ tk_type t = TNumber /\ float_reading (tk_text t) = Some x /\ adv [t] s s'.
  Proof.
    intros I Hf E. unfold get_float in E. destruct (bind_ok_inv _ _ _ _ _ E) as (t & s1 & E1 & E2).
    destruct (expect_inv _ _ _ _ I E1) as (r & Ea & Ht & A). exists t, r. unfold float_reading.
    rewrite (se_ftab _ _ (adv_static _ _ _ A)), Hf in E2.
    destruct (find_fentry ftab (tk_text t)) as [e|]; [|discriminate].
    destruct (fe_ok32 e && _); [|destruct (diag_fail_not_ok _ _ _ _ _ _ E2)].
    injection E2 as <- <-. auto.
  Qed.

  Lemma parse_enum_inv td s x s' : Inv s -> parse_enum td c s = (ROk x, s') -> ps_log s' = ps_log s ->
    exists t r, ps_after s = t :: r /\ tk_type t = TIdentifier /\ x = tk_text t /\ adv [t] s s'.
  Proof.
    intros I E L. unfold parse_enum in E.
    apply bind_clean_inv in E; [|cs|intro; cs|exact L]. destruct E as (nm & s1 & E1 & L1 & E2 & L2).
    destruct (get_identifier_inv _ _ _ I E1) as (t & r & Ea & Ht & Hx & A). exists t, r.
    destruct (find_enumitem (t_enum td) nm) as [e|] eqn:Fe; [|destruct (diag_fail_not_ok _ _ _ _ _ _ E2)].
    apply find_enumitem_tag in Fe.
    apply bind_clean_inv in E2; [|cs|intro; cs|exact L2]. destruct E2 as (u1 & s2 & E3 & L3 & E4 & L4).
    apply bind_clean_inv in E4; [|cs|intro; cs|exact L4]. destruct E4 as (u2 & s3 & E5 & L5 & E6 & _).
    injection E6 as <- <-.
    assert (s2 = s1).
    { destruct (ei_vmin e); [exact (enum_lower_clean _ _ _ _ _ _ E3 L3) | injection E3 as _ <-; reflexivity]. }
    subst s2.
    assert (s3 = s1).
    { destruct (ei_vmax e); [exact (enum_upper_clean _ _ _ _ _ _ E5 L5) | injection E5 as _ <-; reflexivity]. }
    subst s3. refine (conj Ea (conj Ht (conj _ A))). congruence.
  Qed.
End Read.

(* ---------- the written token that stands for an input token ---------- *)
Definition reads_as (ftab : list fentry) (t : token) (w : shape) : Prop :=
  tk_type t = fst w /\
  match fst w with
  | TIdentifier => tk_text t = snd w
  | TString => snd w = quoted (unescape (strip_quotes (tk_text t)))
  | TNumber =>
      (exists ity z hex, get_integer_text ity (tk_text t) = Some (z, hex) /\ snd w = add_integer_text ity z hex) \/
      (exists bits, (double_reading ftab (tk_text t) = Some bits \/ float_reading ftab (tk_text t) = Some bits) /\
                    snd w = float_text ftab bits)
  | TBegin | TEnd => True
  | TInclude | TComment => False
  end.

Lemma with_offset_inv {A} (m : M A) (k : A -> N -> value) s v s' : csim m ->
  (x <-- m ;; off <-- get_line_offset ;; ret (k x off)) s = (ROk v, s') -> ps_log s' = ps_log s ->
  exists a s1 off, m s = (ROk a, s1) /\ ps_log s1 = ps_log s /\ v = k a off /\ (Inv s1 -> s' = s1) /\
                   get_line_offset s1 = (ROk off, s').
Proof.
  intros Hm E L. apply bind_clean_inv in E; [|exact Hm|intro; cs|exact L]. destruct E as (a & s1 & E1 & L1 & E2 & _).
  destruct (bind_ok_inv _ _ _ _ _ E2) as (off & s2 & G & E3). injection E3 as <- <-.
  exists a, s1, off. repeat split; try assumption. intros I1. exact (glo_inv s1 off s2 I1 G).
Qed.

Section Fields.
  Variable S : spec.
  Variable ftab : list fentry.
  Variable rec : tydef -> ctx -> N -> M value.
  Variable c : ctx.
  Hypothesis Hc : c_fileid c = O.

  Definition nomax (ty : fty) : bool := match ty with FStringMax _ => false | _ => true end.

  Lemma scalar_trace ty s v s' : simple_ty ty = true -> nomax ty = true -> Inv s -> first_ok s -> ps_ftab s = ftab ->
    parse_scalar_field S rec ty c s = (ROk v, s') -> ps_log s' = ps_log s ->
    exists t r w o, ps_after s = t :: r /\ adv [t] s s' /\ scalar_toks ftab ty v = [w] /\ reads_as ftab t w /\
      scalar_offs ty v = [o] /\ (ps_after s' <> [] -> match o with Some off => off = tk_line t - prevl s | None => True end).
  Proof.
    intros Hsim Hnm I Hfo Hf E L.
    assert (Hoff : forall tk s1 off, adv [tk] s s1 -> get_line_offset s1 = (ROk off, s') -> s' = s1 ->
                   ps_after s' <> [] -> off = tk_line tk - prevl s).
    { intros tk s1 off A G -> Hne. pose proof (glo_after [] tk s s1 I Hfo A Hne) as G2. rewrite G in G2. injection G2 as ->. reflexivity. }
    destruct ty; try discriminate; cbn [parse_scalar_field] in E.
    - destruct (with_offset_inv (get_integer t c) (fun r off => VScalar (SInt (fst r) (snd r)) off) _ _ _ ltac:(cs) E L)
        as ([z hex] & s1 & off & E1 & _ & -> & Hs & G).
      destruct (get_integer_inv c Hc _ _ _ _ I E1) as (tk & r & Ea & Ht & Hx & A).
      pose proof (Hs (adv_inv _ _ _ I A)) as Es. exists tk, r, (TNumber, add_integer_text t z hex), (Some off).
      refine (conj Ea (conj _ (conj eq_refl (conj (conj Ht _) (conj eq_refl _))))).
      + rewrite Es. exact A.
      + left. exists t, z, hex. auto.
      + exact (Hoff tk s1 off A G Es).
    - destruct (with_offset_inv (get_double c) (fun v off => VScalar (SFloat v) off) _ _ _ ltac:(cs) E L)
        as (bits & s1 & off & E1 & _ & -> & Hs & G).
      destruct (get_double_inv c Hc ftab _ _ _ I Hf E1) as (tk & r & Ea & Ht & Hx & A).
      pose proof (Hs (adv_inv _ _ _ I A)) as Es. exists tk, r, (TNumber, float_text ftab bits), (Some off).
      refine (conj Ea (conj _ (conj eq_refl (conj (conj Ht _) (conj eq_refl _))))).
      + rewrite Es. exact A.
      + right. exists bits. auto.
      + exact (Hoff tk s1 off A G Es).
    - destruct (with_offset_inv (get_float c) (fun v off => VScalar (SFloat v) off) _ _ _ ltac:(cs) E L)
        as (bits & s1 & off & E1 & _ & -> & Hs & G).
      destruct (get_float_inv c Hc ftab _ _ _ I Hf E1) as (tk & r & Ea & Ht & Hx & A).
      pose proof (Hs (adv_inv _ _ _ I A)) as Es. exists tk, r, (TNumber, float_text ftab bits), (Some off).
      refine (conj Ea (conj _ (conj eq_refl (conj (conj Ht _) (conj eq_refl _))))).
      + rewrite Es. exact A.
      + right. exists bits. auto.
      + exact (Hoff tk s1 off A G Es).
    - destruct (with_offset_inv (get_identifier c) (fun v off => VScalar (SText v) off) _ _ _ ltac:(cs) E L)
        as (x & s1 & off & E1 & _ & -> & Hs & G).
      destruct (get_identifier_inv c Hc _ _ _ I E1) as (tk & r & Ea & Ht & Hx & A).
      pose proof (Hs (adv_inv _ _ _ I A)) as Es. exists tk, r, (TIdentifier, x), (Some off).
      refine (conj Ea (conj _ (conj eq_refl (conj (conj Ht _) (conj eq_refl _))))).
      + rewrite Es. exact A.
      + cbn. congruence.
      + exact (Hoff tk s1 off A G Es).
    - destruct (with_offset_inv (get_string c) (fun v off => VScalar (SText v) off) _ _ _ ltac:(cs) E L)
        as (x & s1 & off & E1 & L1 & -> & Hs & G).
      destruct (get_string_inv c Hc _ _ _ I E1 L1) as (tk & r & Ea & Ht & Hx & A).
      pose proof (Hs (adv_inv _ _ _ I A)) as Es. exists tk, r, (TString, quoted x), (Some off).
      refine (conj Ea (conj _ (conj eq_refl (conj (conj Ht _) (conj eq_refl _))))).
      + rewrite Es. exact A.
      + cbn. congruence.
      + exact (Hoff tk s1 off A G Es).
    - destruct (lookup_ty S e) as [td|]; [|discriminate].
      destruct (with_offset_inv (parse_enum td c) (fun v off => VScalar (SText v) off) _ _ _ ltac:(cs) E L)
        as (x & s1 & off & E1 & L1 & -> & Hs & G).
      destruct (parse_enum_inv c Hc _ _ _ _ I E1 L1) as (tk & r & Ea & Ht & Hx & A).
      pose proof (Hs (adv_inv _ _ _ I A)) as Es. exists tk, r, (TIdentifier, x), (Some off).
      refine (conj Ea (conj _ (conj eq_refl (conj (conj Ht _) (conj eq_refl _))))).
      + rewrite Es. exact A.
      + cbn. congruence.
      + exact (Hoff tk s1 off A G Es).
  Qed.
End Fields.

(* ---------- moving back ---------- *)
Lemma restore_inv {A} (acc l : A) ts s s1 s' : Inv s -> adv ts s s1 ->
  (set_tokenpos (ps_pos s) ;;; ret acc) s1 = (ROk l, s') -> l = acc /\ adv [] s s'.
Proof.
  intros I A1 E. destruct (set_tokenpos_back ts s s1 A1 (inv_pos s I)) as (s2 & E2 & A2).
  rewrite (bind_ok _ _ _ _ _ E2) in E. injection E as <- <-. auto.
Qed.

Lemma undo_back ts t s s1 : adv (ts ++ [t]) s s1 -> exists s2, undo_get_token s1 = (ROk tt, s2) /\ adv ts s s2.
Proof.
  intros [B A St P]. unfold undo_get_token. rewrite B, rev_app_distr. cbn [rev app].
  eexists. split; [reflexivity|]. constructor; cbn.
  - reflexivity.
  - rewrite A, <- app_assoc. reflexivity.
  - destruct St. constructor; assumption.
  - rewrite P, B, rev_app_distr. cbn [rev app length]. reflexivity.
Qed.

Lemma find_titem_some : forall titems tag k idx ti, find_titem titems tag k = Some (idx, ti) ->
  (k <= idx)%nat /\ nth_error titems (idx - k) = Some ti /\ bytes_of (ti_tag ti) = tag.
Proof.
  induction titems as [|tj r IH]; intros tag k idx ti H; [discriminate|]. cbn [find_titem] in H.
  destruct (bytes_eqb (bytes_of (ti_tag tj)) tag) eqn:E.
  - injection H as <- <-. rewrite Nat.sub_diag. apply bytes_eqb_eq in E. auto.
  - destruct (IH tag (Datatypes.S k) idx ti H) as (Hk & Hn & Ht). split; [lia|]. split; [|exact Ht].
    replace (idx - k)%nat with (Datatypes.S (idx - Datatypes.S k)) by lia. exact Hn.
Qed.

(* ---------- the next tag ---------- *)
Section NextTag.
  Variable c : ctx.
  Hypothesis Hc : c_fileid c = O.

  Lemma next_tag_inv s nt s1 : Inv s -> get_next_tag_or_comment c s = (ROk nt, s1) ->
    (exists tB tI r off, ps_after s = tB :: tI :: r /\ tk_type tB = TBegin /\ tk_type tI = TIdentifier /\
                         nt = BCBlock tI true off /\ adv [tB; tI] s s1) \/
    (exists tI r off, ps_after s = tI :: r /\ tk_type tI = TIdentifier /\ nt = BCBlock tI false off /\ adv [tI] s s1) \/
    (nt = BCNone /\ adv [] s s1).
  Proof.
    intros I E. destruct (ps_after s) as [|t r] eqn:Ea.
    - (* end of input *)
      right; right. unfold get_next_tag_or_comment, get_tokenpos, peek_token in E. unfold bindM at 1 in E. unfold bindM at 1 in E.
      rewrite Ea in E. destruct (expect_eof c Hc TIdentifier s I Ea) as (d & X).
      rewrite (bind_ok _ _ _ _ _ (try_err _ _ _ _ X)) in E.
      destruct (glo_fine s I) as (off & G). rewrite (bind_ok _ _ _ _ _ G) in E.
      destruct (restore_inv BCNone nt [] s s s1 I (adv_refl s (inv_pos s I)) E) as [-> A]. auto.
    - destruct (ttype_eqb (tk_type t) TBegin) eqn:QB.
      + apply ttype_eqb_eq in QB. destruct r as [|tI r'].
        * exfalso. unfold get_next_tag_or_comment, get_tokenpos, peek_token in E. unfold bindM at 1 in E. unfold bindM at 1 in E.
          rewrite Ea, QB in E. cbn [ttype_eqb] in E.
          destruct (get_token_fine c s t [] I Ea) as (s2 & E1 & A1). rewrite (bind_ok _ _ _ _ _ E1) in E.
          assert (I2 : Inv s2) by (eapply adv_inv; eassumption).
          destruct (glo_fine s2 I2) as (off & G). rewrite (bind_ok _ _ _ _ _ G) in E.
          assert (Ha2 : ps_after s2 = []).
          { pose proof (adv_after _ _ _ A1) as Q. rewrite Ea in Q. cbn [app] in Q. injection Q as Q. symmetry. exact Q. }
          destruct (expect_eof c Hc TIdentifier s2 I2 Ha2) as (d & X).
          rewrite (bind_ok _ _ _ _ _ (try_err _ _ _ _ X)) in E.
          destruct (set_tokenpos_back [t] s s2 A1 (inv_pos s I)) as (s3 & E3 & _).
          rewrite (bind_ok _ _ _ _ _ E3) in E. discriminate.
        * destruct (ttype_eqb (tk_type tI) TIdentifier) eqn:QI.
          -- apply ttype_eqb_eq in QI. left.
             destruct (next_tag_block c s t tI r' I Ea QB QI) as (off & s2 & X & A). rewrite X in E. injection E as <- <-.
             exists t, tI, r', off. auto.
          -- exfalso. assert (HnI : tk_type tI <> TIdentifier) by (intro Z; apply ttype_eqb_eq in Z; congruence).
             unfold get_next_tag_or_comment, get_tokenpos, peek_token in E. unfold bindM at 1 in E. unfold bindM at 1 in E.
             rewrite Ea, QB in E. cbn [ttype_eqb] in E.
             destruct (get_token_fine c s t (tI :: r') I Ea) as (s2 & E1 & A1). rewrite (bind_ok _ _ _ _ _ E1) in E.
             assert (I2 : Inv s2) by (eapply adv_inv; eassumption).
             destruct (glo_fine s2 I2) as (off & G). rewrite (bind_ok _ _ _ _ _ G) in E.
             assert (Ha2 : ps_after s2 = tI :: r').
             { pose proof (adv_after _ _ _ A1) as Q. rewrite Ea in Q. cbn [app] in Q. injection Q as Q. symmetry. exact Q. }
             destruct (expect_wrong c Hc TIdentifier s2 tI r' I2 Ha2 HnI) as (d & s3 & X & A3).
             rewrite (bind_ok _ _ _ _ _ (try_err _ _ _ _ X)) in E.
             destruct (set_tokenpos_back [t; tI] s s3 (adv_trans [t] [tI] _ _ _ A1 A3) (inv_pos s I)) as (s4 & E4 & _).
             rewrite (bind_ok _ _ _ _ _ E4) in E. discriminate.
      + assert (HnB : tk_type t <> TBegin) by (intro Z; apply ttype_eqb_eq in Z; congruence).
        destruct (ttype_eqb (tk_type t) TIdentifier) eqn:QI.
        * apply ttype_eqb_eq in QI. right; left.
          destruct (next_tag_keyword c s t r I Ea QI) as (off & s2 & X & A). rewrite X in E. injection E as <- <-.
          exists t, r, off. auto.
        * assert (HnI : tk_type t <> TIdentifier) by (intro Z; apply ttype_eqb_eq in Z; congruence).
          right; right. destruct (next_tag_none c Hc s t r I Ea HnB HnI) as (s2 & X & A). rewrite X in E. injection E as <- <-. auto.
  Qed.

  (* the offset that comes with the tag *)
  Lemma next_tag_block_off s tB tI r off s1 : Inv s -> first_ok s -> ps_after s = tB :: tI :: r ->
    tk_type tB = TBegin -> tk_type tI = TIdentifier ->
    get_next_tag_or_comment c s = (ROk (BCBlock tI true off), s1) -> off = tk_line tB - prevl s.
  Proof.
    intros I Hfo Ha HB HI E. unfold get_next_tag_or_comment, get_tokenpos, peek_token in E. unfold bindM at 1 in E. unfold bindM at 1 in E.
    rewrite Ha, HB in E. cbn [ttype_eqb] in E.
    destruct (get_token_fine c s tB (tI :: r) I Ha) as (s2 & E1 & A1). rewrite (bind_ok _ _ _ _ _ E1) in E.
    assert (I2 : Inv s2) by (eapply adv_inv; eassumption).
    assert (Ha2 : ps_after s2 = tI :: r).
    { pose proof (adv_after _ _ _ A1) as Q. rewrite Ha in Q. cbn [app] in Q. injection Q as Q. symmetry. exact Q. }
    assert (G : get_line_offset s2 = (ROk (tk_line tB - prevl s), s2)).
    { apply (glo_after [] tB s s2 I Hfo A1). rewrite Ha2. discriminate. }
    rewrite (bind_ok _ _ _ _ _ G) in E.
    destruct (expect_fine c TIdentifier s2 tI r I2 Ha2 HI) as (s3 & E2 & A2).
    rewrite (bind_ok _ _ _ _ _ (try_ok _ _ _ _ E2)) in E. injection E as <- _. reflexivity.
  Qed.

  Lemma next_tag_keyword_off s tI r off s1 : Inv s -> first_ok s -> ps_after s = tI :: r -> tk_type tI = TIdentifier ->
    get_next_tag_or_comment c s = (ROk (BCBlock tI false off), s1) -> ps_after s1 <> [] -> off = tk_line tI - prevl s.
  Proof.
    intros I Hfo Ha HI E Hne. unfold get_next_tag_or_comment, get_tokenpos, peek_token in E. unfold bindM at 1 in E. unfold bindM at 1 in E.
    rewrite Ha, HI in E. cbn [ttype_eqb] in E.
    destruct (expect_fine c TIdentifier s tI r I Ha HI) as (s2 & E1 & A1).
    rewrite (bind_ok _ _ _ _ _ (try_ok _ _ _ _ E1)) in E.
    destruct (bind_ok_inv _ _ _ _ _ E) as (off2 & s3 & G & E3). injection E3 as <- <-.
    assert (s3 = s2) by exact (glo_inv s2 off2 s3 (adv_inv _ _ _ I A1) G). subst s3.
    pose proof (glo_after [] tI s s2 I Hfo A1 Hne) as G2. rewrite G in G2. injection G2 as ->. reflexivity.
  Qed.
End NextTag.

(* ---------- which values are covered: no A2ML and no IF_DATA below, position restrictions that reorder nothing ---------- *)
Section Plain.
  Variable S : spec.
  Variable posrs : list (string * posr).
  Variable pl : tydef -> value -> Prop.
  Definition kid_ok (ti : titem) (k : value) : Prop :=
    match lookup_ty S (ti_type ti) with
    | Some td => t_special td = None /\ pl td k
    | None => True
    end.
  Definition group_good (titems : list titem) (mine : list (list value)) : Prop :=
    (forall i ti k, nth_error titems i = Some ti -> In k (nth i mine []) -> kid_ok ti k) /\
    group_order (kid_entries S posrs titems mine) = ssort sort_leb (kid_entries S posrs titems mine).
  Fixpoint items_good (its : list item) (kids : list (list value)) : Prop :=
    match its with
    | [] => True
    | IField _ _ :: r => items_good r kids
    | ITagged _ _ titems :: r => group_good titems (firstn (length titems) kids) /\ items_good r (skipn (length titems) kids)
    end.
End Plain.
Fixpoint good (S : spec) (posrs : list (string * posr)) (f : nat) (td : tydef) (v : value) : Prop :=
  match f with
  | O => True
  | Datatypes.S f' => match v with VNode _ _ _ kids _ => items_good S posrs (good S posrs f') (t_items td) kids | _ => True end
  end.

(* the grammar conditions: nested field types are plain scalars or structs of plain scalars; a tagged item is a block
   exactly if its type is *)
Definition struct_ty_ok (S : spec) (sn : string) : bool :=
  match lookup_ty S sn with Some td => simple_struct S td | None => false end.
Definition fty_ok (S : spec) (ty : fty) : bool :=
  match ty with
  | FStruct sn => struct_ty_ok S sn
  | FArray t _ => simple_ty t && nomax t
  | FSeq (FStruct sn) _ => struct_ty_ok S sn
  | FSeq t _ => simple_ty t && nomax t
  | FStringMax _ => false
  | _ => true
  end.
Definition titem_ok (S : spec) (ti : titem) : bool :=
  match lookup_ty S (ti_type ti) with Some td => Bool.eqb (ti_block ti) (is_blockb td) | None => true end.
Definition item_okb (S : spec) (it : item) : bool :=
  match it with
  | IField _ ty => fty_ok S ty
  | ITagged union _ titems => negb union && forallb (titem_ok S) titems
  end.
Definition td_ok (S : spec) (td : tydef) : bool := forallb (item_okb S) (t_items td).
Definition spec_ok (S : spec) : bool := forallb (td_ok S) S.

Lemma lookup_ty_in S n td : lookup_ty S n = Some td -> In td S /\ t_name td = n.
Proof.
  induction S as [|t r IH]; [discriminate|]. cbn [lookup_ty]. destruct (String.eqb_spec (t_name t) n) as [Hn|Hn].
  - intros H. injection H as <-. split; [left; reflexivity | exact Hn].
  - intros H. destruct (IH H) as [Hi Ht]. split; [right; exact Hi | exact Ht].
Qed.
Lemma lookup_name S n td : lookup_ty S n = Some td -> lookup_ty S (t_name td) = Some td.
Proof. intros H. destruct (lookup_ty_in S n td H) as [_ <-]. exact H. Qed.
Lemma spec_ok_td S n td : spec_ok S = true -> lookup_ty S n = Some td -> td_ok S td = true.
Proof. intros H L. apply lookup_ty_in in L. destruct L as [L _]. unfold spec_ok in H. rewrite forallb_forall in H. exact (H td L). Qed.

Section Elements.
  Variable S : spec.
  Variable posrs : list (string * posr).
  Variable ftab : list fentry.
  Variable ifuel : nat.
  Variable rec : tydef -> ctx -> N -> M value.
  Variable w : value -> list shape.
  Variable wo : value -> list (option N).
  Variable pl : tydef -> value -> Prop.

  Definition tr (ts : list token) (ws : list shape) : Prop := Forall2 (reads_as ftab) ts ws.
  Definition node_at (td : tydef) (off : N) (v : value) (s s' : pstate) : Prop :=
    exists lay fields kids, v = VNode (t_name td) lay fields kids [] /\ l_uid lay = ps_seq s + 1 /\ ps_seq s + 1 <= ps_seq s' /\
                            l_so lay = off.
  (* the lines, once it is known that the run did not end at the very end of the file *)
  Definition lns (s s' : pstate) (ts : list token) (offs : list (option N)) : Prop :=
    ps_after s' <> [] -> lines_as (prevl s) ts offs.

  Hypothesis Hrec_cs : forall td cc off, csim (rec td cc off).
  Hypothesis Hrec_sm : forall td cc off, smono (rec td cc off).
  Hypothesis Hrec_mv : forall td cc off, simple_struct S td = true -> moves (rec td cc off).
  Hypothesis Hrec_tr : forall td cc off s v s', c_fileid cc = O -> Inv s -> first_ok s -> ps_ftab s = ftab ->
    lookup_ty S (t_name td) = Some td -> t_special td = None ->
    rec td cc off s = (ROk v, s') -> ps_log s' = ps_log s -> pl td v ->
    exists ts, adv ts s s' /\ tr ts (w v ++ closing (is_blockb td) (c_element cc)) /\ node_at td off v s s' /\
               lns s s' ts (wo v ++ closing_offs (is_blockb td) v).
  Hypothesis Hpl_struct : forall td v, simple_struct S td = true -> pl td v.

  Variable c : ctx.
  Hypothesis Hc : c_fileid c = O.

  Lemma tr_app a b x y : tr a x -> tr b y -> tr (a ++ b) (x ++ y).
  Proof. apply Forall2_app. Qed.

  Lemma lns_app s s1 s' t1 t2 o1 o2 : adv t1 s s1 -> adv t2 s1 s' -> lns s s1 t1 o1 -> lns s1 s' t2 o2 -> lns s s' (t1 ++ t2) (o1 ++ o2).
  Proof.
    intros A1 A2 H1 H2 Hne. apply lines_as_app.
    - apply H1. rewrite (adv_after _ _ _ A2). intros Q. apply app_eq_nil in Q. destruct Q as [_ Q]. contradiction.
    - rewrite <- (adv_prevl _ _ _ A1). exact (H2 Hne).
  Qed.
  Lemma lns_nil s s' : lns s s' [] [].
  Proof. intros _. exact Logic.I. Qed.

  (* one element of an array or a sequence *)
  Definition elem_toks (ty : fty) (v : value) : list shape :=
    match ty with FStruct _ => w v | _ => scalar_toks ftab ty v end.
  Definition elem_offs (ty : fty) (v : value) : list (option N) :=
    match ty with FStruct _ => wo v | _ => scalar_offs ty v end.
  Definition elem_ok (ty : fty) : bool := match ty with FStruct sn => struct_ty_ok S sn | _ => simple_ty ty && nomax ty end.

  Lemma elem_trace ty s v s' : elem_ok ty = true -> Inv s -> first_ok s -> ps_ftab s = ftab ->
    parse_scalar_field S rec ty c s = (ROk v, s') -> ps_log s' = ps_log s ->
    exists ts, adv ts s s' /\ tr ts (elem_toks ty v) /\ lns s s' ts (elem_offs ty v).
  Proof.
    intros Hok I Hfo Hf E L. destruct (simple_ty ty) eqn:Hs.
    - assert (Hnm : nomax ty = true).
      { destruct ty; try discriminate Hs; cbn [elem_ok] in Hok; apply andb_true_iff in Hok; exact (proj2 Hok). }
      destruct (scalar_trace S ftab rec c Hc ty s v s' Hs Hnm I Hfo Hf E L) as (t & r & x & o & _ & A & Ht & Hr & Ho & Hl).
      exists [t]. split; [exact A|]. assert (elem_toks ty v = [x]) as -> by (destruct ty; try discriminate; exact Ht).
      assert (elem_offs ty v = [o]) as -> by (destruct ty; try discriminate; exact Ho).
      split; [constructor; [exact Hr | constructor]|]. intros Hne. cbn [lines_as]. split; [|exact Logic.I].
      specialize (Hl Hne). exact Hl.
    - destruct ty; try discriminate. cbn [elem_ok] in Hok. unfold struct_ty_ok in Hok. cbn [parse_scalar_field] in E.
      destruct (lookup_ty S s0) as [td|] eqn:Ltd; [|discriminate].
      assert (Hsp : t_special td = None).
      { unfold simple_struct in Hok. repeat (apply andb_true_iff in Hok; let Y := fresh "Y" in destruct Hok as [Hok Y]).
        destruct (t_special td); [discriminate | reflexivity]. }
      destruct (Hrec_tr td c 0 s v s' Hc I Hfo Hf (lookup_name _ _ _ Ltd) Hsp E L (Hpl_struct td v Hok)) as (ts & A & T & _ & Hl).
      exists ts. split; [exact A|]. rewrite (struct_not_block S td Hok) in T, Hl. cbn [closing closing_offs] in T, Hl.
      rewrite app_nil_r in T, Hl. split; [exact T | exact Hl].
  Qed.

  Lemma elem_moves ty : elem_ok ty = true -> moves (parse_scalar_field S rec ty c).
  Proof.
    intros Hok. destruct ty as [t| | | | |n|e|sn|t n|t st]; cbn [parse_scalar_field]; try discriminate; try solve [mv].
    cbn [elem_ok] in Hok. unfold struct_ty_ok in Hok. destruct (lookup_ty S sn); [apply Hrec_mv; exact Hok | discriminate].
  Qed.

  Lemma elem_csim ty : csim (parse_scalar_field S rec ty c).
  Proof. apply csim_parse_scalar_field. exact Hrec_cs. Qed.
  Lemma l_csim_parse_n ty n : csim (parse_n S rec n ty c).
  Proof. apply csim_parse_n. exact Hrec_cs. Qed.
  Lemma l_csim_parse_seq ty stop n acc : csim (parse_seq S rec n ty stop c acc).
  Proof. apply csim_parse_seq. exact Hrec_cs. Qed.
  Hint Resolve elem_csim l_csim_parse_n l_csim_parse_seq : csim.

  Lemma array_trace ty : elem_ok ty = true -> forall n s l s', Inv s -> first_ok s -> ps_ftab s = ftab ->
    parse_n S rec n ty c s = (ROk l, s') -> ps_log s' = ps_log s ->
    exists ts, adv ts s s' /\ tr ts (flat_map (elem_toks ty) l) /\ lns s s' ts (flat_map (elem_offs ty) l).
  Proof.
    intros Hok. induction n as [|n IH]; intros s l s' I Hfo Hf E L; cbn [parse_n] in E.
    - injection E as <- <-. exists []. split; [apply adv_refl, (inv_pos s I) | split; [constructor | apply lns_nil]].
    - apply bind_clean_inv in E; [|cs|intro; cs|exact L].
      destruct E as (v & s1 & E1 & L1 & E2 & L2).
      destruct (elem_trace ty s v s1 Hok I Hfo Hf E1 L1) as (t1 & A1 & T1 & Ln1).
      apply bind_clean_inv in E2; [|cs|intro; cs|exact L2].
      destruct E2 as (r & s2 & E3 & L3 & E4 & _). injection E4 as <- <-.
      destruct (IH s1 r s2 (adv_inv _ _ _ I A1) (first_ok_adv _ _ _ A1 Hfo)) as (t2 & A2 & T2 & Ln2); try assumption.
      { rewrite (se_ftab _ _ (adv_static _ _ _ A1)). exact Hf. }
      exists (t1 ++ t2). split; [exact (adv_trans _ _ _ _ _ A1 A2)|]. cbn [flat_map].
      split; [apply tr_app; assumption | exact (lns_app _ _ _ _ _ _ _ A1 A2 Ln1 Ln2)].
  Qed.

  Lemma seq_trace ty stop : elem_ok ty = true -> forall n acc s l s', Inv s -> first_ok s -> ps_ftab s = ftab ->
    parse_seq S rec n ty stop c acc s = (ROk l, s') -> ps_log s' = ps_log s ->
    exists ts l2, l = acc ++ l2 /\ adv ts s s' /\ tr ts (flat_map (elem_toks ty) l2) /\ lns s s' ts (flat_map (elem_offs ty) l2).
  Proof.
    intros Hok. induction n as [|n IH]; intros acc s l s' I Hfo Hf E L; cbn [parse_seq] in E; [discriminate|].
    apply bind_clean_inv in E; [|cs|intro; cs|exact L].
    destruct E as (pos & s0 & E0 & _ & E & L0). unfold get_tokenpos in E0. injection E0 as <- <-.
    apply bind_clean_inv in E; [|cs|intro; cs|exact L0].
    destruct E as (r & s1 & E1 & L1 & E2 & L2).
    destruct (try_clean_inv _ _ _ _ (elem_csim ty) E1 L1) as [(v & X & ->)|(d & X & ->)].
    - destruct (elem_trace ty s v s1 Hok I Hfo Hf X L1) as (t1 & A1 & T1 & Ln1).
      destruct (is_stopword stop v).
      + destruct (restore_inv acc l t1 s s1 s' I A1 E2) as [-> A]. exists [], []. rewrite app_nil_r.
        refine (conj eq_refl (conj A (conj _ (lns_nil _ _)))). constructor.
      + destruct (IH (acc ++ [v]) s1 l s' (adv_inv _ _ _ I A1) (first_ok_adv _ _ _ A1 Hfo)) as (t2 & l2 & -> & A2 & T2 & Ln2); try assumption.
        { rewrite (se_ftab _ _ (adv_static _ _ _ A1)). exact Hf. }
        exists (t1 ++ t2), (v :: l2). rewrite <- app_assoc. split; [reflexivity|]. split; [exact (adv_trans _ _ _ _ _ A1 A2)|].
        cbn [flat_map]. split; [apply tr_app; assumption | exact (lns_app _ _ _ _ _ _ _ A1 A2 Ln1 Ln2)].
    - destruct (elem_moves ty Hok s _ s1 I X) as (t1 & A1).
      destruct (restore_inv acc l t1 s s1 s' I A1 E2) as [-> A]. exists [], []. rewrite app_nil_r.
      refine (conj eq_refl (conj A (conj _ (lns_nil _ _)))). constructor.
  Qed.

  (* a field *)
  Lemma field_toks_elem_seq ty stop l : elem_ok ty = true -> field_toks ftab w (FSeq ty stop) (VList l) = flat_map (elem_toks ty) l.
  Proof. intros H. destruct ty; try discriminate; reflexivity. Qed.
  Lemma field_offs_elem_seq ty stop l : elem_ok ty = true -> field_offs wo (FSeq ty stop) (VList l) = flat_map (elem_offs ty) l.
  Proof. intros H. destruct ty; try discriminate; reflexivity. Qed.

  Lemma field_trace ty s v s' : fty_ok S ty = true -> Inv s -> first_ok s -> ps_ftab s = ftab ->
    parse_field S rec ty c s = (ROk v, s') -> ps_log s' = ps_log s ->
    exists ts, adv ts s s' /\ tr ts (field_toks ftab w ty v) /\ lns s s' ts (field_offs wo ty v).
  Proof.
    intros Hok I Hfo Hf E L.
    assert (Helem : forall t, elem_ok t = true -> parse_scalar_field S rec t c s = (ROk v, s') ->
                    field_toks ftab w t v = elem_toks t v -> field_offs wo t v = elem_offs t v ->
                    exists ts, adv ts s s' /\ tr ts (field_toks ftab w t v) /\ lns s s' ts (field_offs wo t v)).
    { intros t Ht X Q Q2. rewrite Q, Q2. exact (elem_trace t s v s' Ht I Hfo Hf X L). }
    destruct ty as [t| | | | |n|e|sn|ty n|ty stop]; cbn [parse_field] in E;
      try (match type of E with parse_scalar_field _ _ ?t _ _ = _ => apply (Helem t eq_refl E) end; reflexivity).
    - discriminate Hok.
    - apply (Helem (FStruct sn) Hok E); reflexivity.
    - (* array *)
      cbn [fty_ok] in Hok.
      apply bind_clean_inv in E; [|cs|intro; cs|exact L]. destruct E as (l & s1 & E1 & L1 & E2 & _).
      injection E2 as <- <-.
      assert (Hel : elem_ok ty = true) by (destruct ty; try discriminate; exact Hok).
      destruct (array_trace ty Hel n s l s1 I Hfo Hf E1 L1) as (ts & A & T & Ln). exists ts. split; [exact A|].
      assert (field_toks ftab w (FArray ty n) (VList l) = flat_map (elem_toks ty) l) as -> by (destruct ty; try discriminate; reflexivity).
      assert (field_offs wo (FArray ty n) (VList l) = flat_map (elem_offs ty) l) as -> by (destruct ty; try discriminate; reflexivity).
      split; [exact T | exact Ln].
    - (* sequence *)
      assert (Hel : elem_ok ty = true) by (destruct ty; try discriminate; exact Hok).
      apply bind_clean_inv in E; [|cs|intro; cs|exact L]. destruct E as (n & s0 & E0 & _ & E & L0).
      unfold remaining in E0. injection E0 as <- <-.
      apply bind_clean_inv in E; [|cs|intro; cs|exact L0]. destruct E as (l & s1 & E1 & L1 & E2 & _).
      injection E2 as <- <-.
      destruct (seq_trace ty stop Hel _ [] s l s1 I Hfo Hf E1 L1) as (ts & l2 & -> & A & T & Ln). exists ts. split; [exact A|].
      cbn [app]. rewrite (field_toks_elem_seq ty stop l2 Hel), (field_offs_elem_seq ty stop l2 Hel). split; [exact T | exact Ln].
  Qed.

  (* ---------- the children of a block ---------- *)
  Lemma l_csim_psog td cc off : csim (parse_special_or_generic rec ifuel td cc off).
  Proof. apply csim_parse_special_or_generic. exact Hrec_cs. Qed.
  Lemma l_csim_tagged_loop pb last items cc n kids cms : csim (tagged_loop S rec ifuel n pb last items cc kids cms).
  Proof. apply csim_tagged_loop. exact Hrec_cs. Qed.
  Lemma l_csim_multiplicity_check cc items kids : csim (multiplicity_check items kids cc).
  Proof. apply csim_multiplicity_check. Qed.
  Lemma l_csim_parse_items isb cc its fields kids cms : csim (parse_items S rec ifuel its isb cc fields kids cms).
  Proof. apply csim_parse_items. exact Hrec_cs. Qed.
  Lemma l_csim_parse_field ty cc : csim (parse_field S rec ty cc).
  Proof. apply csim_parse_field. exact Hrec_cs. Qed.
  Hint Resolve l_csim_psog l_csim_tagged_loop l_csim_multiplicity_check l_csim_parse_items l_csim_parse_field : csim.

  Lemma upd_nth_incl {A} (K : list (list A)) : forall j f, incl (nth j K []) (f (nth j K [])) ->
    forall i, incl (nth i K []) (nth i (upd_nth K j f) []).
  Proof.
    induction K as [|a K IH]; intros j f H i; [destruct j; apply incl_refl|].
    destruct j as [|j]; cbn [upd_nth].
    - destruct i as [|i]; [exact H | apply incl_refl].
    - destruct i as [|i]; [apply incl_refl | apply IH; exact H].
  Qed.

  Lemma handle_unknown_not_clean cc tag isb stop s u s' :
    handle_unknown_taggedstruct_tag cc tag isb stop s = (ROk u, s') -> ps_log s' = ps_log s -> False.
  Proof.
    intros E L. destruct (csim_handle_unknown cc tag isb stop s _ _ E) as (_ & l & Lg & _ & C).
    assert (l = []) by (destruct l; [reflexivity|]; rewrite L in Lg; apply (f_equal (@length diag)) in Lg; rewrite app_length in Lg; simpl in Lg; lia).
    subst l.
    assert (Strict : forall s0, ps_strict s0 = true -> forall u0 s1, handle_unknown_taggedstruct_tag cc tag isb stop s0 <> (ROk u0, s1)).
    { intros s0 Hs u0 s1 X. unfold handle_unknown_taggedstruct_tag in X.
      destruct (bind_ok_inv _ _ _ _ _ X) as (d & sx & D & X2). apply mk_diag_state in D. subst sx.
      destruct (bind_ok_inv _ _ _ _ _ X2) as (u1 & sy & X3 & _). unfold error_or_log in X3. rewrite Hs in X3. discriminate. }
    destruct (ps_strict s) eqn:Hs.
    - exact (Strict s Hs _ _ E).
    - apply (Strict (set_strict true s) eq_refl u (set_strict true s')). apply C; reflexivity.
  Qed.

  Section Loop.
    Variable titems : list titem.
    Variable last pib : bool.

    Lemma loop_incl : forall n K cms s K' cms' s',
      tagged_loop S rec ifuel n pib last titems c K cms s = (ROk (K', cms'), s') -> ps_log s' = ps_log s ->
      forall i, incl (nth i K []) (nth i K' []).
    Proof.
      induction n as [|n IH]; intros K cms s K' cms' s' E L i; [discriminate|]. cbn [tagged_loop] in E.
      apply bind_clean_inv in E; [|cs|intro; cs|exact L]. destruct E as (nt & s1 & _ & _ & E & L1).
      destruct nt as [token isb off|token off|].
      - destruct (find_titem titems (tk_text token) 0) as [[idx ti]|].
        + apply bind_clean_inv in E; [|cs|intro; cs|exact L1]. destruct E as (u1 & s2 & _ & _ & E & L2).
          apply bind_clean_inv in E; [|cs|intro; cs|exact L2]. destruct E as (u2 & s3 & _ & _ & E & L3).
          apply bind_clean_inv in E; [|cs|intro; cs|exact L3]. destruct E as (u3 & s4 & _ & _ & E & L4).
          destruct (lookup_ty S (ti_type ti)) as [td|]; [|discriminate].
          apply bind_clean_inv in E; [|cs|intro; cs|exact L4]. destruct E as (x & s5 & _ & _ & E & L5).
          destruct (ti_repeat ti).
          * eapply incl_tran; [|exact (IH _ _ _ _ _ _ E L5 i)]. apply upd_nth_incl. apply incl_appl, incl_refl.
          * apply bind_clean_inv in E; [|cs|intro; cs|exact L5]. destruct E as (u4 & s6 & E6 & L6 & E & L7).
            eapply incl_tran; [|exact (IH _ _ _ _ _ _ E L7 i)]. apply upd_nth_incl.
            destruct (nth idx K []) as [|k0 kr]; [apply incl_nil_l|].
            exfalso. unfold handle_multiplicity_error in E6. exact (diag_eol_not_clean _ _ _ _ _ _ E6 L6).
        + destruct (pib && last).
          * apply bind_clean_inv in E; [|cs|intro; cs|exact L1]. destruct E as (u & s2 & E2 & L2 & _ & _).
            destruct (handle_unknown_not_clean _ _ _ _ _ _ _ E2 L2).
          * destruct (bind_ok_inv _ _ _ _ _ E) as (u1 & s2 & _ & E2). destruct (bind_ok_inv _ _ _ _ _ E2) as (u2 & s3 & _ & E3).
            injection E3 as <- _ _. apply incl_refl.
      - destruct pib.
        + apply bind_clean_inv in E; [|cs|intro; cs|exact L1]. destruct E as (uid & s2 & _ & _ & E & L2).
          exact (IH _ _ _ _ _ _ E L2 i).
        + exact (IH _ _ _ _ _ _ E L1 i).
      - injection E as <- _ _. apply incl_refl.
    Qed.

    Lemma tok_ok_in_after s l : Inv s -> ps_after s = l -> Forall tok_ok l.
    Proof.
      intros I H. pose proof (inv_toks s I) as F. unfold tokens_of in F. rewrite H in F.
      apply Forall_app in F. exact (proj2 F).
    Qed.

    (* the head of a child: /begin TAG or TAG *)
    Definition head_toks (isb : bool) (tag : bytes) : list shape :=
      if isb then [(TBegin, begin_text); (TIdentifier, tag)] else [(TIdentifier, tag)].

    Definition head_offs (isb : bool) (off : N) : list (option N) := if isb then [Some off; None] else [Some off].

    Lemma next_tag_inv2 s nt s1 : Inv s -> first_ok s -> get_next_tag_or_comment c s = (ROk nt, s1) ->
      (exists token isb off pre, nt = BCBlock token isb off /\ adv (pre ++ [token]) s s1 /\ tk_fileid token = O /\
         tr (pre ++ [token]) (head_toks isb (tk_text token)) /\ length pre = (if isb then 1 else 0)%nat /\
         lns s s1 (pre ++ [token]) (head_offs isb off)) \/
      (nt = BCNone /\ adv [] s s1).
    Proof.
      intros I Hfo E. destruct (next_tag_inv c Hc s nt s1 I E) as [(tB & tI & r & off & Ea & HB & HI & Hnt & A)|[(tI & r & off & Ea & HI & Hnt & A)|[-> A]]].
      - left. subst nt. exists tI, true, off, [tB]. pose proof (tok_ok_in_after s _ I Ea) as F.
        inversion F as [|? ? _ F2]; subst. inversion F2 as [|? ? (Hf & _) _]; subst.
        refine (conj eq_refl (conj A (conj Hf (conj _ (conj eq_refl _))))).
        + constructor; [split; [exact HB | exact Logic.I]|]. constructor; [split; [exact HI | reflexivity] | constructor].
        + intros _. rewrite (next_tag_block_off c s tB tI r off s1 I Hfo Ea HB HI E). cbn. auto.
      - left. subst nt. exists tI, false, off, []. pose proof (tok_ok_in_after s _ I Ea) as F.
        inversion F as [|? ? (Hf & _) _]; subst.
        refine (conj eq_refl (conj A (conj Hf (conj _ (conj eq_refl _))))).
        + constructor; [split; [exact HI | reflexivity] | constructor].
        + intros Hne. rewrite (next_tag_keyword_off c s tI r off s1 I Hfo Ea HI E Hne). cbn. auto.
      - right. auto.
    Qed.

    Hypothesis Hblk : forall i ti td, nth_error titems i = Some ti -> lookup_ty S (ti_type ti) = Some td ->
      ti_block ti = is_blockb td.

    Definition ekid_toks (e : entry) : list shape := kid_toks (snd (fst e)) (w (snd e)).

    Lemma nth_upd_app (K : list (list value)) idx x : (idx < length K)%nat -> forall i,
      nth i (upd_nth K idx (fun l => l ++ [x])) [] = nth i K [] ++ (if Nat.eqb idx i then [x] else []).
    Proof.
      intros H i. rewrite (upd_nth_nth [] K i idx _ H). rewrite (Nat.eqb_sym idx i).
      destruct (Nat.eqb i idx); [reflexivity | rewrite app_nil_r; reflexivity].
    Qed.
    Lemma nth_upd_set (K : list (list value)) idx x : (idx < length K)%nat -> nth idx K [] = [] -> forall i,
      nth i (upd_nth K idx (fun _ => [x])) [] = nth i K [] ++ (if Nat.eqb idx i then [x] else []).
    Proof.
      intros H H0 i. rewrite (upd_nth_nth [] K i idx _ H). rewrite (Nat.eqb_sym idx i).
      destruct (Nat.eqb_spec i idx) as [->|_]; [rewrite H0; reflexivity | rewrite app_nil_r; reflexivity].
    Qed.

    Definition ekid_offs (e : entry) : list (option N) := kid_offs (snd (fst e)) (snd e) (wo (snd e)).

    Lemma loop_trace : forall n K cms s K' cms' s', Inv s -> first_ok s -> ps_ftab s = ftab -> length K = length titems ->
      tagged_loop S rec ifuel n pib last titems c K cms s = (ROk (K', cms'), s') -> ps_log s' = ps_log s ->
      (forall i ti k, nth_error titems i = Some ti -> In k (nth i K' []) -> kid_ok S pl ti k) ->
      exists P ts, adv ts s s' /\ cms' = cms /\ length K' = length K /\
        (forall i, nth i K' [] = nth i K [] ++ kids_at i P) /\
        tr ts (flat_map ekid_toks P) /\
        Forall (fun e : entry => nth_error titems (fst (fst e)) = Some (snd (fst e))) P /\
        uid_chain (ps_seq s) P /\
        lns s s' ts (flat_map ekid_offs P).
    Proof.
      induction n as [|n IH]; intros K cms s K' cms' s' I Hfo Hf Hlen E L Hpl; [discriminate|]. cbn [tagged_loop] in E.
      apply bind_clean_inv in E; [|cs|intro; cs|exact L]. destruct E as (nt & s1 & E1 & L1 & E & L1').
      pose proof (smono_get_next_tag_or_comment c _ _ _ E1) as Sq1.
      destruct (next_tag_inv2 s nt s1 I Hfo E1) as [(token & isb & off & pre & -> & A1 & Hfile & T1 & Hpre & Ln1)|[-> A1]].
      2:{ injection E as <- <- <-. exists [], []. refine (conj A1 (conj eq_refl (conj eq_refl (conj _ (conj _ (conj _ (conj Logic.I (lns_nil _ _)))))))).
          - intros i. cbn. rewrite app_nil_r. reflexivity.
          - constructor.
          - constructor. }
      assert (I1 : Inv s1) by (eapply adv_inv; eassumption).
      assert (Hfo1 : first_ok s1) by exact (first_ok_adv _ _ _ A1 Hfo).
      assert (Hf1 : ps_ftab s1 = ftab) by (rewrite (se_ftab _ _ (adv_static _ _ _ A1)); exact Hf).
      set (tag := tk_text token) in *. set (newc := ctx_from_token tag token) in *.
      destruct (find_titem titems tag 0) as [[idx ti]|] eqn:F.
      - destruct (find_titem_some _ _ _ _ _ F) as (_ & Hnth & Htag). rewrite Nat.sub_0_r in Hnth.
        assert (Hidx : (idx < length K)%nat) by (rewrite Hlen; apply nth_error_Some; congruence).
        apply bind_clean_inv in E; [|cs|intro; cs|exact L1']. destruct E as (u1 & s2 & E2 & L2 & E & L2').
        assert (Hreq : s2 = s1 /\ isb = ti_block ti).
        { destruct (ti_block ti); [unfold require_block in E2 | unfold require_keyword in E2]; destruct isb;
            try (injection E2 as _ <-; auto); destruct (diag_fail_not_ok _ _ _ _ _ _ E2). }
        destruct Hreq as [-> Hisb].
        apply bind_clean_inv in E; [|cs|intro; cs|exact L2']. destruct E as (u2 & s3 & E3 & L3 & E & L3').
        assert (s3 = s1) by (destruct (ti_vmin ti); [exact (block_lower_clean _ _ _ _ _ _ E3 L3) | injection E3 as _ <-; reflexivity]). subst s3.
        apply bind_clean_inv in E; [|cs|intro; cs|exact L3']. destruct E as (u3 & s4 & E4 & L4 & E & L4').
        assert (s4 = s1) by (destruct (ti_vmax ti); [exact (block_upper_clean _ _ _ _ _ _ E4 L4) | injection E4 as _ <-; reflexivity]). subst s4.
        destruct (lookup_ty S (ti_type ti)) as [td|] eqn:Ltd; [|discriminate].
        apply bind_clean_inv in E; [|cs|intro; cs|exact L4']. destruct E as (x & s5 & E5 & L5 & E & L5').
        (* the rest of the loop, on the updated lists *)
        assert (Hrest : exists K1 s6, tagged_loop S rec ifuel n pib last titems c K1 cms s6 = (ROk (K', cms'), s') /\
                   ps_log s' = ps_log s6 /\ length K1 = length K /\ (s6 = s5) /\
                   (forall i, nth i K1 [] = nth i K [] ++ (if Nat.eqb idx i then [x] else []))).
        { destruct (ti_repeat ti).
          - exists (upd_nth K idx (fun l => l ++ [x])), s5. refine (conj E (conj L5' (conj (upd_nth_length _ _ _) (conj eq_refl _)))).
            apply nth_upd_app. exact Hidx.
          - apply bind_clean_inv in E; [|cs|intro; cs|exact L5']. destruct E as (u4 & s6 & E6 & L6 & E & L6').
            assert (Hempty : nth idx K [] = []).
            { destruct (nth idx K []) as [|k0 kr]; [reflexivity|]. exfalso. unfold handle_multiplicity_error in E6.
              exact (diag_eol_not_clean _ _ _ _ _ _ E6 L6). }
            rewrite Hempty in E6. unfold handle_multiplicity_error in E6. injection E6 as _ <-.
            exists (upd_nth K idx (fun _ => [x])), s5. refine (conj E (conj L6' (conj (upd_nth_length _ _ _) (conj eq_refl _)))).
            apply nth_upd_set; assumption. }
        destruct Hrest as (K1 & s6 & Erest & Lrest & Hlen1 & -> & HK1).
        (* the new child is in the final lists, so it is a plain element *)
        assert (Hin : In x (nth idx K' [])).
        { apply (loop_incl n K1 cms s5 K' cms' s' Erest Lrest idx). rewrite HK1, Nat.eqb_refl. apply in_or_app. right. left. reflexivity. }
        pose proof (Hpl idx ti x Hnth Hin) as Hk. unfold kid_ok in Hk. rewrite Ltd in Hk. destruct Hk as [Hsp Hk].
        unfold parse_special_or_generic in E5. rewrite Hsp in E5.
        assert (Hnc : c_fileid newc = O) by exact Hfile.
        destruct (Hrec_tr td newc off s1 x s5 Hnc I1 Hfo1 Hf1 (lookup_name _ _ _ Ltd) Hsp E5 L5 Hk)
          as (t2 & A2 & T2 & (lay & fs & ks & Hx & Huid & Hseq & Hso) & Ln2).
        assert (I5 : Inv s5) by (eapply adv_inv; eassumption).
        assert (Hf5 : ps_ftab s5 = ftab) by (rewrite (se_ftab _ _ (adv_static _ _ _ A2)); exact Hf1).
        destruct (IH K1 cms s5 K' cms' s' I5 (first_ok_adv _ _ _ A2 Hfo1) Hf5 (eq_trans Hlen1 Hlen) Erest Lrest Hpl)
          as (P & t3 & A3 & Hc' & HlenK & HK' & T3 & FP & UC & Ln3).
        exists ((idx, ti, x) :: P), ((pre ++ [token]) ++ t2 ++ t3).
        split; [exact (adv_trans _ _ _ _ _ A1 (adv_trans _ _ _ _ _ A2 A3))|]. split; [exact Hc'|]. split; [congruence|]. split.
        { intros i. rewrite HK', HK1, <- app_assoc. f_equal. unfold kids_at. cbn [filter fst snd].
          destruct (Nat.eqb idx i); reflexivity. }
        split.
        { cbn [flat_map]. rewrite app_assoc. apply tr_app; [|exact T3].
          unfold ekid_toks. cbn [fst snd]. unfold kid_toks. rewrite <- (Hblk idx ti td Hnth Ltd) in T2.
          rewrite <- Hisb. rewrite Htag. fold tag.
          unfold head_toks in T1. destruct isb.
          - change ((TBegin, begin_text) :: (TIdentifier, tag) :: w x ++ [(TEnd, end_text); (TIdentifier, tag)])
              with ([(TBegin, begin_text); (TIdentifier, tag)] ++ (w x ++ [(TEnd, end_text); (TIdentifier, tag)])).
            apply tr_app; [exact T1|]. rewrite <- Hisb in T2. exact T2.
          - change ((TIdentifier, tag) :: w x) with ([(TIdentifier, tag)] ++ w x).
            apply tr_app; [exact T1|]. rewrite <- Hisb in T2. cbn [closing] in T2. rewrite app_nil_r in T2. exact T2. }
        split; [constructor; [exact Hnth | exact FP]|].
        split.
        { cbn [uid_chain]. unfold euid at 1 2. cbn [snd]. rewrite Hx. cbn [layout_of]. rewrite Huid. split; [lia|].
          apply (uid_chain_weaken P _ (ps_seq s5)); [lia | exact UC]. }
        (* the lines *)
        cbn [flat_map]. rewrite app_assoc.
        apply (lns_app s s5 s' _ t3 _ _ (adv_trans _ _ _ _ _ A1 A2) A3); [|exact Ln3].
        unfold ekid_offs. cbn [fst snd]. unfold kid_offs. rewrite <- (Hblk idx ti td Hnth Ltd) in Ln2. rewrite <- Hisb in *.
        assert (Hso' : l_so (layout_of x) = off) by (rewrite Hx; exact Hso).
        unfold head_offs in Ln1. destruct isb.
        + change (Some (l_so (layout_of x)) :: None :: wo x ++ [Some (l_eo (layout_of x)); None])
            with ([Some (l_so (layout_of x)); None] ++ (wo x ++ [Some (l_eo (layout_of x)); None])).
          rewrite Hso'. apply (lns_app s s1 s5 _ t2 _ _ A1 A2 Ln1). exact Ln2.
        + change (Some (l_so (layout_of x)) :: wo x) with ([Some (l_so (layout_of x))] ++ wo x).
          rewrite Hso'. apply (lns_app s s1 s5 _ t2 _ _ A1 A2 Ln1). cbn [closing_offs] in Ln2. rewrite app_nil_r in Ln2. exact Ln2.
      - destruct (pib && last).
        + apply bind_clean_inv in E; [|cs|intro; cs|exact L1']. destruct E as (u & s2 & E2 & L2 & _ & _).
          destruct (handle_unknown_not_clean _ _ _ _ _ _ _ E2 L2).
        + destruct (bind_ok_inv _ _ _ _ _ E) as (u1 & s2 & E2 & E3). destruct (bind_ok_inv _ _ _ _ _ E3) as (u2 & s3 & E4 & E5).
          injection E5 as <- <- <-.
          assert (A3 : adv [] s s3).
          { destruct (undo_back pre token s s1 A1) as (sa & Ua & Aa).
            destruct isb.
            - destruct pre as [|tB [|? ?]]; try discriminate. rewrite Ua in E2. injection E2 as _ <-.
              destruct (undo_back [] tB s sa Aa) as (sb & Ub & Ab). rewrite Ub in E4. injection E4 as _ <-. exact Ab.
            - destruct pre; [|discriminate]. injection E2 as _ <-. rewrite Ua in E4. injection E4 as _ <-. exact Aa. }
          exists [], []. refine (conj A3 (conj eq_refl (conj eq_refl (conj _ (conj _ (conj _ (conj Logic.I (lns_nil _ _)))))))).
          * intros i. cbn. rewrite app_nil_r. reflexivity.
          * constructor.
          * constructor.
    Qed.

    Lemma loop_length : forall n K cms s K' cms' s',
      tagged_loop S rec ifuel n pib last titems c K cms s = (ROk (K', cms'), s') -> length K' = length K.
    Proof.
      induction n as [|n IH]; intros K cms s K' cms' s' E; [discriminate|]. cbn [tagged_loop] in E.
      destruct (bind_ok_inv _ _ _ _ _ E) as (nt & s1 & _ & E1). clear E.
      destruct nt as [token isb off|token off|].
      - destruct (find_titem titems (tk_text token) 0) as [[idx ti]|].
        + destruct (bind_ok_inv _ _ _ _ _ E1) as (u1 & s2 & _ & E2). destruct (bind_ok_inv _ _ _ _ _ E2) as (u2 & s3 & _ & E3).
          destruct (bind_ok_inv _ _ _ _ _ E3) as (u3 & s4 & _ & E4).
          destruct (lookup_ty S (ti_type ti)) as [td|]; [|discriminate].
          destruct (bind_ok_inv _ _ _ _ _ E4) as (x & s5 & _ & E5).
          destruct (ti_repeat ti).
          * rewrite (IH _ _ _ _ _ _ E5). apply upd_nth_length.
          * destruct (bind_ok_inv _ _ _ _ _ E5) as (u4 & s6 & _ & E6). rewrite (IH _ _ _ _ _ _ E6). apply upd_nth_length.
        + destruct (pib && last).
          * destruct (bind_ok_inv _ _ _ _ _ E1) as (u & s2 & _ & E2). exact (IH _ _ _ _ _ _ E2).
          * destruct (bind_ok_inv _ _ _ _ _ E1) as (u1 & s2 & _ & E2). destruct (bind_ok_inv _ _ _ _ _ E2) as (u2 & s3 & _ & E3).
            injection E3 as <- _ _. reflexivity.
      - destruct pib.
        + destruct (bind_ok_inv _ _ _ _ _ E1) as (uid & s2 & _ & E2). exact (IH _ _ _ _ _ _ E2).
        + exact (IH _ _ _ _ _ _ E1).
      - injection E1 as <- _ _. reflexivity.
    Qed.
  End Loop.

  (* ---------- the items of an element ---------- *)
  Lemma mult_check_clean : forall items K s u s', multiplicity_check items K c s = (ROk u, s') -> ps_log s' = ps_log s -> s' = s.
  Proof.
    induction items as [|ti r IH]; intros [|k kr] s u s' E L; cbn [multiplicity_check] in E; try (injection E as _ <-; reflexivity).
    apply bind_clean_inv in E; [|cs|intro; cs|exact L]. destruct E as (u1 & s1 & E1 & L1 & E2 & L2).
    assert (s1 = s).
    { destruct (ti_required ti); [|injection E1 as _ <-; reflexivity]. destruct k; [|injection E1 as _ <-; reflexivity].
      exfalso. destruct (bind_ok_inv _ _ _ _ _ E1) as (d & sx & D & X). apply mk_diag_state in D. subst sx.
      destruct (ti_repeat ti); [exact (eol_not_clean _ _ _ _ X L1) | discriminate]. }
    subst s1. exact (IH _ _ _ _ E2 L2).
  Qed.

  Lemma items_prefix : forall its isb fields kids cms s f' k' c' s',
    parse_items S rec ifuel its isb c fields kids cms s = (ROk (f', k', c'), s') -> exists nf nk, f' = fields ++ nf /\ k' = kids ++ nk.
  Proof.
    induction its as [|it r IH]; intros isb fields kids cms s f' k' c' s' E; cbn [parse_items] in E.
    - injection E as <- <- _ _. exists [], []. rewrite !app_nil_r. auto.
    - destruct it as [nm ty|union last titems].
      + destruct (bind_ok_inv _ _ _ _ _ E) as (v & s1 & _ & E1). destruct (IH _ _ _ _ _ _ _ _ _ E1) as (nf & nk & -> & ->).
        exists (v :: nf), nk. rewrite <- app_assoc. auto.
      + destruct union; [discriminate|].
        destruct (bind_ok_inv _ _ _ _ _ E) as (n & s0 & _ & E0). destruct (bind_ok_inv _ _ _ _ _ E0) as (res & s1 & _ & E1).
        destruct (bind_ok_inv _ _ _ _ _ E1) as (u & s2 & _ & E2). destruct (IH _ _ _ _ _ _ _ _ _ E2) as (nf & nk & -> & ->).
        exists nf, (fst res ++ nk). rewrite <- app_assoc. auto.
  Qed.

  Lemma skipn_app_exact {A} (a b : list A) : skipn (length a) (a ++ b) = b.
  Proof. induction a; [reflexivity | exact IHa]. Qed.
  Lemma firstn_app_exact {A} (a b : list A) : firstn (length a) (a ++ b) = a.
  Proof. induction a as [|x a IH]; [reflexivity | cbn; rewrite IH; reflexivity]. Qed.
  Lemma nth_map_nil {A B} (l : list A) i : nth i (map (fun _ : A => @nil B) l) [] = [].
  Proof. revert i. induction l as [|x l IH]; intros [|i]; cbn; auto. Qed.

  Lemma titems_blk titems : forallb (titem_ok S) titems = true ->
    forall i ti td, nth_error titems i = Some ti -> lookup_ty S (ti_type ti) = Some td -> ti_block ti = is_blockb td.
  Proof.
    intros H i ti td Hn Hl. rewrite forallb_forall in H. specialize (H ti (nth_error_In _ _ Hn)). unfold titem_ok in H.
    rewrite Hl in H. apply Bool.eqb_prop. exact H.
  Qed.

  Lemma items_trace : forall its isb fields kids cms s f' k' c' s', forallb (item_okb S) its = true ->
    Inv s -> first_ok s -> ps_ftab s = ftab ->
    parse_items S rec ifuel its isb c fields kids cms s = (ROk (f', k', c'), s') -> ps_log s' = ps_log s ->
    items_good S posrs pl its (skipn (length kids) k') ->
    exists nf nk ts, f' = fields ++ nf /\ k' = kids ++ nk /\ c' = cms /\ adv ts s s' /\
                     tr ts (items_toks S posrs ftab w its nf nk) /\ lns s s' ts (items_offs S posrs wo its nf nk).
  Proof.
    induction its as [|it r IH]; intros isb fields kids cms s f' k' c' s' Hok I Hfo Hf E L Hg; cbn [parse_items] in E.
    - injection E as <- <- <- <-. exists [], [], []. rewrite !app_nil_r.
      refine (conj eq_refl (conj eq_refl (conj eq_refl (conj (adv_refl s (inv_pos s I)) (conj _ (lns_nil _ _)))))). constructor.
    - cbn [forallb] in Hok. apply andb_true_iff in Hok. destruct Hok as [Hit Hok]. destruct it as [nm ty|union last titems].
      + cbn [item_okb] in Hit.
        apply bind_clean_inv in E; [|cs|intro; cs|exact L]. destruct E as (v & s1 & E1 & L1 & E2 & L2).
        destruct (field_trace ty s v s1 Hit I Hfo Hf E1 L1) as (t1 & A1 & T1 & Ln1).
        destruct (IH isb (fields ++ [v]) kids cms s1 f' k' c' s' Hok (adv_inv _ _ _ I A1) (first_ok_adv _ _ _ A1 Hfo))
          as (nf & nk & t2 & -> & -> & -> & A2 & T2 & Ln2); try assumption.
        { rewrite (se_ftab _ _ (adv_static _ _ _ A1)). exact Hf. }
        exists (v :: nf), nk, (t1 ++ t2). rewrite <- app_assoc.
        refine (conj eq_refl (conj eq_refl (conj eq_refl (conj (adv_trans _ _ _ _ _ A1 A2) _)))).
        cbn [items_toks items_offs]. split; [apply tr_app; assumption | exact (lns_app _ _ _ _ _ _ _ A1 A2 Ln1 Ln2)].
      + cbn [item_okb] in Hit. apply andb_true_iff in Hit. destruct Hit as [Hun Hti]. apply negb_true_iff in Hun. subst union.
        apply bind_clean_inv in E; [|cs|intro; cs|exact L]. destruct E as (n & s0 & E0 & _ & E & L0).
        unfold remaining in E0. injection E0 as <- <-.
        apply bind_clean_inv in E; [|cs|intro; cs|exact L0]. destruct E as ([K' cms1] & s1 & E1 & L1 & E & L1').
        apply bind_clean_inv in E; [|cs|intro; cs|exact L1']. destruct E as (u & s2 & E2 & L2 & Etail & Ltail).
        cbn [fst snd] in *. assert (s2 = s1) by exact (mult_check_clean _ _ _ _ _ E2 L2). subst s2.
        destruct (items_prefix _ _ _ _ _ _ _ _ _ _ Etail) as (nf0 & nkr & Hf0 & Hk0).
        pose proof (loop_length _ _ _ _ _ _ _ _ _ _ E1) as HlenK. rewrite map_length in HlenK.
        assert (Hskip : skipn (length kids) k' = K' ++ nkr) by (rewrite Hk0, <- app_assoc; apply skipn_app_exact).
        cbn [items_good] in Hg. rewrite Hskip in Hg. rewrite <- HlenK in Hg. rewrite firstn_app_exact, skipn_app_exact in Hg.
        destruct Hg as [[Hkids Hord] Hgr].
        destruct (loop_trace titems last isb (titems_blk titems Hti) _ _ _ _ _ _ _ I Hfo Hf (map_length _ _) E1 L1 Hkids)
          as (P & t1 & A1 & -> & _ & HK' & T1 & FP & UC & Ln1).
        assert (HK2 : forall i, nth i K' [] = kids_at i P) by (intros i; rewrite HK', nth_map_nil; reflexivity).
        pose proof (ordered_kids_parse_order S posrs titems K' P (ps_seq s) HlenK HK2 FP UC Hord) as Hop.
        destruct (IH isb fields (kids ++ K') cms s1 f' k' c' s' Hok (adv_inv _ _ _ I A1) (first_ok_adv _ _ _ A1 Hfo))
          as (nf & nk & t2 & -> & Hk1 & -> & A2 & T2 & Ln2); try assumption.
        { rewrite (se_ftab _ _ (adv_static _ _ _ A1)). exact Hf. }
        { rewrite Hk0, skipn_app_exact. exact Hgr. }
        assert (nk = nkr) by (rewrite Hk0 in Hk1; apply app_inv_head in Hk1; symmetry; exact Hk1). subst nk.
        exists nf, (K' ++ nkr), (t1 ++ t2). rewrite Hk0, <- app_assoc.
        refine (conj eq_refl (conj eq_refl (conj eq_refl (conj (adv_trans _ _ _ _ _ A1 A2) _)))).
        cbn [items_toks items_offs]. rewrite <- HlenK, !firstn_app_exact, !skipn_app_exact. split.
        * apply tr_app; [|exact T2]. unfold group_toks. rewrite Hop. exact T1.
        * apply (lns_app _ _ _ _ _ _ _ A1 A2); [|exact Ln2]. unfold group_offs. rewrite Hop. exact Ln1.
  Qed.
  (* ---------- one element ---------- *)
  Lemma l_smono_parse_items isb cc its fields kids cms : smono (parse_items S rec ifuel its isb cc fields kids cms).
  Proof. apply smono_parse_items. exact Hrec_sm. Qed.
  Hint Resolve l_smono_parse_items : smono.

  Lemma end_tag_inv expected s u s' : Inv s -> end_tag_check c expected s = (ROk u, s') -> ps_log s' = ps_log s ->
    exists t r, ps_after s = t :: r /\ tk_type t = TIdentifier /\ tk_text t = expected /\ adv [t] s s'.
  Proof.
    intros I E L. unfold end_tag_check in E.
    apply bind_clean_inv in E; [|cs|intro; cs|exact L]. destruct E as (id & s1 & E1 & L1 & E2 & L2).
    destruct (get_identifier_inv c Hc _ _ _ I E1) as (t & r & Ea & Ht & Hx & A). exists t, r.
    destruct (bytes_eqb id expected) eqn:Q.
    - injection E2 as _ <-. apply bytes_eqb_eq in Q. refine (conj Ea (conj Ht (conj _ A))). congruence.
    - destruct (diag_eol_not_clean _ _ _ _ _ _ E2 L2).
  Qed.

  Definition body_toks (td : tydef) (v : value) : list shape :=
    match v with VNode _ _ fields kids _ => items_toks S posrs ftab w (t_items td) fields kids | _ => [] end.
  Definition body_offs (td : tydef) (v : value) : list (option N) :=
    match v with VNode _ _ fields kids _ => items_offs S posrs wo (t_items td) fields kids | _ => [] end.
  Definition body_good (td : tydef) (v : value) : Prop :=
    match v with VNode _ _ _ kids _ => items_good S posrs pl (t_items td) kids | _ => True end.

  Lemma body_trace td off s v s' : td_ok S td = true -> Inv s -> first_ok s -> ps_ftab s = ftab ->
    parse_body S rec ifuel td c off s = (ROk v, s') -> ps_log s' = ps_log s -> body_good td v ->
    exists ts, adv ts s s' /\ tr ts (body_toks td v ++ closing (is_blockb td) (c_element c)) /\ node_at td off v s s' /\
               lns s s' ts (body_offs td v ++ closing_offs (is_blockb td) v).
  Proof.
    intros Hok I Hfo Hf E L Hg. unfold parse_body in E.
    apply bind_clean_inv in E; [|cs|intro; cs|exact L]. destruct E as (inc & s0 & E0 & _ & E & L0).
    unfold get_incfilename in E0. injection E0 as <- <-.
    apply bind_clean_inv in E; [|cs|intro; cs|exact L0]. destruct E as (uid & s1 & E1 & L1 & E & L1').
    unfold get_next_id in E1. injection E1 as <- <-.
    set (s1 := upd_seq s (ps_seq s + 1)) in *.
    assert (I1 : Inv s1).
    { destruct I as [i1 i2 i3 i4 i5 i6 i7]. constructor; assumption. }
    assert (A01 : adv [] s s1) by (apply adv_same; try reflexivity; [exact I | constructor; reflexivity]).
    assert (Hfo1 : first_ok s1) by exact (first_ok_adv _ _ _ A01 Hfo).
    apply bind_clean_inv in E; [|cs|intro; cs|exact L1']. destruct E as ([[fields kids] cms] & s2 & E2 & L2 & E & L2').
    (* the value *)
    assert (Hv : exists eo, v = VNode (t_name td) (mkLay (ps_seq s + 1) (c_line c) off eo (if Nat.eqb (c_fileid c) 0 || Nat.leb (ps_nfiles s) (c_fileid c) then None else Some (c_fileid c))) fields kids cms).
    { destruct (bind_ok_inv _ _ _ _ _ E) as (eo & s3 & _ & E3). injection E3 as <- _. exists eo. reflexivity. }
    destruct Hv as (eo & Hv). subst v. cbn [body_good] in Hg.
    destruct (items_trace (t_items td) _ [] [] [] s1 fields kids cms s2 Hok I1 Hfo1 Hf E2 L2 Hg)
      as (nf & nk & t1 & Hf' & Hk' & Hc' & A1 & T1 & Ln1).
    cbn [app] in Hf', Hk'. subst fields kids cms.
    assert (I2 : Inv s2) by (eapply adv_inv; eassumption).
    assert (Sq : ps_seq s1 <= ps_seq s').
    { assert (M : smono (r <-- parse_items S rec ifuel (t_items td) (match t_kind td with KBlock => true | _ => false end) c [] [] [] ;;
                         let '(fields, kids, cms) := r in
                         eo <-- (if match t_kind td with KBlock => true | _ => false end
                                 then expect_token c TEnd ;;; eo <-- get_line_offset ;; end_tag_check c (c_element c) ;;; ret eo
                                 else ret 0) ;;
                         ret (VNode (t_name td) (mkLay (ps_seq s + 1) (c_line c) off eo
                                (if Nat.eqb (c_fileid c) 0 || Nat.leb (ps_nfiles s) (c_fileid c) then None else Some (c_fileid c))) fields kids cms))) by sm.
      eapply (M s1 _ s'). unfold bindM. rewrite E2. exact E. }
    assert (Hnode : node_at td off (VNode (t_name td) (mkLay (ps_seq s + 1) (c_line c) off eo
                      (if Nat.eqb (c_fileid c) 0 || Nat.leb (ps_nfiles s) (c_fileid c) then None else Some (c_fileid c))) nf nk []) s s').
    { exists (mkLay (ps_seq s + 1) (c_line c) off eo (if Nat.eqb (c_fileid c) 0 || Nat.leb (ps_nfiles s) (c_fileid c) then None else Some (c_fileid c))), nf, nk.
      refine (conj eq_refl (conj eq_refl (conj _ eq_refl))). exact Sq. }
    assert (Ln01 : lns s s2 t1 (items_offs S posrs wo (t_items td) nf nk)).
    { intros Hne. pose proof (Ln1 Hne) as Q. unfold prevl in *. exact Q. }
    cbn [body_toks body_offs]. unfold is_blockb.
    destruct (bind_ok_inv _ _ _ _ _ E) as (eo' & s3 & E3 & E4). injection E4 as -> <-.
    destruct (t_kind td).
    - (* a block: /end TAG *)
      apply bind_clean_inv in E3; [|cs|intro; cs|exact L2']. destruct E3 as (tE & s4 & E5 & L5 & E6 & L6).
      destruct (expect_inv c Hc _ _ _ _ I2 E5) as (rE & EaE & HtE & AE).
      assert (I4 : Inv s4) by (eapply adv_inv; eassumption).
      apply bind_clean_inv in E6; [|cs|intro; cs|exact L6]. destruct E6 as (eo2 & s5 & E7 & L7 & E8 & L8).
      assert (s5 = s4) by exact (glo_inv s4 eo2 s5 I4 E7). subst s5.
      apply bind_clean_inv in E8; [|cs|intro; cs|exact L8]. destruct E8 as (u & s6 & E9 & L9 & E10 & _).
      injection E10 as -> <-.
      destruct (end_tag_inv (c_element c) s4 u s6 I4 E9 L9) as (tI & rI & EaI & HtI & HxI & AI).
      (* the offset of /end: behind it stands the tag *)
      assert (Heo : eo = tk_line tE - prevl s2).
      { assert (Hne4 : ps_after s4 <> []) by (rewrite EaI; discriminate).
        pose proof (glo_after [] tE s2 s4 I2 (first_ok_adv _ _ _ A1 Hfo1) AE Hne4) as G2. rewrite E7 in G2. injection G2 as ->. reflexivity. }
      exists (t1 ++ [tE] ++ [tI]). split; [exact (adv_trans _ _ _ _ _ A01 (adv_trans _ _ _ _ _ A1 (adv_trans _ _ _ _ _ AE AI)))|].
      split; [|split; [exact Hnode|]].
      + apply tr_app; [exact T1|]. cbn [closing app].
        constructor; [split; [exact HtE | exact Logic.I]|]. constructor; [split; [exact HtI | exact HxI] | constructor].
      + apply (lns_app s s2 s6 t1 ([tE] ++ [tI]) _ _ (adv_trans _ _ _ _ _ A01 A1) (adv_trans _ _ _ _ _ AE AI) Ln01).
        intros _. cbn [closing_offs layout_of l_eo app lines_as]. split; [exact Heo|]. split; [exact Logic.I | exact Logic.I].
    - injection E3 as _ <-. exists t1. split; [exact (adv_trans _ _ _ _ _ A01 A1)|]. split; [|split; [exact Hnode|]].
      + cbn [closing]. rewrite app_nil_r. exact T1.
      + cbn [closing_offs]. rewrite app_nil_r. exact Ln01.
    - injection E3 as _ <-. exists t1. split; [exact (adv_trans _ _ _ _ _ A01 A1)|]. split; [|split; [exact Hnode|]].
      + cbn [closing]. rewrite app_nil_r. exact T1.
      + cbn [closing_offs]. rewrite app_nil_r. exact Ln01.
    - injection E3 as _ <-. exists t1. split; [exact (adv_trans _ _ _ _ _ A01 A1)|]. split; [|split; [exact Hnode|]].
      + cbn [closing]. rewrite app_nil_r. exact T1.
      + cbn [closing_offs]. rewrite app_nil_r. exact Ln01.
  Qed.
End Elements.

(* ---------- every element type, every nesting depth ---------- *)
Section Whole.
  Variable S : spec.
  Variable posrs : list (string * posr).
  Variable ftab : list fentry.
  Variable ifuel : nat.
  Hypothesis Hspec : spec_ok S = true.

  Lemma items_good_fields pl : forall its kids,
    forallb (fun it => match it with IField _ ty => simple_ty ty && known_ty S ty | ITagged _ _ _ => false end) its = true ->
    items_good S posrs pl its kids.
  Proof.
    induction its as [|it r IH]; intros kids H; [exact Logic.I|]. cbn [forallb] in H. apply andb_true_iff in H.
    destruct H as [H1 H2]. destruct it; [|discriminate]. cbn [items_good]. apply IH. exact H2.
  Qed.

  Lemma good_struct f td v : simple_struct S td = true -> good S posrs f td v.
  Proof.
    intros H. destruct f as [|f]; [exact Logic.I|]. cbn [good]. destruct v as [| |ty lay fields kids cms|]; try exact Logic.I.
    unfold simple_struct in H. repeat (apply andb_true_iff in H; let Y := fresh "Y" in destruct H as [H Y]).
    apply items_good_fields. exact Y.
  Qed.

  Lemma struct_items_moves rec isb c : forall its fields kids cms,
    forallb (fun it => match it with IField _ ty => simple_ty ty && known_ty S ty | ITagged _ _ _ => false end) its = true ->
    moves (parse_items S rec ifuel its isb c fields kids cms).
  Proof.
    induction its as [|it r IH]; intros fields kids cms H; cbn [parse_items]; [mv|].
    cbn [forallb] in H. apply andb_true_iff in H. destruct H as [H1 H2]. destruct it as [nm ty|]; [|discriminate].
    apply andb_true_iff in H1. destruct H1 as [Hs _].
    apply moves_bind; [|intro; apply IH; exact H2].
    destruct ty; try discriminate; cbn [parse_field parse_scalar_field]; mv.
  Qed.

  Definition fields_only (td : tydef) : bool :=
    forallb (fun it => match it with IField _ ty => simple_ty ty && known_ty S ty | ITagged _ _ _ => false end) (t_items td).

  Lemma fields_only_moves : forall f fi td c off, fields_only td = true -> moves (parse_ty f S fi td c off).
  Proof.
    destruct f as [|f]; intros fi td c off H; cbn [parse_ty]; [mv|]. unfold parse_body.
    apply moves_bind; [mv|intro]. apply moves_bind; [mv|intro].
    apply moves_bind; [|intro; mv].
    clear - H. unfold fields_only in H. revert H. generalize (@nil value) (@nil (list value)) (@nil comment).
    induction (t_items td) as [|it r IH]; intros fields kids cms H; cbn [parse_items]; [mv|].
    cbn [forallb] in H. apply andb_true_iff in H. destruct H as [H1 H2]. destruct it as [nm ty|]; [|discriminate].
    apply andb_true_iff in H1. destruct H1 as [Hs _].
    apply moves_bind; [|intro; apply IH; exact H2].
    destruct ty; try discriminate; cbn [parse_field parse_scalar_field]; mv.
  Qed.

  Lemma struct_moves : forall f td c off, simple_struct S td = true -> moves (parse_ty f S ifuel td c off).
  Proof.
    intros f td c off H. apply fields_only_moves.
    unfold simple_struct in H. repeat (apply andb_true_iff in H; let Y := fresh "Y" in destruct H as [H Y]). exact Y.
  Qed.

  Definition traced (ts : list token) (ws : list shape) : Prop := Forall2 (reads_as ftab) ts ws.

  Theorem parse_then_write : forall f td c off s v s', c_fileid c = O -> Inv s -> first_ok s -> ps_ftab s = ftab ->
    lookup_ty S (t_name td) = Some td -> t_special td = None ->
    parse_ty f S ifuel td c off s = (ROk v, s') -> ps_log s' = ps_log s -> good S posrs f td v ->
    exists ts, adv ts s s' /\ traced ts (wtoks S posrs ftab f v ++ closing (is_blockb td) (c_element c)) /\
               node_at td off v s s' /\
               (ps_after s' <> [] -> lines_as (prevl s) ts (woffs S posrs f v ++ closing_offs (is_blockb td) v)).
  Proof.
    induction f as [|f IH]; intros td c off s v s' Hc I Hfo Hf Hl Hsp E L Hg; [discriminate|]. cbn [parse_ty] in E.
    assert (Htd : td_ok S td = true).
    { unfold spec_ok in Hspec. rewrite forallb_forall in Hspec. apply Hspec. exact (proj1 (lookup_ty_in _ _ _ Hl)). }
    destruct (body_trace S posrs ftab ifuel (parse_ty f S ifuel) (wtoks S posrs ftab f) (woffs S posrs f) (good S posrs f)
                (fun td cc off => csim_parse_ty S ifuel f td cc off) (fun td cc off => smono_parse_ty S ifuel f td cc off)
                (fun td cc off H => struct_moves f td cc off H)
                (fun td cc off s v s' H1 H2 H3 H4 H5 H6 H7 H8 H9 => IH td cc off s v s' H1 H2 H3 H4 H5 H6 H7 H8 H9)
                (fun td v H => good_struct f td v H) c Hc td off s v s' Htd I Hfo Hf E L)
      as (ts & A & T & Hn & Ln).
    - destruct v as [| |ty lay fields kids cms|]; try exact Logic.I. exact Hg.
    - exists ts. split; [exact A|]. split; [|split; [exact Hn|]].
      + destruct Hn as (lay & fields & kids & -> & _). cbn [wtoks body_toks] in *. rewrite Hl, Hsp. exact T.
      + destruct Hn as (lay & fields & kids & -> & _). cbn [woffs body_offs] in *. rewrite Hl, Hsp. exact Ln.
  Qed.
End Whole.
Print Assumptions parse_then_write.

(* ---------- an executable sufficient condition for [good] ---------- *)
Fixpoint sortedb {A} (le : A -> A -> bool) (l : list A) : bool :=
  match l with
  | a :: r => match r with b :: _ => le a b && sortedb le r | [] => true end
  | [] => true
  end.
Lemma sortedb_sorted {A} (le : A -> A -> bool) l : sortedb le l = true -> Sorted (leP le) l.
Proof.
  induction l as [|a r IH]; intros H; [constructor|]. cbn [sortedb] in H. destruct r as [|b r'].
  - constructor; constructor.
  - apply andb_true_iff in H. destruct H as [H1 H2]. constructor; [apply IH; exact H2 | constructor; exact H1].
Qed.

Lemma replace_restricted_self {P} (L : list (ginfo P)) :
  replace_restricted L (filter (fun g => match g_pos g with Some _ => true | None => false end) L) = L.
Proof.
  induction L as [|g r IH]; [reflexivity|]. cbn [filter replace_restricted]. destruct (g_pos g); cbn [replace_restricted]; rewrite IH; reflexivity.
Qed.

Lemma group_order_sorted (G : list (ginfo entry)) :
  sortedb pos_leb (filter restricted (ssort sort_leb G)) = true -> group_order G = ssort sort_leb G.
Proof.
  intros H. unfold group_order, apply_position_restrictions.
  change (fun g : ginfo entry => match g_pos g with Some _ => true | None => false end) with restricted.
  destruct (Nat.ltb 1 (length (filter restricted (ssort sort_leb G)))); [|reflexivity].
  rewrite (ssort_sorted_id pos_leb _ (sortedb_sorted _ _ H)). apply replace_restricted_self.
Qed.

Section Goodb.
  Variable S : spec.
  Variable posrs : list (string * posr).
  Section Level.
    Variable plb : tydef -> value -> bool.
    Definition kid_okb (ti : titem) (k : value) : bool :=
      match lookup_ty S (ti_type ti) with
      | Some td => match t_special td with None => plb td k | Some _ => false end
      | None => true
      end.
    Fixpoint group_kids_okb (titems : list titem) (mine : list (list value)) : bool :=
      match titems, mine with
      | ti :: r, ks :: m => forallb (kid_okb ti) ks && group_kids_okb r m
      | _, _ => true
      end.
    (* the position-restricted children, in the order of the writer's sort, have positions that do not decrease *)
    Definition group_goodb (titems : list titem) (mine : list (list value)) : bool :=
      Nat.leb (length mine) (length titems) && group_kids_okb titems mine &&
      sortedb pos_leb (filter restricted (ssort sort_leb (kid_entries S posrs titems mine))).
    Fixpoint items_goodb (its : list item) (kids : list (list value)) : bool :=
      match its with
      | [] => true
      | IField _ _ :: r => items_goodb r kids
      | ITagged _ _ titems :: r => group_goodb titems (firstn (length titems) kids) && items_goodb r (skipn (length titems) kids)
      end.
  End Level.
  Fixpoint goodb (f : nat) (td : tydef) (v : value) : bool :=
    match f with
    | O => true
    | Datatypes.S f' => match v with VNode _ _ _ kids _ => items_goodb (goodb f') (t_items td) kids | _ => true end
    end.

  Lemma group_kids_ok_sound plb (pl : tydef -> value -> Prop) : (forall td v, plb td v = true -> pl td v) ->
    forall titems mine, (length mine <= length titems)%nat -> group_kids_okb plb titems mine = true ->
    forall i ti k, nth_error titems i = Some ti -> In k (nth i mine []) -> kid_ok S pl ti k.
  Proof.
    intros Hpl. induction titems as [|t r IH]; intros mine Hlen H i ti k Hn Hin; [destruct i; discriminate|].
    destruct mine as [|ks m]; [destruct i; destruct Hin|]. cbn [group_kids_okb] in H. apply andb_true_iff in H. destruct H as [H1 H2].
    destruct i as [|i]; cbn [nth_error nth] in *.
    - injection Hn as <-. rewrite forallb_forall in H1. specialize (H1 k Hin). unfold kid_okb in H1. unfold kid_ok.
      destruct (lookup_ty S (ti_type t)) as [td|]; [|exact Logic.I]. destruct (t_special td); [discriminate|].
      split; [reflexivity | apply Hpl; exact H1].
    - apply (IH m (ltac:(cbn [length] in Hlen; lia)) H2 i ti k Hn Hin).
  Qed.

  Lemma items_good_sound plb (pl : tydef -> value -> Prop) : (forall td v, plb td v = true -> pl td v) ->
    forall its kids, items_goodb plb its kids = true -> items_good S posrs pl its kids.
  Proof.
    intros Hpl. induction its as [|it r IH]; intros kids H; [exact Logic.I|]. destruct it as [nm ty|union last titems]; cbn [items_goodb items_good] in *.
    - apply IH. exact H.
    - apply andb_true_iff in H. destruct H as [Hg Hr]. split; [|apply IH; exact Hr].
      unfold group_goodb in Hg. apply andb_true_iff in Hg. destruct Hg as [Hg H3]. apply andb_true_iff in Hg. destruct Hg as [H1 H2].
      apply Nat.leb_le in H1. split.
      + exact (group_kids_ok_sound plb pl Hpl titems _ H1 H2).
      + apply group_order_sorted. exact H3.
  Qed.

  Theorem goodb_sound : forall f td v, goodb f td v = true -> good S posrs f td v.
  Proof.
    induction f as [|f IH]; intros td v H; [exact Logic.I|]. cbn [goodb good] in *.
    destruct v as [| |ty lay fields kids cms|]; try exact Logic.I.
    apply (items_good_sound (goodb f) (good S posrs f)); [intros td' v' H'; apply IH; exact H' | exact H].
  Qed.
End Goodb.

(* ---------- from the text: the tokenizer's output is a state the theorem applies to ---------- *)
Definition tok_okb (t : token) : bool :=
  Nat.eqb (tk_fileid t) 0 && negb (ttype_eqb (tk_type t) TComment) && (match tk_text t with [] => false | _ => true end) && (1 <=? tk_line t).

Lemma tok_okb_ok t : tok_okb t = true -> tok_ok t.
Proof.
  unfold tok_okb, tok_ok. intros H. repeat (apply andb_true_iff in H; let Y := fresh "Y" in destruct H as [H Y]).
  apply Nat.eqb_eq in H. apply N.leb_le in Y. split; [exact H|]. split.
  - intros E. rewrite E in Y1. discriminate.
  - split; [destruct (tk_text t); [discriminate | discriminate] | exact Y].
Qed.

(* the state in which the tokens of a text are handed to the parser *)
Lemma init_inv toks ftab : forallb tok_okb toks = true -> toks <> [] ->
  StronglySorted (fun a b => tk_line a <= tk_line b) toks -> Inv (init_state toks false 1 ftab).
Proof.
  intros Hok Hne Hs.
  assert (F : Forall tok_ok toks).
  { apply Forall_forall. intros t Hin. apply tok_okb_ok. rewrite forallb_forall in Hok. exact (Hok t Hin). }
  constructor; cbn.
  - reflexivity.
  - exact F.
  - exact Hs.
  - destruct toks as [|t0 r]; [congruence|]. exists (tk_line t0). split; [reflexivity|]. inversion F as [|? ? (_ & _ & _ & H) _]. exact H.
  - reflexivity.
  - reflexivity.
  - lia.
Qed.

Section FromText.
  Variable S : spec.
  Variable posrs : list (string * posr).
  Variable ftab : list fentry.
  Variable ifuel : nat.
  Hypothesis Hspec : spec_ok S = true.

  (* an element body taken from a text: tokenize, parse with the parser of its type; if that succeeds without a warning the
     tokens that were consumed are, one by one and in order, the tokens that the writer prints for the value *)
  Theorem text_element_tokens_are_written f td tag line off text toks v s' :
    tokenize_core 0 text = TOk toks -> forallb tok_okb toks = true -> toks <> [] ->
    lookup_ty S (t_name td) = Some td -> t_special td = None ->
    parse_ty f S ifuel td (mkCtx tag O line) off (init_state toks false 1 ftab) = (ROk v, s') -> ps_log s' = [] ->
    goodb S posrs f td v = true ->
    exists ts, toks = ts ++ ps_after s' /\
               traced ftab ts (wtoks S posrs ftab f v ++ closing (is_blockb td) tag).
  Proof.
    intros Et Hok Hne Hl Hsp E L Hg.
    destruct (tokenize_lines_monotone 0 _ toks Et) as [Hmono _].
    assert (I : Inv (init_state toks false 1 ftab)) by (apply init_inv; assumption).
    destruct (parse_then_write S posrs ftab ifuel Hspec f td (mkCtx tag O line) off _ v s' eq_refl I (first_ok_init _ _ _ _) eq_refl Hl Hsp E L
                (goodb_sound S posrs f td v Hg)) as (ts & A & T & _).
    exists ts. split; [|exact T]. pose proof (adv_after _ _ _ A) as Q. exact Q.
  Qed.
End FromText.
Print Assumptions text_element_tokens_are_written.
