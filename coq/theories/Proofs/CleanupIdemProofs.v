(** C10: running cleanup twice gives the same result as running it once - for the whole model (the four passes in the
    order of cleanup.rs), for every module in which the FUNCTION names are unique.  The COMPU_METHOD / table / UNIT pass
    and the RECORD_LAYOUT pass are in Proofs/CleanupProofs.v; here: the GROUP and FUNCTION worklists reach a state in
    which nothing more can go (the fuel of the model suffices), a second run finds every list already reduced, and the
    passes do not disturb each other. *)
From Coq Require Import String List Arith NArith Bool Ascii Lia.
From A2L Require Import Base.ListX Text.Escape Lex.Tokenizer Lib.Merge Lib.Cleanup Proofs.MergeProofs Proofs.CleanupProofs.
Import ListNotations.

(* ---------- the rounds reach a fixed point within their fuel ---------- *)
Lemma iterate_fixpoint {A} (step : A -> A * bool) (size : A -> nat) :
  (forall x y, step x = (y, true) -> size y < size x) -> (forall x y, step x = (y, false) -> y = x) ->
  forall fuel x, size x < fuel -> snd (step (iterate fuel step x)) = false.
Proof.
  intros Hdec Hstop. induction fuel as [|k IH]; intros x Hx; [lia|]. cbn [iterate].
  destruct (step x) as [y again] eqn:E. destruct again.
  - apply IH. pose proof (Hdec x y E). lia.
  - pose proof (Hstop x y E). subst y. rewrite E. reflexivity.
Qed.

Lemma iterate_stable {A} (step : A -> A * bool) x fuel : step x = (x, false) -> iterate (S fuel) step x = x.
Proof. intros E. cbn [iterate]. rewrite E. reflexivity. Qed.

Lemma filter_len_le {A} (p : A -> bool) l : length (filter p l) <= length l.
Proof. induction l as [|y l IH]; [apply Nat.le_refl|]. cbn [filter]. destruct (p y); cbn [length]; lia. Qed.

Lemma filter_removes_one {A} (p : A -> bool) l x : In x l -> p x = false -> length (filter p l) < length l.
Proof.
  induction l as [|y l IH]; intros Hin Hp; [destruct Hin|]. cbn [filter length]. destruct Hin as [->|Hin].
  - rewrite Hp. pose proof (filter_len_le p l). lia.
  - specialize (IH Hin Hp). destruct (p y); cbn [length]; lia.
Qed.

(* ---------- option lists ---------- *)
Lemma keep_in_idem v l : keep_in v (keep_in v l) = keep_in v l.
Proof.
  unfold keep_in. induction l as [|x l IH]; [reflexivity|]. cbn [filter]. destruct (mem x v) eqn:E; [|exact IH].
  cbn [filter]. rewrite E, IH. reflexivity.
Qed.
Lemma keep_in_all v l : (forall x, In x l -> In x v) -> keep_in v l = l.
Proof.
  unfold keep_in. induction l as [|x l IH]; intros H; [reflexivity|]. cbn [filter].
  assert (E : mem x v = true) by (apply mem_In, H; left; reflexivity). rewrite E, IH; [reflexivity|]. intros y Hy. apply H. right. exact Hy.
Qed.
Lemma retain_drop_idem v o : retain_drop v (retain_drop v o) = retain_drop v o.
Proof.
  destruct o as [l|]; [|reflexivity]. cbn [retain_drop]. destruct (keep_in v l) as [|x r] eqn:E; [reflexivity|].
  cbn [retain_drop]. rewrite <- E, keep_in_idem, E. reflexivity.
Qed.
Lemma retain_keep_all v o : (forall x, match o with Some l => In x l | None => False end -> In x v) -> retain_keep v o = o.
Proof. destruct o as [l|]; [|reflexivity]. intros H. cbn [retain_keep option_map]. rewrite keep_in_all; [reflexivity | exact H]. Qed.
Lemma retain_keep_in v o x : match retain_keep v o with Some l => In x l | None => False end -> In x v.
Proof.
  destruct o as [l|]; cbn [retain_keep option_map]; [|tauto]. unfold keep_in. intros H. apply filter_In in H. apply mem_In. exact (proj2 H).
Qed.

(* ---------- GROUPs ---------- *)
Definition gdead (used : list name) (gs : list cgroup) : list name :=
  map g_nm (filter (fun g => negb (mem (g_nm g) used) && group_empty g) gs).

Lemma groups_round_stop used gs y : groups_round used gs = (y, false) -> y = gs.
Proof. unfold groups_round. destruct (map g_nm _); intros H; inversion H; reflexivity. Qed.

Lemma groups_round_dec used gs y : groups_round used gs = (y, true) -> length y < length gs.
Proof.
  unfold groups_round. destruct (map g_nm (filter (fun g => negb (mem (g_nm g) used) && group_empty g) gs)) as [|d ds] eqn:E; intros H; [discriminate|]; injection H as <-.
  rewrite map_length.
  assert (Hd : In d (map g_nm (filter (fun g => negb (mem (g_nm g) used) && group_empty g) gs))) by (rewrite E; left; reflexivity).
  apply in_map_iff in Hd. destruct Hd as (g & Hn & Hg). apply filter_In in Hg.
  apply (filter_removes_one _ gs g (proj1 Hg)). apply negb_false_iff. cbn [mem]. rewrite Hn, bytes_eqb_refl. reflexivity.
Qed.

Lemma groups_fixed used gs : snd (groups_round used (iterate (S (length gs)) (groups_round used) gs)) = false.
Proof. apply (iterate_fixpoint (groups_round used) (@length cgroup)); [apply groups_round_dec | apply groups_round_stop | lia]. Qed.

Lemma groups_round_false used gs : snd (groups_round used gs) = false -> groups_round used gs = (gs, false).
Proof. intros H. destruct (groups_round used gs) as [y b] eqn:E. cbn [snd] in H. subst b. rewrite (groups_round_stop _ _ _ E). reflexivity. Qed.

(* what a round leaves of a group: name, rc, rm, fl are untouched *)
Definition g_same (a b : cgroup) : Prop := g_nm a = g_nm b /\ g_rc a = g_rc b /\ g_rm a = g_rm b /\ g_fl a = g_fl b.
Lemma groups_round_elems used gs g : In g (fst (groups_round used gs)) -> exists g0, In g0 gs /\ g_same g g0.
Proof.
  unfold groups_round. destruct (map g_nm _) as [|d ds].
  - cbn [fst]. intros H. exists g. repeat split; assumption.
  - cbn [fst]. intros H. apply in_map_iff in H. destruct H as (g0 & <- & H0). apply filter_In in H0. exists g0. split; [exact (proj1 H0)|]. repeat split.
Qed.
Lemma iterate_groups_elems used : forall fuel gs g, In g (iterate fuel (groups_round used) gs) -> exists g0, In g0 gs /\ g_same g g0.
Proof.
  induction fuel as [|k IH]; intros gs g H; cbn [iterate] in H; [exists g; repeat split; assumption|].
  destruct (groups_round used gs) as [y again] eqn:E.
  assert (Hy : forall x, In x y -> exists g0, In g0 gs /\ g_same x g0).
  { intros x Hx. apply (groups_round_elems used gs). rewrite E. exact Hx. }
  destruct again; [|exact (Hy g H)]. destruct (IH y g H) as (g1 & H1 & S1). destruct (Hy g1 H1) as (g0 & H0 & S0).
  exists g0. split; [exact H0|]. destruct S1 as (a1 & a2 & a3 & a4), S0 as (b1 & b2 & b3 & b4). repeat split; congruence.
Qed.

(* the dead set only looks at name, sub, rc, rm *)
Lemma gdead_fl used gs (f : cgroup -> olist) :
  gdead used (map (fun g => mkG (g_nm g) (g_sub g) (g_rc g) (g_rm g) (f g)) gs) = gdead used gs.
Proof.
  unfold gdead. induction gs as [|g gs IH]; [reflexivity|]. cbn [map filter]. unfold group_empty at 1. cbn [g_nm g_sub g_rc g_rm].
  fold (group_empty g). destruct (negb (mem (g_nm g) used) && group_empty g); cbn [map]; rewrite IH; reflexivity.
Qed.

Lemma groups_round_by_dead used gs : gdead used gs = [] -> groups_round used gs = (gs, false).
Proof. unfold groups_round, gdead. intros ->. reflexivity. Qed.
Lemma groups_round_dead_nil used gs : snd (groups_round used gs) = false -> gdead used gs = [].
Proof. unfold groups_round, gdead. destruct (map g_nm _); [reflexivity | discriminate]. Qed.

(* ---------- FUNCTIONs ---------- *)
Lemma funcs_round_stop used fs y : funcs_round used fs = (y, false) -> y = fs.
Proof. unfold funcs_round. destruct (dead_fix _ _ _ _); intros H; inversion H; reflexivity. Qed.

Lemma funcs_round_dec used fs y : funcs_round used fs = (y, true) -> length y < length fs.
Proof.
  unfold funcs_round. destruct (dead_fix (S (length fs)) used fs []) as [|d ds] eqn:E; intros H; [discriminate|]; injection H as <-.
  rewrite map_length.
  destruct (dead_fix_sound used fs (S (length fs)) [] (fun n H0 => match H0 with end) d) as (f & Hf & Hn & _); [rewrite E; left; reflexivity|].
  apply (filter_removes_one _ fs f Hf). apply negb_false_iff. cbn [mem]. rewrite Hn, bytes_eqb_refl. reflexivity.
Qed.

Lemma funcs_fixed used fs : snd (funcs_round used (iterate (S (length fs)) (funcs_round used) fs)) = false.
Proof. apply (iterate_fixpoint (funcs_round used) (@length cfunc)); [apply funcs_round_dec | apply funcs_round_stop | lia]. Qed.
Lemma funcs_round_false used fs : snd (funcs_round used fs) = false -> funcs_round used fs = (fs, false).
Proof. intros H. destruct (funcs_round used fs) as [y b] eqn:E. cbn [snd] in H. subst b. rewrite (funcs_round_stop _ _ _ E). reflexivity. Qed.

(* invariant of the rounds: the sub-function lists name functions of the list, the object lists name objects *)
Definition f_inv (objs : list name) (fs : list cfunc) : Prop :=
  forall f, In f fs ->
    (forall x, match f_sub f with Some l => In x l | None => False end -> In x (function_names fs)) /\
    (forall x, match f_rc f with Some l => In x l | None => False end -> In x objs) /\
    (forall x, match f_dc f with Some l => In x l | None => False end -> In x objs) /\
    (forall x, match f_in f with Some l => In x l | None => False end -> In x objs) /\
    (forall x, match f_loc f with Some l => In x l | None => False end -> In x objs) /\
    (forall x, match f_out f with Some l => In x l | None => False end -> In x objs).

Lemma remove_names_in dead o x : match remove_names dead o with Some l => In x l | None => False end ->
  match o with Some l => In x l | None => False end /\ mem x dead = false.
Proof.
  destruct o as [l|]; cbn [remove_names]; [|tauto]. destruct (existsb (fun y => mem y dead) l) eqn:E.
  - destruct (filter (fun y => negb (mem y dead)) l) as [|a r] eqn:F; [tauto|]. intros H. rewrite <- F in H. apply filter_In in H.
    destruct H as [H1 H2]. apply negb_true_iff in H2. auto.
  - intros H. split; [exact H|]. destruct (mem x dead) eqn:M; [|reflexivity].
    assert (existsb (fun y => mem y dead) l = true) by (apply existsb_exists; exists x; auto). congruence.
Qed.

Lemma funcs_round_inv objs used fs : f_inv objs fs -> f_inv objs (fst (funcs_round used fs)).
Proof.
  intros Hinv. unfold funcs_round. destruct (dead_fix (S (length fs)) used fs []) as [|d ds]; [exact Hinv|]. cbn [fst].
  set (dead := d :: ds). intros f Hf. apply in_map_iff in Hf. destruct Hf as (f0 & <- & Hf0). apply filter_In in Hf0. destruct Hf0 as [Hin Hnd].
  destruct (Hinv f0 Hin) as (H1 & H2 & H3 & H4 & H5 & H6). cbn [f_sub f_rc f_dc f_in f_loc f_out]. repeat split; try assumption.
  intros x Hx. apply remove_names_in in Hx. destruct Hx as [Hx Hm]. specialize (H1 x Hx).
  unfold function_names in *. rewrite map_map. cbn [f_nm]. apply in_map_iff in H1. destruct H1 as (g & Hg & Hgin).
  apply in_map_iff. exists g. split; [exact Hg|]. apply filter_In. split; [exact Hgin|]. rewrite Hg, Hm. reflexivity.
Qed.

(* ---------- the whole run ---------- *)
Section Twice.
  Variable m : cmod.
  Hypothesis Hnd : NoDup (map f_nm (m_funcs m)).

  Let valid := group_refnames m.
  Let gs1 := map (fun g => mkG (g_nm g) (g_sub g) (retain_drop valid (g_rc g)) (retain_drop valid (g_rm g)) (g_fl g)) (m_groups m).
  Let G := iterate (S (length gs1)) (groups_round (m_grp_uses m)) gs1.
  Let existing := function_names (m_funcs m).
  Let O' := map (keep_in existing) (m_obj_funcs m).
  Let G' := map (fun g => mkG (g_nm g) (g_sub g) (g_rc g) (g_rm g) (retain_keep existing (g_fl g))) G.
  Let objs := object_names m.
  Let fs1 := map (fun f => mkF (f_nm f) (retain_keep existing (f_sub f)) (retain_keep objs (f_rc f)) (retain_keep objs (f_dc f))
                               (retain_keep objs (f_in f)) (retain_keep objs (f_loc f)) (retain_keep objs (f_out f)) (f_proto f)) (m_funcs m).
  Let used := concat O' ++ concat (map (fun g => match g_fl g with Some l => l | None => [] end) G').
  Let F' := iterate (S (length fs1)) (funcs_round used) fs1.

  Lemma cleanup_unfold : cleanup m =
    mkM (m_objs m) G' F' (ac_cms (cleanup_compu_methods m)) (ac_tabs (cleanup_compu_methods m)) (ac_units (cleanup_compu_methods m))
        (cleanup_record_layouts m) (ac_conv (cleanup_compu_methods m)) (m_conv_ro m) O' (m_rl_uses m) (m_grp_uses m).
  Proof. reflexivity. Qed.

  (* groups: the second run finds the lists reduced and nothing to delete *)
  Lemma G_retained g : In g G' -> retain_drop valid (g_rc g) = g_rc g /\ retain_drop valid (g_rm g) = g_rm g.
  Proof.
    intros Hg. unfold G' in Hg. apply in_map_iff in Hg. destruct Hg as (g1 & <- & Hg1). cbn [g_rc g_rm].
    destruct (iterate_groups_elems _ _ _ _ Hg1) as (g0 & H0 & (_ & E2 & E3 & _)). rewrite E2, E3.
    unfold gs1 in H0. apply in_map_iff in H0. destruct H0 as (g00 & <- & _). cbn [g_rc g_rm]. split; apply retain_drop_idem.
  Qed.

  Lemma groups_second : cleanup_groups (cleanup m) = G'.
  Proof.
    rewrite cleanup_unfold. unfold cleanup_groups. cbn [m_groups m_grp_uses m_objs].
    change (group_refnames (mkM (m_objs m) G' F' _ _ _ _ _ _ O' _ _)) with valid.
    assert (E : map (fun g => mkG (g_nm g) (g_sub g) (retain_drop valid (g_rc g)) (retain_drop valid (g_rm g)) (g_fl g)) G' = G').
    { apply map_id_in. intros g Hg. destruct (G_retained g Hg) as [E1 E2]. rewrite E1, E2. destruct g; reflexivity. }
    rewrite E. apply iterate_stable. apply groups_round_by_dead. unfold G'. rewrite gdead_fl.
    apply groups_round_dead_nil. apply groups_fixed.
  Qed.

  (* functions *)
  Lemma fs1_names : function_names fs1 = existing.
  Proof. unfold fs1, function_names, existing, function_names. rewrite map_map. reflexivity. Qed.

  Lemma fs1_inv : f_inv objs fs1.
  Proof.
    intros f Hf. unfold fs1 in Hf. apply in_map_iff in Hf. destruct Hf as (f0 & <- & _). cbn [f_sub f_rc f_dc f_in f_loc f_out].
    rewrite fs1_names. repeat split; intros x Hx; eapply retain_keep_in; exact Hx.
  Qed.

  Lemma F_inv : f_inv objs F'.
  Proof. unfold F'. apply iterate_inv; [intros x; apply funcs_round_inv | exact fs1_inv]. Qed.

  Lemma fs1_nodup : NoDup (map f_nm fs1).
  Proof. unfold fs1. rewrite map_map. cbn [f_nm]. exact Hnd. Qed.

  (* a function that an object or a group lists is still there *)
  Lemma used_stays x : In x used -> In x existing -> In x (function_names F').
  Proof.
    intros Hu He. rewrite <- fs1_names in He. unfold function_names in He. apply in_map_iff in He. destruct He as (f & Hn & Hf).
    destruct (protected_functions_stay used fs1 f fs1_nodup Hf) as (f' & Hf' & En & _).
    - unfold func_protected. rewrite Hn. assert (mem x used = true) by (apply mem_In; exact Hu). rewrite H. reflexivity.
    - unfold function_names. apply in_map_iff. exists f'. split; [congruence | exact Hf'].
  Qed.

  Lemma O_in l x : In l O' -> In x l -> In x used /\ In x existing.
  Proof.
    intros Hl Hx. split.
    - unfold used. apply in_or_app. left. apply in_concat. exists l. auto.
    - unfold O' in Hl. apply in_map_iff in Hl. destruct Hl as (l0 & <- & _). unfold keep_in in Hx. apply filter_In in Hx. apply mem_In. exact (proj2 Hx).
  Qed.

  Lemma Gfl_in g x : In g G' -> match g_fl g with Some l => In x l | None => False end -> In x used /\ In x existing.
  Proof.
    intros Hg Hx. split.
    - unfold used. apply in_or_app. right. apply in_concat. exists (match g_fl g with Some l => l | None => [] end).
      split; [apply in_map_iff; exists g; auto | destruct (g_fl g); [exact Hx | destruct Hx]].
    - unfold G' in Hg. apply in_map_iff in Hg. destruct Hg as (g0 & <- & _). cbn [g_fl] in Hx. eapply retain_keep_in. exact Hx.
  Qed.

  Theorem cleanup_twice : cleanup (cleanup m) = cleanup m.
  Proof.
    assert (Egroups : cleanup_groups (cleanup m) = G') by exact groups_second.
    rewrite cleanup_unfold at 2.
    unfold cleanup at 1. rewrite Egroups.
    (* the COMPU_METHOD pass and the RECORD_LAYOUT pass only read their own fields *)
    assert (Ecm : cleanup_compu_methods (cleanup m) = cleanup_compu_methods m).
    { rewrite <- (compu_method_pass_is_idempotent m). reflexivity. }
    assert (Erl : cleanup_record_layouts (cleanup m) = cleanup_record_layouts m).
    { rewrite cleanup_unfold. unfold cleanup_record_layouts at 1. cbn [m_rls m_rl_uses]. apply record_layout_pass_is_idempotent. }
    rewrite Ecm, Erl.
    (* the FUNCTION pass *)
    assert (Efun : cleanup_functions (cleanup m) G' = mkAF F' G' O').
    { rewrite cleanup_unfold. unfold cleanup_functions. cbn [m_funcs m_obj_funcs m_objs].
      change (object_names (mkM (m_objs m) G' F' _ _ _ _ _ _ O' _ _)) with objs.
      set (existing2 := function_names F').
      assert (EO : map (keep_in existing2) O' = O').
      { apply map_id_in. intros l Hl. apply keep_in_all. intros x Hx. destruct (O_in l x Hl Hx) as [Hu He]. exact (used_stays x Hu He). }
      assert (EG : map (fun g => mkG (g_nm g) (g_sub g) (g_rc g) (g_rm g) (retain_keep existing2 (g_fl g))) G' = G').
      { apply map_id_in. intros g Hg. rewrite retain_keep_all; [destruct g; reflexivity|].
        intros x Hx. destruct (Gfl_in g x Hg Hx) as [Hu He]. exact (used_stays x Hu He). }
      assert (EF : map (fun f => mkF (f_nm f) (retain_keep existing2 (f_sub f)) (retain_keep objs (f_rc f)) (retain_keep objs (f_dc f))
                                    (retain_keep objs (f_in f)) (retain_keep objs (f_loc f)) (retain_keep objs (f_out f)) (f_proto f)) F' = F').
      { apply map_id_in. intros f Hf. destruct (F_inv f Hf) as (H1 & H2 & H3 & H4 & H5 & H6).
        rewrite (retain_keep_all existing2 (f_sub f) H1), (retain_keep_all objs _ H2), (retain_keep_all objs _ H3),
          (retain_keep_all objs _ H4), (retain_keep_all objs _ H5), (retain_keep_all objs _ H6). destruct f; reflexivity. }
      rewrite EO, EG, EF. fold used. f_equal.
      apply iterate_stable. apply funcs_round_false. apply funcs_fixed. }
    rewrite Efun. cbn [af_groups af_funcs af_obj_funcs]. rewrite cleanup_unfold. reflexivity.
  Qed.
End Twice.
Print Assumptions cleanup_twice.
