(** C18, the IF_DATA block as the generic parser meets it.  Conformance relative to the following tokens looks at the first two of them
    only ([conf_follow_ext]); so a value that conforms in front of "/end IF_DATA" conforms in front of "/end IF_DATA" followed by
    anything, and the branch of the block parser for IF_DATA ([parse_special_or_generic], specification.rs IfData::parse) returns it
    as the content of a VALID block and consumes the block up to and including its "/end IF_DATA". *)
From Coq Require Import Ascii String List Bool Arith NArith ZArith Lia.
From A2L Require Import Base.StableSort Text.Escape Text.IntText Lex.Tokenizer Gram.Spec A2ml.Types Gram.PState Gram.Parser Gram.Writer Gram.TokWriter
  Proofs.CursorProofs Proofs.RoundTripProofs Proofs.TerminationProofs Proofs.GroupOrderProofs Proofs.IfdataRoundTripProofs Proofs.IfdataFollowProofs
  Proofs.IfdataTextProofs.
Import ListNotations.

Lemma firstn2_app {A} (x k k' : list A) : firstn 2 k = firstn 2 k' -> firstn 2 (x ++ k) = firstn 2 (x ++ k').
Proof.
  intros H. destruct x as [|a [|b x]]; cbn [app firstn]; [exact H | | reflexivity].
  destruct k, k'; cbn [firstn] in *; try reflexivity; try discriminate; destruct k, k'; cbn in H; congruence.
Qed.

Lemma fails_on_ext ty : forall k k', firstn 2 k = firstn 2 k' -> fails_on ty k = fails_on ty k'.
Proof.
  assert (Hh : forall k k' : list shape, firstn 2 k = firstn 2 k' -> hd_type k = hd_type k').
  { intros [|a k] [|b k'] H; cbn in *; try reflexivity; try discriminate. destruct k, k'; cbn in H; congruence. }
  induction ty using (well_founded_induction (Wf_nat.well_founded_ltof _ ty_depth)).
  intros k k' Hk. pose proof (Hh k k' Hk) as E.
  destruct ty; cbn [fails_on]; rewrite ?E; try reflexivity.
  - destruct ty; try (destruct dim; [reflexivity|]; apply H; [unfold Wf_nat.ltof; cbn [ty_depth]; lia | exact Hk]); rewrite ?E; reflexivity.
  - destruct k as [|[t1 x1] k], k' as [|[t2 x2] k']; cbn in Hk; try reflexivity; try discriminate.
    assert (t1 = t2 /\ x1 = x2) as [-> ->] by (destruct k, k'; cbn in Hk; split; congruence). reflexivity.
  - destruct items as [|t0 items]; [reflexivity|]. apply H; [|exact Hk]. unfold Wf_nat.ltof. cbn [ty_depth fold_right]. lia.
Qed.

Lemma ts_stops_ext spec k k' : firstn 2 k = firstn 2 k' -> ts_stops spec k = ts_stops spec k'.
Proof.
  intros H. destruct k as [|a [|b k]], k' as [|a' [|b' k']]; cbn [firstn] in H; try discriminate; try reflexivity.
  - injection H as ->. reflexivity.
  - injection H as -> ->. reflexivity.
Qed.

Section Ext.
  Variable ftab : list fentry.
  Notation conf := (conf ftab).

  (** conformance looks at the first two of the following tokens only *)
  Theorem conf_follow_ext : forall n ty g k k', gdepth g <= n -> firstn 2 k = firstn 2 k' -> conf ty g k -> conf ty g k'.
  Proof.
    induction n as [|n IH]; intros ty g k k' Hd Hk Hconf; [pose proof (gdepth_pos g); lia|].
    assert (Hall : forall item l k k', Forall (fun g => gdepth g <= n) l -> firstn 2 k = firstn 2 k' ->
              conf_all ftab conf item l k -> conf_all ftab conf item l k').
    { intros item l k0 k0' Hl Hk0 H. revert k0' Hk0. induction H as [k0|g0 gs k0 H1 H2 IH2]; intros k0' Hk0; [constructor|].
      inversion Hl; subst. constructor; [eapply IH; [eassumption | apply firstn2_app; exact Hk0 | exact H1] | apply IH2; assumption]. }
    assert (Hseq : forall tys l k k', Forall (fun g => gdepth g <= n) l -> firstn 2 k = firstn 2 k' ->
              conf_seq ftab conf tys l k -> conf_seq ftab conf tys l k').
    { intros tys l k0 k0' Hl Hk0 H. revert k0' Hk0. induction H as [k0|ty0 g0 tys gs k0 H1 H2 IH2]; intros k0' Hk0; [constructor|].
      inversion Hl; subst. constructor; [eapply IH; [eassumption | apply firstn2_app; exact Hk0 | exact H1] | apply IH2; assumption]. }
    assert (Hitem : forall spec i k k', info_depth i <= n -> firstn 2 k = firstn 2 k' -> conf_item conf spec i k -> conf_item conf spec i k').
    { intros spec i k0 k0' Hi Hk0 H. destruct H as [tag uid line so eo isb t g0 binc bline k0 Hfind Hblk Hc].
      cbn [info_depth] in Hi. pose proof (make_block_depth g0 binc bline) as Q.
      apply cit with (t := t); [exact Hfind | exact Hblk|]. eapply IH; [lia | | exact Hc].
      destruct isb; [reflexivity | exact Hk0]. }
    assert (Hitems : forall spec its k k', Forall (fun i => info_depth i <= n) its -> firstn 2 k = firstn 2 k' ->
              conf_items ftab conf spec its k -> conf_items ftab conf spec its k').
    { intros spec its k0 k0' Hl Hk0 H. revert k0' Hk0. induction H as [k0|i its k0 H1 H2 IH2]; intros k0' Hk0; [constructor|].
      inversion Hl; subst. constructor; [eapply Hitem; [eassumption | apply firstn2_app; exact Hk0 | exact H1] | apply IH2; assumption]. }
    destruct Hconf as [ty variant t off z hex k Hi Hr|off bits k Hok|off bits k Hok|dim off str k|items off e k He
                      |item dim l k Hne Hlen Hl|items inc l k Hl|item l k Hl Hnn Hst|spec tg k Hits Hst Hre|spec k Hst|spec t k Hit].
    - eapply conf_int; eassumption.
    - apply conf_float; assumption.
    - apply conf_double; assumption.
    - apply conf_string.
    - apply conf_enum; assumption.
    - cbn [gdepth] in Hd. apply conf_array; [assumption | assumption|]. exact (Hall item l k k' (list_depths l n Hd) Hk Hl).
    - cbn [gdepth] in Hd. apply conf_struct. exact (Hseq items l k k' (list_depths l n Hd) Hk Hl).
    - cbn [gdepth] in Hd. apply conf_sequence; [exact (Hall item l k k' (list_depths l n Hd) Hk Hl) | exact Hnn|].
      rewrite <- (fails_on_ext item k k' Hk). exact Hst.
    - apply conf_taggedstruct; [|rewrite <- (ts_stops_ext spec k k' Hk); exact Hst | exact Hre].
      apply (Hitems spec (witems tg) k k'); [|exact Hk | exact Hits].
      apply Forall_forall. intros i Hi. pose proof (witems_depth tg i Hi). lia.
    - apply conf_taggedunion_none. rewrite <- (ts_stops_ext spec k k' Hk). exact Hst.
    - apply conf_taggedunion_one. apply (Hitem spec (ti_info t) k k'); [|exact Hk | exact Hit].
      assert (Ew : witems [(ti_tag t, [t])] = [ti_info t]) by (destruct t; reflexivity).
      pose proof (witems_depth [(ti_tag t, [t])] (ti_info t) ltac:(rewrite Ew; left; reflexivity)) as Q. cbn [gdepth] in Hd, Q. lia.
  Qed.

  (** the IF_DATA branch of the block parser on conforming content: a valid block with this content, consumed up to its end tag *)
  Theorem conforming_ifdata_block_is_read rec ifuel td newc lo sp specs g : t_special td = Some "IfData"%string -> c_fileid newc = O ->
    conf sp g [(TEnd, end_text); (TIdentifier, bytes_of "IF_DATA")] ->
    forall s ts tE tI post, Inv s -> ps_ftab s = ftab -> ps_specs s = sp :: specs ->
    ps_after s = ts ++ tE :: tI :: post -> map shape_of ts = ftoks ftab g ->
    shape_of tE = (TEnd, end_text) -> shape_of tI = (TIdentifier, bytes_of "IF_DATA") ->
    exists g' lay s', parse_special_or_generic rec ifuel td newc lo s = (ROk (VIfData lay (Some (make_block g' None (c_line newc))) true), s') /\
                      adv (ts ++ [tE; tI]) s s' /\ ev g' = ev g /\ l_so lay = lo.
  Proof.
    intros Hsp Hc Hconf s ts tE tI post I Hf Hspecs Ha Hm HE HI.
    unfold parse_special_or_generic. rewrite Hsp. cbn [String.eqb Ascii.eqb Bool.eqb].
    rewrite Hc, bind_incfile.
    destruct (get_next_id_adv s I) as (uid & s1 & E1 & A1). rewrite (bind_ok _ _ _ _ _ E1).
    assert (I1 : Inv s1) by (eapply adv_inv; eassumption).
    assert (Ha1 : ps_after s1 = ts ++ tE :: tI :: post) by (rewrite (proj1 (adv_nil_after _ _ A1)); exact Ha).
    assert (Hf1 : ps_ftab s1 = ftab) by (apply (ftab_of _ _ _ _ Hf A1)).
    assert (Hs1 : ps_specs s1 = sp :: specs) by (rewrite (se_specs _ _ (adv_static _ _ _ A1)); exact Hspecs).
    unfold get_specs at 1. unfold bindM at 1. rewrite Hs1.
    assert (Hk : map shape_of (tE :: tI :: post) = (TEnd, end_text) :: (TIdentifier, bytes_of "IF_DATA") :: map shape_of post)
      by (cbn [map]; rewrite HE, HI; reflexivity).
    assert (Hconf' : conf sp g ((TEnd, end_text) :: (TIdentifier, bytes_of "IF_DATA") :: map shape_of post))
      by (apply (conf_follow_ext (gdepth g) sp g [(TEnd, end_text); (TIdentifier, bytes_of "IF_DATA")]
                   ((TEnd, end_text) :: (TIdentifier, bytes_of "IF_DATA") :: map shape_of post) (le_n _) eq_refl Hconf)).
    destruct (conforming_ifdata_is_valid ftab sp specs ifuel newc g _ end_text Hc Hconf' s1 ts (tE :: tI :: post) I1 Hf1 Ha1 Hm Hk)
      as (g' & s2 & E2 & A2 & R2).
    rewrite (bind_ok _ _ _ _ _ E2).
    assert (I2 : Inv s2) by (eapply adv_inv; eassumption).
    assert (Ha2 : ps_after s2 = tE :: tI :: post).
    { pose proof (adv_after _ _ _ A2) as Q. rewrite Ha1 in Q. apply app_inv_head in Q. symmetry. exact Q. }
    unfold shape_of in HE, HI. injection HE as HEt _. injection HI as HIt HItx.
    destruct (expect_fine newc TEnd s2 tE _ I2 Ha2 HEt) as (s3 & E3 & A3).
    assert (I3 : Inv s3) by (eapply adv_inv; eassumption).
    assert (Ha3 : ps_after s3 = tI :: post) by (apply (after_of [tE] [tI] post s2 s3 Ha2 A3)).
    destruct (glo_fine s3 I3) as (eo & G3).
    destruct (get_identifier_fine newc Hc s3 tI post I3 Ha3 HIt) as (s4 & E4 & A4).
    unfold bindM at 1. rewrite E3. unfold bindM at 1. rewrite G3.
    unfold end_tag_check. unfold bindM at 1. unfold bindM at 1. rewrite E4, HItx, MergeProofs.bytes_eqb_refl.
    cbn [fst snd]. eexists. eexists. exists s4. split; [reflexivity|]. split; [|split; [exact R2 | reflexivity]].
    pose proof (adv_trans _ _ _ _ _ (adv_trans _ _ _ _ _ (adv_trans _ _ _ _ _ A1 A2) A3) A4) as Q. cbn [app] in Q.
    rewrite <- app_assoc in Q. exact Q.
  Qed.
End Ext.
Print Assumptions conf_follow_ext.
Print Assumptions conforming_ifdata_block_is_read.
