(** C05, the parser's side of the line bookkeeping for IF_DATA that no definition describes: every offset the uninterpreted reader
    stores - with each identifier, string and number, with the tag or /begin and with the /end of each nested item - is the line of
    its token minus the line of the token in front of it ([goffs] of Proofs/IfdataLinesProofs.v against [lines_as]).  Same induction
    as Proofs/IfdataUnknownTraceProofs.v. *)
From Coq Require Import Ascii String List Bool Arith NArith ZArith Lia Sorting.Sorted Permutation.
From A2L Require Import Base.StableSort Text.Escape Text.IntText Lex.Tokenizer Gram.Spec A2ml.Types Gram.PState Gram.Parser Gram.Writer Gram.TokWriter
  Proofs.CursorProofs Proofs.StrictWholeProofs Proofs.SeqMonoProofs Proofs.RoundTripProofs Proofs.RoundTripOrderProofs Proofs.ParseOrderProofs
  Proofs.LineOffsetProofs Proofs.ParseTraceProofs Proofs.TerminationProofs Proofs.GroupOrderProofs Proofs.IfdataRoundTripProofs Proofs.IfdataFollowProofs
  Proofs.IfdataTraceProofs Proofs.IfdataUnknownTraceProofs Proofs.IfdataLinesProofs.
Import ListNotations.

Section ULines.
  Section Level.
    Variable f : nat.
    Hypothesis IHi : forall c isb, c_fileid c = O -> ltr (unknown_ifdata f c isb).
    Hypothesis IHt : forall c, c_fileid c = O -> ltr (unknown_taggedstruct f c).
    Hypothesis Mi : forall c isb, c_fileid c = O -> moves (unknown_ifdata f c isb).
    Hypothesis Mt : forall c, c_fileid c = O -> moves (unknown_taggedstruct f c).

    (* the loop of parse_unknown_ifdata moves forward only *)
    Lemma moves_ifd_loop c isb : c_fileid c = O -> forall n items, moves (ifd_loop_ f c isb n items).
    Proof.
      intros Hc. induction n as [|n IH]; intros items s r s' I E; cbn [ifd_loop_] in E.
      - injection E as _ <-. exists []. apply adv_refl, (inv_pos s I).
      - unfold peek_token at 1 in E. unfold bindM at 1 in E. destruct (ps_after s) as [|t rest] eqn:Ea.
        { match type of E with ?m s = _ => assert (Mm : moves m) by (unfold eof_diag; mv) end. exact (Mm s r s' I E). }
        destruct (tk_type t) eqn:Ht.
        + match type of E with ?m s = _ => assert (Mm : moves m) end.
          { apply moves_bind; [mv|]. intros v. apply moves_bind; [mv|]. intros off. apply IH. }
          exact (Mm s r s' I E).
        + destruct isb; [|injection E as _ <-; exists []; apply adv_refl, (inv_pos s I)].
          match type of E with ?m s = _ => assert (Mm : moves m) end.
          { apply moves_bind; [apply Mt; exact Hc|]. intros ts. apply IH. }
          exact (Mm s r s' I E).
        + injection E as _ <-. exists []. apply adv_refl, (inv_pos s I).
        + exact (IH items s r s' I E).
        + match type of E with ?m s = _ => assert (Mm : moves m) end.
          { apply moves_bind; [mv|]. intros v. apply moves_bind; [mv|]. intros off. apply IH. }
          exact (Mm s r s' I E).
        + (* number: the rejected attempts are undone *)
          unfold bindM at 1 in E. unfold try at 1 in E.
          destruct (get_integer I32 c s) as [[[v hex]|d|x|] s1] eqn:Eg.
          * destruct (moves_get_integer I32 c s _ s1 I Eg) as (t1 & A1).
            match type of E with ?m s1 = _ => assert (Mm : moves m) end.
            { apply moves_bind; [mv|]. intros off. apply IH. }
            exact (moves_from _ _ s s1 r s' Mm I A1 E).
          * pose proof (get_integer_rejected c I32 s t rest d s1 I Ea Ht Eg) as A1.
            destruct (undo_back [] t s s1 A1) as (s2 & U & A2). rewrite (bind_ok _ _ _ _ _ U) in E.
            assert (I2 : Inv s2) by (exact (adv_inv _ _ _ I A2)).
            assert (Ea2 : ps_after s2 = t :: rest) by (rewrite (proj1 (adv_nil_after _ _ A2)); exact Ea).
            unfold bindM at 1 in E. unfold try at 1 in E.
            destruct (get_float c s2) as [[fl|d2|x|] s3] eqn:Ef.
            -- destruct (moves_get_float c s2 _ s3 I2 Ef) as (t3 & A3).
               match type of E with ?m s3 = _ => assert (Mm : moves m) end.
               { apply moves_bind; [mv|]. intros off. apply IH. }
               exact (moves_from _ _ s s3 r s' Mm I (adv_trans _ _ _ _ _ A2 A3) E).
            -- pose proof (get_float_rejected c s2 t rest d2 s3 I2 Ea2 Ht Ef) as A3.
               destruct (undo_back [] t s2 s3 A3) as (s4 & U2 & A4). rewrite (bind_ok _ _ _ _ _ U2) in E.
               match type of E with ?m s4 = _ => assert (Mm : moves m) end.
               { apply moves_bind; [mv|]. intros db. apply moves_bind; [mv|]. intros off. apply IH. }
               exact (moves_from _ _ s s4 r s' Mm I (adv_trans _ _ _ _ _ A2 A4) E).
            -- injection E as _ <-. destruct (moves_get_float c s2 _ s3 I2 Ef) as (t3 & A3). exists ([] ++ t3). exact (adv_trans _ _ _ _ _ A2 A3).
            -- injection E as _ <-. destruct (moves_get_float c s2 _ s3 I2 Ef) as (t3 & A3). exists ([] ++ t3). exact (adv_trans _ _ _ _ _ A2 A3).
          * injection E as _ <-. exact (moves_get_integer I32 c s _ s1 I Eg).
          * injection E as _ <-. exact (moves_get_integer I32 c s _ s1 I Eg).
        + exfalso. destruct (tok_ok_after s t rest I Ea) as (_ & Hnc & _). exact (Hnc Ht).
    Qed.

    Lemma moves_uts_loop c : c_fileid c = O -> forall n ts, moves (uts_loop_ f c n ts).
    Proof.
      intros Hc. induction n as [|n IH]; intros ts s r s' I E; cbn [uts_loop_] in E.
      - injection E as _ <-. exists []. apply adv_refl, (inv_pos s I).
      - unfold bindM at 1 in E. unfold try at 1 in E.
        destruct (get_next_tag_or_comment c s) as [[bc|d|x|] s1] eqn:Eg.
        + destruct (next_tag_inv c Hc s bc s1 I Eg) as [(tB & tI & r0 & off & Ha & HB & HI & -> & A1)|[(tI & r0 & off & Ha & HI & -> & A1)|(-> & A1)]].
          * assert (Hnc : c_fileid (ctx_from_token (tk_text tI) tI) = O).
            { cbn. destruct (tok_ok_in s tI I) as (Q & _); [rewrite Ha; right; left; reflexivity | exact Q]. }
            cbv zeta in E. match type of E with ?m s1 = _ => assert (Mm : moves m) end.
            { apply moves_bind; [mv|]. intros uid. apply moves_bind; [apply Mi; exact Hnc|]. intros data.
              apply moves_bind; [mv|]. intros eo. apply moves_bind; [mv|]. intros inc. apply moves_bind; [mv|]. intros nrem.
              apply moves_bind; [|intros u; apply IH].
              intros s0 r0' s0' I0 X. rewrite (skip_comments_none c _ s0 I0) in X. injection X as _ <-. exists []. apply adv_refl, (inv_pos s0 I0). }
            exact (moves_from _ _ s s1 r s' Mm I A1 E).
          * assert (Hnc : c_fileid (ctx_from_token (tk_text tI) tI) = O).
            { cbn. destruct (tok_ok_in s tI I) as (Q & _); [rewrite Ha; left; reflexivity | exact Q]. }
            cbv zeta in E. match type of E with ?m s1 = _ => assert (Mm : moves m) end.
            { apply moves_bind; [mv|]. intros uid. apply moves_bind; [apply Mi; exact Hnc|]. intros data.
              apply moves_bind; [mv|]. intros eo. apply moves_bind; [mv|]. intros inc. apply moves_bind; [mv|]. intros nrem.
              apply moves_bind; [|intros u; apply IH].
              intros s0 r0' s0' I0 X. rewrite (skip_comments_none c _ s0 I0) in X. injection X as _ <-. exists []. apply adv_refl, (inv_pos s0 I0). }
            exact (moves_from _ _ s s1 r s' Mm I A1 E).
          * injection E as _ <-. exists []. exact A1.
        + injection E as _ <-. exists []. exact (gntc_err_adv c s d s1 Hc I Eg).
        + injection E as _ <-. exact (moves_gntc c Hc s _ s1 I Eg).
        + injection E as _ <-. exact (moves_gntc c Hc s _ s1 I Eg).
    Qed.

    Lemma moves_unknown_ifdata_S c isb : c_fileid c = O -> moves (unknown_ifdata (S f) c isb).
    Proof.
      intros Hc. apply (moves_ext _ _ (fun s => f_equal (fun m => m s) (unknown_ifdata_S f c isb))).
      apply moves_bind; [mv|]. intros n. apply moves_bind; [apply moves_ifd_loop; exact Hc | intros; mv].
    Qed.

    Lemma moves_unknown_taggedstruct_S c : c_fileid c = O -> moves (unknown_taggedstruct (S f) c).
    Proof.
      intros Hc. apply (moves_ext _ _ (fun s => f_equal (fun m => m s) (unknown_taggedstruct_S f c))).
      apply moves_bind; [mv|]. intros n0. apply moves_bind.
      { intros s0 r0' s0' I0 X. rewrite (skip_comments_none c _ s0 I0) in X. injection X as _ <-. exists []. apply adv_refl, (inv_pos s0 I0). }
      intros u. apply moves_bind; [mv|]. intros n. apply moves_bind; [apply moves_uts_loop; exact Hc|]. intros ts. mv.
    Qed.

    Lemma ifd_loop_lines c isb : c_fileid c = O -> forall n items s l s', Inv s -> first_ok s ->
      ifd_loop_ f c isb n items s = (ROk l, s') -> ps_log s' = ps_log s -> ps_after s' <> [] ->
      exists ts l', l = items ++ l' /\ adv ts s s' /\ lines_as (prevl s) ts (flat_map goffs l').
    Proof.
      intros Hc. induction n as [|n IH]; intros items s l s' I Hfo E L Hne; cbn [ifd_loop_] in E; [discriminate|].
      unfold peek_token at 1 in E. unfold bindM at 1 in E.
      destruct (ps_after s) as [|t rest] eqn:Ea; [destruct (bind_ok_inv _ _ _ _ _ E) as (d & s0 & _ & X); discriminate|].
      assert (Step : forall g ts1 s1, adv ts1 s s1 -> ps_log s1 = ps_log s -> lines_as (prevl s) ts1 (goffs g) ->
                ifd_loop_ f c isb n (items ++ [g]) s1 = (ROk l, s') ->
                exists ts l', l = items ++ l' /\ adv ts s s' /\ lines_as (prevl s) ts (flat_map goffs l')).
      { intros g ts1 s1 A1 L1 R1 X.
        destruct (IH (items ++ [g]) s1 l s' (adv_inv _ _ _ I A1) (first_ok_adv _ _ _ A1 Hfo) X ltac:(congruence) Hne) as (ts2 & l2 & -> & A2 & R2).
        exists (ts1 ++ ts2), (g :: l2). rewrite <- app_assoc. split; [reflexivity|]. cbn [flat_map]. exact (lines_compose _ _ _ _ _ _ _ A1 A2 R1 R2). }
      assert (Done : ret items s = (ROk l, s') -> exists ts l', l = items ++ l' /\ adv ts s s' /\ lines_as (prevl s) ts (flat_map goffs l')).
      { intros X. injection X as <- <-. exists [], []. rewrite app_nil_r. split; [reflexivity|]. split; [apply adv_refl, (inv_pos s I) | exact Logic.I]. }
      (* a scalar: one token, then the offset, then the rest of the loop *)
      assert (Scalar : forall (g : N -> gifd) s0 s1 off s2, adv [] s s0 -> adv [t] s0 s1 -> ps_log s1 = ps_log s -> get_line_offset s1 = (ROk off, s2) ->
                (forall o, goffs (g o) = [Some o]) ->
                ifd_loop_ f c isb n (items ++ [g off]) s2 = (ROk l, s') ->
                exists ts l', l = items ++ l' /\ adv ts s s' /\ lines_as (prevl s) ts (flat_map goffs l')).
      { intros g s0 s1 off s2 A0 A1 L1 G Hg X.
        assert (A01 : adv [t] s s1) by (exact (adv_trans [] [t] _ _ _ A0 A1)).
        assert (I1 : Inv s1) by (exact (adv_inv _ _ _ I A01)).
        assert (Es : s2 = s1). { destruct (glo_fine s1 I1) as (o & G'). congruence. } subst s2.
        destruct (moves_ifd_loop c isb Hc n _ s1 _ s' I1 X) as (tr & Ar).
        destruct (one_scalar_line t s s1 off s1 I Hfo A01 G (adv_rest_ne _ _ _ Ar Hne)) as [_ Ll].
        apply (Step (g off) [t] s1 A01 L1); [rewrite Hg; exact Ll | exact X]. }
      destruct (tk_type t) eqn:Ht.
      - apply bind_clean_inv in E; [|cs|intro; cs|exact L]. destruct E as (v & s1 & E1 & L1 & E2 & L2).
        destruct (get_identifier_inv c Hc s v s1 I E1) as (tk & r & Ea' & Htk & Hv & A1). rewrite Ea in Ea'. injection Ea' as <- <-.
        destruct (bind_ok_inv _ _ _ _ _ E2) as (off & s2 & G & E3).
        exact (Scalar (fun o => GEnumItem o v) s s1 off s2 (adv_refl s (inv_pos s I)) A1 L1 G (fun o => eq_refl) E3).
      - destruct isb; [|exact (Done E)].
        apply bind_clean_inv in E; [|cs|intro; cs|exact L]. destruct E as (g & s1 & E1 & L1 & E2 & L2).
        destruct (Mt c Hc s _ s1 I E1) as (tm1 & Am1). assert (I1 : Inv s1) by (exact (adv_inv _ _ _ I Am1)).
        destruct (moves_ifd_loop c true Hc n _ s1 _ s' I1 E2) as (tr & Ar).
        destruct (IHt c Hc s g s1 I Hfo E1 L1 (adv_rest_ne _ _ _ Ar Hne)) as (ts1 & A1 & R1). exact (Step g ts1 s1 A1 L1 R1 E2).
      - exact (Done E).
      - destruct (IH items s l s' I Hfo E L Hne) as (ts & l' & X). exists ts, l'. exact X.
      - apply bind_clean_inv in E; [|cs|intro; cs|exact L]. destruct E as (v & s1 & E1 & L1 & E2 & L2).
        destruct (get_string_inv c Hc s v s1 I E1 L1) as (tk & r & Ea' & Htk & Hv & A1). rewrite Ea in Ea'. injection Ea' as <- <-.
        destruct (bind_ok_inv _ _ _ _ _ E2) as (off & s2 & G & E3).
        exact (Scalar (fun o => GString o v) s s1 off s2 (adv_refl s (inv_pos s I)) A1 L1 G (fun o => eq_refl) E3).
      - apply bind_clean_inv in E; [|cs|intros [[[v hex]|] dd]; cs|exact L]. destruct E as (x & s1 & E1 & L1 & E2 & L2).
        destruct (try_clean_inv (get_integer I32 c) _ _ _ ltac:(cs) E1 L1) as [(vh & Er & ->)|(d & Er & ->)].
        + destruct vh as [v hex]. destruct (get_integer_inv c Hc I32 s (v, hex) s1 I Er) as (tk & r & Ea' & Htk & Hg & A1).
          rewrite Ea in Ea'. injection Ea' as <- <-.
          destruct (bind_ok_inv _ _ _ _ _ E2) as (off & s2 & G & E3).
          exact (Scalar (fun o => GInt "Long" o v hex) s s1 off s2 (adv_refl s (inv_pos s I)) A1 L1 G (fun o => eq_refl) E3).
        + pose proof (get_integer_rejected c I32 s t rest d s1 I Ea Ht Er) as A1.
          destruct (undo_back [] t s s1 A1) as (s2 & U & A2). cbv iota beta in E2. rewrite (bind_ok _ _ _ _ _ U) in E2.
          assert (I2 : Inv s2) by (exact (adv_inv _ _ _ I A2)).
          assert (L2' : ps_log s2 = ps_log s1) by (unfold undo_get_token in U; destruct (ps_before s1); [discriminate | injection U as <-; reflexivity]).
          assert (Ea2 : ps_after s2 = t :: rest) by (rewrite (proj1 (adv_nil_after _ _ A2)); exact Ea).
          apply bind_clean_inv in E2; [|cs|intros [[fl|] dd]; cs|congruence]. destruct E2 as (x2 & s3 & E3 & L3 & E4 & L4).
          destruct (try_clean_inv (get_float c) _ _ _ ltac:(cs) E3 L3) as [(fl & Erf & ->)|(d2 & Erf & ->)].
          * destruct (get_float_inv c Hc (ps_ftab s2) s2 fl s3 I2 eq_refl Erf) as (tk & r & Ea' & Htk & Hg & A3).
            rewrite Ea2 in Ea'. injection Ea' as <- <-.
            destruct (bind_ok_inv _ _ _ _ _ E4) as (off & s4 & G & E5).
            exact (Scalar (fun o => GFloat o fl) s2 s3 off s4 A2 A3 ltac:(congruence) G (fun o => eq_refl) E5).
          * pose proof (get_float_rejected c s2 t rest d2 s3 I2 Ea2 Ht Erf) as A3.
            destruct (undo_back [] t s2 s3 A3) as (s4 & U2 & A4). cbv iota beta in E4. rewrite (bind_ok _ _ _ _ _ U2) in E4.
            assert (I4 : Inv s4) by (exact (adv_inv _ _ _ I2 A4)).
            assert (L4' : ps_log s4 = ps_log s3) by (unfold undo_get_token in U2; destruct (ps_before s3); [discriminate | injection U2 as <-; reflexivity]).
            assert (Ea4 : ps_after s4 = t :: rest) by (rewrite (proj1 (adv_nil_after _ _ A4)); exact Ea2).
            destruct (bind_ok_inv _ _ _ _ _ E4) as (db & s5 & Ed & E5).
            destruct (get_double_inv c Hc (ps_ftab s4) s4 db s5 I4 eq_refl Ed) as (tk & r & Ea' & Htk & Hg & A5).
            rewrite Ea4 in Ea'. injection Ea' as <- <-.
            assert (L5 : ps_log s5 = ps_log s4).
            { destruct (log_grows (get_double c) ltac:(cs) _ _ _ Ed) as (l1 & Q1).
              match type of E5 with ?m s5 = _ => destruct (log_grows m ltac:(cs) _ _ _ E5) as (l2 & Q2) end. rewrite Q1 in Q2.
              assert (Q : ps_log s' = ps_log s4) by congruence. rewrite Q in Q2.
              destruct (app_app_self l2 l1 (ps_log s4)) as [-> _]; [symmetry; exact Q2 | exact Q1]. }
            destruct (bind_ok_inv _ _ _ _ _ E5) as (off & s6 & G & E6).
            exact (Scalar (fun o => GDouble o db) s4 s5 off s6 (adv_trans [] [] _ _ _ A2 A4) A5 ltac:(congruence) G (fun o => eq_refl) E6).
      - exfalso. destruct (tok_ok_after s t rest I Ea) as (_ & Hnc & _). exact (Hnc Ht).
    Qed.

    Lemma uts_loop_lines c : c_fileid c = O -> forall n acc s acc' s', Inv s -> first_ok s ->
      uts_loop_ f c n acc s = (ROk acc', s') -> ps_log s' = ps_log s -> ps_after s' <> [] ->
      exists ts R, adv ts s s' /\ acc' = fold_left (fun a t => assoc_push (ti_tag t) t a) R acc /\
                   lines_as (prevl s) ts (flat_map ioffs (map ti_info R)) /\ uchain (ps_seq s) R.
    Proof.
      intros Hc. induction n as [|n IH]; intros acc s acc' s' I Hfo E L Hne; cbn [uts_loop_] in E; [discriminate|].
      apply bind_clean_inv in E; [|cs|intros [[[token isb so|cm off|]|] dd]; cbv zeta; cs|exact L].
      destruct E as (x & s1 & E1 & L1 & E2 & L2).
      assert (Done : adv [] s s1 -> ret acc s1 = (ROk acc', s') ->
                exists ts R, adv ts s s' /\ acc' = fold_left (fun a t => assoc_push (ti_tag t) t a) R acc /\
                             lines_as (prevl s) ts (flat_map ioffs (map ti_info R)) /\ uchain (ps_seq s) R).
      { intros A1 X. injection X as <- <-. exists [], []. split; [exact A1|]. split; [reflexivity|]. split; [exact Logic.I | exact Logic.I]. }
      destruct (try_clean_inv (get_next_tag_or_comment c) _ _ _ ltac:(cs) E1 L1) as [(bc & Eg & ->)|(d & Eg & ->)].
      2:{ exact (Done (gntc_err_adv c s d s1 Hc I Eg) E2). }
      pose proof (smono_get_next_tag_or_comment c s _ s1 Eg) as Hgs.
      assert (Item : forall (tI : token) (isb : bool) (off : N) (tsg : list token), adv tsg s s1 -> In tI (ps_after s) ->
                (ps_after s1 <> [] -> lines_as (prevl s) tsg (if isb then [Some off; None] else [Some off])) ->
                (let tag := tk_text tI in let newc := ctx_from_token tag tI in
                 uid <-- get_next_id ;; data <-- unknown_ifdata f newc isb ;;
                 end_offset <-- (if isb then expect_token newc TEnd ;;; eo <-- get_line_offset ;; endident <-- expect_token newc TIdentifier ;;
                                              if bytes_eqb (tk_text endident) tag then ret eo
                                              else (d <-- mk_diag "IncorrectEndTag" newc (tk_text endident) ;; fail d)
                                 else ret 0%N) ;;
                 inc <-- get_incfilename (c_fileid newc) ;; nrem <-- remaining ;; skip_comments (S nrem) c ;;;
                 uts_loop_ f c n (assoc_push tag (GTI inc (c_line newc) uid off end_offset tag data isb) acc)) s1 = (ROk acc', s') ->
                exists ts R, adv ts s s' /\ acc' = fold_left (fun a t => assoc_push (ti_tag t) t a) R acc /\
                             lines_as (prevl s) ts (flat_map ioffs (map ti_info R)) /\ uchain (ps_seq s) R).
      { intros tI isb off tsg A1 Hin Rg X. cbv zeta in X.
        assert (Hnc : c_fileid (ctx_from_token (tk_text tI) tI) = O) by (cbn; destruct (tok_ok_in s tI I Hin) as (Q & _); exact Q).
        set (newc := ctx_from_token (tk_text tI) tI) in *.
        assert (I1 : Inv s1) by (exact (adv_inv _ _ _ I A1)).
        assert (Hfo1 : first_ok s1) by (exact (first_ok_adv _ _ _ A1 Hfo)).
        apply bind_clean_inv in X; [|cs|intro; destruct isb; cs|exact L2]. destruct X as (uid & s2 & E3 & L3 & E4 & L4).
        assert (Hu : uid = (ps_seq s1 + 1)%N /\ ps_seq s2 = uid /\ adv [] s1 s2).
        { unfold get_next_id in E3. injection E3 as <- <-. split; [reflexivity|]. split; [reflexivity|].
          constructor; [reflexivity | reflexivity | constructor; reflexivity | exact (inv_pos s1 I1)]. }
        destruct Hu as (Hu1 & Hu2 & A2). assert (I2 : Inv s2) by (exact (adv_inv _ _ _ I1 A2)).
        apply bind_clean_inv in E4; [|cs|intro; destruct isb; cs|exact L4]. destruct E4 as (data & s3 & E5 & L5 & E6 & L6).
        destruct (Mi newc isb Hnc s2 _ s3 I2 E5) as (tmd & Amd). assert (I3 : Inv s3) by (exact (adv_inv _ _ _ I2 Amd)).
        assert (Hfo3 : first_ok s3) by (exact (first_ok_adv _ _ _ Amd (first_ok_adv _ _ _ A2 Hfo1))).
        pose proof (smono_unknown_ifdata f newc isb s2 _ s3 E5) as Hs23.
        apply bind_clean_inv in E6; [|destruct isb; cs|intro; cs|exact L6]. destruct E6 as (eo & s4 & E7 & L7 & E8 & L8).
        assert (Hend : exists tse, adv tse s3 s4 /\ (ps_seq s3 <= ps_seq s4)%N /\
                  (ps_after s4 <> [] -> lines_as (prevl s3) tse (if isb then [Some eo; None] else []))).
        { destruct isb.
          - assert (Hs34 : (ps_seq s3 <= ps_seq s4)%N).
            { match type of E7 with ?m s3 = _ => assert (Sm : smono m) by sm end. exact (Sm s3 _ s4 E7). }
            destruct (bind_ok_inv _ _ _ _ _ E7) as (tE & s3a & X1 & E7a).
            destruct (expect_inv newc Hnc TEnd s3 tE s3a I3 X1) as (r3 & Ea3 & HtE & A4).
            assert (I3a : Inv s3a) by (exact (adv_inv _ _ _ I3 A4)).
            destruct (bind_ok_inv _ _ _ _ _ E7a) as (eo' & s3b & G & E7b).
            assert (Hs3b : s3b = s3a) by (exact (glo_inv s3a eo' s3b I3a G)). subst s3b.
            destruct (bind_ok_inv _ _ _ _ _ E7b) as (tI2 & s3c & X2 & E7c).
            destruct (expect_inv newc Hnc TIdentifier s3a tI2 s3c I3a X2) as (r4 & Ea4 & HtI2 & A5).
            destruct (bytes_eqb (tk_text tI2) (tk_text tI)) eqn:Eq; [|destruct (diag_fail_not_ok _ _ _ _ _ _ E7c)].
            injection E7c as <- <-.
            exists [tE; tI2]. split; [exact (adv_trans [tE] [tI2] _ _ _ A4 A5)|]. split; [exact Hs34|]. intros _.
            pose proof (glo_after [] tE s3 s3a I3 Hfo3 A4 ltac:(rewrite Ea4; discriminate)) as G2. rewrite G in G2. injection G2 as ->.
            cbn. repeat split.
          - injection E7 as _ <-. exists []. split; [apply adv_refl, (inv_pos s3 I3)|]. split; [lia | intros _; exact Logic.I]. }
        destruct Hend as (tse & A4 & Hs34 & Re). assert (I4 : Inv s4) by (exact (adv_inv _ _ _ I3 A4)).
        rewrite Hnc, bind_incfile, bind_remaining in E8. rewrite (bind_ok _ _ _ _ _ (skip_comments_none c _ s4 I4)) in E8.
        destruct (moves_uts_loop c Hc n _ s4 _ s' I4 E8) as (tr & Ar).
        assert (Hne4 : ps_after s4 <> []) by (exact (adv_rest_ne _ _ _ Ar Hne)).
        assert (Hne3 : ps_after s3 <> []) by (exact (adv_rest_ne _ _ _ A4 Hne4)).
        assert (Hne1 : ps_after s1 <> []) by (exact (adv_rest_ne _ _ _ A2 (adv_rest_ne _ _ _ Amd Hne3))).
        destruct (IHi newc isb Hnc s2 data s3 I2 (first_ok_adv _ _ _ A2 Hfo1) E5 L5 Hne3) as (tsd & A3 & Rd).
        assert (A14 : adv (tsg ++ tsd ++ tse) s s4).
        { pose proof (adv_trans _ _ _ _ _ (adv_trans _ _ _ _ _ (adv_trans _ _ _ _ _ A1 A2) A3) A4) as Q. rewrite app_nil_r, <- app_assoc in Q. exact Q. }
        destruct (IH _ s4 acc' s' I4 (first_ok_adv _ _ _ A14 Hfo) E8 L8 Hne) as (ts2 & R2 & A5 & -> & RR & UU).
        exists ((tsg ++ tsd ++ tse) ++ ts2), (GTI None (c_line newc) uid off eo (tk_text tI) data isb :: R2).
        assert (Litem : lines_as (prevl s) (tsg ++ tsd ++ tse) (ioffs (ti_info (GTI None (c_line newc) uid off eo (tk_text tI) data isb)))).
        { unfold ioffs. cbn [ti_info gmap item_offs].
          assert (P12 : prevl s2 = prevl s1) by (exact (adv_prevl [] s1 s2 A2)).
          destruct isb.
          - change (Some off :: None :: goffs data ++ [Some eo; None]) with ([Some off; None] ++ goffs data ++ [Some eo; None]).
            apply lines_as_app; [exact (Rg Hne1)|]. rewrite <- (adv_prevl _ _ _ A1). apply lines_as_app; [rewrite <- P12; exact Rd|].
            rewrite <- P12, <- (adv_prevl _ _ _ A3). exact (Re Hne4).
          - pose proof (Re Hne4) as Re'. destruct tse; [|destruct Re']. rewrite app_nil_r.
            change (Some off :: goffs data) with ([Some off] ++ goffs data).
            apply lines_as_app; [exact (Rg Hne1)|]. rewrite <- (adv_prevl _ _ _ A1), <- P12. exact Rd. }
        destruct (lines_compose _ _ _ _ _ _ _ A14 A5 Litem RR) as [Q1 Q2].
        split; [exact Q1|]. split; [reflexivity|]. split; [cbn [map flat_map]; exact Q2|].
        cbn [uchain ti_uid]. split; [lia|]. apply (uchain_weaken R2 _ (ps_seq s4)); [lia | exact UU]. }
      destruct (next_tag_inv c Hc s bc s1 I Eg) as [(tB & tI & r0 & off & Ha & HB & HI & -> & A1)|[(tI & r0 & off & Ha & HI & -> & A1)|(-> & A1)]].
      - apply (Item tI true off [tB; tI] A1); [rewrite Ha; right; left; reflexivity | | exact E2].
        intros _. pose proof (next_tag_block_off c s tB tI r0 off s1 I Hfo Ha HB HI Eg) as Hoff. cbn. rewrite Hoff. repeat split.
      - apply (Item tI false off [tI] A1); [rewrite Ha; left; reflexivity | | exact E2].
        intros Hne1. pose proof (next_tag_keyword_off c s tI r0 off s1 I Hfo Ha HI Eg Hne1) as Hoff. cbn. rewrite Hoff. repeat split.
      - exact (Done A1 E2).
    Qed.

    Lemma unknown_ifdata_lines_step c isb : c_fileid c = O -> ltr (unknown_ifdata (S f) c isb).
    Proof.
      intros Hc s g s' I Hfo E L Hne. rewrite unknown_ifdata_S in E. rewrite bind_remaining in E.
      destruct (bind_ok_inv _ _ _ _ _ E) as (items & s1 & E1 & E2). rewrite Hc, bind_incfile in E2. injection E2 as <- <-.
      destruct (ifd_loop_lines c isb Hc _ [] s items s1 I Hfo E1 L Hne) as (ts & l' & -> & A & R). exists ts. split; [exact A | exact R].
    Qed.

    Lemma unknown_taggedstruct_lines_step c : c_fileid c = O -> ltr (unknown_taggedstruct (S f) c).
    Proof.
      intros Hc s g s' I Hfo E L Hne. rewrite unknown_taggedstruct_S in E. rewrite bind_remaining in E.
      rewrite (bind_ok _ _ _ _ _ (skip_comments_none c _ s I)) in E. rewrite bind_remaining in E.
      destruct (bind_ok_inv _ _ _ _ _ E) as (acc' & s1 & E1 & E2).
      assert (Hg : g = GTaggedStruct acc' /\ s' = s1).
      { unfold peek_token at 1 in E2. unfold bindM at 1 in E2. destruct (ps_after s1) as [|t r]; [injection E2 as <- <-; auto|].
        destruct (ttype_eqb (tk_type t) TBegin); [destruct (diag_fail_not_ok _ _ _ _ _ _ E2) | injection E2 as <- <-; auto]. }
      destruct Hg as [-> ->].
      destruct (uts_loop_lines c Hc _ [] s acc' s1 I Hfo E1 L Hne) as (ts & R & A & -> & RR & U).
      exists ts. split; [exact A|].
      change (goffs (GTaggedStruct (fold_left (fun a t => assoc_push (ti_tag t) t a) R [])))
        with (flat_map item_offs (group_order (flat_map (fun kv => map ti_offs (snd kv)) (regroup R)))).
      rewrite goffs_tagged, (witems_regroup R _ U). exact RR.
    Qed.
  End Level.

  Theorem unknown_ifdata_moves_forward : forall f,
    (forall c isb, c_fileid c = O -> moves (unknown_ifdata f c isb)) /\ (forall c, c_fileid c = O -> moves (unknown_taggedstruct f c)).
  Proof.
    induction f as [|f [Mi Mt]].
    - split; intros; intros s r s' I E; injection E as _ <-; exists []; apply adv_refl, (inv_pos s I).
    - split; [intros c isb Hc; first [exact (moves_unknown_ifdata_S f Mt c isb Hc) | exact (moves_unknown_ifdata_S f Mi Mt c isb Hc)]
             | intros c Hc; first [exact (moves_unknown_taggedstruct_S f Mi c Hc) | exact (moves_unknown_taggedstruct_S f Mi Mt c Hc)]].
  Qed.

  (** every offset the uninterpreted reader stores is the line of its token minus the line of the token in front of it *)
  Theorem unknown_ifdata_offsets_are_line_differences : forall f,
    (forall c isb, c_fileid c = O -> ltr (unknown_ifdata f c isb)) /\ (forall c, c_fileid c = O -> ltr (unknown_taggedstruct f c)).
  Proof.
    induction f as [|f [IHi IHt]].
    - split; intros; intros s g s' I Hfo E L Hne; discriminate.
    - destruct (unknown_ifdata_moves_forward f) as [Mi Mt].
      split; [intros c isb Hc; first [exact (unknown_ifdata_lines_step f IHt Mt c isb Hc) | exact (unknown_ifdata_lines_step f IHi IHt Mi Mt c isb Hc)]
             | intros c Hc; first [exact (unknown_taggedstruct_lines_step f IHi Mi c Hc) | exact (unknown_taggedstruct_lines_step f IHi IHt Mi Mt c Hc)]].
  Qed.
End ULines.
Print Assumptions unknown_ifdata_moves_forward.
Print Assumptions unknown_ifdata_offsets_are_line_differences.
