(** The token cursor under the conditions of the round trip: no comment tokens, one file, lines that do not decrease,
    non-strict mode.  Every primitive of Gram/PState.v that the generic parser calls is characterised by how far it
    moves the cursor ([adv]); nothing else about the state matters to the parser. *)
From Coq Require Import Ascii String List Bool NArith ZArith Lia Sorting.Sorted.
From A2L Require Import Text.Escape Text.IntText Lex.Tokenizer Gram.Spec A2ml.Types Gram.PState.
Import ListNotations.
Local Open Scope N_scope.

Definition tokens_of (s : pstate) : list token := rev (ps_before s) ++ ps_after s.

Definition tok_ok (t : token) : Prop :=
  tk_fileid t = O /\ tk_type t <> TComment /\ tk_text t <> [] /\ 1 <= tk_line t.

Record Inv (s : pstate) : Prop := mkInv {
  inv_pos : ps_pos s = length (ps_before s);
  inv_toks : Forall tok_ok (tokens_of s);
  inv_mono : StronglySorted (fun a b => tk_line a <= tk_line b) (tokens_of s);
  inv_first : exists l, ps_first_line s = Some l /\ 1 <= l;
  inv_kept : ps_kept s = None;
  inv_strict : ps_strict s = false;
  inv_nfiles : (0 < ps_nfiles s)%nat }.

Record static_eq (s s' : pstate) : Prop := mkSE {
  se_first : ps_first_line s' = ps_first_line s;
  se_strict : ps_strict s' = ps_strict s;
  se_ver : ps_ver s' = ps_ver s;
  se_nfiles : ps_nfiles s' = ps_nfiles s;
  se_ftab : ps_ftab s' = ps_ftab s;
  se_kept : ps_kept s' = ps_kept s;
  se_specs : ps_specs s' = ps_specs s;
  se_a2ml : ps_a2ml s' = ps_a2ml s }.

Lemma static_refl s : static_eq s s.
Proof. constructor; reflexivity. Qed.
Lemma static_trans a b c : static_eq a b -> static_eq b c -> static_eq a c.
Proof. intros [] []; constructor; congruence. Qed.

(* [adv ts s s']: s' is s with the cursor moved over the tokens [ts]; log, last position and id counter may differ *)
Record adv (ts : list token) (s s' : pstate) : Prop := mkAdv {
  adv_before : ps_before s' = rev ts ++ ps_before s;
  adv_after : ps_after s = ts ++ ps_after s';
  adv_static : static_eq s s';
  adv_pos : ps_pos s' = length (ps_before s') }.

Lemma adv_refl s : ps_pos s = length (ps_before s) -> adv [] s s.
Proof. intros H. constructor; [reflexivity | reflexivity | apply static_refl | exact H]. Qed.

Lemma adv_trans t1 t2 a b c : adv t1 a b -> adv t2 b c -> adv (t1 ++ t2) a c.
Proof.
  intros [B1 A1 S1 P1] [B2 A2 S2 P2]. constructor.
  - rewrite B2, B1, rev_app_distr, app_assoc. reflexivity.
  - rewrite A1, A2, app_assoc. reflexivity.
  - eapply static_trans; eassumption.
  - exact P2.
Qed.

Lemma adv_tokens ts s s' : adv ts s s' -> tokens_of s' = tokens_of s.
Proof.
  intros [B A _ _]. unfold tokens_of. rewrite B, A, rev_app_distr, rev_involutive, <- app_assoc. reflexivity.
Qed.

Lemma adv_inv ts s s' : Inv s -> adv ts s s' -> Inv s'.
Proof.
  intros [I1 I2 I3 I4 I5 I6 I7] H. pose proof (adv_tokens _ _ _ H) as T. destruct H as [B A [S1 S2 S3 S4 S5 S6 S7 S8] P].
  constructor; try rewrite T; try assumption; try congruence.
  rewrite S1. exact I4.
Qed.

Lemma adv_nil_after s s' : adv [] s s' -> ps_after s' = ps_after s /\ ps_before s' = ps_before s.
Proof. intros [B A _ _]. simpl in *. split; congruence. Qed.

(* ---------- the monad ---------- *)
Lemma bind_ok {A B} (m : M A) (f : A -> M B) s a s' : m s = (ROk a, s') -> bindM m f s = f a s'.
Proof. intros H. unfold bindM. rewrite H. reflexivity. Qed.
Lemma bind_err {A B} (m : M A) (f : A -> M B) s d s' : m s = (RErr d, s') -> bindM m f s = (RErr d, s').
Proof. intros H. unfold bindM. rewrite H. reflexivity. Qed.
Lemma try_ok {A} (m : M A) s a s' : m s = (ROk a, s') -> try m s = (ROk (Some a, None), s').
Proof. intros H. unfold try. rewrite H. reflexivity. Qed.
Lemma try_err {A} (m : M A) s d s' : m s = (RErr d, s') -> try m s = (ROk (None, Some d), s').
Proof. intros H. unfold try. rewrite H. reflexivity. Qed.

(* ---------- primitives ---------- *)
Section Prim.
  Variable c : ctx.
  Hypothesis Hc : c_fileid c = O.

  Lemma mk_diag_fine variant key s : Inv s -> exists d, mk_diag variant c key s = (ROk d, s).
  Proof.
    intros I. unfold mk_diag. rewrite Hc. destruct (Nat.ltb_spec 0 (ps_nfiles s)) as [_|H].
    - eexists. reflexivity.
    - pose proof (inv_nfiles s I). lia.
  Qed.

  Lemma error_or_log_fine d s : Inv s -> exists s', error_or_log d s = (ROk tt, s') /\ adv [] s s'.
  Proof.
    intros I. unfold error_or_log. rewrite (inv_strict s I). eexists. split; [reflexivity|].
    constructor; [reflexivity | reflexivity | constructor; reflexivity | exact (inv_pos s I)].
  Qed.

  Lemma log_warning_fine d s : Inv s -> exists s', log_warning d s = (ROk tt, s') /\ adv [] s s'.
  Proof.
    intros I. eexists. split; [reflexivity|].
    constructor; [reflexivity | reflexivity | constructor; reflexivity | exact (inv_pos s I)].
  Qed.

  Lemma diag_log_fine variant key s : Inv s ->
    exists s', bindM (mk_diag variant c key) error_or_log s = (ROk tt, s') /\ adv [] s s'.
  Proof.
    intros I. destruct (mk_diag_fine variant key s I) as [d Hd]. rewrite (bind_ok _ _ _ _ _ Hd).
    apply error_or_log_fine. exact I.
  Qed.

  Lemma get_token_fine s t r : Inv s -> ps_after s = t :: r ->
    exists s', get_token c s = (ROk t, s') /\ adv [t] s s'.
  Proof.
    intros I H. unfold get_token. rewrite H. eexists. split; [reflexivity|].
    constructor; cbn; [reflexivity | exact H | constructor; reflexivity | rewrite (inv_pos s I); reflexivity].
  Qed.

  Lemma get_token_eof s : Inv s -> ps_after s = [] -> exists d, get_token c s = (RErr d, s).
  Proof.
    intros I H. unfold get_token. rewrite H. unfold eof_diag.
    destruct (mk_diag_fine "UnexpectedEOF" (c_element c) s I) as [d Hd]. exists d.
    rewrite (bind_ok _ _ _ _ _ Hd). reflexivity.
  Qed.

  Lemma tok_ok_after s t r : Inv s -> ps_after s = t :: r -> tok_ok t.
  Proof.
    intros I H. pose proof (inv_toks s I) as F. unfold tokens_of in F. rewrite H in F.
    apply Forall_app in F. destruct F as [_ F]. inversion F; assumption.
  Qed.

  Lemma ttype_eqb_eq a b : ttype_eqb a b = true <-> a = b.
  Proof. destruct a, b; simpl; split; intros H; try reflexivity; try discriminate. Qed.
  Lemma ttype_eqb_neq a b : a <> b -> ttype_eqb a b = false.
  Proof. intros H. destruct (ttype_eqb a b) eqn:E; [apply ttype_eqb_eq in E; contradiction | reflexivity]. Qed.
  Lemma ttype_eqb_refl a : ttype_eqb a a = true.
  Proof. apply ttype_eqb_eq. reflexivity. Qed.

  Lemma expect_loop_fine ty s t r f : Inv s -> ps_after s = t :: r -> tk_type t = ty ->
    exists s', expect_loop (S f) c ty s = (ROk t, s') /\ adv [t] s s'.
  Proof.
    intros I H Ht. destruct (get_token_fine s t r I H) as (s' & G & A). exists s'. split; [|exact A].
    cbn [expect_loop]. rewrite (bind_ok _ _ _ _ _ G).
    destruct (tok_ok_after s t r I H) as (_ & Hnc & _).
    rewrite (ttype_eqb_neq _ _ Hnc). rewrite Ht, ttype_eqb_refl. reflexivity.
  Qed.

  Lemma expect_fine ty s t r : Inv s -> ps_after s = t :: r -> tk_type t = ty ->
    exists s', expect_token c ty s = (ROk t, s') /\ adv [t] s s'.
  Proof. intros I H Ht. unfold expect_token. apply (expect_loop_fine ty s t r _ I H Ht). Qed.

  Lemma expect_wrong ty s t r : Inv s -> ps_after s = t :: r -> tk_type t <> ty ->
    exists d s', expect_token c ty s = (RErr d, s') /\ adv [t] s s'.
  Proof.
    intros I H Ht. destruct (get_token_fine s t r I H) as (s' & G & A).
    unfold expect_token. cbn [expect_loop]. rewrite (bind_ok _ _ _ _ _ G).
    destruct (tok_ok_after s t r I H) as (_ & Hnc & _).
    rewrite (ttype_eqb_neq _ _ Hnc), (ttype_eqb_neq _ _ Ht).
    destruct (mk_diag_fine "UnexpectedTokenType" (tk_text t) s' (adv_inv _ _ _ I A)) as [d Hd].
    exists d, s'. split; [|exact A]. rewrite (bind_ok _ _ _ _ _ Hd). reflexivity.
  Qed.

  Lemma expect_eof ty s : Inv s -> ps_after s = [] -> exists d, expect_token c ty s = (RErr d, s).
  Proof.
    intros I H. destruct (get_token_eof s I H) as [d G]. exists d.
    unfold expect_token. cbn [expect_loop]. apply bind_err. exact G.
  Qed.
End Prim.

(* ---------- get_line_offset never panics ---------- *)
Lemma sorted_rev_cons_app (b : list token) cur p a :
  StronglySorted (fun x y => tk_line x <= tk_line y) (rev (cur :: p :: b) ++ a) -> tk_line p <= tk_line cur.
Proof.
  cbn [rev]. rewrite <- !app_assoc. cbn [app]. intros H.
  induction (rev b) as [|x l IH]; cbn [app] in H.
  - inversion H as [|? ? _ F]; subst. inversion F; assumption.
  - inversion H; subst. apply IH. assumption.
Qed.

Lemma glo_fine s : Inv s -> exists off, get_line_offset s = (ROk off, s).
Proof.
  intros I. unfold get_line_offset.
  destruct (inv_first s I) as (l & Hl & Hl1).
  assert (Fallback : exists off,
            match ps_first_line s with
            | Some l => if 1 <=? l then (ROk (l - 1), s) else (RPanic "parser.rs: get_line_offset: tokens[0].line - 1", s)
            | None => (@RPanic N "parser.rs: get_line_offset: tokens[0]", s)
            end = (ROk off, s)).
  { rewrite Hl. destruct (N.leb_spec 1 l); [eexists; reflexivity | lia]. }
  destruct (ps_before s) as [|cur [|p b]] eqn:Eb; try exact Fallback.
  destruct (ps_after s) as [|nx a] eqn:Ea; try exact Fallback.
  rewrite (inv_kept s I). cbn [find_prev opt_nat_eqb].
  assert (Tp : tok_ok p).
  { pose proof (inv_toks s I) as F. unfold tokens_of in F. rewrite Eb in F. apply Forall_app in F. destruct F as [F _].
    apply Forall_rev in F. rewrite rev_involutive in F. inversion F as [|? ? _ F2]; subst. inversion F2; assumption. }
  assert (Tc : tok_ok cur).
  { pose proof (inv_toks s I) as F. unfold tokens_of in F. rewrite Eb in F. apply Forall_app in F. destruct F as [F _].
    apply Forall_rev in F. rewrite rev_involutive in F. inversion F; assumption. }
  destruct Tp as (Fp & Cp & _). destruct Tc as (Fc & _).
  rewrite (ttype_eqb_neq _ _ Cp). rewrite andb_false_r. cbn [andb negb].
  rewrite (ttype_eqb_neq _ _ Cp). cbn [andb].
  rewrite Fp, Fc. cbn [Nat.eqb].
  pose proof (inv_mono s I) as Mo. unfold tokens_of in Mo. rewrite Eb, Ea in Mo.
  apply sorted_rev_cons_app in Mo. destruct (N.leb_spec (tk_line p) (tk_line cur)); [eexists; reflexivity | lia].
Qed.

(* ---------- restoring an earlier position ---------- *)
Lemma move_back_rev ts : forall b a, move_back (length ts) (rev ts ++ b) a = (b, ts ++ a).
Proof.
  induction ts as [|t r IH] using rev_ind; intros b a; [reflexivity|].
  rewrite rev_app_distr, app_length. cbn [rev app length]. rewrite Nat.add_1_r. cbn [move_back].
  rewrite IH, <- app_assoc. reflexivity.
Qed.

Lemma set_tokenpos_back ts s s1 : adv ts s s1 -> ps_pos s = length (ps_before s) ->
  exists s2, set_tokenpos (ps_pos s) s1 = (ROk tt, s2) /\ adv [] s s2.
Proof.
  intros [B A St P] Hp. unfold set_tokenpos.
  assert (Hpos : ps_pos s1 = (length ts + ps_pos s)%nat).
  { rewrite P, B, app_length, rev_length, Hp. reflexivity. }
  rewrite Hpos. destruct (Nat.leb_spec (ps_pos s) (length ts + ps_pos s)) as [_|H]; [|lia].
  replace (length ts + ps_pos s - ps_pos s)%nat with (length ts) by lia.
  rewrite B, move_back_rev. eexists. split; [reflexivity|].
  constructor; cbn.
  - reflexivity.
  - exact A.
  - destruct St. constructor; assumption.
  - reflexivity.
Qed.
