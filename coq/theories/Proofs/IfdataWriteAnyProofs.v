(** C05 / C18, the writer of generic IF_DATA on EVERY value the two readers can return - not only on values that conform to a
    definition.  [wfw] is the shape of such values: no include attribution on tagged items, the content of a tagged item is a block or
    a struct, no block inside a list.  For these values the text of GenericIfData::write is white space and exactly the tokens
    [ftoks], and the white space in front of every token holds exactly the stored offset in line breaks ([goffs]) when the token
    texts are well-formed.  Same proof as Proofs/IfdataWriteLinesProofs.v with the structural predicate in place of conformance. *)
From Coq Require Import Ascii String List Bool Arith NArith ZArith Lia Sorting.Sorted.
From A2L Require Import Base.StableSort Text.Escape Text.IntText Lex.Tokenizer Gram.Spec A2ml.Types Gram.PState Gram.Parser Gram.Writer Gram.TokWriter
  Proofs.LayoutProofs Proofs.LexUnitsProofs Proofs.WriterFlagProofs Proofs.WriterUnitsProofs Proofs.CursorProofs Proofs.RoundTripProofs Proofs.TerminationProofs
  Proofs.GroupOrderProofs Proofs.IfdataRoundTripProofs Proofs.IfdataFollowProofs Proofs.IfdataTextProofs Proofs.IfdataTraceProofs Proofs.IfdataLinesProofs
  Proofs.IfdataWriteLinesProofs.
Import ListNotations.

Inductive wfw : gifd -> Prop :=
| wf_none : wfw GNone
| wf_int v o z h : wfw (GInt v o z h)
| wf_float o b : wfw (GFloat o b)
| wf_double o b : wfw (GDouble o b)
| wf_string o s : wfw (GString o s)
| wf_enum o s : wfw (GEnumItem o s)
| wf_array l : Forall wfw l -> wfw (GArray l)
| wf_seq l : Forall wfw l -> wfw (GSequence l)
| wf_struct i ln l : Forall wfw l -> wfw (GStruct i ln l)
| wf_ts tg : Forall (fun kv : bytes * list gtitem => Forall wfi (snd kv)) tg -> wfw (GTaggedStruct tg)
| wf_tu tg : Forall (fun kv : bytes * list gtitem => Forall wfi (snd kv)) tg -> wfw (GTaggedUnion tg)
with wfi : gtitem -> Prop :=
| wf_item line uid so eo tag data isb : wfd data -> wfi (GTI None line uid so eo tag data isb)
with wfd : gifd -> Prop :=
| wfd_struct i ln l : Forall wfw l -> wfd (GStruct i ln l)
| wfd_block i ln l : Forall wfw l -> wfd (GBlock i ln l).

Definition witem (i : ginfo gifd) : Prop :=
  match i with GTag _ None _ _ _ _ _ data _ => wfd data | _ => False end.

Lemma witems_wf tg : Forall (fun kv : bytes * list gtitem => Forall wfi (snd kv)) tg -> Forall witem (witems tg).
Proof.
  intros H. apply Forall_forall. intros i Hi. unfold witems in Hi. apply group_order_in in Hi. apply in_flat_map in Hi.
  destruct Hi as (kv & Hkv & Hi). apply in_map_iff in Hi. destruct Hi as (t & <- & Ht).
  rewrite Forall_forall in H. specialize (H kv Hkv). rewrite Forall_forall in H. destruct (H t Ht). cbn [ti_info witem]. assumption.
Qed.

Section Any.
  Variable ftab : list fentry.
  Variable names : list bytes.
  Notation ftoks := (ftoks ftab).
  Notation itoks := (itoks ftab).
  Notation ext := (ext).
  Notation wunits := (wunits ftab).

  Section WI.
    Variable f : nat.
    Variable indent : nat.
    Notation wi := (wi ftab names f indent).
    Notation wtext := (wtext ftab names f indent).
    Hypothesis IHf : forall g ind, wfd g -> gdepth g <= f -> wunits (gifd_write ftab names f g ind) g.

    Lemma emit_any : forall its, Forall witem its -> Forall (fun i => info_depth i <= f) its ->
      forall o, ext (flat_map itoks its) (flat_map ioffs its) o (emit_group names indent (map (gmap wtext) its) [] o).
    Proof.
      induction its as [|i its IH]; intros Hw Hd o; [apply ext_nil|].
      inversion Hw as [|? ? W1 W2]; subst. inversion Hd as [|? ? D1 D2]; subst.
      destruct i as [tag inc uid line so eo isb data pos|]; [|destruct W1]. destruct inc; [destruct W1|]. cbn [witem] in W1. cbn [info_depth] in D1.
      destruct (IHf data (S indent) W1 D1) as (usd & od & Et & Ed & Md & Wd & Nd).
      assert (Etext : wtext data = render usd) by (unfold IfdataTextProofs.wtext; rewrite Et; apply (finish_extends usd _ Ed)).
      cbn [map gmap emit_group flat_map]. rewrite !Etext.
      unfold IfdataFollowProofs.itoks at 1. unfold ioffs at 1. cbn [gmap item_toks item_offs]. rewrite <- Md.
      set (sp := [" "%char]).
      assert (Hsp : ws_text sp) by (split; [discriminate | repeat constructor]).
      destruct isb; cbv iota.
      - destruct (add_ws_units indent so o) as (ws1 & Hw1 & E1 & Hn1).
        set (o1 := track_line_comment (render usd) (push (bytes_of "/begin " ++ tag ++ render usd) (add_whitespace indent so o))).
        destruct (add_ws_units indent eo o1) as (ws2 & Hw2 & E2 & Hn2).
        set (o2 := push (bytes_of "/end " ++ tag) (add_whitespace indent eo o1)).
        destruct (IH W2 D2 o2) as (usr & Er & Mr & Wr & Nr).
        exists ([(ws1, (TBegin, begin_text)); (sp, (TIdentifier, tag))] ++ usd ++ [(ws2, (TEnd, end_text)); (sp, (TIdentifier, tag))] ++ usr).
        split; [|split; [|split]].
        + unfold extends in *. rewrite Er. unfold o2. rewrite push_fst, E2. unfold o1. rewrite track_fst, push_fst, E1.
          rewrite !render_app. cbn [render flat_map fst snd]. rewrite !app_nil_r.
          rewrite !rev_app_distr. rewrite <- !app_assoc. reflexivity.
        + rewrite !usnd_app, !usnd_cons, ?usnd_nil, Mr. cbn [fst snd app]. rewrite <- app_assoc. reflexivity.
        + apply Forall_app. split; [constructor; [exact Hw1 | constructor; [exact Hsp | constructor]]|]. apply Forall_app. split; [exact Wd|].
          apply Forall_app. split; [constructor; [exact Hw2 | constructor; [exact Hsp | constructor]] | exact Wr].
        + intros Hs Ht. rewrite !usnd_app in Ht. apply Forall_app in Ht. destruct Ht as [_ Ht]. apply Forall_app in Ht. destruct Ht as [Htk Ht].
          apply Forall_app in Ht. destruct Ht as [_ Htr].
          destruct (Hn1 Hs) as [C1 F1]. destruct (Nd eq_refl Htk) as [_ Mnk].
          assert (Fo1 : snd o1 = false).
          { unfold o1. apply track_clean'; [rewrite push_snd; exact F1 | apply units_all_ok'; assumption]. }
          destruct (Hn2 Fo1) as [C2 F2].
          assert (Fo2 : snd o2 = false) by (unfold o2; rewrite push_snd; exact F2).
          destruct (Nr Fo2 Htr) as [Ffin Mnr]. split; [exact Ffin|].
          assert (Hsp0 : forall sh, nlu (sp, sh) = 0%N) by reflexivity.
          assert (H1 : forall sh, nlu (ws1, sh) = so) by (intros; unfold nlu; cbn [fst]; exact C1).
          assert (H2' : forall sh, nlu (ws2, sh) = eo) by (intros; unfold nlu; cbn [fst]; exact C2).
          rewrite !map_app. cbn [map app]. rewrite !H1, !H2', !Hsp0, Mnk. cbn [map offv app]. rewrite !map_app. cbn [map offv app].
          rewrite <- app_assoc. cbn [app]. do 2 f_equal. apply f_equal. do 2 f_equal. exact Mnr.
      - destruct (add_ws_units indent so o) as (ws1 & Hw1 & E1 & Hn1).
        set (o1 := track_line_comment (render usd) (push ([] ++ tag ++ render usd) (add_whitespace indent so o))).
        destruct (IH W2 D2 o1) as (usr & Er & Mr & Wr & Nr).
        exists ([(ws1, (TIdentifier, tag))] ++ usd ++ usr).
        split; [|split; [|split]].
        + unfold extends in *. rewrite Er. unfold o1. rewrite track_fst, push_fst, E1.
          rewrite !render_app. cbn [render flat_map fst snd app]. rewrite !app_nil_r.
          rewrite !rev_app_distr. rewrite <- !app_assoc. reflexivity.
        + rewrite !usnd_app, !usnd_cons, ?usnd_nil, Mr. reflexivity.
        + apply Forall_app. split; [constructor; [exact Hw1 | constructor]|]. apply Forall_app. split; assumption.
        + intros Hs Ht. rewrite !usnd_app in Ht. apply Forall_app in Ht. destruct Ht as [_ Ht]. apply Forall_app in Ht. destruct Ht as [Htk Htr].
          destruct (Hn1 Hs) as [C1 F1]. destruct (Nd eq_refl Htk) as [_ Mnk].
          assert (Fo1 : snd o1 = false).
          { unfold o1. apply track_clean'; [rewrite push_snd; exact F1 | apply units_all_ok'; assumption]. }
          destruct (Nr Fo1 Htr) as [Ffin Mnr]. split; [exact Ffin|].
          assert (H1 : forall sh, nlu (ws1, sh) = so) by (intros; unfold nlu; cbn [fst]; exact C1).
          rewrite !map_app. cbn [map app]. rewrite !H1, Mnk. cbn [map offv app]. rewrite ?map_app. f_equal. apply f_equal. exact Mnr.
    Qed.

    Lemma list_any n : (forall g o, wfw g -> gdepth g <= n -> ext (ftoks g) (goffs g) o (wi n g o)) ->
      forall l, Forall wfw l -> Forall (fun g => gdepth g <= n) l ->
      forall o, ext (flat_map ftoks l) (flat_map goffs l) o (fold_left (fun acc it => wi n it acc) l o).
    Proof.
      intros IHn. induction l as [|g gs IH]; intros Hw Hd o; [apply ext_nil|].
      inversion Hw; subst. inversion Hd; subst. cbn [flat_map fold_left]. eapply ext_app; [apply IHn; assumption | apply IH; assumption].
    Qed.

    Lemma wi_any : forall n g o, n <= S f -> wfw g -> gdepth g <= n -> ext (ftoks g) (goffs g) o (wi n g o).
    Proof.
      induction n as [|n IH]; intros g o Hn Hw Hd; [pose proof (gdepth_pos g); lia|].
      assert (IHn : forall g o, wfw g -> gdepth g <= n -> ext (ftoks g) (goffs g) o (wi n g o))
        by (intros; apply IH; [lia | assumption | assumption]).
      destruct Hw as [|v o0 z h|o0 b|o0 b|o0 s|o0 s|l Hl|l Hl|i ln l Hl|tg Htg|tg Htg];
        cbn [IfdataTextProofs.wi]; try (cbn [IfdataFollowProofs.ftoks goffs]; apply ext_token).
      - apply ext_nil.
      - cbn [gdepth IfdataFollowProofs.ftoks goffs] in *. exact (list_any n IHn l Hl (list_depths l n Hd) o).
      - cbn [gdepth IfdataFollowProofs.ftoks goffs] in *. exact (list_any n IHn l Hl (list_depths l n Hd) o).
      - cbn [gdepth IfdataFollowProofs.ftoks goffs] in *. exact (list_any n IHn l Hl (list_depths l n Hd) o).
      - change (IfdataFollowProofs.ftoks ftab (GTaggedStruct tg)) with (flat_map item_toks (group_order (flat_map (fun kv => map (ti_toks ftab) (snd kv)) tg))).
        change (goffs (GTaggedStruct tg)) with (flat_map item_offs (group_order (flat_map (fun kv => map ti_offs (snd kv)) tg))).
        rewrite ftoks_tagged, goffs_tagged. unfold add_group. rewrite (group_payload ftab names f indent), group_order_map.
        apply (emit_any (witems tg) (witems_wf tg Htg)).
        apply Forall_forall. intros i Hi. pose proof (witems_depth tg i Hi). lia.
      - change (IfdataFollowProofs.ftoks ftab (GTaggedUnion tg)) with (flat_map item_toks (group_order (flat_map (fun kv => map (ti_toks ftab) (snd kv)) tg))).
        change (goffs (GTaggedUnion tg)) with (flat_map item_offs (group_order (flat_map (fun kv => map ti_offs (snd kv)) tg))).
        rewrite ftoks_tagged, goffs_tagged. unfold add_group. rewrite (group_payload ftab names f indent), group_order_map.
        apply (emit_any (witems tg) (witems_wf tg Htg)).
        apply Forall_forall. intros i Hi. pose proof (witems_depth tg i Hi). cbn [gdepth] in *. lia.
    Qed.
  End WI.

  (** for every value of that shape: the text is white space and exactly its tokens, with the stored offsets as line breaks *)
  Theorem gifd_write_any : forall f g indent, wfd g \/ wfw g -> gdepth g <= f -> wunits (gifd_write ftab names f g indent) g.
  Proof.
    induction f as [|f IH]; intros g indent Hw Hd; [pose proof (gdepth_pos g); lia|].
    rewrite gifd_write_eq.
    assert (IHd : forall g ind, wfd g -> gdepth g <= f -> wunits (gifd_write ftab names f g ind) g) by (intros; apply IH; [left|]; assumption).
    assert (W : forall n g o, n <= S f -> wfw g -> gdepth g <= n -> ext (ftoks g) (goffs g) o (wi ftab names f indent n g o))
      by (intros; apply (wi_any f indent IHd); assumption).
    assert (Fin : forall o, ext (ftoks g) (goffs g) empty_out o -> wunits (finish o) g).
    { intros o (us & E & M & Wk & Nk). exists us, o. auto. }
    assert (Items : forall l, Forall wfw l -> S (fold_right (fun x m => Nat.max (gdepth x) m) 0 l) <= S f ->
              ext (flat_map ftoks l) (flat_map goffs l) empty_out (fold_left (fun acc it => wi ftab names f indent (S f) it acc) l empty_out)).
    { intros l Hl Hdl. apply (list_any f indent (S f) (fun g o Hg Dg => W (S f) g o (le_n _) Hg Dg) l Hl).
      apply Forall_forall. intros x Hx. pose proof (fold_max_le gdepth l x Hx). lia. }
    destruct Hw as [Hw|Hw].
    - destruct Hw as [i ln l Hl|i ln l Hl]; apply Fin; cbn [gdepth IfdataFollowProofs.ftoks goffs] in *; exact (Items l Hl Hd).
    - destruct Hw as [|v o0 z h|o0 b|o0 b|o0 s|o0 s|l Hl|l Hl|i ln l Hl|tg Htg|tg Htg].
      all: try (apply Fin; apply (W (S f)); [apply le_n | constructor; assumption | exact Hd]).
      all: try (apply Fin; apply (W (S f)); [apply le_n | constructor | exact Hd]).
      apply Fin. cbn [gdepth IfdataFollowProofs.ftoks goffs] in *. exact (Items l Hl Hd).
  Qed.

  Corollary gifd_write_any_line_breaks f g indent : wfd g \/ wfw g -> gdepth g <= f -> Forall token_text (ftoks g) ->
    exists us, gifd_write ftab names f g indent = render us /\ usnd us = ftoks g /\ Forall ws_ok us /\ map nlu us = map offv (goffs g).
  Proof.
    intros Hw Hd Ht. destruct (gifd_write_any f g indent Hw Hd) as (us & o' & Et & E & M & W & Nn).
    exists us. split; [rewrite Et; apply (finish_extends us _ E)|]. split; [exact M|]. split; [exact W|].
    destruct (Nn eq_refl ltac:(rewrite M; exact Ht)) as [_ Q]. exact Q.
  Qed.
End Any.
Print Assumptions gifd_write_any.
