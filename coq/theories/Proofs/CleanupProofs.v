(** Proofs about the cleanup model (C10): objects are never touched, and the COMPU_METHOD / conversion table /
    UNIT / RECORD_LAYOUT pass is safe (whatever is still referenced stays) and complete (whatever stays is
    referenced). *)
From Coq Require Import String List NArith Bool Ascii Lia.
From A2L Require Import Base.ListX Text.Escape Lex.Tokenizer Lib.Merge Lib.Cleanup Proofs.MergeProofs.
Import ListNotations.

Lemma cleanup_keeps_objects m : m_objs (cleanup m) = m_objs m.
Proof. reflexivity. Qed.
Lemma cleanup_keeps_use_slots m :
  m_conv_ro (cleanup m) = m_conv_ro m /\ m_rl_uses (cleanup m) = m_rl_uses m /\ m_grp_uses (cleanup m) = m_grp_uses m /\
  length (m_conv (cleanup m)) = length (m_conv m) /\ length (m_obj_funcs (cleanup m)) = length (m_obj_funcs m).
Proof.
  repeat split; simpl; unfold cleanup_compu_methods, cleanup_functions; simpl; rewrite map_length; reflexivity.
Qed.

(* ---------- helpers on membership ---------- *)
Lemma mem_filter_names {A} (nm : A -> name) (p : A -> bool) l x :
  In x (map nm (filter p l)) -> In x (map nm l).
Proof.
  intros H. apply in_map_iff in H. destruct H as (a & <- & Ha). apply filter_In in Ha. apply in_map. tauto.
Qed.

(* ---------- COMPU_METHODs ---------- *)
Lemma ac_cms_names m : cm_names (ac_cms (cleanup_compu_methods m)) =
  cm_names (filter (fun c => mem (cm_nm c) (map (fix_conv (m_cms m)) (m_conv m) ++ m_conv_ro m)) (m_cms m)).
Proof. unfold cleanup_compu_methods, cm_names; simpl. rewrite map_map. reflexivity. Qed.

(** after cleanup every conversion field names a COMPU_METHOD that is still there, or NO_COMPU_METHOD *)
Theorem conversions_resolve_after m c : In c (ac_conv (cleanup_compu_methods m)) ->
  c = NO_CM \/ In c (cm_names (ac_cms (cleanup_compu_methods m))).
Proof.
  intros H. rewrite ac_cms_names. unfold cleanup_compu_methods in H; simpl in H.
  pose proof H as Hin. apply in_map_iff in H. destruct H as (c0 & <- & Hc0). unfold fix_conv in *.
  destruct (mem c0 (cm_names (m_cms m))) eqn:E; [|left; reflexivity]. right.
  apply mem_In in E. unfold cm_names in *. apply in_map_iff in E. destruct E as (cmx & Hn & Hcm).
  apply in_map_iff. exists cmx. split; [exact Hn|]. apply filter_In. split; [exact Hcm|].
  apply mem_In. apply in_or_app; left. rewrite Hn. exact Hin.
Qed.

(** a COMPU_METHOD named by an OVERWRITE / CONVERSION stays *)
Theorem overwrite_conversions_stay m c : In c (m_conv_ro m) -> In c (cm_names (m_cms m)) ->
  In c (cm_names (ac_cms (cleanup_compu_methods m))).
Proof.
  intros H Hd. rewrite ac_cms_names. unfold cm_names in *. apply in_map_iff in Hd. destruct Hd as (cmx & Hn & Hcm).
  apply in_map_iff. exists cmx. split; [exact Hn|]. apply filter_In. split; [exact Hcm|].
  apply mem_In. apply in_or_app; right. rewrite Hn. exact H.
Qed.

(** only COMPU_METHODs that nothing names are removed, and every one that nothing names is removed *)
Theorem compu_method_removed_iff_unused m c : In c (m_cms m) ->
  (In (cm_nm c) (cm_names (ac_cms (cleanup_compu_methods m))) <->
   In (cm_nm c) (ac_conv (cleanup_compu_methods m) ++ m_conv_ro m)).
Proof.
  intros Hc. rewrite ac_cms_names. unfold cleanup_compu_methods; simpl. split.
  - intros H. unfold cm_names in H. apply in_map_iff in H. destruct H as (c' & Hn & Hf).
    apply filter_In in Hf. destruct Hf as [_ Hm]. apply mem_In in Hm. rewrite Hn in Hm. exact Hm.
  - intros H. unfold cm_names. apply in_map_iff. exists c. split; [reflexivity|].
    apply filter_In. split; [exact Hc | apply mem_In; exact H].
Qed.

(* ---------- conversion tables ---------- *)
Definition tabs_after m := map snd (ac_tabs (cleanup_compu_methods m)).

(** a table named by COMPU_TAB_REF or STATUS_STRING_REF of a COMPU_METHOD that stays, stays *)
Theorem tables_of_remaining_methods_stay m c t :
  In c (ac_cms (cleanup_compu_methods m)) -> (cm_tab c = Some t \/ cm_ssr c = Some t) ->
  In t (map snd (m_tabs m)) -> In t (tabs_after m).
Proof.
  unfold tabs_after, cleanup_compu_methods; simpl. intros Hc Ht Hd.
  apply in_map_iff in Hc. destruct Hc as (c0 & <- & Hc0). simpl in Ht.
  apply in_map_iff in Hd. destruct Hd as ([k t'] & Hs & Htab). simpl in Hs; subst t'.
  apply in_map_iff. exists (k, t). split; [reflexivity|]. apply filter_In. split; [exact Htab|]. simpl.
  apply mem_In. apply in_flat_map. exists c0. split; [exact Hc0|]. apply in_or_app.
  destruct Ht as [Ht|Ht].
  - left. destruct (cm_tab c0) as [t0|]; [|discriminate].
    destruct (mem t0 _); inversion Ht; subst. left; reflexivity.
  - right. rewrite Ht. left; reflexivity.
Qed.

(** and a COMPU_TAB_REF that is left after cleanup names a table that is there *)
Theorem compu_tab_refs_resolve_after m c t :
  In c (ac_cms (cleanup_compu_methods m)) -> cm_tab c = Some t -> In t (tabs_after m).
Proof.
  unfold tabs_after, cleanup_compu_methods; simpl. intros Hc Ht.
  apply in_map_iff in Hc. destruct Hc as (c0 & <- & Hc0). simpl in Ht.
  destruct (cm_tab c0) as [t0|]; [|discriminate].
  match type of Ht with (if mem t0 ?l then _ else _) = _ => destruct (mem t0 l) eqn:E end; inversion Ht; subst.
  apply mem_In in E. exact E.
Qed.

(** every table that stays is named by a COMPU_METHOD that stays *)
Theorem remaining_tables_are_used m t : In t (tabs_after m) ->
  exists c, In c (ac_cms (cleanup_compu_methods m)) /\ (cm_tab c = Some t \/ cm_ssr c = Some t).
Proof.
  unfold tabs_after. intros H. pose proof H as Hafter. unfold cleanup_compu_methods in H; simpl in H.
  apply in_map_iff in H. destruct H as ([k t'] & Hs & Hf). simpl in Hs; subst t'.
  apply filter_In in Hf. destruct Hf as [_ Hm]. simpl in Hm. apply mem_In in Hm.
  apply in_flat_map in Hm. destruct Hm as (c0 & Hc0 & Hin).
  set (cms := filter (fun c => mem (cm_nm c) (map (fix_conv (m_cms m)) (m_conv m) ++ m_conv_ro m)) (m_cms m)) in *.
  unfold cleanup_compu_methods; simpl. fold cms.
  eexists. split; [apply in_map; exact Hc0|]. simpl.
  apply in_app_or in Hin. destruct Hin as [Hin|Hin].
  - left. destruct (cm_tab c0) as [t0|]; simpl in Hin; [|destruct Hin]. destruct Hin as [->|[]].
    unfold tabs_after, cleanup_compu_methods in Hafter; simpl in Hafter. fold cms in Hafter.
    apply mem_In in Hafter. rewrite Hafter. reflexivity.
  - right. destruct (cm_ssr c0) as [t0|]; simpl in Hin; [|destruct Hin]. destruct Hin as [->|[]]. reflexivity.
Qed.

(* ---------- RECORD_LAYOUTs ---------- *)
Theorem record_layout_kept_iff_used m r : In r (m_rls m) ->
  (In r (cleanup_record_layouts m) <-> In r (m_rl_uses m)).
Proof.
  intros Hr. unfold cleanup_record_layouts. rewrite filter_In, mem_In. tauto.
Qed.

(* ---------- UNITs ---------- *)
Lemma unit_closure_incl fuel units used x : In x used -> In x (unit_closure fuel units used).
Proof.
  revert used; induction fuel as [|k IH]; intros used H; simpl; [exact H|].
  destruct (flat_map _ units); [exact H|]. apply IH. apply in_or_app; left; exact H.
Qed.

(** a UNIT named by the REF_UNIT of a COMPU_METHOD that stays, stays *)
Theorem units_of_remaining_methods_stay m c u :
  In c (ac_cms (cleanup_compu_methods m)) -> cm_unit c = Some u -> In u (map u_nm (ac_units (cleanup_compu_methods m))).
Proof.
  unfold cleanup_compu_methods; simpl. intros Hc Hu.
  apply in_map_iff in Hc. destruct Hc as (c0 & <- & Hc0). simpl in Hu.
  destruct (cm_unit c0) as [u0|]; [|discriminate].
  match type of Hu with (if mem u0 ?l then _ else _) = _ => destruct (mem u0 l) eqn:E end; inversion Hu; subst.
  apply mem_In in E. exact E.
Qed.

(* the REF_UNIT closure reaches a fixpoint within its fuel *)
Definition pending (units : list cunit) (used : list name) : list cunit :=
  filter (fun u => match u_ref u with Some r => negb (mem r used) | None => false end) units.
Definition more_of (units : list cunit) (used : list name) : list name :=
  flat_map (fun u => if mem (u_nm u) used then
                       match u_ref u with Some r => if mem r used then [] else [r] | None => [] end
                     else []) units.

Lemma filter_length_le {A} (p q : A -> bool) l : (forall x, In x l -> p x = true -> q x = true) ->
  length (filter p l) <= length (filter q l).
Proof.
  induction l as [|x l IH]; simpl; intros H; [lia|].
  assert (IH' : length (filter p l) <= length (filter q l)) by (apply IH; intros; apply H; auto).
  destruct (p x) eqn:Ep.
  - rewrite (H x (or_introl eq_refl) Ep). simpl. lia.
  - destruct (q x); simpl; lia.
Qed.
Lemma filter_length_lt {A} (p q : A -> bool) l y : (forall x, In x l -> p x = true -> q x = true) ->
  In y l -> p y = false -> q y = true -> length (filter p l) < length (filter q l).
Proof.
  induction l as [|x l IH]; simpl; intros H Hy Hp Hq; [tauto|].
  destruct Hy as [->|Hy].
  - rewrite Hp, Hq. simpl.
    assert (length (filter p l) <= length (filter q l)) by (apply filter_length_le; intros; apply H; auto). lia.
  - assert (IH' : length (filter p l) < length (filter q l)) by (apply IH; auto).
    destruct (p x) eqn:Ep.
    + rewrite (H x (or_introl eq_refl) Ep). simpl. lia.
    + destruct (q x); simpl; lia.
Qed.

Lemma mem_app x a b : mem x (a ++ b) = mem x a || mem x b.
Proof.
  destruct (mem x (a ++ b)) eqn:E.
  - apply mem_In in E. apply in_app_or in E. symmetry. apply orb_true_iff.
    destruct E as [E|E]; apply mem_In in E; auto.
  - symmetry. apply orb_false_iff. split.
    + destruct (mem x a) eqn:Ea; [|reflexivity]. apply mem_In in Ea.
      assert (mem x (a ++ b) = true) by (apply mem_In; apply in_or_app; auto). congruence.
    + destruct (mem x b) eqn:Eb; [|reflexivity]. apply mem_In in Eb.
      assert (mem x (a ++ b) = true) by (apply mem_In; apply in_or_app; auto). congruence.
Qed.

Lemma more_decreases units used r rest : more_of units used = r :: rest ->
  length (pending units (used ++ more_of units used)) < length (pending units used).
Proof.
  intros Hm.
  assert (Hr : In r (more_of units used)) by (rewrite Hm; left; reflexivity).
  unfold more_of in Hr. apply in_flat_map in Hr. destruct Hr as (u & Hu & Hr).
  destruct (mem (u_nm u) used); [|destruct Hr].
  destruct (u_ref u) as [r0|] eqn:Er; [|destruct Hr].
  destruct (mem r0 used) eqn:Em; [destruct Hr|]. destruct Hr as [->|[]].
  unfold pending. apply filter_length_lt with (y := u).
  - intros x _ Hx. destruct (u_ref x) as [rx|]; [|discriminate].
    rewrite mem_app in Hx. apply negb_true_iff in Hx. apply orb_false_iff in Hx. destruct Hx as [Hx _].
    rewrite Hx. reflexivity.
  - exact Hu.
  - rewrite Er. rewrite mem_app. apply negb_false_iff. apply orb_true_iff. right.
    apply mem_In. rewrite Hm. left; reflexivity.
  - rewrite Er, Em. reflexivity.
Qed.

Definition closed_under_ref (units : list cunit) (used : list name) : Prop :=
  forall u r, In u units -> mem (u_nm u) used = true -> u_ref u = Some r -> mem r used = true.

Lemma more_nil_closed units used : more_of units used = [] -> closed_under_ref units used.
Proof.
  intros Hm u r Hu Hn Hr. destruct (mem r used) eqn:E; [reflexivity|]. exfalso.
  assert (In r (more_of units used)).
  { unfold more_of. apply in_flat_map. exists u. split; [exact Hu|]. rewrite Hn, Hr, E. left; reflexivity. }
  rewrite Hm in H. destruct H.
Qed.

Lemma unit_closure_closed units : forall fuel used, length (pending units used) < fuel ->
  closed_under_ref units (unit_closure fuel units used).
Proof.
  induction fuel as [|k IH]; intros used Hf; [lia|]. simpl. fold (more_of units used).
  destruct (more_of units used) as [|r rest] eqn:Hm; [apply more_nil_closed; exact Hm|].
  rewrite <- Hm. apply IH. pose proof (more_decreases units used r rest Hm). lia.
Qed.

Lemma pending_le units used : length (pending units used) <= length units.
Proof.
  unfold pending. generalize (fun u : cunit => match u_ref u with Some r => negb (mem r used) | None => false end).
  intros p. induction units as [|x l IH]; simpl; [lia|]. destruct (p x); simpl; lia.
Qed.

(** a UNIT named by the REF_UNIT of a UNIT that stays, stays (chains and cycles of any length) *)
Theorem units_of_remaining_units_stay m u r :
  In u (ac_units (cleanup_compu_methods m)) -> u_ref u = Some r -> In r (map u_nm (m_units m)) ->
  In r (map u_nm (ac_units (cleanup_compu_methods m))).
Proof.
  unfold cleanup_compu_methods; simpl. intros Hu Hr Hd.
  apply filter_In in Hu. destruct Hu as [Hu Hm].
  set (seeds := flat_map (fun c => opt_list (cm_unit c))
        (filter (fun c => mem (cm_nm c) (map (fix_conv (m_cms m)) (m_conv m) ++ m_conv_ro m)) (m_cms m))) in *.
  assert (Hcl : closed_under_ref (m_units m) (unit_closure (S (length (m_units m))) (m_units m) seeds)).
  { apply unit_closure_closed. pose proof (pending_le (m_units m) seeds). lia. }
  apply in_map_iff in Hd. destruct Hd as (ur & Hn & Hur).
  apply in_map_iff. exists ur. split; [exact Hn|]. apply filter_In. split; [exact Hur|].
  rewrite Hn. exact (Hcl u r Hu Hm Hr).
Qed.

(** every UNIT that stays is reachable from a COMPU_METHOD that stays *)
Inductive unit_reachable (units : list cunit) (seeds : list name) : name -> Prop :=
| ur_seed x : In x seeds -> unit_reachable units seeds x
| ur_step u r : In u units -> unit_reachable units seeds (u_nm u) -> u_ref u = Some r -> unit_reachable units seeds r.

Lemma unit_closure_reachable units seeds : forall fuel used,
  (forall x, In x used -> unit_reachable units seeds x) ->
  forall x, In x (unit_closure fuel units used) -> unit_reachable units seeds x.
Proof.
  induction fuel as [|k IH]; intros used H x Hx; simpl in Hx; [apply H; exact Hx|].
  fold (more_of units used) in Hx. destruct (more_of units used) as [|r rest] eqn:Hm; [apply H; exact Hx|].
  rewrite <- Hm in Hx. eapply IH; [|exact Hx]. intros y Hy. apply in_app_or in Hy. destruct Hy as [Hy|Hy]; [apply H; exact Hy|].
  unfold more_of in Hy. apply in_flat_map in Hy. destruct Hy as (u & Hu & Hy).
  destruct (mem (u_nm u) used) eqn:En; [|destruct Hy]. destruct (u_ref u) as [r0|] eqn:Er; [|destruct Hy].
  destruct (mem r0 used); [destruct Hy|]. destruct Hy as [->|[]].
  eapply ur_step; eauto. apply H. apply mem_In. exact En.
Qed.

Theorem remaining_units_are_used m u : In u (ac_units (cleanup_compu_methods m)) ->
  unit_reachable (m_units m)
    (flat_map (fun c => opt_list (cm_unit c))
       (filter (fun c => mem (cm_nm c) (map (fix_conv (m_cms m)) (m_conv m) ++ m_conv_ro m)) (m_cms m))) (u_nm u).
Proof.
  unfold cleanup_compu_methods; cbn [ac_units]. intros Hu. apply filter_In in Hu. destruct Hu as [_ Hm]. apply mem_In in Hm.
  eapply unit_closure_reachable; [|exact Hm]. intros x Hx. apply ur_seed. exact Hx.
Qed.

(* ---------- GROUPs and FUNCTIONs: what the rounds never remove ---------- *)
Lemma iterate_inv {A} (P : A -> Prop) (step : A -> A * bool) :
  (forall x, P x -> P (fst (step x))) -> forall fuel x, P x -> P (iterate fuel step x).
Proof.
  intros Hs. induction fuel as [|k IH]; intros x Hx; simpl; [exact Hx|].
  pose proof (Hs x Hx) as H1. destruct (step x) as [y again]. simpl in H1. destruct again; [apply IH; exact H1 | exact H1].
Qed.

Definition group_protected (used : list name) (g : cgroup) : bool :=
  mem (g_nm g) used || negb (oempty (g_rc g)) || negb (oempty (g_rm g)).

Lemma NoDup_map_filter {A B} (f : A -> B) (p : A -> bool) l : NoDup (map f l) -> NoDup (map f (filter p l)).
Proof.
  induction l as [|x l IH]; simpl; intros H; [constructor|]. inversion H as [|? ? Hx Hl]; subst.
  destruct (p x); simpl; [|apply IH; exact Hl]. constructor; [|apply IH; exact Hl].
  intros Hin. apply Hx. apply in_map_iff in Hin. destruct Hin as (y & Hy & Hf). apply filter_In in Hf.
  rewrite <- Hy. apply in_map. tauto.
Qed.

Lemma nodup_gnames_inj gs a b : NoDup (map g_nm gs) -> In a gs -> In b gs -> g_nm a = g_nm b -> a = b.
Proof.
  induction gs as [|x l IH]; simpl; intros Hn Ha Hb E; [tauto|]. inversion Hn as [|? ? Hx Hl]; subst.
  destruct Ha as [<-|Ha], Hb as [<-|Hb]; auto.
  - exfalso. apply Hx. rewrite E. apply in_map; exact Hb.
  - exfalso. apply Hx. rewrite <- E. apply in_map; exact Ha.
Qed.

(** a group that USER_RIGHTS names, or that still lists a CHARACTERISTIC or MEASUREMENT, is never removed and
    keeps those lists *)
Definition group_kept (g : cgroup) (gs : list cgroup) : Prop :=
  NoDup (map g_nm gs) /\
  exists g', In g' gs /\ g_nm g' = g_nm g /\ g_rc g' = g_rc g /\ g_rm g' = g_rm g /\ g_fl g' = g_fl g.

Lemma groups_round_keeps used g gs : group_protected used g = true ->
  group_kept g gs -> group_kept g (fst (groups_round used gs)).
Proof.
  intros Hp [Hn (g1 & Hg1 & En & Erc & Erm & Efl)]. unfold groups_round.
  destruct (map g_nm (filter (fun g0 => negb (mem (g_nm g0) used) && group_empty g0) gs)) as [|d ds] eqn:Ed.
  - simpl. split; [exact Hn|]. exists g1. auto.
  - cbn [fst]. split.
    + rewrite map_map. cbn [g_nm]. apply NoDup_map_filter. exact Hn.
    + eexists. split.
      * apply in_map. apply filter_In. split; [exact Hg1|]. apply negb_true_iff.
        destruct (mem (g_nm g1) (d :: ds)) eqn:Em; [|reflexivity]. exfalso.
        apply mem_In in Em. rewrite <- Ed in Em. apply in_map_iff in Em. destruct Em as (g0 & Hn0 & Hf).
        apply filter_In in Hf. destruct Hf as [Hg0 Hc]. apply andb_true_iff in Hc. destruct Hc as [Hu He].
        assert (g0 = g1) by (eapply nodup_gnames_inj; eauto). subst g0.
        unfold group_protected in Hp. rewrite <- En, <- Erc, <- Erm in Hp.
        apply negb_true_iff in Hu. rewrite Hu in Hp. unfold group_empty in He.
        apply andb_true_iff in He. destruct He as [He Hm]. apply andb_true_iff in He. destruct He as [_ Hc].
        rewrite Hc, Hm in Hp. discriminate.
      * simpl. auto.
Qed.

Theorem protected_groups_stay m g : NoDup (map g_nm (m_groups m)) -> In g (m_groups m) ->
  let valid := group_refnames m in
  let g0 := mkG (g_nm g) (g_sub g) (retain_drop valid (g_rc g)) (retain_drop valid (g_rm g)) (g_fl g) in
  group_protected (m_grp_uses m) g0 = true ->
  exists g', In g' (cleanup_groups m) /\ g_nm g' = g_nm g /\ g_rc g' = g_rc g0 /\ g_rm g' = g_rm g0.
Proof.
  intros Hn Hg valid g0 Hp. unfold cleanup_groups. fold valid.
  set (gs := map (fun g => mkG (g_nm g) (g_sub g) (retain_drop valid (g_rc g)) (retain_drop valid (g_rm g)) (g_fl g)) (m_groups m)).
  assert (K : group_kept g0 (iterate (S (length gs)) (groups_round (m_grp_uses m)) gs)).
  { apply iterate_inv; [intros x; apply groups_round_keeps; exact Hp|].
    split; [unfold gs; rewrite map_map; simpl; exact Hn|].
    exists g0. split; [unfold gs; apply in_map_iff; exists g; auto | auto]. }
  destruct K as [_ (g' & Hg' & E1 & E2 & E3 & _)]. exists g'. auto.
Qed.

(** the names of the groups after cleanup are names of groups before: nothing is invented or renamed *)
Lemma groups_round_names used gs x : In x (map g_nm (fst (groups_round used gs))) -> In x (map g_nm gs).
Proof.
  unfold groups_round.
  destruct (map g_nm (filter (fun g0 => negb (mem (g_nm g0) used) && group_empty g0) gs)); simpl; [auto|].
  rewrite map_map. simpl. apply mem_filter_names.
Qed.
Lemma iterate_groups_names used : forall fuel gs x,
  In x (map g_nm (iterate fuel (groups_round used) gs)) -> In x (map g_nm gs).
Proof.
  induction fuel as [|k IH]; intros gs x Hx; simpl in Hx; [exact Hx|].
  destruct (groups_round used gs) as [y again] eqn:Er.
  assert (Hy : forall z, In z (map g_nm y) -> In z (map g_nm gs)).
  { intros z Hz. apply (groups_round_names used gs). rewrite Er. exact Hz. }
  destruct again; [|apply Hy; exact Hx]. apply Hy. apply IH. exact Hx.
Qed.
Theorem cleanup_groups_names m x : In x (map g_nm (cleanup_groups m)) -> In x (map g_nm (m_groups m)).
Proof.
  unfold cleanup_groups. intros Hx. apply iterate_groups_names in Hx. rewrite map_map in Hx. exact Hx.
Qed.

(* ---------- a second run of the COMPU_METHOD pass changes nothing ---------- *)
Definition after_module (m : cmod) : cmod :=
  let ac := cleanup_compu_methods m in
  mkM (m_objs m) (m_groups m) (m_funcs m) (ac_cms ac) (ac_tabs ac) (ac_units ac) (m_rls m) (ac_conv ac) (m_conv_ro m)
      (m_obj_funcs m) (m_rl_uses m) (m_grp_uses m).

Lemma fix_conv_after m c : In c (ac_conv (cleanup_compu_methods m)) ->
  fix_conv (ac_cms (cleanup_compu_methods m)) c = c.
Proof.
  intros H. unfold fix_conv. destruct (mem c (cm_names (ac_cms (cleanup_compu_methods m)))) eqn:E; [reflexivity|].
  destruct (conversions_resolve_after m c H) as [->|Hin]; [reflexivity|].
  apply mem_In in Hin. congruence.
Qed.

Lemma reachable_in_closure units seeds fuel x : length (pending units seeds) < fuel ->
  unit_reachable units seeds x -> mem x (unit_closure fuel units seeds) = true.
Proof.
  intros Hf Hr. pose proof (unit_closure_closed units fuel seeds Hf) as Hcl.
  induction Hr as [x Hs|u r Hu Hr IH Href].
  - apply mem_In. apply unit_closure_incl. exact Hs.
  - eapply Hcl; eauto.
Qed.

Section Idem.
  Variable m : cmod.
  Let conv0 := map (fix_conv (m_cms m)) (m_conv m).
  Let cmsf := filter (fun c => mem (cm_nm c) (conv0 ++ m_conv_ro m)) (m_cms m).
  Let seeds0 := flat_map (fun c => opt_list (cm_unit c)) cmsf.
  Let U := unit_closure (S (length (m_units m))) (m_units m) seeds0.
  Let unitsA := filter (fun u => mem (u_nm u) U) (m_units m).
  Let tabsA := filter (fun t => mem (snd t) (flat_map (fun c => opt_list (cm_tab c) ++ opt_list (cm_ssr c)) cmsf)) (m_tabs m).
  Let fixcm (c : ccm) := mkCM (cm_nm c)
      (match cm_tab c with Some t => if mem t (map snd tabsA) then Some t else None | None => None end)
      (match cm_unit c with Some u => if mem u (map u_nm unitsA) then Some u else None | None => None end)
      (cm_ssr c).
  Let cmsA := map fixcm cmsf.

  Lemma ac_unfold : cleanup_compu_methods m = mkAC conv0 cmsA tabsA unitsA.
  Proof. reflexivity. Qed.

  Lemma cmsA_names : cm_names cmsA = cm_names cmsf.
  Proof. unfold cmsA, cm_names. rewrite map_map. reflexivity. Qed.

  Lemma seeds_kept x : In x seeds0 -> In x (map u_nm unitsA) ->
    In x (flat_map (fun c => opt_list (cm_unit c)) cmsA).
  Proof.
    intros Hs Hx. unfold seeds0 in Hs. apply in_flat_map in Hs. destruct Hs as (c0 & Hc0 & Hin).
    apply in_flat_map. exists (fixcm c0). split; [apply in_map; exact Hc0|].
    destruct (cm_unit c0) as [u|] eqn:Eu; simpl in Hin; [|destruct Hin]. destruct Hin as [->|[]].
    unfold fixcm. simpl. rewrite Eu. apply mem_In in Hx. rewrite Hx. left; reflexivity.
  Qed.

  Lemma in_unitsA u : In u (m_units m) -> mem (u_nm u) U = true -> In u unitsA.
  Proof. intros Hu Hm. unfold unitsA. apply filter_In. auto. Qed.

  Lemma U_fuel : length (pending (m_units m) seeds0) < S (length (m_units m)).
  Proof. pose proof (pending_le (m_units m) seeds0). lia. Qed.

  Lemma reachable_in_second_closure x :
    unit_reachable (m_units m) seeds0 x -> In x (map u_nm (m_units m)) ->
    mem x (unit_closure (S (length unitsA)) unitsA (flat_map (fun c => opt_list (cm_unit c)) cmsA)) = true.
  Proof.
    set (seeds1 := flat_map (fun c => opt_list (cm_unit c)) cmsA).
    assert (Hcl : closed_under_ref unitsA (unit_closure (S (length unitsA)) unitsA seeds1)).
    { apply unit_closure_closed. pose proof (pending_le unitsA seeds1). lia. }
    intros Hr. induction Hr as [x Hs|u r Hu Hr IH Href]; intros Hx.
    - apply mem_In. apply unit_closure_incl. apply seeds_kept; [exact Hs|].
      assert (HU : mem x U = true) by (apply mem_In; apply unit_closure_incl; exact Hs).
      apply in_map_iff in Hx. destruct Hx as (ux & Hn & Hux). apply in_map_iff. exists ux. split; [exact Hn|].
      apply in_unitsA; [exact Hux | rewrite Hn; exact HU].
    - assert (HuA : In u unitsA).
      { apply in_unitsA; [exact Hu|]. apply reachable_in_closure; [apply U_fuel | exact Hr]. }
      eapply Hcl; [exact HuA | apply IH; apply in_map; exact Hu | exact Href].
  Qed.

  Theorem compu_method_pass_is_idempotent : cleanup_compu_methods (after_module m) = cleanup_compu_methods m.
  Proof.
    unfold after_module. rewrite ac_unfold. unfold cleanup_compu_methods. cbn [m_conv m_cms m_conv_ro m_tabs m_units ac_conv ac_cms ac_tabs ac_units].
    (* 1: the conversions are stable *)
    assert (E1 : map (fix_conv cmsA) conv0 = conv0).
    { apply map_id_in. intros c Hc. pose proof (fix_conv_after m c) as H. rewrite ac_unfold in H. apply H. exact Hc. }
    rewrite E1.
    (* 2: every remaining COMPU_METHOD is still used *)
    assert (E2 : filter (fun c => mem (cm_nm c) (conv0 ++ m_conv_ro m)) cmsA = cmsA).
    { apply filter_all. intros c Hc. unfold cmsA in Hc. apply in_map_iff in Hc. destruct Hc as (c0 & <- & Hc0).
      unfold cmsf in Hc0. apply filter_In in Hc0. exact (proj2 Hc0). }
    rewrite E2.
    (* 3: every remaining table is still named *)
    assert (E3 : filter (fun t => mem (snd t) (flat_map (fun c => opt_list (cm_tab c) ++ opt_list (cm_ssr c)) cmsA)) tabsA = tabsA).
    { apply filter_all. intros t Ht. apply mem_In.
      destruct (remaining_tables_are_used m (snd t)) as (c & Hc & Hn).
      { unfold tabs_after. rewrite ac_unfold. simpl. apply in_map. exact Ht. }
      rewrite ac_unfold in Hc. simpl in Hc. apply in_flat_map. exists c. split; [exact Hc|].
      apply in_or_app. destruct Hn as [Hn|Hn]; rewrite Hn; [left|right]; left; reflexivity. }
    rewrite E3.
    (* 4: every remaining unit is still reachable *)
    assert (E4 : filter (fun u => mem (u_nm u) (unit_closure (S (length unitsA)) unitsA (flat_map (fun c => opt_list (cm_unit c)) cmsA))) unitsA = unitsA).
    { apply filter_all. intros u Hu. apply reachable_in_second_closure.
      - pose proof (remaining_units_are_used m u) as H. rewrite ac_unfold in H. apply H. exact Hu.
      - unfold unitsA in Hu. apply filter_In in Hu. apply in_map. exact (proj1 Hu). }
    rewrite E4.
    (* 5: the references of the remaining COMPU_METHODs are stable *)
    f_equal. apply map_id_in. intros c Hc. destruct c as [n t u s]. simpl.
    pose proof (compu_tab_refs_resolve_after m (mkCM n t u s)) as Ht.
    pose proof (units_of_remaining_methods_stay m (mkCM n t u s)) as Hu.
    rewrite ac_unfold in Ht, Hu. simpl in Ht, Hu. unfold tabs_after in Ht. rewrite ac_unfold in Ht. simpl in Ht.
    f_equal.
    - destruct t as [t0|]; [|reflexivity]. specialize (Ht t0 Hc eq_refl). apply mem_In in Ht. rewrite Ht. reflexivity.
    - destruct u as [u0|]; [|reflexivity]. specialize (Hu u0 Hc eq_refl). apply mem_In in Hu. rewrite Hu. reflexivity.
  Qed.
End Idem.

Theorem record_layout_pass_is_idempotent m :
  filter (fun r => mem r (m_rl_uses m)) (cleanup_record_layouts m) = cleanup_record_layouts m.
Proof.
  unfold cleanup_record_layouts. apply filter_all. intros r Hr. apply filter_In in Hr. exact (proj2 Hr).
Qed.

(* ---------- FUNCTIONs: what the rounds never remove ---------- *)
Definition may_go_base (used : list name) (f : cfunc) : bool := negb (mem (f_nm f) used) && func_empty f.
Definition func_protected (used : list name) (f : cfunc) : bool :=
  mem (f_nm f) used || negb (oempty (f_rc f)) || negb (oempty (f_dc f)) || negb (oempty (f_in f)) ||
  negb (oempty (f_loc f)) || negb (oempty (f_out f)).

Lemma may_go_implies_base used fs dead f : may_go used fs dead f = true -> may_go_base used f = true.
Proof. unfold may_go, may_go_base. intros H. apply andb_true_iff in H. exact (proj1 H). Qed.

Lemma dead_fix_sound used fs : forall fuel dead,
  (forall n, In n dead -> exists f, In f fs /\ f_nm f = n /\ may_go_base used f = true) ->
  forall n, In n (dead_fix fuel used fs dead) -> exists f, In f fs /\ f_nm f = n /\ may_go_base used f = true.
Proof.
  induction fuel as [|k IH]; intros dead Hd n Hn; simpl in Hn; [apply Hd; exact Hn|].
  destruct (Nat.eqb _ _); [apply Hd; exact Hn|].
  eapply IH; [|exact Hn]. intros n' Hn'. apply in_map_iff in Hn'. destruct Hn' as (f & <- & Hf).
  apply filter_In in Hf. exists f. split; [exact (proj1 Hf)|]. split; [reflexivity|].
  eapply may_go_implies_base. exact (proj2 Hf).
Qed.

Lemma protected_not_base used f : func_protected used f = true -> may_go_base used f = false.
Proof.
  unfold func_protected, may_go_base, func_empty. intros H.
  destruct (mem (f_nm f) used); [reflexivity|]. simpl in *.
  destruct (oempty (f_rc f)); simpl in *; [|reflexivity].
  destruct (oempty (f_dc f)); simpl in *; [|reflexivity].
  destruct (oempty (f_in f)); simpl in *; [|reflexivity].
  destruct (oempty (f_loc f)); simpl in *; [|reflexivity].
  destruct (oempty (f_out f)); simpl in *; [discriminate | reflexivity].
Qed.

Definition func_kept (f : cfunc) (fs : list cfunc) : Prop :=
  NoDup (map f_nm fs) /\
  exists f', In f' fs /\ f_nm f' = f_nm f /\ f_rc f' = f_rc f /\ f_dc f' = f_dc f /\ f_in f' = f_in f /\
             f_loc f' = f_loc f /\ f_out f' = f_out f /\ f_proto f' = f_proto f.

Lemma nodup_fnames_inj fs a b : NoDup (map f_nm fs) -> In a fs -> In b fs -> f_nm a = f_nm b -> a = b.
Proof.
  induction fs as [|x l IH]; simpl; intros Hn Ha Hb E; [tauto|]. inversion Hn as [|? ? Hx Hl]; subst.
  destruct Ha as [<-|Ha], Hb as [<-|Hb]; auto.
  - exfalso. apply Hx. rewrite E. apply in_map; exact Hb.
  - exfalso. apply Hx. rewrite <- E. apply in_map; exact Ha.
Qed.

Lemma funcs_round_keeps used f fs : func_protected used f = true -> func_kept f fs -> func_kept f (fst (funcs_round used fs)).
Proof.
  intros Hp [Hn (f1 & Hf1 & En & E1 & E2 & E3 & E4 & E5 & E6)]. unfold funcs_round.
  destruct (dead_fix (S (length fs)) used fs []) as [|d ds] eqn:Ed.
  - cbn [fst]. split; [exact Hn|]. exists f1. repeat split; assumption.
  - cbn [fst]. split.
    + rewrite map_map. cbn [f_nm]. apply NoDup_map_filter. exact Hn.
    + eexists. split.
      * apply in_map. apply filter_In. split; [exact Hf1|]. apply negb_true_iff.
        destruct (mem (f_nm f1) (d :: ds)) eqn:Em; [|reflexivity]. exfalso.
        apply mem_In in Em. rewrite <- Ed in Em.
        destruct (dead_fix_sound used fs (S (length fs)) [] (fun n H => match H with end) _ Em) as (f0 & Hf0 & Hn0 & Hb).
        assert (f0 = f1) by (eapply nodup_fnames_inj; eauto). subst f0.
        assert (Hp1 : func_protected used f1 = true).
        { unfold func_protected in *. rewrite En, E1, E2, E3, E4, E5. exact Hp. }
        rewrite (protected_not_base used f1 Hp1) in Hb. discriminate.
      * cbn [f_nm f_rc f_dc f_in f_loc f_out f_proto]. repeat split; assumption.
Qed.

(** a FUNCTION that an object or a group lists, or that still refers to an existing object, is never removed *)
Theorem protected_functions_stay used fs f : NoDup (map f_nm fs) -> In f fs -> func_protected used f = true ->
  exists f', In f' (iterate (S (length fs)) (funcs_round used) fs) /\ f_nm f' = f_nm f /\
             f_rc f' = f_rc f /\ f_dc f' = f_dc f /\ f_in f' = f_in f /\ f_loc f' = f_loc f /\ f_out f' = f_out f.
Proof.
  intros Hn Hf Hp.
  assert (K : func_kept f (iterate (S (length fs)) (funcs_round used) fs)).
  { apply iterate_inv; [intros x; apply funcs_round_keeps; exact Hp|].
    split; [exact Hn|]. exists f. repeat split; auto. }
  destruct K as [_ (f' & Hf' & E0 & E1 & E2 & E3 & E4 & E5 & _)]. exists f'. repeat split; assumption.
Qed.
