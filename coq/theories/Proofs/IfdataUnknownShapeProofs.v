(** The values the uninterpreted IF_DATA reader returns have the shape [wfw] as well, and so: read uninterpreted IF_DATA, write what
    came back, scan the written text - the tokens stand for the tokens that were read and on the lines they were read from. *)
From Coq Require Import Ascii String List Bool Arith NArith ZArith Lia Sorting.Sorted.
From A2L Require Import Base.StableSort Text.Escape Text.IntText Lex.Tokenizer Gram.Spec A2ml.Types Gram.PState Gram.Parser Gram.Writer Gram.TokWriter
  Proofs.LayoutProofs Proofs.LexUnitsProofs Proofs.WriterUnitsProofs Proofs.CursorProofs Proofs.RoundTripProofs Proofs.LineOffsetProofs
  Proofs.ParseTraceProofs Proofs.TerminationProofs Proofs.LinePreservationProofs Proofs.IfdataFollowProofs Proofs.IfdataTextProofs Proofs.IfdataTraceProofs
  Proofs.IfdataUnknownTraceProofs Proofs.IfdataLinesProofs Proofs.IfdataWriteLinesProofs Proofs.IfdataWriteAnyProofs Proofs.IfdataShapeProofs
  Proofs.IfdataUnknownLinesProofs.
Import ListNotations.

Definition uwtr (m : M gifd) : Prop := forall s g s', Inv s -> m s = (ROk g, s') -> wfw g.

Section Level.
  Variable f : nat.
  Hypothesis Wi : forall c isb, c_fileid c = O -> forall s g s', Inv s -> unknown_ifdata f c isb s = (ROk g, s') -> wfd g.
  Hypothesis Wt : forall c, c_fileid c = O -> uwtr (unknown_taggedstruct f c).
  Hypothesis Mi : forall c isb, c_fileid c = O -> moves (unknown_ifdata f c isb).
  Hypothesis Mt : forall c, c_fileid c = O -> moves (unknown_taggedstruct f c).

  Lemma wf_ifd_loop c isb : c_fileid c = O -> forall n items s l s', Inv s -> Forall wfw items ->
    ifd_loop_ f c isb n items s = (ROk l, s') -> Forall wfw l.
  Proof.
    intros Hc. induction n as [|n IH]; intros items s l s' I Hi E; cbn [ifd_loop_] in E; [discriminate|].
    unfold peek_token at 1 in E. unfold bindM at 1 in E.
    destruct (ps_after s) as [|t rest] eqn:Ea; [destruct (bind_ok_inv _ _ _ _ _ E) as (d & s0 & _ & X); discriminate|].
    assert (Step : forall g s1 ts1, adv ts1 s s1 -> wfw g -> ifd_loop_ f c isb n (items ++ [g]) s1 = (ROk l, s') -> Forall wfw l).
    { intros g s1 ts1 A1 Hg X. apply (IH (items ++ [g]) s1 l s' (adv_inv _ _ _ I A1)); [|exact X].
      apply Forall_app. split; [exact Hi | constructor; [exact Hg | constructor]]. }
    assert (Glo : forall s1 (k : N -> gifd) ts1, adv ts1 s s1 -> (forall o, wfw (k o)) ->
              (off <-- get_line_offset ;; ifd_loop_ f c isb n (items ++ [k off])) s1 = (ROk l, s') -> Forall wfw l).
    { intros s1 k ts1 A1 Hk X. destruct (bind_ok_inv _ _ _ _ _ X) as (off & s2 & G & X2).
      rewrite (glo_inv s1 off s2 (adv_inv _ _ _ I A1) G) in *. exact (Step (k off) s1 ts1 A1 (Hk off) X2). }
    destruct (tk_type t) eqn:Ht.
    - destruct (bind_ok_inv _ _ _ _ _ E) as (v & s1 & E1 & E2). destruct (moves_get_identifier c s _ s1 I E1) as (ts1 & A1).
      exact (Glo s1 (fun o => GEnumItem o v) ts1 A1 (fun o => wf_enum o v) E2).
    - destruct isb; [|injection E as <- _; exact Hi].
      destruct (bind_ok_inv _ _ _ _ _ E) as (g & s1 & E1 & E2). destruct (Mt c Hc s _ s1 I E1) as (ts1 & A1).
      exact (Step g s1 ts1 A1 (Wt c Hc s g s1 I E1) E2).
    - injection E as <- _. exact Hi.
    - exact (IH items s l s' I Hi E).
    - destruct (bind_ok_inv _ _ _ _ _ E) as (v & s1 & E1 & E2). destruct (moves_get_string c s _ s1 I E1) as (ts1 & A1).
      exact (Glo s1 (fun o => GString o v) ts1 A1 (fun o => wf_string o v) E2).
    - unfold bindM at 1 in E. unfold try at 1 in E.
      destruct (get_integer I32 c s) as [[[v hex]|d|x|] s1] eqn:Eg; try discriminate.
      + destruct (moves_get_integer I32 c s _ s1 I Eg) as (ts1 & A1). exact (Glo s1 (fun o => GInt "Long" o v hex) ts1 A1 (fun o => wf_int _ o v hex) E).
      + pose proof (get_integer_rejected c I32 s t rest d s1 I Ea Ht Eg) as A1.
        destruct (undo_back [] t s s1 A1) as (s2 & U & A2). rewrite (bind_ok _ _ _ _ _ U) in E.
        assert (I2 : Inv s2) by (exact (adv_inv _ _ _ I A2)).
        assert (Ea2 : ps_after s2 = t :: rest) by (rewrite (proj1 (adv_nil_after _ _ A2)); exact Ea).
        unfold bindM at 1 in E. unfold try at 1 in E.
        destruct (get_float c s2) as [[fl|d2|x|] s3] eqn:Ef; try discriminate.
        * destruct (moves_get_float c s2 _ s3 I2 Ef) as (ts3 & A3).
          exact (Glo s3 (fun o => GFloat o fl) _ (adv_trans _ _ _ _ _ A2 A3) (fun o => wf_float o fl) E).
        * pose proof (get_float_rejected c s2 t rest d2 s3 I2 Ea2 Ht Ef) as A3.
          destruct (undo_back [] t s2 s3 A3) as (s4 & U2 & A4). rewrite (bind_ok _ _ _ _ _ U2) in E.
          destruct (bind_ok_inv _ _ _ _ _ E) as (db & s5 & Ed & E5).
          destruct (moves_get_double c s4 _ s5 (adv_inv _ _ _ I2 A4) Ed) as (ts5 & A5).
          exact (Glo s5 (fun o => GDouble o db) _ (adv_trans _ _ _ _ _ (adv_trans _ _ _ _ _ A2 A4) A5) (fun o => wf_double o db) E5).
    - exfalso. destruct (tok_ok_after s t rest I Ea) as (_ & Hnc & _). exact (Hnc Ht).
  Qed.

  Lemma wf_uts_loop c : c_fileid c = O -> forall n acc s acc' s', Inv s ->
    Forall (fun kv : bytes * list gtitem => Forall wfi (snd kv)) acc ->
    uts_loop_ f c n acc s = (ROk acc', s') -> Forall (fun kv : bytes * list gtitem => Forall wfi (snd kv)) acc'.
  Proof.
    intros Hc. induction n as [|n IH]; intros acc s acc' s' I Ha E; cbn [uts_loop_] in E; [discriminate|].
    unfold bindM at 1 in E. unfold try at 1 in E.
    destruct (get_next_tag_or_comment c s) as [[bc|d|x|] s1] eqn:Eg; try discriminate.
    2:{ injection E as <- _. exact Ha. }
    assert (Item : forall (tI : token) (isb : bool) (off : N) (tsg : list token), adv tsg s s1 -> In tI (ps_after s) ->
              (let tag := tk_text tI in let newc := ctx_from_token tag tI in
               uid <-- get_next_id ;; data <-- unknown_ifdata f newc isb ;;
               end_offset <-- (if isb then expect_token newc TEnd ;;; eo <-- get_line_offset ;; endident <-- expect_token newc TIdentifier ;;
                                            if bytes_eqb (tk_text endident) tag then ret eo
                                            else (d <-- mk_diag "IncorrectEndTag" newc (tk_text endident) ;; fail d)
                               else ret 0%N) ;;
               inc <-- get_incfilename (c_fileid newc) ;; nrem <-- remaining ;; skip_comments (S nrem) c ;;;
               uts_loop_ f c n (assoc_push tag (GTI inc (c_line newc) uid off end_offset tag data isb) acc)) s1 = (ROk acc', s') ->
              Forall (fun kv : bytes * list gtitem => Forall wfi (snd kv)) acc').
    { intros tI isb off tsg A1 Hin X. cbv zeta in X.
      assert (Hnc : c_fileid (ctx_from_token (tk_text tI) tI) = O) by (cbn; destruct (tok_ok_in s tI I Hin) as (Q & _); exact Q).
      set (newc := ctx_from_token (tk_text tI) tI) in *.
      assert (I1 : Inv s1) by (exact (adv_inv _ _ _ I A1)).
      destruct (bind_ok_inv _ _ _ _ _ X) as (uid & s2 & E3 & E4).
      assert (A2 : adv [] s1 s2).
      { unfold get_next_id in E3. injection E3 as _ <-. constructor; [reflexivity | reflexivity | constructor; reflexivity | exact (inv_pos s1 I1)]. }
      assert (I2 : Inv s2) by (exact (adv_inv _ _ _ I1 A2)).
      destruct (bind_ok_inv _ _ _ _ _ E4) as (data & s3 & E5 & E6).
      pose proof (Wi newc isb Hnc s2 data s3 I2 E5) as Wd.
      destruct (Mi newc isb Hnc s2 _ s3 I2 E5) as (tmd & Amd). assert (I3 : Inv s3) by (exact (adv_inv _ _ _ I2 Amd)).
      destruct (bind_ok_inv _ _ _ _ _ E6) as (eo & s4 & E7 & E8).
      assert (M4 : exists t4, adv t4 s3 s4).
      { match type of E7 with ?m s3 = _ => assert (Mm : moves m) by (destruct isb; mv) end. exact (Mm s3 _ s4 I3 E7). }
      destruct M4 as (t4 & A4). assert (I4 : Inv s4) by (exact (adv_inv _ _ _ I3 A4)).
      rewrite Hnc, bind_incfile, bind_remaining in E8. rewrite (bind_ok _ _ _ _ _ (skip_comments_none c _ s4 I4)) in E8.
      apply (IH (assoc_push (tk_text tI) (GTI None (c_line newc) uid off eo (tk_text tI) data isb) acc) s4 acc' s' I4); [|exact E8].
      apply assoc_push_wf; [|exact Ha]. apply wf_item. exact Wd. }
    destruct (next_tag_inv c Hc s bc s1 I Eg) as [(tB & tI & r0 & off & Ha' & HB & HI & -> & A1)|[(tI & r0 & off & Ha' & HI & -> & A1)|(-> & A1)]].
    - apply (Item tI true off [tB; tI] A1); [rewrite Ha'; right; left; reflexivity | exact E].
    - apply (Item tI false off [tI] A1); [rewrite Ha'; left; reflexivity | exact E].
    - injection E as <- _. exact Ha.
  Qed.

  Lemma wf_unknown_ifdata_S c isb : c_fileid c = O -> forall s g s', Inv s -> unknown_ifdata (S f) c isb s = (ROk g, s') -> wfd g.
  Proof.
    intros Hc s g s' I E. rewrite unknown_ifdata_S in E. rewrite bind_remaining in E.
    destruct (bind_ok_inv _ _ _ _ _ E) as (items & s1 & E1 & E2). rewrite Hc, bind_incfile in E2. injection E2 as <- _.
    apply wfd_struct. exact (wf_ifd_loop c isb Hc _ [] s items s1 I (Forall_nil _) E1).
  Qed.

  Lemma wf_unknown_taggedstruct_S c : c_fileid c = O -> uwtr (unknown_taggedstruct (S f) c).
  Proof.
    intros Hc s g s' I E. rewrite unknown_taggedstruct_S in E. rewrite bind_remaining in E.
    rewrite (bind_ok _ _ _ _ _ (skip_comments_none c _ s I)) in E. rewrite bind_remaining in E.
    destruct (bind_ok_inv _ _ _ _ _ E) as (acc' & s1 & E1 & E2).
    assert (Hg : g = GTaggedStruct acc').
    { unfold peek_token at 1 in E2. unfold bindM at 1 in E2. destruct (ps_after s1) as [|t r]; [injection E2 as <- _; reflexivity|].
      destruct (ttype_eqb (tk_type t) TBegin); [destruct (diag_fail_not_ok _ _ _ _ _ _ E2) | injection E2 as <- _; reflexivity]. }
    subst g. apply wf_ts. exact (wf_uts_loop c Hc _ [] s acc' s1 I (Forall_nil _) E1).
  Qed.
End Level.

Theorem unknown_ifdata_result_shape : forall f,
  (forall c isb, c_fileid c = O -> forall s g s', Inv s -> unknown_ifdata f c isb s = (ROk g, s') -> wfd g) /\
  (forall c, c_fileid c = O -> uwtr (unknown_taggedstruct f c)).
Proof.
  induction f as [|f [Wi Wt]].
  - split; intros; try intros s g s' I E; discriminate.
  - destruct (unknown_ifdata_moves_forward f) as [Mi Mt].
    split; [intros c isb Hc; first [exact (wf_unknown_ifdata_S f Wt Mt c isb Hc) | exact (wf_unknown_ifdata_S f Wi Wt Mi Mt c isb Hc)]
           | intros c Hc; first [exact (wf_unknown_taggedstruct_S f Wi Mi c Hc) | exact (wf_unknown_taggedstruct_S f Wi Wt Mi Mt c Hc)]].
Qed.

(** read uninterpreted IF_DATA, write what came back, scan the written text: the tokens stand for the tokens that were read, on the
    lines they were read from *)
Section Compose.
  Variable ftab : list fentry.
  Variable names : list bytes.
  Local Open Scope N_scope.

  Theorem unknown_ifdata_read_write_scan fu c isb s g s' f indent :
    c_fileid c = O -> Inv s -> first_ok s -> ps_ftab s = ftab ->
    unknown_ifdata fu c isb s = (ROk g, s') -> ps_log s' = ps_log s -> ps_after s' <> [] ->
    (gdepth g <= f)%nat -> Forall token_text (ftoks ftab g) ->
    exists ts toks',
      adv ts s s' /\
      tokenize_core 0 (gifd_write ftab names f g indent) = TOk toks' /\
      Forall2 (reads_as ftab) ts (map shape_of toks') /\
      (inline (prevl s) ts (goffs g) -> Forall2 (fun t' t => tk_line t' + prevl s = tk_line t + 1) toks' ts).
  Proof.
    intros Hc I Hfo Hf E L Hne Hd Htt.
    destruct (proj1 (unknown_ifdata_offsets_are_line_differences fu) c isb Hc s g s' I Hfo E L Hne) as (ts & A & Ln).
    destruct (proj1 (unknown_ifdata_is_written_as_it_was_read ftab fu) c isb Hc s g s' I Hf E L) as (ts0 & A0 & R0).
    assert (Ets : ts0 = ts).
    { pose proof (adv_after _ _ _ A) as Q1. pose proof (adv_after _ _ _ A0) as Q2. rewrite Q1 in Q2. apply app_inv_tail in Q2. symmetry. exact Q2. }
    subst ts0.
    pose proof (proj1 (unknown_ifdata_result_shape fu) c isb Hc s g s' I E) as Hw.
    destruct (gifd_write_any ftab names f g indent (or_introl Hw) Hd) as (us & o' & Et & Ex & M & W & Nn).
    assert (Htu : Forall token_text (usnd us)) by (rewrite M; exact Htt).
    destruct (Nn eq_refl Htu) as [_ Mn].
    destruct (tokenize_units_lines 0 us (units_all_ok' us W Htu)) as (toks' & E1 & M1 & L1).
    exists ts, toks'. split; [exact A|]. split; [rewrite Et, (finish_extends us _ Ex); exact E1|].
    split; [change (map shape_of toks') with (map tshape toks'); rewrite M1; change (map snd us) with (usnd us); rewrite M; exact R0|].
    intros Hin.
    pose proof (lines_cums _ _ _ Ln Hin (adv_mono _ _ _ I A)) as Hlines.
    assert (Hrel : map (fun x => x + prevl s) (map tk_line toks') = map (fun x => x + 1) (map tk_line ts)).
    { rewrite L1, ulines_cums, Mn, Hlines, !cums_shift. f_equal. lia. }
    clear - Hrel. revert Hrel. generalize ts. induction toks' as [|t' r IH]; intros l H; destruct l as [|t q]; try discriminate; [constructor|].
    cbn [map] in H. injection H as H1 H2. constructor; [exact H1 | apply IH; exact H2].
  Qed.
End Compose.
Print Assumptions unknown_ifdata_result_shape.
Print Assumptions unknown_ifdata_read_write_scan.
