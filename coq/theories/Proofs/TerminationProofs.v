(** C03, termination of the parser: the recursive functions and loops of parser.rs / ifdata.rs have no bound of their
    own in the Rust code; the model gives every loop a fuel argument (the number of remaining tokens plus one or two) and
    every recursion a depth (the number of tokens of the file plus two).  This file proves that the fuel is never used
    up: on every token list without Include tokens (the tokenizer resolves them), in both modes, for every grammar that
    passes [spec_ok], every A2ML definition and every nesting, no function of Gram/Parser.v up to [parse_file] returns
    [RFuel].  The model's results are therefore the results of the unbounded recursion, and every loop of the parser
    ends - because each turn that goes on has consumed a token, and each nesting level that recurses has consumed one.

    [tm B lo p P m]: started on a well-formed cursor at a position >= p (and >= lo) on a tape of at most B tokens, [m]
    leaves the tape alone, ends at a position >= lo whatever the result, does not run out of fuel, and a successful run
    that returns [a] ends at a position >= P a. *)
From Coq Require Import Ascii String List Bool Arith NArith ZArith Lia.
From A2L Require Import Text.Escape Text.IntText Lex.Tokenizer Gram.Spec A2ml.Types Gram.PState Gram.Parser Proofs.CursorProofs.
Import ListNotations.

Definition noinc (t : token) : Prop := tk_type t <> TInclude.
Record W (s : pstate) : Prop := mkW {
  w_pos : ps_pos s = length (ps_before s);
  w_noinc : Forall noinc (tokens_of s) }.
Definition total (s : pstate) : nat := length (tokens_of s).

Lemma total_split s : total s = length (ps_before s) + length (ps_after s).
Proof. unfold total, tokens_of. rewrite app_length, rev_length. reflexivity. Qed.
Lemma W_pos_total s : W s -> ps_pos s + length (ps_after s) = total s.
Proof. intros [H _]. rewrite total_split, H. reflexivity. Qed.

Definition tm {A} (B lo p : nat) (P : A -> nat) (m : M A) : Prop :=
  forall s r s', W s -> lo <= ps_pos s -> p <= ps_pos s -> total s <= B -> m s = (r, s') ->
    W s' /\ tokens_of s' = tokens_of s /\ lo <= ps_pos s' /\ r <> RFuel /\ (forall a, r = ROk a -> P a <= ps_pos s').

(* ---------- structural rules ---------- *)
Lemma tm_post {A} B lo p (P P' : A -> nat) m : tm B lo p P m -> (forall a, P' a <= P a) -> tm B lo p P' m.
Proof.
  intros H HP s r s' Hw Hlo Hp Hb E. destruct (H s r s' Hw Hlo Hp Hb E) as (H1 & H2 & H3 & H4 & H5).
  repeat (split; [assumption|]). intros a Ha. specialize (H5 a Ha). specialize (HP a). lia.
Qed.
Lemma tm_pre {A} B lo p q (P : A -> nat) m : tm B lo p P m -> p <= q -> tm B lo q P m.
Proof. intros H Hq s r s' Hw Hlo Hp Hb E. apply (H s r s' Hw Hlo); [lia | exact Hb | exact E]. Qed.
(* the floor that holds for every result can be lowered *)
Lemma tm_floor {A} B lo l p (P : A -> nat) m : tm B l p P m -> lo <= l -> l <= p -> tm B lo p P m.
Proof.
  intros H H1 H2 s r s' Hw Hlo Hp Hb E. destruct (H s r s' Hw ltac:(lia) Hp Hb E) as (X1 & X2 & X3 & X4 & X5).
  repeat (split; [first [assumption | lia]|]). exact X5.
Qed.
Lemma tm_vacuous {A} B lo p (P : A -> nat) m : B < p -> tm B lo p P m.
Proof.
  intros H s r s' Hw Hlo Hp Hb E. exfalso. pose proof (W_pos_total s Hw). lia.
Qed.
Lemma tm_ext {A} B lo p (P : A -> nat) (m m' : M A) : (forall s, m s = m' s) -> tm B lo p P m' -> tm B lo p P m.
Proof. intros Hx H s r s' Hw Hlo Hp Hb E. rewrite Hx in E. exact (H s r s' Hw Hlo Hp Hb E). Qed.

Lemma tm_ret {A} B lo p (P : A -> nat) (a : A) : P a <= p -> tm B lo p P (ret a).
Proof.
  intros HP s r s' Hw Hlo Hp Hb E. injection E as <- <-. repeat (split; [first [assumption | reflexivity | discriminate]|]).
  intros a' Ha. injection Ha as <-. lia.
Qed.
Lemma tm_fail {A} B lo p (P : A -> nat) d : tm B lo p P (@fail A d).
Proof.
  intros s r s' Hw Hlo Hp Hb E. injection E as <- <-. repeat (split; [first [assumption | reflexivity | discriminate]|]).
  intros a Ha. discriminate.
Qed.
Lemma tm_panic {A} B lo p (P : A -> nat) x : tm B lo p P (@panic A x).
Proof.
  intros s r s' Hw Hlo Hp Hb E. injection E as <- <-. repeat (split; [first [assumption | reflexivity | discriminate]|]).
  intros a Ha. discriminate.
Qed.

Lemma tm_bind {A C} B lo p (P1 : A -> nat) (P2 : C -> nat) (m : M A) (f : A -> M C) :
  tm B lo p P1 m -> (forall a, tm B lo (P1 a) P2 (f a)) -> tm B lo p P2 (bindM m f).
Proof.
  intros Hm Hf s r s' Hw Hlo Hp Hb E. unfold bindM in E. destruct (m s) as [r1 s1] eqn:E1.
  destruct (Hm s r1 s1 Hw Hlo Hp Hb E1) as (W1 & T1 & L1 & F1 & S1).
  destruct r1 as [a| | |].
  - assert (Hb1 : total s1 <= B) by (unfold total; rewrite T1; exact Hb).
    destruct (Hf a s1 r s' W1 L1 (S1 a eq_refl) Hb1 E) as (W2 & T2 & L2 & F2 & S2).
    split; [exact W2|]. split; [congruence|]. split; [exact L2|]. split; [exact F2 | exact S2].
  - injection E as <- <-. repeat (split; [first [assumption | discriminate]|]). intros a Ha. discriminate.
  - injection E as <- <-. repeat (split; [first [assumption | discriminate]|]). intros a Ha. discriminate.
  - exfalso. apply F1. reflexivity.
Qed.

(* try: the run of [m] may be given a floor [l] of its own (the position at which it starts, typically); after a failure
   the cursor is at or behind that floor *)
Lemma tm_try {A} B lo l p (P1 : A -> nat) (m : M A) : lo <= l -> l <= p -> tm B l p P1 m ->
  tm B lo p (fun r => match r with (Some a, None) => P1 a | (None, Some _) => l | _ => S B end) (try m).
Proof.
  intros H1 H2 Hm s r s' Hw Hlo Hp Hb E. unfold try in E. destruct (m s) as [r1 s1] eqn:E1.
  destruct (Hm s r1 s1 Hw ltac:(lia) Hp Hb E1) as (W1 & T1 & L1 & F1 & S1).
  destruct r1 as [a| | |]; injection E as <- <-.
  - repeat (split; [first [assumption | lia | discriminate]|]). intros x Hx. injection Hx as <-. exact (S1 a eq_refl).
  - repeat (split; [first [assumption | lia | discriminate]|]). intros x Hx. injection Hx as <-. exact L1.
  - repeat (split; [first [assumption | lia | discriminate]|]). intros x Hx. discriminate.
  - exfalso. apply F1. reflexivity.
Qed.

(* reading the position: the continuation knows it exactly *)
Lemma tm_bind_pos {C} B lo p (P2 : C -> nat) (f : nat -> M C) :
  (forall cp, p <= cp -> lo <= cp -> tm B lo cp P2 (f cp)) -> tm B lo p P2 (bindM get_tokenpos f).
Proof.
  intros Hf s r s' Hw Hlo Hp Hb E. unfold bindM, get_tokenpos in E.
  exact (Hf (ps_pos s) Hp Hlo s r s' Hw Hlo (le_n _) Hb E).
Qed.
(* reading the number of remaining tokens: the bound of the tape and the position become exact *)
Lemma tm_bind_remaining {C} B lo p (P2 : C -> nat) (f : nat -> M C) :
  (forall n B' q, p <= q -> lo <= q -> B' <= B -> q + n = B' -> tm B' lo q P2 (f n)) -> tm B lo p P2 (bindM remaining f).
Proof.
  intros Hf s r s' Hw Hlo Hp Hb E. unfold bindM, remaining in E.
  pose proof (W_pos_total s Hw) as Ht.
  exact (Hf (length (ps_after s)) (total s) (ps_pos s) Hp Hlo Hb Ht s r s' Hw Hlo (le_n _) (le_n _) E).
Qed.

(* ---------- computations that leave the cursor alone ---------- *)
Definition cur_eq (s s' : pstate) : Prop :=
  ps_before s' = ps_before s /\ ps_after s' = ps_after s /\ ps_pos s' = ps_pos s.
Definition still {A} (m : M A) : Prop := forall s, fst (m s) <> RFuel /\ cur_eq s (snd (m s)).

Lemma cur_eq_W s s' : cur_eq s s' -> W s -> W s' /\ tokens_of s' = tokens_of s.
Proof.
  intros (Hb & Ha & Hp) [W1 W2]. assert (T : tokens_of s' = tokens_of s) by (unfold tokens_of; rewrite Hb, Ha; reflexivity).
  split; [|exact T]. constructor; [rewrite Hp, Hb; exact W1 | rewrite T; exact W2].
Qed.

Lemma tm_still {A} B lo p (P : A -> nat) (m : M A) : still m -> (forall a, P a <= p) -> tm B lo p P m.
Proof.
  intros H HP s r s' Hw Hlo Hp Hb E. destruct (H s) as [F C]. rewrite E in F, C. cbn [fst snd] in F, C.
  destruct (cur_eq_W _ _ C Hw) as [W1 T1]. destruct C as (_ & _ & Cp).
  split; [exact W1|]. split; [exact T1|]. split; [lia|]. split; [exact F|]. intros a _. specialize (HP a). lia.
Qed.

Lemma still_bind {A C} (m : M A) (f : A -> M C) : still m -> (forall a, still (f a)) -> still (bindM m f).
Proof.
  intros Hm Hf s. unfold bindM. destruct (Hm s) as [F1 C1]. destruct (m s) as [[a| | |] s1]; cbn [fst snd] in *.
  - destruct (Hf a s1) as [F2 (X1 & X2 & X3)]. split; [exact F2|]. destruct C1 as (Y1 & Y2 & Y3). repeat split; congruence.
  - split; [discriminate | exact C1].
  - split; [discriminate | exact C1].
  - exfalso. apply F1. reflexivity.
Qed.
Lemma still_ret {A} (a : A) : still (ret a).
Proof. intros s. split; [discriminate | repeat split]. Qed.
Lemma still_fail {A} d : still (@fail A d).
Proof. intros s. split; [discriminate | repeat split]. Qed.
Lemma still_panic {A} x : still (@panic A x).
Proof. intros s. split; [discriminate | repeat split]. Qed.
Lemma still_mk_diag v c k : still (mk_diag v c k).
Proof. intros s. unfold mk_diag. destruct (Nat.ltb (c_fileid c) (ps_nfiles s)); (split; [discriminate | repeat split]). Qed.
Lemma still_error_or_log d : still (error_or_log d).
Proof. intros s. unfold error_or_log. destruct (ps_strict s); (split; [discriminate | repeat split]). Qed.
Lemma still_log_warning d : still (log_warning d).
Proof. intros s. split; [discriminate | repeat split]. Qed.
Lemma still_peek : still peek_token.
Proof. intros s. split; [discriminate | repeat split]. Qed.
Lemma still_get_next_id : still get_next_id.
Proof. intros s. split; [discriminate | repeat split]. Qed.
Lemma still_get_incfilename f : still (get_incfilename f).
Proof. intros s. split; [discriminate | repeat split]. Qed.
Lemma still_get_specs : still get_specs.
Proof. intros s. split; [discriminate | repeat split]. Qed.
Lemma still_push_spec t : still (push_spec t).
Proof. intros s. split; [discriminate | repeat split]. Qed.
Lemma still_set_file_version v : still (set_file_version v).
Proof. intros s. split; [discriminate | repeat split]. Qed.
Lemma still_set_kept k : still (fun s => (ROk tt, upd_kept s k)).
Proof. intros s. split; [discriminate | repeat split]. Qed.
Lemma still_get_line_offset : still get_line_offset.
Proof.
  intros s. unfold get_line_offset.
  destruct (ps_before s) as [|cur [|p r]]; destruct (ps_after s) as [|x a].
  1-5: destruct (ps_first_line s) as [l|]; [destruct (N.leb 1 l)|]; (split; [discriminate | repeat split]).
  destruct (find_prev (p :: r) (ps_pos s - 2) (ps_kept s)) as [[prev prev_pos]|]; [|split; [discriminate | repeat split]].
  repeat match goal with |- context [if ?c then _ else _] => destruct c end; (split; [discriminate | repeat split]).
Qed.
Lemma still_diag_then {A} v c k (f : diag -> M A) : (forall d, still (f d)) -> still (bindM (mk_diag v c k) f).
Proof. intros H. apply still_bind; [apply still_mk_diag | exact H]. Qed.
Lemma still_eof_diag c : still (eof_diag c).
Proof. apply still_mk_diag. Qed.

Lemma still_version_check1 c tag v : still (check_block_version_lower c tag v).
Proof.
  intros s. unfold check_block_version_lower. destruct (version_ltb (ps_ver s) v); [|split; [discriminate | repeat split]].
  apply (still_diag_then _ _ _ _ still_error_or_log).
Qed.
Lemma still_version_check2 c tag v : still (check_block_version_upper c tag v).
Proof.
  intros s. unfold check_block_version_upper. destruct (version_ltb v (ps_ver s)); [|split; [discriminate | repeat split]].
  apply (still_diag_then _ _ _ _ still_log_warning).
Qed.
Lemma still_version_check3 c tag v : still (check_enumitem_version_lower c tag v).
Proof.
  intros s. unfold check_enumitem_version_lower. destruct (version_ltb (ps_ver s) v); [|split; [discriminate | repeat split]].
  apply (still_diag_then _ _ _ _ still_error_or_log).
Qed.
Lemma still_version_check4 c tag v : still (check_enumitem_version_upper c tag v).
Proof.
  intros s. unfold check_enumitem_version_upper. destruct (version_ltb v (ps_ver s)); [|split; [discriminate | repeat split]].
  apply (still_diag_then _ _ _ _ still_log_warning).
Qed.
Lemma still_require_block tag b c : still (require_block tag b c).
Proof. unfold require_block. destruct b; [apply still_ret | apply still_diag_then; intro; apply still_fail]. Qed.
Lemma still_require_keyword tag b c : still (require_keyword tag b c).
Proof. unfold require_keyword. destruct b; [apply still_diag_then; intro; apply still_fail | apply still_ret]. Qed.
Lemma still_handle_multiplicity c tag b : still (handle_multiplicity_error c tag b).
Proof. unfold handle_multiplicity_error. destruct b; [apply still_diag_then; intro; apply still_error_or_log | apply still_ret]. Qed.

Global Hint Resolve still_ret still_fail still_panic still_mk_diag still_error_or_log still_log_warning still_peek still_get_next_id
  still_get_incfilename still_get_specs still_push_spec still_set_file_version still_set_kept still_get_line_offset still_eof_diag
  still_version_check1 still_version_check2 still_version_check3 still_version_check4 still_require_block still_require_keyword
  still_handle_multiplicity : still.

(* ---------- the cursor primitives ---------- *)
Lemma W_step s t a : W s -> ps_after s = t :: a ->
  forall s', ps_before s' = t :: ps_before s -> ps_after s' = a -> ps_pos s' = S (ps_pos s) -> W s' /\ tokens_of s' = tokens_of s.
Proof.
  intros [W1 W2] Ea s' Hb Ha Hp.
  assert (T : tokens_of s' = tokens_of s).
  { unfold tokens_of. rewrite Hb, Ha, Ea. cbn [rev]. rewrite <- app_assoc. reflexivity. }
  split; [|exact T]. constructor; [rewrite Hp, Hb, W1; reflexivity | rewrite T; exact W2].
Qed.

Lemma tm_get_token B lo p c : tm B lo p (fun _ => S p) (get_token c).
Proof.
  intros s r s' Hw Hlo Hp Hb E. unfold get_token in E. destruct (ps_after s) as [|t a] eqn:Ea.
  - pose proof (tm_still B lo p (fun _ : token => p) (bindM (eof_diag c) (@fail token))
                  ltac:(apply still_bind; [apply still_eof_diag | intro; apply still_fail]) ltac:(intro; lia) s r s' Hw Hlo Hp Hb E)
      as (X1 & X2 & X3 & X4 & X5).
    repeat (split; [assumption|]). intros x Hx. subst r.
    unfold bindM, eof_diag, mk_diag, fail in E. destruct (Nat.ltb (c_fileid c) (ps_nfiles s)); discriminate.
  - injection E as <- <-.
    destruct (W_step s t a Hw Ea (upd_last (upd_cursor s (t :: ps_before s) a (S (ps_pos s))) (tk_line t)) eq_refl eq_refl eq_refl) as [W1 T1].
    split; [exact W1|]. split; [exact T1|]. cbn [ps_pos upd_last upd_cursor]. split; [lia|]. split; [discriminate|]. intros _ _. lia.
Qed.

Lemma tm_cursor_next B lo p : tm B lo p (fun _ => p) cursor_next.
Proof.
  intros s r s' Hw Hlo Hp Hb E. unfold cursor_next in E. destruct (ps_after s) as [|t a] eqn:Ea; injection E as <- <-.
  - repeat (split; [first [assumption | reflexivity | discriminate]|]). intros _ _. exact Hp.
  - destruct (W_step s t a Hw Ea (upd_cursor s (t :: ps_before s) a (S (ps_pos s))) eq_refl eq_refl eq_refl) as [W1 T1].
    split; [exact W1|]. split; [exact T1|]. cbn [ps_pos upd_cursor]. split; [lia|]. split; [discriminate|]. intros _ _. lia.
Qed.

Lemma tm_undo B lo p : lo < p -> tm B lo p (fun _ => p - 1) undo_get_token.
Proof.
  intros Hl s r s' Hw Hlo Hp Hb E. unfold undo_get_token in E. destruct (ps_before s) as [|t b] eqn:Eb.
  - injection E as <- <-. repeat (split; [first [assumption | reflexivity | discriminate]|]). intros x Hx. discriminate.
  - injection E as <- <-. destruct Hw as [W1 W2]. rewrite Eb in W1. cbn [length] in W1.
    assert (T : tokens_of (upd_cursor s b (t :: ps_after s) (Nat.pred (ps_pos s))) = tokens_of s).
    { unfold tokens_of. cbn [ps_before ps_after upd_cursor]. rewrite Eb. cbn [rev]. rewrite <- app_assoc. reflexivity. }
    split; [constructor; [cbn [ps_pos ps_before upd_cursor]; lia | rewrite T; exact W2]|]. split; [exact T|].
    cbn [ps_pos upd_cursor]. split; [lia|]. split; [discriminate|]. intros _ _. lia.
Qed.

Lemma move_back_spec : forall n b a, n <= length b ->
  let '(b', a') := move_back n b a in rev b' ++ a' = rev b ++ a /\ length b' = length b - n.
Proof.
  induction n as [|n IH]; intros b a Hn; cbn [move_back]; [split; [reflexivity | lia]|].
  destruct b as [|t b]; [cbn [length] in Hn; lia|]. cbn [length] in Hn. specialize (IH b (t :: a) ltac:(lia)).
  destruct (move_back n b (t :: a)) as [b' a']. destruct IH as [I1 I2]. split; [rewrite I1; cbn [rev]; rewrite <- app_assoc; reflexivity | cbn [length]; lia].
Qed.
Lemma move_fwd_spec : forall n b a,
  let '(b', a') := move_fwd n b a in rev b' ++ a' = rev b ++ a /\ length b <= length b'.
Proof.
  induction n as [|n IH]; intros b a; cbn [move_fwd]; [split; [reflexivity | lia]|].
  destruct a as [|t a]; [split; [reflexivity | lia]|]. specialize (IH (t :: b) a).
  destruct (move_fwd n (t :: b) a) as [b' a']. destruct IH as [I1 I2]. split; [rewrite I1; cbn [rev]; rewrite <- app_assoc; reflexivity | cbn [length] in I2; lia].
Qed.

(* restoring a position: the cursor ends at that position, or behind it when it is already behind it *)
Lemma tm_set_tokenpos B lo p cp : lo <= cp -> tm B lo p (fun _ => Nat.min cp p) (set_tokenpos cp).
Proof.
  intros Hl s r s' Hw Hlo Hp Hb E. unfold set_tokenpos in E. destruct Hw as [W1 W2].
  destruct (Nat.leb cp (ps_pos s)) eqn:Hc.
  - apply Nat.leb_le in Hc. pose proof (move_back_spec (ps_pos s - cp) (ps_before s) (ps_after s) ltac:(lia)) as M.
    destruct (move_back (ps_pos s - cp) (ps_before s) (ps_after s)) as [b a]. destruct M as [M1 M2]. injection E as <- <-.
    assert (T : tokens_of (upd_cursor s b a (length b)) = tokens_of s) by exact M1.
    split; [constructor; [reflexivity | rewrite T; exact W2]|]. split; [exact T|]. cbn [ps_pos upd_cursor].
    split; [lia|]. split; [discriminate|]. intros _ _. lia.
  - apply Nat.leb_gt in Hc. pose proof (move_fwd_spec (cp - ps_pos s) (ps_before s) (ps_after s)) as M.
    destruct (move_fwd (cp - ps_pos s) (ps_before s) (ps_after s)) as [b a]. destruct M as [M1 M2]. injection E as <- <-.
    assert (T : tokens_of (upd_cursor s b a (length b)) = tokens_of s) by exact M1.
    split; [constructor; [reflexivity | rewrite T; exact W2]|]. split; [exact T|]. cbn [ps_pos upd_cursor].
    split; [lia|]. split; [discriminate|]. intros _ _. lia.
Qed.

(* ---------- automation ---------- *)
Global Hint Extern 1 (tm _ _ _ _ (get_token _)) => eapply tm_get_token : tm.
Global Hint Extern 1 (tm _ _ _ _ cursor_next) => eapply tm_cursor_next : tm.
Global Hint Extern 1 (tm _ _ _ _ undo_get_token) => eapply tm_undo : tm.
Global Hint Extern 1 (tm _ _ _ _ (set_tokenpos _)) => eapply tm_set_tokenpos : tm.
Global Hint Extern 3 (_ <= _) => lia : tm.
Global Hint Extern 3 (_ < _) => lia : tm.

Ltac tm_side := try solve [cbv beta iota; intros; lia].

Ltac tmt :=
  cbv beta;
  try solve [apply tm_vacuous; lia];
  lazymatch goal with
  | |- tm _ _ _ _ (bindM get_tokenpos _) => apply tm_bind_pos; intros ? ? ?; tmt
  | |- tm _ _ _ _ (bindM remaining _) => apply tm_bind_remaining; intros ? ? ? ? ? ? ?; tmt
  | |- tm _ _ ?p _ (bindM (try _) _) =>
      eapply tm_bind; [ eapply (tm_try _ _ p); [tm_side | tm_side | tm_head] | intros [[?|] [?|]]; cbv beta iota; tmt ]
  | |- tm _ _ _ _ (bindM _ _) => eapply tm_bind; [ tm_head | intros ?; tmt ]
  | |- tm _ _ _ _ (match ?x with _ => _ end) => destruct x; tmt
  | |- tm _ _ _ _ (ret _) => apply tm_ret; tm_side
  | |- tm _ _ _ _ (fail _) => apply tm_fail
  | |- tm _ _ _ _ (panic _) => apply tm_panic
  | |- _ => first [ eapply tm_post; [ solve [eauto 3 with tm] | tm_side ]
                  | eapply tm_still; [ solve [auto with still] | tm_side ]
                  | idtac ]
  end
with tm_head :=
  first [ solve [eauto 3 with tm]
        | eapply tm_still; [ solve [auto with still] | intro; cbv beta; apply le_n ]
        | lazymatch goal with |- @tm ?A _ _ ?p ?P _ => is_evar P; unify P (fun _ : A => p) end; tmt ].

Lemma tm_with_remaining {A} B lo p (P : A -> nat) (g : nat -> M A) :
  (forall n B' q, p <= q -> lo <= q -> B' <= B -> q + n = B' -> tm B' lo q P (g n)) ->
  tm B lo p P (fun s => g (length (ps_after s)) s).
Proof. intros H. apply (tm_ext _ _ _ _ _ (bindM remaining g)); [reflexivity | apply tm_bind_remaining; exact H]. Qed.

(* ---------- readers of Gram/PState.v ---------- *)
Lemma tm_expect_loop : forall fuel c ty B lo p, lo <= p -> B < fuel + p -> tm B lo p (fun _ => S p) (expect_loop fuel c ty).
Proof.
  induction fuel as [|f IH]; intros c ty B lo p Hl Hf; [apply tm_vacuous; lia|]. cbn [expect_loop]. tmt.
Qed.
Lemma tm_expect_token c ty B lo p : lo <= p -> tm B lo p (fun _ => S p) (expect_token c ty).
Proof.
  intros Hl. unfold expect_token. apply (tm_with_remaining _ _ _ _ (fun n => expect_loop (S n) c ty)). intros n B' q H1 H2 H3 H4. eapply tm_post; [apply tm_expect_loop; lia | intro; cbv beta; lia].
Qed.
Global Hint Extern 1 (tm _ _ _ _ (expect_token _ _)) => eapply tm_expect_token : tm.

Lemma tm_get_identifier c B lo p : lo <= p -> tm B lo p (fun _ => S p) (get_identifier c).
Proof. intros Hl. unfold get_identifier. tmt. Qed.
Global Hint Extern 1 (tm _ _ _ _ (get_identifier _)) => eapply tm_get_identifier : tm.

Lemma tm_get_string c B lo p : lo <= p -> tm B lo p (fun _ => S p) (get_string c).
Proof. intros Hl. unfold get_string. tmt. Qed.
Global Hint Extern 1 (tm _ _ _ _ (get_string _)) => eapply tm_get_string : tm.

Lemma tm_get_string_maxlen c n B lo p : lo <= p -> tm B lo p (fun _ => S p) (get_string_maxlen c n).
Proof. intros Hl. unfold get_string_maxlen. tmt. Qed.
Global Hint Extern 1 (tm _ _ _ _ (get_string_maxlen _ _)) => eapply tm_get_string_maxlen : tm.

Lemma tm_get_integer t c B lo p : lo <= p -> tm B lo p (fun _ => S p) (get_integer t c).
Proof. intros Hl. unfold get_integer. tmt. Qed.
Global Hint Extern 1 (tm _ _ _ _ (get_integer _ _)) => eapply tm_get_integer : tm.

Lemma tm_get_double c B lo p : lo <= p -> tm B lo p (fun _ => S p) (get_double c).
Proof.
  intros Hl. unfold get_double. eapply tm_bind; [tm_head|]. intros tok. cbv beta zeta.
  destruct (starts_0x (tk_text tok)); [tmt|].
  apply tm_still; [|intro; lia]. intros s. destruct (find_fentry (ps_ftab s) (tk_text tok)) as [e|]; [|split; [discriminate | repeat split]].
  destruct (fe_ok e && (fe_bits e mod 2 ^ 63 <? 0x7FF0000000000000)%N); [split; [discriminate | repeat split]|].
  apply (still_diag_then _ _ _ _ (fun d => still_fail d)).
Qed.
Global Hint Extern 1 (tm _ _ _ _ (get_double _)) => eapply tm_get_double : tm.

Lemma tm_get_float c B lo p : lo <= p -> tm B lo p (fun _ => S p) (get_float c).
Proof.
  intros Hl. unfold get_float. eapply tm_bind; [tm_head|]. intros tok. cbv beta zeta.
  apply tm_still; [|intro; lia]. intros s. destruct (find_fentry (ps_ftab s) (tk_text tok)) as [e|]; [|split; [discriminate | repeat split]].
  destruct (fe_ok32 e && ((fe_bits32 e mod 2 ^ 63 <? 0x7FF0000000000000)%N || starts_0x (tk_text tok))); [split; [discriminate | repeat split]|].
  apply (still_diag_then _ _ _ _ (fun d => still_fail d)).
Qed.
Global Hint Extern 1 (tm _ _ _ _ (get_float _)) => eapply tm_get_float : tm.

Lemma tm_parse_enum td c B lo p : lo <= p -> tm B lo p (fun _ => S p) (parse_enum td c).
Proof. intros Hl. unfold parse_enum. tmt. Qed.
Global Hint Extern 1 (tm _ _ _ _ (parse_enum _ _)) => eapply tm_parse_enum : tm.

Lemma tm_skip_comments : forall fuel c B lo p, lo <= p -> B < fuel + p -> tm B lo p (fun _ => p) (skip_comments fuel c).
Proof.
  induction fuel as [|f IH]; intros c B lo p Hl Hf; [apply tm_vacuous; lia|]. cbn [skip_comments]. tmt.
Qed.
Global Hint Extern 1 (tm _ _ _ _ (skip_comments _ _)) => eapply tm_skip_comments : tm.

(* ---------- knowing the next token ---------- *)
Definition tmh {A} (t : token) (B lo p : nat) (P : A -> nat) (m : M A) : Prop :=
  forall s r s', W s -> (exists a, ps_after s = t :: a) -> lo <= ps_pos s -> p <= ps_pos s -> total s <= B -> m s = (r, s') ->
    W s' /\ tokens_of s' = tokens_of s /\ lo <= ps_pos s' /\ r <> RFuel /\ (forall a, r = ROk a -> P a <= ps_pos s').

Lemma tmh_of_tm {A} t B lo p (P : A -> nat) m : tm B lo p P m -> tmh t B lo p P m.
Proof. intros H s r s' Hw _. apply H. exact Hw. Qed.

Lemma tm_bind_peek {C} B lo p (P2 : C -> nat) (f : option token -> M C) :
  tm B lo p P2 (f None) -> (forall t, tmh t B lo p P2 (f (Some t))) -> tm B lo p P2 (bindM peek_token f).
Proof.
  intros Hn Hs s r s' Hw Hlo Hp Hb E. unfold bindM, peek_token in E. destruct (ps_after s) as [|t a] eqn:Ea.
  - exact (Hn s r s' Hw Hlo Hp Hb E).
  - exact (Hs t s r s' Hw (ex_intro _ a Ea) Hlo Hp Hb E).
Qed.

Lemma tmh_cursor_next_bind {C} t B lo p (P2 : C -> nat) (f : unit -> M C) :
  tm B lo (S p) P2 (f tt) -> tmh t B lo p P2 (bindM cursor_next f).
Proof.
  intros Hf s r s' Hw [a Ea] Hlo Hp Hb E. unfold bindM, cursor_next in E. rewrite Ea in E.
  destruct (W_step s t a Hw Ea (upd_cursor s (t :: ps_before s) a (S (ps_pos s))) eq_refl eq_refl eq_refl) as [W1 T1].
  destruct (Hf _ r s' W1 ltac:(cbn [ps_pos upd_cursor]; lia) ltac:(cbn [ps_pos upd_cursor]; lia) ltac:(unfold total; rewrite T1; exact Hb) E)
    as (X1 & X2 & X3 & X4 & X5).
  split; [exact X1|]. split; [congruence|]. split; [exact X3|]. split; [exact X4 | exact X5].
Qed.

(* get_next_tag_or_comment: a tag costs one token, a /begin with its tag two, a comment one *)
Lemma tm_next_tag c B lo p : lo <= p ->
  tm B lo p (fun r => match r with BCBlock _ true _ => p + 2 | BCBlock _ false _ => p + 1 | BCComment _ _ => p + 1 | BCNone => p end)
     (get_next_tag_or_comment c).
Proof.
  intros Hl. unfold get_next_tag_or_comment. apply tm_bind_pos. intros cp H1 H2. apply tm_bind_peek; [tmt | intros t].
  destruct (ttype_eqb (tk_type t) TComment); [apply tmh_cursor_next_bind; tmt | apply tmh_of_tm; tmt].
Qed.
Global Hint Extern 1 (tm _ _ _ _ (get_next_tag_or_comment _)) => eapply tm_next_tag : tm.

(* skipping an unknown element: the stop word (and the /begin in front of it) is handed back *)
Lemma tm_unknown_loop : forall fuel c errc tag isb stop bal B lo p q, lo <= p -> p <= q -> B < fuel + q ->
  (isb = false -> (1 <= bal)%Z -> p < q) ->
  tm B lo q (fun _ => p) (unknown_loop fuel c errc tag isb stop bal).
Proof.
  induction fuel as [|f IH]; intros c errc tag isb stop bal B lo p q Hl Hq Hf Hbal; [apply tm_vacuous; lia|].
  cbn [unknown_loop]. eapply tm_bind; [tm_head|]. intros t. cbv beta zeta.
  destruct (tk_type t).
  - (* identifier *) destruct isb.
    + destruct (bal =? 0)%Z; [tmt|]. eapply tm_post; [apply (IH _ _ _ _ _ _ _ _ p); try lia; discriminate | intro; lia].
    + destruct (((bal =? 0) || (bal =? 1))%Z && mem_bytes (tk_text t) stop) eqn:Hc.
      * eapply tm_bind; [eapply tm_undo; lia|]. intros ?; cbv beta.
        destruct (Z.eqb_spec bal 1) as [Hb1|Hb1]; [|tmt].
        specialize (Hbal eq_refl ltac:(lia)). eapply tm_post; [eapply tm_undo; lia | intro; cbv beta; lia].
      * eapply tm_post; [apply (IH _ _ _ _ _ _ _ _ p); try lia; intros _ _; lia | intro; lia].
  - (* begin *) eapply tm_post; [apply (IH _ _ _ _ _ _ _ _ p); try lia; intros _ _; lia | intro; lia].
  - (* end *) cbv zeta. destruct (bal - 1 =? -1)%Z; [eapply tm_post; [eapply tm_undo; lia | intro; cbv beta; lia]|].
    eapply tm_post; [apply (IH _ _ _ _ _ _ _ _ p); try lia; intros _ _; lia | intro; lia].
  - destruct (isb && (bal =? 0)%Z); [tmt|]. eapply tm_post; [apply (IH _ _ _ _ _ _ _ _ p); try lia; intros _ _; lia | intro; lia].
  - destruct (isb && (bal =? 0)%Z); [tmt|]. eapply tm_post; [apply (IH _ _ _ _ _ _ _ _ p); try lia; intros _ _; lia | intro; lia].
  - destruct (isb && (bal =? 0)%Z); [tmt|]. eapply tm_post; [apply (IH _ _ _ _ _ _ _ _ p); try lia; intros _ _; lia | intro; lia].
  - destruct (isb && (bal =? 0)%Z); [tmt|]. eapply tm_post; [apply (IH _ _ _ _ _ _ _ _ p); try lia; intros _ _; lia | intro; lia].
Qed.

Lemma tm_handle_unknown c tag isb stop B lo p : lo <= p -> tm B lo p (fun _ => p) (handle_unknown_taggedstruct_tag c tag isb stop).
Proof.
  intros Hl. unfold handle_unknown_taggedstruct_tag.
  eapply tm_bind; [tm_head|]. intros d. eapply tm_bind; [tm_head|]. intros ?; cbv beta. eapply tm_bind; [tm_head|]. intros t0.
  eapply tm_bind; [eapply tm_undo; lia|]. intros ?; cbv beta zeta.
  apply (tm_with_remaining _ _ _ _ (fun n => unknown_loop (S n) c (ctx_from_token (tk_text t0) t0) tag isb stop (if isb then 1%Z else 0%Z))).
  intros n B' q H1 H2 H3 H4. eapply tm_post; [apply (tm_unknown_loop _ _ _ _ _ _ _ _ _ (S p - 1)); try lia|intro; cbv beta; lia].
  intros -> Hb. lia.
Qed.
Global Hint Extern 1 (tm _ _ _ _ (handle_unknown_taggedstruct_tag _ _ _ _)) => eapply tm_handle_unknown : tm.

(* ---------- knowing the token that was just consumed ---------- *)
Definition tmb {A} (t : token) (B lo p : nat) (P : A -> nat) (m : M A) : Prop :=
  forall s r s', W s -> (exists b, ps_before s = t :: b) -> lo <= ps_pos s -> S p <= ps_pos s -> total s <= B -> m s = (r, s') ->
    W s' /\ tokens_of s' = tokens_of s /\ lo <= ps_pos s' /\ r <> RFuel /\ (forall a, r = ROk a -> P a <= ps_pos s').

Lemma tmb_of_tm {A} t B lo p (P : A -> nat) m : tm B lo (S p) P m -> tmb t B lo p P m.
Proof. intros H s r s' Hw _. apply H. exact Hw. Qed.

Lemma tmb_undo_bind {C} t B lo p (P2 : C -> nat) (f : unit -> M C) : lo <= p ->
  tmh t B lo p P2 (f tt) -> tmb t B lo p P2 (bindM undo_get_token f).
Proof.
  intros Hl Hf s r s' Hw [b Eb] Hlo Hp Hb E. unfold bindM, undo_get_token in E. rewrite Eb in E.
  destruct Hw as [W1 W2]. rewrite Eb in W1. cbn [length] in W1.
  set (s1 := upd_cursor s b (t :: ps_after s) (Nat.pred (ps_pos s))) in *.
  assert (T : tokens_of s1 = tokens_of s).
  { unfold tokens_of, s1. cbn [ps_before ps_after upd_cursor]. rewrite Eb. cbn [rev]. rewrite <- app_assoc. reflexivity. }
  assert (W1' : W s1) by (constructor; [unfold s1; cbn [ps_pos ps_before upd_cursor]; lia | rewrite T; exact W2]).
  destruct (Hf s1 r s' W1' (ex_intro _ (ps_after s) eq_refl) ltac:(unfold s1; cbn [ps_pos upd_cursor]; lia)
              ltac:(unfold s1; cbn [ps_pos upd_cursor]; lia) ltac:(unfold total; rewrite T; exact Hb) E) as (X1 & X2 & X3 & X4 & X5).
  split; [exact X1|]. split; [congruence|]. split; [exact X3|]. split; [exact X4 | exact X5].
Qed.

(* a reader that takes exactly the next token, whatever it then makes of it *)
Definition ex1 {A} (t : token) (m : M A) : Prop :=
  forall s a, ps_after s = t :: a -> exists r s1, m s = (r, s1) /\ r <> RFuel /\
    ps_before s1 = t :: ps_before s /\ ps_after s1 = a /\ ps_pos s1 = S (ps_pos s).

Lemma tmh_bind_try_ex1 {A C} t B lo p (P2 : C -> nat) (m : M A) (f : option A * option diag -> M C) :
  ex1 t m -> (forall x, tmb t B lo p P2 (f x)) -> tmh t B lo p P2 (bindM (try m) f).
Proof.
  intros Hm Hf s r s' Hw [a Ea] Hlo Hp Hb E. destruct (Hm s a Ea) as (r1 & s1 & E1 & F1 & B1 & A1 & P1).
  destruct (W_step s t a Hw Ea s1 B1 A1 P1) as [W1 T1].
  unfold bindM, try in E. rewrite E1 in E.
  assert (K : forall x, f x s1 = (r, s') -> W s' /\ tokens_of s' = tokens_of s /\ lo <= ps_pos s' /\ r <> RFuel /\ (forall a0, r = ROk a0 -> P2 a0 <= ps_pos s')).
  { intros x Ex. destruct (Hf x s1 r s' W1 (ex_intro _ _ B1) ltac:(lia) ltac:(lia) ltac:(unfold total; rewrite T1; exact Hb) Ex) as (X1 & X2 & X3 & X4 & X5).
    split; [exact X1|]. split; [congruence|]. split; [exact X3|]. split; [exact X4 | exact X5]. }
  destruct r1 as [x|d|x|]; [exact (K _ E) | exact (K _ E) | | exfalso; apply F1; reflexivity].
  injection E as <- <-. split; [exact W1|]. split; [exact T1|]. split; [lia|]. split; [discriminate|]. intros a0 Ha. discriminate.
Qed.

Lemma expect_hit c ty s t a : ps_after s = t :: a -> tk_type t = ty -> ty <> TComment ->
  expect_token c ty s = (ROk t, upd_last (upd_cursor s (t :: ps_before s) a (S (ps_pos s))) (tk_line t)).
Proof.
  intros Ea Ht Hc. unfold expect_token. rewrite Ea. cbn [length expect_loop]. unfold bindM at 1. unfold get_token. rewrite Ea.
  rewrite Ht. destruct ty; try congruence; reflexivity.
Qed.

Lemma still_ex1 {A B'} t (m : M A) (f : A -> M B') : ex1 t m -> (forall a, still (f a)) -> ex1 t (bindM m f).
Proof.
  intros Hm Hf s a Ea. destruct (Hm s a Ea) as (r1 & s1 & E1 & F1 & B1 & A1 & P1). unfold bindM. rewrite E1.
  destruct r1 as [x|d|x|]; [| eexists; eexists; split; [reflexivity|]; split; [discriminate|]; auto ..| exfalso; apply F1; reflexivity].
  destruct (Hf x s1) as [F2 (C1 & C2 & C3)]. destruct (f x s1) as [r2 s2]. cbn [fst snd] in *.
  exists r2, s2. split; [reflexivity|]. split; [exact F2|]. repeat split; congruence.
Qed.

Lemma ex1_expect c ty t : tk_type t = ty -> ty <> TComment -> ex1 t (expect_token c ty).
Proof.
  intros Ht Hc s a Ea. rewrite (expect_hit c ty s t a Ea Ht Hc). eexists; eexists; split; [reflexivity|]. split; [discriminate|]. repeat split.
Qed.

Lemma ex1_get_integer ty c t : tk_type t = TNumber -> ex1 t (get_integer ty c).
Proof.
  intros Ht. unfold get_integer. apply still_ex1; [apply ex1_expect; [exact Ht | discriminate]|]. intros tok.
  destruct (get_integer_text ty (tk_text tok)); [apply still_ret | apply still_diag_then; intro; apply still_fail].
Qed.
Lemma ex1_get_float c t : tk_type t = TNumber -> ex1 t (get_float c).
Proof.
  intros Ht. unfold get_float. apply still_ex1; [apply ex1_expect; [exact Ht | discriminate]|]. intros tok. cbv zeta.
  intros s. destruct (find_fentry (ps_ftab s) (tk_text tok)) as [e|]; [|split; [discriminate | repeat split]].
  destruct (fe_ok32 e && ((fe_bits32 e mod 2 ^ 63 <? 0x7FF0000000000000)%N || starts_0x (tk_text tok))); [split; [discriminate | repeat split]|].
  apply (still_diag_then _ _ _ _ (fun d => still_fail d)).
Qed.

(* an Include token is never seen: the tokenizer has replaced every directive by the tokens of the file *)
Lemma tmh_no_include {A} t B lo p (P : A -> nat) m : tk_type t = TInclude -> tmh t B lo p P m.
Proof.
  intros Ht s r s' [_ W2] [a Ea]. exfalso. unfold tokens_of in W2. rewrite Ea in W2. apply Forall_app in W2. destruct W2 as [_ W2].
  inversion W2 as [|? ? Hn _]. exact (Hn Ht).
Qed.

Lemma after_skipn s : W s -> ps_after s = skipn (ps_pos s) (tokens_of s).
Proof.
  intros [W1 _]. unfold tokens_of. rewrite W1, <- (rev_length (ps_before s)), skipn_app, Nat.sub_diag, skipn_all. reflexivity.
Qed.

(* ---------- uninterpreted IF_DATA ---------- *)
Lemma bind_ok_split {A B} (m : M A) (f : A -> M B) s b s' :
  bindM m f s = (ROk b, s') -> exists a s1, m s = (ROk a, s1) /\ f a s1 = (ROk b, s').
Proof. unfold bindM. destruct (m s) as [[a| | |] s1]; try discriminate. intros H. exists a, s1. auto. Qed.

Lemma uts_end f c s a s' : unknown_taggedstruct f c s = (ROk a, s') ->
  match ps_after s' with t :: _ => tk_type t <> TBegin | [] => True end.
Proof.
  destruct f as [|f]; [discriminate|]. cbn [unknown_taggedstruct]. intros E.
  apply bind_ok_split in E. destruct E as (n0 & s1 & _ & E).
  apply bind_ok_split in E. destruct E as (u & s2 & _ & E).
  apply bind_ok_split in E. destruct E as (n & s3 & _ & E).
  apply bind_ok_split in E. destruct E as (ts & s4 & _ & E).
  apply bind_ok_split in E. destruct E as (pk & s5 & Ep & E).
  unfold peek_token in Ep. injection Ep as <- <-.
  destruct (ps_after s4) as [|t r] eqn:Ea.
  - injection E as _ <-. rewrite Ea. exact I.
  - destruct (ttype_eqb (tk_type t) TBegin) eqn:Ht.
    + apply bind_ok_split in E. destruct E as (d & s6 & _ & E). discriminate.
    + injection E as _ <-. rewrite Ea. intros Hb. rewrite Hb in Ht. discriminate.
Qed.

Lemma tmh_uts_begin t f c B lo p : tk_type t = TBegin -> lo <= p ->
  (forall l q, l <= q -> p <= q -> tm B l q (fun _ => q) (unknown_taggedstruct f c)) ->
  tmh t B lo p (fun _ => S p) (unknown_taggedstruct f c).
Proof.
  intros Ht Hl HT s r s' Hw [a Ea] Hlo Hp Hb E.
  destruct (HT (ps_pos s) (ps_pos s) (le_n _) Hp s r s' Hw (le_n _) (le_n _) Hb E) as (X1 & X2 & X3 & X4 & X5).
  split; [exact X1|]. split; [exact X2|]. split; [lia|]. split; [exact X4|]. intros x Hx. subst r.
  destruct (Nat.eq_dec (ps_pos s') (ps_pos s)) as [He|He]; [|lia]. exfalso.
  pose proof (uts_end _ _ _ _ _ E) as U. rewrite (after_skipn s' X1), X2, He, <- (after_skipn s Hw), Ea in U. exact (U Ht).
Qed.

Lemma tmh_bind {A C} t B lo p (P1 : A -> nat) (P2 : C -> nat) (m : M A) (f : A -> M C) :
  tmh t B lo p P1 m -> (forall a, tm B lo (P1 a) P2 (f a)) -> tmh t B lo p P2 (bindM m f).
Proof.
  intros Hm Hf s r s' Hw Hh Hlo Hp Hb E. unfold bindM in E. destruct (m s) as [r1 s1] eqn:E1.
  destruct (Hm s r1 s1 Hw Hh Hlo Hp Hb E1) as (W1 & T1 & L1 & F1 & S1).
  destruct r1 as [a| | |].
  - assert (Hb1 : total s1 <= B) by (unfold total; rewrite T1; exact Hb).
    destruct (Hf a s1 r s' W1 L1 (S1 a eq_refl) Hb1 E) as (W2 & T2 & L2 & F2 & S2).
    split; [exact W2|]. split; [congruence|]. split; [exact L2|]. split; [exact F2 | exact S2].
  - injection E as <- <-. repeat (split; [first [assumption | discriminate]|]). intros a Ha. discriminate.
  - injection E as <- <-. repeat (split; [first [assumption | discriminate]|]). intros a Ha. discriminate.
  - exfalso. apply F1. reflexivity.
Qed.

(* the two loops of ifdata.rs as functions of their own (the model has them as local definitions) *)
Section Loops.
Variable f : nat.
Variable c : ctx.
Section IfdLoop.
Variable is_block : bool.
Fixpoint ifd_loop_ (n : nat) (items : list gifd) {struct n} : M (list gifd) :=
  match n with
  | O => out_of_fuel
  | S n' =>
      pk <-- peek_token ;;
      match pk with
      | None => d <-- eof_diag c ;; fail d
      | Some t =>
          match tk_type t with
          | TIdentifier =>
              v <-- get_identifier c ;; off <-- get_line_offset ;;
              ifd_loop_ n' (items ++ [GEnumItem off v])
          | TString =>
              v <-- get_string c ;; off <-- get_line_offset ;;
              ifd_loop_ n' (items ++ [GString off v])
          | TNumber =>
              r <-- try (get_integer I32 c) ;;
              match r with
              | (Some (v, hex), _) => off <-- get_line_offset ;; ifd_loop_ n' (items ++ [GInt "Long" off v hex])
              | _ =>
                  undo_get_token ;;;
                  rf <-- try (get_float c) ;;
                  match rf with
                  | (Some fl, _) => off <-- get_line_offset ;; ifd_loop_ n' (items ++ [GFloat off fl])
                  | _ =>
                      undo_get_token ;;;
                      db <-- get_double c ;; off <-- get_line_offset ;;
                      ifd_loop_ n' (items ++ [GDouble off db])
                  end
              end
          | TBegin =>
              if is_block then
                ts <-- unknown_taggedstruct f c ;; ifd_loop_ n' (items ++ [ts])
              else ret items
          | TEnd => ret items
          | TInclude => ifd_loop_ n' items
          | TComment => get_token c ;;; ifd_loop_ n' items
          end
      end
  end.

End IfdLoop.
Fixpoint uts_loop_ (n : nat) (ts : list (bytes * list gtitem)) {struct n} : M (list (bytes * list gtitem)) :=
  match n with
  | O => out_of_fuel
  | S n' =>
      r <-- try (get_next_tag_or_comment c) ;;
      match r with
      | (Some (BCBlock token is_block start_offset), _) =>
          uid <-- get_next_id ;;
          let tag := tk_text token in
          let newc := ctx_from_token tag token in
          data <-- unknown_ifdata f newc is_block ;;
          end_offset <--
            (if is_block then
               expect_token newc TEnd ;;;
               eo <-- get_line_offset ;;
               endident <-- expect_token newc TIdentifier ;;
               if bytes_eqb (tk_text endident) tag then ret eo
               else (d <-- mk_diag "IncorrectEndTag" newc (tk_text endident) ;; fail d)
             else ret 0%N) ;;
          inc <-- get_incfilename (c_fileid newc) ;;
          nrem <-- remaining ;;
          skip_comments (Datatypes.S nrem) c ;;;
          uts_loop_ n' (assoc_push tag (GTI inc (c_line newc) uid start_offset end_offset tag data is_block) ts)
      | _ => ret ts
      end
  end.

End Loops.
Lemma unknown_ifdata_S f c isb : unknown_ifdata (S f) c isb =
  (n <-- remaining ;; items <-- ifd_loop_ f c isb (S (S n)) [] ;; inc <-- get_incfilename (c_fileid c) ;; ret (GStruct inc 0%N items)).
Proof. reflexivity. Qed.
Lemma unknown_taggedstruct_S f c : unknown_taggedstruct (S f) c =
  (n0 <-- remaining ;; skip_comments (S n0) c ;;; n <-- remaining ;; ts <-- uts_loop_ f c (S n) [] ;;
   pk <-- peek_token ;;
   match pk with
   | Some t => if ttype_eqb (tk_type t) TBegin then (d <-- mk_diag "InvalidBegin" c (c_element c) ;; fail d) else ret (GTaggedStruct ts)
   | None => ret (GTaggedStruct ts)
   end).
Proof. reflexivity. Qed.

Lemma tm_unknown : forall fuel,
  (forall c B lo p, lo <= p -> B + 2 <= fuel + p -> tm B lo p (fun _ => p) (unknown_ifdata fuel c true)) /\
  (forall c B lo p, lo <= p -> 1 <= fuel -> tm B lo p (fun _ => p) (unknown_ifdata fuel c false)) /\
  (forall c B lo p, lo <= p -> B + 1 <= fuel + p -> tm B lo p (fun _ => p) (unknown_taggedstruct fuel c)).
Proof.
  induction fuel as [|f (IH1 & IH2 & IH3)].
  { split; [|split]; intros c B lo p Hl Hf; [apply tm_vacuous; lia | lia | apply tm_vacuous; lia]. }
  assert (L : forall (isb : bool) (c : ctx) (B g : nat), g = (if isb then f else B + 1) ->
            forall k x l r, l <= r -> B + 1 <= g + r -> B < k + r -> tm B l r (fun _ => r) (ifd_loop_ f c isb k x)).
  { intros isb c B g Hg. induction k as [|k IHk]; intros x l r Hlr Hf Hk; [apply tm_vacuous; lia|]. cbn [ifd_loop_].
    apply tm_bind_peek; [tmt | intros t]. destruct (tk_type t) eqn:Ety.
    - apply tmh_of_tm. tmt.
    - (* /begin *) destruct isb; [|apply tmh_of_tm; tmt].
      eapply tmh_bind; [apply (tmh_uts_begin t f c B l r Ety Hlr); intros l2 q2 G1 G2; apply IH3; [exact G1 | lia]|].
      intros ts. cbv beta. eapply tm_post; [apply IHk; lia | intro; cbv beta; lia].
    - apply tmh_of_tm. tmt.
    - apply tmh_no_include. exact Ety.
    - apply tmh_of_tm. tmt.
    - (* a number: as i32, else as f32, else as f64 *)
      apply tmh_bind_try_ex1; [apply ex1_get_integer; exact Ety|]. intros [[[v hex]|] dg].
      + apply tmb_of_tm. tmt.
      + apply tmb_undo_bind; [exact Hlr|]. apply tmh_bind_try_ex1; [apply ex1_get_float; exact Ety|]. intros [[fl|] dg2].
        * apply tmb_of_tm. tmt.
        * apply tmb_undo_bind; [exact Hlr|]. apply tmh_of_tm. tmt.
    - apply tmh_of_tm. tmt. }
  assert (Hloop : forall isb c B lo p, lo <= p -> (isb = true -> B + 1 <= f + p) ->
            tm B lo p (fun _ => p) (unknown_ifdata (S f) c isb)).
  { intros isb c B lo p Hl Hf. rewrite unknown_ifdata_S.
    apply tm_bind_remaining. intros n B' q H1 H2 H3 H4.
    apply (tm_bind _ _ _ (fun _ => q)); [|intros items; tmt].
    apply (L isb c B' _ eq_refl); [lia | destruct isb; [specialize (Hf eq_refl)|]; lia | lia]. }
  split; [|split].
  - intros c B lo p Hl Hf. apply Hloop; [exact Hl | intros _; lia].
  - intros c B lo p Hl Hf. apply Hloop; [exact Hl | discriminate].
  - intros c B lo p Hl Hf. rewrite unknown_taggedstruct_S.
    apply tm_bind_remaining. intros n0 B0 q0 G1 G2 G3 G4.
    eapply tm_bind; [eapply tm_skip_comments; lia|]. intros u0. cbv beta.
    apply tm_bind_remaining. intros n B' q H1 H2 H3 H4.
    apply (tm_bind _ _ _ (fun _ => q)); [|intros items; tmt].
    assert (L2 : forall k x Bk r, Bk <= B' -> q <= r -> Bk < k + r -> tm Bk lo r (fun _ => r) (uts_loop_ f c k x)).
    { induction k as [|k IHk]; intros x Bk r Hbk Hqr Hk; [apply tm_vacuous; lia|]. cbn [uts_loop_].
      eapply tm_bind; [eapply (tm_try _ _ r); [lia | lia | eapply tm_next_tag; lia]|].
      intros [[bc|] [dg|]]; cbv beta iota; try solve [tmt].
      destruct bc as [token isb so| |]; try solve [tmt].
      destruct isb.
      + (* a block: /begin and the tag are gone, two levels of fuel *)
        eapply tm_bind; [tm_head|]. intros uid. cbv beta zeta.
        eapply tm_bind; [eapply tm_post; [apply IH1; lia | intro; cbv beta; apply le_n]|]. intros data. cbv beta. tmt.
      + destruct (le_lt_dec (r + 1) Bk) as [Hrb|Hrb]; [|apply tm_vacuous; lia].
        eapply tm_bind; [tm_head|]. intros uid. cbv beta zeta.
        eapply tm_bind; [eapply tm_post; [apply IH2; lia | intro; cbv beta; apply le_n]|]. intros data. cbv beta. tmt. }
    apply L2; lia.
Qed.

Lemma tm_unknown_ifdata fuel c B lo p : lo <= p -> B + 2 <= fuel + p -> tm B lo p (fun _ => p) (unknown_ifdata fuel c true).
Proof. apply tm_unknown. Qed.
Global Hint Extern 1 (tm _ _ _ _ (unknown_ifdata _ _ true)) => eapply tm_unknown_ifdata : tm.

Lemma tm_unknown_ifdata_start fuel c B lo p : lo <= p -> B + 2 <= fuel + p -> tm B lo p (fun _ => p) (unknown_ifdata_start fuel c).
Proof. intros Hl Hf. unfold unknown_ifdata_start. tmt. Qed.
Global Hint Extern 1 (tm _ _ _ _ (unknown_ifdata_start _ _)) => eapply tm_unknown_ifdata_start : tm.

(* ---------- the type-directed IF_DATA parser: recursion on the type, loops on the tokens ---------- *)
Lemma tm_int_item v t c B lo p : lo <= p -> tm B lo p (fun _ => S p) (int_item v t c).
Proof. intros Hl. unfold int_item. tmt. Qed.
Global Hint Extern 1 (tm _ _ _ _ (int_item _ _ _)) => eapply tm_int_item : tm.

Definition subs (ty : a2mlty) : list a2mlty :=
  match ty with
  | TArray i _ => [i]
  | TSequence i => [i]
  | TStruct l => l
  | TTaggedStruct l | TTaggedUnion l => map (fun t => match t with Tagged _ _ _ i => i end) l
  | _ => []
  end.

Section Item.
  Variable rec : a2mlty -> ctx -> M gifd.
  Variable D : a2mlty -> Prop.
  Hypothesis Hrec : forall ty c B lo p, D ty -> lo <= p -> tm B lo p (fun _ => p) (rec ty c).

  Lemma tm_array_items ty c : D ty -> forall n B lo p, lo <= p -> tm B lo p (fun _ => p) (array_items rec n ty c).
  Proof.
    intros Hd. induction n as [|n IH]; intros B lo p Hl; cbn [array_items]; [tmt|].
    eapply tm_bind; [apply (Hrec _ _ _ _ _ Hd Hl)|]. intros x. cbv beta.
    eapply tm_bind; [apply IH; exact Hl|]. intros r. tmt.
  Qed.
  Lemma tm_struct_items c : forall tys, Forall D tys -> forall B lo p, lo <= p -> tm B lo p (fun _ => p) (struct_items rec tys c).
  Proof.
    induction tys as [|ty r IH]; intros Hd B lo p Hl; cbn [struct_items]; [tmt|]. inversion Hd as [|? ? H1 H2]; subst.
    eapply tm_bind; [apply (Hrec _ _ _ _ _ H1 Hl)|]. intros x. cbv beta.
    eapply tm_bind; [apply (IH H2); exact Hl|]. intros xs. tmt.
  Qed.
  (* a sequence goes on only behind an item that took at least one token *)
  Lemma tm_seq_items ty c : D ty -> forall n acc B lo p, lo <= p -> B < n + p -> tm B lo p (fun _ => p) (seq_items rec n ty c acc).
  Proof.
    intros Hd. induction n as [|n IH]; intros acc B lo p Hl Hn; [apply tm_vacuous; lia|]. cbn [seq_items].
    apply tm_bind_pos. intros cp H1 H2.
    eapply tm_bind; [eapply (tm_try _ _ cp); [lia | lia | apply (Hrec _ _ _ _ _ Hd); lia]|].
    intros [[item|] [dg|]]; cbv beta iota; try solve [tmt].
    apply tm_bind_pos. intros pos H3 H4. destruct (Nat.eqb_spec pos cp) as [He|He]; [tmt|].
    eapply tm_post; [apply IH; lia | intro; cbv beta; lia].
  Qed.

  Lemma find_tagged_in spec tag ts : find_tagged spec tag = Some ts -> In ts spec.
  Proof.
    induction spec as [|t r IH]; [discriminate|]. cbn [find_tagged]. destruct (bytes_eqb (tg_tag t) tag).
    - intros H. injection H as <-. left. reflexivity.
    - intros H. right. exact (IH H).
  Qed.

  Lemma tm_tagged_item spec c B lo p : Forall (fun t => D (tg_item t)) spec -> lo <= p ->
    tm B lo p (fun r => match r with Some _ => S p | None => p end) (tagged_item rec spec c).
  Proof.
    intros Hd Hl. unfold tagged_item. apply tm_bind_pos. intros cp H1 H2.
    apply tm_bind_remaining. intros n0 B0 q0 G1 G2 G3 G4.
    eapply tm_bind; [eapply tm_skip_comments; lia|]. intros u0. cbv beta.
    eapply tm_bind; [eapply (tm_try _ _ q0); [lia | lia | eapply tm_next_tag; lia]|].
    intros [[bc|] [dg|]]; cbv beta iota; try solve [tmt].
    destruct bc as [token isb so| |]; try solve [tmt]. cbv zeta.
    destruct (find_tagged spec (tk_text token)) as [ts|] eqn:Ef; [|destruct isb; tmt].
    assert (Hts : D (tg_item ts)) by (rewrite Forall_forall in Hd; exact (Hd ts (find_tagged_in _ _ _ Ef))).
    destruct isb; cbv iota.
    - destruct (negb (Bool.eqb (tg_block ts) true)); [tmt|].
      eapply tm_bind; [tm_head|]. intros uid. cbv beta.
      eapply tm_bind; [apply (Hrec _ _ _ _ _ Hts); lia|]. intros data. cbv beta. tmt.
    - destruct (negb (Bool.eqb (tg_block ts) false)); [tmt|].
      eapply tm_bind; [tm_head|]. intros uid. cbv beta.
      eapply tm_bind; [apply (Hrec _ _ _ _ _ Hts); lia|]. intros data. cbv beta. tmt.
  Qed.

  Lemma tm_taggedstruct_items spec c : Forall (fun t => D (tg_item t)) spec ->
    forall n acc B lo p, lo <= p -> B < n + p -> tm B lo p (fun _ => p) (taggedstruct_items rec n spec c acc).
  Proof.
    intros Hd. induction n as [|n IH]; intros acc B lo p Hl Hn; [apply tm_vacuous; lia|]. cbn [taggedstruct_items].
    eapply tm_bind; [apply (tm_tagged_item _ _ _ _ _ Hd Hl)|]. intros [[inc line uid so eo tag data isb]|]; cbv beta iota; [|tmt].
    eapply tm_post; [apply IH; lia | intro; cbv beta; lia].
  Qed.

  Lemma tm_item_step ty c B lo p : Forall D (subs ty) -> lo <= p -> tm B lo p (fun _ => p) (item_step rec ty c).
  Proof.
    intros Hd Hl. destruct ty; cbn [item_step subs] in *; try solve [tmt].
    - (* array *) inversion Hd as [|? ? H1 _]; subst.
      assert (Ha : forall n, tm B lo p (fun _ => p) (l <-- array_items rec n ty c ;; ret (GArray l))).
      { intros n0. eapply tm_bind; [apply (tm_array_items _ _ H1); exact Hl|]. intros l. tmt. }
      destruct ty; try apply Ha. tmt.
    - (* struct *) eapply tm_bind; [apply (tm_struct_items _ _ Hd); exact Hl|]. intros l. tmt.
    - (* sequence *) inversion Hd as [|? ? H1 _]; subst. apply tm_bind_remaining. intros n0 B0 q0 G1 G2 G3 G4.
      eapply tm_bind; [apply (tm_seq_items _ _ H1); lia|]. intros l. tmt.
    - (* tagged struct *) apply tm_bind_remaining. intros n0 B0 q0 G1 G2 G3 G4.
      eapply tm_bind; [apply tm_taggedstruct_items; [|lia|lia]|intros l; tmt].
      rewrite Forall_forall in *. intros t Ht. apply Hd. apply in_map_iff. exists t. destruct t; split; [reflexivity | exact Ht].
    - (* tagged union *)
      eapply tm_bind; [apply tm_tagged_item; [|exact Hl]|].
      + rewrite Forall_forall in *. intros t Ht. apply Hd. apply in_map_iff. exists t. destruct t; split; [reflexivity | exact Ht].
      + intros [[inc line uid so eo tag data isb]|]; tmt.
  Qed.
End Item.

Lemma fold_max_le {A} (g : A -> nat) l x : In x l -> g x <= fold_right (fun t m => Nat.max (g t) m) 0 l.
Proof. induction l as [|y r IH]; [intros []|]. cbn [fold_right]. intros [<-|H]; [lia | specialize (IH H); lia]. Qed.

Lemma subs_depth ty f : ty_depth ty <= S f -> Forall (fun t => ty_depth t <= f) (subs ty).
Proof.
  intros H. destruct ty; cbn [subs ty_depth] in *; try constructor; try lia; try constructor.
  - apply Forall_forall. intros x Hx. pose proof (fold_max_le ty_depth _ _ Hx). lia.
  - apply Forall_forall. intros x Hx. apply in_map_iff in Hx. destruct Hx as (t & <- & Ht).
    pose proof (fold_max_le (fun t => match t with Tagged _ _ _ i => ty_depth i end) _ _ Ht). destruct t. cbv beta in *. lia.
  - apply Forall_forall. intros x Hx. apply in_map_iff in Hx. destruct Hx as (t & <- & Ht).
    pose proof (fold_max_le (fun t => match t with Tagged _ _ _ i => ty_depth i end) _ _ Ht). destruct t. cbv beta in *. lia.
Qed.

Lemma tm_parse_ifdata_item : forall f ty c B lo p, ty_depth ty <= f -> lo <= p -> tm B lo p (fun _ => p) (parse_ifdata_item f ty c).
Proof.
  induction f as [|f IH]; intros ty c B lo p Hd Hl.
  - exfalso. destruct ty; cbn [ty_depth] in Hd; lia.
  - cbn [parse_ifdata_item]. apply (tm_item_step _ (fun t => ty_depth t <= f)).
    + intros ty0 c0 B0 lo0 p0 H0 Hl0. apply IH; assumption.
    + apply subs_depth. exact Hd.
    + exact Hl.
Qed.

Lemma tm_parse_ifdata_from_spec spec c B lo p : lo <= p -> tm B lo p (fun _ => p) (parse_ifdata_from_spec spec c).
Proof.
  intros Hl. unfold parse_ifdata_from_spec. apply tm_bind_pos. intros cp H1 H2.
  eapply tm_bind; [eapply (tm_try _ _ cp); [lia | lia | apply tm_parse_ifdata_item; lia]|].
  intros [[g|] [dg|]]; cbv beta iota; tmt.
Qed.
Global Hint Extern 1 (tm _ _ _ _ (parse_ifdata_from_spec _ _)) => eapply tm_parse_ifdata_from_spec : tm.

Lemma tm_first_spec c : forall specs B lo p, lo <= p -> tm B lo p (fun _ => p) (first_spec specs c).
Proof. induction specs as [|sp r IH]; intros B lo p Hl; cbn [first_spec]; tmt. Qed.
Global Hint Extern 1 (tm _ _ _ _ (first_spec _ _)) => eapply tm_first_spec : tm.

Lemma tm_parse_ifdata specs fuel c B lo p : lo <= p -> B + 2 <= fuel + p -> tm B lo p (fun _ => p) (parse_ifdata specs fuel c).
Proof. intros Hl Hf. unfold parse_ifdata. tmt. Qed.
Global Hint Extern 1 (tm _ _ _ _ (parse_ifdata _ _ _)) => eapply tm_parse_ifdata : tm.

(* ---------- the generic element parser ---------- *)
From A2L Require Import Gram.Writer Gram.TokWriter Proofs.ParseTraceProofs.

Lemma tm_scalar_simple G rec ty c B lo p : simple_ty ty = true -> lo <= p -> tm B lo p (fun _ => S p) (parse_scalar_field G rec ty c).
Proof. intros Hs Hl. destruct ty; try discriminate Hs; cbn [parse_scalar_field]; tmt. Qed.

Lemma still_multiplicity_check c : forall items kids, still (multiplicity_check items kids c).
Proof.
  induction items as [|ti ir IH]; intros kids; cbn [multiplicity_check]; [apply still_ret|].
  destruct kids as [|k kr]; [apply still_ret|]. apply still_bind; [|intro; apply IH].
  destruct (ti_required ti); [|apply still_ret]. destruct k; [|apply still_ret].
  apply still_diag_then. intro d. destruct (ti_repeat ti); [apply still_error_or_log | apply still_fail].
Qed.
Global Hint Resolve still_multiplicity_check : still.

Lemma tm_end_tag_check c e B lo p : lo <= p -> tm B lo p (fun _ => S p) (end_tag_check c e).
Proof. intros Hl. unfold end_tag_check. tmt. Qed.
Global Hint Extern 1 (tm _ _ _ _ (end_tag_check _ _)) => eapply tm_end_tag_check : tm.

Definition plain (td : tydef) : bool :=
  forallb (fun it => match it with IField _ ty => simple_ty ty | ITagged _ _ _ => false end) (t_items td).

(* an element that has only plain fields needs neither the recursion nor a loop: one token per field *)
Lemma tm_plain_items G rec ifuel isb c : forall its fields kids cms B lo q, lo <= q ->
  forallb (fun it => match it with IField _ ty => simple_ty ty | ITagged _ _ _ => false end) its = true ->
  tm B lo q (fun _ => q + List.length its) (parse_items G rec ifuel its isb c fields kids cms).
Proof.
  induction its as [|it r IH]; intros fields kids cms B lo q Hl Hp; cbn [parse_items List.length]; [tmt|].
  cbn [forallb] in Hp. apply andb_true_iff in Hp. destruct Hp as [H1 H2]. destruct it as [nm ty|]; [|discriminate].
  eapply tm_bind.
  - assert (E : parse_field G rec ty c = parse_scalar_field G rec ty c) by (destruct ty; try discriminate H1; reflexivity).
    rewrite E. apply tm_scalar_simple; assumption.
  - intros v. cbv beta. eapply tm_post; [apply IH; [lia | exact H2] | intro; cbv beta; lia].
Qed.

Lemma tm_plain_body G rec ifuel td c off B lo p : plain td = true -> lo <= p ->
  tm B lo p (fun _ => p + List.length (t_items td)) (parse_body G rec ifuel td c off).
Proof.
  intros Hp Hl. unfold parse_body. eapply tm_bind; [tm_head|]. intros inc. eapply tm_bind; [tm_head|]. intros uid. cbv beta zeta.
  eapply tm_bind; [apply tm_plain_items; [exact Hl | exact Hp]|]. intros [[fields kids] cms]. cbv beta. tmt.
Qed.

Lemma simple_struct_plain G td : simple_struct G td = true -> plain td = true /\ 1 <= List.length (t_items td).
Proof.
  unfold simple_struct, plain. intros H. repeat (apply andb_true_iff in H; let X := fresh "X" in destruct H as [H X]).
  split.
  - clear - X. induction (t_items td) as [|it r IH]; [reflexivity|]. cbn [forallb] in *. apply andb_true_iff in X. destruct X as [X1 X2].
    rewrite (IH X2), andb_true_r. destruct it; [|discriminate]. apply andb_true_iff in X1. exact (proj1 X1).
  - destruct (t_items td); [discriminate | cbn [List.length]; lia].
Qed.

Section Elem.
  Variable G : spec.
  Variable rec : tydef -> ctx -> N -> M value.
  Variable ifuel : nat.
  Variable F : nat.
  Hypothesis Hspec : spec_ok G = true.
  Hypothesis Hrec : forall td c off B lo p, td_ok G td = true -> lo <= p -> B + 2 <= F + p -> B + 2 <= ifuel + p ->
    tm B lo p (fun _ => p) (rec td c off).
  Hypothesis Hrec_struct : forall td c off B lo p, simple_struct G td = true -> lo <= p -> 1 <= F ->
    tm B lo p (fun _ => S p) (rec td c off).

  Definition sf_ok (ty : fty) : bool := match ty with FStruct sn => struct_ty_ok G sn | _ => true end.

  Lemma tm_scalar_field ty c B lo p : sf_ok ty = true -> lo <= p -> 1 <= F -> tm B lo p (fun _ => S p) (parse_scalar_field G rec ty c).
  Proof.
    intros Hs Hl Hf. destruct ty; try solve [apply tm_scalar_simple; [reflexivity | exact Hl]]; cbn [parse_scalar_field]; try apply tm_panic.
    unfold sf_ok, struct_ty_ok in Hs. destruct (lookup_ty G s) as [td|]; [|discriminate]. apply Hrec_struct; assumption.
  Qed.

  Lemma tm_parse_n ty c : sf_ok ty = true -> 1 <= F -> forall n B lo p, lo <= p -> tm B lo p (fun _ => p) (parse_n G rec n ty c).
  Proof.
    intros Hs Hf. induction n as [|n IH]; intros B lo p Hl; cbn [parse_n]; [tmt|].
    eapply tm_bind; [apply tm_scalar_field; assumption|]. intros v. cbv beta.
    eapply tm_bind; [apply IH; lia|]. intros r. tmt.
  Qed.

  Lemma tm_parse_seq ty stop c : sf_ok ty = true -> 1 <= F ->
    forall n acc B lo p, lo <= p -> B < n + p -> tm B lo p (fun _ => p) (parse_seq G rec n ty stop c acc).
  Proof.
    intros Hs Hf. induction n as [|n IH]; intros acc B lo p Hl Hn; [apply tm_vacuous; lia|]. cbn [parse_seq].
    apply tm_bind_pos. intros cp H1 H2.
    eapply tm_bind; [eapply (tm_try _ _ cp); [lia | lia | apply tm_scalar_field; [exact Hs | lia | exact Hf]]|].
    intros [[v|] [dg|]]; cbv beta iota; tmt.
  Qed.

  Lemma tm_parse_field ty c B lo p : fty_ok G ty = true -> lo <= p -> 1 <= F -> tm B lo p (fun _ => p) (parse_field G rec ty c).
  Proof.
    intros Hok Hl Hf. destruct ty; cbn [parse_field]; try solve [eapply tm_post; [apply tm_scalar_field; [first [reflexivity | exact Hok] | exact Hl | exact Hf] | intro; cbv beta; lia]].
    - (* array *) cbn [fty_ok] in Hok. apply andb_true_iff in Hok. destruct Hok as [Hs _].
      eapply tm_bind; [apply tm_parse_n; [destruct ty; try discriminate Hs; reflexivity | exact Hf | exact Hl]|]. intros l. tmt.
    - (* sequence *) assert (Hs : sf_ok ty = true).
      { destruct ty; try reflexivity. exact Hok. }
      apply tm_bind_remaining. intros n B' q H1 H2 H3 H4.
      eapply tm_bind; [apply tm_parse_seq; [exact Hs | exact Hf | lia | lia]|]. intros l. tmt.
  Qed.

  Lemma tm_special td newc off B lo p : td_ok G td = true -> lo <= p -> B + 2 <= F + p -> B + 2 <= ifuel + p ->
    tm B lo p (fun _ => p) (parse_special_or_generic rec ifuel td newc off).
  Proof.
    intros Htd Hl Hf Hi. unfold parse_special_or_generic. destruct (t_special td) as [sp|]; [|apply Hrec; assumption].
    destruct (String.eqb sp "A2ml"); [|tmt].
    eapply tm_bind; [tm_head|]. intros inc. eapply tm_bind; [tm_head|]. intros uid. eapply tm_bind; [tm_head|]. intros token.
    eapply tm_bind; [tm_head|]. intros loc. cbv beta zeta.
    apply (tm_bind _ _ _ (fun _ => S p)); [|intros u; tmt].
    apply tm_still; [|intro; cbv beta; apply le_n]. intros s.
    destruct (a2ml_lookup (crlf_to_lf (tk_text token)) (ps_a2ml s)) as [[[ty|] msg]|]; try (split; [discriminate | repeat split]).
    apply (still_diag_then _ _ _ _ still_error_or_log).
  Qed.

  Lemma lookup_td_ok n td : lookup_ty G n = Some td -> td_ok G td = true.
  Proof. intros H. exact (spec_ok_td G n td Hspec H). Qed.

  Lemma tm_tagged_loop pb last items c : forall n kids cms B lo p, lo <= p -> B < n + p -> B + 2 <= S F + p -> B + 2 <= ifuel + p ->
    tm B lo p (fun _ => p) (tagged_loop G rec ifuel n pb last items c kids cms).
  Proof.
    induction n as [|n IH]; intros kids cms B lo p Hl Hn Hf Hi; [apply tm_vacuous; lia|]. cbn [tagged_loop].
    eapply tm_bind; [eapply tm_next_tag; exact Hl|]. intros [token isb so|token so|]; cbv beta iota; [| |tmt].
    - (* a tag *) cbv zeta.
      destruct isb; cbv iota;
      (destruct (find_titem items (tk_text token) 0) as [[idx ti]|];
       [ eapply tm_bind; [tm_head|]; intros u1; eapply tm_bind; [tm_head|]; intros u2; eapply tm_bind; [tm_head|]; intros u3; cbv beta;
         destruct (lookup_ty G (ti_type ti)) as [td|] eqn:Ltd; [|apply tm_panic];
         eapply tm_bind; [apply tm_special; [exact (lookup_td_ok _ _ Ltd) | lia | lia | lia]|]; intros newitem; cbv beta;
         destruct (ti_repeat ti);
         [ eapply tm_post; [apply IH; lia | intro; cbv beta; lia]
         | eapply tm_bind; [tm_head|]; intros u4; cbv beta; eapply tm_post; [apply IH; lia | intro; cbv beta; lia] ]
       | destruct (pb && last);
         [ eapply tm_bind; [tm_head|]; intros u1; cbv beta; eapply tm_post; [apply IH; lia | intro; cbv beta; lia]
         | tmt ] ]).
    - (* a comment *) destruct pb.
      + eapply tm_bind; [tm_head|]. intros uid. cbv beta. eapply tm_post; [apply IH; lia | intro; cbv beta; lia].
      + eapply tm_post; [apply IH; lia | intro; cbv beta; lia].
  Qed.

  Lemma tm_parse_items isb c : forall its fields kids cms B lo p, forallb (item_okb G) its = true ->
    lo <= p -> 1 <= F -> B + 2 <= S F + p -> B + 2 <= ifuel + p ->
    tm B lo p (fun _ => p) (parse_items G rec ifuel its isb c fields kids cms).
  Proof.
    induction its as [|it r IH]; intros fields kids cms B lo p Hok Hl Hf1 Hf Hi; cbn [parse_items]; [tmt|].
    cbn [forallb] in Hok. apply andb_true_iff in Hok. destruct Hok as [H1 H2]. destruct it as [nm ty|union last titems].
    - eapply tm_bind; [apply tm_parse_field; [exact H1 | exact Hl | exact Hf1]|]. intros v. cbv beta. apply IH; assumption.
    - cbn [item_okb] in H1. apply andb_true_iff in H1. destruct H1 as [Hu _]. destruct union; [discriminate|].
      apply tm_bind_remaining. intros n B' q G1 G2 G3 G4.
      eapply tm_bind; [apply tm_tagged_loop; lia|]. intros res. cbv beta.
      eapply tm_bind; [tm_head|]. intros u. cbv beta. eapply tm_post; [apply IH; [exact H2 | lia | exact Hf1 | lia | lia] | intro; cbv beta; lia].
  Qed.

  Lemma tm_parse_body td c off B lo p : td_ok G td = true -> lo <= p -> B + 2 <= S F + p -> B + 2 <= ifuel + p ->
    tm B lo p (fun _ => p) (parse_body G rec ifuel td c off).
  Proof.
    intros Htd Hl Hf Hi. destruct (le_lt_dec p B) as [Hpb|Hpb]; [|apply tm_vacuous; lia].
    unfold parse_body. eapply tm_bind; [tm_head|]. intros inc. eapply tm_bind; [tm_head|]. intros uid. cbv beta zeta.
    eapply tm_bind; [apply tm_parse_items; [exact Htd | exact Hl | lia | exact Hf | exact Hi]|]. intros [[fields kids] cms]. cbv beta. tmt.
  Qed.
End Elem.

Lemma tm_parse_ty G ifuel : spec_ok G = true -> forall fuel,
  (forall td c off B lo p, td_ok G td = true -> lo <= p -> B + 2 <= fuel + p -> B + 2 <= ifuel + p ->
     tm B lo p (fun _ => p) (parse_ty fuel G ifuel td c off)) /\
  (forall td c off B lo p, simple_struct G td = true -> lo <= p -> 1 <= fuel ->
     tm B lo p (fun _ => S p) (parse_ty fuel G ifuel td c off)).
Proof.
  intros Hspec. induction fuel as [|f [IH1 IH2]].
  - split; [intros; apply tm_vacuous; lia | intros; lia].
  - split.
    + intros td c off B lo p Htd Hl Hf Hi. cbn [parse_ty]. apply (tm_parse_body G _ ifuel f Hspec IH1 IH2); assumption.
    + intros td c off B lo p Hs Hl _. cbn [parse_ty]. destruct (simple_struct_plain G td Hs) as [Hp Hn].
      eapply tm_post; [apply tm_plain_body; [exact Hp | exact Hl] | intro; cbv beta; lia].
Qed.

(* ---------- parse_version, parse_file ---------- *)
Section File.
  Variable G : spec.
  Hypothesis Hspec : spec_ok G = true.
  Hypothesis Hver : forall td, lookup_ty G "Asap2Version" = Some td -> plain td = true.

  Lemma tm_parse_version fuel c B p : 1 <= fuel -> tm B 0 p (fun _ => 0) (parse_version fuel G c).
  Proof.
    intros Hf. unfold parse_version. eapply tm_bind; [tm_head|]. intros [token|]; [|tmt].
    eapply tm_bind; [eapply (tm_try _ _ p); [lia | lia | tm_head]|]. intros [[id|] [dg|]]; cbv beta iota zeta; try solve [tmt].
    destruct (bytes_eqb id (bytes_of "ASAP2_VERSION")); [|tmt].
    pose proof Hver as Hv. destruct (lookup_ty G "Asap2Version") as [td|]; [|apply tm_panic]. specialize (Hv td eq_refl).
    destruct fuel as [|f]; [lia|]. cbn [parse_ty].
    eapply tm_bind; [eapply (tm_try _ _ 0); [lia | lia | eapply tm_post; [apply tm_plain_body; [exact Hv | lia] | intro; cbv beta; apply Nat.le_0_l]]|].
    intros r. cbv beta. eapply tm_bind; [eapply tm_set_tokenpos; lia|]. intros u. cbv beta.
    apply (tm_pre _ _ 0); [|lia]. clear. 
    repeat match goal with |- tm _ _ _ _ (match ?x with _ => _ end) => destruct x end; tmt.
  Qed.

  Theorem parse_file_no_fuel s0 : W s0 -> ps_pos s0 = 0 -> fst (parse_file G s0) <> RFuel.
  Proof.
    intros Hw Hp0. destruct (parse_file G s0) as [r s'] eqn:E. cbn [fst]. unfold parse_file in E. cbv zeta in E.
    pose proof (W_pos_total s0 Hw) as Ht.
    set (fuel := S (S (length (ps_after s0)))) in *.
    set (c := mkCtx (bytes_of "A2L_FILE") 0 match ps_after s0 with t :: _ => tk_line t | [] => 1%N end) in *.
    assert (T : tm (total s0) 0 (ps_pos s0) (fun _ => 0)
                   (ver <-- parse_version fuel G c ;; set_file_version ver ;;;
                    match lookup_ty G "A2lFile" with
                    | None => panic "spec: A2lFile"
                    | Some td =>
                        file <-- parse_ty fuel G fuel td c 0 ;;
                        pk <-- peek_token ;;
                        match pk with
                        | Some token =>
                            (fun s => if Nat.ltb (tk_fileid token) (ps_nfiles s)
                                      then error_or_log (mkDiag "AdditionalTokensError" (Some (ps_last s)) (tk_fileid token) (tk_text token)) s
                                      else (RPanic "parser.rs: filenames[token.fileid]", s)) ;;;
                            ret file
                        | None => ret file
                        end
                    end)).
    { eapply tm_bind; [apply tm_parse_version; unfold fuel; lia|]. intros ver. cbv beta.
      eapply tm_bind; [tm_head|]. intros u. cbv beta.
      destruct (lookup_ty G "A2lFile") as [td|] eqn:Ltd; [|apply tm_panic].
      eapply tm_bind; [apply (proj1 (tm_parse_ty G fuel Hspec fuel)); [exact (spec_ok_td G _ td Hspec Ltd) | lia | unfold fuel; lia | unfold fuel; lia]|].
      intros file. cbv beta. eapply tm_bind; [tm_head|]. intros [token|]; [|tmt].
      eapply tm_bind; [|intros u2; tmt]. apply tm_still; [|intro; cbv beta; apply Nat.le_0_l].
      intros s. destruct (Nat.ltb (tk_fileid token) (ps_nfiles s)); [apply still_error_or_log | split; [discriminate | repeat split]]. }
    destruct (T s0 r s' Hw (Nat.le_0_l _) (le_n _) (le_n _) E) as (_ & _ & _ & Hr & _). exact Hr.
  Qed.
End File.

(* ---------- the token list that reaches the parser has no Include tokens ---------- *)
From A2L Require Import Lex.Include.

Definition NI (toks : list token) : Prop := Forall noinc toks.

Lemma expand_no_include fs rec : (forall f n text toks files, rec f n text = IOk toks files -> NI toks) ->
  forall k toks, length toks <= k -> forall f next out files res files', NI out ->
  expand fs rec f next toks out files = IOk res files' -> NI res.
Proof.
  intros Hrec. induction k as [|k IH]; intros toks Hk f next out files res files' Ho E.
  - destruct toks; [|cbn [length] in Hk; lia]. cbn [expand] in E. injection E as <- _.
    rewrite rev_append_rev, app_nil_r. apply Forall_rev. exact Ho.
  - destruct toks as [|t r]; cbn [expand] in E.
    + injection E as <- _. rewrite rev_append_rev, app_nil_r. apply Forall_rev. exact Ho.
    + cbn [length] in Hk. destruct (ttype_eqb (tk_type t) TInclude) eqn:Et.
      * destruct r as [|nt r']; [discriminate|]. cbn [length] in Hk.
        destruct (ttype_eqb (tk_type nt) TString || ttype_eqb (tk_type nt) TIdentifier); [|discriminate].
        destruct (fs (fn_full f) (include_name nt)) as [[full text]|]; [|discriminate].
        destruct (rec (child_name f full (include_name nt)) next text) as [toks' files1| | |] eqn:Er; try discriminate.
        refine (IH r' ltac:(lia) f _ _ _ res files' _ E).
        unfold NI. rewrite rev_append_rev. apply Forall_app. split; [apply Forall_rev; exact (Hrec _ _ _ _ _ Er) | exact Ho].
      * refine (IH r ltac:(lia) f next (t :: out) files res files' _ E). constructor; [|exact Ho].
        unfold noinc. intros H. rewrite H in Et. discriminate.
Qed.

Lemma tokenize_inc_no_include fs : forall fuel f fileid text toks files,
  tokenize_inc fs fuel f fileid text = IOk toks files -> NI toks.
Proof.
  induction fuel as [|k IH]; intros f fileid text toks files E; [discriminate|]. cbn [tokenize_inc] in E.
  destruct (tokenize_core fileid text) as [toks0| | |]; try discriminate.
  exact (expand_no_include fs (tokenize_inc fs k) IH (length toks0) toks0 (le_n _) f (S fileid) [] [f] toks files (Forall_nil _) E).
Qed.

Print Assumptions parse_file_no_fuel.
Print Assumptions tokenize_inc_no_include.
