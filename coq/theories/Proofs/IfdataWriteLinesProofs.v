(** C05, the writer's side of the line bookkeeping for generic IF_DATA: in the text that GenericIfData::write produces for a
    conforming value, the white space in front of every token holds exactly as many line breaks as the offset stored with that
    token ([goffs], Proofs/IfdataLinesProofs.v; none in front of the tags behind /begin and /end) - provided the token texts are
    well-formed tokens, so that no text ends inside a line comment and forces an extra line break.  Same structure as
    Proofs/IfdataTextProofs.v (the text is white space and exactly the tokens), with the line-break count [NL] of
    Proofs/WriterUnitsProofs.v carried along. *)
From Coq Require Import Ascii String List Bool Arith NArith ZArith Lia Sorting.Sorted.
From A2L Require Import Base.StableSort Text.Escape Text.IntText Lex.Tokenizer Gram.Spec A2ml.Types Gram.PState Gram.Parser Gram.Writer Gram.TokWriter
  Proofs.LayoutProofs Proofs.LexUnitsProofs Proofs.WriterFlagProofs Proofs.WriterUnitsProofs Proofs.CursorProofs Proofs.RoundTripProofs Proofs.TerminationProofs
  Proofs.GroupOrderProofs Proofs.IfdataRoundTripProofs Proofs.IfdataFollowProofs Proofs.IfdataTextProofs Proofs.IfdataTraceProofs Proofs.IfdataLinesProofs.
Import ListNotations.

Section Lines.
  Variable ftab : list fentry.
  Variable names : list bytes.
  Notation ftoks := (ftoks ftab).
  Notation itoks := (itoks ftab).
  Notation conf := (conf ftab).

  Definition ext (g : list shape) (offs : list (option N)) (o o' : out) : Prop :=
    exists us, extends us o o' /\ usnd us = g /\ Forall ws_ok us /\ NL us offs o o'.

  Lemma ext_nil o : ext [] [] o o.
  Proof. exists []. split; [reflexivity|]. split; [reflexivity|]. split; [constructor | apply NL_nil]. Qed.
  Lemma ext_app a b x y o o1 o2 : ext a x o o1 -> ext b y o1 o2 -> ext (a ++ b) (x ++ y) o o2.
  Proof.
    intros (u1 & E1 & M1 & W1 & N1) (u2 & E2 & M2 & W2 & N2). exists (u1 ++ u2).
    split; [eapply extends_trans; eassumption|]. split; [rewrite usnd_app, M1, M2; reflexivity|].
    split; [apply Forall_app; split; assumption | exact (NL_app _ _ _ _ _ _ _ N1 N2)].
  Qed.
  Lemma ext_token indent off text o ty : ext [(ty, text)] [Some off] o (push text (add_whitespace indent off o)).
  Proof. destruct (token_unit indent off text o (ty, text) eq_refl) as (us & E & M & W & N). exists us. auto. Qed.

  Lemma units_all_ok' (us : list unit) : Forall ws_ok us -> Forall token_text (usnd us) -> Forall unit_ok us.
  Proof.
    induction us as [|u us IHu]; intros Hw Ht; [constructor|]. inversion Hw; subst. rewrite usnd_cons in Ht. inversion Ht; subst.
    constructor; [split; assumption | apply IHu; assumption].
  Qed.
  Lemma track_clean' us o : snd o = false -> Forall unit_ok us -> snd (track_line_comment (render us) o) = false.
  Proof. intros Hs Hu. unfold track_line_comment. rewrite Hs, (elc_units us Hu). destruct (existsb _ (render us)); reflexivity. Qed.

  Lemma block_text' fu g i l ind : match g with GBlock _ _ _ | GNone => False | _ => True end ->
    gifd_write ftab names fu (make_block g i l) ind = gifd_write ftab names fu g ind.
  Proof. destruct fu; [reflexivity|]. destruct g; intros H; try destruct H; reflexivity. Qed.

  (* the text of a value, with its units *)
  Definition wunits (text : bytes) (g : gifd) : Prop :=
    exists us o', text = finish o' /\ extends us empty_out o' /\ usnd us = ftoks g /\ Forall ws_ok us /\ NL us (goffs g) empty_out o'.

  Section WI.
    Variable f : nat.
    Variable indent : nat.
    Notation wi := (wi ftab names f indent).
    Notation wtext := (wtext ftab names f indent).
    Hypothesis IHf : forall ty g k ind, conf ty g k -> gdepth g <= f -> wunits (gifd_write ftab names f g ind) g.

    Lemma emit_lines spec : forall its k, conf_items ftab conf spec its k -> Forall (fun i => info_depth i <= f) its ->
      forall o, ext (flat_map itoks its) (flat_map ioffs its) o (emit_group names indent (map (gmap wtext) its) [] o).
    Proof.
      intros its k H. induction H as [k|i its k H1 H2 IH]; intros Hd o; [apply ext_nil|].
      inversion Hd as [|? ? D1 D2]; subst. destruct H1 as [tag uid line so eo isb t g binc bline k0 Hfind Hblk Hconf].
      cbn [info_depth] in D1.
      assert (Hg : gdepth g <= f) by (pose proof (make_block_depth g binc bline); lia).
      destruct (IHf _ g _ (S indent) Hconf Hg) as (usd & od & Et & Ed & Md & Wd & Nd).
      assert (Etext : wtext (make_block g binc bline) = render usd).
      { unfold IfdataTextProofs.wtext. rewrite (block_text' f g binc bline (S indent) (conf_not_block ftab _ _ _ Hconf)).
        rewrite Et. apply (finish_extends usd _ Ed). }
      cbn [map gmap emit_group flat_map]. rewrite !Etext.
      unfold IfdataFollowProofs.itoks at 1. unfold ioffs at 1. cbn [gmap item_toks item_offs]. rewrite ftoks_make_block, goffs_make_block, <- Md.
      set (sp := [" "%char]).
      assert (Hsp : ws_text sp) by (split; [discriminate | repeat constructor]).
      destruct isb; cbv iota.
      - destruct (add_ws_units indent so o) as (ws1 & Hw1 & E1 & Hn1).
        set (o1 := track_line_comment (render usd) (push (bytes_of "/begin " ++ tag ++ render usd) (add_whitespace indent so o))).
        destruct (add_ws_units indent eo o1) as (ws2 & Hw2 & E2 & Hn2).
        set (o2 := push (bytes_of "/end " ++ tag) (add_whitespace indent eo o1)).
        destruct (IH D2 o2) as (usr & Er & Mr & Wr & Nr).
        exists ([(ws1, (TBegin, begin_text)); (sp, (TIdentifier, tag))] ++ usd ++ [(ws2, (TEnd, end_text)); (sp, (TIdentifier, tag))] ++ usr).
        split; [|split; [|split]].
        + unfold extends in *. rewrite Er. unfold o2. rewrite push_fst, E2. unfold o1. rewrite track_fst, push_fst, E1.
          rewrite !render_app. cbn [render flat_map fst snd]. rewrite !app_nil_r.
          rewrite !rev_app_distr. rewrite <- !app_assoc. reflexivity.
        + rewrite !usnd_app, !usnd_cons, ?usnd_nil, Mr. cbn [fst snd app]. rewrite <- app_assoc. reflexivity.
        + apply Forall_app. split; [constructor; [exact Hw1 | constructor; [exact Hsp | constructor]]|]. apply Forall_app. split; [exact Wd|].
          apply Forall_app. split; [constructor; [exact Hw2 | constructor; [exact Hsp | constructor]] | exact Wr].
        + intros Hs Ht. rewrite !usnd_app in Ht. apply Forall_app in Ht. destruct Ht as [_ Ht]. apply Forall_app in Ht. destruct Ht as [Htk Ht].
          apply Forall_app in Ht. destruct Ht as [_ Htr].
          destruct (Hn1 Hs) as [C1 F1]. destruct (Nd eq_refl Htk) as [_ Mnk].
          assert (Fo1 : snd o1 = false).
          { unfold o1. apply track_clean'; [rewrite push_snd; exact F1 | apply units_all_ok'; assumption]. }
          destruct (Hn2 Fo1) as [C2 F2].
          assert (Fo2 : snd o2 = false) by (unfold o2; rewrite push_snd; exact F2).
          destruct (Nr Fo2 Htr) as [Ffin Mnr]. split; [exact Ffin|].
          assert (Hsp0 : forall sh, nlu (sp, sh) = 0%N) by reflexivity.
          assert (H1 : forall sh, nlu (ws1, sh) = so) by (intros; unfold nlu; cbn [fst]; exact C1).
          assert (H2' : forall sh, nlu (ws2, sh) = eo) by (intros; unfold nlu; cbn [fst]; exact C2).
          rewrite !map_app. cbn [map app]. rewrite !H1, !H2', !Hsp0, Mnk. cbn [map offv app]. rewrite !map_app. cbn [map offv app].
          rewrite <- app_assoc. cbn [app]. do 2 f_equal. apply f_equal. do 2 f_equal. exact Mnr.
      - destruct (add_ws_units indent so o) as (ws1 & Hw1 & E1 & Hn1).
        set (o1 := track_line_comment (render usd) (push ([] ++ tag ++ render usd) (add_whitespace indent so o))).
        destruct (IH D2 o1) as (usr & Er & Mr & Wr & Nr).
        exists ([(ws1, (TIdentifier, tag))] ++ usd ++ usr).
        split; [|split; [|split]].
        + unfold extends in *. rewrite Er. unfold o1. rewrite track_fst, push_fst, E1.
          rewrite !render_app. cbn [render flat_map fst snd app]. rewrite !app_nil_r.
          rewrite !rev_app_distr. rewrite <- !app_assoc. reflexivity.
        + rewrite !usnd_app, !usnd_cons, ?usnd_nil, Mr. reflexivity.
        + apply Forall_app. split; [constructor; [exact Hw1 | constructor]|]. apply Forall_app. split; assumption.
        + intros Hs Ht. rewrite !usnd_app in Ht. apply Forall_app in Ht. destruct Ht as [_ Ht]. apply Forall_app in Ht. destruct Ht as [Htk Htr].
          destruct (Hn1 Hs) as [C1 F1]. destruct (Nd eq_refl Htk) as [_ Mnk].
          assert (Fo1 : snd o1 = false).
          { unfold o1. apply track_clean'; [rewrite push_snd; exact F1 | apply units_all_ok'; assumption]. }
          destruct (Nr Fo1 Htr) as [Ffin Mnr]. split; [exact Ffin|].
          assert (H1 : forall sh, nlu (ws1, sh) = so) by (intros; unfold nlu; cbn [fst]; exact C1).
          rewrite !map_app. cbn [map app]. rewrite !H1, Mnk. cbn [map offv app]. rewrite ?map_app. f_equal. apply f_equal. exact Mnr.
    Qed.

    Section Lists.
      Variable n : nat.
      Hypothesis IHn : forall ty g k o, conf ty g k -> gdepth g <= n -> ext (ftoks g) (goffs g) o (wi n g o).

      Lemma all_lines item : forall l k, conf_all ftab conf item l k -> Forall (fun g => gdepth g <= n) l ->
        forall o, ext (flat_map ftoks l) (flat_map goffs l) o (fold_left (fun acc it => wi n it acc) l o).
      Proof.
        intros l k H. induction H as [k|g gs k H1 H2 IH]; intros Hd o; [apply ext_nil|].
        inversion Hd; subst. cbn [flat_map fold_left]. eapply ext_app; [eapply IHn; eassumption | apply IH; assumption].
      Qed.
      Lemma seq_lines : forall tys l k, conf_seq ftab conf tys l k -> Forall (fun g => gdepth g <= n) l ->
        forall o, ext (flat_map ftoks l) (flat_map goffs l) o (fold_left (fun acc it => wi n it acc) l o).
      Proof.
        intros tys l k H. induction H as [k|ty g tys gs k H1 H2 IH]; intros Hd o; [apply ext_nil|].
        inversion Hd; subst. cbn [flat_map fold_left]. eapply ext_app; [eapply IHn; eassumption | apply IH; assumption].
      Qed.
    End Lists.

    Lemma wi_lines : forall n ty g k o, n <= S f -> conf ty g k -> gdepth g <= n -> ext (ftoks g) (goffs g) o (wi n g o).
    Proof.
      induction n as [|n IH]; intros ty g k o Hn Hconf Hd; [pose proof (gdepth_pos g); lia|].
      assert (IHn : forall ty g k o, conf ty g k -> gdepth g <= n -> ext (ftoks g) (goffs g) o (wi n g o))
        by (intros; eapply IH; [lia | eassumption | assumption]).
      destruct Hconf as [ty variant t off z hex k Hi Hr|off bits k Hok|off bits k Hok|dim off str k|items off e k He
                        |item dim l k Hne Hlen Hall|items inc l k Hall|item l k Hall Hnn Hst|spec tg k Hits Hst Hre|spec k Hst|spec t k Hit];
        cbn [IfdataTextProofs.wi]; try (cbn [IfdataFollowProofs.ftoks goffs]; apply ext_token).
      - cbn [gdepth IfdataFollowProofs.ftoks goffs] in *. exact (all_lines n IHn item l k Hall (list_depths l n Hd) o).
      - cbn [gdepth IfdataFollowProofs.ftoks goffs] in *. exact (seq_lines n IHn items l k Hall (list_depths l n Hd) o).
      - cbn [gdepth IfdataFollowProofs.ftoks goffs] in *. exact (all_lines n IHn item l k Hall (list_depths l n Hd) o).
      - change (IfdataFollowProofs.ftoks ftab (GTaggedStruct tg)) with (flat_map item_toks (group_order (flat_map (fun kv => map (ti_toks ftab) (snd kv)) tg))).
        change (goffs (GTaggedStruct tg)) with (flat_map item_offs (group_order (flat_map (fun kv => map ti_offs (snd kv)) tg))).
        rewrite ftoks_tagged, goffs_tagged. unfold add_group. rewrite (group_payload ftab names f indent), group_order_map.
        apply (emit_lines spec (witems tg) k Hits).
        apply Forall_forall. intros i Hi. pose proof (witems_depth tg i Hi). lia.
      - change (IfdataFollowProofs.ftoks ftab (GTaggedUnion [])) with (@nil shape). change (goffs (GTaggedUnion [])) with (@nil (option N)). apply ext_nil.
      - assert (Et : IfdataFollowProofs.ftoks ftab (GTaggedUnion [(ti_tag t, [t])]) = flat_map itoks [ti_info t])
          by (destruct t; cbn; rewrite ?app_nil_r; reflexivity).
        assert (Eo : goffs (GTaggedUnion [(ti_tag t, [t])]) = flat_map ioffs [ti_info t])
          by (destruct t; cbn; rewrite ?app_nil_r; reflexivity).
        assert (Ew : witems [(ti_tag t, [t])] = [ti_info t]) by (destruct t; reflexivity).
        rewrite Et, Eo. unfold add_group. rewrite (group_payload ftab names f indent), group_order_map. fold (witems [(ti_tag t, [t])]). rewrite Ew.
        apply (emit_lines spec [ti_info t] k).
        + constructor; [cbn [flat_map app]; exact Hit | constructor].
        + constructor; [|constructor]. pose proof (witems_depth [(ti_tag t, [t])] (ti_info t) ltac:(rewrite Ew; left; reflexivity)) as Q.
          cbn [gdepth] in Hd, Q. lia.
    Qed.
  End WI.

  (** in the written text the white space in front of every token holds as many line breaks as the offset stored with it *)
  Theorem gifd_write_lines : forall f ty g k indent, conf ty g k -> gdepth g <= f -> wunits (gifd_write ftab names f g indent) g.
  Proof.
    induction f as [|f IH]; intros ty g k indent Hconf Hd; [pose proof (gdepth_pos g); lia|].
    rewrite gifd_write_eq.
    assert (W : forall n ty g k o, n <= S f -> conf ty g k -> gdepth g <= n -> ext (ftoks g) (goffs g) o (wi ftab names f indent n g o)).
    { intros n ty0 g0 k0 o Hn C0 D0. apply (wi_lines f indent (fun ty g k ind C D => IH ty g k ind C D) n ty0 g0 k0 o Hn C0 D0). }
    assert (Fin : forall o, ext (ftoks g) (goffs g) empty_out o -> wunits (finish o) g).
    { intros o (us & E & M & Wk & Nk). exists us, o. auto. }
    pose proof (conf_not_block ftab _ _ _ Hconf) as Hnb.
    destruct g; try destruct Hnb; try (apply Fin; apply (W (S f) ty _ k); [apply le_n | exact Hconf | exact Hd]).
    inversion Hconf as [| | | | | |tys inc' l' k' Hall| | | |]; subst.
    apply Fin. cbn [gdepth IfdataFollowProofs.ftoks goffs] in *.
    apply (seq_lines f indent (S f) (fun ty g k o C D => W (S f) ty g k o (le_n _) C D) tys items k Hall).
    apply Forall_forall. intros x Hx. pose proof (fold_max_le gdepth items x Hx). lia.
  Qed.

  Corollary gifd_write_line_breaks f ty g k indent : conf ty g k -> gdepth g <= f -> Forall token_text (ftoks g) ->
    exists us, gifd_write ftab names f g indent = render us /\ usnd us = ftoks g /\ map nlu us = map offv (goffs g).
  Proof.
    intros Hconf Hd Ht. destruct (gifd_write_lines f ty g k indent Hconf Hd) as (us & o' & Et & E & M & W & Nn).
    exists us. split; [rewrite Et; apply (finish_extends us _ E)|]. split; [exact M|].
    destruct (Nn eq_refl ltac:(rewrite M; exact Ht)) as [_ Q]. exact Q.
  Qed.
End Lines.
Print Assumptions gifd_write_lines.
Print Assumptions gifd_write_line_breaks.
