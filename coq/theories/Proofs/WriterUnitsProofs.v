(** The text that Gram/Writer.v produces for an element that meets [confb] consists of white space and token texts in
    alternation, and the token texts are [wtoks] (Gram/TokWriter.v).  Together with Proofs/LexUnitsProofs.v: the tokenizer
    cuts the written text into exactly [wtoks], provided every one of these texts is a well-formed token of its type. *)
From Coq Require Import Ascii String List Bool Arith NArith ZArith Lia.
From A2L Require Import Base.StableSort Text.Escape Text.IntText Lex.Tokenizer Gram.Spec A2ml.Types Gram.PState Gram.Parser Gram.Writer
  Gram.TokWriter Proofs.LayoutProofs Proofs.LexUnitsProofs Proofs.WriterFlagProofs Proofs.GroupOrderProofs Proofs.SpecEqProofs Proofs.CursorProofs Proofs.RoundTripProofs.
Import ListNotations.
Local Open Scope N_scope.

Definition unit := (bytes * shape)%type.
Definition usnd (us : list unit) : list shape := map snd us.
Lemma usnd_app (u1 u2 : list unit) : usnd (u1 ++ u2) = usnd u1 ++ usnd u2.
Proof. apply map_app. Qed.
Lemma usnd_cons (u : unit) (us : list unit) : usnd (u :: us) = snd u :: usnd us.
Proof. reflexivity. Qed.
Lemma usnd_nil : usnd [] = [].
Proof. reflexivity. Qed.
Definition ws_ok (u : unit) : Prop := ws_text (fst u).
(* [o'] is [o] with the text of the units [us] appended *)
Definition extends (us : list unit) (o o' : out) : Prop := fst o' = rev (render us) ++ fst o.

Lemma render_app us1 us2 : render (us1 ++ us2) = render us1 ++ render us2.
Proof. unfold render. apply flat_map_app. Qed.

Lemma extends_nil o : extends [] o o.
Proof. reflexivity. Qed.
Lemma extends_trans us1 us2 o o1 o2 : extends us1 o o1 -> extends us2 o1 o2 -> extends (us1 ++ us2) o o2.
Proof. unfold extends. intros H1 H2. rewrite H2, H1, render_app, rev_app_distr, app_assoc. reflexivity. Qed.
Lemma extends_flag us o o' b : extends us o o' -> extends us o (fst o', b).
Proof. exact (fun H => H). Qed.

Lemma push_fst t o : fst (push t o) = rev t ++ fst o.
Proof. unfold push. cbn [fst]. apply rev_append_rev. Qed.

Lemma repeat_bytes_ws b n : Forall (fun c => is_ws c = true) b -> Forall (fun c => is_ws c = true) (repeat_bytes b n).
Proof. intros H. induction n as [|n IH]; cbn [repeat_bytes]; [constructor | apply Forall_app; split; assumption]. Qed.

(* the line breaks in front of every token, against the offsets the writer was given *)
Definition nlu (u : unit) : N := count_newlines (fst u).
Definition offv (o : option N) : N := match o with Some n => n | None => 0 end.
Definition NL (us : list unit) (offs : list (option N)) (o o' : out) : Prop :=
  snd o = false -> Forall token_text (usnd us) -> snd o' = false /\ map nlu us = map offv offs.
Lemma NL_nil o : NL [] [] o o.
Proof. intros H _. split; [exact H | reflexivity]. Qed.
Lemma NL_app u1 u2 x y o o1 o2 : NL u1 x o o1 -> NL u2 y o1 o2 -> NL (u1 ++ u2) (x ++ y) o o2.
Proof.
  intros H1 H2 Hs Ht. rewrite usnd_app in Ht. apply Forall_app in Ht. destruct Ht as [T1 T2].
  destruct (H1 Hs T1) as [Hs1 M1]. destruct (H2 Hs1 T2) as [Hs2 M2]. split; [exact Hs2|]. rewrite !map_app, M1, M2. reflexivity.
Qed.

Lemma add_ws_units indent off o : exists ws, ws_text ws /\ fst (add_whitespace indent off o) = rev ws ++ fst o /\
  (snd o = false -> count_newlines ws = off /\ snd (add_whitespace indent off o) = false).
Proof.
  unfold add_whitespace. set (off' := if (off =? 0) && snd o then 1 else off).
  destruct (N.eqb_spec off' 0) as [E|E].
  - exists [" "%char]. split; [split; [discriminate | repeat constructor]|]. split; [apply push_fst|].
    intros Hs. subst off'. rewrite Hs, andb_false_r in E. subst off. split; [reflexivity | exact Hs].
  - eexists. split; [|split; [cbn [fst]; apply rev_append_rev|]].
    + split.
      * destruct (N.to_nat off') eqn:Q; [lia|]. cbn [repeat_bytes app]. discriminate.
      * apply Forall_app. split; apply repeat_bytes_ws; repeat constructor.
    + intros Hs. subst off'. rewrite Hs, andb_false_r in *. split; [|reflexivity].
      rewrite count_newlines_app, count_newlines_repeat_lf, count_newlines_repeat_sp. lia.
Qed.

Lemma track_fst t o : fst (track_line_comment t o) = fst o.
Proof. unfold track_line_comment. destruct (existsb _ t); [reflexivity|]. destruct (snd o); reflexivity. Qed.

(* one token behind white space *)
Lemma push_snd t o : snd (push t o) = snd o.
Proof. reflexivity. Qed.

Lemma token_unit indent off text o (sh : shape) : snd sh = text ->
  exists us, extends us o (push text (add_whitespace indent off o)) /\ usnd us = [sh] /\ Forall ws_ok us /\
             NL us [Some off] o (push text (add_whitespace indent off o)).
Proof.
  intros <-. destruct (add_ws_units indent off o) as (ws & Hw & E & Hn). exists [(ws, sh)].
  split; [|split; [reflexivity | split; [constructor; [exact Hw | constructor]|]]].
  - unfold extends. rewrite push_fst, E. cbn [render flat_map fst snd]. rewrite app_nil_r, rev_app_distr, app_assoc. reflexivity.
  - intros Hs _. destruct (Hn Hs) as [Hc Hf]. rewrite push_snd. split; [exact Hf|]. unfold nlu, offv. cbn [map fst]. rewrite Hc. reflexivity.
Qed.

Section WU.
  Variable S : spec.
  Variable posrs : list (string * posr).
  Variable ftab : list fentry.
  Variable names : list bytes.

  Lemma scalar_units indent ty v o :
    exists us, extends us o (write_scalar ftab indent ty v o) /\ usnd us = scalar_toks ftab ty v /\ Forall ws_ok us /\
               NL us (scalar_offs ty v) o (write_scalar ftab indent ty v o).
  Proof.
    assert (Nil : exists us, extends us o o /\ usnd us = @nil shape /\ Forall ws_ok us /\ NL us [] o o)
      by (exists []; split; [reflexivity | split; [reflexivity | split; [constructor | apply NL_nil]]]).
    destruct ty; destruct v as [sc off| | |]; try exact Nil; destruct sc as [z hex|bits|str]; try exact Nil;
      cbn [write_scalar scalar_toks scalar_offs]; apply token_unit; reflexivity.
  Qed.

  Lemma scalars_units indent ty : forall l o,
    exists us, extends us o (fold_left (fun acc x => write_scalar ftab indent ty x acc) l o) /\
               usnd us = flat_map (scalar_toks ftab ty) l /\ Forall ws_ok us /\
               NL us (flat_map (scalar_offs ty) l) o (fold_left (fun acc x => write_scalar ftab indent ty x acc) l o).
  Proof.
    induction l as [|x l IH]; intros o; [exists []; split; [reflexivity | split; [reflexivity | split; [constructor | apply NL_nil]]]|].
    cbn [fold_left flat_map].
    destruct (scalar_units indent ty x o) as (u1 & E1 & M1 & W1 & N1).
    destruct (IH (write_scalar ftab indent ty x o)) as (u2 & E2 & M2 & W2 & N2).
    exists (u1 ++ u2). split; [eapply extends_trans; eassumption|]. split; [rewrite usnd_app, M1, M2; reflexivity|].
    split; [apply Forall_app; split; assumption | exact (NL_app _ _ _ _ _ _ _ N1 N2)].
  Qed.

  (* ---------- the children of a group ---------- *)
  Definition kid_text (wi : value -> nat -> out -> out) (indent : nat) (e : entry) : bytes :=
    match l_incfile (layout_of (snd e)) with
    | None => finish (wi (snd e) (Datatypes.S indent) empty_out)
    | Some _ => []
    end.

  Lemma flat_map_cons' {A B} (g : A -> list B) x l : flat_map g (x :: l) = g x ++ flat_map g l.
  Proof. reflexivity. Qed.

  Definition wentry (wi : value -> nat -> out -> out) (indent : nat) (ti : titem) (k : value) : ginfo bytes :=
    let l := layout_of k in
    GTag (bytes_of (ti_tag ti)) (l_incfile l) (l_uid l) (l_line l) (l_so l) (l_eo l) (ti_block ti)
         (match l_incfile l with None => finish (wi k (Datatypes.S indent) empty_out) | Some _ => [] end)
         (pos_restrict S posrs k).
  Definition eentry (i : nat) (ti : titem) (k : value) : ginfo entry :=
    let l := layout_of k in
    GTag (bytes_of (ti_tag ti)) (l_incfile l) (l_uid l) (l_line l) (l_so l) (l_eo l) (ti_block ti) (i, ti, k) (pos_restrict S posrs k).

  Lemma writer_group_is_map wi indent : forall titems mine s,
    flat_map (fun p : titem * list value => map (wentry wi indent (fst p)) (snd p)) (combine titems mine) =
    map (gmap (kid_text wi indent))
        (flat_map (fun p : nat * titem * list value => map (eentry (fst (fst p)) (snd (fst p))) (snd p))
           (combine (combine (seq s (length titems)) titems) mine)).
  Proof.
    induction titems as [|ti r IH]; intros mine s; [reflexivity|]. destruct mine as [|ks mine]; [reflexivity|].
    cbn [length seq combine]. rewrite !flat_map_cons', map_app, (IH mine (Datatypes.S s)). f_equal.
    cbn [fst snd]. rewrite map_map. apply map_ext. intros k. reflexivity.
  Qed.

  Lemma entries_ok_in cr : forall es after e, entries_ok S cr es after = true -> In e es -> exists nxt, entry_ok S cr e nxt = true.
  Proof.
    induction es as [|a es IH]; intros after e H Hin; [destruct Hin|]. cbn [entries_ok] in H. apply andb_true_iff in H. destruct H as [Ha Hr].
    destruct Hin as [<-|Hin]; [eexists; exact Ha | exact (IH after e Hr Hin)].
  Qed.

  Lemma finish_extends us o : extends us empty_out o -> finish o = render us.
  Proof. unfold extends, finish. cbn [fst empty_out]. intros ->. rewrite app_nil_r, frev_rev', rev_involutive. reflexivity. Qed.

  Section Group.
    Variable f : nat.
    Hypothesis IH : forall td v nxt indent o, confb S posrs ftab f td v nxt = true ->
      exists us, extends us o (write_into S posrs ftab names f v indent o) /\ usnd us = wtoks S posrs ftab f v /\ Forall ws_ok us /\
                 NL us (woffs S posrs f v) o (write_into S posrs ftab names f v indent o).

    Definition good_entry (g : ginfo entry) : Prop :=
      match g with
      | GTag tag inc _ _ so eo blk e _ =>
          tag = bytes_of (ti_tag (snd (fst e))) /\ inc = l_incfile (layout_of (snd e)) /\ blk = ti_block (snd (fst e)) /\
          so = l_so (layout_of (snd e)) /\ eo = l_eo (layout_of (snd e)) /\
          exists nxt, entry_ok S (confb S posrs ftab f) e nxt = true
      | GComment _ _ _ _ _ => False
      end.

    Lemma units_all_ok (us : list unit) : Forall ws_ok us -> Forall token_text (usnd us) -> Forall unit_ok us.
    Proof.
      induction us as [|u us IHu]; intros Hw Ht; [constructor|]. inversion Hw; subst. rewrite usnd_cons in Ht. inversion Ht; subst.
      constructor; [split; assumption | apply IHu; assumption].
    Qed.

    Lemma track_clean us o : snd o = false -> Forall unit_ok us -> snd (track_line_comment (render us) o) = false.
    Proof.
      intros Hs Hu. unfold track_line_comment. rewrite Hs, (elc_units us Hu). destruct (existsb _ (render us)); reflexivity.
    Qed.

    Lemma emit_units indent : forall L included o, Forall good_entry L ->
      exists us, extends us o (emit_group names indent (map (gmap (kid_text (write_into S posrs ftab names f) indent)) L) included o) /\
                 usnd us = flat_map (fun e : entry => kid_toks (snd (fst e)) (wtoks S posrs ftab f (snd e))) (flat_map payload L) /\
                 Forall ws_ok us /\
                 NL us (flat_map (fun e : entry => kid_offs (snd (fst e)) (snd e) (woffs S posrs f (snd e))) (flat_map payload L)) o
                    (emit_group names indent (map (gmap (kid_text (write_into S posrs ftab names f) indent)) L) included o).
    Proof.
      induction L as [|g L IHL]; intros included o HL; [exists []; split; [reflexivity | split; [reflexivity | split; [constructor | apply NL_nil]]]|].
      inversion HL as [|? ? Hg HL']; subst. destruct g as [tag inc uid line so eo blk e pos|]; [|destruct Hg].
      destruct Hg as (-> & -> & -> & -> & -> & nxt & Hok). destruct e as [[i ti] k]. cbn [fst snd] in *.
      unfold entry_ok in Hok. cbn [fst snd] in Hok.
      destruct (lookup_ty S (ti_type ti)) as [td|] eqn:El; [|discriminate].
      apply andb_true_iff in Hok. destruct Hok as [Hok Hconf]. apply andb_true_iff in Hok. destruct Hok as [Hok Hinc].
      destruct (l_incfile (layout_of k)) eqn:Einc; [discriminate|].
      cbn [map gmap emit_group].
      destruct (IH td k nxt (Datatypes.S indent) empty_out Hconf) as (usk & Ek & Mk & Wk & Nk).
      assert (Hkt : kid_text (write_into S posrs ftab names f) indent (i, ti, k) = render usk).
      { unfold kid_text. cbn [snd]. rewrite Einc. apply (finish_extends usk _ Ek). }
      rewrite !Hkt.
      set (tagb := bytes_of (ti_tag ti)) in *.
      cbn [flat_map payload app].
      set (so := l_so (layout_of k)) in *. set (eo := l_eo (layout_of k)) in *.
      destruct (ti_block ti) eqn:Hb.
      - (* /begin TAG kid /end TAG *)
        destruct (add_ws_units indent so o) as (ws1 & Hw1 & E1 & Hn1).
        set (o1 := track_line_comment (render usk) (push (bytes_of "/begin " ++ tagb ++ render usk) (add_whitespace indent so o))).
        destruct (add_ws_units indent eo o1) as (ws2 & Hw2 & E2 & Hn2).
        set (o2 := push (bytes_of "/end " ++ tagb) (add_whitespace indent eo o1)).
        destruct (IHL included o2 HL') as (usr & Er & Mr & Wr & Nr).
        set (sp := [" "%char]).
        assert (Hsp : ws_text sp) by (split; [discriminate | repeat constructor]).
        exists ([(ws1, (TBegin, "/"%char :: b_begin)); (sp, (TIdentifier, tagb))] ++ usk ++ [(ws2, (TEnd, "/"%char :: b_end)); (sp, (TIdentifier, tagb))] ++ usr).
        split; [|split; [|split]].
        + unfold extends in *. rewrite Er. unfold o2. rewrite push_fst, E2. unfold o1. rewrite track_fst, push_fst, E1.
          rewrite !render_app. cbn [render flat_map fst snd]. rewrite !app_nil_r.
          rewrite !rev_app_distr. rewrite <- !app_assoc. reflexivity.
        + rewrite !usnd_app, !usnd_cons, ?usnd_nil, Mk, Mr. cbn [fst snd]. unfold kid_toks. rewrite Hb. cbn [app]. rewrite <- app_assoc. reflexivity.
        + apply Forall_app. split; [constructor; [exact Hw1 | constructor; [exact Hsp | constructor]]|]. apply Forall_app. split; [exact Wk|].
          apply Forall_app. split; [constructor; [exact Hw2 | constructor; [exact Hsp | constructor]] | exact Wr].
        + (* the line breaks *)
          intros Hs Ht. rewrite !usnd_app in Ht. apply Forall_app in Ht. destruct Ht as [_ Ht]. apply Forall_app in Ht. destruct Ht as [Htk Ht].
          apply Forall_app in Ht. destruct Ht as [_ Htr].
          destruct (Hn1 Hs) as [C1 F1]. destruct (Nk eq_refl Htk) as [_ Mnk].
          assert (Fo1 : snd o1 = false).
          { unfold o1. apply track_clean; [rewrite push_snd; exact F1 | apply units_all_ok; assumption]. }
          destruct (Hn2 Fo1) as [C2 F2].
          assert (Fo2 : snd o2 = false) by (unfold o2; rewrite push_snd; exact F2).
          destruct (Nr Fo2 Htr) as [Ffin Mnr]. split; [exact Ffin|].
          assert (Hsp0 : forall sh, nlu (sp, sh) = 0) by reflexivity.
          assert (H1 : forall sh, nlu (ws1, sh) = so) by (intros; unfold nlu; cbn [fst]; exact C1).
          assert (H2 : forall sh, nlu (ws2, sh) = eo) by (intros; unfold nlu; cbn [fst]; exact C2).
          rewrite !map_app. cbn [map app]. rewrite !H1, !H2, !Hsp0, Mnk.
          unfold kid_offs. cbn [fst snd]. rewrite Hb. fold so eo. cbn [map offv]. rewrite !map_app. cbn [map offv app].
          rewrite <- !app_assoc. cbn [app]. do 2 f_equal. f_equal. do 2 f_equal. exact Mnr.
      - (* TAG kid *)
        destruct (add_ws_units indent so o) as (ws1 & Hw1 & E1 & Hn1).
        set (o1 := track_line_comment (render usk) (push ([] ++ tagb ++ render usk) (add_whitespace indent so o))).
        destruct (IHL included o1 HL') as (usr & Er & Mr & Wr & Nr).
        exists ([(ws1, (TIdentifier, tagb))] ++ usk ++ usr).
        split; [|split; [|split]].
        + unfold extends in *. rewrite Er. unfold o1. rewrite track_fst, push_fst, E1.
          rewrite !render_app. cbn [render flat_map fst snd app]. rewrite !app_nil_r.
          rewrite !rev_app_distr. rewrite <- !app_assoc. reflexivity.
        + rewrite !usnd_app, !usnd_cons, ?usnd_nil, Mk, Mr. cbn [fst snd]. unfold kid_toks. rewrite Hb. reflexivity.
        + apply Forall_app. split; [constructor; [exact Hw1 | constructor]|]. apply Forall_app. split; assumption.
        + intros Hs Ht. rewrite !usnd_app in Ht. apply Forall_app in Ht. destruct Ht as [_ Ht]. apply Forall_app in Ht. destruct Ht as [Htk Htr].
          destruct (Hn1 Hs) as [C1 F1]. destruct (Nk eq_refl Htk) as [_ Mnk].
          assert (Fo1 : snd o1 = false).
          { unfold o1. apply track_clean; [rewrite push_snd; exact F1 | apply units_all_ok; assumption]. }
          destruct (Nr Fo1 Htr) as [Ffin Mnr]. split; [exact Ffin|].
          assert (H1 : forall sh, nlu (ws1, sh) = so) by (intros; unfold nlu; cbn [fst]; exact C1).
          rewrite !map_app. cbn [map app]. rewrite !H1, Mnk.
          unfold kid_offs. cbn [fst snd]. rewrite Hb. fold so. cbn [map offv app]. do 2 f_equal. exact Mnr.
    Qed.

    (* every entry of the written order comes from the group and carries what [emit_units] needs *)
    Lemma good_entries titems kids after : entries_ok S (confb S posrs ftab f) (ordered_kids S posrs titems kids) after = true ->
      Forall good_entry (group_order (kid_entries S posrs titems kids)).
    Proof.
      intros Hok. apply Forall_forall. intros g Hg.
      assert (Hin : In g (kid_entries S posrs titems kids)) by (apply group_order_in; exact Hg).
      unfold kid_entries in Hin. apply in_flat_map in Hin. destruct Hin as (p & _ & Hin). apply in_map_iff in Hin. destruct Hin as (k & <- & _).
      cbn [good_entry fst snd]. repeat split.
      apply (entries_ok_in (confb S posrs ftab f) (ordered_kids S posrs titems kids) after _ Hok).
      unfold ordered_kids. apply in_flat_map. eexists. split; [exact Hg|]. left. reflexivity.
    Qed.

    Lemma struct_units td x indent o : struct_ok S ftab td x = true -> has_toks (wtoks S posrs ftab f) x = true ->
      exists us, extends us o (write_into S posrs ftab names f x indent o) /\ usnd us = wtoks S posrs ftab f x /\ Forall ws_ok us /\
                 NL us (woffs S posrs f x) o (write_into S posrs ftab names f x indent o).
    Proof.
      intros Hs Ht. destruct f as [|g] eqn:Ef; [unfold has_toks in Ht; cbn [wtoks] in Ht; discriminate|].
      rewrite <- Ef in *. apply (IH td x None). rewrite Ef. apply struct_conf. exact Hs.
    Qed.

    Lemma structs_units td indent : forall l o, (forall x, In x l -> struct_ok S ftab td x = true /\ has_toks (wtoks S posrs ftab f) x = true) ->
      exists us, extends us o (fold_left (fun acc x => write_into S posrs ftab names f x indent acc) l o) /\
                 usnd us = flat_map (wtoks S posrs ftab f) l /\ Forall ws_ok us /\
                 NL us (flat_map (woffs S posrs f) l) o (fold_left (fun acc x => write_into S posrs ftab names f x indent acc) l o).
    Proof.
      induction l as [|x l IHl]; intros o H; [exists []; split; [reflexivity | split; [reflexivity | split; [constructor | apply NL_nil]]]|].
      cbn [fold_left flat_map].
      destruct (H x (or_introl eq_refl)) as [H1 H2].
      destruct (struct_units td x indent o H1 H2) as (u1 & E1 & M1 & W1 & N1).
      destruct (IHl (write_into S posrs ftab names f x indent o) (fun y Hy => H y (or_intror Hy))) as (u2 & E2 & M2 & W2 & N2).
      exists (u1 ++ u2). split; [eapply extends_trans; eassumption|]. split; [rewrite usnd_app, M1, M2; reflexivity|].
      split; [apply Forall_app; split; assumption | exact (NL_app _ _ _ _ _ _ _ N1 N2)].
    Qed.

    Lemma items_units is_block indent : forall its fields kids o after,
      items_ok S posrs ftab (confb S posrs ftab f) (wtoks S posrs ftab f) is_block its fields kids after = true ->
      exists us, extends us o (write_items S posrs ftab names (write_into S posrs ftab names f) is_block indent [] its fields kids o) /\
                 usnd us = items_toks S posrs ftab (wtoks S posrs ftab f) its fields kids /\ Forall ws_ok us /\
                 NL us (items_offs S posrs (woffs S posrs f) its fields kids) o
                    (write_items S posrs ftab names (write_into S posrs ftab names f) is_block indent [] its fields kids o).
    Proof.
      induction its as [|it its IHi]; intros fields kids o after Hok;
        [exists []; split; [reflexivity | split; [reflexivity | split; [constructor | apply NL_nil]]]|].
      destruct it as [fname ty | union last titems].
      - cbn [items_ok] in Hok. destruct fields as [|fv fr]; [discriminate|]. apply andb_true_iff in Hok. destruct Hok as [Hf Hr].
        cbn [write_items items_toks items_offs].
        assert (Hfield : forall o0, exists us, extends us o0
                   (match ty, fv with
                    | FStruct _, _ => write_into S posrs ftab names f fv indent o0
                    | FArray t _, VList l => fold_left (fun acc x => write_scalar ftab indent t x acc) l o0
                    | FSeq (FStruct _) _, VList l => fold_left (fun acc x => write_into S posrs ftab names f x indent acc) l o0
                    | FSeq t _, VList l => fold_left (fun acc x => write_scalar ftab indent t x acc) l o0
                    | _, _ => write_scalar ftab indent ty fv o0
                    end) /\ usnd us = field_toks ftab (wtoks S posrs ftab f) ty fv /\ Forall ws_ok us /\
                   NL us (field_offs (woffs S posrs f) ty fv) o0
                   (match ty, fv with
                    | FStruct _, _ => write_into S posrs ftab names f fv indent o0
                    | FArray t _, VList l => fold_left (fun acc x => write_scalar ftab indent t x acc) l o0
                    | FSeq (FStruct _) _, VList l => fold_left (fun acc x => write_into S posrs ftab names f x indent acc) l o0
                    | FSeq t _, VList l => fold_left (fun acc x => write_scalar ftab indent t x acc) l o0
                    | _, _ => write_scalar ftab indent ty fv o0
                    end)).
        { intros o0. destruct ty.
          1-7: (destruct fv; apply scalar_units).
          - cbn [field_ok] in Hf. cbn [field_toks field_offs]. destruct (lookup_ty S s) as [td|]; [|discriminate].
            apply andb_true_iff in Hf. destruct Hf as [H1 H2]. apply (struct_units td fv indent o0 H1 H2).
          - destruct fv as [| l | |]; try apply scalar_units. cbn [field_toks field_offs]. apply scalars_units.
          - destruct fv as [| l | |]; try (destruct ty; apply scalar_units).
            destruct ty; try (cbn [field_toks field_offs]; apply scalars_units).
            cbn [field_ok] in Hf. cbn [field_toks field_offs]. destruct (lookup_ty S s) as [td|]; [|discriminate].
            apply andb_true_iff in Hf. destruct Hf as [Hf _]. apply andb_true_iff in Hf. destruct Hf as [_ Hall].
            apply (structs_units td indent l o0). intros x Hx. rewrite forallb_forall in Hall. specialize (Hall x Hx).
            apply andb_true_iff in Hall. exact Hall. }
        destruct (Hfield o) as (u1 & E1 & M1 & W1 & N1).
        match goal with
        | |- context [write_items _ _ _ _ _ _ _ _ its fr kids ?o1] => destruct (IHi fr kids o1 after Hr) as (u2 & E2 & M2 & W2 & N2)
        end.
        exists (u1 ++ u2). split; [eapply extends_trans; [exact E1 | exact E2]|].
        split; [rewrite usnd_app, M1, M2; reflexivity|]. split; [apply Forall_app; split; assumption | exact (NL_app _ _ _ _ _ _ _ N1 N2)].
      - cbn [items_ok] in Hok.
        apply andb_true_iff in Hok. destruct Hok as [Hok Hmu].
        apply andb_true_iff in Hok. destruct Hok as [Hok Hen].
        apply andb_true_iff in Hok. destruct Hok as [Hok Htd].
        apply andb_true_iff in Hok. destruct Hok as [Hok Hlk].
        apply andb_true_iff in Hok. destruct Hok as [Hok Hfe].
        apply andb_true_iff in Hok. destruct Hok as [Hok Hre].
        apply andb_true_iff in Hok. destruct Hok as [Hun Hib].
        destruct its as [|]; [|discriminate]. destruct fields as [|]; [|discriminate].
        apply Nat.eqb_eq in Hlk. subst is_block.
        cbn [write_items items_toks items_offs]. rewrite <- Hlk, firstn_all, ?app_nil_r. cbn [map]. rewrite ?app_nil_r.
        unfold add_group.
        change (flat_map _ (combine titems kids)) with
          (flat_map (fun p : titem * list value => map (wentry (write_into S posrs ftab names f) indent (fst p)) (snd p)) (combine titems kids)).
        rewrite (writer_group_is_map (write_into S posrs ftab names f) indent titems kids 0).
        change (flat_map _ (combine (combine (seq 0 (length titems)) titems) kids)) with (kid_entries S posrs titems kids).
        rewrite group_order_map.
        destruct (emit_units indent (group_order (kid_entries S posrs titems kids)) [] o (good_entries titems kids after Hen)) as (us & E & M & W & Nn).
        exists us. split; [exact E|]. split; [exact M|]. split; [exact W | exact Nn].
    Qed.
  End Group.

  Theorem write_units : forall f td v nxt indent o, confb S posrs ftab f td v nxt = true ->
    exists us, extends us o (write_into S posrs ftab names f v indent o) /\ usnd us = wtoks S posrs ftab f v /\ Forall ws_ok us /\
               NL us (woffs S posrs f v) o (write_into S posrs ftab names f v indent o).
  Proof.
    induction f as [|f IH]; intros td v nxt indent o Hconf; [discriminate|].
    cbn [confb] in Hconf. destruct v as [| |ty lay fields kids cms|]; try discriminate.
    apply andb_true_iff in Hconf. destruct Hconf as [Hconf Hitems].
    apply andb_true_iff in Hconf. destruct Hconf as [Hconf Hcms].
    apply andb_true_iff in Hconf. destruct Hconf as [Hconf Hkind].
    apply andb_true_iff in Hconf. destruct Hconf as [Hconf Hsp].
    apply andb_true_iff in Hconf. destruct Hconf as [Hname Hlk].
    apply String.eqb_eq in Hname. subst ty.
    destruct (lookup_ty S (t_name td)) as [td'|] eqn:El; [|discriminate]. apply tydef_eqb_eq in Hlk. subst td'.
    destruct cms; [|discriminate]. destruct (t_special td) eqn:Esp; [discriminate|].
    cbn [write_into wtoks woffs]. rewrite El, Esp.
    apply (items_units f IH _ indent (t_items td) fields kids o _ Hitems).
  Qed.
End WU.
Print Assumptions write_units.
