(** The text that Gram/Writer.v produces for an element that meets [confb] consists of white space and token texts in
    alternation, and the token texts are [wtoks] (Gram/TokWriter.v).  Together with Proofs/LexUnitsProofs.v: the tokenizer
    cuts the written text into exactly [wtoks], provided every one of these texts is a well-formed token of its type. *)
From Coq Require Import Ascii String List Bool Arith NArith ZArith Lia.
From A2L Require Import Base.StableSort Text.Escape Text.IntText Lex.Tokenizer Gram.Spec A2ml.Types Gram.PState Gram.Parser Gram.Writer
  Gram.TokWriter Proofs.LexUnitsProofs Proofs.GroupOrderProofs Proofs.SpecEqProofs Proofs.CursorProofs Proofs.RoundTripProofs.
Import ListNotations.
Local Open Scope N_scope.

Definition unit := (bytes * shape)%type.
Definition usnd (us : list unit) : list shape := map snd us.
Lemma usnd_app (u1 u2 : list unit) : usnd (u1 ++ u2) = usnd u1 ++ usnd u2.
Proof. apply map_app. Qed.
Lemma usnd_cons (u : unit) (us : list unit) : usnd (u :: us) = snd u :: usnd us.
Proof. reflexivity. Qed.
Lemma usnd_nil : usnd [] = [].
Proof. reflexivity. Qed.
Definition ws_ok (u : unit) : Prop := ws_text (fst u).
(* [o'] is [o] with the text of the units [us] appended *)
Definition extends (us : list unit) (o o' : out) : Prop := fst o' = rev (render us) ++ fst o.

Lemma render_app us1 us2 : render (us1 ++ us2) = render us1 ++ render us2.
Proof. unfold render. apply flat_map_app. Qed.

Lemma extends_nil o : extends [] o o.
Proof. reflexivity. Qed.
Lemma extends_trans us1 us2 o o1 o2 : extends us1 o o1 -> extends us2 o1 o2 -> extends (us1 ++ us2) o o2.
Proof. unfold extends. intros H1 H2. rewrite H2, H1, render_app, rev_app_distr, app_assoc. reflexivity. Qed.
Lemma extends_flag us o o' b : extends us o o' -> extends us o (fst o', b).
Proof. exact (fun H => H). Qed.

Lemma push_fst t o : fst (push t o) = rev t ++ fst o.
Proof. unfold push. cbn [fst]. apply rev_append_rev. Qed.

Lemma repeat_bytes_ws b n : Forall (fun c => is_ws c = true) b -> Forall (fun c => is_ws c = true) (repeat_bytes b n).
Proof. intros H. induction n as [|n IH]; cbn [repeat_bytes]; [constructor | apply Forall_app; split; assumption]. Qed.

Lemma add_ws_units indent off o : exists ws, ws_text ws /\ fst (add_whitespace indent off o) = rev ws ++ fst o.
Proof.
  unfold add_whitespace. set (off' := if (off =? 0) && snd o then 1 else off).
  destruct (N.eqb_spec off' 0) as [E|E].
  - exists [" "%char]. split; [split; [discriminate | repeat constructor]|]. apply push_fst.
  - eexists. split; [|cbn [fst]; apply rev_append_rev].
    split.
    + destruct (N.to_nat off') eqn:Q; [lia|]. cbn [repeat_bytes app]. discriminate.
    + apply Forall_app. split; apply repeat_bytes_ws; repeat constructor.
Qed.

Lemma track_fst t o : fst (track_line_comment t o) = fst o.
Proof. unfold track_line_comment. destruct (existsb _ t); [reflexivity|]. destruct (snd o); reflexivity. Qed.

(* one token behind white space *)
Lemma token_unit indent off text o (sh : shape) : snd sh = text ->
  exists us, extends us o (push text (add_whitespace indent off o)) /\ usnd us = [sh] /\ Forall ws_ok us.
Proof.
  intros <-. destruct (add_ws_units indent off o) as (ws & Hw & E). exists [(ws, sh)]. split; [|split; [reflexivity | constructor; [exact Hw | constructor]]].
  unfold extends. rewrite push_fst, E. cbn [render flat_map fst snd]. rewrite app_nil_r, rev_app_distr, app_assoc. reflexivity.
Qed.

Section WU.
  Variable S : spec.
  Variable posrs : list (string * posr).
  Variable ftab : list fentry.
  Variable names : list bytes.

  Lemma scalar_units indent ty v o :
    exists us, extends us o (write_scalar ftab indent ty v o) /\ usnd us = scalar_toks ftab ty v /\ Forall ws_ok us.
  Proof.
    assert (Nil : exists us, extends us o o /\ usnd us = @nil shape /\ Forall ws_ok us) by (exists []; repeat split; constructor).
    destruct ty; destruct v as [sc off| | |]; try exact Nil; destruct sc as [z hex|bits|str]; try exact Nil; cbn [write_scalar scalar_toks];
      apply token_unit; reflexivity.
  Qed.

  Lemma scalars_units indent ty : forall l o,
    exists us, extends us o (fold_left (fun acc x => write_scalar ftab indent ty x acc) l o) /\
               usnd us = flat_map (scalar_toks ftab ty) l /\ Forall ws_ok us.
  Proof.
    induction l as [|x l IH]; intros o; [exists []; repeat split; constructor|]. cbn [fold_left flat_map].
    destruct (scalar_units indent ty x o) as (u1 & E1 & M1 & W1).
    destruct (IH (write_scalar ftab indent ty x o)) as (u2 & E2 & M2 & W2).
    exists (u1 ++ u2). split; [eapply extends_trans; eassumption|]. split; [rewrite usnd_app, M1, M2; reflexivity | apply Forall_app; split; assumption].
  Qed.

  (* ---------- the children of a group ---------- *)
  Definition kid_text (wi : value -> nat -> out -> out) (indent : nat) (e : entry) : bytes :=
    match l_incfile (layout_of (snd e)) with
    | None => finish (wi (snd e) (Datatypes.S indent) empty_out)
    | Some _ => []
    end.

  Lemma flat_map_cons' {A B} (g : A -> list B) x l : flat_map g (x :: l) = g x ++ flat_map g l.
  Proof. reflexivity. Qed.

  Definition wentry (wi : value -> nat -> out -> out) (indent : nat) (ti : titem) (k : value) : ginfo bytes :=
    let l := layout_of k in
    GTag (bytes_of (ti_tag ti)) (l_incfile l) (l_uid l) (l_line l) (l_so l) (l_eo l) (ti_block ti)
         (match l_incfile l with None => finish (wi k (Datatypes.S indent) empty_out) | Some _ => [] end)
         (pos_restrict S posrs k).
  Definition eentry (i : nat) (ti : titem) (k : value) : ginfo entry :=
    let l := layout_of k in
    GTag (bytes_of (ti_tag ti)) (l_incfile l) (l_uid l) (l_line l) (l_so l) (l_eo l) (ti_block ti) (i, ti, k) (pos_restrict S posrs k).

  Lemma writer_group_is_map wi indent : forall titems mine s,
    flat_map (fun p : titem * list value => map (wentry wi indent (fst p)) (snd p)) (combine titems mine) =
    map (gmap (kid_text wi indent))
        (flat_map (fun p : nat * titem * list value => map (eentry (fst (fst p)) (snd (fst p))) (snd p))
           (combine (combine (seq s (length titems)) titems) mine)).
  Proof.
    induction titems as [|ti r IH]; intros mine s; [reflexivity|]. destruct mine as [|ks mine]; [reflexivity|].
    cbn [length seq combine]. rewrite !flat_map_cons', map_app, (IH mine (Datatypes.S s)). f_equal.
    cbn [fst snd]. rewrite map_map. apply map_ext. intros k. reflexivity.
  Qed.

  Lemma entries_ok_in cr : forall es after e, entries_ok S cr es after = true -> In e es -> exists nxt, entry_ok S cr e nxt = true.
  Proof.
    induction es as [|a es IH]; intros after e H Hin; [destruct Hin|]. cbn [entries_ok] in H. apply andb_true_iff in H. destruct H as [Ha Hr].
    destruct Hin as [<-|Hin]; [eexists; exact Ha | exact (IH after e Hr Hin)].
  Qed.

  Lemma finish_extends us o : extends us empty_out o -> finish o = render us.
  Proof. unfold extends, finish. cbn [fst empty_out]. intros ->. rewrite app_nil_r, frev_rev', rev_involutive. reflexivity. Qed.

  Section Group.
    Variable f : nat.
    Hypothesis IH : forall td v nxt indent o, confb S posrs ftab f td v nxt = true ->
      exists us, extends us o (write_into S posrs ftab names f v indent o) /\ usnd us = wtoks S posrs ftab f v /\ Forall ws_ok us.

    Definition good_entry (g : ginfo entry) : Prop :=
      match g with
      | GTag tag inc _ _ _ _ blk e _ =>
          tag = bytes_of (ti_tag (snd (fst e))) /\ inc = l_incfile (layout_of (snd e)) /\ blk = ti_block (snd (fst e)) /\
          exists nxt, entry_ok S (confb S posrs ftab f) e nxt = true
      | GComment _ _ _ _ _ => False
      end.

    Lemma emit_units indent : forall L included o, Forall good_entry L ->
      exists us, extends us o (emit_group names indent (map (gmap (kid_text (write_into S posrs ftab names f) indent)) L) included o) /\
                 usnd us = flat_map (fun e : entry => kid_toks (snd (fst e)) (wtoks S posrs ftab f (snd e))) (flat_map payload L) /\
                 Forall ws_ok us.
    Proof.
      induction L as [|g L IHL]; intros included o HL; [exists []; repeat split; constructor|].
      inversion HL as [|? ? Hg HL']; subst. destruct g as [tag inc uid line so eo blk e pos|]; [|destruct Hg].
      destruct Hg as (-> & -> & -> & nxt & Hok). destruct e as [[i ti] k]. cbn [fst snd] in *.
      unfold entry_ok in Hok. cbn [fst snd] in Hok.
      destruct (lookup_ty S (ti_type ti)) as [td|] eqn:El; [|discriminate].
      apply andb_true_iff in Hok. destruct Hok as [Hok Hconf]. apply andb_true_iff in Hok. destruct Hok as [Hok Hinc].
      destruct (l_incfile (layout_of k)) eqn:Einc; [discriminate|].
      cbn [map gmap emit_group].
      destruct (IH td k nxt (Datatypes.S indent) empty_out Hconf) as (usk & Ek & Mk & Wk).
      assert (Hkt : kid_text (write_into S posrs ftab names f) indent (i, ti, k) = render usk).
      { unfold kid_text. cbn [snd]. rewrite Einc. apply (finish_extends usk _ Ek). }
      rewrite !Hkt.
      set (tagb := bytes_of (ti_tag ti)) in *.
      cbn [flat_map payload app]. 
      destruct (ti_block ti) eqn:Hb.
      - (* /begin TAG kid /end TAG *)
        destruct (add_ws_units indent so o) as (ws1 & Hw1 & E1).
        set (o1 := track_line_comment (render usk) (push (bytes_of "/begin " ++ tagb ++ render usk) (add_whitespace indent so o))).
        destruct (add_ws_units indent eo o1) as (ws2 & Hw2 & E2).
        set (o2 := push (bytes_of "/end " ++ tagb) (add_whitespace indent eo o1)).
        destruct (IHL included o2 HL') as (usr & Er & Mr & Wr).
        set (sp := [" "%char]).
        assert (Hsp : ws_text sp) by (split; [discriminate | repeat constructor]).
        exists ([(ws1, (TBegin, "/"%char :: b_begin)); (sp, (TIdentifier, tagb))] ++ usk ++ [(ws2, (TEnd, "/"%char :: b_end)); (sp, (TIdentifier, tagb))] ++ usr).
        split; [|split].
        + unfold extends in *. rewrite Er. unfold o2. rewrite push_fst, E2. unfold o1. rewrite track_fst, push_fst, E1.
          rewrite !render_app. cbn [render flat_map fst snd]. rewrite !app_nil_r.
          rewrite !rev_app_distr. rewrite <- !app_assoc. reflexivity.
        + rewrite !usnd_app, !usnd_cons, ?usnd_nil, Mk, Mr. cbn [fst snd]. unfold kid_toks. rewrite Hb. cbn [app]. rewrite <- app_assoc. reflexivity.
        + apply Forall_app. split; [constructor; [exact Hw1 | constructor; [exact Hsp | constructor]]|]. apply Forall_app. split; [exact Wk|].
          apply Forall_app. split; [constructor; [exact Hw2 | constructor; [exact Hsp | constructor]] | exact Wr].
      - (* TAG kid *)
        destruct (add_ws_units indent so o) as (ws1 & Hw1 & E1).
        set (o1 := track_line_comment (render usk) (push ([] ++ tagb ++ render usk) (add_whitespace indent so o))).
        destruct (IHL included o1 HL') as (usr & Er & Mr & Wr).
        exists ([(ws1, (TIdentifier, tagb))] ++ usk ++ usr).
        split; [|split].
        + unfold extends in *. rewrite Er. unfold o1. rewrite track_fst, push_fst, E1.
          rewrite !render_app. cbn [render flat_map fst snd app]. rewrite !app_nil_r.
          rewrite !rev_app_distr. rewrite <- !app_assoc. reflexivity.
        + rewrite !usnd_app, !usnd_cons, ?usnd_nil, Mk, Mr. cbn [fst snd]. unfold kid_toks. rewrite Hb. reflexivity.
        + apply Forall_app. split; [constructor; [exact Hw1 | constructor]|]. apply Forall_app. split; assumption.
    Qed.

    (* every entry of the written order comes from the group and carries what [emit_units] needs *)
    Lemma good_entries titems kids after : entries_ok S (confb S posrs ftab f) (ordered_kids S posrs titems kids) after = true ->
      Forall good_entry (group_order (kid_entries S posrs titems kids)).
    Proof.
      intros Hok. apply Forall_forall. intros g Hg.
      assert (Hin : In g (kid_entries S posrs titems kids)) by (apply group_order_in; exact Hg).
      unfold kid_entries in Hin. apply in_flat_map in Hin. destruct Hin as (p & _ & Hin). apply in_map_iff in Hin. destruct Hin as (k & <- & _).
      cbn [good_entry fst snd]. repeat split.
      apply (entries_ok_in (confb S posrs ftab f) (ordered_kids S posrs titems kids) after _ Hok).
      unfold ordered_kids. apply in_flat_map. eexists. split; [exact Hg|]. left. reflexivity.
    Qed.

    Lemma struct_units td x indent o : struct_ok S ftab td x = true -> has_toks (wtoks S posrs ftab f) x = true ->
      exists us, extends us o (write_into S posrs ftab names f x indent o) /\ usnd us = wtoks S posrs ftab f x /\ Forall ws_ok us.
    Proof.
      intros Hs Ht. destruct f as [|g] eqn:Ef; [unfold has_toks in Ht; cbn [wtoks] in Ht; discriminate|].
      rewrite <- Ef in *. apply (IH td x None). rewrite Ef. apply struct_conf. exact Hs.
    Qed.

    Lemma structs_units td indent : forall l o, (forall x, In x l -> struct_ok S ftab td x = true /\ has_toks (wtoks S posrs ftab f) x = true) ->
      exists us, extends us o (fold_left (fun acc x => write_into S posrs ftab names f x indent acc) l o) /\
                 usnd us = flat_map (wtoks S posrs ftab f) l /\ Forall ws_ok us.
    Proof.
      induction l as [|x l IHl]; intros o H; [exists []; repeat split; constructor|]. cbn [fold_left flat_map].
      destruct (H x (or_introl eq_refl)) as [H1 H2].
      destruct (struct_units td x indent o H1 H2) as (u1 & E1 & M1 & W1).
      destruct (IHl (write_into S posrs ftab names f x indent o) (fun y Hy => H y (or_intror Hy))) as (u2 & E2 & M2 & W2).
      exists (u1 ++ u2). split; [eapply extends_trans; eassumption|]. split; [rewrite usnd_app, M1, M2; reflexivity | apply Forall_app; split; assumption].
    Qed.

    Lemma items_units is_block indent : forall its fields kids o after,
      items_ok S posrs ftab (confb S posrs ftab f) (wtoks S posrs ftab f) is_block its fields kids after = true ->
      exists us, extends us o (write_items S posrs ftab names (write_into S posrs ftab names f) is_block indent [] its fields kids o) /\
                 usnd us = items_toks S posrs ftab (wtoks S posrs ftab f) its fields kids /\ Forall ws_ok us.
    Proof.
      induction its as [|it its IHi]; intros fields kids o after Hok; [exists []; repeat split; constructor|].
      destruct it as [fname ty | union last titems].
      - cbn [items_ok] in Hok. destruct fields as [|fv fr]; [discriminate|]. apply andb_true_iff in Hok. destruct Hok as [Hf Hr].
        cbn [write_items items_toks].
        assert (Hfield : forall o0, exists us, extends us o0
                   (match ty, fv with
                    | FStruct _, _ => write_into S posrs ftab names f fv indent o0
                    | FArray t _, VList l => fold_left (fun acc x => write_scalar ftab indent t x acc) l o0
                    | FSeq (FStruct _) _, VList l => fold_left (fun acc x => write_into S posrs ftab names f x indent acc) l o0
                    | FSeq t _, VList l => fold_left (fun acc x => write_scalar ftab indent t x acc) l o0
                    | _, _ => write_scalar ftab indent ty fv o0
                    end) /\ usnd us = field_toks ftab (wtoks S posrs ftab f) ty fv /\ Forall ws_ok us).
        { intros o0. destruct ty.
          1-7: (destruct fv; apply scalar_units).
          - cbn [field_ok] in Hf. cbn [field_toks]. destruct (lookup_ty S s) as [td|]; [|discriminate].
            apply andb_true_iff in Hf. destruct Hf as [H1 H2]. apply (struct_units td fv indent o0 H1 H2).
          - destruct fv as [| l | |]; try apply scalar_units. cbn [field_toks]. apply scalars_units.
          - destruct fv as [| l | |]; try (destruct ty; apply scalar_units).
            destruct ty; try (cbn [field_toks]; apply scalars_units).
            cbn [field_ok] in Hf. cbn [field_toks]. destruct (lookup_ty S s) as [td|]; [|discriminate].
            apply andb_true_iff in Hf. destruct Hf as [Hf _]. apply andb_true_iff in Hf. destruct Hf as [_ Hall].
            apply (structs_units td indent l o0). intros x Hx. rewrite forallb_forall in Hall. specialize (Hall x Hx).
            apply andb_true_iff in Hall. exact Hall. }
        destruct (Hfield o) as (u1 & E1 & M1 & W1).
        match goal with
        | |- context [write_items _ _ _ _ _ _ _ _ its fr kids ?o1] => destruct (IHi fr kids o1 after Hr) as (u2 & E2 & M2 & W2)
        end.
        exists (u1 ++ u2). split; [eapply extends_trans; [exact E1 | exact E2]|].
        split; [rewrite usnd_app, M1, M2; reflexivity | apply Forall_app; split; assumption].
      - cbn [items_ok] in Hok.
        apply andb_true_iff in Hok. destruct Hok as [Hok Hmu].
        apply andb_true_iff in Hok. destruct Hok as [Hok Hen].
        apply andb_true_iff in Hok. destruct Hok as [Hok Htd].
        apply andb_true_iff in Hok. destruct Hok as [Hok Hlk].
        apply andb_true_iff in Hok. destruct Hok as [Hok Hfe].
        apply andb_true_iff in Hok. destruct Hok as [Hok Hre].
        apply andb_true_iff in Hok. destruct Hok as [Hun Hib].
        destruct its as [|]; [|discriminate]. destruct fields as [|]; [|discriminate].
        apply Nat.eqb_eq in Hlk. subst is_block.
        cbn [write_items items_toks]. rewrite <- Hlk, firstn_all, app_nil_r. cbn [map]. rewrite app_nil_r.
        unfold add_group.
        change (flat_map _ (combine titems kids)) with
          (flat_map (fun p : titem * list value => map (wentry (write_into S posrs ftab names f) indent (fst p)) (snd p)) (combine titems kids)).
        rewrite (writer_group_is_map (write_into S posrs ftab names f) indent titems kids 0).
        change (flat_map _ (combine (combine (seq 0 (length titems)) titems) kids)) with (kid_entries S posrs titems kids).
        rewrite group_order_map.
        destruct (emit_units indent (group_order (kid_entries S posrs titems kids)) [] o (good_entries titems kids after Hen)) as (us & E & M & W).
        exists us. split; [exact E|]. split; [exact M | exact W].
    Qed.
  End Group.

  Theorem write_units : forall f td v nxt indent o, confb S posrs ftab f td v nxt = true ->
    exists us, extends us o (write_into S posrs ftab names f v indent o) /\ usnd us = wtoks S posrs ftab f v /\ Forall ws_ok us.
  Proof.
    induction f as [|f IH]; intros td v nxt indent o Hconf; [discriminate|].
    cbn [confb] in Hconf. destruct v as [| |ty lay fields kids cms|]; try discriminate.
    apply andb_true_iff in Hconf. destruct Hconf as [Hconf Hitems].
    apply andb_true_iff in Hconf. destruct Hconf as [Hconf Hcms].
    apply andb_true_iff in Hconf. destruct Hconf as [Hconf Hkind].
    apply andb_true_iff in Hconf. destruct Hconf as [Hconf Hsp].
    apply andb_true_iff in Hconf. destruct Hconf as [Hname Hlk].
    apply String.eqb_eq in Hname. subst ty.
    destruct (lookup_ty S (t_name td)) as [td'|] eqn:El; [|discriminate]. apply tydef_eqb_eq in Hlk. subst td'.
    destruct cms; [|discriminate]. destruct (t_special td) eqn:Esp; [discriminate|].
    cbn [write_into wtoks]. rewrite El, Esp.
    apply (items_units f IH _ indent (t_items td) fields kids o _ Hitems).
  Qed.
End WU.
Print Assumptions write_units.
