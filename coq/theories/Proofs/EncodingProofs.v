(** C17: for every one of the ten encodings, decoding the encoded text and stripping the BOM gives the
    UTF-8 form of the text.  Text = non-empty list of Unicode scalar values without NUL whose first
    character is ASCII (as the A2L format requires). *)
From Coq Require Import List NArith ZArith Bool Lia ZifyBool ZifyN.
From A2L Require Import Lib.Encoding.
Import ListNotations.
Local Open Scope N_scope.
Ltac Zify.zify_post_hook ::= Z.div_mod_to_equations.

Definition scalar_nz (c : N) : Prop := is_scalar c = true /\ c <> 0.
Definition text_ok (t : list N) : Prop :=
  match t with
  | c0 :: _ => 0 < c0 /\ c0 < 0x80 /\ Forall scalar_nz t
  | [] => False
  end.

Lemma is_scalar_bound c : is_scalar c = true -> c <= 0x10FFFF /\ (c < 0xD800 \/ 0xDFFF < c).
Proof. unfold is_scalar. lia. Qed.

(* ---------- UTF-8 ---------- *)
Lemma utf8_enc1_nonzero c : c <> 0 -> Forall (fun b => b <> 0) (utf8_enc1 c).
Proof.
  intros H. unfold utf8_enc1.
  destruct (c <? 0x80) eqn:E1; [repeat constructor; assumption|].
  destruct (c <? 0x800) eqn:E2; [repeat constructor; lia|].
  destruct (c <? 0x10000) eqn:E3; repeat constructor; lia.
Qed.

Lemma utf8_enc1_length c : (1 <= length (utf8_enc1 c))%nat.
Proof.
  unfold utf8_enc1. destruct (c <? 0x80); [simpl; lia|]. destruct (c <? 0x800); [simpl; lia|].
  destruct (c <? 0x10000); simpl; lia.
Qed.

Lemma utf8_valid_step c rest fuel : is_scalar c = true -> (length (utf8_enc1 c ++ rest) <= fuel)%nat ->
  utf8_valid_fuel fuel (utf8_enc1 c ++ rest) = utf8_valid_fuel (pred fuel) rest.
Proof.
  intros Hs Hf. apply is_scalar_bound in Hs. destruct Hs as [Hmax Hsur].
  destruct fuel as [|f]; [pose proof (utf8_enc1_length c); rewrite app_length in Hf; lia|].
  cbn [pred]. unfold utf8_enc1.
  destruct (c <? 0x80) eqn:E1.
  { cbn [app utf8_valid_fuel]. rewrite E1. reflexivity. }
  destruct (c <? 0x800) eqn:E2.
  { cbn [app utf8_valid_fuel].
    replace (0xC0 + c / 64 <? 0x80) with false by lia.
    replace ((0xC2 <=? 0xC0 + c / 64) && (0xC0 + c / 64 <=? 0xDF)) with true by lia.
    unfold is_cont. replace ((0x80 <=? 0x80 + c mod 64) && (0x80 + c mod 64 <=? 0xBF)) with true by lia.
    reflexivity. }
  destruct (c <? 0x10000) eqn:E3.
  { cbn [app utf8_valid_fuel].
    replace (0xE0 + c / 4096 <? 0x80) with false by lia.
    replace ((0xC2 <=? 0xE0 + c / 4096) && (0xE0 + c / 4096 <=? 0xDF)) with false by lia.
    replace ((0xE0 <=? 0xE0 + c / 4096) && (0xE0 + c / 4096 <=? 0xEF)) with true by lia.
    unfold is_cont.
    replace ((0x80 <=? 0x80 + c mod 64) && (0x80 + c mod 64 <=? 0xBF)) with true by lia.
    destruct (0xE0 + c / 4096 =? 0xE0) eqn:E4.
    { replace ((0xA0 <=? 0x80 + (c / 64) mod 64) && (0x80 + (c / 64) mod 64 <=? 0xBF)) with true by lia. reflexivity. }
    destruct (0xE0 + c / 4096 =? 0xED) eqn:E5.
    { replace ((0x80 <=? 0x80 + (c / 64) mod 64) && (0x80 + (c / 64) mod 64 <=? 0x9F)) with true by lia. reflexivity. }
    replace ((0x80 <=? 0x80 + (c / 64) mod 64) && (0x80 + (c / 64) mod 64 <=? 0xBF)) with true by lia. reflexivity. }
  cbn [app utf8_valid_fuel].
  replace (0xF0 + c / 262144 <? 0x80) with false by lia.
  replace ((0xC2 <=? 0xF0 + c / 262144) && (0xF0 + c / 262144 <=? 0xDF)) with false by lia.
  replace ((0xE0 <=? 0xF0 + c / 262144) && (0xF0 + c / 262144 <=? 0xEF)) with false by lia.
  replace ((0xF0 <=? 0xF0 + c / 262144) && (0xF0 + c / 262144 <=? 0xF4)) with true by lia.
  unfold is_cont.
  replace ((0x80 <=? 0x80 + c mod 64) && (0x80 + c mod 64 <=? 0xBF)) with true by lia.
  replace ((0x80 <=? 0x80 + (c / 64) mod 64) && (0x80 + (c / 64) mod 64 <=? 0xBF)) with true by lia.
  destruct (0xF0 + c / 262144 =? 0xF0) eqn:E4.
  { replace ((0x90 <=? 0x80 + (c / 4096) mod 64) && (0x80 + (c / 4096) mod 64 <=? 0xBF)) with true by lia. reflexivity. }
  destruct (0xF0 + c / 262144 =? 0xF4) eqn:E5.
  { replace ((0x80 <=? 0x80 + (c / 4096) mod 64) && (0x80 + (c / 4096) mod 64 <=? 0x8F)) with true by lia. reflexivity. }
  replace ((0x80 <=? 0x80 + (c / 4096) mod 64) && (0x80 + (c / 4096) mod 64 <=? 0xBF)) with true by lia. reflexivity.
Qed.

Lemma utf8_valid_fuel_mono : forall t fuel, Forall (fun c => is_scalar c = true) t ->
  (length (utf8_enc t) <= fuel)%nat -> utf8_valid_fuel fuel (utf8_enc t) = true.
Proof.
  induction t as [|c r IH]; intros fuel Hs Hf.
  - destruct fuel; reflexivity.
  - inversion Hs as [|? ? Hc Hr]; subst. unfold utf8_enc in *. cbn [flat_map] in *.
    rewrite utf8_valid_step by assumption. apply IH; [assumption|].
    rewrite app_length in Hf. pose proof (utf8_enc1_length c). lia.
Qed.

Lemma utf8_enc_valid t : Forall (fun c => is_scalar c = true) t -> utf8_valid (utf8_enc t) = true.
Proof. intros H. unfold utf8_valid. apply utf8_valid_fuel_mono; [assumption | lia]. Qed.

(* ---------- UTF-32 ---------- *)
Lemma units4_bytes4 be c rest : c < 4294967296 -> units4 be (bytes4 be c ++ rest) = c :: units4 be rest.
Proof.
  intros H. unfold bytes4. destruct be; cbn [app units4]; f_equal; lia.
Qed.

Lemma units4_enc32 be t : Forall (fun c => is_scalar c = true) t -> units4 be (enc32 be t) = t.
Proof.
  induction 1 as [|c r Hc Hr IH]; [reflexivity|]. unfold enc32 in *. cbn [flat_map].
  rewrite units4_bytes4, IH; [reflexivity|]. apply is_scalar_bound in Hc. lia.
Qed.

Lemma len_enc32 be t : len (enc32 be t) = 4 * N.of_nat (length t).
Proof.
  unfold len, enc32. induction t as [|c r IH]; [reflexivity|]. cbn [flat_map].
  rewrite app_length. replace (length (bytes4 be c)) with 4%nat by (unfold bytes4; destruct be; reflexivity).
  cbn [length]. lia.
Qed.

(* ---------- UTF-16 ---------- *)
Lemma units2_bytes2 be u rest : u < 65536 -> units2 be (bytes2 be u ++ rest) = u :: units2 be rest.
Proof. intros H. unfold bytes2. destruct be; cbn [app units2]; f_equal; lia. Qed.

Lemma units2_flat be us : Forall (fun u => u < 65536) us -> units2 be (flat_map (bytes2 be) us) = us.
Proof.
  induction 1 as [|u r Hu Hr IH]; [reflexivity|]. cbn [flat_map]. rewrite units2_bytes2, IH; auto.
Qed.

Lemma utf16_enc1_small c : is_scalar c = true -> Forall (fun u => u < 65536) (utf16_enc1 c).
Proof.
  intros H. apply is_scalar_bound in H. unfold utf16_enc1.
  destruct (c <? 0x10000) eqn:E; repeat constructor; lia.
Qed.

Lemma utf16_units_small t : Forall (fun c => is_scalar c = true) t -> Forall (fun u => u < 65536) (flat_map utf16_enc1 t).
Proof.
  induction 1 as [|c r Hc Hr IH]; [constructor|]. cbn [flat_map]. apply Forall_app. split; [apply utf16_enc1_small; assumption | exact IH].
Qed.

Lemma utf16_enc1_length c : (1 <= length (utf16_enc1 c))%nat.
Proof. unfold utf16_enc1. destruct (c <? 0x10000); simpl; lia. Qed.

Lemma utf16_dec_step c rest fuel : is_scalar c = true -> (length (utf16_enc1 c ++ rest) <= fuel)%nat ->
  utf16_dec_fuel fuel (utf16_enc1 c ++ rest) = option_map (cons c) (utf16_dec_fuel (pred fuel) rest).
Proof.
  intros Hs Hf. apply is_scalar_bound in Hs. destruct Hs as [Hmax Hsur].
  destruct fuel as [|f]; [pose proof (utf16_enc1_length c); rewrite app_length in Hf; lia|].
  cbn [pred]. unfold utf16_enc1. destruct (c <? 0x10000) eqn:E.
  - cbn [app utf16_dec_fuel]. replace ((c <? 0xD800) || (0xDFFF <? c)) with true by lia. reflexivity.
  - cbn [app utf16_dec_fuel].
    replace ((0xD800 + (c - 0x10000) / 0x400 <? 0xD800) || (0xDFFF <? 0xD800 + (c - 0x10000) / 0x400)) with false by lia.
    replace (0xD800 + (c - 0x10000) / 0x400 <=? 0xDBFF) with true by lia.
    replace ((0xDC00 <=? 0xDC00 + (c - 0x10000) mod 0x400) && (0xDC00 + (c - 0x10000) mod 0x400 <=? 0xDFFF)) with true by lia.
    replace (0x10000 + (0xD800 + (c - 0x10000) / 0x400 - 0xD800) * 0x400 + (0xDC00 + (c - 0x10000) mod 0x400 - 0xDC00)) with c by lia.
    reflexivity.
Qed.

Lemma utf16_dec_enc_fuel : forall t fuel, Forall (fun c => is_scalar c = true) t ->
  (length (flat_map utf16_enc1 t) <= fuel)%nat -> utf16_dec_fuel fuel (flat_map utf16_enc1 t) = Some t.
Proof.
  induction t as [|c r IH]; intros fuel Hs Hf.
  - destruct fuel; reflexivity.
  - inversion Hs as [|? ? Hc Hr]; subst. cbn [flat_map] in *.
    rewrite utf16_dec_step by assumption. rewrite IH; [reflexivity | assumption |].
    rewrite app_length in Hf. pose proof (utf16_enc1_length c). lia.
Qed.

Lemma utf16_dec_enc t : Forall (fun c => is_scalar c = true) t -> utf16_dec (flat_map utf16_enc1 t) = Some t.
Proof. intros H. unfold utf16_dec. apply utf16_dec_enc_fuel; [assumption | lia]. Qed.

Lemma len_enc16 be t : len (enc16 be t) = 2 * N.of_nat (length (flat_map utf16_enc1 t)).
Proof.
  unfold len, enc16. induction (flat_map utf16_enc1 t) as [|u r IH]; [reflexivity|]. cbn [flat_map].
  rewrite app_length. replace (length (bytes2 be u)) with 2%nat by (unfold bytes2; destruct be; reflexivity).
  cbn [length]. lia.
Qed.

Lemma utf16_enc1_nonzero c : c <> 0 -> Forall (fun u => u <> 0) (utf16_enc1 c).
Proof. intros H. unfold utf16_enc1. destruct (c <? 0x10000) eqn:E; repeat constructor; lia. Qed.

(* ---------- shapes of the encoded texts ---------- *)
Lemma enc16_cons_ascii be c0 r : c0 < 0x80 ->
  enc16 be (c0 :: r) = (if be then [0; c0] else [c0; 0]) ++ enc16 be r.
Proof.
  intros H. unfold enc16. cbn [flat_map]. unfold utf16_enc1 at 1.
  replace (c0 <? 0x10000) with true by lia. cbn [flat_map app]. unfold bytes2.
  destruct be; cbn [app]; repeat f_equal; lia.
Qed.

Lemma enc16_bom be t : enc16 be (0xFEFF :: t) = (if be then [0xFE; 0xFF] else [0xFF; 0xFE]) ++ enc16 be t.
Proof. unfold enc16. cbn [flat_map]. destruct be; reflexivity. Qed.

Lemma enc16_first_pair be t : t <> [] -> Forall scalar_nz t ->
  exists x y rest, enc16 be t = x :: y :: rest /\ (x <> 0 \/ y <> 0).
Proof.
  intros Hne Hs. destruct t as [|c r]; [contradiction|]. inversion Hs as [|? ? [Hc Hnz] Hr]; subst.
  apply is_scalar_bound in Hc. unfold enc16. cbn [flat_map]. unfold utf16_enc1 at 1.
  destruct (c <? 0x10000) eqn:E; cbn [flat_map app]; unfold bytes2; destruct be; cbn [app];
    eexists; eexists; eexists; (split; [reflexivity|]); lia.
Qed.

Lemma enc32_cons be c r : enc32 be (c :: r) = bytes4 be c ++ enc32 be r.
Proof. reflexivity. Qed.

Lemma utf8_enc_all_nonzero t : Forall scalar_nz t -> Forall (fun b => b <> 0) (utf8_enc t).
Proof.
  induction 1 as [|c r [Hc Hnz] Hr IH]; [constructor|]. unfold utf8_enc. cbn [flat_map].
  apply Forall_app. split; [apply utf8_enc1_nonzero; assumption | exact IH].
Qed.

Lemma scalars_of t : Forall scalar_nz t -> Forall (fun c => is_scalar c = true) t.
Proof. intros H. eapply Forall_impl; [|exact H]. intros c [Hc _]. exact Hc. Qed.

(* ---------- the detection cascade rejects what it must reject ---------- *)
Lemma try_utf32_none fd :
  (forall b0 b1 b2 b3 rest, fd = b0 :: b1 :: b2 :: b3 :: rest ->
     ((b0 =? 0) && (b1 =? 0) && negb (b3 =? 0)) = false /\ (negb (b0 =? 0) && (b2 =? 0) && (b3 =? 0)) = false) ->
  try_utf32 fd = None.
Proof.
  intros H. unfold try_utf32.
  destruct ((len fd mod 4 =? 0) && (3 <? len fd)); [|reflexivity].
  destruct fd as [|b0 [|b1 [|b2 [|b3 rest]]]]; try reflexivity.
  destruct (H b0 b1 b2 b3 rest eq_refl) as [H1 H2]. rewrite H1, H2. reflexivity.
Qed.

Lemma try_utf16_none fd :
  (forall b0 b1 rest, fd = b0 :: b1 :: rest ->
     (((b0 =? 0) && negb (b1 =? 0)) || ((b0 =? 0xfe) && (b1 =? 0xff))) = false /\
     ((negb (b0 =? 0) && (b1 =? 0)) || ((b0 =? 0xff) && (b1 =? 0xfe))) = false) ->
  try_utf16 fd = None.
Proof.
  intros H. unfold try_utf16.
  destruct ((len fd mod 2 =? 0) && (1 <? len fd)); [|reflexivity].
  destruct fd as [|b0 [|b1 rest]]; try reflexivity.
  destruct (H b0 b1 rest eq_refl) as [H1 H2]. rewrite H1, H2. reflexivity.
Qed.

Lemma strip_bom_ascii c0 rest : c0 < 0x80 -> strip_bom (c0 :: rest) = c0 :: rest.
Proof.
  intros H. unfold strip_bom. destruct c0 as [|p]; [reflexivity|].
  destruct (N.eq_dec (Npos p) 0xEF) as [E|E]; [lia|].
  repeat (destruct p as [p|p|]; try reflexivity); exfalso; apply E; reflexivity.
Qed.

Lemma utf8_enc_cons_ascii c0 r : c0 < 0x80 -> utf8_enc (c0 :: r) = c0 :: utf8_enc r.
Proof. intros H. unfold utf8_enc. cbn [flat_map]. unfold utf8_enc1. replace (c0 <? 0x80) with true by lia. reflexivity. Qed.

Lemma utf8_enc_bom t : utf8_enc (0xFEFF :: t) = 0xEF :: 0xBB :: 0xBF :: utf8_enc t.
Proof. reflexivity. Qed.

(* ---------- the ten cases ---------- *)
Lemma scalar_bom : is_scalar 0xFEFF = true.
Proof. reflexivity. Qed.

Lemma try_utf32_ok be fd cs :
  len fd mod 4 = 0 -> 3 < len fd -> units4 be fd = cs -> forallb is_scalar cs = true ->
  (forall b0 b1 b2 b3 rest, fd = b0 :: b1 :: b2 :: b3 :: rest ->
     (if be then ((b0 =? 0) && (b1 =? 0) && negb (b3 =? 0)) = true
      else (((b0 =? 0) && (b1 =? 0) && negb (b3 =? 0)) = false /\ (negb (b0 =? 0) && (b2 =? 0) && (b3 =? 0)) = true))) ->
  try_utf32 fd = Some (utf8_enc cs).
Proof.
  intros Hmod Hlen Hu Hsc Hconv. unfold try_utf32.
  replace ((len fd mod 4 =? 0) && (3 <? len fd)) with true by lia.
  destruct fd as [|b0 [|b1 [|b2 [|b3 rest]]]]; try (unfold len in Hlen; simpl in Hlen; lia).
  specialize (Hconv b0 b1 b2 b3 rest eq_refl). destruct be.
  - rewrite Hconv. rewrite Hu, Hsc. reflexivity.
  - destruct Hconv as [Hc1 Hc2]. rewrite Hc1, Hc2. rewrite Hu, Hsc. reflexivity.
Qed.

Lemma forallb_scalars t : Forall (fun c => is_scalar c = true) t -> forallb is_scalar t = true.
Proof. intros H. apply forallb_forall. rewrite Forall_forall in H. exact H. Qed.

Lemma load_utf32 be t : text_ok t -> load_text (enc32 be t) = utf8_enc t.
Proof.
  intros Ht. destruct t as [|c0 r]; [contradiction|]. destruct Ht as (H0 & H1 & Hs).
  unfold load_text, decode_raw_bytes.
  rewrite (try_utf32_ok be (enc32 be (c0 :: r)) (c0 :: r)).
  - rewrite utf8_enc_cons_ascii by assumption. apply strip_bom_ascii; assumption.
  - rewrite len_enc32. lia.
  - rewrite len_enc32. cbn [length]. lia.
  - apply units4_enc32, scalars_of; assumption.
  - apply forallb_scalars, scalars_of; assumption.
  - intros b0 b1 b2 b3 rest Heq. rewrite enc32_cons in Heq. unfold bytes4 in Heq.
    destruct be; cbn [app] in Heq; inversion Heq; subst; [lia | split; lia].
Qed.

Lemma load_utf32_bom be t : text_ok t -> load_text (enc32 be (0xFEFF :: t)) = utf8_enc t.
Proof.
  intros Ht. destruct t as [|c0 r]; [contradiction|]. destruct Ht as (H0 & H1 & Hs).
  unfold load_text, decode_raw_bytes.
  assert (Hsc : Forall (fun c => is_scalar c = true) (0xFEFF :: c0 :: r)).
  { constructor; [reflexivity | apply scalars_of; assumption]. }
  rewrite (try_utf32_ok be (enc32 be (0xFEFF :: c0 :: r)) (0xFEFF :: c0 :: r)).
  - rewrite utf8_enc_bom. reflexivity.
  - rewrite len_enc32. lia.
  - rewrite len_enc32. cbn [length]. lia.
  - apply units4_enc32; assumption.
  - apply forallb_scalars; assumption.
  - intros b0 b1 b2 b3 rest Heq. rewrite enc32_cons in Heq.
    destruct be; cbn in Heq; inversion Heq; subst; [reflexivity | split; reflexivity].
Qed.

Lemma try_utf16_ok be fd us t :
  fd = flat_map (bytes2 be) us -> Forall (fun u => u < 65536) us -> utf16_dec us = Some t ->
  (1 < len fd) -> len fd mod 2 = 0 ->
  (forall b0 b1 rest, fd = b0 :: b1 :: rest ->
     (if be then (((b0 =? 0) && negb (b1 =? 0)) || ((b0 =? 0xfe) && (b1 =? 0xff))) = true
      else ((((b0 =? 0) && negb (b1 =? 0)) || ((b0 =? 0xfe) && (b1 =? 0xff))) = false /\
            ((negb (b0 =? 0) && (b1 =? 0)) || ((b0 =? 0xff) && (b1 =? 0xfe))) = true))) ->
  try_utf16 fd = Some (utf8_enc t).
Proof.
  intros Hfd Hus Hdec Hlen Hmod Hconv. unfold try_utf16.
  replace ((len fd mod 2 =? 0) && (1 <? len fd)) with true by lia.
  destruct fd as [|b0 [|b1 rest]]; try (unfold len in Hlen; simpl in Hlen; lia).
  specialize (Hconv b0 b1 rest eq_refl).
  destruct be.
  - rewrite Hconv. rewrite Hfd, units2_flat by assumption. rewrite Hdec. reflexivity.
  - destruct Hconv as [Hc1 Hc2]. rewrite Hc1, Hc2. rewrite Hfd, units2_flat by assumption. rewrite Hdec. reflexivity.
Qed.

Lemma len_even_enc16 be t : len (enc16 be t) mod 2 = 0.
Proof. rewrite len_enc16. lia. Qed.

Lemma load_utf16 be t : text_ok t -> load_text (enc16 be t) = utf8_enc t.
Proof.
  intros Ht. destruct t as [|c0 r]; [contradiction|]. destruct Ht as (H0 & H1 & Hs).
  inversion Hs as [|? ? Hc0 Hr]; subst.
  unfold load_text, decode_raw_bytes.
  assert (H32 : try_utf32 (enc16 be (c0 :: r)) = None).
  { apply try_utf32_none. intros b0 b1 b2 b3 rest Heq. rewrite enc16_cons_ascii in Heq by assumption.
    destruct r as [|c1 r'].
    - unfold enc16 in Heq. simpl in Heq. destruct be; discriminate.
    - destruct (enc16_first_pair be (c1 :: r')) as (x & y & tl & Hxy & Hnz); [discriminate | assumption|].
      rewrite Hxy in Heq. destruct be; cbn [app] in Heq; inversion Heq; subst; lia. }
  rewrite H32.
  assert (H16 : try_utf16 (enc16 be (c0 :: r)) = Some (utf8_enc (c0 :: r))).
  { eapply try_utf16_ok with (us := flat_map utf16_enc1 (c0 :: r)).
    - reflexivity.
    - apply utf16_units_small, scalars_of; assumption.
    - apply utf16_dec_enc, scalars_of; assumption.
    - rewrite enc16_cons_ascii by assumption. unfold len. destruct be; cbn [app length]; lia.
    - apply len_even_enc16.
    - intros b0 b1 rest Heq. rewrite enc16_cons_ascii in Heq by assumption.
      destruct be; cbn [app] in Heq; inversion Heq; subst; [lia | split; lia]. }
  rewrite H16. rewrite utf8_enc_cons_ascii by assumption. apply strip_bom_ascii; assumption.
Qed.

Lemma load_utf16_bom be t : text_ok t -> load_text (enc16 be (0xFEFF :: t)) = utf8_enc t.
Proof.
  intros Ht. destruct t as [|c0 r]; [contradiction|]. destruct Ht as (H0 & H1 & Hs).
  unfold load_text, decode_raw_bytes.
  assert (Hsc : Forall (fun c => is_scalar c = true) (0xFEFF :: c0 :: r)).
  { constructor; [reflexivity | apply scalars_of; assumption]. }
  assert (H32 : try_utf32 (enc16 be (0xFEFF :: c0 :: r)) = None).
  { apply try_utf32_none. intros b0 b1 b2 b3 rest Heq. rewrite enc16_bom, enc16_cons_ascii in Heq by assumption.
    destruct be; cbn [app] in Heq; inversion Heq; subst; lia. }
  rewrite H32.
  assert (H16 : try_utf16 (enc16 be (0xFEFF :: c0 :: r)) = Some (utf8_enc (0xFEFF :: c0 :: r))).
  { eapply try_utf16_ok with (us := flat_map utf16_enc1 (0xFEFF :: c0 :: r)).
    - reflexivity.
    - apply utf16_units_small; assumption.
    - apply utf16_dec_enc; assumption.
    - rewrite enc16_bom. unfold len. destruct be; cbn [app length]; lia.
    - apply len_even_enc16.
    - intros b0 b1 rest Heq. rewrite enc16_bom in Heq.
      destruct be; cbn [app] in Heq; inversion Heq; subst; [reflexivity | split; reflexivity]. }
  rewrite H16. rewrite utf8_enc_bom. reflexivity.
Qed.

Lemma decode_utf8_like fd :
  Forall (fun b => b <> 0) fd -> utf8_valid fd = true ->
  (forall b0 rest, fd = b0 :: rest -> b0 <> 0xfe /\ b0 <> 0xff) ->
  decode_raw_bytes fd = fd.
Proof.
  intros Hnz Hv Hfirst. unfold decode_raw_bytes.
  rewrite try_utf32_none.
  - rewrite try_utf16_none; [rewrite Hv; reflexivity|].
    intros b0 b1 rest Heq. subst fd. inversion Hnz as [|? ? Hb0 Hr]; subst. inversion Hr as [|? ? Hb1 _]; subst.
    destruct (Hfirst b0 (b1 :: rest) eq_refl). split; lia.
  - intros b0 b1 b2 b3 rest Heq. subst fd.
    inversion Hnz as [|? ? Hb0 Hr]; subst. inversion Hr as [|? ? Hb1 Hr2]; subst.
    inversion Hr2 as [|? ? Hb2 Hr3]; subst. split; lia.
Qed.

Lemma load_utf8 t : text_ok t -> load_text (utf8_enc t) = utf8_enc t.
Proof.
  intros Ht. destruct t as [|c0 r]; [contradiction|]. destruct Ht as (H0 & H1 & Hs).
  unfold load_text. rewrite decode_utf8_like.
  - rewrite utf8_enc_cons_ascii by assumption. apply strip_bom_ascii; assumption.
  - apply utf8_enc_all_nonzero; assumption.
  - apply utf8_enc_valid, scalars_of; assumption.
  - intros b0 rest Heq. rewrite utf8_enc_cons_ascii in Heq by assumption. inversion Heq; subst. lia.
Qed.

Lemma load_utf8_bom t : text_ok t -> load_text (utf8_enc (0xFEFF :: t)) = utf8_enc t.
Proof.
  intros Ht. destruct t as [|c0 r]; [contradiction|]. destruct Ht as (H0 & H1 & Hs).
  unfold load_text. rewrite decode_utf8_like.
  - rewrite utf8_enc_bom. reflexivity.
  - apply utf8_enc_all_nonzero. constructor; [split; [reflexivity | lia] | assumption].
  - apply utf8_enc_valid. constructor; [reflexivity | apply scalars_of; assumption].
  - intros b0 rest Heq. rewrite utf8_enc_bom in Heq. inversion Heq; subst. lia.
Qed.

Theorem load_encode_all e t : text_ok t -> load_text (encode e t) = utf8_enc t.
Proof.
  intros Ht. destruct e; cbn [encode].
  - apply load_utf8; assumption.
  - apply load_utf8_bom; assumption.
  - apply load_utf16; assumption.
  - apply load_utf16; assumption.
  - apply load_utf16_bom; assumption.
  - apply load_utf16_bom; assumption.
  - apply load_utf32; assumption.
  - apply load_utf32; assumption.
  - apply load_utf32_bom; assumption.
  - apply load_utf32_bom; assumption.
Qed.

(* Latin-1 fallback: whatever is not accepted by the three Unicode branches is read byte by byte *)
Theorem latin1_fallback fd : try_utf32 fd = None -> try_utf16 fd = None -> utf8_valid fd = false ->
  decode_raw_bytes fd = utf8_enc fd.
Proof. intros H1 H2 H3. unfold decode_raw_bytes. rewrite H1, H2, H3. reflexivity. Qed.
