(** Line bookkeeping: the scanner's token lines never decrease and start at 1; the writer's whitespace
    for an offset n > 0 consists of exactly n line breaks (plus indentation). *)
From Coq Require Import Ascii String List Bool NArith Arith Lia ZifyBool ZifyN Sorting.Sorted.
From A2L Require Import Base.Res Text.Escape Lex.Tokenizer Gram.Spec Gram.PState Gram.Parser Gram.Writer Proofs.TokenizerProofs.
Import ListNotations.
Local Open Scope N_scope.

Definition line_le (a b : token) : Prop := tk_line a <= tk_line b.
Definition lines_sorted (toks : list token) : Prop := StronglySorted line_le toks.

(* invariant of the scanner state: the (reversed) token list is sorted downwards, all lines are within [1, current line] *)
Definition TInv (st : tstate) : Prop :=
  1 <= ts_line st /\
  StronglySorted (fun a b => tk_line b <= tk_line a) (ts_toks st) /\
  Forall (fun t => 1 <= tk_line t /\ tk_line t <= ts_line st) (ts_toks st).

Lemma TInv_grow st l : TInv st -> ts_line st <= l ->
  TInv (mkTS (ts_pre st) (ts_suf st) (ts_pos st) (ts_sep st) l (ts_toks st)).
Proof.
  intros (H1 & H2 & H3) Hl. unfold TInv. cbn [ts_line ts_toks]. split; [lia|]. split; [exact H2|].
  eapply Forall_impl; [|exact H3]. cbv beta. intros t [Ha Hb]. split; lia.
Qed.

Lemma TInv_push pre suf pos sep toks line t l' :
  TInv (mkTS pre suf pos sep line toks) -> line <= tk_line t -> tk_line t <= l' ->
  TInv (mkTS pre suf pos sep l' (t :: toks)).
Proof.
  intros (H1 & H2 & H3) Ha Hb. unfold TInv in *. cbn [ts_line ts_toks] in *. split; [lia|]. split.
  - constructor; [exact H2|]. eapply Forall_impl; [|exact H3]. cbv beta. intros x [Hx1 Hx2]. lia.
  - constructor; [split; lia|]. eapply Forall_impl; [|exact H3]. cbv beta. intros x [Hx1 Hx2]. split; lia.
Qed.

Lemma TInv_cursor st pre suf pos sep : TInv st -> TInv (mkTS pre suf pos sep (ts_line st) (ts_toks st)).
Proof. intros H. exact H. Qed.

Ltac inv_simpl := unfold set_sep, set_line, push, advance; cbn [ts_pre ts_suf ts_pos ts_sep ts_line ts_toks].

Lemma handle_a2ml_inv fid st st' : TInv st -> handle_a2ml fid st = TOk st' -> TInv st'.
Proof.
  intros HI. unfold handle_a2ml. destruct st as [pre suf pos sep line toks].
  cbn [ts_pre ts_suf ts_pos ts_sep ts_line ts_toks].
  destruct toks as [|t1 [|t2 ts]]; try (intros H; inversion H; subst; exact HI).
  destruct (ttype_eqb (tk_type t2) TBegin && bytes_eqb (tk_text t1) b_a2ml); [|intros H; inversion H; subst; exact HI].
  destruct (a2ml_scan (S (length suf)) suf 0) as [n|]; [|discriminate].
  match goal with |- context [if ?c then _ else _] => destruct c end; [|intros H; inversion H; subst; exact HI].
  intros H. inversion H; subst; clear H. inv_simpl.
  eapply TInv_push with (line := line); [exact HI | cbn [tk_line]; try apply N.le_refl; try apply N.le_add_r | cbn [tk_line]; try apply N.le_refl; try apply N.le_add_r].
Qed.

Lemma one_token_inv fid st st' : TInv st -> one_token fid st = TOk st' -> TInv st'.
Proof.
  intros HI. unfold one_token. destruct (ts_suf st) as [|c r] eqn:Hs; [intros H; inversion H; subst; exact HI|].
  destruct st as [pre suf pos sep line toks]. simpl in Hs. subst suf. cbn [ts_pre ts_suf ts_pos ts_sep ts_line ts_toks].
  destruct (is_ws c).
  { destruct (span is_ws (c :: r)) as [w rest]. intros H. inversion H; subst; clear H. inv_simpl.
    apply (TInv_grow (mkTS _ _ _ _ line toks)); [exact HI | cbn [ts_line]; lia]. }
  destruct (aeq c "/" && negb match r with [] => true | _ :: _ => false end).
  { destruct r as [|c2 r2]; [discriminate|].
    destruct (aeq c2 "*").
    { destruct (fbce r2) as [n|]; [|discriminate]. intros H. inversion H; subst; clear H. inv_simpl.
      eapply TInv_push with (line := line); [exact HI | cbn [tk_line]; try apply N.le_refl; try apply N.le_add_r | cbn [tk_line]; try apply N.le_refl; try apply N.le_add_r]. }
    destruct (aeq c2 "/").
    { destruct (span (fun x => negb (aeq x lf)) r2) as [cm rest]. intros H. inversion H; subst; clear H. inv_simpl.
      eapply TInv_push with (line := line); [exact HI | cbn [tk_line]; try apply N.le_refl; try apply N.le_add_r | cbn [tk_line]; try apply N.le_refl; try apply N.le_add_r]. }
    destruct (starts_with b_begin (c2 :: r2)).
    { unfold sep_check; cbn [ts_sep ts_line]. destruct sep; [|discriminate]. intros H. inversion H; subst; clear H. inv_simpl.
      eapply TInv_push with (line := line); [exact HI | cbn [tk_line]; try apply N.le_refl; try apply N.le_add_r | cbn [tk_line]; try apply N.le_refl; try apply N.le_add_r]. }
    destruct (starts_with b_end (c2 :: r2)).
    { unfold sep_check; cbn [ts_sep ts_line]. destruct sep; [|discriminate]. intros H. inversion H; subst; clear H. inv_simpl.
      eapply TInv_push with (line := line); [exact HI | cbn [tk_line]; try apply N.le_refl; try apply N.le_add_r | cbn [tk_line]; try apply N.le_refl; try apply N.le_add_r]. }
    destruct (starts_with b_include (c2 :: r2)).
    { unfold sep_check; cbn [ts_sep ts_line]. destruct sep; [|discriminate]. intros H. inversion H; subst; clear H. inv_simpl.
      eapply TInv_push with (line := line); [exact HI | cbn [tk_line]; try apply N.le_refl; try apply N.le_add_r | cbn [tk_line]; try apply N.le_refl; try apply N.le_add_r]. }
    discriminate. }
  destruct (aeq c dq).
  { unfold sep_check; cbn [ts_sep ts_line]. destruct sep; [|discriminate].
    destruct (find_string_end r) as [n|]; [|discriminate]. intros H. inversion H; subst; clear H. inv_simpl.
    eapply TInv_push with (line := line); [exact HI | cbn [tk_line]; try apply N.le_refl; try apply N.le_add_r | cbn [tk_line]; try apply N.le_refl; try apply N.le_add_r]. }
  destruct (last_is_include toks && negb (is_digit c) && is_identchar c).
  { unfold sep_check; cbn [ts_sep ts_line]. destruct sep; [|discriminate].
    destruct (span is_pathchar (c :: r)) as [text rest]. intros H. inversion H; subst; clear H. inv_simpl.
    eapply TInv_push with (line := line); [exact HI | cbn [tk_line]; try apply N.le_refl; try apply N.le_add_r | cbn [tk_line]; try apply N.le_refl; try apply N.le_add_r]. }
  destruct (is_alpha c || aeq c "_").
  { unfold sep_check; cbn [ts_sep ts_line]. destruct sep; [|discriminate].
    destruct (span is_identchar (c :: r)) as [text rest]. intros H. eapply handle_a2ml_inv; [|exact H]. inv_simpl.
    eapply TInv_push with (line := line); [exact HI | cbn [tk_line]; try apply N.le_refl; try apply N.le_add_r | cbn [tk_line]; try apply N.le_refl; try apply N.le_add_r]. }
  destruct (aeq c "-" || is_numchar c).
  { unfold sep_check; cbn [ts_sep ts_line]. destruct sep; [|discriminate].
    destruct (span is_numchar r) as [num_tl rest].
    destruct rest as [|d rest'].
    { match goal with |- context [if ?b then _ else _] => destruct b end; [discriminate|].
      intros H. inversion H; subst; clear H. inv_simpl.
      eapply TInv_push with (line := line); [exact HI | cbn [tk_line]; try apply N.le_refl; try apply N.le_add_r | cbn [tk_line]; try apply N.le_refl; try apply N.le_add_r]. }
    destruct (negb (is_identchar d)).
    { match goal with |- context [if ?b then _ else _] => destruct b end; [discriminate|].
      intros H. inversion H; subst; clear H. inv_simpl.
      eapply TInv_push with (line := line); [exact HI | cbn [tk_line]; try apply N.le_refl; try apply N.le_add_r | cbn [tk_line]; try apply N.le_refl; try apply N.le_add_r]. }
    destruct (span is_identchar (d :: rest')) as [idtl rest2]. intros H. inversion H; subst; clear H. inv_simpl.
    eapply TInv_push with (line := line); [exact HI | cbn [tk_line]; try apply N.le_refl; try apply N.le_add_r | cbn [tk_line]; try apply N.le_refl; try apply N.le_add_r]. }
  discriminate.
Qed.

Lemma SS_snoc {A} (R : A -> A -> Prop) l x : StronglySorted R l -> Forall (fun y => R y x) l -> StronglySorted R (l ++ [x]).
Proof.
  induction 1 as [|a r Hs IH Ha]; intros Hx; simpl; [repeat constructor|].
  inversion Hx; subst. constructor; [apply IH; assumption|]. apply Forall_app. split; [exact Ha | constructor; [assumption | constructor]].
Qed.

Lemma SS_rev {A} (R : A -> A -> Prop) l : StronglySorted (fun a b => R b a) l -> StronglySorted R (rev l).
Proof.
  induction 1 as [|a r Hs IH Ha]; simpl; [constructor|]. apply SS_snoc; [exact IH|].
  apply Forall_rev. exact Ha.
Qed.

Lemma frev_rev {A} (l : list A) : frev l = rev l.
Proof. unfold frev. rewrite rev_append_rev. apply app_nil_r. Qed.

Lemma tok_loop_inv : forall fuel fid st toks, TInv st -> tok_loop fuel fid st = TOk toks ->
  lines_sorted toks /\ Forall (fun t => 1 <= tk_line t) toks.
Proof.
  induction fuel as [|f IH]; intros fid st toks HI H.
  - simpl in H. destruct (ts_suf st); [|discriminate]. inversion H; subst. rewrite frev_rev.
    destruct HI as (_ & H2 & H3). split; [apply SS_rev; exact H2|].
    apply Forall_rev. eapply Forall_impl; [|exact H3]. simpl. tauto.
  - cbn [tok_loop] in H. destruct (ts_suf st) eqn:Es.
    + inversion H; subst. rewrite frev_rev. destruct HI as (_ & H2 & H3). split; [apply SS_rev; exact H2|].
      apply Forall_rev. eapply Forall_impl; [|exact H3]. simpl. tauto.
    + destruct (one_token fid st) as [st'| | |] eqn:E1; try discriminate.
      eapply IH; [|exact H]. eapply one_token_inv; eauto.
Qed.

Theorem tokenize_lines_monotone fid text toks : tokenize_core fid text = TOk toks ->
  lines_sorted toks /\ Forall (fun t => 1 <= tk_line t) toks.
Proof.
  unfold tokenize_core. apply tok_loop_inv. unfold TInv. cbn [ts_line ts_toks]. split; [lia|]. split; constructor.
Qed.

(* ---------- writer ---------- *)
Lemma count_newlines_app a b : count_newlines (a ++ b) = count_newlines a + count_newlines b.
Proof. induction a as [|c r IH]; simpl; [reflexivity|]. rewrite IH. lia. Qed.

Lemma count_newlines_repeat_lf n : count_newlines (repeat_bytes [lf] n) = N.of_nat n.
Proof. induction n as [|n IH]; [reflexivity|]. cbn [repeat_bytes app count_newlines]. rewrite IH. unfold aeq. rewrite Ascii.eqb_refl. lia. Qed.

Lemma count_newlines_repeat_sp n : count_newlines (repeat_bytes [" "; " "]%char n) = 0.
Proof. induction n as [|n IH]; [reflexivity|]. cbn [repeat_bytes app count_newlines]. rewrite IH. reflexivity. Qed.

Theorem add_whitespace_newlines indent n o : 0 < n ->
  count_newlines (finish (add_whitespace indent n o)) = count_newlines (finish o) + n.
Proof.
  intros Hn. unfold add_whitespace.
  replace ((n =? 0) && snd o) with false by (destruct (N.eqb_spec n 0); [lia | reflexivity]).
  replace (n =? 0) with false by (symmetry; apply N.eqb_neq; lia).
  unfold finish. cbn [fst]. rewrite !frev_rev. rewrite rev_append_rev, rev_app_distr, rev_involutive.
  rewrite !count_newlines_app, count_newlines_repeat_lf, count_newlines_repeat_sp. lia.
Qed.
