(** C18, values survive - the members whose end depends on the token that follows.  Proofs/IfdataRoundTripProofs.v covers
    content built from scalars, strings, enums, structs and arrays; here sequences, tagged structs and tagged unions (keyword
    and block items, in any nesting) join them.  A value conforms to a definition RELATIVE TO THE TOKENS THAT FOLLOW IT
    ([conf ty g k], k the types and texts of the tokens behind the value): a sequence must be followed by something its item
    type cannot start with, a tagged struct / union by something that is not one of its tags in the form the definition
    gives them.  Under that condition the type-directed parser reads the value back exactly from the tokens the writer prints
    for it - the tagged items regrouped by tag in the order in which they were written - and consumes exactly those tokens. *)
From Coq Require Import Ascii String List Bool Arith NArith ZArith Lia.
From A2L Require Import Base.StableSort Text.Escape Text.IntText Lex.Tokenizer Gram.Spec A2ml.Types Gram.PState Gram.Parser Gram.Writer Gram.TokWriter
  Proofs.CursorProofs Proofs.RoundTripProofs Proofs.TerminationProofs Proofs.GroupOrderProofs Proofs.IfdataRoundTripProofs Proofs.MergeProofs.
Import ListNotations.

(* everything positional erased: offsets, lines, include attribution and the ids handed out while parsing *)
Fixpoint ev (g : gifd) : gifd :=
  match g with
  | GNone => GNone
  | GInt v _ z h => GInt v 0 z h
  | GFloat _ b => GFloat 0 b
  | GDouble _ b => GDouble 0 b
  | GString _ s => GString 0 s
  | GEnumItem _ s => GEnumItem 0 s
  | GArray l => GArray (map ev l)
  | GSequence l => GSequence (map ev l)
  | GTaggedStruct items => GTaggedStruct (map (fun kv => (fst kv, map ev_ti (snd kv))) items)
  | GTaggedUnion items => GTaggedUnion (map (fun kv => (fst kv, map ev_ti (snd kv))) items)
  | GStruct _ _ items => GStruct None 0 (map ev items)
  | GBlock _ _ items => GBlock None 0 (map ev items)
  end
with ev_ti (t : gtitem) : gtitem :=
  match t with GTI _ _ _ _ _ tag data isb => GTI None 0 0 0 0 tag (ev data) isb end.
Definition ev_kv (kv : bytes * list gtitem) : bytes * list gtitem := (fst kv, map ev_ti (snd kv)).

Definition ti_tag (t : gtitem) : bytes := match t with GTI _ _ _ _ _ tag _ _ => tag end.
(* the hash map of a tagged struct, filled in reading order *)
Definition regroup (its : list gtitem) : list (bytes * list gtitem) :=
  fold_left (fun acc t => assoc_push (ti_tag t) t acc) its [].

Section Follow.
  Variable ftab : list fentry.

  (* what the writer prints for a value, token by token: GenericIfData::write without the white space; the items of a tagged
     struct in the order of the group writer *)
  Definition item_toks (i : ginfo (list shape)) : list shape :=
    match i with
    | GTag tag _ _ _ _ _ isb toks _ =>
        if isb then (TBegin, begin_text) :: (TIdentifier, tag) :: toks ++ [(TEnd, end_text); (TIdentifier, tag)]
        else (TIdentifier, tag) :: toks
    | GComment _ _ _ _ _ => []
    end.

  Fixpoint ftoks (g : gifd) : list shape :=
    match g with
    | GInt variant _ z hex => [(TNumber, add_integer_text (gint_ity variant) z hex)]
    | GFloat _ bits | GDouble _ bits => [(TNumber, float_text ftab bits)]
    | GString _ s => [(TString, quoted s)]
    | GEnumItem _ e => [(TIdentifier, e)]
    | GArray l | GSequence l | GStruct _ _ l | GBlock _ _ l => flat_map ftoks l
    | GTaggedStruct tg | GTaggedUnion tg =>
        flat_map item_toks (group_order (flat_map (fun kv => map ti_toks (snd kv)) tg))
    | GNone => []
    end
  with ti_toks (t : gtitem) : ginfo (list shape) :=
    match t with GTI inc line uid so eo tag data isb => GTag tag inc uid line so eo isb (ftoks data) None end.

  (* the entries of a tagged struct as the group writer sees them, carrying the item itself, in the order they are written *)
  Definition ti_info (t : gtitem) : ginfo gifd :=
    match t with GTI inc line uid so eo tag data isb => GTag tag inc uid line so eo isb data None end.
  Definition witems (tg : list (bytes * list gtitem)) : list (ginfo gifd) :=
    group_order (flat_map (fun kv => map ti_info (snd kv)) tg).
  Definition itoks (i : ginfo gifd) : list shape := item_toks (gmap ftoks i).
  Definition info_ti (i : ginfo gifd) : gtitem :=
    match i with
    | GTag tag _ _ _ _ _ isb data _ => GTI None 0 0 0 0 tag (ev data) isb
    | GComment _ _ _ _ _ => GTI None 0 0 0 0 [] GNone false
    end.

  Lemma ftoks_tagged tg : flat_map item_toks (group_order (flat_map (fun kv => map ti_toks (snd kv)) tg)) = flat_map itoks (witems tg).
  Proof.
    unfold witems, itoks.
    assert (E : flat_map (fun kv => map ti_toks (snd kv)) tg = map (gmap ftoks) (flat_map (fun kv => map ti_info (snd kv)) tg)).
    { induction tg as [|kv r IH]; [reflexivity|]. cbn [flat_map]. rewrite map_app, IH. f_equal.
      rewrite map_map. apply map_ext. intros []. reflexivity. }
    rewrite E, group_order_map. induction (group_order _) as [|x l IH]; [reflexivity|]. cbn [map flat_map]. rewrite IH. reflexivity.
  Qed.

  (* ---------- what cannot follow ---------- *)
  Definition hd_type (k : list shape) : option ttype := match k with sh :: _ => Some (fst sh) | [] => None end.
  Definition is_ty (o : option ttype) (t : ttype) : bool := match o with Some x => ttype_eqb x t | None => false end.

  (* [fails_on ty k]: reading a value of this type from tokens that start like [k] is an error (so a sequence of [ty] ends in front of [k]) *)
  Fixpoint fails_on (ty : a2mlty) (k : list shape) : bool :=
    match ty with
    | TChar | TInt | TLong | TInt64 | TUChar | TUInt | TULong | TUInt64 | TFloat | TDouble => negb (is_ty (hd_type k) TNumber)
    | TArray TChar _ => negb (is_ty (hd_type k) TString) && negb (is_ty (hd_type k) TIdentifier)
    | TArray item (S _) => fails_on item k
    | TEnum items => match k with (TIdentifier, e) :: _ => negb (enum_has items e) | _ => true end
    | TStruct (t :: _) => fails_on t k
    | _ => false
    end.

  (* [ts_stops spec k]: no item of this tagged struct / union starts like [k] *)
  Definition ts_stops (spec : list tagged) (k : list shape) : bool :=
    match k with
    | (TIdentifier, tag) :: _ => match find_tagged spec tag with Some t => tg_block t | None => true end
    | (TBegin, _) :: (TIdentifier, tag) :: _ => match find_tagged spec tag with Some t => negb (tg_block t) | None => true end
    | _ => true
    end.

  (* ---------- conformance relative to what follows ---------- *)
  Section Helpers.
    Variable C : a2mlty -> gifd -> list shape -> Prop.
    (* the members of a struct: each one is followed by the tokens of the later ones *)
    Inductive conf_seq : list a2mlty -> list gifd -> list shape -> Prop :=
    | cs_nil k : conf_seq [] [] k
    | cs_cons ty g tys gs k : C ty g (flat_map ftoks gs ++ k) -> conf_seq tys gs k -> conf_seq (ty :: tys) (g :: gs) k.
    (* the items of an array or a sequence *)
    Inductive conf_all (ty : a2mlty) : list gifd -> list shape -> Prop :=
    | ca_nil k : conf_all ty [] k
    | ca_cons g gs k : C ty g (flat_map ftoks gs ++ k) -> conf_all ty gs k -> conf_all ty (g :: gs) k.
    (* one item of a tagged struct: its tag is declared in this form, its content conforms and is followed by /end TAG or by what follows the item *)
    Inductive conf_item (spec : list tagged) : ginfo gifd -> list shape -> Prop :=
    | cit tag uid line so eo isb t g binc bline k : find_tagged spec tag = Some t -> tg_block t = isb ->
        C (tg_item t) g (if isb then (TEnd, end_text) :: (TIdentifier, tag) :: k else k) ->
        conf_item spec (GTag tag None uid line so eo isb (make_block g binc bline) None) k.
    Inductive conf_items (spec : list tagged) : list (ginfo gifd) -> list shape -> Prop :=
    | ci_nil k : conf_items spec [] k
    | ci_cons i its k : conf_item spec i (flat_map itoks its ++ k) -> conf_items spec its k -> conf_items spec (i :: its) k.
  End Helpers.

  Inductive conf : a2mlty -> gifd -> list shape -> Prop :=
  | conf_int ty variant t off z hex k : int_member ty = Some (variant, t) -> in_range t z = true -> conf ty (GInt variant off z hex) k
  | conf_float off bits k : float_ok ftab bits = true -> conf TFloat (GFloat off bits) k
  | conf_double off bits k : double_ok ftab bits = true -> conf TDouble (GDouble off bits) k
  | conf_string dim off s k : conf (TArray TChar dim) (GString off s) k
  | conf_enum items off e k : enum_has items e = true -> conf (TEnum items) (GEnumItem off e) k
  | conf_array item dim l k : item <> TChar -> length l = dim -> conf_all conf item l k -> conf (TArray item dim) (GArray l) k
  | conf_struct items inc l k : conf_seq conf items l k -> conf (TStruct items) (GStruct inc 0 l) k
  | conf_sequence item l k : conf_all conf item l k -> Forall (fun g => ftoks g <> []) l -> fails_on item k = true ->
      conf (TSequence item) (GSequence l) k
  | conf_taggedstruct spec tg k : conf_items conf spec (witems tg) k -> ts_stops spec k = true ->
      regroup (map info_ti (witems tg)) = map ev_kv tg -> conf (TTaggedStruct spec) (GTaggedStruct tg) k
  | conf_taggedunion_none spec k : ts_stops spec k = true -> conf (TTaggedUnion spec) (GTaggedUnion []) k
  | conf_taggedunion_one spec t k : conf_item conf spec (ti_info t) k ->
      conf (TTaggedUnion spec) (GTaggedUnion [(ti_tag t, [t])]) k.
End Follow.


(* ---------- small facts ---------- *)
Lemma assoc_push_ev k v : forall l, map ev_kv (assoc_push k v l) = assoc_push k (ev_ti v) (map ev_kv l).
Proof.
  induction l as [|[k' vs] r IH]; [reflexivity|]. cbn [assoc_push map ev_kv fst snd].
  destruct (bytes_eqb k k'); cbn [map]; unfold ev_kv at 1; cbn [fst snd]; [rewrite map_app; reflexivity | rewrite IH; reflexivity].
Qed.

Lemma make_block_ev g1 g2 i1 l1 i2 l2 : ev g1 = ev g2 -> ev (make_block g1 i1 l1) = ev (make_block g2 i2 l2).
Proof.
  intros H. destruct g1, g2; cbn [ev] in H; try discriminate; cbn [make_block ev map]; try rewrite H; try reflexivity.
  injection H as H. rewrite H. reflexivity.
Qed.

Lemma skip_comments_none c n s : Inv s -> skip_comments (S n) c s = (ROk tt, s).
Proof.
  intros I. cbn [skip_comments]. unfold peek_token, bindM. destruct (ps_after s) as [|t r] eqn:Ha; [reflexivity|].
  destruct (tok_ok_after s t r I Ha) as (_ & Hnc & _). rewrite (ttype_eqb_neq _ _ Hnc). reflexivity.
Qed.

Lemma get_next_id_adv s : Inv s -> exists n s', get_next_id s = (ROk n, s') /\ adv [] s s'.
Proof.
  intros I. eexists. eexists. split; [reflexivity|].
  constructor; [reflexivity | reflexivity | constructor; reflexivity | exact (inv_pos s I)].
Qed.

Lemma incfile_zero f s : f = O -> get_incfilename f s = (ROk None, s).
Proof. intros ->. reflexivity. Qed.

Lemma after_of ts1 ts2 rest s s1 : ps_after s = ts1 ++ ts2 ++ rest -> adv ts1 s s1 -> ps_after s1 = ts2 ++ rest.
Proof. intros Ha A1. pose proof (adv_after _ _ _ A1) as Q. rewrite Ha in Q. apply app_inv_head in Q. symmetry. exact Q. Qed.

Lemma ftab_of ts s s1 ftab : ps_ftab s = ftab -> adv ts s s1 -> ps_ftab s1 = ftab.
Proof. intros Hf A1. rewrite (se_ftab _ _ (adv_static _ _ _ A1)). exact Hf. Qed.

Lemma map_cons_split {A B} (f : A -> B) l b bs : map f l = b :: bs -> exists a r, l = a :: r /\ f a = b /\ map f r = bs.
Proof. destruct l as [|a r]; intros H; [discriminate|]. injection H as H1 H2. exists a, r. auto. Qed.

Lemma hd_not ty rest k : map shape_of rest = k -> is_ty (hd_type k) ty = false ->
  rest = [] \/ exists t r, rest = t :: r /\ tk_type t <> ty.
Proof.
  intros <- H. destruct rest as [|t r]; [left; reflexivity|]. right. exists t, r. split; [reflexivity|].
  cbn [map hd_type is_ty shape_of fst] in H. intros E. rewrite E, ttype_eqb_refl in H. discriminate.
Qed.

Section Reads.
  Variable ftab : list fentry.
  Notation ftoks := (ftoks ftab).
  Notation itoks := (itoks ftab).
  Notation conf := (conf ftab).

  Definition reads (m : M gifd) (g : gifd) (k : list shape) : Prop :=
    forall s ts rest, Inv s -> ps_ftab s = ftab -> ps_after s = ts ++ rest -> map shape_of ts = ftoks g -> map shape_of rest = k ->
    exists g' s', m s = (ROk g', s') /\ adv ts s s' /\ ev g' = ev g.

  (* an error, wherever the cursor stands afterwards *)
  Definition fails {A} (m : M A) (k : list shape) : Prop :=
    forall s rest, Inv s -> ps_after s = rest -> map shape_of rest = k -> exists d s1 ts', m s = (RErr d, s1) /\ adv ts' s s1.

  Lemma fails_bind {A B} (m : M A) (f : A -> M B) k : fails m k -> fails (bindM m f) k.
  Proof. intros H s rest I Ha Hk. destruct (H s rest I Ha Hk) as (d & s1 & ts' & E & A1). exists d, s1, ts'. split; [apply bind_err; exact E | exact A1]. Qed.

  Lemma fails_number {A} c (kf : token -> M A) k : c_fileid c = O -> is_ty (hd_type k) TNumber = false -> fails (bindM (expect_token c TNumber) kf) k.
  Proof.
    intros Hc Hk s rest I Ha Hm. destruct (hd_not TNumber rest k Hm Hk) as [->|(t & r & -> & Ht)].
    - destruct (number_eof c Hc kf s I Ha) as (d & E). exists d, s, []. split; [exact E | apply adv_refl, (inv_pos s I)].
    - destruct (number_wrong c Hc kf s t r I Ha Ht) as (d & s1 & E & A1). exists d, s1, [t]. split; assumption.
  Qed.

  Section FailRec.
    Variable rec : a2mlty -> ctx -> M gifd.
    Variable D : a2mlty -> Prop.
    Hypothesis Hrec : forall ty c k, c_fileid c = O -> D ty -> fails_on ty k = true -> fails (rec ty c) k.

    Lemma step_fails ty c k : c_fileid c = O -> Forall D (subs ty) -> fails_on ty k = true -> fails (item_step rec ty c) k.
    Proof.
      intros Hc Hd Hf.
      assert (Hnum : forall variant t, negb (is_ty (hd_type k) TNumber) = true -> fails (int_item variant t c) k).
      { intros variant t H. apply negb_true_iff in H. unfold int_item. apply fails_bind. unfold get_integer. apply fails_number; assumption. }
      destruct ty; cbn [fails_on] in Hf; try discriminate; cbn [item_step]; try (apply Hnum; exact Hf).
      - apply negb_true_iff in Hf. apply fails_bind. unfold get_float. apply fails_number; assumption.
      - apply negb_true_iff in Hf. apply fails_bind. unfold get_double. apply fails_number; assumption.
      - (* arrays *)
        assert (Hitem : forall n, fails_on ty k = true -> fails (l <-- array_items rec (S n) ty c ;; ret (GArray l)) k).
        { intros n H. apply fails_bind. cbn [array_items]. apply fails_bind. apply Hrec; [exact Hc | | exact H].
          cbn [subs] in Hd. inversion Hd; assumption. }
        destruct ty; try (destruct dim as [|n]; [discriminate | exact (Hitem n Hf)]).
        (* strings *)
        apply andb_true_iff in Hf. destruct Hf as [H1 H2]. apply negb_true_iff in H1. apply negb_true_iff in H2.
        apply fails_bind. unfold get_string_maxlen. apply fails_bind.
        intros s rest I Ha Hm. destruct (hd_not TString rest k Hm H1) as [->|(t & r & -> & Ht)].
        + destruct (get_string_eof c Hc s I Ha) as (d & E). exists d, s, []. split; [exact E | apply adv_refl, (inv_pos s I)].
        + destruct (hd_not TIdentifier (t :: r) k Hm H2) as [?|(t' & r' & Q & Ht')]; [discriminate|]. injection Q as <- <-.
          destruct (get_string_wrong c Hc s t r I Ha Ht Ht') as (d & s1 & E & A1). exists d, s1, [t]. split; assumption.
      - (* enums *)
        intros s rest I Ha Hm. destruct rest as [|t r].
        + destruct (get_identifier_eof c Hc s I Ha) as (d & E). exists d, s, []. split; [apply bind_err; exact E | apply adv_refl, (inv_pos s I)].
        + destruct (ttype_eqb (tk_type t) TIdentifier) eqn:Et.
          * apply ttype_eqb_eq in Et. destruct (get_identifier_fine c Hc s t r I Ha Et) as (s1 & E1 & A1).
            assert (I1 : Inv s1) by (eapply adv_inv; eassumption).
            destruct (glo_fine s1 I1) as (o & G). rewrite (bind_ok _ _ _ _ _ E1), (bind_ok _ _ _ _ _ G).
            subst k. cbn [map shape_of] in Hf. rewrite Et in Hf. apply negb_true_iff in Hf. rewrite Hf.
            destruct (mk_diag_fine c Hc "InvalidEnumValue" (tk_text t) s1 I1) as (d & Ed). rewrite (bind_ok _ _ _ _ _ Ed).
            exists d, s1, [t]. split; [reflexivity | exact A1].
          * assert (Ht : tk_type t <> TIdentifier) by (intros Q; rewrite Q in Et; discriminate).
            destruct (get_identifier_wrong c Hc s t r I Ha Ht) as (d & s1 & E & A1). exists d, s1, [t]. split; [apply bind_err; exact E | exact A1].
      - (* structs *)
        destruct items as [|t0 items]; [discriminate|]. apply fails_bind. cbn [struct_items]. apply fails_bind.
        apply Hrec; [exact Hc | | exact Hf]. cbn [subs] in Hd. inversion Hd; assumption.
    Qed.
  End FailRec.

  Theorem what_cannot_start_a_value_is_an_error : forall f ty c k, c_fileid c = O -> ty_depth ty <= f -> fails_on ty k = true ->
    fails (parse_ifdata_item f ty c) k.
  Proof.
    induction f as [|f IH]; intros ty c k Hc Hd Hf.
    - exfalso. destruct ty; cbn [ty_depth] in Hd; lia.
    - cbn [parse_ifdata_item]. apply (step_fails (parse_ifdata_item f) (fun t => ty_depth t <= f)).
      + intros ty0 c0 k0 Hc0 H0 F0. exact (IH ty0 c0 k0 Hc0 H0 F0).
      + exact Hc.
      + apply subs_depth. exact Hd.
      + exact Hf.
  Qed.

  (* ---------- the monad on the state readers ---------- *)
  Lemma bind_tokenpos {B} (f : nat -> M B) s : bindM get_tokenpos f s = f (ps_pos s) s.
  Proof. reflexivity. Qed.
  Lemma bind_remaining {B} (f : nat -> M B) s : bindM remaining f s = f (length (ps_after s)) s.
  Proof. reflexivity. Qed.
  Lemma bind_incfile {B} (f : option nat -> M B) s : bindM (get_incfilename O) f s = f None s.
  Proof. reflexivity. Qed.
  Lemma bind_ret {A B} (a : A) (f : A -> M B) s : bindM (ret a) f s = f a s.
  Proof. reflexivity. Qed.

  Lemma tok_ok_in s t : Inv s -> In t (ps_after s) -> tok_ok t.
  Proof.
    intros I H. pose proof (inv_toks s I) as F. rewrite Forall_forall in F. apply F. unfold tokens_of. apply in_or_app. right. exact H.
  Qed.

  Lemma ftoks_make_block g i l : ftoks (make_block g i l) = ftoks g.
  Proof. destruct g; cbn [make_block ftoks flat_map]; rewrite ?app_nil_r; reflexivity. Qed.

  Lemma find_tagged_in spec tag t : find_tagged spec tag = Some t -> In t spec /\ tg_tag t = tag.
  Proof.
    induction spec as [|x r IH]; cbn [find_tagged]; [discriminate|]. destruct (bytes_eqb (tg_tag x) tag) eqn:E.
    - intros Q. injection Q as <-. split; [left; reflexivity|]. apply bytes_eqb_eq. exact E.
    - intros Q. destruct (IH Q). split; [right|]; assumption.
  Qed.

  (* ---------- get_next_tag_or_comment where no tag starts ---------- *)
  Lemma next_tag_eof c s : c_fileid c = O -> Inv s -> ps_after s = [] -> exists s', get_next_tag_or_comment c s = (ROk BCNone, s') /\ adv [] s s'.
  Proof.
    intros Hc I Ha. unfold get_next_tag_or_comment. rewrite bind_tokenpos. unfold peek_token. unfold bindM at 1. rewrite Ha.
    destruct (expect_eof c Hc TIdentifier s I Ha) as (d & E). rewrite (bind_ok _ _ _ _ _ (try_err _ _ _ _ E)).
    destruct (glo_fine s I) as (off & G). rewrite (bind_ok _ _ _ _ _ G).
    destruct (set_tokenpos_back [] s s (adv_refl s (inv_pos s I)) (inv_pos s I)) as (s2 & E2 & A2).
    rewrite (bind_ok _ _ _ _ _ E2). exists s2. split; [reflexivity | exact A2].
  Qed.

  Lemma next_tag_begin_bad c s tB r : c_fileid c = O -> Inv s -> ps_after s = tB :: r -> tk_type tB = TBegin ->
    match r with t :: _ => tk_type t <> TIdentifier | [] => True end ->
    exists d s', get_next_tag_or_comment c s = (RErr d, s') /\ adv [] s s'.
  Proof.
    intros Hc I Ha HB Hr. unfold get_next_tag_or_comment. rewrite bind_tokenpos. unfold peek_token. unfold bindM at 1.
    rewrite Ha, HB. cbn [ttype_eqb].
    destruct (get_token_fine c s tB r I Ha) as (s1 & E1 & A1). rewrite (bind_ok _ _ _ _ _ E1).
    assert (I1 : Inv s1) by (eapply adv_inv; eassumption).
    destruct (glo_fine s1 I1) as (off & G). rewrite (bind_ok _ _ _ _ _ G).
    assert (Ha1 : ps_after s1 = r) by (apply (after_of [tB] [] r s s1); [exact Ha | exact A1]).
    destruct r as [|t r'].
    - destruct (expect_eof c Hc TIdentifier s1 I1 Ha1) as (d & E). rewrite (bind_ok _ _ _ _ _ (try_err _ _ _ _ E)).
      destruct (set_tokenpos_back [tB] s s1 A1 (inv_pos s I)) as (s2 & E2 & A2). rewrite (bind_ok _ _ _ _ _ E2).
      exists d, s2. split; [reflexivity | exact A2].
    - destruct (expect_wrong c Hc TIdentifier s1 t r' I1 Ha1 Hr) as (d & s2 & E & A2). rewrite (bind_ok _ _ _ _ _ (try_err _ _ _ _ E)).
      destruct (set_tokenpos_back ([tB] ++ [t]) s s2 (adv_trans _ _ _ _ _ A1 A2) (inv_pos s I)) as (s3 & E3 & A3). rewrite (bind_ok _ _ _ _ _ E3).
      exists d, s3. split; [reflexivity | exact A3].
  Qed.

  Section ReadRec.
    Variable rec : a2mlty -> ctx -> M gifd.
    Variable D : a2mlty -> Prop.
    Hypothesis Hrec : forall ty g k c, c_fileid c = O -> D ty -> conf ty g k -> reads (rec ty c) g k.
    Hypothesis Hfail : forall ty c k, c_fileid c = O -> D ty -> fails_on ty k = true -> fails (rec ty c) k.

    (* ---------- structs and arrays ---------- *)
    Lemma struct_reads c : c_fileid c = O -> forall tys l k, conf_seq ftab conf tys l k -> Forall D tys ->
      forall s ts rest, Inv s -> ps_ftab s = ftab -> ps_after s = ts ++ rest -> map shape_of ts = flat_map ftoks l -> map shape_of rest = k ->
      exists l' s', struct_items rec tys c s = (ROk l', s') /\ adv ts s s' /\ map ev l' = map ev l.
    Proof.
      intros Hc tys l k Hl. induction Hl as [k|ty g tys gs k H1 H2 IH]; intros Hd s ts rest I Hf Ha Hm Hk.
      - cbn [flat_map] in Hm. destruct ts; [|discriminate]. exists [], s. repeat split; [apply adv_refl; exact (inv_pos s I)].
      - inversion Hd as [|? ? D1 D2]; subst. cbn [flat_map] in Hm. destruct (map_app_split _ _ _ _ Hm) as (t1 & t2 & -> & M1 & M2).
        rewrite <- app_assoc in Ha.
        destruct (Hrec ty g _ c Hc D1 H1 s t1 (t2 ++ rest) I Hf Ha M1 ltac:(rewrite map_app, M2; reflexivity)) as (g' & s1 & E1 & A1 & R1).
        assert (I1 : Inv s1) by (eapply adv_inv; eassumption).
        destruct (IH D2 s1 t2 rest I1 (ftab_of _ _ _ _ Hf A1) (after_of _ _ _ _ _ Ha A1) M2 eq_refl) as (l' & s2 & E2 & A2 & R2).
        exists (g' :: l'), s2. cbn [struct_items]. rewrite (bind_ok _ _ _ _ _ E1), (bind_ok _ _ _ _ _ E2).
        split; [reflexivity|]. split; [exact (adv_trans _ _ _ _ _ A1 A2) | cbn [map]; congruence].
    Qed.

    Lemma array_reads c item : c_fileid c = O -> D item -> forall l k, conf_all ftab conf item l k ->
      forall s ts rest, Inv s -> ps_ftab s = ftab -> ps_after s = ts ++ rest -> map shape_of ts = flat_map ftoks l -> map shape_of rest = k ->
      exists l' s', array_items rec (length l) item c s = (ROk l', s') /\ adv ts s s' /\ map ev l' = map ev l.
    Proof.
      intros Hc Hd l k Hl. induction Hl as [k|g gs k H1 H2 IH]; intros s ts rest I Hf Ha Hm Hk.
      - cbn [flat_map] in Hm. destruct ts; [|discriminate]. exists [], s. repeat split; [apply adv_refl; exact (inv_pos s I)].
      - cbn [flat_map] in Hm. destruct (map_app_split _ _ _ _ Hm) as (t1 & t2 & -> & M1 & M2).
        rewrite <- app_assoc in Ha.
        destruct (Hrec item g _ c Hc Hd H1 s t1 (t2 ++ rest) I Hf Ha M1 ltac:(rewrite map_app, M2, Hk; reflexivity)) as (g' & s1 & E1 & A1 & R1).
        assert (I1 : Inv s1) by (eapply adv_inv; eassumption).
        destruct (IH s1 t2 rest I1 (ftab_of _ _ _ _ Hf A1) (after_of _ _ _ _ _ Ha A1) M2 Hk) as (l' & s2 & E2 & A2 & R2).
        exists (g' :: l'), s2. cbn [length array_items]. rewrite (bind_ok _ _ _ _ _ E1), (bind_ok _ _ _ _ _ E2).
        split; [reflexivity|]. split; [exact (adv_trans _ _ _ _ _ A1 A2) | cbn [map]; congruence].
    Qed.

    (* ---------- sequences: the loop ends where the item type cannot start ---------- *)
    Lemma seq_reads c item : c_fileid c = O -> D item -> forall l k, conf_all ftab conf item l k -> Forall (fun g => ftoks g <> []) l ->
      fails_on item k = true ->
      forall acc n s ts rest, Inv s -> ps_ftab s = ftab -> ps_after s = ts ++ rest -> map shape_of ts = flat_map ftoks l -> map shape_of rest = k ->
      length l < n ->
      exists l' s', seq_items rec n item c acc s = (ROk (acc ++ l'), s') /\ adv ts s s' /\ map ev l' = map ev l.
    Proof.
      intros Hc Hd l k Hl. induction Hl as [k|g gs k H1 H2 IH]; intros Hne Hst acc n s ts rest I Hf Ha Hm Hk Hn.
      - cbn [flat_map] in Hm. destruct ts; [|discriminate]. cbn [app] in Ha.
        destruct n as [|n]; [inversion Hn|]. cbn [seq_items]. rewrite bind_tokenpos.
        destruct (Hfail item c k Hc Hd Hst s rest I Ha Hk) as (d & s1 & ts' & E & A1).
        rewrite (bind_ok _ _ _ _ _ (try_err _ _ _ _ E)).
        destruct (set_tokenpos_back ts' s s1 A1 (inv_pos s I)) as (s2 & E2 & A2). rewrite (bind_ok _ _ _ _ _ E2).
        exists [], s2. rewrite app_nil_r. split; [reflexivity|]. split; [exact A2 | reflexivity].
      - cbn [flat_map] in Hm. destruct (map_app_split _ _ _ _ Hm) as (t1 & t2 & -> & M1 & M2).
        rewrite <- app_assoc in Ha. inversion Hne as [|? ? N1 N2]; subst.
        destruct (Hrec item g _ c Hc Hd H1 s t1 (t2 ++ rest) I Hf Ha M1 ltac:(rewrite map_app, M2; reflexivity)) as (g' & s1 & E1 & A1 & R1).
        assert (I1 : Inv s1) by (eapply adv_inv; eassumption).
        destruct n as [|n]; [inversion Hn|]. cbn [length] in Hn. cbn [seq_items]. rewrite bind_tokenpos.
        rewrite (bind_ok _ _ _ _ _ (try_ok _ _ _ _ E1)). rewrite bind_tokenpos.
        assert (Hpos : ps_pos s1 = (length t1 + ps_pos s)%nat).
        { rewrite (adv_pos _ _ _ A1), (adv_before _ _ _ A1), app_length, rev_length, (inv_pos s I). reflexivity. }
        assert (Hl1 : t1 <> []) by (intros ->; apply N1; symmetry; exact M1).
        destruct (Nat.eqb_spec (ps_pos s1) (ps_pos s)) as [Q|_].
        { exfalso. destruct t1; [congruence|]. cbn [length] in Hpos. lia. }
        destruct (IH N2 Hst (acc ++ [g']) n s1 t2 rest I1 (ftab_of _ _ _ _ Hf A1) (after_of _ _ _ _ _ Ha A1) M2 eq_refl ltac:(lia)) as (l' & s2 & E2 & A2 & R2).
        exists (g' :: l'), s2. rewrite E2, <- app_assoc. split; [reflexivity|].
        split; [exact (adv_trans _ _ _ _ _ A1 A2) | cbn [map]; congruence].
    Qed.

    Lemma titem_reads spec c i k : c_fileid c = O -> Forall D (map tg_item spec) -> conf_item conf spec i k ->
      forall s ts rest, Inv s -> ps_ftab s = ftab -> ps_after s = ts ++ rest -> map shape_of ts = itoks i -> map shape_of rest = k ->
      exists t' s', tagged_item rec spec c s = (ROk (Some t'), s') /\ adv ts s s' /\ ev_ti t' = info_ti i.
    Proof.
      intros Hc Hd Hi s ts rest I Hf Ha Hm Hk.
      destruct Hi as [tag uid line so eo isb t g binc bline k Hfind Hblk Hconf].
      destruct (find_tagged_in _ _ _ Hfind) as (Hin & _).
      assert (Dt : D (tg_item t)). { rewrite Forall_forall in Hd. apply Hd. apply in_map. exact Hin. }
      unfold itoks in Hm. cbn [gmap item_toks] in Hm. rewrite ftoks_make_block in Hm.
      unfold tagged_item. rewrite bind_tokenpos, bind_remaining. rewrite (bind_ok _ _ _ _ _ (skip_comments_none c _ s I)).
      destruct isb.
      - (* block *)
        destruct (map_cons_split _ _ _ _ Hm) as (tB & ts1 & -> & SB & Hm1).
        destruct (map_cons_split _ _ _ _ Hm1) as (tI & ts2 & -> & SI & Hm2).
        destruct (map_app_split _ _ _ _ Hm2) as (td & te & -> & Md & Me).
        destruct (map_cons_split _ _ _ _ Me) as (tE & te1 & -> & SE & Me1).
        destruct (map_cons_split _ _ _ _ Me1) as (tI2 & te2 & -> & SI2 & Me2).
        destruct te2; [|discriminate].
        unfold shape_of in SB, SI, SE, SI2. injection SB as HB _. injection SI as HI HItx. injection SE as HE HEtx. injection SI2 as HI2 HI2tx.
        cbn [app] in Ha.
        destruct (next_tag_block c s tB tI _ I Ha HB HI) as (off & s1 & E1 & A1).
        rewrite (bind_ok _ _ _ _ _ (try_ok _ _ _ _ E1)). cbv zeta. rewrite HItx, Hfind, Hblk. cbn [Bool.eqb negb].
        assert (I1 : Inv s1) by (eapply adv_inv; eassumption).
        destruct (get_next_id_adv s1 I1) as (uid' & s2 & E2 & A2). rewrite (bind_ok _ _ _ _ _ E2).
        assert (I2 : Inv s2) by (eapply adv_inv; eassumption).
        assert (Hnc : c_fileid (ctx_from_token tag tI) = O).
        { cbn. destruct (tok_ok_in s tI I) as (Q & _); [rewrite Ha; right; left; reflexivity | exact Q]. }
        assert (Ha1 : ps_after s1 = td ++ [tE; tI2] ++ rest).
        { rewrite app_assoc. exact (after_of [tB; tI] (td ++ [tE; tI2]) rest s s1 Ha A1). }
        assert (Ha2 : ps_after s2 = td ++ [tE; tI2] ++ rest) by (rewrite (proj1 (adv_nil_after _ _ A2)); exact Ha1).
        assert (Hf2 : ps_ftab s2 = ftab) by (apply (ftab_of _ _ _ _ (ftab_of _ _ _ _ Hf A1) A2)).
        destruct (Hrec (tg_item t) g _ (ctx_from_token tag tI) Hnc Dt Hconf s2 td ([tE; tI2] ++ rest) I2 Hf2 Ha2 Md
                    ltac:(cbn [map app]; rewrite Hk; unfold shape_of; rewrite HE, HEtx, HI2, HI2tx; reflexivity)) as (g' & s3 & E3 & A3 & R3).
        rewrite (bind_ok _ _ _ _ _ E3). rewrite Hnc, bind_incfile.
        assert (I3 : Inv s3) by (eapply adv_inv; eassumption).
        assert (Ha3 : ps_after s3 = tE :: tI2 :: rest) by (apply (after_of td [tE; tI2] rest s2 s3 Ha2 A3)).
        destruct (expect_fine (ctx_from_token tag tI) TEnd s3 tE _ I3 Ha3 HE) as (s4 & E4 & A4).
        assert (I4 : Inv s4) by (eapply adv_inv; eassumption).
        assert (Ha4 : ps_after s4 = tI2 :: rest) by (apply (after_of [tE] [tI2] rest s3 s4 Ha3 A4)).
        destruct (glo_fine s4 I4) as (eo' & G4).
        destruct (expect_fine (ctx_from_token tag tI) TIdentifier s4 tI2 _ I4 Ha4 HI2) as (s5 & E5 & A5).
        unfold bindM at 1. unfold bindM at 1. rewrite E4. unfold bindM at 1. rewrite G4. unfold bindM at 1. rewrite E5.
        rewrite HI2tx, MergeProofs.bytes_eqb_refl. cbv [ret]. rewrite bind_incfile.
        eexists. exists s5. split; [reflexivity|]. split.
        + pose proof (adv_trans _ _ _ _ _ (adv_trans _ _ _ _ _ (adv_trans _ _ _ _ _ (adv_trans _ _ _ _ _ A1 A2) A3) A4) A5) as Q.
          cbn [app] in Q. rewrite <- app_assoc in Q. exact Q.
        + cbn [ev_ti info_ti]. f_equal. apply make_block_ev. exact R3.
      - (* keyword *)
        destruct (map_cons_split _ _ _ _ Hm) as (tI & td & -> & SI & Md).
        unfold shape_of in SI. injection SI as HI HItx. cbn [app] in Ha.
        destruct (next_tag_keyword c s tI _ I Ha HI) as (off & s1 & E1 & A1).
        rewrite (bind_ok _ _ _ _ _ (try_ok _ _ _ _ E1)). cbv zeta. rewrite HItx, Hfind, Hblk. cbn [Bool.eqb negb].
        assert (I1 : Inv s1) by (eapply adv_inv; eassumption).
        destruct (get_next_id_adv s1 I1) as (uid' & s2 & E2 & A2). rewrite (bind_ok _ _ _ _ _ E2).
        assert (I2 : Inv s2) by (eapply adv_inv; eassumption).
        assert (Hnc : c_fileid (ctx_from_token tag tI) = O).
        { cbn. destruct (tok_ok_in s tI I) as (Q & _); [rewrite Ha; left; reflexivity | exact Q]. }
        assert (Ha1 : ps_after s1 = td ++ rest) by (exact (after_of [tI] td rest s s1 Ha A1)).
        assert (Ha2 : ps_after s2 = td ++ rest) by (rewrite (proj1 (adv_nil_after _ _ A2)); exact Ha1).
        assert (Hf2 : ps_ftab s2 = ftab) by (apply (ftab_of _ _ _ _ (ftab_of _ _ _ _ Hf A1) A2)).
        destruct (Hrec (tg_item t) g _ (ctx_from_token tag tI) Hnc Dt Hconf s2 td rest I2 Hf2 Ha2 Md Hk) as (g' & s3 & E3 & A3 & R3).
        rewrite (bind_ok _ _ _ _ _ E3). rewrite Hnc, bind_incfile, bind_ret, bind_incfile.
        eexists. exists s3. split; [reflexivity|]. split.
        + exact (adv_trans _ _ _ _ _ (adv_trans _ _ _ _ _ A1 A2) A3).
        + cbn [ev_ti info_ti]. f_equal. apply make_block_ev. exact R3.
    Qed.

    (* ---------- where no item starts, parse_ifdata_taggeditem returns None and the cursor is where it was ---------- *)
    Lemma titem_stops spec c k : c_fileid c = O -> ts_stops spec k = true ->
      forall s rest, Inv s -> ps_after s = rest -> map shape_of rest = k ->
      exists s', tagged_item rec spec c s = (ROk None, s') /\ adv [] s s'.
    Proof.
      intros Hc Hst s rest I Ha Hk.
      unfold tagged_item. rewrite bind_tokenpos, bind_remaining. rewrite (bind_ok _ _ _ _ _ (skip_comments_none c _ s I)).
      assert (Back : forall ts' s1, adv ts' s s1 -> exists s', (set_tokenpos (ps_pos s) ;;; ret None) s1 = (ROk (@None gtitem), s') /\ adv [] s s').
      { intros ts' s1 A1. destruct (set_tokenpos_back ts' s s1 A1 (inv_pos s I)) as (s2 & E2 & A2).
        exists s2. rewrite (bind_ok _ _ _ _ _ E2). split; [reflexivity | exact A2]. }
      destruct rest as [|t r].
      - destruct (next_tag_eof c s Hc I Ha) as (s1 & E1 & A1). rewrite (bind_ok _ _ _ _ _ (try_ok _ _ _ _ E1)). exact (Back [] s1 A1).
      - destruct (ttype_eqb (tk_type t) TIdentifier) eqn:EI.
        + apply ttype_eqb_eq in EI. destruct (next_tag_keyword c s t r I Ha EI) as (off & s1 & E1 & A1).
          rewrite (bind_ok _ _ _ _ _ (try_ok _ _ _ _ E1)). cbv zeta.
          subst k. cbn [map ts_stops] in Hst. unfold shape_of at 1 in Hst. rewrite EI in Hst.
          destruct (find_tagged spec (tk_text t)) as [tt|]; [|exact (Back [t] s1 A1)].
          rewrite Hst. cbn [Bool.eqb negb]. exact (Back [t] s1 A1).
        + assert (NI : tk_type t <> TIdentifier) by (intros Q; rewrite Q in EI; discriminate).
          destruct (ttype_eqb (tk_type t) TBegin) eqn:EB.
          * apply ttype_eqb_eq in EB. destruct r as [|t2 r2].
            { destruct (next_tag_begin_bad c s t [] Hc I Ha EB Logic.I) as (d & s1 & E1 & A1).
              rewrite (bind_ok _ _ _ _ _ (try_err _ _ _ _ E1)). exact (Back [] s1 A1). }
            destruct (ttype_eqb (tk_type t2) TIdentifier) eqn:EI2.
            { apply ttype_eqb_eq in EI2. destruct (next_tag_block c s t t2 r2 I Ha EB EI2) as (off & s1 & E1 & A1).
              rewrite (bind_ok _ _ _ _ _ (try_ok _ _ _ _ E1)). cbv zeta.
              subst k. cbn [map ts_stops] in Hst. unfold shape_of at 1 2 in Hst. rewrite EB, EI2 in Hst.
              destruct (find_tagged spec (tk_text t2)) as [tt|]; [|exact (Back [t; t2] s1 A1)].
              apply negb_true_iff in Hst. rewrite Hst. cbn [Bool.eqb negb]. exact (Back [t; t2] s1 A1). }
            assert (NI2 : tk_type t2 <> TIdentifier) by (intros Q; rewrite Q in EI2; discriminate).
            destruct (next_tag_begin_bad c s t (t2 :: r2) Hc I Ha EB NI2) as (d & s1 & E1 & A1).
            rewrite (bind_ok _ _ _ _ _ (try_err _ _ _ _ E1)). exact (Back [] s1 A1).
          * assert (NB : tk_type t <> TBegin) by (intros Q; rewrite Q in EB; discriminate).
            destruct (next_tag_none c Hc s t r I Ha NB NI) as (s1 & E1 & A1).
            rewrite (bind_ok _ _ _ _ _ (try_ok _ _ _ _ E1)). exact (Back [] s1 A1).
    Qed.

    Lemma ev_ti_tag t : ti_tag (ev_ti t) = ti_tag t.
    Proof. destruct t; reflexivity. Qed.

    (* ---------- tagged structs: the loop regroups the items by tag in the order in which it meets them ---------- *)
    Lemma tsloop_reads spec c : c_fileid c = O -> Forall D (map tg_item spec) -> forall its k, conf_items ftab conf spec its k ->
      ts_stops spec k = true ->
      forall acc n s ts rest, Inv s -> ps_ftab s = ftab -> ps_after s = ts ++ rest -> map shape_of ts = flat_map itoks its -> map shape_of rest = k ->
      length its < n ->
      exists acc' s', taggedstruct_items rec n spec c acc s = (ROk acc', s') /\ adv ts s s' /\
                      map ev_kv acc' = fold_left (fun a t => assoc_push (ti_tag t) t a) (map info_ti its) (map ev_kv acc).
    Proof.
      intros Hc Hd its k Hl. induction Hl as [k|i its k H1 H2 IH]; intros Hst acc n s ts rest I Hf Ha Hm Hk Hn.
      - cbn [flat_map] in Hm. destruct ts; [|discriminate]. cbn [app] in Ha.
        destruct n as [|n]; [inversion Hn|]. cbn [taggedstruct_items].
        destruct (titem_stops spec c k Hc Hst s rest I Ha Hk) as (s1 & E1 & A1). rewrite (bind_ok _ _ _ _ _ E1).
        exists acc, s1. split; [reflexivity|]. split; [exact A1 | reflexivity].
      - cbn [flat_map] in Hm. destruct (map_app_split _ _ _ _ Hm) as (t1 & t2 & -> & M1 & M2).
        rewrite <- app_assoc in Ha.
        destruct (titem_reads spec c i _ Hc Hd H1 s t1 (t2 ++ rest) I Hf Ha M1 ltac:(rewrite map_app, M2, Hk; reflexivity)) as (t' & s1 & E1 & A1 & R1).
        assert (I1 : Inv s1) by (eapply adv_inv; eassumption).
        destruct n as [|n]; [inversion Hn|]. cbn [length] in Hn. cbn [taggedstruct_items]. rewrite (bind_ok _ _ _ _ _ E1).
        destruct t' as [inc' line' uid' so' eo' tag' data' isb'].
        destruct (IH Hst (assoc_push tag' (GTI inc' line' uid' so' eo' tag' data' isb') acc) n s1 t2 rest I1 (ftab_of _ _ _ _ Hf A1)
                    (after_of _ _ _ _ _ Ha A1) M2 Hk ltac:(lia)) as (acc' & s2 & E2 & A2 & R2).
        exists acc', s2. split; [exact E2|]. split; [exact (adv_trans _ _ _ _ _ A1 A2)|].
        rewrite R2. cbn [map fold_left]. rewrite assoc_push_ev, R1. f_equal. f_equal.
        rewrite <- R1. reflexivity.
    Qed.

    Lemma items_length spec : forall its k, conf_items ftab conf spec its k -> length its <= length (flat_map itoks its).
    Proof.
      intros its k H. induction H as [k|i its k H1 H2 IH]; [apply le_n|]. cbn [length flat_map]. rewrite app_length.
      destruct H1. unfold itoks at 1. cbn [gmap item_toks]. destruct isb; cbn [length]; lia.
    Qed.

    Lemma flat_map_len {A B} (f : A -> list B) l : Forall (fun x => f x <> []) l -> length l <= length (flat_map f l).
    Proof.
      induction 1 as [|x r Hx _ IH]; [apply le_n|]. cbn [length flat_map]. rewrite app_length.
      destruct (f x); [congruence|]. cbn [length]. lia.
    Qed.

    Lemma one_token' ts sh : map shape_of ts = [sh] -> exists t, ts = [t] /\ shape_of t = sh.
    Proof. destruct ts as [|t [|t2 r]]; intros H; try discriminate. injection H as H. exists t. auto. Qed.

    Lemma step_reads ty g k c : c_fileid c = O -> Forall D (subs ty) -> conf ty g k -> reads (item_step rec ty c) g k.
    Proof.
      intros Hc Hd Hconf s ts rest I Hf Ha Hm Hk.
      destruct Hconf as [ty variant t off z hex k Hi Hr|off bits k Hok|off bits k Hok|dim off str k|items off e k He
                        |item dim l k Hne Hlen Hall|items inc l k Hall|item l k Hall Hnn Hst|spec tg k Hits Hst Hre|spec k Hst|spec t k Hit].
      - (* integers *) cbn [ftoks] in Hm. destruct (one_token' _ _ Hm) as (tk & -> & Hs). cbn [app] in Ha.
        rewrite (int_member_writer _ _ _ Hi) in Hs.
        destruct (get_integer_fine c t z hex s tk rest I Ha Hs Hr) as (s1 & E1 & A1).
        destruct (glo_fine s1 (adv_inv _ _ _ I A1)) as (o & G).
        assert (Es : item_step rec ty c = int_item variant t c) by (destruct ty; try discriminate; injection Hi as <- <-; reflexivity).
        rewrite Es. unfold int_item. rewrite (bind_ok _ _ _ _ _ E1), (bind_ok _ _ _ _ _ G).
        eexists. exists s1. split; [reflexivity|]. split; [exact A1 | reflexivity].
      - cbn [ftoks] in Hm. destruct (one_token' _ _ Hm) as (tk & -> & Hs). cbn [app] in Ha.
        destruct (get_float_fine c ftab bits s tk rest I Hf Ha Hs Hok) as (s1 & E1 & A1).
        destruct (glo_fine s1 (adv_inv _ _ _ I A1)) as (o & G). cbn [item_step]. rewrite (bind_ok _ _ _ _ _ E1), (bind_ok _ _ _ _ _ G).
        eexists. exists s1. split; [reflexivity|]. split; [exact A1 | reflexivity].
      - cbn [ftoks] in Hm. destruct (one_token' _ _ Hm) as (tk & -> & Hs). cbn [app] in Ha.
        destruct (get_double_fine c ftab bits s tk rest I Hf Ha Hs Hok) as (s1 & E1 & A1).
        destruct (glo_fine s1 (adv_inv _ _ _ I A1)) as (o & G). cbn [item_step]. rewrite (bind_ok _ _ _ _ _ E1), (bind_ok _ _ _ _ _ G).
        eexists. exists s1. split; [reflexivity|]. split; [exact A1 | reflexivity].
      - cbn [ftoks] in Hm. destruct (one_token' _ _ Hm) as (tk & -> & Hs). cbn [app] in Ha.
        destruct (get_string_maxlen_fine c Hc dim s tk rest str I Ha Hs) as (s1 & E1 & A1).
        destruct (glo_fine s1 (adv_inv _ _ _ I A1)) as (o & G). cbn [item_step]. rewrite (bind_ok _ _ _ _ _ E1), (bind_ok _ _ _ _ _ G).
        eexists. exists s1. split; [reflexivity|]. split; [exact A1 | reflexivity].
      - cbn [ftoks] in Hm. destruct (one_token' _ _ Hm) as (tk & -> & Hs). cbn [app] in Ha. unfold shape_of in Hs. injection Hs as Hty Htx.
        destruct (get_identifier_fine c Hc s tk rest I Ha Hty) as (s1 & E1 & A1).
        destruct (glo_fine s1 (adv_inv _ _ _ I A1)) as (o & G).
        cbn [item_step]. rewrite (bind_ok _ _ _ _ _ E1), (bind_ok _ _ _ _ _ G), Htx, He.
        eexists. exists s1. split; [reflexivity|]. split; [exact A1 | reflexivity].
      - (* arrays *) cbn [ftoks subs] in *. inversion Hd as [|? ? D1 _]; subst.
        destruct (array_reads c item Hc D1 l _ Hall s ts rest I Hf Ha Hm eq_refl) as (l' & s1 & E1 & A1 & R1).
        assert (Es : item_step rec (TArray item (length l)) c = (x <-- array_items rec (length l) item c ;; ret (GArray x)))
          by (destruct item; try reflexivity; congruence).
        rewrite Es, (bind_ok _ _ _ _ _ E1). eexists. exists s1. split; [reflexivity|]. split; [exact A1 | cbn [ev]; congruence].
      - (* structs *) cbn [ftoks subs] in *.
        destruct (struct_reads c Hc items l _ Hall Hd s ts rest I Hf Ha Hm Hk) as (l' & s1 & E1 & A1 & R1).
        cbn [item_step]. rewrite (bind_ok _ _ _ _ _ E1), Hc, bind_incfile.
        eexists. exists s1. split; [reflexivity|]. split; [exact A1 | cbn [ev]; congruence].
      - (* sequences *) cbn [ftoks subs] in *. inversion Hd as [|? ? D1 _]; subst.
        cbn [item_step]. rewrite bind_remaining.
        assert (Hn : length l < S (S (length (ps_after s)))).
        { pose proof (flat_map_len ftoks l Hnn) as Q.
          rewrite <- Hm, map_length in Q. rewrite Ha, app_length. lia. }
        destruct (seq_reads c item Hc D1 l _ Hall Hnn Hst [] _ s ts rest I Hf Ha Hm eq_refl Hn) as (l' & s1 & E1 & A1 & R1).
        rewrite (bind_ok _ _ _ _ _ E1). eexists. exists s1. split; [reflexivity|]. split; [exact A1 | cbn [ev app]; congruence].
      - (* tagged structs *) cbn [subs] in *.
        change (ftoks (GTaggedStruct tg)) with (flat_map (item_toks) (group_order (flat_map (fun kv => map (ti_toks ftab) (snd kv)) tg))) in Hm.
        rewrite ftoks_tagged in Hm.
        cbn [item_step]. rewrite bind_remaining.
        assert (Hd' : Forall D (map tg_item spec)).
        { rewrite Forall_forall in *. intros x Hx. apply Hd. apply in_map_iff in Hx. destruct Hx as (t0 & <- & Ht0). apply in_map_iff. exists t0. destruct t0; auto. }
        assert (Hn : length (witems tg) < S (S (length (ps_after s)))).
        { pose proof (items_length spec _ _ Hits) as Q. rewrite <- Hm, map_length in Q. rewrite Ha, app_length. lia. }
        destruct (tsloop_reads spec c Hc Hd' _ _ Hits Hst [] _ s ts rest I Hf Ha Hm Hk Hn) as (acc' & s1 & E1 & A1 & R1).
        rewrite (bind_ok _ _ _ _ _ E1). eexists. exists s1. split; [reflexivity|]. split; [exact A1|].
        cbn [ev]. f_equal. change (map ev_kv acc' = map ev_kv tg). rewrite R1. exact Hre.
      - (* a tagged union without an item *)
        change (ftoks (GTaggedUnion [])) with (@nil shape) in Hm. destruct ts; [|discriminate]. cbn [app] in Ha.
        destruct (titem_stops spec c k Hc Hst s rest I Ha Hk) as (s1 & E1 & A1).
        cbn [item_step]. rewrite (bind_ok _ _ _ _ _ E1). eexists. exists s1. split; [reflexivity|]. split; [exact A1 | reflexivity].
      - (* a tagged union with its item *)
        assert (Hd' : Forall D (map tg_item spec)).
        { cbn [subs] in Hd. rewrite Forall_forall in *. intros x Hx. apply Hd. apply in_map_iff in Hx. destruct Hx as (t0 & <- & Ht0). apply in_map_iff. exists t0. destruct t0; auto. }
        assert (Et : ftoks (GTaggedUnion [(ti_tag t, [t])]) = itoks (ti_info t)) by (destruct t; cbn; rewrite ?app_nil_r; reflexivity).
        rewrite Et in Hm.
        destruct (titem_reads spec c _ _ Hc Hd' Hit s ts rest I Hf Ha Hm Hk) as (t' & s1 & E1 & A1 & R1).
        cbn [item_step]. rewrite (bind_ok _ _ _ _ _ E1). destruct t' as [inc' line' uid' so' eo' tag' data' isb'].
        eexists. exists s1. split; [reflexivity|]. split; [exact A1|].
        assert (Rt : info_ti (ti_info t) = ev_ti t) by (destruct t; reflexivity).
        rewrite Rt in R1. cbn [ev map fst snd]. rewrite R1. f_equal. f_equal. f_equal.
        change tag' with (ti_tag (GTI inc' line' uid' so' eo' tag' data' isb')). rewrite <- ev_ti_tag, R1, ev_ti_tag. reflexivity.
    Qed.
  End ReadRec.

  (** conforming content - sequences and tagged items included - is read back exactly, consuming exactly the tokens the writer printed *)
  Theorem conforming_content_is_read_back_with_follow : forall f ty g k c, c_fileid c = O -> ty_depth ty <= f -> conf ty g k ->
    reads (parse_ifdata_item f ty c) g k.
  Proof.
    induction f as [|f IH]; intros ty g k c Hc Hd Hconf.
    - exfalso. destruct ty; cbn [ty_depth] in Hd; lia.
    - cbn [parse_ifdata_item]. apply (step_reads (parse_ifdata_item f) (fun t => ty_depth t <= f)).
      + intros ty0 g0 k0 c0 Hc0 H0 C0. exact (IH ty0 g0 k0 c0 Hc0 H0 C0).
      + intros ty0 c0 k0 Hc0 H0 F0. exact (what_cannot_start_a_value_is_an_error f ty0 c0 k0 Hc0 H0 F0).
      + exact Hc.
      + apply subs_depth. exact Hd.
      + exact Hconf.
  Qed.
End Reads.

(* ---------- the whole IF_DATA block: content that conforms to the first applicable definition is marked valid ---------- *)
Section Block.
  Variable ftab : list fentry.

  Lemma conforming_content_from_spec sp c g k e : c_fileid c = O -> conf ftab sp g ((TEnd, e) :: k) ->
    forall s ts rest, Inv s -> ps_ftab s = ftab -> ps_after s = ts ++ rest -> map shape_of ts = ftoks ftab g -> map shape_of rest = (TEnd, e) :: k ->
    exists g' s', parse_ifdata_from_spec sp c s = (ROk (Some (make_block g' None (c_line c))), s') /\ adv ts s s' /\ ev g' = ev g.
  Proof.
    intros Hc Hconf s ts rest I Hf Ha Hm Hk.
    destruct (map_cons_split _ _ _ _ Hk) as (tE & r & -> & SE & _). unfold shape_of in SE. injection SE as HE _.
    unfold parse_ifdata_from_spec. rewrite bind_tokenpos.
    destruct (conforming_content_is_read_back_with_follow ftab (S (ty_depth sp)) sp g _ c Hc ltac:(lia) Hconf s ts (tE :: r) I Hf Ha Hm Hk)
      as (g' & s1 & E1 & A1 & R1).
    assert (I1 : Inv s1) by (eapply adv_inv; eassumption).
    rewrite (bind_ok _ _ _ _ _ (try_ok _ _ _ _ E1)).
    rewrite bind_remaining, (bind_ok _ _ _ _ _ (try_ok _ _ _ _ (skip_comments_none c _ s1 I1))).
    unfold peek_token at 1. unfold bindM at 1.
    assert (Ha1 : ps_after s1 = tE :: r).
    { pose proof (adv_after _ _ _ A1) as Q. rewrite Ha in Q. apply app_inv_head in Q. symmetry. exact Q. }
    rewrite Ha1, HE. cbn [ttype_eqb]. rewrite Hc, bind_incfile.
    exists g', s1. split; [reflexivity|]. split; [exact A1 | exact R1].
  Qed.

  Theorem conforming_ifdata_is_valid sp specs fuel c g k e : c_fileid c = O -> conf ftab sp g ((TEnd, e) :: k) ->
    forall s ts rest, Inv s -> ps_ftab s = ftab -> ps_after s = ts ++ rest -> map shape_of ts = ftoks ftab g -> map shape_of rest = (TEnd, e) :: k ->
    exists g' s', parse_ifdata (sp :: specs) fuel c s = (ROk (Some (make_block g' None (c_line c)), true), s') /\ adv ts s s' /\ ev g' = ev g.
  Proof.
    intros Hc Hconf s ts rest I Hf Ha Hm Hk.
    destruct (conforming_content_from_spec sp c g k e Hc Hconf s ts rest I Hf Ha Hm Hk) as (g' & s1 & E1 & A1 & R1).
    unfold parse_ifdata. rewrite bind_remaining, (bind_ok _ _ _ _ _ (skip_comments_none c _ s I)).
    unfold peek_token at 1. unfold bindM at 1.
    assert (Hsome : exists t0, match ps_after s with t :: _ => Some t | [] => None end = Some t0).
    { rewrite Ha. destruct (map_cons_split _ _ _ _ Hk) as (tE & r & -> & _). destruct ts; cbn [app]; eexists; reflexivity. }
    destruct Hsome as (t0 & ->).
    cbn [first_spec]. rewrite (bind_ok _ _ _ _ _ (bind_ok _ _ _ _ _ E1)).
    exists g', s1. split; [reflexivity|]. split; [exact A1 | exact R1].
  Qed.
End Block.
Print Assumptions what_cannot_start_a_value_is_an_error.
Print Assumptions conforming_content_is_read_back_with_follow.
Print Assumptions conforming_ifdata_is_valid.
