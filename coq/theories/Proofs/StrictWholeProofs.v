(** C06 for the whole generic parser: the two modes of ANY computation built from the primitives of Gram/PState.v -
    including the sites that catch an error and restore the cursor - are related as follows.

    [csim m]: a run of [m] never changes the strictness flag and only appends to the log; in strict mode every entry it
    appends is a deprecation notice; and a non-strict run that appends nothing but deprecation notices IS the strict run:
    same result (value, error, panic), same final state up to the flag.

    It is proved for every function of Gram/Parser.v up to parse_file, for every grammar. *)
From Coq Require Import Ascii String List Bool NArith ZArith Lia.
From A2L Require Import Text.Escape Text.IntText Lex.Tokenizer Gram.Spec A2ml.Types Gram.PState Gram.Parser.
Import ListNotations.

Definition set_strict (b : bool) (s : pstate) : pstate :=
  mkPS (ps_before s) (ps_after s) (ps_first_line s) (ps_last s) (ps_seq s) (ps_log s) b (ps_ver s)
       (ps_nfiles s) (ps_ftab s) (ps_pos s) (ps_kept s) (ps_specs s) (ps_a2ml s).

Definition is_dep (v : string) : bool := String.eqb v "BlockRefDeprecated" || String.eqb v "EnumRefDeprecated".
Definition deprecation (d : diag) : bool := is_dep (d_variant d).

Definition csim {A} (m : M A) : Prop :=
  forall s r s', m s = (r, s') ->
    ps_strict s' = ps_strict s /\
    exists l, ps_log s' = l ++ ps_log s /\
      (ps_strict s = true -> forallb deprecation l = true) /\
      (ps_strict s = false -> forallb deprecation l = true -> m (set_strict true s) = (r, set_strict true s')).

(* a computation that neither reads nor writes the flag and leaves the log alone *)
Definition flagfree {A} (m : M A) : Prop :=
  forall s b, ps_strict (snd (m s)) = ps_strict s /\ ps_log (snd (m s)) = ps_log s /\
              m (set_strict b s) = (fst (m s), set_strict b (snd (m s))).

Lemma flagfree_csim {A} (m : M A) : flagfree m -> csim m.
Proof.
  intros H s r s' E. destruct (H s true) as (H1 & H2 & H3). rewrite E in *. cbn [fst snd] in *.
  split; [exact H1|]. exists []. split; [exact H2|]. split; [reflexivity|]. intros _ _. exact H3.
Qed.

Lemma csim_ext {A} (m m' : M A) : (forall s, m s = m' s) -> csim m' -> csim m.
Proof.
  intros Hx H s r s' E. rewrite Hx in E. destruct (H s r s' E) as (H1 & l & H2 & H3 & H4).
  split; [exact H1|]. exists l. split; [exact H2|]. split; [exact H3|]. intros Hs F. rewrite Hx. apply H4; assumption.
Qed.

(* ---------- the monad ---------- *)
Lemma csim_ret {A} (a : A) : csim (ret a).
Proof. apply flagfree_csim. intros s b. repeat split. Qed.
Lemma csim_fail {A} d : csim (@fail A d).
Proof. apply flagfree_csim. intros s b. repeat split. Qed.
Lemma csim_panic {A} x : csim (@panic A x).
Proof. apply flagfree_csim. intros s b. repeat split. Qed.
Lemma csim_fuel {A} : csim (@out_of_fuel A).
Proof. apply flagfree_csim. intros s b. repeat split. Qed.

Lemma csim_bind {A B} (m : M A) (f : A -> M B) : csim m -> (forall a, csim (f a)) -> csim (bindM m f).
Proof.
  intros Hm Hf s r s' E. unfold bindM in E. destruct (m s) as [r1 s1] eqn:E1.
  destruct (Hm s r1 s1 E1) as (S1 & l1 & L1 & D1 & C1).
  assert (Stop : r1 = r1 -> (forall a, r1 <> ROk a) -> (match r1 with ROk a => f a s1 | RErr d => (RErr d, s1)
            | RPanic x => (RPanic x, s1) | RFuel => (RFuel, s1) end) = (r, s') ->
            ps_strict s' = ps_strict s /\ exists l, ps_log s' = l ++ ps_log s /\
              (ps_strict s = true -> forallb deprecation l = true) /\
              (ps_strict s = false -> forallb deprecation l = true ->
               bindM m f (set_strict true s) = (r, set_strict true s'))).
  { intros _ Hn E2. destruct r1 as [a| | |]; [exfalso; apply (Hn a); reflexivity | | |];
      inversion E2; subst; (split; [exact S1|]); exists l1; (split; [exact L1|]); (split; [exact D1|]);
      intros Hs F; unfold bindM; rewrite (C1 Hs F); reflexivity. }
  destruct r1 as [a| | |]; try (apply Stop; [reflexivity | discriminate | exact E]).
  destruct (Hf a s1 r s' E) as (S2 & l2 & L2 & D2 & C2).
  split; [congruence|]. exists (l2 ++ l1). split; [rewrite L2, L1, app_assoc; reflexivity|]. split.
  - intros Hs. rewrite forallb_app, D1, D2 by congruence. reflexivity.
  - intros Hs F. rewrite forallb_app in F. apply andb_true_iff in F. destruct F as [F2 F1].
    unfold bindM. rewrite (C1 Hs F1). apply C2; [congruence | exact F2].
Qed.

Lemma csim_try {A} (m : M A) : csim m -> csim (try m).
Proof.
  intros Hm s r s' E. unfold try in E. destruct (m s) as [r1 s1] eqn:E1.
  destruct (Hm s r1 s1 E1) as (S1 & l1 & L1 & D1 & C1).
  assert (s' = s1) by (destruct r1; inversion E; reflexivity). subst s1.
  split; [exact S1|]. exists l1. split; [exact L1|]. split; [exact D1|].
  intros Hs F. unfold try. rewrite (C1 Hs F). destruct r1; inversion E; reflexivity.
Qed.

(* ---------- the two places where the log grows ---------- *)
Lemma csim_error_or_log d : deprecation d = false -> csim (error_or_log d).
Proof.
  intros Hd s r s' E. unfold error_or_log in *. destruct (ps_strict s) eqn:Hs; inversion E; subst.
  - split; [exact Hs|]. exists []. split; [reflexivity|]. split; [reflexivity|]. discriminate.
  - split; [exact Hs|]. exists [d]. split; [reflexivity|]. split; [discriminate|].
    intros _ F. cbn [forallb] in F. rewrite Hd in F. discriminate.
Qed.

Lemma csim_log_warning d : deprecation d = true -> csim (log_warning d).
Proof.
  intros Hd s r s' E. unfold log_warning in *. inversion E; subst.
  split; [reflexivity|]. exists [d]. split; [reflexivity|]. cbn [forallb]. rewrite Hd. split; [reflexivity|].
  intros _ _. reflexivity.
Qed.

Lemma flagfree_mk_diag v c k : flagfree (mk_diag v c k).
Proof. intros s b. unfold mk_diag. cbn [ps_nfiles ps_last set_strict]. destruct (Nat.ltb (c_fileid c) (ps_nfiles s)); repeat split. Qed.

Lemma mk_diag_variant v c k s d s' : mk_diag v c k s = (ROk d, s') -> d_variant d = v.
Proof. unfold mk_diag. destruct (Nat.ltb (c_fileid c) (ps_nfiles s)); intros H; inversion H; reflexivity. Qed.

(* d <-- mk_diag v .. ;; k d, where k is only looked at for diagnostics of variant v *)
Lemma csim_with_diag {A} v c key (k : diag -> M A) :
  (forall d, d_variant d = v -> csim (k d)) -> csim (bindM (mk_diag v c key) k).
Proof.
  intros Hk. apply (csim_ext _ (bindM (mk_diag v c key) (fun d => if String.eqb (d_variant d) v then k d else panic ""))).
  - intros s. unfold bindM. destruct (mk_diag v c key s) as [[d| | |] s1] eqn:E; try reflexivity.
    rewrite (mk_diag_variant _ _ _ _ _ _ E), String.eqb_refl. reflexivity.
  - apply csim_bind; [apply flagfree_csim, flagfree_mk_diag|]. intros d.
    destruct (String.eqb_spec (d_variant d) v) as [Hv|_]; [apply Hk, Hv | apply csim_panic].
Qed.

Lemma csim_diag_eol v c key : is_dep v = false -> csim (bindM (mk_diag v c key) error_or_log).
Proof. intros Hv. apply csim_with_diag. intros d Hd. apply csim_error_or_log. unfold deprecation. rewrite Hd. exact Hv. Qed.
Lemma csim_diag_warn v c key : is_dep v = true -> csim (bindM (mk_diag v c key) log_warning).
Proof. intros Hv. apply csim_with_diag. intros d Hd. apply csim_log_warning. unfold deprecation. rewrite Hd. exact Hv. Qed.
Lemma csim_diag_fail {A} v c key : csim (bindM (mk_diag v c key) (@fail A)).
Proof. apply csim_bind; [apply flagfree_csim, flagfree_mk_diag | intros d; apply csim_fail]. Qed.

(* ---------- reading the state ---------- *)
Definition reads {B} (g : pstate -> B) : M B := fun s => (ROk (g s), s).
Lemma csim_reads {B} (g : pstate -> B) : (forall s b, g (set_strict b s) = g s) -> csim (reads g).
Proof. intros H. apply flagfree_csim. intros s b. unfold reads. cbn [fst snd]. rewrite H. repeat split. Qed.

(* fun s => k (g s) s *)
Lemma csim_read {A B} (g : pstate -> B) (k : B -> M A) :
  (forall s b, g (set_strict b s) = g s) -> (forall x, csim (k x)) -> csim (fun s => k (g s) s).
Proof.
  intros Hg Hk. apply (csim_ext _ (bindM (reads g) k)); [intros s; reflexivity|].
  apply csim_bind; [apply csim_reads, Hg | exact Hk].
Qed.

(* ---------- primitives that do not look at the flag ---------- *)
Lemma ff_get_tokenpos : flagfree get_tokenpos.
Proof. intros s b. repeat split. Qed.
Lemma ff_set_tokenpos n : flagfree (set_tokenpos n).
Proof.
  intros s b. unfold set_tokenpos. cbn [ps_pos ps_before ps_after set_strict].
  destruct (if Nat.leb n (ps_pos s) then move_back (ps_pos s - n) (ps_before s) (ps_after s)
            else move_fwd (n - ps_pos s) (ps_before s) (ps_after s)) as [x y]. repeat split.
Qed.
Lemma ff_peek : flagfree peek_token.
Proof. intros s b. repeat split. Qed.
Lemma ff_cursor_next : flagfree cursor_next.
Proof. intros s b. unfold cursor_next. cbn [ps_after set_strict]. destruct (ps_after s); repeat split. Qed.
Lemma ff_undo : flagfree undo_get_token.
Proof. intros s b. unfold undo_get_token. cbn [ps_before set_strict]. destruct (ps_before s); repeat split. Qed.
Lemma ff_get_next_id : flagfree get_next_id.
Proof. intros s b. repeat split. Qed.
Lemma ff_get_incfilename f : flagfree (get_incfilename f).
Proof. intros s b. repeat split. Qed.
Lemma ff_remaining : flagfree remaining.
Proof. intros s b. repeat split. Qed.
Lemma ff_get_specs : flagfree get_specs.
Proof. intros s b. repeat split. Qed.
Lemma ff_push_spec t : flagfree (push_spec t).
Proof. intros s b. repeat split. Qed.
Lemma ff_set_file_version v : flagfree (set_file_version v).
Proof. intros s b. repeat split. Qed.
Lemma ff_set_kept k : flagfree (fun s => (ROk tt, upd_kept s k)).
Proof. intros s b. repeat split. Qed.

Lemma ff_get_line_offset : flagfree get_line_offset.
Proof.
  intros s b. unfold get_line_offset. cbn [ps_before ps_after ps_pos ps_kept ps_first_line set_strict].
  destruct (ps_before s) as [|cur [|p r]]; destruct (ps_after s) as [|x a].
  1-5: destruct (ps_first_line s) as [l|]; [destruct (N.leb 1 l)|]; repeat split.
  destruct (find_prev (p :: r) (ps_pos s - 2) (ps_kept s)) as [[prev prev_pos]|]; [|repeat split].
  repeat match goal with |- context [if ?c then _ else _] => destruct c end; repeat split.
Qed.

Lemma csim_get_token c : csim (get_token c).
Proof.
  apply (csim_ext _ (bindM peek_token (fun pk => match pk with
           | Some t => fun s => (ROk t, upd_last (upd_cursor s (t :: ps_before s) (tl (ps_after s)) (S (ps_pos s))) (tk_line t))
           | None => bindM (eof_diag c) fail end))).
  - intros s. unfold get_token, bindM, peek_token. destruct (ps_after s) eqn:E; cbv beta iota; rewrite ?E; reflexivity.
  - apply csim_bind; [apply flagfree_csim, ff_peek|]. intros [t|].
    + apply flagfree_csim. intros s b. repeat split.
    + apply csim_diag_fail.
Qed.

Global Hint Resolve csim_ret csim_fail csim_panic csim_fuel csim_get_token csim_diag_fail : csim.
Global Hint Extern 1 (csim get_tokenpos) => apply flagfree_csim, ff_get_tokenpos : csim.
Global Hint Extern 1 (csim (set_tokenpos _)) => apply flagfree_csim, ff_set_tokenpos : csim.
Global Hint Extern 1 (csim peek_token) => apply flagfree_csim, ff_peek : csim.
Global Hint Extern 1 (csim cursor_next) => apply flagfree_csim, ff_cursor_next : csim.
Global Hint Extern 1 (csim undo_get_token) => apply flagfree_csim, ff_undo : csim.
Global Hint Extern 1 (csim get_next_id) => apply flagfree_csim, ff_get_next_id : csim.
Global Hint Extern 1 (csim (get_incfilename _)) => apply flagfree_csim, ff_get_incfilename : csim.
Global Hint Extern 1 (csim remaining) => apply flagfree_csim, ff_remaining : csim.
Global Hint Extern 1 (csim get_specs) => apply flagfree_csim, ff_get_specs : csim.
Global Hint Extern 1 (csim (push_spec _)) => apply flagfree_csim, ff_push_spec : csim.
Global Hint Extern 1 (csim (set_file_version _)) => apply flagfree_csim, ff_set_file_version : csim.
Global Hint Extern 1 (csim get_line_offset) => apply flagfree_csim, ff_get_line_offset : csim.
Global Hint Extern 1 (csim (mk_diag _ _ _)) => apply flagfree_csim, flagfree_mk_diag : csim.
Global Hint Extern 1 (csim (bindM (mk_diag _ _ _) error_or_log)) => apply csim_diag_eol; reflexivity : csim.
Global Hint Extern 1 (csim (bindM (mk_diag _ _ _) log_warning)) => apply csim_diag_warn; reflexivity : csim.

(* decompose a computation along its syntax *)
Ltac cs :=
  repeat first
    [ solve [auto with csim]
    | match goal with |- csim (?F _ _) => is_fix F; fail 2 end      (* an anonymous loop: left to [loop_induction] *)
    | apply csim_diag_fail
    | match goal with
      | Hd : d_variant ?d = _ |- csim (error_or_log ?d) =>
          apply csim_error_or_log; unfold deprecation; rewrite Hd; reflexivity
      | Hd : d_variant ?d = _ |- csim (log_warning ?d) =>
          apply csim_log_warning; unfold deprecation; rewrite Hd; reflexivity
      end
    | apply csim_with_diag; intros ?d ?Hd; cbv beta
    | apply csim_try
    | apply csim_bind; [|intro; cbv beta]
    | match goal with
      | |- csim (match ?x with _ => _ end) => destruct x
      | |- csim (let '(_, _) := ?x in _) => destruct x
      end ].

(* ---------- PState.v ---------- *)
Lemma csim_expect_loop c ty : forall fuel, csim (expect_loop fuel c ty).
Proof. induction fuel as [|f IH]; cbn [expect_loop]; cs. Qed.
Global Hint Resolve csim_expect_loop : csim.

Lemma csim_expect_token c ty : csim (expect_token c ty).
Proof.
  apply (csim_read (fun s => length (ps_after s)) (fun n => expect_loop (S n) c ty)); [reflexivity|].
  intros n. apply csim_expect_loop.
Qed.
Global Hint Resolve csim_expect_token : csim.

Lemma csim_get_identifier c : csim (get_identifier c).
Proof. unfold get_identifier. cs. Qed.
Global Hint Resolve csim_get_identifier : csim.

Lemma csim_get_string c : csim (get_string c).
Proof.
  unfold get_string. cs.
Qed.
Global Hint Resolve csim_get_string : csim.

Lemma csim_get_string_maxlen c n : csim (get_string_maxlen c n).
Proof. unfold get_string_maxlen. cs. Qed.
Lemma csim_get_integer t c : csim (get_integer t c).
Proof. unfold get_integer. cs. Qed.
Global Hint Resolve csim_get_string_maxlen csim_get_integer : csim.

Global Hint Extern 1 (csim (reads _)) => apply csim_reads; reflexivity : csim.

Lemma csim_get_double c : csim (get_double c).
Proof.
  unfold get_double. cs.
  apply (csim_ext _ (bindM (reads (fun s => find_fentry (ps_ftab s) (tk_text a))) (fun x => match x with
           | Some e => if fe_ok e && (fe_bits e mod 2 ^ 63 <? 0x7FF0000000000000)%N then ret (fe_bits e)
                       else bindM (mk_diag "MalformedNumber" c (tk_text a)) fail
           | None => panic "float oracle: lexeme missing from the table" end))).
  - intros s. unfold bindM, reads. destruct (find_fentry (ps_ftab s) (tk_text a)) as [e|]; [|reflexivity].
    destruct (fe_ok e && _); reflexivity.
  - cs.
Qed.

Lemma csim_get_float c : csim (get_float c).
Proof.
  unfold get_float. cs.
  apply (csim_ext _ (bindM (reads (fun s => find_fentry (ps_ftab s) (tk_text a))) (fun x => match x with
           | Some e => if fe_ok32 e && ((fe_bits32 e mod 2 ^ 63 <? 0x7FF0000000000000)%N || starts_0x (tk_text a))
                       then ret (fe_bits32 e)
                       else bindM (mk_diag "MalformedNumber" c (tk_text a)) fail
           | None => panic "float oracle: lexeme missing from the table" end))).
  - intros s. unfold bindM, reads. destruct (find_fentry (ps_ftab s) (tk_text a)) as [e|]; [|reflexivity].
    destruct (fe_ok32 e && _); reflexivity.
  - cs.
Qed.
Global Hint Resolve csim_get_double csim_get_float : csim.

Lemma csim_version_cond {A} (p : version -> bool) (m1 m2 : M A) :
  csim m1 -> csim m2 -> csim (fun s => if p (ps_ver s) then m1 s else m2 s).
Proof.
  intros H1 H2. apply (csim_ext _ (fun s => (fun b : bool => if b then m1 else m2) (p (ps_ver s)) s)).
  - intros s. cbv beta. destruct (p (ps_ver s)); reflexivity.
  - apply (csim_read (fun s => p (ps_ver s)) (fun b : bool => if b then m1 else m2)); [reflexivity|].
    intros [|]; assumption.
Qed.

Lemma csim_check_block_version_lower c tag v : csim (check_block_version_lower c tag v).
Proof.
  unfold check_block_version_lower.
  apply (csim_version_cond (fun x => version_ltb x v) (bindM (mk_diag "BlockRefTooNew" c tag) error_or_log) (ret tt)); cs.
Qed.
Lemma csim_check_block_version_upper c tag v : csim (check_block_version_upper c tag v).
Proof.
  unfold check_block_version_upper.
  apply (csim_version_cond (fun x => version_ltb v x) (bindM (mk_diag "BlockRefDeprecated" c tag) log_warning) (ret tt)); cs.
Qed.
Lemma csim_check_enumitem_version_lower c tag v : csim (check_enumitem_version_lower c tag v).
Proof.
  unfold check_enumitem_version_lower.
  apply (csim_version_cond (fun x => version_ltb x v) (bindM (mk_diag "EnumRefTooNew" c tag) error_or_log) (ret tt)); cs.
Qed.
Lemma csim_check_enumitem_version_upper c tag v : csim (check_enumitem_version_upper c tag v).
Proof.
  unfold check_enumitem_version_upper.
  apply (csim_version_cond (fun x => version_ltb v x) (bindM (mk_diag "EnumRefDeprecated" c tag) log_warning) (ret tt)); cs.
Qed.
Global Hint Resolve csim_check_block_version_lower csim_check_block_version_upper
  csim_check_enumitem_version_lower csim_check_enumitem_version_upper : csim.

Lemma csim_require_block tag b c : csim (require_block tag b c).
Proof. unfold require_block. cs. Qed.
Lemma csim_require_keyword tag b c : csim (require_keyword tag b c).
Proof. unfold require_keyword. cs. Qed.
Lemma csim_handle_multiplicity c tag b : csim (handle_multiplicity_error c tag b).
Proof. unfold handle_multiplicity_error. cs. Qed.
Global Hint Resolve csim_require_block csim_require_keyword csim_handle_multiplicity : csim.

Lemma csim_get_next_tag_or_comment c : csim (get_next_tag_or_comment c).
Proof.
  unfold get_next_tag_or_comment. cs.
  apply flagfree_csim, ff_set_kept.
Qed.
Global Hint Resolve csim_get_next_tag_or_comment : csim.

Lemma csim_unknown_loop c errc tag isb stop : forall fuel bal, csim (unknown_loop fuel c errc tag isb stop bal).
Proof. induction fuel as [|f IH]; intros bal; cbn [unknown_loop]; cs. Qed.
Global Hint Resolve csim_unknown_loop : csim.

Lemma csim_handle_unknown c tag isb stop : csim (handle_unknown_taggedstruct_tag c tag isb stop).
Proof.
  unfold handle_unknown_taggedstruct_tag. cs.
  match goal with
  | |- csim (fun s => unknown_loop (S (length (ps_after s))) ?c ?e ?t ?b ?st ?bal s) =>
      apply (csim_read (fun s => length (ps_after s)) (fun n => unknown_loop (S n) c e t b st bal));
      [reflexivity | intros n; apply csim_unknown_loop]
  end.
Qed.
Global Hint Resolve csim_handle_unknown : csim.

(* ---------- Parser.v: enumerations, uninterpreted IF_DATA ---------- *)
Lemma csim_parse_enum td c : csim (parse_enum td c).
Proof. unfold parse_enum. cs. Qed.
Global Hint Resolve csim_parse_enum : csim.

Lemma csim_skip_comments c : forall fuel, csim (skip_comments fuel c).
Proof. induction fuel as [|f IH]; cbn [skip_comments]; cs. Qed.
Global Hint Resolve csim_skip_comments : csim.

(* an anonymous loop (fix loop n acc := ..) applied to its fuel and accumulator: induction on the fuel *)
Ltac loop_induction :=
  match goal with
  | |- csim (?F ?n ?acc) =>
      is_fix F;
      let L := fresh "L" in
      assert (L : forall k x, csim (F k x));
      [ let k := fresh "k" in let IHk := fresh "IHk" in
        induction k as [|k IHk]; intros ?x; cbn beta iota
      | apply L ]
  end.

Lemma csim_unknown : forall fuel,
  (forall c b, csim (unknown_ifdata fuel c b)) /\ (forall c, csim (unknown_taggedstruct fuel c)).
Proof.
  induction fuel as [|f [IH1 IH2]]; [split; intros; cbn; cs|].
  split.
  - intros c b. cbn [unknown_ifdata]. cs; loop_induction; cs.
  - intros c. cbn [unknown_taggedstruct]. cs; loop_induction; cs.
Qed.

Lemma csim_unknown_ifdata fuel c b : csim (unknown_ifdata fuel c b).
Proof. apply csim_unknown. Qed.
Lemma csim_unknown_taggedstruct fuel c : csim (unknown_taggedstruct fuel c).
Proof. apply csim_unknown. Qed.
Global Hint Resolve csim_unknown_ifdata csim_unknown_taggedstruct : csim.

Lemma csim_unknown_ifdata_start fuel c : csim (unknown_ifdata_start fuel c).
Proof. unfold unknown_ifdata_start. cs. Qed.
Global Hint Resolve csim_unknown_ifdata_start : csim.

(* ---------- the type-directed IF_DATA parser ---------- *)
Lemma csim_int_item v t c : csim (int_item v t c).
Proof. unfold int_item. cs. Qed.
Global Hint Resolve csim_int_item : csim.

Section Item.
  Variable rec : a2mlty -> ctx -> M gifd.
  Hypothesis Hrec : forall ty c, csim (rec ty c).

  Lemma csim_array_items ty c : forall n, csim (array_items rec n ty c).
  Proof. induction n as [|n IH]; cbn [array_items]; cs. Qed.
  Lemma csim_struct_items c : forall tys, csim (struct_items rec tys c).
  Proof. induction tys as [|ty r IH]; cbn [struct_items]; cs. Qed.
  Lemma csim_seq_items ty c : forall n acc, csim (seq_items rec n ty c acc).
  Proof. induction n as [|n IH]; intros acc; cbn [seq_items]; cs. Qed.
  Lemma csim_tagged_item spec c : csim (tagged_item rec spec c).
  Proof. unfold tagged_item. cs. Qed.
  Hint Resolve csim_tagged_item : csim.
  Lemma csim_taggedstruct_items spec c : forall n acc, csim (taggedstruct_items rec n spec c acc).
  Proof. induction n as [|n IH]; intros acc; cbn [taggedstruct_items]; cs. Qed.
  Hint Resolve csim_array_items csim_struct_items csim_seq_items csim_taggedstruct_items : csim.
  Lemma csim_item_step ty c : csim (item_step rec ty c).
  Proof. unfold item_step. cs. Qed.
End Item.

Lemma csim_parse_ifdata_item : forall fuel ty c, csim (parse_ifdata_item fuel ty c).
Proof.
  induction fuel as [|f IH]; intros ty c; cbn [parse_ifdata_item]; [cs|].
  apply csim_item_step. exact IH.
Qed.
Global Hint Resolve csim_parse_ifdata_item : csim.

Lemma csim_parse_ifdata_from_spec sp c : csim (parse_ifdata_from_spec sp c).
Proof. unfold parse_ifdata_from_spec. cs. Qed.
Global Hint Resolve csim_parse_ifdata_from_spec : csim.

Lemma csim_first_spec c : forall specs, csim (first_spec specs c).
Proof. induction specs as [|sp r IH]; cbn [first_spec]; cs. Qed.
Global Hint Resolve csim_first_spec : csim.

Lemma csim_parse_ifdata specs fuel c : csim (parse_ifdata specs fuel c).
Proof. unfold parse_ifdata. cs. Qed.
Lemma csim_end_tag_check c e : csim (end_tag_check c e).
Proof. unfold end_tag_check. cs. Qed.
Global Hint Resolve csim_parse_ifdata csim_end_tag_check : csim.

(* ---------- the generic element parser ---------- *)
Section Elem.
  Variable S : spec.
  Variable rec : tydef -> ctx -> N -> M value.
  Variable ifdata_fuel : nat.
  Hypothesis Hrec : forall td c off, csim (rec td c off).

  Lemma csim_parse_scalar_field ty c : csim (parse_scalar_field S rec ty c).
  Proof. unfold parse_scalar_field. cs. Qed.
  Hint Resolve csim_parse_scalar_field : csim.
  Lemma csim_parse_n ty c : forall n, csim (parse_n S rec n ty c).
  Proof. induction n as [|n IH]; cbn [parse_n]; cs. Qed.
  Lemma csim_parse_seq ty stop c : forall n acc, csim (parse_seq S rec n ty stop c acc).
  Proof. induction n as [|n IH]; intros acc; cbn [parse_seq]; cs. Qed.
  Hint Resolve csim_parse_n csim_parse_seq : csim.
  Lemma csim_parse_field ty c : csim (parse_field S rec ty c).
  Proof. unfold parse_field. cs. Qed.
  Hint Resolve csim_parse_field : csim.

  Lemma csim_a2ml_oracle txt newc :
    csim (fun s => match a2ml_lookup txt (ps_a2ml s) with
                   | Some (Some ty, _) => push_spec ty s
                   | Some (None, msg) => bindM (mk_diag "A2mlError" newc msg) error_or_log s
                   | None => (RPanic "a2ml oracle: text not in the table", s)
                   end).
  Proof.
    apply (csim_ext _ (bindM (reads (fun s => a2ml_lookup txt (ps_a2ml s))) (fun x => match x with
             | Some (Some ty, _) => push_spec ty
             | Some (None, msg) => bindM (mk_diag "A2mlError" newc msg) error_or_log
             | None => panic "a2ml oracle: text not in the table" end))).
    - intros s. unfold bindM, reads. destruct (a2ml_lookup txt (ps_a2ml s)) as [[[ty|] msg]|]; reflexivity.
    - cs.
  Qed.
  Hint Resolve csim_a2ml_oracle : csim.

  Lemma csim_parse_special_or_generic td newc off : csim (parse_special_or_generic rec ifdata_fuel td newc off).
  Proof. unfold parse_special_or_generic. cs. Qed.
  Hint Resolve csim_parse_special_or_generic : csim.

  Lemma csim_tagged_loop pb last items c : forall n kids cms, csim (tagged_loop S rec ifdata_fuel n pb last items c kids cms).
  Proof. induction n as [|n IH]; intros kids cms; cbn [tagged_loop]; cs. Qed.
  Lemma csim_multiplicity_check c : forall items kids, csim (multiplicity_check items kids c).
  Proof. induction items as [|ti ir IH]; intros [|k kr]; cbn [multiplicity_check]; cs. Qed.
  Hint Resolve csim_tagged_loop csim_multiplicity_check : csim.
  Lemma csim_parse_items isb c : forall its fields kids cms, csim (parse_items S rec ifdata_fuel its isb c fields kids cms).
  Proof. induction its as [|it r IH]; intros fields kids cms; cbn [parse_items]; cs. Qed.
  Hint Resolve csim_parse_items : csim.
  Lemma csim_parse_body td c off : csim (parse_body S rec ifdata_fuel td c off).
  Proof. unfold parse_body. cs. Qed.
End Elem.

Lemma csim_parse_ty S ifuel : forall fuel td c off, csim (parse_ty fuel S ifuel td c off).
Proof.
  induction fuel as [|f IH]; intros td c off; cbn [parse_ty]; [cs|].
  apply csim_parse_body. exact IH.
Qed.
Global Hint Resolve csim_parse_ty : csim.

Lemma csim_parse_version fuel S c : csim (parse_version fuel S c).
Proof.
  unfold parse_version. cs; apply csim_error_or_log; reflexivity.
Qed.
Global Hint Resolve csim_parse_version : csim.

Lemma csim_additional_tokens token :
  csim (fun s => if Nat.ltb (tk_fileid token) (ps_nfiles s)
                 then error_or_log (mkDiag "AdditionalTokensError" (Some (ps_last s)) (tk_fileid token) (tk_text token)) s
                 else (RPanic "parser.rs: filenames[token.fileid]", s)).
Proof.
  apply (csim_ext _ (bindM (reads (fun s => (Nat.ltb (tk_fileid token) (ps_nfiles s), ps_last s))) (fun x =>
           if fst x then error_or_log (mkDiag "AdditionalTokensError" (Some (snd x)) (tk_fileid token) (tk_text token))
           else panic "parser.rs: filenames[token.fileid]"))).
  - intros s. unfold bindM, reads. cbn [fst snd]. destruct (Nat.ltb (tk_fileid token) (ps_nfiles s)); reflexivity.
  - cs. apply csim_error_or_log. reflexivity.
Qed.
Global Hint Resolve csim_additional_tokens : csim.

Theorem csim_parse_file S : csim (parse_file S).
Proof.
  apply (csim_ext _ (bindM (reads (fun s => (length (ps_after s), match ps_after s with t :: _ => tk_line t | [] => 1%N end)))
           (fun x =>
              let fuel := Datatypes.S (Datatypes.S (fst x)) in
              let c := mkCtx (bytes_of "A2L_FILE") 0 (snd x) in
              ver <-- parse_version fuel S c ;;
              set_file_version ver ;;;
              match lookup_ty S "A2lFile" with
              | None => panic "spec: A2lFile"
              | Some td =>
                  file <-- parse_ty fuel S fuel td c 0 ;;
                  pk <-- peek_token ;;
                  match pk with
                  | Some token =>
                      (fun s => if Nat.ltb (tk_fileid token) (ps_nfiles s)
                                then error_or_log (mkDiag "AdditionalTokensError" (Some (ps_last s)) (tk_fileid token) (tk_text token)) s
                                else (RPanic "parser.rs: filenames[token.fileid]", s)) ;;;
                      ret file
                  | None => ret file
                  end
              end))).
  - intros s. reflexivity.
  - cbv zeta. cs.
Qed.

(* ---------- whole-document statements ---------- *)
Lemma app_same_tail {A} (l1 l2 x : list A) : l1 ++ x = l2 ++ x -> l1 = l2.
Proof. apply app_inv_tail. Qed.

Section Document.
  Variable S : spec.
  Variables (toks : list token) (nfiles : nat) (ftab : list fentry) (specs : list a2mlty)
            (oracle : list (bytes * (option a2mlty * bytes))).
  Let start (strict : bool) := init_state_a2ml toks strict nfiles ftab specs oracle.

  Lemma start_strict : set_strict true (start false) = start true.
  Proof. reflexivity. Qed.

  (* non-strict loading that reports nothing but deprecation notices is strict loading: same model (or same error), same
     warnings, same final state *)
  Theorem lenient_run_without_problems_is_the_strict_run r s' :
    parse_file S (start false) = (r, s') -> forallb deprecation (ps_log s') = true ->
    parse_file S (start true) = (r, set_strict true s').
  Proof.
    intros E F. destruct (csim_parse_file S _ _ _ E) as (_ & l & L & _ & C).
    cbn [start init_state_a2ml ps_log] in L. rewrite app_nil_r in L. subst l.
    rewrite <- start_strict. apply C; [reflexivity | exact F].
  Qed.

  (* strict loading never reports anything but deprecation notices *)
  Theorem strict_run_reports_only_deprecations r s' :
    parse_file S (start true) = (r, s') -> forallb deprecation (ps_log s') = true.
  Proof.
    intros E. destruct (csim_parse_file S _ _ _ E) as (_ & l & L & D & _).
    cbn [start init_state_a2ml ps_log] in L. rewrite app_nil_r in L. subst l. apply D. reflexivity.
  Qed.

  (* when strict loading fails, non-strict loading fails with the same error or reports a problem that is not a
     deprecation notice *)
  Theorem strict_failure_is_reported d s1 r s' :
    parse_file S (start true) = (RErr d, s1) -> parse_file S (start false) = (r, s') ->
    r = RErr d \/ existsb (fun x => negb (deprecation x)) (ps_log s') = true.
  Proof.
    intros E1 E2. destruct (forallb deprecation (ps_log s')) eqn:F.
    - left. rewrite (lenient_run_without_problems_is_the_strict_run _ _ E2 F) in E1. congruence.
    - right. clear E1 E2. induction (ps_log s') as [|x l IH]; [discriminate|].
      cbn [forallb existsb] in *. destruct (deprecation x); cbn [negb orb andb] in *; [apply IH, F | reflexivity].
  Qed.

  (* both modes succeed and the non-strict one is clean: equal models *)
  Corollary clean_models_are_equal v s' :
    parse_file S (start false) = (ROk v, s') -> ps_log s' = [] ->
    parse_file S (start true) = (ROk v, set_strict true s') /\ ps_log (set_strict true s') = [].
  Proof.
    intros E L. split; [|exact L]. apply lenient_run_without_problems_is_the_strict_run; [exact E|].
    rewrite L. reflexivity.
  Qed.
End Document.
