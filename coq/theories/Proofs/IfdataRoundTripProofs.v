(** C18, values survive: IF_DATA content that conforms to a definition built from integers, floats, strings (char arrays), enums,
    structs and arrays - in any nesting - is read back exactly from the tokens the writer prints for it: every integer with
    its value and its notation (hex / decimal), every float, string and enum item, consuming exactly those tokens.
    (Sequences, tagged structs / unions and blocks - the members whose end depends on the token that follows - are covered by
    the differential and the oracle, not by this theorem.) *)
From Coq Require Import Ascii String List Bool Arith NArith ZArith Lia.
From A2L Require Import Text.Escape Text.IntText Lex.Tokenizer Gram.Spec A2ml.Types Gram.PState Gram.Parser Gram.Writer Gram.TokWriter
  Proofs.CursorProofs Proofs.RoundTripProofs Proofs.TerminationProofs Proofs.ProvenanceProofs.
Import ListNotations.

(* the integer members: A2ML type, variant name of GenericIfData, Rust integer type *)
Definition int_member (ty : a2mlty) : option (string * ity) :=
  match ty with
  | TChar => Some ("Char"%string, I8) | TInt => Some ("Int"%string, I16) | TLong => Some ("Long"%string, I32) | TInt64 => Some ("Int64"%string, I64)
  | TUChar => Some ("UChar"%string, U8) | TUInt => Some ("UInt"%string, U16) | TULong => Some ("ULong"%string, U32) | TUInt64 => Some ("UInt64"%string, U64)
  | _ => None
  end.

Lemma int_member_writer ty v t : int_member ty = Some (v, t) -> gint_ity v = t.
Proof. destruct ty; intros H; try discriminate; injection H as <- <-; reflexivity. Qed.

Section IfdRT.
  Variable ftab : list fentry.

  (* what the writer prints for a value, token by token (GenericIfData::write without the white space) *)
  Fixpoint gtoks (g : gifd) : list shape :=
    match g with
    | GInt variant _ z hex => [(TNumber, add_integer_text (gint_ity variant) z hex)]
    | GFloat _ bits | GDouble _ bits => [(TNumber, float_text ftab bits)]
    | GString _ s => [(TString, quoted s)]
    | GEnumItem _ e => [(TIdentifier, e)]
    | GArray l | GStruct _ _ l => flat_map gtoks l
    | _ => []
    end.

  (* conformance of a value to a definition (the members this file covers) *)
  Inductive conf : a2mlty -> gifd -> Prop :=
  | conf_int ty variant t off z hex : int_member ty = Some (variant, t) -> in_range t z = true -> conf ty (GInt variant off z hex)
  | conf_float off bits : float_ok ftab bits = true -> conf TFloat (GFloat off bits)
  | conf_double off bits : double_ok ftab bits = true -> conf TDouble (GDouble off bits)
  | conf_string dim off s : conf (TArray TChar dim) (GString off s)
  | conf_enum items off e : enum_has items e = true -> conf (TEnum items) (GEnumItem off e)
  | conf_array item dim l : item <> TChar -> length l = dim -> Forall (conf item) l -> conf (TArray item dim) (GArray l)
  | conf_struct items inc l : Forall2 conf items l -> conf (TStruct items) (GStruct inc 0 l).

  Lemma map_app_split {A B} (f : A -> B) : forall l a b, map f l = a ++ b -> exists l1 l2, l = l1 ++ l2 /\ map f l1 = a /\ map f l2 = b.
  Proof.
    intros l a. revert l. induction a as [|x a IH]; intros l b H; [exists [], l; auto|].
    destruct l as [|y l]; [discriminate|]. cbn [map app] in H. injection H as H1 H2. destruct (IH l b H2) as (l1 & l2 & -> & M1 & M2).
    exists (y :: l1), l2. cbn [map app]. rewrite H1, M1. auto.
  Qed.

  Section Ctx.
    Variable c : ctx.
    Hypothesis Hc : c_fileid c = O.

    Definition reads (m : M gifd) (g : gifd) : Prop :=
      forall s ts rest, Inv s -> ps_ftab s = ftab -> ps_after s = ts ++ rest -> map shape_of ts = gtoks g ->
      exists g' s', m s = (ROk g', s') /\ adv ts s s' /\ er_gifd g' = er_gifd g.

    Lemma one_token ts sh : map shape_of ts = [sh] -> exists t, ts = [t] /\ shape_of t = sh.
    Proof. destruct ts as [|t [|t2 r]]; intros H; try discriminate. injection H as H. exists t. auto. Qed.

    Lemma then_offset {A} (m : M A) (k : A -> N -> gifd) s a s1 ts : Inv s -> m s = (ROk a, s1) -> adv ts s s1 ->
      exists off, (x <-- m ;; off <-- get_line_offset ;; ret (k x off)) s = (ROk (k a off), s1).
    Proof.
      intros I E Ad. destruct (glo_fine s1 (adv_inv _ _ _ I Ad)) as (off & G). exists off.
      rewrite (bind_ok _ _ _ _ _ E), (bind_ok _ _ _ _ _ G). reflexivity.
    Qed.

    Section Rec.
      Variable rec : a2mlty -> ctx -> M gifd.
      Variable D : a2mlty -> Prop.
      Hypothesis Hrec : forall ty g, D ty -> conf ty g -> reads (rec ty c) g.

      Lemma array_reads item : D item -> forall l, Forall (conf item) l ->
        forall s ts rest, Inv s -> ps_ftab s = ftab -> ps_after s = ts ++ rest -> map shape_of ts = flat_map gtoks l ->
        exists l' s', array_items rec (length l) item c s = (ROk l', s') /\ adv ts s s' /\ map er_gifd l' = map er_gifd l.
      Proof.
        intros Hd. induction l as [|g l IH]; intros Hl s ts rest I Hf Ha Hm.
        - cbn [flat_map] in Hm. destruct ts; [|discriminate]. exists [], s. repeat split; [apply adv_refl; exact (inv_pos s I)].
        - inversion Hl as [|? ? H1 H2]; subst. cbn [flat_map] in Hm. destruct (map_app_split _ _ _ _ Hm) as (t1 & t2 & -> & M1 & M2).
          rewrite <- app_assoc in Ha. destruct (Hrec item g Hd H1 s t1 (t2 ++ rest) I Hf Ha M1) as (g' & s1 & E1 & A1 & R1).
          assert (I1 : Inv s1) by (eapply adv_inv; eassumption).
          assert (Ha1 : ps_after s1 = t2 ++ rest).
          { pose proof (adv_after _ _ _ A1) as Q. rewrite Ha in Q. apply app_inv_head in Q. symmetry. exact Q. }
          destruct (IH H2 s1 t2 rest I1 ltac:(rewrite (se_ftab _ _ (adv_static _ _ _ A1)); exact Hf) Ha1 M2) as (l' & s2 & E2 & A2 & R2).
          exists (g' :: l'), s2. cbn [length array_items]. rewrite (bind_ok _ _ _ _ _ E1), (bind_ok _ _ _ _ _ E2).
          split; [reflexivity|]. split; [exact (adv_trans _ _ _ _ _ A1 A2) | cbn [map]; congruence].
      Qed.

      Lemma struct_reads : forall items l, Forall D items -> Forall2 conf items l ->
        forall s ts rest, Inv s -> ps_ftab s = ftab -> ps_after s = ts ++ rest -> map shape_of ts = flat_map gtoks l ->
        exists l' s', struct_items rec items c s = (ROk l', s') /\ adv ts s s' /\ map er_gifd l' = map er_gifd l.
      Proof.
        induction items as [|ty items IH]; intros l Hd Hl s ts rest I Hf Ha Hm; inversion Hl as [|? g ? l0 H1 H2]; subst.
        - cbn [flat_map] in Hm. destruct ts; [|discriminate]. exists [], s. repeat split; [apply adv_refl; exact (inv_pos s I)].
        - inversion Hd as [|? ? D1 D2]; subst. cbn [flat_map] in Hm. destruct (map_app_split _ _ _ _ Hm) as (t1 & t2 & -> & M1 & M2).
          rewrite <- app_assoc in Ha. destruct (Hrec ty g D1 H1 s t1 (t2 ++ rest) I Hf Ha M1) as (g' & s1 & E1 & A1 & R1).
          assert (I1 : Inv s1) by (eapply adv_inv; eassumption).
          assert (Ha1 : ps_after s1 = t2 ++ rest).
          { pose proof (adv_after _ _ _ A1) as Q. rewrite Ha in Q. apply app_inv_head in Q. symmetry. exact Q. }
          destruct (IH l0 D2 H2 s1 t2 rest I1 ltac:(rewrite (se_ftab _ _ (adv_static _ _ _ A1)); exact Hf) Ha1 M2) as (l' & s2 & E2 & A2 & R2).
          exists (g' :: l'), s2. cbn [struct_items]. rewrite (bind_ok _ _ _ _ _ E1), (bind_ok _ _ _ _ _ E2).
          split; [reflexivity|]. split; [exact (adv_trans _ _ _ _ _ A1 A2) | cbn [map]; congruence].
      Qed.

      Lemma step_reads ty g : Forall D (subs ty) -> conf ty g -> reads (item_step rec ty c) g.
      Proof.
        intros Hd Hconf s ts rest I Hf Ha Hm. destruct Hconf as [ty variant t off z hex Hi Hr|off bits Hok|off bits Hok|dim off str|items off e He|item dim l Hne Hlen Hall|items inc l Hall].
        - (* integers *) cbn [gtoks] in Hm. destruct (one_token _ _ Hm) as (tk & -> & Hs). cbn [app] in Ha.
          rewrite (int_member_writer _ _ _ Hi) in Hs.
          destruct (get_integer_fine c t z hex s tk rest I Ha Hs Hr) as (s1 & E1 & A1).
          destruct (then_offset (get_integer t c) (fun r o => GInt variant o (fst r) (snd r)) s (z, hex) s1 [tk] I E1 A1) as (o & E).
          exists (GInt variant o z hex), s1.
          assert (Es : item_step rec ty c = int_item variant t c) by (destruct ty; try discriminate; injection Hi as <- <-; reflexivity).
          rewrite Es. unfold int_item. split; [exact E|]. split; [exact A1 | reflexivity].
        - cbn [gtoks] in Hm. destruct (one_token _ _ Hm) as (tk & -> & Hs). cbn [app] in Ha.
          destruct (get_float_fine c ftab bits s tk rest I Hf Ha Hs Hok) as (s1 & E1 & A1).
          destruct (then_offset (get_float c) (fun v o => GFloat o v) s bits s1 [tk] I E1 A1) as (o & E).
          exists (GFloat o bits), s1. cbn [item_step]. split; [exact E|]. split; [exact A1 | reflexivity].
        - cbn [gtoks] in Hm. destruct (one_token _ _ Hm) as (tk & -> & Hs). cbn [app] in Ha.
          destruct (get_double_fine c ftab bits s tk rest I Hf Ha Hs Hok) as (s1 & E1 & A1).
          destruct (then_offset (get_double c) (fun v o => GDouble o v) s bits s1 [tk] I E1 A1) as (o & E).
          exists (GDouble o bits), s1. cbn [item_step]. split; [exact E|]. split; [exact A1 | reflexivity].
        - cbn [gtoks] in Hm. destruct (one_token _ _ Hm) as (tk & -> & Hs). cbn [app] in Ha.
          destruct (get_string_maxlen_fine c Hc dim s tk rest str I Ha Hs) as (s1 & E1 & A1).
          destruct (then_offset (get_string_maxlen c dim) (fun v o => GString o v) s str s1 [tk] I E1 A1) as (o & E).
          exists (GString o str), s1. cbn [item_step]. split; [exact E|]. split; [exact A1 | reflexivity].
        - cbn [gtoks] in Hm. destruct (one_token _ _ Hm) as (tk & -> & Hs). cbn [app] in Ha. unfold shape_of in Hs. injection Hs as Hty Htx.
          destruct (get_identifier_fine c Hc s tk rest I Ha Hty) as (s1 & E1 & A1).
          destruct (glo_fine s1 (adv_inv _ _ _ I A1)) as (o & G).
          exists (GEnumItem o e), s1. cbn [item_step]. rewrite (bind_ok _ _ _ _ _ E1), (bind_ok _ _ _ _ _ G), Htx, He.
          split; [reflexivity|]. split; [exact A1 | reflexivity].
        - (* array *) cbn [gtoks subs] in *. inversion Hd as [|? ? D1 _]; subst.
          destruct (array_reads item D1 l Hall s ts rest I Hf Ha Hm) as (l' & s1 & E1 & A1 & R1).
          exists (GArray l'), s1.
          assert (Es : item_step rec (TArray item (length l)) c = (x <-- array_items rec (length l) item c ;; ret (GArray x)))
            by (destruct item; try reflexivity; congruence).
          rewrite Es, (bind_ok _ _ _ _ _ E1). split; [reflexivity|]. split; [exact A1 | cbn [er_gifd]; congruence].
        - (* struct *) cbn [gtoks subs] in *.
          destruct (struct_reads items l Hd Hall s ts rest I Hf Ha Hm) as (l' & s1 & E1 & A1 & R1).
          exists (GStruct (if Nat.eqb (c_fileid c) 0 || Nat.leb (ps_nfiles s1) (c_fileid c) then None else Some (c_fileid c)) 0 l'), s1.
          cbn [item_step]. rewrite (bind_ok _ _ _ _ _ E1). split; [reflexivity|]. split; [exact A1 | cbn [er_gifd]; congruence].
      Qed.
    End Rec.

    (** conforming content is read back exactly, consuming exactly the tokens the writer printed *)
    Theorem conforming_content_is_read_back : forall f ty g, ty_depth ty <= f -> conf ty g -> reads (parse_ifdata_item f ty c) g.
    Proof.
      induction f as [|f IH]; intros ty g Hd Hconf.
      - exfalso. destruct ty; cbn [ty_depth] in Hd; lia.
      - cbn [parse_ifdata_item]. apply (step_reads (parse_ifdata_item f) (fun t => ty_depth t <= f)).
        + intros ty0 g0 H0 C0. exact (IH ty0 g0 H0 C0).
        + apply subs_depth. exact Hd.
        + exact Hconf.
    Qed.
  End Ctx.
End IfdRT.
Print Assumptions conforming_content_is_read_back.
