(** C11: the report of the reference checker is sound, complete on the sites it covers, empty on a consistent
    module, and a single corrupted reference yields exactly the reports that name the missing target. *)
From Coq Require Import String List NArith Bool Lia.
From A2L Require Import Gen.Sites Lib.RefCheck.
Import ListNotations.

Definition site_of (tbl : list site) (r : rslot) : option site := nth_error tbl (N.to_nat (rs_site r)).

Theorem check_sound tbl defs slots t : In t (check_reports tbl defs slots) ->
  exists r s, In r slots /\ site_of tbl r = Some s /\ st_check s = true /\ slot_dangling defs s r = true /\ t = reported r.
Proof.
  unfold check_reports. intros H. apply in_flat_map in H. destruct H as (r & Hr & Ht).
  unfold check_slot in Ht. destruct (nth_error tbl (N.to_nat (rs_site r))) as [s|] eqn:E; [|destruct Ht].
  destruct (st_check s) eqn:Ec; simpl in Ht; [|destruct Ht].
  destruct (slot_dangling defs s r) eqn:Ed; [|destruct Ht].
  apply repeat_spec in Ht. exists r, s. unfold site_of. auto.
Qed.

Theorem check_complete_on_covered tbl defs slots r s : In r slots -> site_of tbl r = Some s ->
  st_check s = true -> (0 < st_reports s)%N -> slot_dangling defs s r = true ->
  In (reported r) (check_reports tbl defs slots).
Proof.
  intros Hr Hs Hc Hn Hd. unfold check_reports. apply in_flat_map. exists r. split; [exact Hr|].
  unfold check_slot. unfold site_of in Hs. rewrite Hs, Hc, Hd. simpl.
  destruct (N.to_nat (st_reports s)) eqn:E; [lia|]. left; reflexivity.
Qed.

Definition consistent (tbl : list site) (defs : list (string * string)) (slots : list rslot) : Prop :=
  forall r s, In r slots -> site_of tbl r = Some s -> slot_dangling defs s r = false.

Theorem check_consistent_empty tbl defs slots : consistent tbl defs slots -> check_reports tbl defs slots = [].
Proof.
  unfold check_reports. induction slots as [|r l IH]; intros H; simpl; [reflexivity|].
  rewrite IH by (intros r' s' Hin; apply H; right; exact Hin).
  unfold check_slot. destruct (nth_error tbl (N.to_nat (rs_site r))) as [s|] eqn:E; [|reflexivity].
  rewrite (H r s (or_introl eq_refl) E). rewrite andb_false_r. reflexivity.
Qed.

(** corrupting one covered reference of a consistent module: the report consists of exactly the entries that
    name the missing target *)
Theorem check_single_corruption tbl defs l1 r l2 s t' :
  consistent tbl defs (l1 ++ r :: l2) -> site_of tbl r = Some s -> st_check s = true ->
  is_special s t' = false -> defined defs (st_ns s) t' = false ->
  check_reports tbl defs (l1 ++ mkRS (rs_site r) t' None :: l2) = repeat t' (N.to_nat (st_reports s)).
Proof.
  intros Hc Hs Hck Hsp Hdef. unfold check_reports. rewrite flat_map_app. simpl.
  fold (check_reports tbl defs l1). fold (check_reports tbl defs l2).
  rewrite (check_consistent_empty tbl defs l1) by (intros r' s' Hin; apply Hc; apply in_or_app; left; exact Hin).
  rewrite (check_consistent_empty tbl defs l2) by (intros r' s' Hin; apply Hc; apply in_or_app; right; right; exact Hin).
  simpl. rewrite app_nil_r. unfold check_slot. simpl. unfold site_of in Hs. rewrite Hs, Hck.
  unfold slot_dangling. simpl. rewrite Hsp, Hdef. reflexivity.
Qed.

(** a site that check() does not look at never produces a report *)
Theorem check_uncovered_silent tbl defs r s : site_of tbl r = Some s -> st_check s = false ->
  check_slot tbl defs r = [].
Proof. intros Hs Hc. unfold check_slot. unfold site_of in Hs. rewrite Hs, Hc. reflexivity. Qed.
