(** Proofs about Lib/ItemList.v: refinement of the (items, map) pair to a plain
    vector, invariant preservation for every operation, absence of panics. *)
From Coq Require Import String List Arith Bool NArith Lia Permutation.
From A2L Require Import Base.Res Base.ListX Lib.ItemList.
Import ListNotations.
Local Open Scope list_scope.

Definition names (v : list item) : list string := List.map iname v.

Definition Inv (l : ilist) : Prop :=
  NoDup (names (items l)) /\ forall n, imap l n = find_idx n (items l).

(* ---------- find_idx ---------- *)
Lemma find_idx_none n v : find_idx n v = None <-> ~ In n (names v).
Proof.
  induction v as [|x r IH]; simpl; [tauto|].
  destruct (String.eqb (iname x) n) eqn:E.
  - apply String.eqb_eq in E. split; [discriminate|]. intros H; exfalso; apply H; auto.
  - apply String.eqb_neq in E. destruct (find_idx n r) eqn:F.
    + split; [discriminate|]. intros H. exfalso.
      assert (G : ~ In n (names r)) by tauto. apply IH in G. discriminate.
    + split; [|reflexivity]. intros _ [H|H]; [congruence|]. apply IH in H; auto.
Qed.

Lemma find_idx_some_nth n v i : find_idx n v = Some i -> exists it, nth_error v i = Some it /\ iname it = n.
Proof.
  revert i; induction v as [|x r IH]; simpl; intros i H; [discriminate|].
  destruct (String.eqb (iname x) n) eqn:E.
  - inversion H; subst. apply String.eqb_eq in E. exists x; auto.
  - destruct (find_idx n r) eqn:F; [|discriminate]. inversion H; subst.
    destruct (IH _ eq_refl) as (it & H1 & H2). exists it; auto.
Qed.

Lemma find_idx_lt n v i : find_idx n v = Some i -> i < length v.
Proof.
  intros H. destruct (find_idx_some_nth _ _ _ H) as (it & H1 & _).
  apply nth_error_Some. congruence.
Qed.

Lemma nth_find_idx n v i it :
  NoDup (names v) -> nth_error v i = Some it -> iname it = n -> find_idx n v = Some i.
Proof.
  revert i; induction v as [|x r IH]; intros i Hnd Hn Hname; [destruct i; discriminate|].
  simpl in Hnd. inversion Hnd as [|? ? Hnotin Hnd']; subst.
  destruct i as [|i]; simpl in *.
  - inversion Hn; subst. rewrite String.eqb_refl. reflexivity.
  - destruct (String.eqb (iname x) (iname it)) eqn:E.
    + apply String.eqb_eq in E. exfalso. apply Hnotin. rewrite E.
      unfold names. apply in_map. eapply nth_error_In; eauto.
    + rewrite (IH i Hnd' Hn eq_refl). reflexivity.
Qed.

Lemma find_idx_app n a b :
  find_idx n (a ++ b) =
  match find_idx n a with
  | Some i => Some i
  | None => match find_idx n b with Some j => Some (length a + j) | None => None end
  end.
Proof.
  induction a as [|x r IH]; simpl.
  - destruct (find_idx n b); reflexivity.
  - destruct (String.eqb (iname x) n); [reflexivity|]. rewrite IH.
    destruct (find_idx n r); [reflexivity|]. destruct (find_idx n b); reflexivity.
Qed.

Lemma find_idx_cons n x r :
  find_idx n (x :: r) = if String.eqb (iname x) n then Some 0
                        else match find_idx n r with Some i => Some (S i) | None => None end.
Proof. reflexivity. Qed.

Lemma names_app a b : names (a ++ b) = names a ++ names b.
Proof. apply map_app. Qed.

Lemma find_idx_in n v : In n (names v) -> exists i, find_idx n v = Some i.
Proof.
  intros H. destruct (find_idx n v) eqn:E; [eauto|]. apply find_idx_none in E. contradiction.
Qed.

(* ---------- Vec primitives ---------- *)
Lemma vec_pop_spec v :
  match vec_pop v with
  | None => v = []
  | Some (it, r) => v = r ++ [it]
  end.
Proof.
  unfold vec_pop. destruct (rev v) as [|x r] eqn:E.
  - apply (f_equal (@rev item)) in E. rewrite rev_involutive in E. exact E.
  - apply (f_equal (@rev item)) in E. rewrite rev_involutive in E. simpl in E. exact E.
Qed.

Lemma vec_swap_remove_spec l i x l' :
  vec_swap_remove l i = Some (x, l') ->
  exists pre post, l = pre ++ x :: post /\ length pre = i /\
    ((post = [] /\ l' = pre) \/ exists mid last, post = mid ++ [last] /\ l' = pre ++ last :: mid).
Proof.
  unfold vec_swap_remove. destruct (nth_error l i) as [y|] eqn:Hn; [|discriminate].
  destruct (nth_error_split l i Hn) as (l1 & l2 & Hl & Hlen).
  intros H. exists l1, l2.
  assert (Hf : firstn i l = l1).
  { subst l. rewrite <- Hlen. rewrite firstn_app, firstn_all, Nat.sub_diag. simpl. apply app_nil_r. }
  assert (Hs : skipn (S i) l = l2).
  { subst l i. replace (l1 ++ y :: l2) with ((l1 ++ [y]) ++ l2) by (rewrite <- app_assoc; reflexivity).
    replace (S (length l1)) with (length (l1 ++ [y])) by (rewrite app_length; simpl; lia).
    rewrite skipn_app, skipn_all, Nat.sub_diag. reflexivity. }
  rewrite Hf, Hs in H.
  destruct (rev l2) as [|last rmid] eqn:Er.
  - inversion H; subst x l'. apply (f_equal (@rev item)) in Er. rewrite rev_involutive in Er. simpl in Er.
    split; [congruence|]. split; [exact Hlen|]. left; auto.
  - inversion H; subst x l'. apply (f_equal (@rev item)) in Er. rewrite rev_involutive in Er. simpl in Er.
    split; [congruence|]. split; [exact Hlen|]. right. exists (rev rmid), last. auto.
Qed.

Lemma vec_swap_remove_some l i : i < length l -> exists x l', vec_swap_remove l i = Some (x, l').
Proof.
  intros H. unfold vec_swap_remove. destruct (nth_error l i) eqn:E.
  - destruct (rev (skipn (S i) l)); eauto.
  - apply nth_error_None in E. lia.
Qed.

Lemma vec_swap_remove_none l i : vec_swap_remove l i = None -> length l <= i.
Proof.
  unfold vec_swap_remove. destruct (nth_error l i) eqn:E.
  - destruct (rev (skipn (S i) l)); discriminate.
  - intros _. apply nth_error_None; exact E.
Qed.

(* ---------- NoDup helpers ---------- *)
Lemma NoDup_names_app a b : NoDup (names (a ++ b)) <->
  NoDup (names a) /\ NoDup (names b) /\ forall n, In n (names a) -> In n (names b) -> False.
Proof. rewrite names_app. apply NoDup_app_iff. Qed.

Lemma NoDup_perm_names a b : Permutation a b -> NoDup (names a) -> NoDup (names b).
Proof.
  intros P H. eapply Permutation_NoDup; [|exact H]. unfold names. apply Permutation_map. exact P.
Qed.

(* ---------- rebuild ---------- *)
Lemma rebuild_from_spec l : forall idx m n, NoDup (names l) ->
  rebuild_from l idx m n = match find_idx n l with Some j => Some (idx + j) | None => m n end.
Proof.
  induction l as [|it r IH]; intros idx m n Hnd; simpl; [reflexivity|].
  inversion Hnd as [|? ? Hnotin Hnd']; subst.
  rewrite IH by exact Hnd'.
  destruct (String.eqb (iname it) n) eqn:E.
  - apply String.eqb_eq in E. subst n.
    assert (F : find_idx (iname it) r = None) by (apply find_idx_none; exact Hnotin).
    rewrite F. unfold m_insert. rewrite String.eqb_refl. f_equal. lia.
  - destruct (find_idx n r); [f_equal; lia|].
    unfold m_insert. rewrite String.eqb_sym, E. reflexivity.
Qed.

Lemma rebuild_spec l n : NoDup (names l) -> rebuild l n = find_idx n l.
Proof.
  intros H. unfold rebuild. rewrite rebuild_from_spec by exact H.
  destruct (find_idx n l); reflexivity.
Qed.

(* ---------- sorting ---------- *)
Lemma insert_sorted_perm le x l : Permutation (insert_sorted le x l) (x :: l).
Proof.
  induction l as [|y r IH]; simpl; [reflexivity|].
  destruct (le x y); [reflexivity|].
  rewrite IH. apply perm_swap.
Qed.
Lemma isort_perm le l : Permutation (isort le l) l.
Proof.
  induction l as [|x r IH]; simpl; [reflexivity|].
  rewrite insert_sorted_perm. constructor. exact IH.
Qed.

(* ---------- single operations ---------- *)
Lemma inv_new : Inv il_new.
Proof. split; simpl; [constructor | reflexivity]. Qed.

Lemma push_inv l it : Inv l -> ~ In (iname it) (names (items l)) -> Inv (il_push l it).
Proof.
  intros [Hnd Hm] Hfresh. split; simpl.
  - apply NoDup_names_app. split; [exact Hnd|]. split.
    + simpl. constructor; [simpl; tauto | constructor].
    + simpl. intros x Hx [<-|[]]. contradiction.
  - intros n. rewrite find_idx_app. simpl.
    unfold m_or_insert. rewrite Hm.
    assert (F : find_idx (iname it) (items l) = None) by (apply find_idx_none; exact Hfresh).
    rewrite F. unfold m_insert. rewrite Hm.
    destruct (String.eqb (iname it) n) eqn:E.
    + apply String.eqb_eq in E; subst n. rewrite String.eqb_refl, F. f_equal; lia.
    + rewrite String.eqb_sym, E. destruct (find_idx n (items l)); reflexivity.
Qed.

(* removing the last element *)
Lemma drop_last_inv r it m :
  NoDup (names (r ++ [it])) -> (forall n, m n = find_idx n (r ++ [it])) ->
  NoDup (names r) /\ forall n, m_remove (iname it) m n = find_idx n r.
Proof.
  intros Hnd Hm. apply NoDup_names_app in Hnd. destruct Hnd as (Hr & _ & Hd).
  split; [exact Hr|]. intros n. unfold m_remove.
  destruct (String.eqb n (iname it)) eqn:E.
  - apply String.eqb_eq in E; subst n. symmetry. apply find_idx_none.
    intro H. apply (Hd _ H). simpl; auto.
  - rewrite Hm, find_idx_app. destruct (find_idx n r); [reflexivity|]. simpl.
    rewrite String.eqb_sym, E. reflexivity.
Qed.

Lemma pop_inv l : Inv l -> Inv (fst (il_pop l)).
Proof.
  intros [Hnd Hm]. unfold il_pop. pose proof (vec_pop_spec (items l)) as Hp.
  destruct (vec_pop (items l)) as [[it r]|]; simpl; [|split; assumption].
  rewrite Hp in Hnd. split; simpl.
  - apply NoDup_names_app in Hnd. tauto.
  - apply drop_last_inv; [exact Hnd|]. intros n. rewrite Hm, Hp. reflexivity.
Qed.

(* the core of swap_remove: element x at position |pre| replaced by the last one *)
Lemma swap_core_inv pre x mid last m :
  NoDup (names (pre ++ x :: mid ++ [last])) ->
  (forall n, m n = find_idx n (pre ++ x :: mid ++ [last])) ->
  NoDup (names (pre ++ last :: mid)) /\
  forall n, m_insert (iname last) (length pre) (m_remove (iname x) m) n = find_idx n (pre ++ last :: mid).
Proof.
  intros Hnd Hm.
  assert (Hnd2 := Hnd).
  apply NoDup_names_app in Hnd2. destruct Hnd2 as (Hpre & Hrest & Hd1).
  change (x :: mid ++ [last]) with ([x] ++ mid ++ [last]) in Hrest, Hd1.
  apply NoDup_names_app in Hrest. destruct Hrest as (_ & Hml & Hd2).
  apply NoDup_names_app in Hml. destruct Hml as (Hmid & _ & Hd3).
  assert (Hxl : iname x <> iname last).
  { intro E. apply (Hd2 (iname x)); [simpl; auto|]. rewrite names_app. apply in_or_app. right. simpl; auto. }
  assert (Hx_mid : ~ In (iname x) (names mid)).
  { intro H. apply (Hd2 (iname x)); [simpl; auto|]. rewrite names_app. apply in_or_app; auto. }
  assert (Hx_pre : ~ In (iname x) (names pre)).
  { intro H. apply (Hd1 _ H). simpl; auto. }
  assert (Hl_pre : ~ In (iname last) (names pre)).
  { intro H. apply (Hd1 _ H). simpl. right. rewrite names_app. apply in_or_app. right; simpl; auto. }
  assert (Hl_mid : ~ In (iname last) (names mid)).
  { intro H. apply (Hd3 _ H). simpl; auto. }
  split.
  - apply NoDup_names_app. split; [exact Hpre|]. split.
    + simpl. constructor; auto.
    + intros n Hn [<-|Hn2]; [contradiction|]. apply (Hd1 n Hn). simpl. right.
      rewrite names_app. apply in_or_app; auto.
  - intros n. unfold m_insert, m_remove. rewrite Hm. rewrite !find_idx_app. simpl.
    rewrite find_idx_app. simpl.
    destruct (String.eqb n (iname last)) eqn:El.
    + apply String.eqb_eq in El; subst n.
      apply find_idx_none in Hl_pre. rewrite Hl_pre. rewrite String.eqb_refl. f_equal; lia.
    + destruct (String.eqb n (iname x)) eqn:Ex.
      * apply String.eqb_eq in Ex; subst n.
        apply find_idx_none in Hx_pre. rewrite Hx_pre.
        rewrite (String.eqb_sym (iname last)), El.
        apply find_idx_none in Hx_mid. rewrite Hx_mid. reflexivity.
      * destruct (find_idx n pre); [reflexivity|].
        rewrite (String.eqb_sym (iname x)), Ex, (String.eqb_sym (iname last)), El.
        destruct (find_idx n mid); reflexivity.
Qed.

Lemma swap_remove_at_inv l index it items' :
  Inv l -> vec_swap_remove (items l) index = Some (it, items') ->
  exists l', (if index <? length items' then
                match nth_error items' index with
                | None => Panic "x"
                | Some moved => Ok {| items := items'; imap := m_insert (iname moved) index (m_remove (iname it) (imap l)) |}
                end
              else Ok {| items := items'; imap := m_remove (iname it) (imap l) |}) = Ok l' /\ Inv l' /\ items l' = items'.
Proof.
  intros [Hnd Hm] Hv. apply vec_swap_remove_spec in Hv.
  destruct Hv as (pre & post & Hl & Hlen & [[Hpost Hi]|(mid & last & Hpost & Hi)]); subst post items'.
  - subst index. rewrite Nat.ltb_irrefl. eexists; split; [reflexivity|]. split; [|reflexivity].
    rewrite Hl in Hnd. unfold Inv; simpl.
    apply drop_last_inv; [exact Hnd|]. intros n; rewrite Hm, Hl; reflexivity.
  - subst index. rewrite app_length. simpl.
    replace (length pre <? length pre + S (length mid)) with true by (symmetry; apply Nat.ltb_lt; lia).
    rewrite nth_error_app2 by lia. rewrite Nat.sub_diag. simpl.
    eexists; split; [reflexivity|]. split; [|reflexivity].
    rewrite Hl in Hnd. unfold Inv; simpl.
    apply swap_core_inv; [exact Hnd|]. intros n; rewrite Hm, Hl; reflexivity.
Qed.

Lemma swap_remove_idx_ok l i : Inv l ->
  exists l' o, il_swap_remove_idx l i = Ok (l', o) /\ Inv l' /\
    (items l', OItem o) = spec_step (items l) (OSwapRemoveIdx i).
Proof.
  intros HI. unfold il_swap_remove_idx. simpl.
  destruct (i <? length (items l)) eqn:Hlt.
  - apply Nat.ltb_lt in Hlt. destruct (vec_swap_remove_some _ _ Hlt) as (x & l' & Hv).
    rewrite Hv. destruct (swap_remove_at_inv l i x l' HI Hv) as (l2 & H1 & H2 & H3).
    destruct (i <? length l') eqn:E.
    + destruct (nth_error l' i); [|discriminate]. inversion H1; subst l2.
      eexists; eexists; split; [reflexivity|]. split; [exact H2|]. reflexivity.
    + inversion H1; subst l2. eexists; eexists; split; [reflexivity|]. split; [exact H2|]. reflexivity.
  - apply Nat.ltb_ge in Hlt. destruct (vec_swap_remove (items l) i) as [[x l']|] eqn:Hv.
    + apply vec_swap_remove_spec in Hv. destruct Hv as (pre & post & Hl & Hlen & _).
      rewrite Hl, app_length in Hlt. simpl in Hlt. lia.
    + eexists; eexists; split; [reflexivity|]. split; [exact HI|]. reflexivity.
Qed.

Lemma swap_remove_ok l k : Inv l ->
  exists l' o, il_swap_remove l k = Ok (l', o) /\ Inv l' /\
    (items l', OItem o) = spec_step (items l) (OSwapRemove k).
Proof.
  intros HI. assert (HI' := HI). destruct HI' as [Hnd Hm].
  unfold il_swap_remove, m_get. simpl. rewrite Hm.
  destruct (find_idx k (items l)) as [index|] eqn:Hf.
  - pose proof (find_idx_lt _ _ _ Hf) as Hlt.
    destruct (find_idx_some_nth _ _ _ Hf) as (it0 & Hnth & Hname).
    destruct (vec_swap_remove_some _ _ Hlt) as (x & l' & Hv). rewrite Hv.
    assert (Hx : x = it0).
    { unfold vec_swap_remove in Hv. rewrite Hnth in Hv. destruct (rev (skipn (S index) (items l))); inversion Hv; reflexivity. }
    subst x. rewrite <- Hname.
    destruct (swap_remove_at_inv l index it0 l' HI Hv) as (l2 & H1 & H2 & H3).
    destruct (index <? length l') eqn:E.
    + destruct (nth_error l' index); [|discriminate]. inversion H1; subst l2.
      eexists; eexists; split; [reflexivity|]. split; [exact H2|]. reflexivity.
    + inversion H1; subst l2. eexists; eexists; split; [reflexivity|]. split; [exact H2|]. reflexivity.
  - eexists; eexists; split; [reflexivity|]. split; [exact HI|]. reflexivity.
Qed.

(* retain *)
Lemma retain_loop_spec p : forall src acc m,
  NoDup (names (acc ++ src)) -> (forall n, m n = find_idx n acc) ->
  let r := retain_loop p src acc m in
  fst r = acc ++ filter (eval_pred p) src /\ (forall n, snd r n = find_idx n (fst r)) /\ NoDup (names (fst r)).
Proof.
  induction src as [|it r IH]; intros acc m Hnd Hm; simpl.
  - rewrite app_nil_r in *. auto.
  - destruct (eval_pred p it) eqn:E.
    + assert (Hnd' : NoDup (names ((acc ++ [it]) ++ r))) by (rewrite <- app_assoc; exact Hnd).
      specialize (IH (acc ++ [it]) (m_insert (iname it) (length (acc ++ [it]) - 1) m) Hnd').
      simpl in IH. rewrite <- app_assoc in IH. simpl in IH. apply IH.
      intros n. rewrite find_idx_app. simpl. unfold m_insert. rewrite Hm.
      rewrite app_length; simpl. replace (length acc + 1 - 1) with (length acc) by lia.
      assert (Hfresh : find_idx (iname it) acc = None).
      { apply find_idx_none. intro H. apply NoDup_names_app in Hnd. destruct Hnd as (_ & _ & Hd).
        apply (Hd _ H). simpl; auto. }
      destruct (String.eqb n (iname it)) eqn:En.
      * apply String.eqb_eq in En; subst n. rewrite Hfresh, String.eqb_refl. f_equal; lia.
      * rewrite String.eqb_sym, En. destruct (find_idx n acc); reflexivity.
    + apply IH; [|exact Hm]. apply NoDup_names_app in Hnd. destruct Hnd as (Ha & Hs & Hd).
      apply NoDup_names_app. split; [exact Ha|]. simpl in Hs. inversion Hs as [|? ? Hq1 Hq2]; subst. split; [exact Hq2|].
      intros n Hn1 Hn2. apply (Hd n Hn1). simpl; auto.
Qed.

Lemma retain_inv l p : Inv l -> Inv (il_retain l p) /\ items (il_retain l p) = filter (eval_pred p) (items l).
Proof.
  intros [Hnd Hm]. unfold il_retain.
  pose proof (retain_loop_spec p (items l) [] m_empty Hnd (fun n => eq_refl)) as H. simpl in H.
  destruct (retain_loop p (items l) [] m_empty) as [its m]. simpl in *.
  destruct H as (H1 & H2 & H3). split; [split; simpl; auto | exact H1].
Qed.

Lemma NoDup_names_firstn n v : NoDup (names v) -> NoDup (names (firstn n v)).
Proof.
  intros H. rewrite <- (firstn_skipn n v) in H. apply NoDup_names_app in H. tauto.
Qed.

Lemma truncate_inv l n : Inv l -> Inv (il_truncate l n) /\ items (il_truncate l n) = firstn n (items l).
Proof.
  intros [Hnd Hm]. unfold il_truncate. destruct (n <? length (items l)) eqn:E; simpl.
  - split; [|reflexivity]. split; simpl; [apply NoDup_names_firstn; exact Hnd|].
    intros k. apply rebuild_spec. apply NoDup_names_firstn; exact Hnd.
  - apply Nat.ltb_ge in E. rewrite firstn_all2 by exact E. split; [split; assumption | reflexivity].
Qed.

Lemma sort_inv l c : Inv l -> Inv (il_sort_by l c).
Proof.
  intros [Hnd Hm]. unfold il_sort_by.
  assert (H : NoDup (names (isort (eval_cmp c) (items l)))).
  { eapply NoDup_perm_names; [|exact Hnd]. symmetry. apply isort_perm. }
  split; simpl; [exact H|]. intros n. apply rebuild_spec. exact H.
Qed.

(* rename *)
Lemma set_nth_split pre x post y : set_nth (pre ++ x :: post) (length pre) y = pre ++ y :: post.
Proof. induction pre as [|a r IH]; simpl; [reflexivity | f_equal; exact IH]. Qed.


Lemma rename_core pre x post new m :
  NoDup (names (pre ++ x :: post)) -> (forall n, m n = find_idx n (pre ++ x :: post)) ->
  (~ In new (names (pre ++ x :: post)) \/ new = iname x) ->
  NoDup (names (pre ++ (new, snd x) :: post)) /\
  forall n, m_insert new (length pre) (m_remove (iname x) m) n = find_idx n (pre ++ (new, snd x) :: post).
Proof.
  intros Hnd Hm Hnew.
  assert (Hnd2 := Hnd). apply NoDup_names_app in Hnd2. destruct Hnd2 as (Hpre & Hrest & Hd).
  simpl in Hrest. inversion Hrest as [|? ? Hx_post Hpost]; subst.
  assert (Hx_pre : ~ In (iname x) (names pre)) by (intro H; apply (Hd _ H); simpl; auto).
  assert (Hn_pre : ~ In new (names pre)).
  { destruct Hnew as [H| ->]; [|exact Hx_pre]. intro H1; apply H. rewrite names_app. apply in_or_app; auto. }
  assert (Hn_post : ~ In new (names post)).
  { destruct Hnew as [H| ->]; [|exact Hx_post]. intro H1; apply H. rewrite names_app. apply in_or_app. right; simpl; auto. }
  split.
  - apply NoDup_names_app. split; [exact Hpre|]. split.
    + simpl. constructor; assumption.
    + simpl. intros n H1 [<-|H2]; [contradiction|]. apply (Hd n H1). simpl; auto.
  - intros n. unfold m_insert, m_remove. rewrite Hm, !find_idx_app. simpl.
    destruct (String.eqb n new) eqn:En.
    + apply String.eqb_eq in En; subst n. apply find_idx_none in Hn_pre. rewrite Hn_pre.
      rewrite String.eqb_refl. f_equal; lia.
    + rewrite (String.eqb_sym new), En.
      destruct (String.eqb n (iname x)) eqn:Ex.
      * apply String.eqb_eq in Ex; subst n. apply find_idx_none in Hx_pre, Hx_post.
        rewrite Hx_pre, Hx_post. reflexivity.
      * destruct (find_idx n pre); [reflexivity|]. rewrite (String.eqb_sym (iname x)), Ex. reflexivity.
Qed.

Definition rename_ok (v : list item) (i : nat) (new : string) : Prop :=
  match nth_error v i with
  | None => True
  | Some it => ~ In new (names v) \/ new = iname it
  end.

Lemma rename_ok_step l i new : Inv l -> rename_ok (items l) i new ->
  exists l', il_rename l i new = Ok l' /\ Inv l' /\ (items l', ONone) = spec_step (items l) (ORename i new).
Proof.
  intros [Hnd Hm] Hok. unfold il_rename, rename_ok in *. simpl.
  destruct (i <? length (items l)) eqn:E.
  - apply Nat.ltb_lt in E. destruct (nth_error (items l) i) as [it|] eqn:Hn; [|apply nth_error_None in Hn; lia].
    eexists; split; [reflexivity|]. split; [|reflexivity].
    destruct (nth_error_split _ _ Hn) as (pre & post & Hl & Hlen). subst i.
    unfold Inv; simpl. rewrite Hl, set_nth_split. rewrite Hl in Hnd, Hok.
    apply rename_core; [exact Hnd | intros n; rewrite Hm, Hl; reflexivity | exact Hok].
  - apply Nat.ltb_ge in E. assert (Hn : nth_error (items l) i = None) by (apply nth_error_None; exact E).
    rewrite Hn. eexists; split; [reflexivity|]. split; [split; assumption | reflexivity].
Qed.

(* extend / collect *)
Lemma extend_inv its : forall l, Inv l -> NoDup (names (items l ++ its)) ->
  Inv (il_extend l its) /\ items (il_extend l its) = items l ++ its.
Proof.
  induction its as [|it r IH]; intros l HI Hnd; simpl.
  - rewrite app_nil_r. auto.
  - assert (Hfresh : ~ In (iname it) (names (items l))).
    { apply NoDup_names_app in Hnd. destruct Hnd as (_ & _ & Hd). intro H. apply (Hd _ H). simpl; auto. }
    specialize (IH (il_push l it) (push_inv l it HI Hfresh)). simpl in IH.
    rewrite <- app_assoc in IH. simpl in IH. apply IH. exact Hnd.
Qed.

(* ---------- the guard "names stay unique" ---------- *)
Definition op_ok (v : list item) (o : op) : Prop :=
  match o with
  | OPush it => ~ In (iname it) (names v)
  | ORename i new => rename_ok v i new
  | OExtend its => NoDup (names (v ++ its))
  | OCollect its => NoDup (names its)
  | _ => True
  end.

(* ---------- one step: refinement + invariant + no panic ---------- *)
Theorem step_refines l o : Inv l -> op_ok (items l) o ->
  exists l', step l o = Ok (l', snd (spec_step (items l) o)) /\
             items l' = fst (spec_step (items l) o) /\ Inv l'.
Proof.
  intros HI Hok. destruct o; simpl in *.
  - eexists; split; [reflexivity|]. split; [reflexivity|]. apply push_inv; assumption.
  - pose proof (pop_inv l HI) as Hp. unfold il_pop in *.
    destruct (vec_pop (items l)) as [[it r]|]; simpl in *; eexists; split; try reflexivity; split; auto.
  - destruct (swap_remove_ok l k HI) as (l' & o & H1 & H2 & H3). rewrite H1. simpl.
    simpl in H3. rewrite <- H3. simpl. eexists; split; [reflexivity|]. split; [reflexivity | exact H2].
  - destruct (swap_remove_idx_ok l i HI) as (l' & o & H1 & H2 & H3). rewrite H1. simpl.
    simpl in H3. rewrite <- H3. simpl. eexists; split; [reflexivity|]. split; [reflexivity | exact H2].
  - destruct (retain_inv l p HI) as [H1 H2]. eexists; split; [reflexivity|]. split; assumption.
  - destruct (truncate_inv l len HI) as [H1 H2]. eexists; split; [reflexivity|]. split; assumption.
  - eexists; split; [reflexivity|]. split; [reflexivity|]. apply sort_inv; exact HI.
  - destruct (rename_ok_step l i new HI Hok) as (l' & H1 & H2 & H3). rewrite H1. simpl.
    simpl in H3. rewrite <- H3. simpl. eexists; split; [reflexivity|]. split; [reflexivity | exact H2].
  - destruct (extend_inv l0 l HI Hok) as [H1 H2]. eexists; split; [reflexivity|]. split; assumption.
  - eexists; split; [reflexivity|]. split; [reflexivity|]. apply inv_new.
  - destruct (extend_inv l0 il_new inv_new Hok) as [H1 H2]. eexists; split; [reflexivity|]. split; assumption.
Qed.

(* no operation panics on a coherent list, whatever its arguments (no uniqueness guard needed) *)
Theorem step_no_panic l o : Inv l -> forall s, step l o <> Panic s.
Proof.
  intros HI s. destruct o; simpl; try discriminate.
  - destruct (il_pop l); discriminate.
  - destruct (swap_remove_ok l k HI) as (l' & o & H1 & _). rewrite H1. simpl. discriminate.
  - destruct (swap_remove_idx_ok l i HI) as (l' & o & H1 & _). rewrite H1. simpl. discriminate.
  - unfold il_rename. destruct (i <? length (items l)) eqn:E; [|discriminate].
    apply Nat.ltb_lt in E. destruct (nth_error (items l) i) eqn:Hn; [discriminate|].
    apply nth_error_None in Hn. lia.
Qed.

(* ---------- histories ---------- *)
Fixpoint spec_run (v : list item) (ops : list op) : list item :=
  match ops with [] => v | o :: r => spec_run (fst (spec_step v o)) r end.
Fixpoint ops_ok (v : list item) (ops : list op) : Prop :=
  match ops with [] => True | o :: r => op_ok v o /\ ops_ok (fst (spec_step v o)) r end.

Theorem run_refines ops : forall l, Inv l -> ops_ok (items l) ops ->
  exists l', run l ops = Ok l' /\ items l' = spec_run (items l) ops /\ Inv l'.
Proof.
  induction ops as [|o r IH]; intros l HI Hok; simpl.
  - eauto.
  - destruct Hok as [Ho Hr]. destruct (step_refines l o HI Ho) as (l1 & H1 & H2 & H3).
    rewrite H1. simpl. rewrite <- H2 in Hr. destruct (IH l1 H3 Hr) as (l2 & H4 & H5 & H6).
    exists l2. rewrite H2 in H5. auto.
Qed.

(* ---------- what the invariant means for the read-only API ---------- *)
Lemma inv_index_position l k i : Inv l ->
  (il_index l k = Some i <-> exists it, nth_error (items l) i = Some it /\ iname it = k).
Proof.
  intros [Hnd Hm]. unfold il_index, m_get. rewrite Hm. split.
  - apply find_idx_some_nth.
  - intros (it & H1 & H2). eapply nth_find_idx; eauto.
Qed.

Lemma inv_get l k : Inv l -> il_get l k = Ok (spec_get (items l) k).
Proof.
  intros [Hnd Hm]. unfold il_get, spec_get, m_get. rewrite Hm.
  destruct (find_idx k (items l)) as [i|] eqn:E; [|reflexivity].
  destruct (find_idx_some_nth _ _ _ E) as (it & H1 & _). rewrite H1. reflexivity.
Qed.

Lemma inv_all_reachable l it : Inv l -> In it (items l) -> il_get l (iname it) = Ok (Some it).
Proof.
  intros HI Hin. assert (HI' := HI). destruct HI' as [Hnd Hm].
  apply In_nth_error in Hin. destruct Hin as [i Hi].
  rewrite inv_get by exact HI. unfold spec_get.
  rewrite (nth_find_idx _ _ _ _ Hnd Hi eq_refl). rewrite Hi. reflexivity.
Qed.

Lemma inv_absent_unreachable l k : Inv l -> ~ In k (names (items l)) ->
  il_get l k = Ok None /\ il_contains_key l k = false /\ il_index l k = None.
Proof.
  intros [Hnd Hm] Hk. apply find_idx_none in Hk.
  unfold il_get, il_contains_key, il_index, m_get. rewrite Hm, Hk. auto.
Qed.

(* ---------- names that leave the list are gone (removal by name / index, pop, rename) ---------- *)
Lemma vec_swap_remove_nth v i x v' : vec_swap_remove v i = Some (x, v') -> nth_error v i = Some x.
Proof.
  intros H. destruct (vec_swap_remove_spec _ _ _ _ H) as (pre & post & Hv & Hlen & _).
  subst v i. rewrite nth_error_app2 by lia. rewrite Nat.sub_diag. reflexivity.
Qed.

Lemma spec_swap_remove_gone v i x v' : NoDup (names v) ->
  vec_swap_remove v i = Some (x, v') -> ~ In (iname x) (names v').
Proof.
  intros Hnd H. destruct (vec_swap_remove_spec _ _ _ _ H) as (pre & post & Hv & _ & Hc).
  subst v. apply NoDup_names_app in Hnd. destruct Hnd as (_ & Hxp & Hd).
  assert (Hpre : ~ In (iname x) (names pre)).
  { intro Hi. apply (Hd _ Hi). simpl. auto. }
  assert (Hpost : ~ In (iname x) (names post)).
  { simpl in Hxp. inversion Hxp; assumption. }
  destruct Hc as [[-> ->] | (mid & last & -> & ->)]; [exact Hpre|].
  rewrite names_app. simpl. rewrite names_app in Hpost. simpl in Hpost.
  intro Hi. apply in_app_or in Hi. destruct Hi as [Hi | [Hi | Hi]].
  - exact (Hpre Hi).
  - apply Hpost. apply in_or_app. right. simpl. auto.
  - apply Hpost. apply in_or_app. left. exact Hi.
Qed.

Lemma spec_remove_name_gone v k : NoDup (names v) ->
  ~ In k (names (fst (spec_step v (OSwapRemove k)))).
Proof.
  intros Hnd. simpl. destruct (find_idx k v) as [i|] eqn:E.
  - destruct (find_idx_some_nth _ _ _ E) as (it & Hn & Hk).
    destruct (vec_swap_remove v i) as [[x v']|] eqn:Es; simpl.
    + pose proof (vec_swap_remove_nth _ _ _ _ Es) as Hx. rewrite Hn in Hx. inversion Hx; subst x.
      rewrite <- Hk. eapply spec_swap_remove_gone; eauto.
    + apply vec_swap_remove_none in Es. apply find_idx_lt in E. lia.
  - simpl. apply find_idx_none. exact E.
Qed.

Lemma spec_pop_gone v it r : NoDup (names v) -> vec_pop v = Some (it, r) -> ~ In (iname it) (names r).
Proof.
  intros Hnd H. pose proof (vec_pop_spec v) as Hs. rewrite H in Hs. subst v.
  apply NoDup_names_app in Hnd. destruct Hnd as (_ & _ & Hd). intro Hi. apply (Hd _ Hi). simpl. auto.
Qed.

Lemma spec_rename_away_gone v i it new : NoDup (names v) -> nth_error v i = Some it ->
  new <> iname it -> ~ In (iname it) (names (set_nth v i (new, snd it))).
Proof.
  intros Hnd Hn Hne. destruct (nth_error_split _ _ Hn) as (pre & post & Hv & Hlen). subst v i.
  rewrite set_nth_split. apply NoDup_names_app in Hnd. destruct Hnd as (_ & Hxp & Hd).
  rewrite names_app. simpl. intro Hi. apply in_app_or in Hi. destruct Hi as [Hi | [Hi | Hi]].
  - apply (Hd _ Hi). simpl. auto.
  - apply Hne. exact Hi.
  - simpl in Hxp. inversion Hxp; contradiction.
Qed.

(* the four ways a name leaves the list, on the implementation model: afterwards the name
   cannot be looked up, is not a key and has no index *)
Definition gone (l : ilist) (k : string) : Prop :=
  il_get l k = Ok None /\ il_contains_key l k = false /\ il_index l k = None.

Theorem removed_by_name_gone l k l' o : Inv l -> step l (OSwapRemove k) = Ok (l', o) -> gone l' k.
Proof.
  intros HI Hs. destruct (step_refines l (OSwapRemove k) HI I) as (l1 & H1 & H2 & H3).
  rewrite H1 in Hs. inversion Hs; subst l1. apply inv_absent_unreachable; [exact H3|].
  rewrite H2. apply spec_remove_name_gone. exact (proj1 HI).
Qed.

Theorem removed_by_index_gone l i it l' o : Inv l -> nth_error (items l) i = Some it ->
  step l (OSwapRemoveIdx i) = Ok (l', o) -> o = OItem (Some it) /\ gone l' (iname it).
Proof.
  intros HI Hn Hs. destruct (step_refines l (OSwapRemoveIdx i) HI I) as (l1 & H1 & H2 & H3).
  rewrite H1 in Hs. inversion Hs; subst l1. clear Hs. simpl in *.
  destruct (vec_swap_remove (items l) i) as [[x v']|] eqn:Es.
  - pose proof (vec_swap_remove_nth _ _ _ _ Es) as Hx. rewrite Hn in Hx. inversion Hx; subst x.
    simpl in *. split; [congruence|]. apply inv_absent_unreachable; [exact H3|].
    rewrite H2. eapply spec_swap_remove_gone; [exact (proj1 HI) | exact Es].
  - apply vec_swap_remove_none in Es. assert (i < length (items l)) by (apply nth_error_Some; congruence). lia.
Qed.

Theorem popped_gone l l' it : Inv l -> step l OPop = Ok (l', OItem (Some it)) -> gone l' (iname it).
Proof.
  intros HI Hs. destruct (step_refines l OPop HI I) as (l1 & H1 & H2 & H3).
  rewrite H1 in Hs. inversion Hs as [[Hl Ho]]. subst l1. simpl in *.
  destruct (vec_pop (items l)) as [[x r]|] eqn:Ep; simpl in *; [|discriminate].
  inversion Ho; subst x. apply inv_absent_unreachable; [exact H3|].
  rewrite H2. eapply spec_pop_gone; [exact (proj1 HI) | exact Ep].
Qed.

Theorem renamed_away_gone l i it new l' o : Inv l -> nth_error (items l) i = Some it ->
  ~ In new (names (items l)) -> step l (ORename i new) = Ok (l', o) ->
  gone l' (iname it) /\ il_index l' new = Some i /\ il_get l' new = Ok (Some (new, snd it)).
Proof.
  intros HI Hn Hfresh Hs.
  assert (Hok : op_ok (items l) (ORename i new)).
  { simpl. unfold rename_ok. rewrite Hn. left. exact Hfresh. }
  destruct (step_refines l (ORename i new) HI Hok) as (l1 & H1 & H2 & H3).
  rewrite H1 in Hs. inversion Hs; subst l1. clear Hs. simpl in H2. rewrite Hn in H2. simpl in H2.
  assert (Hne : new <> iname it).
  { intros ->. apply Hfresh. apply in_map. eapply nth_error_In; eauto. }
  assert (Hn' : nth_error (items l') i = Some (new, snd it)).
  { rewrite H2. destruct (nth_error_split _ _ Hn) as (pre & post & Hv & Hlen). rewrite Hv. subst i.
    rewrite set_nth_split. rewrite nth_error_app2 by lia. rewrite Nat.sub_diag. reflexivity. }
  split; [|split].
  - apply inv_absent_unreachable; [exact H3|]. rewrite H2.
    apply spec_rename_away_gone; [exact (proj1 HI) | exact Hn | exact Hne].
  - apply inv_index_position; [exact H3|]. eexists; split; [exact Hn' | reflexivity].
  - change new with (iname (new, snd it)) at 1. apply inv_all_reachable; [exact H3|].
    eapply nth_error_In; eauto.
Qed.

(* ---------- retain / truncate: what is filtered out or cut off is gone ---------- *)
Lemma names_inj v a b : NoDup (names v) -> In a v -> In b v -> iname a = iname b -> a = b.
Proof.
  induction v as [|x r IH]; simpl; intros Hnd Ha Hb He; [contradiction|].
  inversion Hnd as [|? ? Hnot Hnd']; subst.
  destruct Ha as [Ha|Ha], Hb as [Hb|Hb].
  - congruence.
  - exfalso. apply Hnot. subst x. rewrite He. apply in_map. exact Hb.
  - exfalso. apply Hnot. subst x. rewrite <- He. apply in_map. exact Ha.
  - apply IH; assumption.
Qed.

Theorem retained_out_gone l p it : Inv l -> In it (items l) -> eval_pred p it = false ->
  gone (il_retain l p) (iname it).
Proof.
  intros HI Hin Hp. destruct (retain_inv l p HI) as [H1 H2].
  apply inv_absent_unreachable; [exact H1|]. rewrite H2. intro Hi.
  unfold names in Hi. apply in_map_iff in Hi. destruct Hi as (it' & He & Hin').
  apply filter_In in Hin'. destruct Hin' as [Hin' Hp'].
  assert (it' = it) by (eapply names_inj; [exact (proj1 HI) | exact Hin' | exact Hin | exact He]).
  subst it'. congruence.
Qed.

Theorem truncated_off_gone l n i it : Inv l -> nth_error (items l) i = Some it -> n <= i ->
  gone (il_truncate l n) (iname it).
Proof.
  intros HI Hn Hle. destruct (truncate_inv l n HI) as [H1 H2].
  apply inv_absent_unreachable; [exact H1|]. rewrite H2.
  pose proof (proj1 HI) as Hnd. rewrite <- (firstn_skipn n (items l)) in Hnd, Hn.
  assert (Hlt : i < length (items l)) by (rewrite <- (firstn_skipn n (items l)); apply nth_error_Some; congruence).
  assert (Hlen : length (firstn n (items l)) = n) by (rewrite firstn_length; lia).
  rewrite nth_error_app2 in Hn by lia.
  apply nth_error_In in Hn.
  apply NoDup_names_app in Hnd. destruct Hnd as (_ & _ & Hd).
  intro Hi. apply (Hd _ Hi). apply in_map. exact Hn.
Qed.

(* ---------- every read-only observer after every history equals the plain vector's ---------- *)
Theorem history_observers ops l : Inv l -> ops_ok (items l) ops ->
  exists l', run l ops = Ok l' /\
    il_iter l' = spec_run (items l) ops /\
    il_len l' = length (spec_run (items l) ops) /\
    forall k, il_get l' k = Ok (spec_get (spec_run (items l) ops) k) /\
              il_index l' k = find_idx k (spec_run (items l) ops) /\
              il_contains_key l' k = match find_idx k (spec_run (items l) ops) with Some _ => true | None => false end.
Proof.
  intros HI Hok. destruct (run_refines ops l HI Hok) as (l' & H1 & H2 & H3).
  exists l'. split; [exact H1|]. split; [exact H2|]. split; [unfold il_len; rewrite H2; reflexivity|].
  intro k. rewrite <- H2. split; [apply inv_get; exact H3|].
  destruct H3 as [_ Hm]. unfold il_index, il_contains_key, m_get. rewrite Hm. split; reflexivity.
Qed.
