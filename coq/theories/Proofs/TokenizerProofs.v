(** Totality of the tokenizer model: for every byte string, tokenize_core neither panics nor
    runs out of its fuel (= every loop of tokenizer.rs consumes input). *)
From Coq Require Import Ascii String List Bool NArith Arith Lia.
From A2L Require Import Base.Res Text.Escape Lex.Tokenizer.
Import ListNotations.
Local Open Scope nat_scope.

Lemma span_len p l : length (snd (span p l)) <= length l.
Proof.
  induction l as [|c r IH]; simpl; [lia|].
  destruct (p c); [|simpl; lia]. destruct (span p r) as [a b]. simpl in *. lia.
Qed.

Lemma span_eq_len p l a b : span p l = (a, b) -> length b <= length l.
Proof. intros H. pose proof (span_len p l) as L. rewrite H in L. exact L. Qed.

Lemma span_cons_len p c r a b : span p (c :: r) = (a, b) -> p c = true -> length b <= length r.
Proof.
  simpl. intros H Hc. rewrite Hc in H. destruct (span p r) as [a' b'] eqn:E. inversion H; subst.
  eapply span_eq_len; eauto.
Qed.

Lemma skipN_len n l : length (skipN n l) <= length l.
Proof. unfold skipN. rewrite skipn_length. lia. Qed.

Lemma skipn_len' n (l : bytes) : length (skipn n l) <= length l.
Proof. rewrite skipn_length. lia. Qed.

(* ---------- a2ml_scan never exhausts its fuel ---------- *)
Lemma a2ml_scan_fuel : forall fuel s c, length s < fuel -> a2ml_scan fuel s c <> None.
Proof.
  induction fuel as [|f IH]; intros s c Hlen; [lia|].
  cbn [a2ml_scan].
  destruct (span (fun c0 => negb (aeq c0 "/")) s) as [ns rest] eqn:E.
  pose proof (span_eq_len _ _ _ _ E) as L.
  destruct rest as [|x r1]; [discriminate|].
  simpl in L.
  destruct (starts_with ["/"%char] r1).
  - destruct (span (fun c0 => negb (aeq c0 lf)) (skipN 1 r1)) as [cm r2] eqn:E2.
    apply IH. pose proof (span_eq_len _ _ _ _ E2). pose proof (skipN_len 1 r1). lia.
  - destruct (starts_with ["*"%char] r1).
    + apply IH. pose proof (skipN_len (a2ml_bc (skipN 1 r1)) (skipN 1 r1)). pose proof (skipN_len 1 r1). lia.
    + destruct (starts_with b_slash_end (x :: r1)); [discriminate|]. apply IH. lia.
Qed.

(* ---------- handle_a2ml: no panic, no fuel, suffix does not grow ---------- *)
Lemma handle_a2ml_ok fid st :
  exists st', handle_a2ml fid st = TOk st' /\ length (ts_suf st') <= length (ts_suf st).
Proof.
  unfold handle_a2ml.
  destruct (ts_toks st) as [|t1 [|t2 ts]]; try (eexists; split; [reflexivity | lia]).
  destruct (ttype_eqb (tk_type t2) TBegin && bytes_eqb (tk_text t1) b_a2ml); [|eexists; split; [reflexivity | lia]].
  destruct (a2ml_scan (S (length (ts_suf st))) (ts_suf st) 0%N) as [n|] eqn:E.
  - match goal with |- context [if ?c then _ else _] => destruct c end.
    + eexists; split; [reflexivity|]. cbn [ts_suf set_sep set_line push advance]. apply skipN_len.
    + eexists; split; [reflexivity | lia].
  - exfalso. eapply a2ml_scan_fuel; [|exact E]. lia.
Qed.

(* ---------- one step of the main loop ---------- *)
Lemma one_token_progress fid st c r :
  ts_suf st = c :: r ->
  (exists e, one_token fid st = TErr e) \/
  (exists st', one_token fid st = TOk st' /\ length (ts_suf st') <= length r).
Proof.
  intros Hs. unfold one_token. rewrite Hs.
  destruct (is_ws c) eqn:Hws.
  { destruct (span is_ws (c :: r)) as [w rest] eqn:E. right. eexists; split; [reflexivity|].
    cbn [ts_suf set_sep set_line push advance]. eapply span_cons_len; eauto. }
  destruct (aeq c "/" && negb match r with [] => true | _ :: _ => false end) eqn:Hsl.
  { destruct r as [|c2 r2]; [rewrite andb_false_r in Hsl; discriminate|].
    destruct (aeq c2 "*").
    { destruct (fbce r2) as [n|]; [|left; eauto]. right. eexists; split; [reflexivity|].
      cbn [ts_suf set_sep set_line push advance]. pose proof (skipN_len n r2). simpl. lia. }
    destruct (aeq c2 "/").
    { destruct (span (fun x => negb (aeq x lf)) r2) as [cm rest] eqn:E. right. eexists; split; [reflexivity|].
      cbn [ts_suf set_sep set_line push advance]. pose proof (span_eq_len _ _ _ _ E). simpl. lia. }
    destruct (starts_with b_begin (c2 :: r2)).
    { destruct (sep_check st); [left; eauto|]. right. eexists; split; [reflexivity|].
      cbn [ts_suf set_sep set_line push advance]. apply skipN_len. }
    destruct (starts_with b_end (c2 :: r2)).
    { destruct (sep_check st); [left; eauto|]. right. eexists; split; [reflexivity|].
      cbn [ts_suf set_sep set_line push advance]. apply skipN_len. }
    destruct (starts_with b_include (c2 :: r2)).
    { destruct (sep_check st); [left; eauto|]. right. eexists; split; [reflexivity|].
      cbn [ts_suf set_sep set_line push advance]. apply skipN_len. }
    left; eauto. }
  destruct (aeq c dq).
  { destruct (sep_check st); [left; eauto|]. destruct (find_string_end r) as [n|]; [|left; eauto].
    right. eexists; split; [reflexivity|]. cbn [ts_suf set_sep set_line push advance]. apply skipn_len'. }
  destruct (last_is_include (ts_toks st) && negb (is_digit c) && is_identchar c) eqn:Hp.
  { destruct (sep_check st); [left; eauto|]. destruct (span is_pathchar (c :: r)) as [text rest] eqn:E.
    right. eexists; split; [reflexivity|]. cbn [ts_suf set_sep set_line push advance].
    eapply span_cons_len; eauto. unfold is_pathchar.
    apply andb_prop in Hp. destruct Hp as [_ Hi]. rewrite Hi. reflexivity. }
  destruct (is_alpha c || aeq c "_") eqn:Hid.
  { destruct (sep_check st); [left; eauto|]. destruct (span is_identchar (c :: r)) as [text rest] eqn:E.
    match goal with |- context [handle_a2ml fid ?s] => destruct (handle_a2ml_ok fid s) as (st' & H1 & H2) end.
    right. exists st'. split; [exact H1|]. cbn [ts_suf set_sep set_line push advance] in H2.
    assert (length rest <= length r).
    { eapply span_cons_len; eauto. unfold is_identchar, is_alnum.
      apply orb_prop in Hid. destruct Hid as [Ha|Hu]; [rewrite Ha; reflexivity|].
      rewrite Hu. rewrite !orb_true_r. reflexivity. }
    lia. }
  destruct (aeq c "-" || is_numchar c).
  { destruct (sep_check st); [left; eauto|]. destruct (span is_numchar r) as [num_tl rest] eqn:E.
    pose proof (span_eq_len _ _ _ _ E) as L.
    destruct rest as [|d rest'].
    { match goal with |- context [if ?b then _ else _] => destruct b end; [left; eauto|].
      right. eexists; split; [reflexivity|]. cbn [ts_suf set_sep set_line push advance]. simpl; lia. }
    destruct (negb (is_identchar d)).
    { match goal with |- context [if ?b then _ else _] => destruct b end; [left; eauto|].
      right. eexists; split; [reflexivity|]. cbn [ts_suf set_sep set_line push advance]. exact L. }
    destruct (span is_identchar (d :: rest')) as [idtl rest2] eqn:E2.
    right. eexists; split; [reflexivity|]. cbn [ts_suf set_sep set_line push advance].
    pose proof (span_eq_len _ _ _ _ E2). lia. }
  left; eauto.
Qed.

Lemma tok_loop_total : forall fuel fid st, length (ts_suf st) < fuel ->
  (exists toks, tok_loop fuel fid st = TOk toks) \/ (exists e, tok_loop fuel fid st = TErr e).
Proof.
  induction fuel as [|f IH]; intros fid st Hlen; [lia|].
  destruct (ts_suf st) as [|c r] eqn:Hs.
  - left. exists (frev (ts_toks st)). destruct f; simpl; rewrite Hs; reflexivity.
  - cbn [tok_loop]. rewrite Hs.
    destruct (one_token_progress fid st c r Hs) as [[e He] | (st' & He & Hl)]; rewrite He.
    + right; eauto.
    + apply IH. simpl in Hlen. lia.
Qed.

Theorem tokenize_core_total fid text :
  (exists toks, tokenize_core fid text = TOk toks) \/ (exists e, tokenize_core fid text = TErr e).
Proof. unfold tokenize_core. apply tok_loop_total. simpl. lia. Qed.

Corollary tokenize_core_no_panic fid text : forall s, tokenize_core fid text <> TPanic s.
Proof. intros s. destruct (tokenize_core_total fid text) as [[t H]|[e H]]; rewrite H; discriminate. Qed.
Corollary tokenize_core_no_fuel fid text : tokenize_core fid text <> TFuel.
Proof. destruct (tokenize_core_total fid text) as [[t H]|[e H]]; rewrite H; discriminate. Qed.
