(** C01: the round trip through text, for the generic writer, the tokenizer and the generic parser together.  For a
    block that meets [confb] and whose token texts are well-formed tokens, the tokenizer cuts the text that the writer
    produces into [wtoks] (Proofs/WriterUnitsProofs.v, Proofs/LexUnitsProofs.v) and the parser rebuilds the block from
    these tokens (Proofs/RoundTripProofs.v). *)
From Coq Require Import Ascii String List Bool Arith NArith ZArith Lia Sorting.Sorted.
From A2L Require Import Base.StableSort Text.Escape Text.IntText Lex.Tokenizer Gram.Spec A2ml.Types Gram.PState Gram.Parser Gram.Writer
  Gram.TokWriter Proofs.LayoutProofs Proofs.LexUnitsProofs Proofs.WriterUnitsProofs Proofs.CursorProofs Proofs.RoundTripProofs
  Proofs.RoundTripOrderProofs.
Import ListNotations.
Local Open Scope N_scope.

Section Text.
  Variable S : spec.
  Variable posrs : list (string * posr).
  Variable ftab : list fentry.
  Variable names : list bytes.
  Variable ifuel : nat.

  Lemma units_ok (us : list unit) : Forall ws_ok us -> Forall token_text (usnd us) -> Forall unit_ok us.
  Proof.
    induction us as [|u us IH]; intros Hw Ht; [constructor|]. inversion Hw; subst. rewrite usnd_cons in Ht. inversion Ht; subst.
    constructor; [split; assumption | apply IH; assumption].
  Qed.

  (* the lexical half: the tokens of the written text *)
  Theorem written_text_tokens f td v nxt indent : confb S posrs ftab f td v nxt = true -> Forall token_text (wtoks S posrs ftab f v) ->
    exists toks, tokenize_core 0 (write_node S posrs ftab names f v indent) = TOk toks /\ map shape_of toks = wtoks S posrs ftab f v.
  Proof.
    intros Hc Ht. destruct (write_units S posrs ftab names f td v nxt indent empty_out Hc) as (us & E & M & W & _).
    unfold write_node. rewrite (finish_extends us _ E).
    rewrite <- M in Ht. destruct (tokenize_units 0 us (units_ok us W Ht)) as (toks & E1 & M1 & _).
    exists toks. split; [exact E1|]. rewrite M1. exact M.
  Qed.

  (* both halves: write a block, append its /end TAG, tokenize, parse *)
  Theorem block_roundtrip f F td v tag indent so line : (f < F)%nat -> is_blockb td = true ->
    confb S posrs ftab f td v None = true -> Forall token_text (wtoks S posrs ftab f v) -> ident_text tag ->
    exists toks v' s',
      tokenize_core 0 (write_node S posrs ftab names f v indent ++ bytes_of " /end " ++ tag) = TOk toks /\
      parse_ty F S ifuel td (mkCtx tag O line) so (init_state toks false 1 ftab) = (ROk v', s') /\
      ps_after s' = [] /\ erase v' = erase (reorder S posrs f v).
  Proof.
    intros HF Hb Hc Ht Htag.
    destruct (write_units S posrs ftab names f td v None indent empty_out Hc) as (us & E & M & W & _).
    set (sp := [" "%char]).
    assert (Hsp : ws_text sp) by (split; [discriminate | repeat constructor]).
    set (us' := us ++ [(sp, (TEnd, "/"%char :: b_end)); (sp, (TIdentifier, tag))]).
    assert (Hr : render us' = write_node S posrs ftab names f v indent ++ bytes_of " /end " ++ tag).
    { unfold us'. rewrite render_app. unfold write_node. rewrite (finish_extends us _ E). cbn [render flat_map fst snd].
      rewrite app_nil_r. reflexivity. }
    assert (Hok : Forall unit_ok us').
    { unfold us'. apply Forall_app. split.
      - apply units_ok; [exact W | rewrite M; exact Ht].
      - constructor; [split; [exact Hsp | reflexivity]|]. constructor; [split; [exact Hsp | exact Htag]|]. constructor. }
    destruct (tokenize_units 0 us' Hok) as (toks & E1 & M1 & Fid). rewrite Hr in E1.
    destruct (tokenize_lines_monotone 0 _ toks E1) as [Hmono Hge].
    assert (Hshapes : map shape_of toks = wtoks S posrs ftab f v ++ closing true tag).
    { rewrite M1. unfold us'. change (map snd (us ++ [(sp, (TEnd, "/"%char :: b_end)); (sp, (TIdentifier, tag))]))
        with (usnd (us ++ [(sp, (TEnd, "/"%char :: b_end)); (sp, (TIdentifier, tag))])).
      rewrite usnd_app, M. reflexivity. }
    assert (Hne : toks <> []).
    { intros ->. cbn [map] in Hshapes. symmetry in Hshapes. apply app_eq_nil in Hshapes. destruct Hshapes as [_ Q]. discriminate. }
    set (s := init_state toks false 1 ftab).
    assert (Htoks : Forall tok_ok toks).
    { apply Forall_forall. intros t Hin. rewrite Forall_forall in Fid, Hge. unfold tok_ok.
      assert (Hsh : In (shape_of t) (map snd us')) by (rewrite <- M1; apply in_map; exact Hin).
      apply in_map_iff in Hsh. destruct Hsh as (u & Hu & Hinu). rewrite Forall_forall in Hok. destruct (Hok u Hinu) as [_ Htt].
      rewrite Hu in Htt. split; [apply Fid; exact Hin|]. split.
      - intros Hcm. unfold token_text, shape_of in Htt. cbn [fst] in Htt. rewrite Hcm in Htt. exact Htt.
      - split; [apply (token_text_nonempty (shape_of t) Htt) | apply Hge; exact Hin]. }
    assert (I : Inv s).
    { constructor; cbn.
      - reflexivity.
      - exact Htoks.
      - exact Hmono.
      - destruct toks as [|t0 r]; [congruence|]. exists (tk_line t0). split; [reflexivity|]. inversion Hge; assumption.
      - reflexivity.
      - reflexivity.
      - lia. }
    destruct (frame S posrs ftab ifuel f F td v (mkCtx tag O line) so s toks [] None HF eq_refl I eq_refl Hc) as (v' & s' & Ep & A & Ev).
    { cbn. rewrite app_nil_r. reflexivity. }
    { cbn [c_element]. rewrite Hb. exact Hshapes. }
    { rewrite Hb. discriminate. }
    exists toks, v', s'. split; [exact E1|]. split; [exact Ep|]. split; [|exact Ev].
    pose proof (adv_after _ _ _ A) as Q. cbn [ps_after s init_state] in Q.
    assert (length toks = length (toks ++ ps_after s')) by (rewrite <- Q; reflexivity).
    rewrite app_length in H. destruct (ps_after s'); [reflexivity | cbn in H; lia].
  Qed.
End Text.
Print Assumptions block_roundtrip.
