(** The order in which a group is written depends on the keys of its entries only: changing what the entries carry
    (the text of a child in the writer, the child itself in Gram/TokWriter.v) commutes with [group_order]. *)
From Coq Require Import Ascii String List Bool NArith Lia.
From A2L Require Import Base.StableSort Text.Escape Gram.Writer.
Import ListNotations.
Local Open Scope N_scope.

Section GMap.
  Context {P Q : Type}.
  Variable f : P -> Q.
  Definition gmap (g : ginfo P) : ginfo Q :=
    match g with
    | GTag tag inc uid line so eo blk x pos => GTag tag inc uid line so eo blk (f x) pos
    | GComment text inc uid line so => GComment text inc uid line so
    end.

  Lemma gmap_uid g : g_uid (gmap g) = g_uid g. Proof. destruct g; reflexivity. Qed.
  Lemma gmap_line g : g_line (gmap g) = g_line g. Proof. destruct g; reflexivity. Qed.
  Lemma gmap_tag g : g_tag (gmap g) = g_tag g. Proof. destruct g; reflexivity. Qed.
  Lemma gmap_pos g : g_pos (gmap g) = g_pos g. Proof. destruct g; reflexivity. Qed.

  Lemma gmap_sort_leb a b : sort_leb (gmap a) (gmap b) = sort_leb a b.
  Proof. unfold sort_leb, sort_function. rewrite !gmap_uid, !gmap_line, !gmap_tag. reflexivity. Qed.
  Lemma gmap_pos_leb a b : pos_leb (gmap a) (gmap b) = pos_leb a b.
  Proof. unfold pos_leb. rewrite !gmap_pos. reflexivity. Qed.
End GMap.

Lemma ins_map {A B} (g : A -> B) (le : A -> A -> bool) (le' : B -> B -> bool) :
  (forall a b, le' (g a) (g b) = le a b) -> forall x l, ins le' (g x) (map g l) = map g (ins le x l).
Proof.
  intros H x l. induction l as [|y r IH]; [reflexivity|]. cbn [map ins]. rewrite H. destruct (le x y); cbn [map]; [reflexivity|].
  rewrite IH. reflexivity.
Qed.

Lemma ssort_map {A B} (g : A -> B) (le : A -> A -> bool) (le' : B -> B -> bool) :
  (forall a b, le' (g a) (g b) = le a b) -> forall l, ssort le' (map g l) = map g (ssort le l).
Proof.
  intros H l. induction l as [|x r IH]; [reflexivity|]. cbn [map ssort]. rewrite IH. apply ins_map. exact H.
Qed.

Lemma filter_map_comm {A B} (g : A -> B) (p : A -> bool) (p' : B -> bool) :
  (forall a, p' (g a) = p a) -> forall l, filter p' (map g l) = map g (filter p l).
Proof.
  intros H l. induction l as [|x r IH]; [reflexivity|]. cbn [map filter]. rewrite H. destruct (p x); cbn [map]; rewrite IH; reflexivity.
Qed.

Section Commute.
  Context {P Q : Type}.
  Variable f : P -> Q.

  Lemma replace_restricted_map : forall (g srt : list (ginfo P)),
    replace_restricted (map (gmap f) g) (map (gmap f) srt) = map (gmap f) (replace_restricted g srt).
  Proof.
    induction g as [|a g IH]; intros srt; [reflexivity|]. cbn [map replace_restricted]. rewrite gmap_pos.
    destruct (g_pos a).
    - destruct srt as [|s sr]; cbn [map].
      + f_equal. apply (IH []).
      + f_equal. apply (IH sr).
    - cbn [map]. f_equal. apply (IH srt).
  Qed.

  Lemma group_order_map (G : list (ginfo P)) : group_order (map (gmap f) G) = map (gmap f) (group_order G).
  Proof.
    unfold group_order, apply_position_restrictions.
    rewrite (ssort_map (gmap f) sort_leb sort_leb (gmap_sort_leb f)).
    rewrite (filter_map_comm (gmap f) (fun g => match g_pos g with Some _ => true | None => false end)
                             (fun g => match g_pos g with Some _ => true | None => false end)) by (intros a; rewrite gmap_pos; reflexivity).
    rewrite map_length. destruct (Nat.ltb 1 _); [|reflexivity].
    rewrite (ssort_map (gmap f) pos_leb pos_leb (gmap_pos_leb f)). apply replace_restricted_map.
  Qed.
End Commute.
